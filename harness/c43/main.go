// C43 correspondence harness: server list pings end to end through the public Proxy.HandleConn over
// net.Pipe.  A fake client sends a handshake (any protocol number, next state) and a sequence of
// status-phase frames and records every frame the proxy sends back until the proxy closes the
// connection.  Fake offline-mode players (real logins through HandleConn, held open by a backend
// that never answers) provide the online count.
package main

import (
	"bufio"
	"encoding/json"
	"fmt"
	"io"
	"net"
	"os"
	"strconv"
	"strings"
	"sync"
	"time"

	jconfig "go.minekube.com/gate/pkg/edition/java/config"
	"go.minekube.com/gate/pkg/edition/java/proto/version"
	"go.minekube.com/gate/pkg/edition/java/proxy"
	"go.minekube.com/gate/pkg/util/uuid"

	"verifharness/hx"
)

type pipeConn struct{ net.Conn }

func (p pipeConn) RemoteAddr() net.Addr { return &net.TCPAddr{IP: net.IPv4(127, 0, 0, 1), Port: 40000} }
func (p pipeConn) LocalAddr() net.Addr  { return &net.TCPAddr{IP: net.IPv4(127, 0, 0, 1), Port: 25565} }

func varint(v int) []byte {
	var out []byte
	u := uint32(int32(v))
	for {
		if u&^0x7f == 0 {
			return append(out, byte(u))
		}
		out = append(out, byte(u&0x7f|0x80))
		u >>= 7
	}
}
func frame(body []byte) []byte { return append(varint(len(body)), body...) }
func mcString(s string) []byte { return append(varint(len(s)), s...) }

func handshake(protocol, next int) []byte {
	hs := append([]byte{0x00}, varint(protocol)...)
	hs = append(hs, mcString("localhost")...)
	hs = append(hs, 0x63, 0xdd)
	hs = append(hs, varint(next)...)
	return frame(hs)
}

// readFrame reads one uncompressed frame: (packet id, data).
func readFrame(rd *bufio.Reader) (int, []byte, error) {
	readVar := func(r io.ByteReader) (int, error) {
		var v uint32
		for i := 0; i < 5; i++ {
			b, err := r.ReadByte()
			if err != nil {
				return 0, err
			}
			v |= uint32(b&0x7f) << (7 * i)
			if b&0x80 == 0 {
				return int(int32(v)), nil
			}
		}
		return 0, fmt.Errorf("varint too long")
	}
	n, err := readVar(rd)
	if err != nil {
		return 0, nil, err
	}
	if n <= 0 || n > 1<<22 {
		return 0, nil, fmt.Errorf("bad frame length %d", n)
	}
	buf := make([]byte, n)
	if _, err := io.ReadFull(rd, buf); err != nil {
		return 0, nil, err
	}
	br := strings.NewReader(string(buf))
	id, err := readVar(br)
	if err != nil {
		return 0, nil, err
	}
	return id, buf[len(buf)-br.Len():], nil
}

type env struct {
	p       *proxy.Proxy
	backend net.Listener
	held    []net.Conn // client ends of logged-in fake players
	maxShow int
}

func newEnv(maxShow int) *env {
	ln, err := net.Listen("tcp", "127.0.0.1:0")
	if err != nil {
		panic(err)
	}
	go func() { // a backend that accepts and never answers: logged-in players stay "connecting"
		for {
			c, err := ln.Accept()
			if err != nil {
				return
			}
			go func() { _, _ = io.Copy(io.Discard, c) }()
		}
	}()
	cfg := jconfig.DefaultConfig
	cfg.OnlineMode = false
	cfg.ForceKeyAuthentication = false
	cfg.Compression.Threshold = -1
	cfg.Quota.Connections.Enabled = false
	cfg.Quota.Logins.Enabled = false
	cfg.Forwarding.Mode = jconfig.NoneForwardingMode
	cfg.Servers = map[string]string{"s": ln.Addr().String()}
	cfg.Try = []string{"s"}
	cfg.Status.ShowMaxPlayers = maxShow
	p, err := proxy.New(proxy.Options{Config: &cfg})
	if err != nil {
		panic(err)
	}
	if _, err := p.Register(proxy.NewServerInfo("s", ln.Addr())); err != nil {
		panic(err)
	}
	return &env{p: p, backend: ln, maxShow: maxShow}
}

// setOnline logs fake players in until exactly n are online (observed through the public PlayerCount).
// The count only grows during a run: a player whose backend never answers cannot be logged out from the
// client side (its read loop is inside the blocking backend connect).
func (e *env) setOnline(n int) bool {
	if len(e.held) > n {
		return false
	}
	for len(e.held) < n {
		name := fmt.Sprintf("fake%04d", len(e.held))
		cli, srv := net.Pipe()
		go e.p.HandleConn(pipeConn{srv})
		hello := append(handshake(47, 2), frame(append([]byte{0x00}, mcString(name)...))...)
		go func() { _, _ = cli.Write(hello) }()
		_ = cli.SetReadDeadline(time.Now().Add(10 * time.Second))
		rd := bufio.NewReader(cli)
		id, _, err := readFrame(rd)
		if err != nil || id != 0x02 { // ServerLoginSuccess
			fmt.Fprintln(os.Stderr, "fake login failed:", id, err)
			return false
		}
		_ = cli.SetReadDeadline(time.Time{})
		go func() { _, _ = io.Copy(io.Discard, rd) }()
		e.held = append(e.held, cli)
	}
	deadline := time.Now().Add(10 * time.Second)
	for e.p.PlayerCount() != n {
		if time.Now().After(deadline) {
			fmt.Fprintln(os.Stderr, "player count", e.p.PlayerCount(), "want", n)
			return false
		}
		time.Sleep(2 * time.Millisecond)
	}
	return true
}

// one client packet of a status-phase sequence, in line-protocol form:
//
//	R            status request                        R<hex>  request followed by junk bytes
//	P<hex>       ping, <hex> = the bytes after the id  (8 = well-formed, >8 = junk tail, <8 = truncated)
//	U<id>:<hex>  a packet id that is not registered in the status state
//	E            an empty frame (length 0)
func encodeOp(op string) []byte {
	switch op[0] {
	case 'R':
		return frame(append([]byte{0x00}, hx.UnHex(orDash(op[1:]))...))
	case 'P':
		return frame(append([]byte{0x01}, hx.UnHex(orDash(op[1:]))...))
	case 'U':
		parts := strings.SplitN(op[1:], ":", 2)
		id, _ := strconv.Atoi(parts[0])
		return frame(append(varint(id), hx.UnHex(parts[1])...))
	case 'E':
		return []byte{0x00}
	}
	panic("bad op " + op)
}

func orDash(s string) string {
	if s == "" {
		return "-"
	}
	return s
}

// session runs one connection and returns what the client observed: the frames received, then how the
// connection ended.
func (e *env) session(protocol, next int, ops []string, oneWrite bool) string {
	cli, srv := net.Pipe()
	done := make(chan struct{})
	go func() { defer close(done); e.p.HandleConn(pipeConn{srv}) }()
	_ = cli.SetDeadline(time.Now().Add(4 * time.Second))
	go func() {
		if oneWrite { // everything in one segment: the proxy's bufio sees all frames at once
			buf := handshake(protocol, next)
			for _, op := range ops {
				buf = append(buf, encodeOp(op)...)
			}
			_, _ = cli.Write(buf)
			return
		}
		if _, err := cli.Write(handshake(protocol, next)); err != nil {
			return
		}
		for _, op := range ops {
			if _, err := cli.Write(encodeOp(op)); err != nil {
				return
			}
		}
	}()
	var out []string
	rd := bufio.NewReader(cli)
	end := "closed"
	for {
		id, data, err := readFrame(rd)
		if err != nil {
			if ne, ok := err.(net.Error); ok && ne.Timeout() {
				end = "hang"
			} else if err != io.EOF && err != io.ErrClosedPipe && !strings.Contains(err.Error(), "closed") {
				end = "garbage"
			}
			break
		}
		switch id {
		case 0x00:
			out = append(out, parseResponse(data))
		case 0x01:
			out = append(out, "echo:"+hx.Hex(data))
		default:
			out = append(out, fmt.Sprintf("packet:%d", id))
		}
		if len(out) > 64 {
			end = "flood"
			break
		}
	}
	_ = cli.Close()
	select {
	case <-done:
	case <-time.After(10 * time.Second):
		end += "+handler-hang"
	}
	return strings.Join(append(out, end), " ")
}

// parseResponse: StatusResponse data = one string holding the JSON.
func parseResponse(data []byte) string {
	rd := bufio.NewReader(strings.NewReader(string(data)))
	var n uint32
	for i := 0; i < 5; i++ {
		b, err := rd.ReadByte()
		if err != nil {
			return "resp:bad-string"
		}
		n |= uint32(b&0x7f) << (7 * i)
		if b&0x80 == 0 {
			break
		}
	}
	js := make([]byte, n)
	if _, err := io.ReadFull(rd, js); err != nil || rd.Buffered() != 0 {
		return "resp:bad-string"
	}
	var v struct {
		Version *struct {
			Protocol *int    `json:"protocol"`
			Name     *string `json:"name"`
		} `json:"version"`
		Players *struct {
			Online *int `json:"online"`
			Max    *int `json:"max"`
		} `json:"players"`
		Description json.RawMessage `json:"description"`
	}
	if err := json.Unmarshal(js, &v); err != nil {
		return "resp:bad-json"
	}
	if v.Version == nil || v.Version.Protocol == nil || v.Version.Name == nil || v.Players == nil ||
		v.Players.Online == nil || v.Players.Max == nil || len(v.Description) == 0 {
		return "resp:missing-field"
	}
	return fmt.Sprintf("resp:proto=%d,online=%d,max=%d", *v.Version.Protocol, *v.Players.Online, *v.Players.Max)
}

// ---------- registry histories (the history behind players.online) ----------

type stubConn struct {
	once   sync.Once
	closed chan struct{}
}

func newStub() *stubConn { return &stubConn{closed: make(chan struct{})} }
func (s *stubConn) Read(b []byte) (int, error) {
	<-s.closed
	return 0, net.ErrClosed
}
func (s *stubConn) Write(b []byte) (int, error) { return len(b), nil }
func (s *stubConn) Close() error {
	s.once.Do(func() { close(s.closed) })
	return nil
}
func (s *stubConn) LocalAddr() net.Addr { return &net.TCPAddr{IP: net.IPv4(127, 0, 0, 1), Port: 25565} }
func (s *stubConn) RemoteAddr() net.Addr {
	return &net.TCPAddr{IP: net.IPv4(127, 0, 0, 1), Port: 40000}
}
func (s *stubConn) SetDeadline(t time.Time) error      { return nil }
func (s *stubConn) SetReadDeadline(t time.Time) error  { return nil }
func (s *stubConn) SetWriteDeadline(t time.Time) error { return nil }

func uid(n int) uuid.UUID {
	var u uuid.UUID
	u[12], u[13], u[14], u[15] = byte(n>>24), byte(n>>16), byte(n>>8), byte(n)
	return u
}

type hdecl struct {
	name string
	id   int
}

// history runs register/unregister steps against the REAL registry of a fresh proxy (through the C11 verif
// hooks: real connectedPlayer, real registerConnection, real teardown on Disconnect) and after every step
// performs one status exchange through HandleConn and reads len(Players()).
func history(onlineMode, kick bool, decls []hdecl, ops []string) string {
	cfg := jconfig.DefaultConfig
	cfg.OnlineMode = onlineMode
	cfg.OnlineModeKickExistingPlayers = kick
	cfg.Quota.Connections.Enabled = false
	cfg.Quota.Logins.Enabled = false
	px, err := proxy.New(proxy.Options{Config: &cfg})
	if err != nil {
		return "proxy-new-error"
	}
	e := &env{p: px}
	pls := make([]*proxy.C11Player, len(decls))
	for i, d := range decls {
		pls[i] = proxy.C11NewPlayer(px, newStub(), d.name, uid(d.id), onlineMode)
	}
	var on, pl []string
	for _, op := range ops {
		i, _ := strconv.Atoi(op[1:])
		switch op[0] {
		case 'r':
			proxy.C11Register(px, pls[i])
		case 'u':
			pls[i].Player().Disconnect(nil)
		}
		out := e.session(776, 1, []string{"R", "Pfeedfacecafebeef"}, false)
		k := "x"
		if j := strings.Index(out, "online="); j >= 0 {
			k = out[j+len("online="):]
			k = k[:strings.IndexAny(k, ", ")]
		}
		on = append(on, k)
		pl = append(pl, strconv.Itoa(len(px.Players())))
	}
	return "on=" + strings.Join(on, ",") + " pl=" + strings.Join(pl, ",")
}

func b01(b bool) string {
	if b {
		return "1"
	}
	return "0"
}

func hex8(r *hx.Rng) string { return hx.Hex(r.Bytes(8)) }

func genOp(r *hx.Rng) string {
	switch r.Intn(16) {
	case 0, 1, 2, 3, 4:
		return "R"
	case 5, 6, 7, 8, 9:
		return "P" + hex8(r)
	case 10:
		return "P" + hx.Hex(r.Bytes(9+r.Intn(12))) // junk tail
	case 11:
		return "P" + strings.TrimPrefix(hx.Hex(r.Bytes(r.Intn(8))), "-") // truncated
	case 12:
		return fmt.Sprintf("U%d:%s", hx.Pick(r, []int{2, 3, 5, 16, 122, 127, 128, 255, 300, 1 << 20, -1}), hx.Hex(r.Bytes(r.Intn(6))))
	case 13:
		return "E"
	case 14:
		return "R" + hx.Hex(r.Bytes(1+r.Intn(5)))
	default:
		return hx.Pick(r, []string{"P0000000000000000", "Pffffffffffffffff", "P8000000000000000", "P7fffffffffffffff"})
	}
}

func main() {
	run := hx.Start()
	defer run.Finish()
	r := run.Rng

	var known []int
	for _, v := range version.SupportedVersions {
		known = append(known, int(v.Protocol))
	}
	unknown := []int{0, 1, 2, 3, 6, 46, 48, 106, 109, 401, 498, 578, 734, 777, 778, 1000, 9999, 1<<31 - 1}
	negative := []int{-1, -2, -3, -5, -100, -(1 << 31)}
	maxShow := 1000 + int(run.Seed%7)
	e := newEnv(maxShow)
	online := 0
	if !e.setOnline(0) {
		panic("cannot reach 0 players")
	}
	run.Extra["supported_versions"] = len(known)

	hangs := 0
	do := func(class string, protocol, next int, ops []string, oneWrite bool) {
		w := "s"
		if oneWrite {
			w = "1"
		}
		// every sequence ends with a probe ping: it is echoed iff the connection is still open, and it always
		// makes the proxy close, so "still open" is observed without waiting for a timeout
		ops = append(append([]string(nil), ops...), "Pfeedfacecafebeef")
		line := fmt.Sprintf("conn %d %d %d %d %s %s", protocol, next, online, maxShow, w, strings.Join(ops, ","))
		if hangs >= 6 { // the proxy stopped closing connections: a few witnesses are enough, do not wait out thousands
			return
		}
		out := hx.Guard(40*time.Second, func() string { return e.session(protocol, next, ops, oneWrite) })
		if strings.Contains(out, "hang") {
			hangs++
		}
		run.Case(class, line, out)
	}

	// ---- registry histories: players.online after register/unregister steps, in every registry mode
	doHist := func(class string, onlineMode, kick bool, decls []hdecl, ops []string) {
		var ds []string
		for _, d := range decls {
			ds = append(ds, fmt.Sprintf("%s:%d", d.name, d.id))
		}
		line := fmt.Sprintf("hist %s %s %s %s", b01(onlineMode), b01(kick), strings.Join(ds, ","), strings.Join(ops, ","))
		out := hx.Guard(60*time.Second, func() string { return history(onlineMode, kick, decls, ops) })
		run.Case(class, line, out)
	}
	for _, m := range [][2]bool{{true, true}, {true, false}, {false, true}, {false, false}} {
		// different UUIDs, names equal ignoring case; same UUID twice; a rejected duplicate leaving
		doHist("hist-fixed", m[0], m[1], []hdecl{{"Alice", 1}, {"ALICE", 2}}, []string{"r0", "r1", "u1", "u0"})
		doHist("hist-fixed", m[0], m[1], []hdecl{{"Alice", 1}, {"alice", 2}}, []string{"r0", "r1", "u0", "u1"})
		doHist("hist-fixed", m[0], m[1], []hdecl{{"Bob", 1}, {"Bob", 1}, {"Eve", 3}}, []string{"r0", "r2", "r1", "u1", "u0", "u2"})
		doHist("hist-fixed", m[0], m[1], []hdecl{{"Bob", 1}, {"Eve", 1}, {"bob", 2}}, []string{"r0", "r1", "r2", "u2", "u1", "u0"})
	}
	namePool := []string{"Bob", "bob", "BOB", "Eve", "eve", "Zed"}
	for i := 0; i < run.Scale(120, 2500); i++ {
		nc := 2 + r.Intn(4)
		decls := make([]hdecl, nc)
		for j := range decls {
			decls[j] = hdecl{hx.Pick(r, namePool), 1 + r.Intn(3)}
		}
		// every connection registers at most once and is torn down at most once (after its registration, or
		// without one: the teardown of a login that never got registered)
		var ops []string
		regd, torn := make([]bool, nc), make([]bool, nc)
		for k := 0; k < 2+r.Intn(2*nc); k++ {
			j := r.Intn(nc)
			switch {
			case !regd[j] && !torn[j] && r.Chance(4, 5):
				regd[j] = true
				ops = append(ops, fmt.Sprintf("r%d", j))
			case !torn[j]:
				torn[j] = true
				ops = append(ops, fmt.Sprintf("u%d", j))
			}
		}
		if len(ops) == 0 {
			continue
		}
		mode := r.Intn(4)
		if r.Chance(1, 2) {
			mode = 0 // kick mode is where the two indices can differ in size
		}
		doHist("hist-random", mode < 2, mode%2 == 0, decls, ops)
	}

	// ---- fixed regression cases first
	fixed := [][]string{
		{"R", "P0102030405060708"}, {"R"}, {"P0102030405060708"}, {"R", "R"}, {"R", "R", "P0102030405060708"},
		{"R", "P0102030405060708", "R"}, {"R", "P0102030405060708", "P1112131415161718"}, {"U2:00"}, {"R", "U2:"},
		{"E", "R", "E", "P0102030405060708"}, {"R", "P01020304"}, {"R", "P010203040506070809"}, {"Rff", "P0102030405060708"}, {},
		{"E", "E", "E", "E", "E", "E", "E", "E", "E", "E", "E", "E", "R"},
	}
	for _, p := range []int{776, 47, 4, 764, 9999, 109, 0, -1, -5, -2} {
		for _, seq := range fixed {
			do("fixed", p, 1, seq, false)
		}
	}
	// next-state values of the handshake
	for _, nx := range []int{0, 4, 5, -1, 99, 1} {
		do("next-state", 764, nx, []string{"R", "P0102030405060708"}, false)
	}
	// ---- every supported protocol, plus unknown and negative numbers, with the canonical exchange
	for _, k := range []int{0, 1, 3} {
		if !e.setOnline(k) {
			panic("cannot set online players")
		}
		online = k
		for _, p := range known {
			do("supported", p, 1, []string{"R", "P" + hex8(r)}, r.Bool())
		}
		for _, p := range unknown {
			do("unknown", p, 1, []string{"R", "P" + hex8(r)}, r.Bool())
		}
		for _, p := range negative {
			do("negative", p, 1, []string{"R", "P" + hex8(r)}, r.Bool())
		}
	}
	// ---- random sequences × random protocol × varying player count
	n := run.Scale(3000, 30000)
	for i := 0; i < n; i++ {
		if i%run.Scale(500, 3000) == 0 {
			k := online + r.Intn(3)
			if !e.setOnline(k) {
				panic("cannot set online players")
			}
			online = k
		}
		var p int
		switch r.Intn(4) {
		case 0, 1:
			p = hx.Pick(r, known)
		case 2:
			p = hx.Pick(r, unknown)
		default:
			p = hx.Pick(r, negative)
		}
		if r.Chance(1, 20) {
			p = int(int32(r.U64()))
		}
		ln := r.Intn(6)
		if r.Chance(1, 15) {
			ln = 6 + r.Intn(10)
		}
		ops := make([]string, ln)
		for j := range ops {
			ops[j] = genOp(r)
		}
		do("random", p, 1, ops, r.Chance(1, 3))
	}
	_ = e.backend.Close()
}

func orUnderscore(s string) string {
	if s == "" {
		return "_"
	}
	return s
}
