// C38 correspondence harness: runs the REAL reload.watchWithOptions loop (through the verif hook) on a real
// scratch directory with a scripted watcher, a short injected reconcile interval and the real 100 ms debounce.
//
// One case = one script: an initial content, a reconcile interval R (ms) and a list of operations at nominal
// times (ms after the loop started):
//
//	w:<c>  write content c in place        r:<c>  atomic replace (temp file + rename)      d  delete the file
//	m:<c>  write in place and restore the previous mtime (os.Chtimes): same inode, same mtime, and — between
//	       a and b — same size; to/from c the size differs        p:<c>  atomic replace carrying the old mtime
//	e      deliver a notification for the config file (then a second, ignored one, as a barrier)
//	E      same, but with an unclean path ("dir/./config.yml")
//	o      deliver a notification for another file (ignored by the loop)
//	x:<k>  make the watcher fail (k = err | chan | dir | dir2); the loop re-attaches on its next tick
//	q:<n>  the next n attempts of the watcher factory fail (99: all) — watcher loss with failing re-attach:
//	       no notifications AND no watcher; the periodic reconciliation must still find every change
//
// A write without a following e/E is a change whose notification was LOST; extra e's are duplicated/delayed
// notifications.  Compared with the model: the SEQUENCE OF CONTENTS seen by the callback, the callback instants
// in 100 ms buckets (floor((ms+10)/100): all nominal expiry instants sit 0–20 ms after a multiple of 100 ms, so
// a callback may be up to ~70 ms late without changing its bucket) and one generous bucket ("the last
// callback came within 3x(R+debounce) of the last file operation").
//
// Determinism on a loaded machine: scripts come from two structured families whose operations sit far from
// every instant at which a timer of the loop can expire —
//
//	tickless: R = 100 s (no reconcile tick during the script); bursts of back-to-back operations (ordered by
//	          channel handshakes, not by time) every 350 ms, so only the 100 ms debounce runs between bursts;
//	ticked  : R ∈ {600,700,800} ms; per tick period at most one lone write at tick+50 ms (between the tick's
//	          fingerprint and its debounce expiry, tolerance ±40 ms) and one burst at tick+300 ms (±70 ms).
//
// Every script is run as independent instances and emitted only when two clean instances (all operations
// within maxDevMs of their nominal time) agree; otherwise the case is emitted as `unstable` (counted, never
// compared).  The Lean driver additionally refuses to predict a script in which an operation is nominally
// closer than its own margin to a model deadline (it then echoes the implementation's sequence, verdict from
// the spec only).
package main

import (
	"context"
	"errors"
	"fmt"
	"os"
	"path/filepath"
	"sort"
	"strconv"
	"strings"
	"sync"
	"syscall"
	"time"

	"github.com/fsnotify/fsnotify"
	vx "go.minekube.com/gate/pkg/verifexport"

	"verifharness/hx"
)

const (
	maxDevMs   = 25 // ms: an operation later than this makes the instance unclean
	syncWaitMs = 80
	tickless   = 100000 // ms: reconcile interval of the tickless family
)

var debounceMs = int(vx.C38DebounceDuration / time.Millisecond)

type op struct {
	t    int
	kind string // w r d e E o x
	arg  string
}

type script struct {
	class string
	R     int
	init  string
	ops   []op
	end   int
}

func (s script) opsString() string {
	if len(s.ops) == 0 {
		return "-"
	}
	parts := make([]string, len(s.ops))
	for i, o := range s.ops {
		if o.arg != "" {
			parts[i] = fmt.Sprintf("%d:%s:%s", o.t, o.kind, o.arg)
		} else {
			parts[i] = fmt.Sprintf("%d:%s", o.t, o.kind)
		}
	}
	return strings.Join(parts, ",")
}
func (s script) line() string {
	return fmt.Sprintf("script %d %d %s %d %s", s.R, debounceMs, s.init, s.end, s.opsString())
}

// ---------- stall detector ----------

// The loop under test is timed by real timers.  A heartbeat goroutine notices when this process was not
// scheduled for a while (loaded machine): every instance whose lifetime overlaps such a stall is unclean and
// is run again — a stall can make correct code miss a nominal deadline, so nothing is concluded from it.
type stallLog struct {
	mu     sync.Mutex
	stalls [][2]time.Time
}

var stallsSeen stallLog

const stallMs = 20

func heartbeat() {
	for {
		t0 := time.Now()
		time.Sleep(2 * time.Millisecond)
		if t1 := time.Now(); t1.Sub(t0) > (stallMs+2)*time.Millisecond {
			stallsSeen.mu.Lock()
			stallsSeen.stalls = append(stallsSeen.stalls, [2]time.Time{t0, t1})
			stallsSeen.mu.Unlock()
		}
	}
}

func stalledBetween(a, b time.Time) bool {
	stallsSeen.mu.Lock()
	defer stallsSeen.mu.Unlock()
	for _, s := range stallsSeen.stalls {
		if s[0].Before(b) && s[1].After(a) {
			return true
		}
	}
	return false
}

// ---------- scripted watcher ----------

type fakeWatcher struct {
	events chan fsnotify.Event
	errs   chan error
	closed chan struct{}
	once   sync.Once
	evOnce sync.Once
}

func newFake() *fakeWatcher {
	return &fakeWatcher{events: make(chan fsnotify.Event), errs: make(chan error), closed: make(chan struct{})}
}
func (w *fakeWatcher) Events() <-chan fsnotify.Event { return w.events }
func (w *fakeWatcher) Errors() <-chan error          { return w.errs }
func (w *fakeWatcher) Close() error                  { w.once.Do(func() { close(w.closed) }); return nil }
func (w *fakeWatcher) isClosed() bool {
	select {
	case <-w.closed:
		return true
	default:
		return false
	}
}

type outcome struct {
	seq    []string
	at     []int // callback instants in 100 ms buckets: floor((ms+10)/100) — timers never fire early
	clean  bool
	inTime bool
	// the loop did not close the watcher after a scripted failure (terminal outcome of the instance)
	notClosed bool
}

func (o outcome) String() string {
	if o.notClosed {
		return "watcher-not-closed"
	}
	s, at := "_", "_"
	if len(o.seq) > 0 {
		s = strings.Join(o.seq, ".")
		parts := make([]string, len(o.at))
		for i, b := range o.at {
			parts[i] = fmt.Sprint(b)
		}
		at = strings.Join(parts, ".")
	}
	it := 0
	if o.inTime {
		it = 1
	}
	return fmt.Sprintf("seq=%s intime=%d at=%s", s, it, at)
}

// contentBytes is THE byte representation of a logical content: a and b are equally long, c is longer, so that
// rewrites between them cover "same length" as well as "different length".
func contentBytes(c string) []byte {
	if c == "c" {
		return []byte("cfg: c\n#\n")
	}
	return []byte("cfg: " + c + "\n")
}

func contentOf(b []byte) string {
	for _, c := range []string{"a", "b", "c"} {
		if string(b) == string(contentBytes(c)) {
			return c
		}
	}
	return "?" // torn / foreign content: never expected with the margins used
}

// writeInPlace overwrites the (equally long) content without truncating first: on ext4 a truncate-then-write
// (and a rename over an existing file) forces a synchronous flush, which under I/O load takes tens of ms.
func writeInPlace(path string, b []byte) error {
	f, err := os.OpenFile(path, os.O_WRONLY|os.O_CREATE, 0o600)
	if err != nil {
		return err
	}
	if _, err = f.WriteAt(b, 0); err == nil {
		err = f.Truncate(int64(len(b))) // never to zero length (that is what makes ext4 flush synchronously)
	}
	if cerr := f.Close(); err == nil {
		err = cerr
	}
	return err
}

func runInstance(dir string, sc script) (out outcome) {
	out.clean = true
	_ = os.RemoveAll(dir)
	if err := os.MkdirAll(dir, 0o755); err != nil {
		panic(err)
	}
	defer os.RemoveAll(dir)
	path := filepath.Join(dir, "config.yml")
	if sc.init != "-" {
		if err := os.WriteFile(path, contentBytes(sc.init), 0o600); err != nil {
			panic(err)
		}
	}
	var (
		mu      sync.Mutex
		cur     *fakeWatcher
		seq     []string
		cbTimes []time.Duration
		start   time.Time
	)
	failAttach := 0 // how many of the next re-attach attempts fail (script op q:<n>); guarded by mu
	newWatcher := func(string) (vx.C38EventWatcher, error) {
		mu.Lock()
		defer mu.Unlock()
		if failAttach > 0 {
			failAttach--
			return nil, errors.New("scripted: too many open files")
		}
		w := newFake()
		cur = w
		return w, nil
	}
	cb := func() error {
		b, err := os.ReadFile(path)
		c := "?"
		switch {
		case err == nil:
			c = contentOf(b)
		case errors.Is(err, os.ErrNotExist):
			c = "-"
		default:
			if os.Getenv("C38_DEBUG") != "" {
				fmt.Fprintf(os.Stderr, "c38 debug: read error %v\n", err)
			}
		}
		mu.Lock()
		seq = append(seq, c)
		cbTimes = append(cbTimes, time.Since(start))
		mu.Unlock()
		if c == "c" || c == "-" {
			return errors.New("rejected") // exercises the rejection branch; must not influence anything compared
		}
		return nil
	}
	ctx, cancel := context.WithCancel(context.Background())
	defer cancel()
	mu.Lock()
	start = time.Now()
	mu.Unlock()
	if err := vx.C38WatchWithOptions(ctx, path, cb, time.Duration(sc.R)*time.Millisecond, newWatcher, nil); err != nil {
		panic(err)
	}
	mu.Lock()
	start = time.Now()
	mu.Unlock()

	send := func(w *fakeWatcher, ev fsnotify.Event) bool {
		select {
		case w.events <- ev:
			return true
		case <-w.closed:
			return false
		case <-time.After(syncWaitMs * time.Millisecond):
			out.clean = false
			return false
		}
	}
	lastFsOp := time.Duration(0)
	for _, o := range sc.ops {
		target := start.Add(time.Duration(o.t) * time.Millisecond)
		if d := time.Until(target); d > 0 {
			time.Sleep(d)
		}
		if dev := time.Since(target); dev > maxDevMs*time.Millisecond {
			out.clean = false
			if os.Getenv("C38_DEBUG") != "" {
				fmt.Fprintf(os.Stderr, "c38 debug: late op %d:%s by %v\n", o.t, o.kind, dev)
			}
		}
		mu.Lock()
		w := cur
		mu.Unlock()
		opStart := time.Now()
		switch o.kind {
		case "w":
			if err := writeInPlace(path, contentBytes(o.arg)); err != nil {
				panic(err)
			}
			lastFsOp = time.Since(start)
		case "q": // re-program the watcher factory: the next n attach attempts fail
			n, _ := strconv.Atoi(o.arg)
			mu.Lock()
			failAttach = n
			mu.Unlock()
		case "m": // rewrite in place (same inode) and put the previous modification time back
			fi, statErr := os.Stat(path)
			if err := writeInPlace(path, contentBytes(o.arg)); err != nil {
				panic(err)
			}
			if statErr == nil {
				if err := os.Chtimes(path, time.Time{}, fi.ModTime()); err != nil {
					panic(err)
				}
			}
			lastFsOp = time.Since(start)
		case "p": // atomic replace by a file that carries the previous modification time (cp -p && mv)
			fi, statErr := os.Stat(path)
			tmp := path + ".tmp"
			if err := os.WriteFile(tmp, contentBytes(o.arg), 0o600); err != nil {
				panic(err)
			}
			if statErr == nil {
				if err := os.Chtimes(tmp, time.Time{}, fi.ModTime()); err != nil {
					panic(err)
				}
			}
			if err := os.Rename(tmp, path); err != nil {
				panic(err)
			}
			lastFsOp = time.Since(start)
		case "r":
			tmp := path + ".tmp"
			if err := os.WriteFile(tmp, contentBytes(o.arg), 0o600); err != nil {
				panic(err)
			}
			if err := os.Rename(tmp, path); err != nil {
				panic(err)
			}
			lastFsOp = time.Since(start)
		case "d":
			_ = os.Remove(path)
			lastFsOp = time.Since(start)
		case "e", "E", "o":
			if w.isClosed() {
				break
			}
			name := path
			if o.kind == "E" {
				name = dir + string(filepath.Separator) + "." + string(filepath.Separator) + "config.yml"
			}
			if o.kind == "o" {
				name = filepath.Join(dir, "other.yml")
			}
			if send(w, fsnotify.Event{Name: name, Op: fsnotify.Write}) {
				// barrier: once the loop takes a second (ignored) event it has finished handling the first
				send(w, fsnotify.Event{Name: filepath.Join(dir, "barrier.tmp"), Op: fsnotify.Chmod})
			}
		case "x":
			if w.isClosed() {
				break
			}
			switch o.arg {
			case "err":
				select {
				case w.errs <- errors.New("scripted watcher failure"):
				case <-w.closed:
				case <-time.After(syncWaitMs * time.Millisecond):
					out.clean = false
				}
			case "chan":
				w.evOnce.Do(func() { close(w.events) })
			case "dir2": // the directory itself, spelled with a trailing separator
				send(w, fsnotify.Event{Name: dir + string(filepath.Separator), Op: fsnotify.Rename})
			default: // dir
				send(w, fsnotify.Event{Name: dir, Op: fsnotify.Remove})
			}
			select {
			case <-w.closed:
			case <-time.After(250 * time.Millisecond):
				// the loop took the failure but did not drop the watcher: an outcome, not noise
				out.notClosed = true
			}
		}
		if out.notClosed {
			break
		}
		if d := time.Since(opStart); d > 20*time.Millisecond && os.Getenv("C38_DEBUG") != "" {
			fmt.Fprintf(os.Stderr, "c38 debug: slow op %s:%s took %v\n", o.kind, o.arg, d)
		}
	}
	if d := time.Until(start.Add(time.Duration(sc.end) * time.Millisecond)); d > 0 && !out.notClosed {
		time.Sleep(d)
	}
	cancel()
	time.Sleep(5 * time.Millisecond)
	mu.Lock()
	defer mu.Unlock()

	if out.notClosed {
		out.clean = true // a terminal outcome of its own, unless the process was stalled (checked below)
	}
	if stalledBetween(start, time.Now()) {
		out.clean = false
	}
	out.seq = append([]string(nil), seq...)
	for _, d := range cbTimes {
		out.at = append(out.at, int((d.Milliseconds()+10)/100))
	}
	if os.Getenv("C38_DEBUG") != "" {
		fmt.Fprintf(os.Stderr, "c38 debug: %s clean=%v seq=%v cb=%v\n", sc.line(), out.clean, seq, cbTimes)
	}
	out.inTime = true
	if n := len(cbTimes); n > 0 && cbTimes[n-1] > lastFsOp {
		if cbTimes[n-1]-lastFsOp > time.Duration(3*(sc.R+debounceMs))*time.Millisecond {
			out.inTime = false
		}
	}
	return out
}

// ---------- generator ----------

func genBurst(r *hx.Rng, t0, n, lossy int) []op {
	var ops []op
	t := t0
	for i := 0; i < n; i++ {
		var o op
		o.t = t
		k := r.Intn(100)
		switch {
		case k < 26:
			o.kind, o.arg = "w", hx.Pick(r, []string{"a", "b", "c"})
		case k < 38:
			o.kind, o.arg = "m", hx.Pick(r, []string{"a", "b", "b", "a", "c"})
		case k < 41:
			o.kind, o.arg = "p", hx.Pick(r, []string{"a", "b", "c"})
		case k < 46:
			o.kind, o.arg = "r", hx.Pick(r, []string{"a", "b", "c"})
		case k < 54:
			o.kind = "d"
		case k < 59:
			o.kind, o.arg = "x", hx.Pick(r, []string{"err", "chan", "dir", "dir2"})
		case k < 61:
			o.kind, o.arg = "q", hx.Pick(r, []string{"1", "2", "99", "0"})
		case k < 65:
			o.kind = "o"
		case k < 69:
			o.kind = "E"
		default:
			o.kind = "e"
		}
		ops = append(ops, o)
		t++
		// notification for the change just made: delivered right away, or lost
		if (o.kind == "w" || o.kind == "m" || o.kind == "p" || o.kind == "r" || o.kind == "d") && r.Intn(100) < []int{15, 50, 85}[lossy] {
			ops = append(ops, op{t: t, kind: "e"})
			t++
			i++
		}
	}
	return ops
}

func genScript(r *hx.Rng, maxBurst int) script {
	var sc script
	sc.init = hx.Pick(r, []string{"a", "a", "b", "-"})
	lossy := r.Intn(3) // 0: most notifications lost, 1: mixed, 2: most delivered
	if r.Intn(100) < 40 {
		sc.class, sc.R = "tickless", tickless
		n := 1 + r.Intn(5)
		t := 100
		for i := 0; i < n; i++ {
			sc.ops = append(sc.ops, genBurst(r, t, 1+r.Intn(maxBurst), lossy)...)
			t += 400
		}
		sc.end = t + 50
		return sc
	}
	sc.class, sc.R = "ticked", hx.Pick(r, []int{600, 700, 800})
	periods := 1 + r.Intn(4)
	for k := 0; k < periods; k++ {
		base := k * sc.R
		if k >= 1 && r.Intn(100) < 55 {
			kind := hx.Pick(r, []string{"w", "m", "m", "r", "d"})
			arg := ""
			if kind != "d" {
				arg = hx.Pick(r, []string{"a", "b", "c"})
			}
			sc.ops = append(sc.ops, op{t: base + 50, kind: kind, arg: arg})
		}
		if r.Intn(100) < 75 {
			sc.ops = append(sc.ops, genBurst(r, base+300, 1+r.Intn(maxBurst), lossy)...)
		}
	}
	last := 0
	if len(sc.ops) > 0 {
		last = sc.ops[len(sc.ops)-1].t
	}
	sc.end = (last/sc.R+1)*sc.R + debounceMs*2 + 250 // one full tick after the last operation, its debounce (+ one restart), slack
	return sc
}

func genFlipProbe(r *hx.Rng) script {
	sc := script{class: "probe"}
	letters := []string{"a", "b", "c", "-"}
	x := hx.Pick(r, letters)
	y := hx.Pick(r, letters)
	for y == x {
		y = hx.Pick(r, letters)
	}
	if r.Bool() { // the equally long pair: a rewrite changes neither inode nor size
		x, y = "a", "b"
		if r.Bool() {
			x, y = "b", "a"
		}
	}
	sc.init = x
	put := func(t int, c string) op {
		if c == "-" {
			return op{t, "d", ""}
		}
		switch r.Intn(6) {
		case 0:
			return op{t, "r", c}
		case 1:
			return op{t, "p", c}
		case 2, 3:
			return op{t, "m", c}
		}
		return op{t, "w", c}
	}
	base := 100
	sc.R = tickless
	if r.Bool() {
		sc.R, base = hx.Pick(r, []int{600, 700, 800}), 300
	}
	t := base
	cur := x
	flips := 2 + r.Intn(4)
	for i := 0; i < flips; i++ {
		if cur == x {
			cur = y
		} else {
			cur = x
		}
		sc.ops = append(sc.ops, put(t, cur))
		t++
		if i+1 < flips || sc.R == tickless || r.Bool() {
			sc.ops = append(sc.ops, op{t, "e", ""})
			t++
		}
	}
	if sc.R == tickless {
		sc.end = t + 450
	} else {
		sc.end = sc.R + debounceMs*2 + 250
	}
	return sc
}

// genDetachedProbe: the factory is made to fail (for good or for a few attempts), the watcher is lost, then the
// content changes once or twice (one change possibly as the lone write after a tick); nothing but the periodic
// reconciliation can find it.
func genDetachedProbe(r *hx.Rng) script {
	sc := script{class: "probe", R: hx.Pick(r, []int{600, 700, 800})}
	sc.init = hx.Pick(r, []string{"a", "b", "-"})
	content := func() op {
		c := hx.Pick(r, []string{"a", "b", "c"})
		return op{0, hx.Pick(r, []string{"w", "w", "m", "r"}), c}
	}
	t := 300
	add := func(o op) { o.t = t; sc.ops = append(sc.ops, o); t++ }
	add(op{kind: "q", arg: hx.Pick(r, []string{"99", "99", "1", "2", "3"})})
	add(op{kind: "x", arg: hx.Pick(r, []string{"err", "chan", "dir", "dir2"})})
	if r.Bool() {
		add(content())
		if r.Bool() {
			add(op{kind: "e"}) // cannot be delivered: there is no watcher
		}
	}
	if r.Bool() || len(sc.ops) == 2 {
		t = sc.R + 50 // after the first failed re-attach, inside that tick's debounce window
		if r.Bool() {
			t = sc.R + 300
		}
		add(content())
	}
	last := sc.ops[len(sc.ops)-1].t
	sc.end = (last/sc.R+1)*sc.R + debounceMs*2 + 250
	return sc
}

func fixedScripts() []script {
	mk := func(class string, R int, init string, ops ...op) script {
		last := 0
		if len(ops) > 0 {
			last = ops[len(ops)-1].t
		}
		if R == tickless {
			return script{class: class, R: R, init: init, ops: ops, end: last + 450}
		}
		return script{class: class, R: R, init: init, ops: ops, end: (last/R+1)*R + debounceMs*2 + 250}
	}
	withEnd := func(sc script, end int) script { sc.end = end; return sc }
	W := func(t int, c string) op { return op{t, "w", c} }
	M := func(t int, c string) op { return op{t, "m", c} }
	Q := func(t int, n int) op { return op{t, "q", strconv.Itoa(n)} }
	P := func(t int, c string) op { return op{t, "p", c} }
	Rp := func(t int, c string) op { return op{t, "r", c} }
	D := func(t int) op { return op{t, "d", ""} }
	E := func(t int) op { return op{t, "e", ""} }
	X := func(t int, k string) op { return op{t, "x", k} }
	O := func(t int) op { return op{t, "o", ""} }
	EU := func(t int) op { return op{t, "E", ""} }
	return []script{
		// DESIGN §11 row 19: the fingerprint is taken when reconciling (tick at 600 / notification at 301), the
		// content changes again before the debounce expires and THAT notification is lost
		mk("witness", 600, "a", W(300, "b"), W(650, "c")),
		mk("witness", tickless, "a", W(100, "b"), E(101), W(102, "c"), E(500)),
		mk("witness", 600, "a", W(300, "b"), E(301), W(302, "c")),
		mk("witness", 600, "a", W(300, "b"), E(301), W(302, "a")), // back to the evaluated content
		mk("witness", 600, "a", Rp(300, "b"), E(301), D(302)),
		mk("witness", 600, "-", W(300, "b"), E(301), W(302, "c")),
		// pre-fix: the callback reads c under fingerprint b, the file returns to b and is never reloaded
		withEnd(mk("witness", 700, "a", W(300, "b"), E(301), W(302, "c"), W(450, "b")), 1500),
		// probes: the content flips away and back (every change noticed) inside one debounce window, then settles;
		// a loop that mishandles "back to the evaluated content" never reloads the settled content
		mk("probe", tickless, "a", W(100, "b"), E(101), W(102, "a"), E(103), W(104, "b"), E(105)),
		mk("probe", 600, "a", W(300, "b"), E(301), W(302, "a"), E(303), W(304, "b")),
		mk("probe", tickless, "a", W(100, "b"), E(101), D(102), E(103), W(104, "a"), E(105), D(106), E(107)),
		mk("probe", 600, "-", W(300, "a"), E(301), D(302), E(303), Rp(304, "a"), E(305), Rp(306, "c"), E(307), Rp(308, "a")),
		mk("probe", tickless, "b", W(100, "c"), E(101), W(102, "b"), E(103), W(104, "a"), E(105), W(500, "b"), E(501), W(502, "a"), E(503)),
		// probes: the content changes but the file metadata does not (same inode, size and mtime)
		mk("probe", tickless, "a", M(100, "b"), E(101)),
		mk("probe", 600, "a", M(300, "b")),
		mk("probe", 600, "b", M(300, "c"), E(301)), // different size, old mtime
		mk("probe", tickless, "a", P(100, "b"), E(101)),
		mk("probe", tickless, "a", W(100, "b"), E(101), M(500, "a"), E(501), M(900, "b"), E(901)),
		mk("probe", 700, "b", M(300, "a"), E(301), M(302, "b"), E(303), M(304, "a")),
		// probes: the watcher is lost and cannot be re-attached; changes must still be found by polling
		mk("probe", 600, "a", Q(300, 99), X(301, "err"), W(302, "b")),
		mk("probe", 700, "a", Q(300, 99), X(301, "chan"), W(302, "b"), E(303), W(1050, "c")),
		mk("probe", 600, "b", Q(300, 1), X(301, "dir"), Rp(302, "a"), W(1500, "c"), E(1501)),
		mk("probe", 600, "a", Q(300, 2), X(301, "dir2"), M(302, "b")),
		// ordinary behaviour
		mk("basic", 600, "a"),
		mk("basic", 600, "a", W(300, "b")),                                  // notification lost: reconciliation finds it
		mk("basic", 600, "a", W(300, "b"), E(301)),                          // delivered
		mk("basic", 600, "a", W(300, "a"), E(301)),                          // rewritten with identical content
		mk("basic", 700, "a", W(300, "b"), E(301), E(302), E(303), E(1000)), // duplicated / delayed
		mk("basic", 600, "a", W(300, "b"), E(301), W(302, "c"), E(303)),     // debounce restarts
		mk("basic", 600, "a", D(300), E(301), W(900, "a"), E(901)),          // delete, re-create with the old content
		mk("basic", 600, "a", Rp(300, "b"), Rp(301, "c"), Rp(302, "b"), E(303)),
		mk("basic", 600, "a", X(300, "err"), W(301, "b"), E(302), E(900), W(901, "c"), E(902)),
		mk("basic", 600, "a", X(300, "chan"), W(301, "b")),
		mk("basic", 600, "a", X(300, "dir"), W(301, "b"), O(302), EU(303)),
		mk("basic", tickless, "a", X(100, "dir2"), W(101, "b"), E(102)),
		mk("basic", 600, "-", W(300, "a"), EU(301), D(900), O(901)),
		mk("basic", tickless, "a", W(100, "b"), EU(101), W(500, "c"), O(501), D(900), E(901)),
	}
}

// ---------- driver ----------

type job struct {
	sc      script
	outs    []outcome
	decided bool
	final   outcome
}

func (j *job) decide() {
	counts := map[string]int{}
	for _, o := range j.outs {
		if !o.clean {
			continue
		}
		k := o.String()
		counts[k]++
		if counts[k] >= 2 {
			j.decided, j.final = true, o
			return
		}
	}
}

func main() {
	run := hx.Start()
	scratch := filepath.Join("/verif/.work/c38", fmt.Sprintf("scratch-%d-%d", run.Seed, os.Getpid()))
	defer os.RemoveAll(scratch)

	var jobs []*job
	for _, sc := range fixedScripts() {
		jobs = append(jobs, &job{sc: sc})
	}
	// the loop under test is timed by real timers: ask for scheduling priority (ignored when not permitted)
	_ = syscall.Setpriority(syscall.PRIO_PROCESS, 0, -10)
	go heartbeat()
	nRandom := run.Scale(150, 600)
	if os.Getenv("C38_FIXED_ONLY") != "" {
		nRandom = 0
	}
	// search for a failing history around "back to an earlier content": noticed flips over a two-letter
	// alphabet inside one debounce window, settling on either letter, with or without a last notification
	for i := 0; i < run.Scale(16, 60); i++ {
		jobs = append(jobs, &job{sc: genFlipProbe(run.Rng)})
	}
	// … and around "no watcher and no way to get one back"
	for i := 0; i < run.Scale(12, 50); i++ {
		jobs = append(jobs, &job{sc: genDetachedProbe(run.Rng)})
	}
	for i := 0; i < nRandom; i++ {
		sc := genScript(run.Rng, run.Scale(6, 9))
		jobs = append(jobs, &job{sc: sc})
	}

	const batch = 240 // scripts per batch, two instances each, all in parallel (they mostly sleep)
	unstable, reruns, dirID := 0, 0, 0
	for lo := 0; lo < len(jobs); lo += batch {
		hi := lo + batch
		if hi > len(jobs) {
			hi = len(jobs)
		}
		pending := jobs[lo:hi]
		for round := 0; round < 7 && len(pending) > 0; round++ {
			if round >= 3 { // only the fixed witness / probe scripts are worth more attempts
				var keep []*job
				for _, j := range pending {
					if j.sc.class != "ticked" && j.sc.class != "tickless" {
						keep = append(keep, j)
					}
				}
				if pending = keep; len(pending) == 0 {
					break
				}
			}
			var wg sync.WaitGroup
			var mu sync.Mutex
			for _, j := range pending {
				for inst := 0; inst < 2; inst++ {
					wg.Add(1)
					dirID++
					go func(j *job, id int) {
						defer wg.Done()
						time.Sleep(time.Duration(id%1024) * 500 * time.Microsecond) // stagger the start-up file work
						dir := filepath.Join(scratch, fmt.Sprintf("s%d", id))
						o := runInstance(dir, j.sc)
						mu.Lock()
						j.outs = append(j.outs, o)
						mu.Unlock()
					}(j, dirID)
				}
			}
			wg.Wait()
			var next []*job
			for _, j := range pending {
				j.decide()
				if !j.decided {
					next = append(next, j)
				}
			}
			if round > 0 {
				reruns += len(pending)
			}
			pending = next
		}
	}
	for _, j := range jobs {
		if !j.decided {
			unstable++
			var seen []string
			for _, o := range j.outs {
				seen = append(seen, fmt.Sprintf("%s/clean=%v", o.String(), o.clean))
			}
			sort.Strings(seen)
			run.Case("unstable", "unstable "+j.sc.line(), "unstable")
			fmt.Fprintf(os.Stderr, "c38: unstable script %s: %v\n", j.sc.line(), seen)
			continue
		}
		run.Case(j.sc.class+fmt.Sprintf("/R%d", j.sc.R), j.sc.line(), j.final.String())
	}
	run.Extra["scripts"] = len(jobs)
	run.Extra["unstable"] = unstable
	stallsSeen.mu.Lock()
	run.Extra["stalls"] = len(stallsSeen.stalls)
	stallsSeen.mu.Unlock()
	run.Extra["reruns"] = reruns
	run.Extra["debounce_ms"] = debounceMs
	run.Finish()
	if unstable*2 > len(jobs) {
		// nothing is concluded from unstable scripts; say so, but a loaded machine is not a finding
		fmt.Fprintf(os.Stderr, "c38: %d of %d scripts unstable — machine too loaded for a meaningful run\n", unstable, len(jobs))
	}
}
