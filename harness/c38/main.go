// C38 correspondence harness: runs the REAL reload.watchWithOptions loop (through the verif hook) on a real
// scratch directory with a scripted watcher, a short injected reconcile interval and the real 100 ms debounce.
//
// One case = one script: an initial content, a reconcile interval R (ms) and a list of operations at nominal
// times (ms after the loop started):
//
//	w:<c>  write content c in place        r:<c>  atomic replace (temp file + rename)      d  delete the file
//	e      deliver a notification for the config file (then a second, ignored one, as a barrier)
//	E      same, but with an unclean path ("dir/./config.yml")
//	o      deliver a notification for another file (ignored by the loop)
//	x:<k>  make the watcher fail (k = err | chan | dir); the loop re-attaches on its next tick
//
// A write without a following e/E is a change whose notification was LOST; extra e's are duplicated/delayed
// notifications.  Compared with the model: only the SEQUENCE OF CONTENTS seen by the callback plus one
// generous bucket ("the last callback came within 3x(R+debounce) of the last file operation").
//
// Determinism: nominal times are generated ≥ genMargin ms away from every instant at which a timer of the
// loop can possibly expire (conservative tracker below, NOT the model); every script is run as independent
// instances and is emitted only when two clean instances (all operations on time) agree; otherwise the case is
// emitted as `unstable` (counted, never compared).  The Lean driver additionally refuses to predict scripts in
// which an operation is nominally closer than its own margin to a model deadline.
package main

import (
	"context"
	"errors"
	"fmt"
	"os"
	"path/filepath"
	"sort"
	"strings"
	"sync"
	"time"

	"github.com/fsnotify/fsnotify"
	vx "go.minekube.com/gate/pkg/verifexport"

	"verifharness/hx"
)

const (
	genMargin  = 25 // ms: distance kept between an operation and any possible timer instant
	maxDevMs   = 8  // ms: an operation later than this makes the instance unclean
	syncWaitMs = 60
)

var debounceMs = int(vx.C38DebounceDuration / time.Millisecond)

type op struct {
	t    int
	kind string // w r d e E o x
	arg  string
}

type script struct {
	class string
	R     int
	init  string
	ops   []op
	end   int
}

func (s script) opsString() string {
	if len(s.ops) == 0 {
		return "-"
	}
	parts := make([]string, len(s.ops))
	for i, o := range s.ops {
		if o.arg != "" {
			parts[i] = fmt.Sprintf("%d:%s:%s", o.t, o.kind, o.arg)
		} else {
			parts[i] = fmt.Sprintf("%d:%s", o.t, o.kind)
		}
	}
	return strings.Join(parts, ",")
}
func (s script) line() string {
	return fmt.Sprintf("script %d %d %s %d %s", s.R, debounceMs, s.init, s.end, s.opsString())
}

// ---------- scripted watcher ----------

type fakeWatcher struct {
	events chan fsnotify.Event
	errs   chan error
	closed chan struct{}
	once   sync.Once
	evOnce sync.Once
}

func newFake() *fakeWatcher {
	return &fakeWatcher{events: make(chan fsnotify.Event), errs: make(chan error), closed: make(chan struct{})}
}
func (w *fakeWatcher) Events() <-chan fsnotify.Event { return w.events }
func (w *fakeWatcher) Errors() <-chan error          { return w.errs }
func (w *fakeWatcher) Close() error                  { w.once.Do(func() { close(w.closed) }); return nil }
func (w *fakeWatcher) isClosed() bool {
	select {
	case <-w.closed:
		return true
	default:
		return false
	}
}

type outcome struct {
	seq    []string
	clean  bool
	inTime bool
}

func (o outcome) String() string {
	s := "_"
	if len(o.seq) > 0 {
		s = strings.Join(o.seq, ".")
	}
	it := 0
	if o.inTime {
		it = 1
	}
	return fmt.Sprintf("seq=%s intime=%d", s, it)
}

func contentBytes(c string) []byte { return []byte("cfg: " + c + "\n") }

func runInstance(dir string, sc script) (out outcome) {
	out.clean = true
	_ = os.RemoveAll(dir)
	if err := os.MkdirAll(dir, 0o755); err != nil {
		panic(err)
	}
	defer os.RemoveAll(dir)
	path := filepath.Join(dir, "config.yml")
	if sc.init != "-" {
		if err := os.WriteFile(path, contentBytes(sc.init), 0o600); err != nil {
			panic(err)
		}
	}
	var (
		mu      sync.Mutex
		cur     *fakeWatcher
		seq     []string
		cbTimes []time.Duration
		start   time.Time
	)
	newWatcher := func(string) (vx.C38EventWatcher, error) {
		w := newFake()
		mu.Lock()
		cur = w
		mu.Unlock()
		return w, nil
	}
	cb := func() error {
		b, err := os.ReadFile(path)
		c := "?"
		switch {
		case err == nil:
			c = strings.TrimSuffix(strings.TrimPrefix(string(b), "cfg: "), "\n")
			if c == "" || len(c) > 1 {
				c = "?" // torn / foreign content: never expected with the margins used
			}
		case errors.Is(err, os.ErrNotExist):
			c = "-"
		}
		mu.Lock()
		seq = append(seq, c)
		cbTimes = append(cbTimes, time.Since(start))
		mu.Unlock()
		if c == "c" || c == "-" {
			return errors.New("rejected") // exercises the rejection branch; must not influence anything compared
		}
		return nil
	}
	ctx, cancel := context.WithCancel(context.Background())
	defer cancel()
	mu.Lock()
	start = time.Now()
	mu.Unlock()
	if err := vx.C38WatchWithOptions(ctx, path, cb, time.Duration(sc.R)*time.Millisecond, newWatcher, nil); err != nil {
		panic(err)
	}
	mu.Lock()
	start = time.Now()
	mu.Unlock()

	send := func(w *fakeWatcher, ev fsnotify.Event) bool {
		select {
		case w.events <- ev:
			return true
		case <-w.closed:
			return false
		case <-time.After(syncWaitMs * time.Millisecond):
			out.clean = false
			return false
		}
	}
	lastFsOp := time.Duration(0)
	for _, o := range sc.ops {
		target := start.Add(time.Duration(o.t) * time.Millisecond)
		if d := time.Until(target); d > 0 {
			time.Sleep(d)
		}
		if dev := time.Since(target); dev > maxDevMs*time.Millisecond {
			out.clean = false
		}
		mu.Lock()
		w := cur
		mu.Unlock()
		switch o.kind {
		case "w":
			if err := os.WriteFile(path, contentBytes(o.arg), 0o600); err != nil {
				panic(err)
			}
			lastFsOp = time.Since(start)
		case "r":
			tmp := path + ".tmp"
			if err := os.WriteFile(tmp, contentBytes(o.arg), 0o600); err != nil {
				panic(err)
			}
			if err := os.Rename(tmp, path); err != nil {
				panic(err)
			}
			lastFsOp = time.Since(start)
		case "d":
			_ = os.Remove(path)
			lastFsOp = time.Since(start)
		case "e", "E", "o":
			if w.isClosed() {
				break
			}
			name := path
			if o.kind == "E" {
				name = dir + string(filepath.Separator) + "." + string(filepath.Separator) + "config.yml"
			}
			if o.kind == "o" {
				name = filepath.Join(dir, "other.yml")
			}
			if send(w, fsnotify.Event{Name: name, Op: fsnotify.Write}) {
				// barrier: once the loop takes a second (ignored) event it has finished handling the first
				send(w, fsnotify.Event{Name: filepath.Join(dir, "barrier.tmp"), Op: fsnotify.Chmod})
			}
		case "x":
			if w.isClosed() {
				break
			}
			switch o.arg {
			case "err":
				select {
				case w.errs <- errors.New("scripted watcher failure"):
				case <-w.closed:
				case <-time.After(syncWaitMs * time.Millisecond):
					out.clean = false
				}
			case "chan":
				w.evOnce.Do(func() { close(w.events) })
			default: // dir
				send(w, fsnotify.Event{Name: dir, Op: fsnotify.Remove})
			}
			select {
			case <-w.closed:
			case <-time.After(syncWaitMs * time.Millisecond):
				out.clean = false
			}
		}
	}
	if d := time.Until(start.Add(time.Duration(sc.end) * time.Millisecond)); d > 0 {
		time.Sleep(d)
	}
	cancel()
	time.Sleep(5 * time.Millisecond)
	mu.Lock()
	defer mu.Unlock()
	out.seq = append([]string(nil), seq...)
	out.inTime = true
	if n := len(cbTimes); n > 0 && cbTimes[n-1] > lastFsOp {
		if cbTimes[n-1]-lastFsOp > time.Duration(3*(sc.R+debounceMs))*time.Millisecond {
			out.inTime = false
		}
	}
	return out
}

// ---------- generator ----------

// clear reports whether nominal time t keeps genMargin from every instant at which a timer can possibly
// expire: ticks k*R, debounces armed by a tick (k*R+100j) or by a delivered notification (fires[]).
func clear(t, R int, fires []int) bool {
	near := func(x, m int) bool { // x within genMargin of a positive multiple of m
		if x < m-genMargin {
			return false
		}
		r := x % m
		return r < genMargin || m-r < genMargin
	}
	for j := 0; j <= 3; j++ {
		if x := t - j*debounceMs; x > 0 && near(x, R) {
			return false
		}
	}
	for _, f := range fires {
		if d := t - f; d > -genMargin && d < genMargin {
			return false
		}
	}
	return true
}

func genScript(r *hx.Rng, maxOps int) script {
	sc := script{class: "random"}
	sc.R = hx.Pick(r, []int{150, 170, 250, 250, 300, 400})
	sc.init = hx.Pick(r, []string{"a", "a", "b", "-"})
	n := 1 + r.Intn(maxOps)
	var fires []int
	t := 0
	lossy := r.Intn(3) // 0: most notifications lost, 1: mixed, 2: most delivered
	watcherUp := true
	for i := 0; i < n; i++ {
		t += hx.Pick(r, []int{1, 1, 1, 2, 3, 30, 45, 60, 80, 110, 140, 200, 260, 420})
		for !clear(t, sc.R, fires) {
			t++
		}
		var o op
		o.t = t
		k := r.Intn(100)
		switch {
		case k < 34:
			o.kind, o.arg = "w", hx.Pick(r, []string{"a", "b", "c"})
		case k < 44:
			o.kind, o.arg = "r", hx.Pick(r, []string{"a", "b", "c"})
		case k < 52:
			o.kind = "d"
		case k < 60:
			o.kind, o.arg = "x", hx.Pick(r, []string{"err", "chan", "dir"})
			watcherUp = false
		case k < 64:
			o.kind = "o"
		case k < 68:
			o.kind = "E"
		default:
			o.kind = "e"
		}
		_ = watcherUp
		sc.ops = append(sc.ops, o)
		isWrite := o.kind == "w" || o.kind == "r" || o.kind == "d"
		if o.kind == "e" || o.kind == "E" {
			for j := 1; j <= 4; j++ {
				fires = append(fires, t+j*debounceMs)
			}
		}
		// notification for the change just made: delivered right away, late, twice, or lost
		if isWrite && i+1 < n {
			p := []int{15, 50, 85}[lossy]
			if r.Intn(100) < p {
				t++
				for !clear(t, sc.R, fires) {
					t++
				}
				sc.ops = append(sc.ops, op{t: t, kind: "e"})
				for j := 1; j <= 4; j++ {
					fires = append(fires, t+j*debounceMs)
				}
				i++
			}
		}
	}
	sc.end = t + sc.R + debounceMs + 160
	return sc
}

func fixedScripts() []script {
	mk := func(class string, R int, init string, ops ...op) script {
		last := 0
		if len(ops) > 0 {
			last = ops[len(ops)-1].t
		}
		return script{class: class, R: R, init: init, ops: ops, end: last + R + debounceMs + 160}
	}
	W := func(t int, c string) op { return op{t, "w", c} }
	Rp := func(t int, c string) op { return op{t, "r", c} }
	D := func(t int) op { return op{t, "d", ""} }
	E := func(t int) op { return op{t, "e", ""} }
	X := func(t int, k string) op { return op{t, "x", k} }
	return []script{
		// DESIGN §11 row 19: fingerprint taken at the reconcile tick, content changes before the debounce
		// expires and that notification is lost
		mk("witness", 250, "a", W(30, "b"), W(300, "c")),
		mk("witness", 250, "a", W(30, "b"), E(31), W(60, "c")),
		mk("witness", 250, "a", W(30, "b"), E(31), W(60, "a")), // back to the evaluated content
		mk("witness", 250, "a", Rp(30, "b"), E(31), D(60)),
		mk("witness", 250, "-", W(30, "b"), E(31), W(60, "c")),
		// ordinary behaviour
		mk("basic", 250, "a"),
		mk("basic", 250, "a", W(30, "b")),            // notification lost: reconciliation finds it
		mk("basic", 250, "a", W(30, "b"), E(31)),     // delivered
		mk("basic", 250, "a", W(30, "a"), E(31)),     // rewritten with identical content
		mk("basic", 250, "a", W(30, "b"), E(31), E(32), E(60), E(400)), // duplicated / delayed
		mk("basic", 250, "a", W(30, "b"), E(31), W(60, "c"), E(61)),    // debounce restarts
		mk("basic", 250, "a", D(30), E(31), W(400, "a"), E(401)),       // delete, re-create with the old content
		mk("basic", 250, "a", Rp(30, "b"), Rp(32, "c"), Rp(34, "b"), E(35)),
		mk("basic", 300, "a", X(30, "err"), W(60, "b"), E(61), E(450), W(460, "c"), E(461)),
		mk("basic", 300, "a", X(30, "chan"), W(60, "b")),
		mk("basic", 300, "a", X(30, "dir"), W(60, "b"), op{70, "o", ""}, op{72, "E", ""}),
		mk("basic", 150, "-", W(30, "a"), op{31, "E", ""}, D(200), op{201, "o", ""}),
	}
}

// ---------- driver ----------

type job struct {
	sc       script
	outs     []outcome
	decided  bool
	final    outcome
	attempts int
}

func (j *job) decide() {
	counts := map[string]int{}
	for _, o := range j.outs {
		if !o.clean {
			continue
		}
		k := o.String()
		counts[k]++
		if counts[k] >= 2 {
			j.decided, j.final = true, o
			return
		}
	}
}

func main() {
	run := hx.Start()
	scratch := filepath.Join("/verif/.work/c38", fmt.Sprintf("scratch-%d-%d", run.Seed, os.Getpid()))
	defer os.RemoveAll(scratch)

	var jobs []*job
	for _, sc := range fixedScripts() {
		jobs = append(jobs, &job{sc: sc})
	}
	nRandom := run.Scale(260, 1200)
	for i := 0; i < nRandom; i++ {
		sc := genScript(run.Rng, 3+run.Rng.Intn(run.Scale(10, 16)))
		jobs = append(jobs, &job{sc: sc})
	}

	const batch = 320 // scripts per batch, two instances each, all in parallel (they mostly sleep)
	unstable, reruns := 0, 0
	for lo := 0; lo < len(jobs); lo += batch {
		hi := lo + batch
		if hi > len(jobs) {
			hi = len(jobs)
		}
		pending := jobs[lo:hi]
		for round := 0; round < 3 && len(pending) > 0; round++ {
			var wg sync.WaitGroup
			var mu sync.Mutex
			for ji, j := range pending {
				for inst := 0; inst < 2; inst++ {
					wg.Add(1)
					go func(j *job, id int) {
						defer wg.Done()
						dir := filepath.Join(scratch, fmt.Sprintf("s%d", id))
						o := runInstance(dir, j.sc)
						mu.Lock()
						j.outs = append(j.outs, o)
						mu.Unlock()
					}(j, (lo+ji)*8+round*2+inst)
				}
			}
			wg.Wait()
			var next []*job
			for _, j := range pending {
				j.decide()
				if !j.decided {
					next = append(next, j)
				}
			}
			if round > 0 {
				reruns += len(pending)
			}
			pending = next
		}
	}
	for _, j := range jobs {
		if !j.decided {
			unstable++
			var seen []string
			for _, o := range j.outs {
				seen = append(seen, fmt.Sprintf("%s/clean=%v", o.String(), o.clean))
			}
			sort.Strings(seen)
			run.Case("unstable", "unstable "+j.sc.line(), "unstable")
			fmt.Fprintf(os.Stderr, "c38: unstable script %s: %v\n", j.sc.line(), seen)
			continue
		}
		run.Case(j.sc.class+fmt.Sprintf("/R%d", j.sc.R), j.sc.line(), j.final.String())
	}
	run.Extra["scripts"] = len(jobs)
	run.Extra["unstable"] = unstable
	run.Extra["reruns"] = reruns
	run.Extra["debounce_ms"] = debounceMs
	run.Finish()
	if unstable*5 > len(jobs) {
		fmt.Fprintf(os.Stderr, "c38: %d of %d scripts unstable — machine too loaded for a meaningful run\n", unstable, len(jobs))
		os.Exit(3)
	}
}
