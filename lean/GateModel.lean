import GateModel.Base.Line
