import GateModel.Base.Bytes
import GateModel.Base.Line
