import GateModel.C01.Lemmas
import GateModel.C01.Pool
import GateModel.C01.BufLife
/-
C01 — Packet frames survive compression, encryption and arbitrary stream chunking.

Theorems about the model of codec.Encoder / codec.Decoder / CFB8 (Model.lean):
  * `stream_roundtrip`   every sequence of (non-empty, transportable) payloads written is read back
                         as exactly the same payloads in the same order, for EVERY threshold
                         (disabled, 0, positive) and any deflate `D` whose inflate `Z` inverts it;
  * `wire_roundtrip`     the same through CFB8 encryption/decryption under ANY block function and IV;
  * `cfb8_*_append`      encrypting/decrypting a stream in pieces (any split) equals doing it at once;
  * `chunking_invariant` `io.ReadFull` over any chunking of the byte stream returns the same bytes
                         and leaves the same remainder as on the unsplit stream;
  * empty payloads: skipped by the reader (`empty_payload_skipped`), except the two recorded
    findings (`…_fails`).
-/
namespace Gate.C01.Props
open Gate Gate.C01 Gate.C03

/-- Every payload sequence written by the encoder is read back identically, then a clean end of
    stream — for every threshold and any zlib pair with `Z (D p) = some p`. -/
theorem stream_roundtrip (cfg : Cfg) (D : Bytes → Bytes) (Z : Bytes → Option Bytes)
    (ps : List Bytes) (hall : ∀ p ∈ ps, Fits cfg D Z p) (fuel : Nat) (hf : ps.length < fuel) :
    decodeAll cfg Z fuel (encodeAll cfg.threshold D ps) = (ps, none) :=
  decodeAll_encodeAll cfg D Z (by decide) ps hall fuel hf

/-- single frame, with arbitrary following bytes left untouched -/
theorem frame_roundtrip (cfg : Cfg) (D : Bytes → Bytes) (Z : Bytes → Option Bytes) (p rest : Bytes)
    (h : Fits cfg D Z p) : readPayload cfg Z (encodeFrame cfg.threshold D p ++ rest) = .ok (p, rest) :=
  readPayload_encodeFrame cfg D Z p rest h.nonempty h.zlib h.frame h.cap (by decide)

/-- CFB8 decryption inverts encryption for an arbitrary block function and any starting register. -/
theorem cfb8_roundtrip (E : Bytes → Bytes) (iv bs : Bytes) : cfb8Dec E iv (cfb8Enc E iv bs) = bs :=
  cfb8Dec_cfb8Enc E iv bs

/-- writing in pieces: the cipher state carried across `Write` calls makes any split equivalent -/
theorem cfb8_enc_append (E : Bytes → Bytes) (reg a b : Bytes) :
    cfb8Enc E reg (a ++ b) = cfb8Enc E reg a ++ cfb8Enc E (regAfter reg (cfb8Enc E reg a)) b :=
  cfb8Enc_append E reg a b
/-- reading in pieces likewise -/
theorem cfb8_dec_append (E : Bytes → Bytes) (reg a b : Bytes) :
    cfb8Dec E reg (a ++ b) = cfb8Dec E reg a ++ cfb8Dec E (regAfter reg a) b :=
  cfb8Dec_append E reg a b

/-- compression + encryption + framing end to end -/
theorem wire_roundtrip (cfg : Cfg) (D : Bytes → Bytes) (Z : Bytes → Option Bytes) (E : Bytes → Bytes) (iv : Bytes)
    (ps : List Bytes) (hall : ∀ p ∈ ps, Fits cfg D Z p) (fuel : Nat) (hf : ps.length < fuel) :
    decodeAll cfg Z fuel (cfb8Dec E iv (cfb8Enc E iv (encodeAll cfg.threshold D ps))) = (ps, none) := by
  rw [cfb8_roundtrip]; exact stream_roundtrip cfg D Z ps hall fuel hf

/-- Encryption switched on in mid-stream (the login flow): `ps1` written in the clear, then the writer enables
    encryption and writes `ps2`; the reader reads `|ps1|` packets, enables encryption, and reads on.  All payloads
    come back, whatever part of the ciphertext had already been pulled into the read buffer — because the
    decrypting reader wraps the buffer, not the socket. -/
theorem switch_roundtrip (cfg : Cfg) (D : Bytes → Bytes) (Z : Bytes → Option Bytes) (E : Bytes → Bytes) (iv : Bytes)
    (ps1 ps2 : List Bytes) (h1 : ∀ p ∈ ps1, Fits cfg D Z p) (h2 : ∀ p ∈ ps2, Fits cfg D Z p)
    (fuel : Nat) (hf : ps2.length < fuel) :
    decodeSwitch cfg Z E iv ps1.length fuel
        (encodeAll cfg.threshold D ps1 ++ cfb8Enc E iv (encodeAll cfg.threshold D ps2))
      = (ps1 ++ ps2, none) := by
  unfold decodeSwitch
  rw [readPackets_encodeAll cfg D Z (by decide) ps1 _ h1]
  simp only
  rw [cfb8_roundtrip, stream_roundtrip cfg D Z ps2 h2 fuel hf]

/-- `io.ReadFull` on a stream delivered in arbitrary chunks: same bytes, same remainder, and it fails
    exactly when the whole stream is too short. -/
theorem chunking_invariant (n : Nat) (cs : Chunks) :
    (∀ b rest, readFullChunks n cs = some (b, rest) →
        readFull n cs.flatten = .ok (b, rest.flatten)) ∧
    (readFullChunks n cs = none → readFull n cs.flatten = .error .eof) := by
  obtain ⟨h1, h2⟩ := readFullChunks_spec n cs
  constructor
  · intro b rest h
    obtain ⟨hb, hr, hn⟩ := h1 b rest h
    unfold readFull
    rw [if_pos hn, hb, hr]
  · intro h
    have := h2 h
    unfold readFull
    rw [if_neg (by omega)]

/-- an empty payload is written as a frame the reader skips (threshold ≠ 0) -/
theorem empty_payload_skipped (cfg : Cfg) (D : Bytes → Bytes) (Z : Bytes → Option Bytes) (rest : Bytes)
    (h : cfg.threshold ≠ 0) :
    readPayload cfg Z (encodeFrame cfg.threshold D [] ++ rest) = .ok ([], rest) := by
  unfold encodeFrame readPayload
  by_cases h1 : cfg.threshold < 0
  · simp only [if_pos h1, List.length_nil, Int.natCast_zero, writeVarInt_zero, List.append_nil,
      List.cons_append, List.nil_append]
    rfl
  · have h2 : ((([] : Bytes).length : Nat) : Int) < cfg.threshold := by simp; omega
    rw [if_neg h1, if_pos h2]
    have e : writeVarInt ((([] : Bytes).length : Int) + 1) ++ (writeVarInt 0 ++ []) ++ rest
        = writeVarInt ((([0] : Bytes).length : Nat) : Int) ++ ([0] ++ rest) := by rfl
    rw [e, readVarIntFrame_ok [0] rest (by simp) (by decide) (by decide)]
    simp only [List.isEmpty_cons, Bool.false_eq_true, if_false, if_neg h1]
    have : openEnvelope cfg Z [0] = .ok [] := by
      unfold openEnvelope
      have hv : readVarInt [0] = .ok (0, []) := by rfl
      rw [hv]; simp; omega
    rw [this]

/-- Shared buffer pools: with any number of encoders running concurrently and sharing the process-wide pools,
    under EVERY interleaving of their atomic steps, each encoder writes exactly its own frame body. -/
theorem pooled_write_integrity (content : Nat → Bytes) (sched : List Nat) :
    ∀ p ∈ (Pool.run content sched).out, p.2 = content p.1 :=
  (Pool.inv_run content sched).out_own

/-- …and this depends on giving the buffer back only AFTER the write: with release-before-write, thread 0's
    frame is overwritten by thread 1's before it reaches thread 0's connection. -/
theorem pooled_write_defective_fails :
    (Pool.runDefective (fun t => if t = 0 then [1, 1] else [2, 2]) [0, 0, 0, 1, 1, 0]).out = [(0, [2, 2])] := by
  rfl

/-- The pools over their whole HISTORY, self-calibration included (after `K` Puts fresh buffers are pre-sized and
    large buffers are no longer recycled): as long as a fresh buffer has length 0 — `make([]byte, 0, n)` —
    every use, before and after any number of calibrations and whatever is dropped or recycled, writes exactly
    its own frame body.  `K`, the calibrated size and the capacities are arbitrary. -/
theorem pool_history_integrity (K size : Nat) (uses : List (Bytes × Nat)) :
    BufLife.history (fun _ => []) K size BufLife.init uses = uses.map (·.1) :=
  BufLife.history_writes_contents (fun _ => []) (fun _ => rfl) K size BufLife.init BufLife.clean_init uses

/-- …and this depends on the LENGTH of a fresh buffer being 0: with `make([]byte, n)` (length = the calibrated
    size) the first use after calibration that misses the pool writes `n` zero bytes in front of its frame.
    Witness with K = 2, size 4: the buffer of the third use is dropped (capacity 9 > 4), the fourth misses. -/
theorem pool_presized_length_fails :
    BufLife.history (fun n => List.replicate n 0) 2 4 BufLife.init [([1], 1), ([2], 1), ([3], 9), ([4], 1)]
      = [[1], [2], [3], [0, 0, 0, 0, 4]] := by decide +kernel

open Gate.Gen.C01 in
/-- tie: the calibration threshold is the source's, and `Put` resets a buffer before pooling it -/
theorem src_pool_put_resets_before_pooling :
    calibrateCallsThreshold = 42000 ∧
    poolPutCalls.idxOf "b.Reset" < poolPutCalls.idxOf "p.pool.Put" ∧ "b.Reset" ∈ poolPutCalls := by decide

/-! ### recorded findings (the unchanged code does this; see findings/C01.json) -/

/-- FINDING `empty-payload-threshold0`: with threshold 0 an empty payload takes the compressed branch
    (`0 < 0` is false), is written with data-length 0, and the reader takes the zlib body for an
    uncompressed packet larger than the threshold: the connection errors instead of skipping. -/
theorem empty_payload_threshold0_fails :
    readPayload ⟨0, true⟩ (fun _ => some []) (encodeFrame 0 (fun _ => [120, 156, 3, 0, 0, 0, 0, 1]) [] ++ [])
      = .error .overThreshold := by rfl

/-- FINDING `many-empty-payloads`: twelve empty frames in a row make `readPacket` fail even though a
    valid frame follows (gate-specific cap of 11 skipped frames). -/
theorem twelve_empty_frames_fail :
    readPacket ⟨-1, true⟩ (fun _ => none) 20 0 (List.replicate 12 0 ++ [1, 7]) = .error .tooManyEmpty := by rfl
theorem eleven_empty_frames_ok :
    readPacket ⟨-1, true⟩ (fun _ => none) 20 0 (List.replicate 11 0 ++ [1, 7]) = .ok ([7], []) := by rfl

/-! ### tie to the source (facts regenerated by tools/gofacts) -/

open Gate.Gen.C01 in
/-- `reader.EnableEncryption` builds the decrypting reader and installs it with `SetReader` (and nothing else:
    in particular it creates no new buffered reader on the raw connection) -/
theorem src_enable_encryption_shape :
    readerEnableEncryptionCalls = ["codec.NewDecryptReader", "return", "r.Decoder.SetReader", "return"] ∧
    writerEnableEncryptionCalls = ["codec.NewEncryptWriter", "return", "w.Encoder.SetWriter", "return"] := by
  decide

open Gate.Gen.C01 in
/-- every `Read` issued by the decoder is an `io.ReadFull`: the decoder's reader is always wrapped in
    `fullReader` (constructor and `SetReader`), whose `Read` calls `io.ReadFull`. -/
theorem src_decoder_reads_are_full :
    "io.ReadFull" ∈ fullReaderReadCalls ∧ "fullReader" ∈ newDecoderLits ∧ "fullReader" ∈ setReaderLits := by
  decide

open Gate.Gen.C01 in
/-- `writeCompressed` takes its pooled buffer and writes it out inside one function, giving it back only on
    return (`defer release()`): the order the pool theorem needs. -/
theorem src_pool_release_after_write :
    writeCompressedCalls.idxOf "compressPool.getBuf" < writeCompressedCalls.idxOf "compressed.WriteTo" ∧
    "compressed.WriteTo" ∈ writeCompressedCalls ∧ "defer:release" ∈ writeCompressedCalls ∧
    "release" ∉ writeCompressedCalls := by decide

theorem src_caps : maxFrame = 2 ^ 21 - 1 ∧ capServerBound = 2 * 1024 * 1024 ∧ capClientBound = 8 * 1024 * 1024 := by
  decide

/-! ### non-vacuity -/
example : Fits ⟨-1, true⟩ id some [1, 2, 3] :=
  ⟨by simp, rfl, by decide, by decide⟩
example : Fits ⟨2, false⟩ (fun p => 9 :: p) (fun b => some (b.drop 1)) [1, 2, 3] :=
  ⟨by simp, rfl, by decide, by decide⟩
example : decodeAll ⟨-1, true⟩ some 3 (encodeAll (-1) id [[1], [2, 3]]) = ([[1], [2, 3]], none) :=
  stream_roundtrip ⟨-1, true⟩ id some [[1], [2, 3]] (by
    intro p hp; simp at hp; rcases hp with rfl | rfl <;> exact ⟨by simp, rfl, by decide, by decide⟩) 3 (by simp)

end Gate.C01.Props
