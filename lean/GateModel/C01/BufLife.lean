import GateModel.Base.Bytes
/-
C01/C15 — one pooled buffer pool (`pkg/internal/bufpool.Pool`) over its whole history, including the
self-calibration that happens after `K` Puts (`calibrateCallsThreshold`, 42000 in the source): from then on
fresh buffers are pre-sized (`defaultSize`) and buffers with a capacity above `maxSize` are dropped instead
of pooled, so pool misses become frequent.  What the encoders rely on — "Get returns a buffer of LENGTH 0" —
must hold in both regimes.  `fresh n` is the content of `bytes.NewBuffer(make([]byte, 0, n))`: the source has
length 0 whatever `n` is; a variant that allocates `make([]byte, n)` (length n) is the defective one.
-/
namespace Gate.C01.BufLife
open Gate

structure P where
  idle : List Bytes      -- pooled buffers with their contents
  calls : Nat            -- Puts since the last calibration
  defaultSize : Nat
  maxSize : Nat          -- 0 = unlimited (before the first calibration)
  deriving Repr

def init : P := ⟨[], 0, 0, 0⟩

/-- `Pool.Get` -/
def get (fresh : Nat → Bytes) (p : P) : Bytes × P :=
  match p.idle with
  | b :: r => (b, { p with idle := r })
  | [] => (fresh p.defaultSize, p)

/-- `Pool.Put` of a buffer with content `b` and capacity `cap`; `size` is the calibrated class size
    (any function of the history: the theorems do not depend on it) -/
def put (K : Nat) (size : Nat) (p : P) (cap : Nat) : P :=
  let p1 : P := if p.calls + 1 > K then { p with calls := 0, defaultSize := size, maxSize := size }
                else { p with calls := p.calls + 1 }
  if p1.maxSize = 0 ∨ cap ≤ p1.maxSize then { p1 with idle := [] :: p1.idle }   -- b.Reset(); pool.Put(b)
  else p1                                                                        -- dropped

/-- one encoder use: Get, append the frame body, write the buffer out, Put -/
def use (fresh : Nat → Bytes) (K size : Nat) (p : P) (content : Bytes) (cap : Nat) : Bytes × P :=
  let (b, p') := get fresh p
  (b ++ content, put K size p' cap)

/-- a whole history of uses: what each one wrote -/
def history (fresh : Nat → Bytes) (K size : Nat) : P → List (Bytes × Nat) → List Bytes
  | _, [] => []
  | p, (c, cap) :: r => (use fresh K size p c cap).1 :: history fresh K size (use fresh K size p c cap).2 r

def Clean (p : P) : Prop := ∀ b ∈ p.idle, b = []

theorem clean_init : Clean init := by intro b hb; simp [init] at hb

theorem get_clean (fresh : Nat → Bytes) (hf : ∀ n, fresh n = []) (p : P) (h : Clean p) :
    (get fresh p).1 = [] ∧ Clean (get fresh p).2 := by
  unfold get
  cases hi : p.idle with
  | nil => simp only; exact ⟨hf _, h⟩
  | cons b r =>
    simp only
    refine ⟨h b (by rw [hi]; simp), ?_⟩
    intro x hx; exact h x (by rw [hi]; simp [hx])

theorem put_clean (K size : Nat) (p : P) (cap : Nat) (h : Clean p) : Clean (put K size p cap) := by
  unfold put Clean
  intro b hb
  by_cases hk : p.calls + 1 > K <;> simp only [hk, if_true, if_false] at hb
  all_goals
    split at hb
    · simp at hb; rcases hb with rfl | hb
      · rfl
      · exact h b hb
    · exact h b hb

theorem use_writes_content (fresh : Nat → Bytes) (hf : ∀ n, fresh n = []) (K size : Nat) (p : P) (h : Clean p)
    (c : Bytes) (cap : Nat) : (use fresh K size p c cap).1 = c ∧ Clean (use fresh K size p c cap).2 := by
  unfold use
  obtain ⟨h1, h2⟩ := get_clean fresh hf p h
  refine ⟨by simp [h1], put_clean K size _ cap h2⟩

theorem history_writes_contents (fresh : Nat → Bytes) (hf : ∀ n, fresh n = []) (K size : Nat) (p : P) (h : Clean p)
    (us : List (Bytes × Nat)) : history fresh K size p us = us.map (·.1) := by
  induction us generalizing p with
  | nil => rfl
  | cons u r ih =>
    obtain ⟨c, cap⟩ := u
    obtain ⟨h1, h2⟩ := use_writes_content fresh hf K size p h c cap
    simp only [history, List.map_cons, h1, ih _ h2]

end Gate.C01.BufLife
