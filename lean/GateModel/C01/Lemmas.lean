import GateModel.C01.Model
import GateModel.C03.Lemmas
namespace Gate.C01
open Gate Gate.C03

/-! ## CFB8 -/

theorem xor_cancel (p k : UInt8) : (p ^^^ k) ^^^ k = p := by
  rw [UInt8.xor_assoc, UInt8.xor_self, UInt8.xor_zero]

theorem cfb8Dec_cfb8Enc (E : Bytes → Bytes) (reg bs : Bytes) : cfb8Dec E reg (cfb8Enc E reg bs) = bs := by
  induction bs generalizing reg with
  | nil => rfl
  | cons p ps ih => simp only [cfb8Enc, cfb8Dec, xor_cancel, ih]

theorem cfb8Enc_cfb8Dec (E : Bytes → Bytes) (reg bs : Bytes) : cfb8Enc E reg (cfb8Dec E reg bs) = bs := by
  induction bs generalizing reg with
  | nil => rfl
  | cons p ps ih => simp only [cfb8Enc, cfb8Dec, xor_cancel, ih]

theorem cfb8Enc_append (E : Bytes → Bytes) (reg a b : Bytes) :
    cfb8Enc E reg (a ++ b) = cfb8Enc E reg a ++ cfb8Enc E (regAfter reg (cfb8Enc E reg a)) b := by
  induction a generalizing reg with
  | nil => rfl
  | cons p ps ih => simp only [List.cons_append, cfb8Enc, regAfter, List.foldl_cons, ih]

theorem cfb8Dec_append (E : Bytes → Bytes) (reg a b : Bytes) :
    cfb8Dec E reg (a ++ b) = cfb8Dec E reg a ++ cfb8Dec E (regAfter reg a) b := by
  induction a generalizing reg with
  | nil => rfl
  | cons p ps ih => simp only [List.cons_append, cfb8Dec, regAfter, List.foldl_cons, ih]

theorem cfb8Enc_length (E : Bytes → Bytes) (reg bs : Bytes) : (cfb8Enc E reg bs).length = bs.length := by
  induction bs generalizing reg with
  | nil => rfl
  | cons p ps ih => simp only [cfb8Enc, List.length_cons, ih]

/-! ## chunked ReadFull -/

theorem readFullChunks_spec (n : Nat) (cs : Chunks) :
    (∀ b rest, readFullChunks n cs = some (b, rest) →
        b = cs.flatten.take n ∧ rest.flatten = cs.flatten.drop n ∧ n ≤ cs.flatten.length) ∧
    (readFullChunks n cs = none → cs.flatten.length < n) := by
  induction cs generalizing n with
  | nil =>
    cases n with
    | zero => simp [readFullChunks]
    | succ n => simp [readFullChunks]
  | cons c cs ih =>
    cases n with
    | zero => simp [readFullChunks]
    | succ n =>
      unfold readFullChunks
      by_cases hc : c.length ≤ n + 1
      · rw [if_pos hc]
        obtain ⟨ih1, ih2⟩ := ih (n + 1 - c.length)
        cases hr : readFullChunks (n + 1 - c.length) cs with
        | none =>
          simp only [List.flatten_cons, List.length_append]
          refine ⟨?_, fun _ => ?_⟩
          · intro b rest h; exact absurd h (by simp)
          · have := ih2 hr; omega
        | some br =>
          obtain ⟨b, rest⟩ := br
          obtain ⟨h1, h2, h3⟩ := ih1 b rest hr
          simp only [List.flatten_cons, List.length_append]
          refine ⟨?_, by intro h; cases h⟩
          intro b' rest' h
          simp only [Option.some.injEq, Prod.mk.injEq] at h
          obtain ⟨rfl, rfl⟩ := h
          refine ⟨?_, ?_, by omega⟩
          · rw [List.take_append, List.take_of_length_le (by omega), h1]
          · rw [List.drop_append, List.drop_of_length_le (by omega), h2]; simp
      · rw [if_neg hc]
        simp only [List.flatten_cons, List.length_append]
        refine ⟨?_, by intro h; cases h⟩
        intro b rest h
        simp only [Option.some.injEq, Prod.mk.injEq] at h
        obtain ⟨rfl, rfl⟩ := h
        refine ⟨?_, ?_, by omega⟩
        · rw [List.take_append, show n + 1 - c.length = 0 by omega]; simp
        · simp only [List.flatten_cons]
          rw [List.drop_append, show n + 1 - c.length = 0 by omega]; simp

/-! ## frames -/

theorem writeVarInt_zero : writeVarInt 0 = [0] := by rfl

theorem readVarInt_nat (n : Nat) (rest : Bytes) (h : n < 2 ^ 31) :
    readVarInt (writeVarInt (n : Int) ++ rest) = .ok ((n : Int), rest) :=
  readVarInt_writeVarInt _ _ (by omega) (by omega)

theorem readVarIntFrame_ok (b rest : Bytes) (h0 : b ≠ []) (hmax : b.length ≤ maxFrame)
    (h31 : b.length < 2 ^ 31) :
    readVarIntFrame (writeVarInt b.length ++ (b ++ rest)) = .ok (b, rest) := by
  unfold readVarIntFrame
  rw [readVarInt_nat _ _ h31]
  simp only
  have hlen : 0 < b.length := List.length_pos_iff.mpr h0
  have h1 : ¬ ((b.length : Int) = 0) := by omega
  have h2 : ¬ ((b.length : Int) < 0 ∨ (b.length : Int) > (maxFrame : Int)) := by omega
  rw [if_neg h1, if_neg h2, Int.toNat_natCast, readFull_append]

/-- one frame written by the encoder is read back as the same payload, leaving exactly `rest` -/
theorem readPayload_encodeFrame (cfg : Cfg) (D : Bytes → Bytes) (Z : Bytes → Option Bytes)
    (p rest : Bytes) (hp : p ≠ [])
    (hz : Z (D p) = some p)
    (hfit : (encodeFrame cfg.threshold D p).length ≤ maxFrame)
    (hcap : p.length ≤ cfg.cap) (hmax31 : maxFrame < 2 ^ 31) :
    readPayload cfg Z (encodeFrame cfg.threshold D p ++ rest) = .ok (p, rest) := by
  have hlen : 0 < p.length := List.length_pos_iff.mpr hp
  unfold encodeFrame at hfit ⊢
  unfold readPayload
  by_cases h1 : cfg.threshold < 0
  · rw [if_pos h1] at hfit ⊢
    simp only [List.length_append] at hfit
    rw [List.append_assoc, readVarIntFrame_ok p rest hp (by omega) (by omega)]
    simp only [if_pos h1]
    cases p with
    | nil => exact absurd rfl hp
    | cons a t => simp
  · rw [if_neg h1] at hfit ⊢
    by_cases h2 : (p.length : Int) < cfg.threshold
    · rw [if_pos h2] at hfit ⊢
      simp only [List.length_append, writeVarInt_zero, List.length_cons, List.length_nil] at hfit
      have e : writeVarInt ((p.length : Int) + 1) ++ (writeVarInt 0 ++ p) ++ rest
          = writeVarInt (((writeVarInt 0 ++ p).length : Nat) : Int) ++ ((writeVarInt 0 ++ p) ++ rest) := by
        simp [writeVarInt_zero]
      rw [e, readVarIntFrame_ok _ rest (by simp [writeVarInt_zero])
        (by simp [writeVarInt_zero]; omega) (by simp [writeVarInt_zero]; omega)]
      simp only [writeVarInt_zero, List.cons_append, List.nil_append, List.isEmpty_cons, if_neg h1]
      unfold openEnvelope
      have := readVarInt_nat 0 p (by omega)
      simp only [Int.natCast_zero, writeVarInt_zero, List.cons_append, List.nil_append] at this
      rw [this]
      simp only [if_true]
      have : ¬ ((p.length : Int) > cfg.threshold) := by omega
      simp [this]
    · rw [if_neg h2] at hfit ⊢
      simp only at hfit ⊢
      have hc0 : writeVarInt (p.length : Int) ++ D p ≠ [] := by
        intro hc
        have := writeVarInt_length_pos (p.length : Int)
        rw [List.append_eq_nil_iff] at hc
        rw [hc.1] at this; simp at this
      simp only [List.length_append] at hfit
      rw [List.append_assoc, readVarIntFrame_ok _ rest hc0 (by simp only [List.length_append]; omega)
        (by simp only [List.length_append]; omega)]
      simp only [if_neg h1]
      have hne : (writeVarInt (p.length : Int) ++ D p).isEmpty = false := by
        cases hh : writeVarInt (p.length : Int) ++ D p with
        | nil => exact absurd hh hc0
        | cons a t => rfl
      simp only [hne, Bool.false_eq_true, if_false]
      unfold openEnvelope
      have hcapmax : cfg.cap < 2 ^ 31 := by
        unfold Cfg.cap capServerBound capClientBound; split <;> decide
      rw [readVarInt_nat _ _ (by omega)]
      simp only
      have e1 : ¬ ((p.length : Int) = 0) := by omega
      have e2 : ¬ ((p.length : Int) < cfg.threshold) := h2
      have e3 : ¬ ((p.length : Int) > (cfg.cap : Int)) := by omega
      rw [if_neg e1, if_neg e2, if_neg e3]
      unfold inflateExact
      rw [hz]; simp

end Gate.C01

namespace Gate.C01
open Gate Gate.C03

theorem encodeFrame_ne_nil (thr : Int) (D : Bytes → Bytes) (p : Bytes) : encodeFrame thr D p ≠ [] := by
  unfold encodeFrame
  intro h
  split at h
  · have := writeVarInt_length_pos (p.length : Int)
    rw [List.append_eq_nil_iff] at h; rw [h.1] at this; simp at this
  · split at h
    · have := writeVarInt_length_pos ((p.length : Int) + 1)
      rw [List.append_eq_nil_iff] at h; rw [h.1] at this; simp at this
    · simp only at h
      have := writeVarInt_length_pos (((writeVarInt (p.length : Int) ++ D p).length : Nat) : Int)
      rw [List.append_eq_nil_iff] at h; rw [h.1] at this; simp at this

/-- what makes a payload transportable under a configuration -/
structure Fits (cfg : Cfg) (D : Bytes → Bytes) (Z : Bytes → Option Bytes) (p : Bytes) : Prop where
  nonempty : p ≠ []
  zlib : Z (D p) = some p
  frame : (encodeFrame cfg.threshold D p).length ≤ maxFrame
  cap : p.length ≤ cfg.cap

theorem decodeAll_encodeAll (cfg : Cfg) (D : Bytes → Bytes) (Z : Bytes → Option Bytes)
    (hmax31 : maxFrame < 2 ^ 31) (ps : List Bytes) (hall : ∀ p ∈ ps, Fits cfg D Z p)
    (fuel : Nat) (hf : ps.length < fuel) :
    decodeAll cfg Z fuel (encodeAll cfg.threshold D ps) = (ps, none) := by
  induction ps generalizing fuel with
  | nil =>
    cases fuel with
    | zero => omega
    | succ f => simp [encodeAll, decodeAll]
  | cons p t ih =>
    cases fuel with
    | zero => omega
    | succ f =>
      have hp := hall p (by simp)
      have hne : (encodeAll cfg.threshold D (p :: t)).isEmpty = false := by
        simp only [encodeAll, List.map_cons, List.flatten_cons]
        cases hh : encodeFrame cfg.threshold D p with
        | nil => exact absurd hh (encodeFrame_ne_nil _ _ _)
        | cons a r => rfl
      unfold decodeAll
      simp only [hne, Bool.false_eq_true, if_false]
      have hrp : readPacket cfg Z ((encodeAll cfg.threshold D (p :: t)).length + 1) 0
          (encodeAll cfg.threshold D (p :: t)) = .ok (p, encodeAll cfg.threshold D t) := by
        unfold readPacket
        have : encodeAll cfg.threshold D (p :: t) = encodeFrame cfg.threshold D p ++ encodeAll cfg.threshold D t := by
          simp [encodeAll]
        rw [this, readPayload_encodeFrame cfg D Z p _ hp.nonempty hp.zlib hp.frame hp.cap hmax31]
        simp only
        have : p.isEmpty = false := by
          cases hh : p with
          | nil => exact absurd hh hp.nonempty
          | cons a r => rfl
        simp [this]
      rw [hrp]
      simp only
      rw [ih (fun q hq => hall q (by simp [hq])) f (by simp at hf; omega)]

theorem readPackets_encodeAll (cfg : Cfg) (D : Bytes → Bytes) (Z : Bytes → Option Bytes)
    (hmax31 : maxFrame < 2 ^ 31) (ps : List Bytes) (rest : Bytes) (hall : ∀ p ∈ ps, Fits cfg D Z p) :
    readPackets cfg Z ps.length (encodeAll cfg.threshold D ps ++ rest) = .ok (ps, rest) := by
  induction ps with
  | nil => simp [readPackets, encodeAll]
  | cons p t ih =>
    have hp := hall p (by simp)
    have e : encodeAll cfg.threshold D (p :: t) ++ rest
        = encodeFrame cfg.threshold D p ++ (encodeAll cfg.threshold D t ++ rest) := by
      simp [encodeAll]
    simp only [List.length_cons, readPackets]
    have hrp : readPacket cfg Z ((encodeAll cfg.threshold D (p :: t) ++ rest).length + 1) 0
        (encodeAll cfg.threshold D (p :: t) ++ rest) = .ok (p, encodeAll cfg.threshold D t ++ rest) := by
      unfold readPacket
      rw [e, readPayload_encodeFrame cfg D Z p _ hp.nonempty hp.zlib hp.frame hp.cap hmax31]
      simp only
      have : p.isEmpty = false := by
        cases hh : p with
        | nil => exact absurd hh hp.nonempty
        | cons a r => rfl
      simp [this]
    rw [hrp]
    simp only
    rw [ih (fun q hq => hall q (by simp [hq]))]

end Gate.C01
