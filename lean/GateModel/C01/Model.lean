import GateModel.Base.Bytes
import GateModel.C03.Model
import GateModel.Gen.C01
/-
C01/C02 — model of pkg/edition/java/proto/codec/{encoder,decoder,cipher}.go and the netmc reader's
stream contract.

zlib is a parameter: `D : Bytes → Bytes` (deflate at the configured level) and
`Z : Bytes → Option Bytes` (`some out` iff the zlib stream in the body is complete and valid).
The decoder model is a function of the remaining byte stream; the `fullReader` contract
(every `Read` is an `io.ReadFull`) is what makes decoding independent of chunking (see `Chunks`).
-/
namespace Gate.C01
open Gate Gate.C03

/-- regenerated from encoder.go on every run -/
def maxFrame : Nat := Gate.Gen.C01.maximumFrameLength.toNat
def capClientBound : Nat := Gate.Gen.C01.uncompressedCap.toNat          -- data from servers
def capServerBound : Nat := Gate.Gen.C01.serverboundUncompressedCap.toNat -- data from clients

structure Cfg where
  threshold : Int       -- < 0 : compression disabled
  serverBound : Bool    -- direction of the DECODER (serverbound = bytes come from a client)
  deriving Repr

def Cfg.cap (c : Cfg) : Nat := if c.serverBound then capServerBound else capClientBound

/-! ## encoder (`Encoder.writeBuf` / `writeCompressed`) -/

def encodeFrame (threshold : Int) (D : Bytes → Bytes) (p : Bytes) : Bytes :=
  if threshold < 0 then writeVarInt p.length ++ p
  else if (p.length : Int) < threshold then writeVarInt (p.length + 1) ++ (writeVarInt 0 ++ p)
  else
    let c := writeVarInt p.length ++ D p
    writeVarInt c.length ++ c

def encodeAll (threshold : Int) (D : Bytes → Bytes) (ps : List Bytes) : Bytes :=
  (ps.map (encodeFrame threshold D)).flatten

/-! ## decoder -/

inductive DErr where
  | eof              -- stream ended (cleanly or inside a frame)
  | badVarint        -- frame length VarInt longer than 5 bytes
  | frameTooLarge    -- length < 0 or > MaximumFrameLength
  | badClaimed       -- claimed-size VarInt unreadable
  | overThreshold    -- uncompressed frame larger than the threshold
  | belowThreshold   -- compressed frame whose claimed size is below the threshold (incl. negative)
  | overCap          -- claimed size above the direction cap
  | badBody          -- body is not a complete zlib stream inflating to exactly the claimed size
  | tooManyEmpty     -- more than 11 empty frames in a row (gate-specific)
  deriving DecidableEq, Repr, Inhabited

def DErr.toString : DErr → String
  | .eof => "eof" | .badVarint => "bad-varint" | .frameTooLarge => "frame-too-large"
  | .badClaimed => "bad-claimed" | .overThreshold => "over-threshold" | .belowThreshold => "below-threshold"
  | .overCap => "over-cap" | .badBody => "bad-body" | .tooManyEmpty => "too-many-empty"

/-- `readVarIntFrame`: frame body (possibly empty) and the rest of the stream. -/
def readVarIntFrame (s : Bytes) : Except DErr (Bytes × Bytes) :=
  match readVarInt s with
  | .error .tooBig => .error .badVarint
  | .error _ => .error .eof
  | .ok (len, r) =>
    if len = 0 then .ok ([], r)
    else if len < 0 ∨ len > (maxFrame : Int) then .error .frameTooLarge
    else match readFull len.toNat r with
      | .ok (b, r') => .ok (b, r')
      | .error _ => .error .eof

/-- the size of the frame buffer `readVarIntFrame` allocates (`make([]byte, length)`), if it gets that far -/
def frameAlloc (s : Bytes) : Option Nat :=
  match readVarInt s with
  | .ok (len, _) => if len = 0 ∨ len < 0 ∨ len > (maxFrame : Int) then none else some len.toNat
  | .error _ => none

/-- `Decoder.decompress` after the checks (repaired code): the zlib stream must end exactly
    after `claimed` bytes. -/
def inflateExact (Z : Bytes → Option Bytes) (claimed : Int) (body : Bytes) : Except DErr Bytes :=
  match Z body with
  | some out => if (out.length : Int) = claimed then .ok out else .error .badBody
  | none => .error .badBody

/-- the compression envelope of `readPayload` applied to a non-empty frame body -/
def openEnvelope (cfg : Cfg) (Z : Bytes → Option Bytes) (frame : Bytes) : Except DErr Bytes :=
  match readVarInt frame with
  | .error _ => .error .badClaimed
  | .ok (claimed, body) =>
    if claimed = 0 then
      if (body.length : Int) > cfg.threshold then .error .overThreshold else .ok body
    else if claimed < cfg.threshold then .error .belowThreshold
    else if claimed > (cfg.cap : Int) then .error .overCap
    else inflateExact Z claimed body

/-- the inflate buffer `decompress` allocates (`make([]byte, claimed)`), if it gets that far -/
def inflateAlloc (cfg : Cfg) (frame : Bytes) : Option Nat :=
  match readVarInt frame with
  | .ok (claimed, _) =>
    if claimed = 0 ∨ claimed < cfg.threshold ∨ claimed > (cfg.cap : Int) then none else some claimed.toNat
  | .error _ => none

/-- `Decoder.readPayload` -/
def readPayload (cfg : Cfg) (Z : Bytes → Option Bytes) (s : Bytes) : Except DErr (Bytes × Bytes) :=
  match readVarIntFrame s with
  | .error e => .error e
  | .ok (frame, r) =>
    if frame.isEmpty then .ok ([], r)
    else if cfg.threshold < 0 then .ok (frame, r)
    else match openEnvelope cfg Z frame with
      | .ok p => .ok (p, r)
      | .error e => .error e

/-- `Decoder.readPacket` up to `decodePayload`: skip empty payloads, at most 11 in a row.
    `fuel` bounds the recursion (every skipped frame consumes at least one byte). -/
def readPacket (cfg : Cfg) (Z : Bytes → Option Bytes) : Nat → Nat → Bytes → Except DErr (Bytes × Bytes)
  | 0, _, _ => .error .eof
  | fuel + 1, retries, s =>
    match readPayload cfg Z s with
    | .error e => .error e
    | .ok (p, r) =>
      if p.isEmpty then
        if retries > 10 then .error .tooManyEmpty else readPacket cfg Z fuel (retries + 1) r
      else .ok (p, r)

/-- read packets until the stream is exhausted or an error occurs -/
def decodeAll (cfg : Cfg) (Z : Bytes → Option Bytes) : Nat → Bytes → List Bytes × Option DErr
  | 0, _ => ([], some .eof)
  | fuel + 1, s =>
    if s.isEmpty then ([], none)
    else match readPacket cfg Z (s.length + 1) 0 s with
      | .error e => ([], some e)
      | .ok (p, r) => let (ps, e) := decodeAll cfg Z fuel r; (p :: ps, e)

/-! ### pre-fix behaviour, kept as defective variants for the `…_fails` witnesses -/

/-- before the fix `claimed <= 0` took the uncompressed path and only the first `claimed` inflated
    bytes were looked at (`Zraw` = everything the stream yields) -/
def openEnvelopeDefective (cfg : Cfg) (Zraw : Bytes → Bytes) (frame : Bytes) : Except DErr Bytes :=
  match readVarInt frame with
  | .error _ => .error .badClaimed
  | .ok (claimed, body) =>
    if claimed ≤ 0 then
      if (body.length : Int) > cfg.threshold then .error .overThreshold else .ok body
    else if claimed < cfg.threshold then .error .belowThreshold
    else if claimed > (cfg.cap : Int) then .error .overCap
    else if claimed.toNat ≤ (Zraw body).length then .ok ((Zraw body).take claimed.toNat) else .error .badBody

/-! ## CFB8 (go-mc `net/CFB8`), for an arbitrary block function `E` on 16-byte registers -/

/-- shift register: drop the oldest byte, append the newest ciphertext byte -/
def shiftIn (reg : Bytes) (c : UInt8) : Bytes := reg.drop 1 ++ [c]

def cfb8Enc (E : Bytes → Bytes) : Bytes → Bytes → Bytes
  | _, [] => []
  | reg, p :: ps =>
    let c := p ^^^ (E reg).headD 0
    c :: cfb8Enc E (shiftIn reg c) ps

def cfb8Dec (E : Bytes → Bytes) : Bytes → Bytes → Bytes
  | _, [] => []
  | reg, c :: cs =>
    let p := c ^^^ (E reg).headD 0
    p :: cfb8Dec E (shiftIn reg c) cs

/-- the register after processing ciphertext `cs` -/
def regAfter (reg : Bytes) (cs : Bytes) : Bytes := cs.foldl shiftIn reg

/-! ## chunked streams: `io.ReadFull` over a reader that returns arbitrary non-empty chunks -/

/-- a stream as the list of chunks successive `Read` calls would return -/
abbrev Chunks := List Bytes

/-- `io.ReadFull(rd, buf[:n])` on a chunked stream: gather bytes across chunks, leaving the unread
    tail of the last chunk touched in front of the remaining chunks (the bufio buffer). -/
def readFullChunks : Nat → Chunks → Option (Bytes × Chunks)
  | 0, cs => some ([], cs)
  | _ + 1, [] => none
  | n + 1, c :: cs =>
    if c.length ≤ n + 1 then
      match readFullChunks (n + 1 - c.length) cs with
      | some (b, rest) => some (c ++ b, rest)
      | none => none
    else some (c.take (n + 1), c.drop (n + 1) :: cs)
termination_by n cs => cs.length

/-! ## encryption enabled in mid-stream -/

/-- read exactly `k` packets, returning them and the untouched rest of the stream -/
def readPackets (cfg : Cfg) (Z : Bytes → Option Bytes) : Nat → Bytes → Except DErr (List Bytes × Bytes)
  | 0, s => .ok ([], s)
  | k + 1, s =>
    match readPacket cfg Z (s.length + 1) 0 s with
    | .error e => .error e
    | .ok (p, r) =>
      match readPackets cfg Z k r with
      | .error e => .error e
      | .ok (ps, r') => .ok (p :: ps, r')

/-- Encryption enabled in mid-stream (`reader.EnableEncryption` after `k` plaintext packets, as in the login
    flow): the decrypting reader is put ON TOP of the read buffer, so every byte not yet consumed — whether or
    not it was already read from the socket — is decrypted.  In the model: decrypt the rest of the stream. -/
def decodeSwitch (cfg : Cfg) (Z : Bytes → Option Bytes) (E : Bytes → Bytes) (iv : Bytes) (k fuel : Nat)
    (s : Bytes) : List Bytes × Option DErr :=
  match readPackets cfg Z k s with
  | .error e => ([], some e)
  | .ok (ps, r) => let (qs, e) := decodeAll cfg Z fuel (cfb8Dec E iv r); (ps ++ qs, e)

end Gate.C01
