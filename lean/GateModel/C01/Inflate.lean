import GateModel.Base.Bytes
/-
zlib (RFC 1950) / DEFLATE (RFC 1951) decompression, executable, after Mark Adler's `puff.c`.
Used by the C01/C02 drivers to CHECK the zlib oracle the harness passes on each case line (Go's
compress/zlib): the model's `Z` is then computed, not taken on trust.  Theorems still treat zlib
as a parameter; nothing is proved about this file.
-/
namespace Gate.C01.Inflate

structure BitSt where
  data : ByteArray
  pos : Nat := 0          -- next byte
  bitbuf : Nat := 0
  bitcnt : Nat := 0
  out : ByteArray := ByteArray.empty

abbrev M := ExceptT String (StateM BitSt)

def needBits (n : Nat) : M Nat := do
  let mut s ← get
  let mut val := s.bitbuf
  let mut cnt := s.bitcnt
  let mut pos := s.pos
  while cnt < n do
    if pos ≥ s.data.size then throw "eof"
    val := val ||| ((s.data.get! pos).toNat <<< cnt)
    pos := pos + 1
    cnt := cnt + 8
  set { s with bitbuf := val >>> n, bitcnt := cnt - n, pos := pos }
  return val &&& ((1 <<< n) - 1)

structure Huff where
  count : Array Nat     -- number of symbols of each length (0..15)
  symbol : Array Nat    -- canonically ordered symbols
  deriving Inhabited

/-- build decoding tables from code lengths; returns (table, left) where left < 0 ⇒ over-subscribed
    (encoded as `none`), left > 0 ⇒ incomplete -/
def construct (lengths : Array Nat) : Option (Huff × Nat) := Id.run do
  let mut count := Array.replicate 16 0
  for l in lengths do
    count := count.set! l (count[l]! + 1)
  if count[0]! == lengths.size then return some (⟨count, #[]⟩, 0)
  let mut left : Int := 1
  for len in [1:16] do
    left := left * 2
    left := left - (count[len]! : Int)
    if left < 0 then return none
  let mut offs := Array.replicate 16 0
  for len in [1:15] do
    offs := offs.set! (len + 1) (offs[len]! + count[len]!)
  let mut symbol := Array.replicate lengths.size 0
  for sym in [0:lengths.size] do
    let l := lengths[sym]!
    if l != 0 then
      symbol := symbol.set! offs[l]! sym
      offs := offs.set! l (offs[l]! + 1)
  return some (⟨count, symbol⟩, left.toNat)

def decodeSym (h : Huff) : M Nat := do
  let mut code : Int := 0
  let mut first : Int := 0
  let mut index : Nat := 0
  for len in [1:16] do
    let b ← needBits 1
    code := code + (b : Int)
    let cnt : Int := h.count[len]!
    if code - cnt < first then
      return h.symbol[index + (code - first).toNat]!
    index := index + cnt.toNat
    first := first + cnt
    first := first * 2
    code := code * 2
  throw "bad-code"

def lbase : Array Nat := #[3, 4, 5, 6, 7, 8, 9, 10, 11, 13, 15, 17, 19, 23, 27, 31, 35, 43, 51, 59, 67, 83, 99, 115, 131, 163, 195, 227, 258]
def lext : Array Nat := #[0, 0, 0, 0, 0, 0, 0, 0, 1, 1, 1, 1, 2, 2, 2, 2, 3, 3, 3, 3, 4, 4, 4, 4, 5, 5, 5, 5, 0]
def dbase : Array Nat := #[1, 2, 3, 4, 5, 7, 9, 13, 17, 25, 33, 49, 65, 97, 129, 193, 257, 385, 513, 769, 1025, 1537, 2049, 3073, 4097, 6145, 8193, 12289, 16385, 24577]
def dext : Array Nat := #[0, 0, 0, 0, 1, 1, 2, 2, 3, 3, 4, 4, 5, 5, 6, 6, 7, 7, 8, 8, 9, 9, 10, 10, 11, 11, 12, 12, 13, 13]

def codes (lencode distcode : Huff) (limit : Nat) : M Unit := do
  let mut fuel := limit + 16
  repeat
    if fuel == 0 then throw "too-large"
    fuel := fuel - 1
    let sym ← decodeSym lencode
    if sym < 256 then
      modify fun s => { s with out := s.out.push (UInt8.ofNat sym) }
      if (← get).out.size > limit then throw "too-large"
    else if sym == 256 then
      break
    else
      let sym := sym - 257
      if sym ≥ 29 then throw "bad-length-symbol"
      let len := lbase[sym]! + (← needBits lext[sym]!)
      let ds ← decodeSym distcode
      if ds ≥ 30 then throw "bad-distance-symbol"
      let dist := dbase[ds]! + (← needBits dext[ds]!)
      let s ← get
      if dist > s.out.size then throw "distance-too-far"
      if s.out.size + len > limit then throw "too-large"
      let mut o := s.out
      for _ in [0:len] do
        o := o.push (o.get! (o.size - dist))
      set { s with out := o }

def fixedTables : Huff × Huff :=
  let lens := (Array.replicate 144 8) ++ (Array.replicate 112 9) ++ (Array.replicate 24 7) ++ (Array.replicate 8 8)
  let l := (construct lens).get!.1
  let d := (construct (Array.replicate 30 5)).get!.1
  (l, d)

def order : Array Nat := #[16, 17, 18, 0, 8, 7, 9, 6, 10, 5, 11, 4, 12, 3, 13, 2, 14, 1, 15]

def dynamic (limit : Nat) : M Unit := do
  let nlen := (← needBits 5) + 257
  let ndist := (← needBits 5) + 1
  let ncode := (← needBits 4) + 4
  if nlen > 286 || ndist > 30 then throw "bad-counts"
  let mut lengths := Array.replicate 19 0
  for i in [0:ncode] do
    lengths := lengths.set! order[i]! (← needBits 3)
  let some (lencode, left) := construct lengths | throw "bad-codelen-code"
  if left != 0 then throw "incomplete-codelen-code"
  let mut ls : Array Nat := Array.replicate (nlen + ndist) 0
  let mut index := 0
  while index < nlen + ndist do
    let sym ← decodeSym lencode
    if sym < 16 then
      ls := ls.set! index sym
      index := index + 1
    else
      let mut len := 0
      let mut rep := 0
      if sym == 16 then
        if index == 0 then throw "no-last-length"
        len := ls[index - 1]!
        rep := 3 + (← needBits 2)
      else if sym == 17 then
        rep := 3 + (← needBits 3)
      else
        rep := 11 + (← needBits 7)
      if index + rep > nlen + ndist then throw "too-many-lengths"
      for _ in [0:rep] do
        ls := ls.set! index len
        index := index + 1
  if ls[256]! == 0 then throw "no-end-code"
  let some (lc, lleft) := construct (ls.extract 0 nlen) | throw "bad-literal-code"
  if lleft != 0 && nlen - lc.count[0]! != 1 then throw "incomplete-literal-code"
  let some (dc, dleft) := construct (ls.extract nlen (nlen + ndist)) | throw "bad-distance-code"
  if dleft != 0 && ndist - dc.count[0]! != 1 then throw "incomplete-distance-code"
  codes lc dc limit

def stored (limit : Nat) : M Unit := do
  modify fun s => { s with bitbuf := 0, bitcnt := 0 }
  let s ← get
  if s.pos + 4 > s.data.size then throw "eof"
  let len := (s.data.get! s.pos).toNat ||| ((s.data.get! (s.pos + 1)).toNat <<< 8)
  let nlen := (s.data.get! (s.pos + 2)).toNat ||| ((s.data.get! (s.pos + 3)).toNat <<< 8)
  if len != (nlen ^^^ 0xffff) then throw "stored-len-mismatch"
  if s.pos + 4 + len > s.data.size then throw "eof"
  if s.out.size + len > limit then throw "too-large"
  set { s with pos := s.pos + 4 + len, out := s.out ++ s.data.extract (s.pos + 4) (s.pos + 4 + len) }

def inflateRaw (limit : Nat) : M Unit := do
  let mut fuel := (← get).data.size + 2
  repeat
    if fuel == 0 then throw "loop"
    fuel := fuel - 1
    let last ← needBits 1
    let typ ← needBits 2
    match typ with
    | 0 => stored limit
    | 1 => let (l, d) := fixedTables; codes l d limit
    | 2 => dynamic limit
    | _ => throw "bad-block-type"
    if last == 1 then break

def adler32 (bs : ByteArray) : Nat := Id.run do
  let mut a := 1
  let mut b := 0
  for x in bs do
    a := (a + x.toNat) % 65521
    b := (b + a) % 65521
  return b * 65536 + a

/-- zlib stream → output, or `none` (what Go's `zlib.NewReader` + `io.ReadAll` reports as an error).
    Trailing bytes after the Adler-32 checksum are ignored, as Go's reader never looks at them. -/
def zlibInflate (body : Gate.Bytes) (limit : Nat) : Option Gate.Bytes :=
  let data := ByteArray.mk body.toArray
  if data.size < 2 then none else
  let cmf := (data.get! 0).toNat
  let flg := (data.get! 1).toNat
  if cmf % 16 != 8 || cmf / 16 > 7 || (cmf * 256 + flg) % 31 != 0 || (flg / 32) % 2 == 1 then none else
  let (r, s) := (inflateRaw limit).run.run { data := data, pos := 2 }
  match r with
  | .error _ => none
  | .ok () =>
    if s.pos + 4 > data.size then none else
    let ck := (data.get! s.pos).toNat * 16777216 + (data.get! (s.pos + 1)).toNat * 65536 +
              (data.get! (s.pos + 2)).toNat * 256 + (data.get! (s.pos + 3)).toNat
    if ck != adler32 s.out then none else some s.out.toList

end Gate.C01.Inflate
