import GateModel.Base.Bytes
/-
AES-128 block encryption (FIPS-197) and CFB8 as used by Minecraft (IV = key = shared secret).
Executable; only used so that the correspondence compares real ciphertext bytes.  The CFB8 theorems
in Props quantify over an ARBITRARY block function and do not depend on this file.
-/
namespace Gate.C01

def xtime (b : UInt8) : UInt8 := if b &&& 0x80 != 0 then (b <<< 1) ^^^ 0x1b else b <<< 1

def gmul (a b : UInt8) : UInt8 := Id.run do
  let mut r : UInt8 := 0
  let mut x := a
  let mut y := b
  for _ in [0:8] do
    if y &&& 1 != 0 then r := r ^^^ x
    x := xtime x
    y := y >>> 1
  return r

/-- multiplicative inverse in GF(2^8) by exhaustive search (table built once) -/
def ginv (a : UInt8) : UInt8 :=
  if a == 0 then 0 else
    match (List.range 256).find? (fun c => gmul a (UInt8.ofNat c) == 1) with
    | some c => UInt8.ofNat c
    | none => 0

def rotl8 (b : UInt8) (n : UInt8) : UInt8 := (b <<< n) ||| (b >>> (8 - n))

def sboxOf (a : UInt8) : UInt8 :=
  let b := ginv a
  b ^^^ rotl8 b 1 ^^^ rotl8 b 2 ^^^ rotl8 b 3 ^^^ rotl8 b 4 ^^^ 0x63

def sboxTable : Array UInt8 := (Array.range 256).map fun i => sboxOf (UInt8.ofNat i)

@[inline] def sbox (b : UInt8) : UInt8 := sboxTable[b.toNat]!

abbrev Block := Array UInt8   -- 16 bytes, column-major as in FIPS-197 (byte i = row i%4, col i/4)

def subBytes (s : Block) : Block := s.map sbox
def shiftRows (s : Block) : Block :=
  (Array.range 16).map fun i => let r := i % 4; let c := i / 4; s[r + 4 * ((c + r) % 4)]!
def mixColumns (s : Block) : Block :=
  (Array.range 16).map fun i =>
    let r := i % 4; let c := i / 4
    let a := fun k => s[4 * c + (r + k) % 4]!
    gmul 2 (a 0) ^^^ gmul 3 (a 1) ^^^ a 2 ^^^ a 3
def addKey (s k : Block) : Block := (Array.range 16).map fun i => s[i]! ^^^ k[i]!

def rcon : Array UInt8 := #[0x01, 0x02, 0x04, 0x08, 0x10, 0x20, 0x40, 0x80, 0x1b, 0x36]

/-- the 11 round keys -/
def expandKey (key : Block) : Array Block := Id.run do
  let mut w : Array UInt8 := key
  for i in [4:44] do
    let t0 := w[4 * (i - 1)]!; let t1 := w[4 * (i - 1) + 1]!; let t2 := w[4 * (i - 1) + 2]!; let t3 := w[4 * (i - 1) + 3]!
    let (a, b, c, d) :=
      if i % 4 == 0 then (sbox t1 ^^^ rcon[i / 4 - 1]!, sbox t2, sbox t3, sbox t0) else (t0, t1, t2, t3)
    w := w.push (w[4 * (i - 4)]! ^^^ a)
    w := w.push (w[4 * (i - 4) + 1]! ^^^ b)
    w := w.push (w[4 * (i - 4) + 2]! ^^^ c)
    w := w.push (w[4 * (i - 4) + 3]! ^^^ d)
  return (Array.range 11).map fun r => w.extract (16 * r) (16 * r + 16)

def aesEncryptWith (rk : Array Block) (blk : Block) : Block := Id.run do
  let mut s := addKey blk rk[0]!
  for r in [1:10] do
    s := addKey (mixColumns (shiftRows (subBytes s))) rk[r]!
  return addKey (shiftRows (subBytes s)) rk[10]!

def aesEncrypt (key blk : Bytes) : Bytes := (aesEncryptWith (expandKey key.toArray) blk.toArray).toList

end Gate.C01

namespace Gate.C01

/-! ### a faster implementation for the driver (same function; `aesEncryptWith` is the readable one) -/

def sboxBA : ByteArray := ⟨sboxTable⟩
def mul2BA : ByteArray := ⟨(Array.range 256).map fun i => xtime (UInt8.ofNat i)⟩
def mul3BA : ByteArray := ⟨(Array.range 256).map fun i => xtime (UInt8.ofNat i) ^^^ UInt8.ofNat i⟩

def expandKeyBA (key : Bytes) : ByteArray :=
  ⟨(expandKey key.toArray).foldl (fun acc b => acc ++ b) #[]⟩

@[inline] def sb (b : UInt8) : UInt8 := sboxBA.get! b.toNat

/-- one AES-128 block encryption with the 176-byte expanded key -/
def aesBlockFast (rk : ByteArray) (inp : Bytes) : Bytes := Id.run do
  let mut s : ByteArray := ByteArray.mk inp.toArray
  if s.size != 16 then return []
  for i in [0:16] do
    s := s.set! i (s.get! i ^^^ rk.get! i)
  for r in [1:11] do
    -- SubBytes + ShiftRows into t
    let mut t : ByteArray := ByteArray.emptyWithCapacity 16
    for i in [0:16] do
      let row := i % 4; let c := i / 4
      t := t.push (sb (s.get! (row + 4 * ((c + row) % 4))))
    if r < 10 then
      let mut u : ByteArray := ByteArray.emptyWithCapacity 16
      for c in [0:4] do
        let a0 := t.get! (4 * c); let a1 := t.get! (4 * c + 1); let a2 := t.get! (4 * c + 2); let a3 := t.get! (4 * c + 3)
        u := u.push (mul2BA.get! a0.toNat ^^^ mul3BA.get! a1.toNat ^^^ a2 ^^^ a3)
        u := u.push (a0 ^^^ mul2BA.get! a1.toNat ^^^ mul3BA.get! a2.toNat ^^^ a3)
        u := u.push (a0 ^^^ a1 ^^^ mul2BA.get! a2.toNat ^^^ mul3BA.get! a3.toNat)
        u := u.push (mul3BA.get! a0.toNat ^^^ a1 ^^^ a2 ^^^ mul2BA.get! a3.toNat)
      t := u
    let mut v : ByteArray := ByteArray.emptyWithCapacity 16
    for i in [0:16] do
      v := v.push (t.get! i ^^^ rk.get! (16 * r + i))
    s := v
  return s.toList

end Gate.C01
