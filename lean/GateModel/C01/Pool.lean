import GateModel.Base.Bytes
/-
C01/C15 — the codec's shared buffer pools (`encodePool`, `compressPool`) under concurrent encoders.

Every encoder takes a buffer from a process-wide pool, fills it with its own frame body, writes it to
its own connection and only then gives it back (`defer release()`).  Threads = encoders (any number),
steps = the four atomic actions; the theorem quantifies over EVERY interleaving: what an encoder writes
is its own content, whatever the others do.  The defective order (release before the write — what a
"return compressed.Bytes()" refactor produces) has a two-thread witness.
-/
namespace Gate.C01.Pool
open Gate

structure St where
  bufs : Nat → Bytes          -- contents of pooled buffers, by index
  free : List Nat             -- buffers currently in the pool
  next : Nat                  -- next fresh buffer index (pool miss ⇒ allocate)
  holds : Nat → Option Nat    -- which buffer a thread holds
  pc : Nat → Nat              -- 0 acquire, 1 fill, 2/3 the two remaining actions, ≥ 4 done
  out : List (Nat × Bytes)    -- (thread, bytes it wrote to its connection)

def init : St := ⟨fun _ => [], [], 0, fun _ => none, fun _ => 0, []⟩

def upd {α} (f : Nat → α) (i : Nat) (v : α) : Nat → α := fun j => if j = i then v else f j

/-- the repaired / original order: acquire, fill, WRITE, release -/
def step (content : Nat → Bytes) (s : St) (t : Nat) : St :=
  match s.pc t with
  | 0 => match s.free with
    | b :: f => { s with free := f, holds := upd s.holds t (some b), pc := upd s.pc t 1 }
    | [] => { s with next := s.next + 1, holds := upd s.holds t (some s.next), pc := upd s.pc t 1 }
  | 1 => match s.holds t with
    | some b => { s with bufs := upd s.bufs b (content t), pc := upd s.pc t 2 }
    | none => s
  | 2 => match s.holds t with
    | some b => { s with out := s.out ++ [(t, s.bufs b)], pc := upd s.pc t 3 }
    | none => s
  | 3 => match s.holds t with
    | some b => { s with free := b :: s.free, holds := upd s.holds t none, pc := upd s.pc t 4 }
    | none => s
  | _ => s

/-- the defective order: acquire, fill, RELEASE, write (the write reads a buffer it no longer owns) -/
def stepDefective (content : Nat → Bytes) (s : St) (t : Nat) : St :=
  match s.pc t with
  | 0 => match s.free with
    | b :: f => { s with free := f, holds := upd s.holds t (some b), pc := upd s.pc t 1 }
    | [] => { s with next := s.next + 1, holds := upd s.holds t (some s.next), pc := upd s.pc t 1 }
  | 1 => match s.holds t with
    | some b => { s with bufs := upd s.bufs b (content t), pc := upd s.pc t 2 }
    | none => s
  | 2 => match s.holds t with       -- release first, but remember which buffer the slice points into
    | some b => { s with free := b :: s.free, pc := upd s.pc t 3 }
    | none => s
  | 3 => match s.holds t with
    | some b => { s with out := s.out ++ [(t, s.bufs b)], holds := upd s.holds t none, pc := upd s.pc t 4 }
    | none => s
  | _ => s

def run (content : Nat → Bytes) (sched : List Nat) : St := sched.foldl (step content) init
def runDefective (content : Nat → Bytes) (sched : List Nat) : St := sched.foldl (stepDefective content) init

/-- the invariant carried along every schedule -/
structure Inv (content : Nat → Bytes) (s : St) : Prop where
  held_fresh : ∀ t b, s.holds t = some b → b < s.next ∧ b ∉ s.free
  held_excl : ∀ t1 t2 b, s.holds t1 = some b → s.holds t2 = some b → t1 = t2
  pc_holds : ∀ t, (s.pc t = 1 ∨ s.pc t = 2 ∨ s.pc t = 3) → ∃ b, s.holds t = some b
  pc_none : ∀ t, (s.pc t = 0 ∨ 4 ≤ s.pc t) → s.holds t = none
  filled : ∀ t b, (s.pc t = 2 ∨ s.pc t = 3) → s.holds t = some b → s.bufs b = content t
  free_lt : ∀ b ∈ s.free, b < s.next
  free_nodup : s.free.Nodup
  out_own : ∀ p ∈ s.out, p.2 = content p.1

theorem inv_init (content : Nat → Bytes) : Inv content init :=
  ⟨by simp [init], by simp [init], by simp [init], by simp [init], by simp [init], by simp [init],
   by simp [init], by simp [init]⟩

@[simp] theorem upd_same {α} (f : Nat → α) (i : Nat) (v : α) : upd f i v i = v := by simp [upd]
theorem upd_other {α} (f : Nat → α) (i j : Nat) (v : α) (h : j ≠ i) : upd f i v j = f j := by simp [upd, h]

theorem inv_step (content : Nat → Bytes) (s : St) (t : Nat) (h : Inv content s) : Inv content (step content s t) := by
  unfold step
  split
  · -- acquire
    rename_i hpc
    have hnone := h.pc_none t (Or.inl hpc)
    split
    · rename_i b f hf
      have hbfree : b ∈ s.free := by rw [hf]; simp
      have hnd : (b :: f).Nodup := by rw [← hf]; exact h.free_nodup
      have hbnotf : b ∉ f := (List.nodup_cons.mp hnd).1
      have hfnd : f.Nodup := (List.nodup_cons.mp hnd).2
      refine ⟨?_, ?_, ?_, ?_, ?_, ?_, hfnd, h.out_own⟩
      · intro t' b' hh
        by_cases ht : t' = t
        · subst ht; simp at hh; subst hh
          exact ⟨h.free_lt b hbfree, hbnotf⟩
        · simp only [upd_other _ _ _ _ ht] at hh
          obtain ⟨h1, h2⟩ := h.held_fresh t' b' hh
          refine ⟨h1, ?_⟩
          intro hc; apply h2; rw [hf]; simp [hc]
      · intro t1 t2 b' h1 h2
        by_cases e1 : t1 = t <;> by_cases e2 : t2 = t
        · rw [e1, e2]
        · subst e1; simp at h1; subst h1
          simp only [upd_other _ _ _ _ e2] at h2
          exact absurd hbfree (h.held_fresh t2 b h2).2
        · subst e2; simp at h2; subst h2
          simp only [upd_other _ _ _ _ e1] at h1
          exact absurd hbfree (h.held_fresh t1 b h1).2
        · simp only [upd_other _ _ _ _ e1] at h1; simp only [upd_other _ _ _ _ e2] at h2
          exact h.held_excl t1 t2 b' h1 h2
      · intro t' hp
        by_cases ht : t' = t
        · subst ht; exact ⟨b, by simp⟩
        · simp only [upd_other _ _ _ _ ht] at hp ⊢; exact h.pc_holds t' hp
      · intro t' hp
        by_cases ht : t' = t
        · subst ht; simp at hp
        · simp only [upd_other _ _ _ _ ht] at hp ⊢; exact h.pc_none t' hp
      · intro t' b' hp hh
        by_cases ht : t' = t
        · subst ht; simp at hp
        · simp only [upd_other _ _ _ _ ht] at hp hh; exact h.filled t' b' hp hh
      · intro b' hb'; exact h.free_lt b' (by rw [hf]; simp [hb'])
    · rename_i hf
      refine ⟨?_, ?_, ?_, ?_, ?_, ?_, by simpa [hf] using h.free_nodup, h.out_own⟩
      · intro t' b' hh
        by_cases ht : t' = t
        · subst ht; simp at hh; subst hh; simp [hf]
        · simp only [upd_other _ _ _ _ ht] at hh
          obtain ⟨h1, h2⟩ := h.held_fresh t' b' hh
          exact ⟨by simp; omega, by simpa [hf] using h2⟩
      · intro t1 t2 b' h1 h2
        by_cases e1 : t1 = t <;> by_cases e2 : t2 = t
        · rw [e1, e2]
        · subst e1; simp at h1; subst h1
          simp only [upd_other _ _ _ _ e2] at h2
          have := (h.held_fresh t2 _ h2).1; omega
        · subst e2; simp at h2; subst h2
          simp only [upd_other _ _ _ _ e1] at h1
          have := (h.held_fresh t1 _ h1).1; omega
        · simp only [upd_other _ _ _ _ e1] at h1; simp only [upd_other _ _ _ _ e2] at h2
          exact h.held_excl t1 t2 b' h1 h2
      · intro t' hp
        by_cases ht : t' = t
        · subst ht; exact ⟨s.next, by simp⟩
        · simp only [upd_other _ _ _ _ ht] at hp ⊢; exact h.pc_holds t' hp
      · intro t' hp
        by_cases ht : t' = t
        · subst ht; simp at hp
        · simp only [upd_other _ _ _ _ ht] at hp ⊢; exact h.pc_none t' hp
      · intro t' b' hp hh
        by_cases ht : t' = t
        · subst ht; simp at hp
        · simp only [upd_other _ _ _ _ ht] at hp hh; exact h.filled t' b' hp hh
      · intro b' hb'; simp [hf] at hb'
  · -- fill
    rename_i hpc
    split
    · rename_i b hb
      refine ⟨h.held_fresh, h.held_excl, ?_, ?_, ?_, h.free_lt, h.free_nodup, h.out_own⟩
      · intro t' hp
        by_cases ht : t' = t
        · subst ht; exact ⟨b, hb⟩
        · simp only [upd_other _ _ _ _ ht] at hp; exact h.pc_holds t' hp
      · intro t' hp
        by_cases ht : t' = t
        · subst ht; simp at hp
        · simp only [upd_other _ _ _ _ ht] at hp; exact h.pc_none t' hp
      · intro t' b' hp hh
        by_cases ht : t' = t
        · subst ht
          have : b' = b := by rw [hb] at hh; exact (Option.some.inj hh).symm
          subst this; simp
        · simp only [upd_other _ _ _ _ ht] at hp
          have hne : b' ≠ b := by
            intro hc; subst hc; exact ht (h.held_excl t' t b' hh hb)
          simp only [upd_other _ _ _ _ hne]; exact h.filled t' b' hp hh
    · exact h
  · -- write
    rename_i hpc
    split
    · rename_i b hb
      refine ⟨h.held_fresh, h.held_excl, ?_, ?_, ?_, h.free_lt, h.free_nodup, ?_⟩
      · intro t' hp
        by_cases ht : t' = t
        · subst ht; exact ⟨b, hb⟩
        · simp only [upd_other _ _ _ _ ht] at hp; exact h.pc_holds t' hp
      · intro t' hp
        by_cases ht : t' = t
        · subst ht; simp at hp
        · simp only [upd_other _ _ _ _ ht] at hp; exact h.pc_none t' hp
      · intro t' b' hp hh
        by_cases ht : t' = t
        · subst ht
          have : b' = b := by rw [hb] at hh; exact (Option.some.inj hh).symm
          subst this; exact h.filled t' b' (Or.inl hpc) hb
        · simp only [upd_other _ _ _ _ ht] at hp; exact h.filled t' b' hp hh
      · intro p hp
        simp only [List.mem_append, List.mem_singleton] at hp
        rcases hp with hp | hp
        · exact h.out_own p hp
        · subst hp; exact h.filled t b (Or.inl hpc) hb
    · exact h
  · -- release
    rename_i hpc
    split
    · rename_i b hb
      obtain ⟨hblt, hbnf⟩ := h.held_fresh t b hb
      refine ⟨?_, ?_, ?_, ?_, ?_, ?_, ?_, h.out_own⟩
      · intro t' b' hh
        by_cases ht : t' = t
        · subst ht; simp at hh
        · simp only [upd_other _ _ _ _ ht] at hh
          obtain ⟨h1, h2⟩ := h.held_fresh t' b' hh
          refine ⟨h1, ?_⟩
          intro hc
          simp only [List.mem_cons] at hc
          rcases hc with hc | hc
          · subst hc; exact ht (h.held_excl t' t b' hh hb)
          · exact h2 hc
      · intro t1 t2 b' h1 h2
        by_cases e1 : t1 = t
        · subst e1; simp at h1
        · by_cases e2 : t2 = t
          · subst e2; simp at h2
          · simp only [upd_other _ _ _ _ e1] at h1; simp only [upd_other _ _ _ _ e2] at h2
            exact h.held_excl t1 t2 b' h1 h2
      · intro t' hp
        by_cases ht : t' = t
        · subst ht; simp at hp
        · simp only [upd_other _ _ _ _ ht] at hp ⊢; exact h.pc_holds t' hp
      · intro t' hp
        by_cases ht : t' = t
        · subst ht; simp
        · simp only [upd_other _ _ _ _ ht] at hp ⊢; exact h.pc_none t' hp
      · intro t' b' hp hh
        by_cases ht : t' = t
        · subst ht; simp at hh
        · simp only [upd_other _ _ _ _ ht] at hp hh; exact h.filled t' b' hp hh
      · intro b' hb'
        simp only [List.mem_cons] at hb'
        rcases hb' with rfl | hb'
        · exact hblt
        · exact h.free_lt b' hb'
      · exact List.nodup_cons.mpr ⟨hbnf, h.free_nodup⟩
    · exact h
  · exact h

theorem inv_run (content : Nat → Bytes) (sched : List Nat) : Inv content (run content sched) := by
  unfold run
  have : ∀ s, Inv content s → Inv content (sched.foldl (step content) s) := by
    induction sched with
    | nil => intro s hs; exact hs
    | cons t ts ih => intro s hs; exact ih _ (inv_step content s t hs)
  exact this init (inv_init content)


end Gate.C01.Pool
