import GateModel.Base.Line
import GateModel.C01.Model
import GateModel.C01.AES
import GateModel.C01.Inflate
import GateModel.C02.Spec
/-
Shared driver code for C01 (round trips through the real netmc writer/reader) and C02 (hostile streams
into the frame decoder).
-/
namespace Gate.C01
open Gate Gate.C03

/-! fast hex → bytes for multi-megabyte arguments -/
def hexVal (c : UInt8) : UInt8 :=
  if c ≥ 48 && c ≤ 57 then c - 48 else if c ≥ 97 && c ≤ 102 then c - 87 else if c ≥ 65 && c ≤ 70 then c - 55 else 0

def fastHex (s : String) : Bytes :=
  if s = "-" then [] else
  let u := s.toUTF8
  let n := u.size / 2
  (List.range n).foldr (fun i acc => (hexVal u[2 * i]! * 16 + hexVal u[2 * i + 1]!) :: acc) []

def fnv64 (bs : Bytes) : UInt64 :=
  bs.foldl (fun h b => (h ^^^ b.toUInt64) * 0x100000001b3) 0xcbf29ce484222325

def hex64 (v : UInt64) : String :=
  let d := Nat.toDigits 16 v.toNat
  String.ofList (List.replicate (16 - d.length) '0' ++ d)

/-- canonical rendering of a payload: hex when short, length + FNV-1a otherwise -/
def showPayload (p : Bytes) : String :=
  if p.length ≤ 48 then toHex p else "#" ++ toString p.length ++ ":" ++ hex64 (fnv64 p)

def showList (ps : List Bytes) : String := if ps.isEmpty then "_" else ",".intercalate (ps.map showPayload)

/-- splitmix64 byte generator, identical to harness/hx -/
def genBytes (seed : UInt64) (n : Nat) : Bytes := Id.run do
  let mut s : UInt64 := seed * 0x9E3779B97F4A7C15 + 0x1234567
  let mut out : Array UInt8 := Array.mkEmpty n
  for _ in [0:n] do
    s := s + 0x9E3779B97F4A7C15
    let mut z := s
    z := (z ^^^ (z >>> 30)) * 0xBF58476D1CE4E5B9
    z := (z ^^^ (z >>> 27)) * 0x94D049BB133111EB
    z := z ^^^ (z >>> 31)
    out := out.push z.toUInt8
  return out.toList

/-- payload spec: hex, or `g<kind>:<seed>:<len>` with kind r (random) / z (compressible: 16-byte period) -/
def parsePayload (s : String) : Bytes :=
  if s.startsWith "g" then
    match (s.drop 1).toString.splitOn ":" with
    | [k, sd, ln] =>
      let seed := UInt64.ofNat (sd.toNat?.getD 0)
      let n := ln.toNat?.getD 0
      if k = "r" then genBytes seed n
      else
        let pat := genBytes seed 16
        (List.range n).map fun i => pat[i % 16]!
    | _ => []
  else fastHex s

def splitList (s : String) : List String := if s = "_" then [] else s.splitOn ","

/-- classes as the harness reports them: a too-long VarInt prefix and an out-of-range length are both
    "bad-length" -/
def endClass : Option DErr → String
  | none => "eof" | some .badVarint => "bad-length" | some .frameTooLarge => "bad-length" | some e => e.toString

/-- The property's hypothesis for the comparison with Velocity: every frame-length prefix met while walking
    the stream is minimally encoded (and the stream does not end inside a prefix of 3+ continuation bytes,
    where Velocity has already rejected and gate is still waiting for the next byte). -/
def minimalWalk : Nat → Bytes → Bool
  | 0, _ => true
  | fuel + 1, s =>
    if s.isEmpty then true else
    match readVarInt s with
    | .error .tooBig => true
    | .error _ => decide (s.length < 3)
    | .ok (len, r) =>
      let used := s.length - r.length
      if writeVarInt len != s.take used then false
      else if len = 0 then minimalWalk fuel r
      else if len < 0 ∨ len > (maxFrame : Int) then true
      else if r.length < len.toNat then true
      else minimalWalk fuel (r.drop len.toNat)

/-- zlib oracle from the op line: association list body ↦ inflate result -/
def mkZ (pairs : List (Bytes × Option Bytes)) (body : Bytes) : Option Bytes :=
  match pairs.find? (fun p => p.1 == body) with
  | some (_, r) => r
  | none => none

/-- Check the zlib oracle of a case with the independent Lean inflate: every pair (body, some out) the harness
    reports (Go's compress/zlib) must inflate to `out`.  Only positive entries are compared: on invalid streams
    the exact error point of two inflate implementations may legitimately differ. -/
def oracleOk (pairs : List (Bytes × Option Bytes)) : Bool :=
  pairs.all fun (body, r) => match r with
    | some out => Inflate.zlibInflate body (out.length + 1) == some out
    | none => true

def aesE (key : Bytes) : Bytes → Bytes :=
  let rk := expandKeyBA key
  fun reg => aesBlockFast rk reg

def maxRunEmpty (ps : List Bytes) : Nat :=
  (ps.foldl (fun (acc : Nat × Nat) p => if p.isEmpty then (acc.1 + 1, max acc.2 (acc.1 + 1)) else (0, acc.2)) (0, 0)).2

/-- `rt <dir> <thr> <secret|-> <payloads> <deflated>`:
    model output `wire=<digest> read=<list> end=<class>` -/
def stepRt (c : Case) : String × String :=
  match c.args with
  | [dir, thrS, sec, psS, dsS] =>
    let thr := thrS.toInt?.getD (-1)
    let cfg : Cfg := ⟨thr, dir = "s"⟩
    let ps := (splitList psS).map parsePayload
    let ds := (splitList dsS).map fastHex
    let pairs := ps.zip ds
    let D := fun p => match pairs.find? (fun q => q.1 == p) with | some (_, d) => d | none => []
    let Z := mkZ (pairs.map fun (p, d) => (d, some p))
    let stream := encodeAll thr D ps
    let wire := if sec = "-" then stream else let k := fastHex sec; cfb8Enc (aesE k) k stream
    let (got, e) := decodeAll cfg Z (ps.length + 2) stream
    let zok := oracleOk ((pairs.filter (fun (_, d) => !d.isEmpty)).map fun (p, d) => (d, some p))
    let model := "wire=" ++ showPayload wire ++ " read=" ++ showList got ++ " end=" ++ endClass e ++
      (if zok then "" else " zlib-oracle-disagrees-with-lean-inflate")
    -- spec: every non-empty payload comes back, in order, then a clean end
    let fits := ps.all fun p => p.isEmpty ||
      (decide ((encodeFrame thr D p).length ≤ maxFrame) && decide (p.length ≤ cfg.cap))
    let want := "read=" ++ showList (ps.filter (!·.isEmpty)) ++ " end=eof"
    let verdict :=
      if !fits then "-"
      else if (c.impl.splitOn " read=").getLast? == some (want.drop 5).toString then "ok"
      else if thr == 0 && ps.any (·.isEmpty) then "viol:empty-payload-threshold0"
      else if maxRunEmpty ps > 11 then "viol:many-empty-payloads"
      else "viol:payloads-not-read-back"
    (model, verdict)
  | _ => ("bad-op", "-")

/-- `sw <dir> <thr> <secret> <payloads1> <deflated1> <payloads2> <deflated2>`: `payloads1` in the clear, then both
    sides enable encryption, then `payloads2`.  Output as for `rt`. -/
def stepSw (c : Case) : String × String :=
  match c.args with
  | [dir, thrS, sec, ps1S, ds1S, ps2S, ds2S] =>
    let thr := thrS.toInt?.getD (-1)
    let cfg : Cfg := ⟨thr, dir = "s"⟩
    let ps1 := (splitList ps1S).map parsePayload
    let ps2 := (splitList ps2S).map parsePayload
    let pairs := (ps1 ++ ps2).zip (((splitList ds1S) ++ (splitList ds2S)).map fastHex)
    let D := fun p => match pairs.find? (fun q => q.1 == p) with | some (_, d) => d | none => []
    let Z := mkZ (pairs.map fun (p, d) => (d, some p))
    let k := fastHex sec
    let E := aesE k
    let wire := encodeAll thr D ps1 ++ cfb8Enc E k (encodeAll thr D ps2)
    let (got, e) := decodeSwitch cfg Z E k ps1.length (ps2.length + 2) wire
    let zok := oracleOk ((pairs.filter (fun (_, d) => !d.isEmpty)).map fun (p, d) => (d, some p))
    let model := "wire=" ++ showPayload wire ++ " read=" ++ showList got ++ " end=" ++ endClass e ++
      (if zok then "" else " zlib-oracle-disagrees-with-lean-inflate")
    let fits := (ps1 ++ ps2).all fun p => !p.isEmpty &&
      (decide ((encodeFrame thr D p).length ≤ maxFrame) && decide (p.length ≤ cfg.cap))
    let want := showList (ps1 ++ ps2) ++ " end=eof"
    let verdict :=
      if !fits then "-"
      else if (c.impl.splitOn " read=").getLast? == some want then "ok"
      else "viol:payloads-not-read-back-after-encryption-switch"
    (model, verdict)
  | _ => ("bad-op", "-")

/-- `dec <dir> <thr> <streamhex> <oracle>` where oracle = `body=ok:out;body=err;…` or `_`:
    model output `read=<list> end=<class>`; spec = Velocity reference on the implementation's output. -/
def stepDec (c : Case) : String × String :=
  match c.args with
  | [dir, thrS, streamS, orS] =>
    let thr := thrS.toInt?.getD (-1)
    let cfg : Cfg := ⟨thr, dir = "s"⟩
    let s := fastHex streamS
    let pairs : List (Bytes × Option Bytes) := (if orS = "_" then [] else orS.splitOn ";").filterMap fun e =>
      match e.splitOn "=" with
      | [b, r] => some (fastHex b, if r.startsWith "ok:" then some (fastHex (r.drop 3).toString) else none)
      | _ => none
    let Z := mkZ pairs
    let (got, e) := decodeAll cfg Z (s.length + 2) s
    let model := "read=" ++ showList got ++ " end=" ++ endClass e ++
      (if oracleOk pairs then "" else " zlib-oracle-disagrees-with-lean-inflate")
    let (vgot, ve) := Gate.C02.velocityDecodeAll cfg Z (s.length + 2) s
    -- Velocity waits on an incomplete tail where gate reports EOF: both are "eof"
    let ref := "read=" ++ showList vgot ++ " end=" ++ endClass ve
    let verdict :=
      if !minimalWalk (s.length + 2) s then "-"
      else if c.impl == ref then "ok"
      else if c.impl.endsWith "end=too-many-empty" then "viol:empty-frame-retry-cap"
      else if c.impl.startsWith "panic" then "viol:panic"
      else if c.impl.startsWith "hang" then "viol:hang"
      else "viol:differs-from-velocity"
    (model, verdict)
  | _ => ("bad-op", "-")

def step (c : Case) : String × String :=
  match c.op with
  | "rt" => stepRt c
  | "sw" => stepSw c
  | "dec" => stepDec c
  | _ => ("bad-op", "-")

end Gate.C01
