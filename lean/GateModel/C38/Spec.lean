import GateModel.C38.Model
import GateModel.Gen.C38
/-
C38 — executable layer on top of the model:
  * the regenerated facts: constants, and which code stands at the debounce-expiry site;
  * the scheduler that turns a script (operations at nominal times) into a history of atomic model steps —
    every state change goes through `step?`, so a scheduled run IS a `run?` history;
  * the executable spec evaluated on the real loop's callback sequence.
-/
namespace Gate.C38

/-! ### regenerated facts -/

def debounceMs : Nat := (Gate.Gen.C38.debounceNs / 1000000).toNat
def reconcileMs : Nat := (Gate.Gen.C38.reconcileNs / 1000000).toNat
def defaultCfg : Cfg := ⟨reconcileMs, debounceMs⟩

def hasPrefix : List String → List String → Bool
  | [], _ => true
  | _ :: _, [] => false
  | p :: ps, x :: xs => p == x && hasPrefix ps xs
def hasInfix (p : List String) : List String → Bool
  | [] => p.isEmpty
  | x :: xs => hasPrefix p (x :: xs) || hasInfix p xs

/-- bodies of the function literals (`func:{ … }`, not nested in runWatchLoop), in source order -/
def closuresAux : List String → Option (List String) → List (List String) → List (List String)
  | [], _, acc => acc.reverse
  | x :: xs, none, acc => if x == "func:{" then closuresAux xs (some []) acc else closuresAux xs none acc
  | x :: xs, some cur, acc =>
    if x == "}" then closuresAux xs none (cur.reverse :: acc) else closuresAux xs (some (x :: cur)) acc
def closures (calls : List String) : List (List String) := closuresAux calls none []

/-- the calls after the last function literal: the `for { select { … } }` loop -/
def loopTailAux : List String → List String → List String
  | [], acc => acc.reverse
  | x :: xs, acc => if x == "}" then loopTailAux xs [] else loopTailAux xs (x :: acc)
def loopTail (calls : List String) : List String := loopTailAux calls []

/-- which variant the source is: the debounce case fingerprints (and may re-schedule) before `runCallback` -/
def codeVariant : Variant :=
  if hasInfix ["fingerprint", "schedule", "runCallback"] (loopTail Gate.Gen.C38.runWatchLoopCalls)
  then .repaired else .defective

/-! ### scheduler -/

variable {α : Type} [DecidableEq α]

/-- an operation is "too close to call" when it is nominally nearer than this to a model deadline (ms) -/
def margin : Nat := 40

structure Sch (α : Type) where
  st        : St α
  failAttach : Nat         -- how many of the next re-attach attempts of the scripted watcher factory fail
  amb       : Bool          -- some ordering in this run was closer than `margin`
  lastTimer : Option Nat    -- instant of the last timer the loop handled

/-- handle every timer due at or before `t` (earliest first, tick first on a tie), then let time pass to `t` -/
def advance (v : Variant) (cfg : Cfg) : Nat → Sch α → Nat → Option (Sch α)
  | 0, _, _ => none
  | fuel + 1, x, t =>
    let s := x.st
    let dueTick := decide (s.nextTick ≤ t)
    let dueDeb := match s.deb with
      | some d => decide (d ≤ t)
      | none => false
    if !dueTick && !dueDeb then
      (step? v cfg s (.wait (t - s.now))).map fun s' => { x with st := s' }
    else
      let tickFirst := dueTick && (match s.deb with
        | some d => !dueDeb || decide (s.nextTick ≤ d)
        | none => true)
      if tickFirst then
        let close := match s.deb with
          | some d => decide (d - s.nextTick < margin)
          | none => false
        match step? v cfg s (.wait (s.nextTick - s.now)) with
        | none => none
        | some s1 =>
          -- the factory is asked only when the watcher is gone
          let attempt := !s1.watcher
          let ok := !(attempt && decide (0 < x.failAttach))
          match step? v cfg s1 (.tick ok) with
          | none => none
          | some s2 => advance v cfg fuel { st := s2, failAttach := if attempt then x.failAttach - 1 else x.failAttach,
                                            amb := x.amb || close, lastTimer := some s.nextTick } t
      else
        match s.deb with
        | none => none
        | some d =>
          let close := decide (s.nextTick - d < margin)
          match step? v cfg s (.wait (d - s.now)) with
          | none => none
          | some s1 => match step? v cfg s1 .fire with
            | none => none
            | some s2 => advance v cfg fuel { x with st := s2, amb := x.amb || close, lastTimer := some d } t

/-- is the instant `s.now` closer than `margin` to a timer that expired or will expire? -/
def nearTimer (x : Sch α) : Bool :=
  let s := x.st
  decide (s.nextTick - s.now < margin)
  || (match x.lastTimer with | some l => decide (s.now - l < margin) | none => false)
  || (match s.deb with | some d => decide (d - s.now < margin) | none => false)

/-- what a script can do at a nominal time: a step of the environment / a notification, or re-programming the
    scripted watcher factory ("the next `n` re-attach attempts fail") -/
inductive ScriptOp (α : Type) where
  | step (o : Op α)
  | failAttach (n : Nat)

/-- a script operation at nominal time `t`; a notification while the watcher is gone is not delivered -/
def applyAt (v : Variant) (cfg : Cfg) (x : Sch α) (t : Nat) (so : ScriptOp α) : Option (Sch α) :=
  match advance v cfg 100000 x t with
  | none => none
  | some x1 =>
    let x2 := { x1 with amb := x1.amb || nearTimer x1 }
    match so with
    | .failAttach n => some { x2 with failAttach := n }
    | .step o =>
      match step? v cfg x2.st o with
      | some s' => some { x2 with st := s' }
      | none => match o with
        | .event | .other => some x2
        | _ => none

def runScript (v : Variant) (cfg : Cfg) (c0 : α) (ops : List (Nat × ScriptOp α)) (endT : Nat) : Option (Sch α) :=
  let rec go : Sch α → List (Nat × ScriptOp α) → Option (Sch α)
    | x, [] => match advance v cfg 100000 x endT with
      | none => none
      | some x1 => some { x1 with amb := x1.amb || nearTimer x1 }
    | x, (t, o) :: r => match applyAt v cfg x t o with
      | none => none
      | some x' => go x' r
  go { st := init cfg c0, failAttach := 0, amb := false, lastTimer := none } ops

/-! ### executable spec, evaluated on the implementation's callback sequence -/

/-- `seq` = contents the real callback saw; `c0` content at start; `written` the contents the script put in
    place, in order; `settled` = the script ended later than `R + D` after its last file operation, or later than
    `D` (plus slack) after a notification delivered after its last file operation
    (theorems `eventual_reload`, `eventual_reload_after_notification`) -/
def specVerdict (c0 : α) (seq : List α) (written : List α) (settled inTime : Bool) : String :=
  let final := written.getLast?.getD c0
  if seq.head? = some c0 then "viol:unchanged-callback"
  else if !noAdjDup (c0 :: seq) then "viol:double-callback"
  else if seq.any (fun c => !(c0 :: written).contains c) then "viol:foreign-content"
  else if settled && (c0 :: seq).getLast? != some final then "viol:final-content-not-reloaded"
  else if !inTime then "viol:late"
  else "ok"

/-- Is the scripted watcher attached at time `t`?  Statically from the script: it is lost at a failure op and
    back `slack` ms after the next reconcile tick (multiples of `R`) — unless the script makes re-attaching fail
    (`reattachable = false`: then it counts as gone for good, which only makes the verdict more cautious).  `fails` = failure instants before `t`. -/
def watcherUpAt (R slack : Nat) (reattachable : Bool) (fails : List Nat) (t : Nat) : Bool :=
  match fails.getLast? with
  | none => true
  | some tx => reattachable && R != 0 && decide ((tx / R + 1) * R + slack ≤ t)

end Gate.C38
