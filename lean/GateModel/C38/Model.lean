/-
C38 — model of `pkg/internal/reload/watch.go:runWatchLoop` as a timed, single-owner state machine.

The loop goroutine owns `observed`, `evaluated`, the debounce timer and the watcher.  The environment owns
the file.  One `Op` is one atomic step of either side:

  write c   the environment changes the file state to `c` (in-place write, atomic replace, delete and
            re-create are all "the file state becomes c"; `α` contains a value for "missing")
  event     the loop receives a notification for the config file     → `reconcile()`
  other     the loop receives a notification it ignores (another file)
  wclose    the watcher fails (error, closed channel, directory removed) → `closeWatcher()`
  tick ok   the reconcile ticker fires: when the watcher is gone try to re-attach it (`ok` = whether
            opts.newWatcher succeeds — inotify limits, EMFILE, a missing directory make it fail), then ALWAYS
            `reconcile()`: polling does not depend on the watcher
  fire      the debounce timer fires: (repaired code) fingerprint again and either debounce the newer
            content or `runCallback(observed)`; (defective, pre-fix code) `runCallback(observed)` directly
  wait d    d milliseconds pass

Lost, duplicated and delayed notifications need no separate op: `event` reads the file *when the loop
handles it*, so any placement of `event` steps (none, several, late) is a history of the model.
Timers are urgent: time cannot pass a pending deadline (`wait` is disabled beyond it) — the loop is never
starved and the callback takes no model time.  Steps that fall on the same instant may occur in any order.
The fingerprint is the identity on file states (SHA-256 is assumed collision-free on the contents used).
The callback reads the file itself: it sees `file` at the instant of the `fire` step (the loop's own
fingerprint and the callback's read are one atomic step — see checks/C38.json, level_note).
-/
namespace Gate.C38

/-- which code stands at the debounce-expiry site -/
inductive Variant where
  | repaired | defective
  deriving DecidableEq, Repr

structure Cfg where
  R : Nat   -- reconcile interval, ms
  D : Nat   -- debounce, ms

structure St (α : Type) where
  now       : Nat
  file      : α
  observed  : α
  evaluated : α
  deb       : Option Nat          -- pending debounce deadline
  nextTick  : Nat
  watcher   : Bool
  calls     : List (Nat × α)      -- callback invocations (time, content read), newest first

inductive Op (α : Type) where
  | write (c : α) | event | other | wclose | tick (attachOk : Bool) | fire | wait (d : Nat)

variable {α : Type} [DecidableEq α]

def init (cfg : Cfg) (c : α) : St α :=
  { now := 0, file := c, observed := c, evaluated := c, deb := none, nextTick := cfg.R, watcher := true, calls := [] }

/-- `reconcile := func() { current := fingerprint(path); if current == observed { return }; observed = current; schedule() }` -/
def reconcile (cfg : Cfg) (s : St α) : St α :=
  if s.file = s.observed then s else { s with observed := s.file, deb := some (s.now + cfg.D) }

/-- `runCallback(observed)`: `if candidate == evaluated { return }; evaluated = candidate; cb()` — `cb` reads the file now -/
def runCallback (s : St α) : St α :=
  if s.observed = s.evaluated then s
  else { s with evaluated := s.observed, calls := (s.now, s.file) :: s.calls }

/-- `case <-debounce:` -/
def fire (v : Variant) (cfg : Cfg) (s : St α) : St α :=
  let s := { s with deb := none }
  match v with
  | .defective => runCallback s
  | .repaired =>
    if s.file = s.observed then runCallback s
    else { s with observed := s.file, deb := some (s.now + cfg.D) }

/-- may time advance to `t`? not beyond the pending debounce deadline -/
def debAllows (s : St α) (t : Nat) : Bool :=
  match s.deb with
  | none => true
  | some d => decide (t ≤ d)

/-- one atomic step; `none` = the step is not enabled in this state -/
def step? (v : Variant) (cfg : Cfg) (s : St α) : Op α → Option (St α)
  | .write c => some { s with file := c }
  | .event   => if s.watcher then some (reconcile cfg s) else none
  | .other   => if s.watcher then some s else none
  | .wclose  => some { s with watcher := false }
  | .tick ok => if s.now = s.nextTick
                then some (reconcile cfg { s with nextTick := s.nextTick + cfg.R, watcher := s.watcher || ok }) else none
  | .fire    => if s.deb = some s.now then some (fire v cfg s) else none
  | .wait d  => if s.now + d ≤ s.nextTick ∧ debAllows s (s.now + d) = true
                then some { s with now := s.now + d } else none

/-- a history: every step must be enabled -/
def run? (v : Variant) (cfg : Cfg) : St α → List (Op α) → Option (St α)
  | s, [] => some s
  | s, o :: os => match step? v cfg s o with
    | none => none
    | some s' => run? v cfg s' os

def Op.isWrite : Op α → Bool
  | .write _ => true
  | _ => false

/-! ### file metadata

The real file also has metadata (inode, size, modification time).  The loop's fingerprint hashes the CONTENT
only, so metadata is state of the environment that no step of the loop reads.  `MOp` makes that explicit: a
write carries the metadata the environment leaves behind (new, or restored to an earlier value: `cp -p`,
`rsync -t`, os.Chtimes, a second same-length write inside one mtime granule), `touch` changes metadata only. -/

inductive MOp (α μ : Type) where
  | write (c : α) (m : μ)     -- content and metadata after the operation (any inode / size / mtime)
  | touch (m : μ)             -- chmod / chtimes / …: content untouched
  | loop (o : Op α)           -- any step of the plain machine; `.write c` here is a rewrite that leaves
                              -- (inode, size, mtime) exactly as they were

/-- one step of the machine whose environment carries metadata `m` -/
def stepM? {μ : Type} (v : Variant) (cfg : Cfg) (s : St α) (m : μ) : MOp α μ → Option (St α × μ)
  | .write c m' => (step? v cfg s (.write c)).map fun s' => (s', m')
  | .touch m' => some (s, m')
  | .loop o => (step? v cfg s o).map fun s' => (s', m)

def runM? {μ : Type} (v : Variant) (cfg : Cfg) : St α → μ → List (MOp α μ) → Option (St α × μ)
  | s, m, [] => some (s, m)
  | s, m, o :: os => match stepM? v cfg s m o with
    | none => none
    | some (s', m') => runM? v cfg s' m' os

/-- forget the metadata: what the loop can observe of a history -/
def eraseMeta {μ : Type} : List (MOp α μ) → List (Op α)
  | [] => []
  | .write c _ :: r => .write c :: eraseMeta r
  | .touch _ :: r => eraseMeta r
  | .loop o :: r => o :: eraseMeta r

/-- contents seen by the callback, oldest first -/
def seen (s : St α) : List α := (s.calls.map (·.2)).reverse

/-- the content most recently handed to the callback, or `e0` when it never ran -/
def lastSeenL (e0 : α) : List (Nat × α) → α
  | [] => e0
  | (_, c) :: _ => c
def lastSeen (e0 : α) (s : St α) : α := lastSeenL e0 s.calls

/-- no two neighbours equal -/
def noAdjDup : List α → Bool
  | a :: b :: r => a != b && noAdjDup (b :: r)
  | _ => true

end Gate.C38
