import GateModel.C38.Model
/-
C38 helper lemmas: the reachable-state invariant of the repaired loop, and the phase invariant that holds
from the moment the file stops changing.
-/
namespace Gate.C38
set_option linter.unusedSectionVars false
variable {α : Type} [DecidableEq α]

/-- every callback saw a content different from the one the previous callback saw (or from the content at
    start when it is the first) -/
def chainOK (e0 : α) : List (Nat × α) → Prop
  | [] => True
  | (_, c) :: rest => c ≠ lastSeenL e0 rest ∧ chainOK e0 rest

structure Inv (cfg : Cfg) (e0 : α) (s : St α) : Prop where
  tick_lo   : s.now ≤ s.nextTick
  tick_hi   : s.nextTick ≤ s.now + cfg.R
  deb_rng   : ∀ d, s.deb = some d → s.now ≤ d ∧ d ≤ s.now + cfg.D
  deb_none  : s.deb = none → s.observed = s.evaluated
  eval_last : s.evaluated = lastSeenL e0 s.calls
  chain     : chainOK e0 s.calls

theorem inv_init (cfg : Cfg) (e0 : α) : Inv cfg e0 (init cfg e0) := by
  refine ⟨?_, ?_, ?_, ?_, ?_, ?_⟩ <;> simp [init, lastSeenL, chainOK]

theorem inv_reconcile {cfg : Cfg} {e0 : α} {s : St α} (h : Inv cfg e0 s) : Inv cfg e0 (reconcile cfg s) := by
  unfold reconcile
  split
  · exact h
  · refine ⟨h.tick_lo, h.tick_hi, ?_, ?_, h.eval_last, h.chain⟩
    · intro d hd
      dsimp only at hd ⊢
      simp only [Option.some.injEq] at hd
      omega
    · intro hd
      simp at hd

theorem inv_fire {cfg : Cfg} {e0 : α} {s : St α} (h : Inv cfg e0 s) : Inv cfg e0 (fire .repaired cfg s) := by
  simp only [fire]
  split
  · rename_i hfo
    simp only [runCallback]
    split
    · rename_i hoe
      exact ⟨h.tick_lo, h.tick_hi, by intro d hd; simp at hd, fun _ => hoe, h.eval_last, h.chain⟩
    · rename_i hoe
      refine ⟨h.tick_lo, h.tick_hi, by intro d hd; simp at hd, fun _ => rfl, ?_, ?_⟩
      · simpa [lastSeenL] using hfo.symm
      · refine ⟨?_, h.chain⟩
        intro hc
        apply hoe
        have := h.eval_last
        rw [this, ← hc, hfo]
  · refine ⟨h.tick_lo, h.tick_hi, ?_, ?_, h.eval_last, h.chain⟩
    · intro d hd
      dsimp only at hd ⊢
      simp only [Option.some.injEq] at hd
      omega
    · intro hd
      simp at hd

theorem inv_step {cfg : Cfg} {e0 : α} {s s' : St α} {o : Op α} (h : Inv cfg e0 s)
    (hs : step? .repaired cfg s o = some s') : Inv cfg e0 s' := by
  cases o with
  | write c =>
    simp only [step?, Option.some.injEq] at hs; subst hs
    exact ⟨h.tick_lo, h.tick_hi, h.deb_rng, h.deb_none, h.eval_last, h.chain⟩
  | event =>
    simp only [step?] at hs
    split at hs
    · simp only [Option.some.injEq] at hs; subst hs; exact inv_reconcile h
    · simp at hs
  | other =>
    simp only [step?] at hs
    split at hs
    · simp only [Option.some.injEq] at hs; subst hs; exact h
    · simp at hs
  | wclose =>
    simp only [step?, Option.some.injEq] at hs; subst hs
    exact ⟨h.tick_lo, h.tick_hi, h.deb_rng, h.deb_none, h.eval_last, h.chain⟩
  | tick ok =>
    simp only [step?] at hs
    split at hs
    · rename_i hn
      simp only [Option.some.injEq] at hs; subst hs
      apply inv_reconcile
      exact ⟨by simp only; have := h.tick_lo; omega, by simp only; omega, h.deb_rng, h.deb_none, h.eval_last, h.chain⟩
    · simp at hs
  | fire =>
    simp only [step?] at hs
    split at hs
    · simp only [Option.some.injEq] at hs; subst hs; exact inv_fire h
    · simp at hs
  | wait d =>
    simp only [step?] at hs
    split at hs
    · rename_i hg
      simp only [Option.some.injEq] at hs; subst hs
      obtain ⟨hg1, hg2⟩ := hg
      refine ⟨hg1, by simp only; have := h.tick_hi; omega, ?_, h.deb_none, h.eval_last, h.chain⟩
      intro d' hd'
      have := h.deb_rng d' hd'
      simp only at hd'
      simp only [debAllows, hd', decide_eq_true_eq] at hg2
      simp only
      omega
    · simp at hs

theorem inv_run {cfg : Cfg} {e0 : α} : ∀ (ops : List (Op α)) {s s' : St α}, Inv cfg e0 s →
    run? .repaired cfg s ops = some s' → Inv cfg e0 s'
  | [], s, s', h, hr => by simp only [run?, Option.some.injEq] at hr; subst hr; exact h
  | o :: os, s, s', h, hr => by
    simp only [run?] at hr
    split at hr
    · simp at hr
    · rename_i s1 hs1
      exact inv_run os (inv_step h hs1) hr

theorem run?_append (v : Variant) (cfg : Cfg) : ∀ (a b : List (Op α)) (s : St α),
    run? v cfg s (a ++ b) = (run? v cfg s a).bind (fun s' => run? v cfg s' b)
  | [], b, s => by simp [run?]
  | o :: a, b, s => by
    simp only [List.cons_append, run?]
    split
    · simp
    · exact run?_append v cfg a b _

/-! ### the phase after the last write

`T` is the instant from which the file state is `c`; `base` the callback log at that instant. -/

def News (cfg : Cfg) (T : Nat) (c : α) (base : List (Nat × α)) (s : St α) : Prop :=
  ∃ new, s.calls = new ++ base ∧ new.length ≤ 1 ∧ (∀ p ∈ new, p.1 ≤ T + cfg.R + cfg.D ∧ p.2 = c) ∧
    (new ≠ [] → s.evaluated = c)

structure Phase (cfg : Cfg) (e0 : α) (T : Nat) (c : α) (base : List (Nat × α)) (s : St α) : Prop where
  file_eq : s.file = c
  inv  : Inv cfg e0 s
  prog : (s.observed ≠ c ∧ s.nextTick ≤ T + cfg.R) ∨
         (s.observed = c ∧ ∀ d, s.deb = some d → d ≤ T + cfg.R + cfg.D)
  news : News cfg T c base s

theorem phase_start {cfg : Cfg} {e0 : α} {s : St α} (h : Inv cfg e0 s) :
    Phase cfg e0 s.now s.file s.calls s := by
  refine ⟨rfl, h, ?_, ⟨[], by simp, by simp, by simp, by simp⟩⟩
  by_cases ho : s.observed = s.file
  · right
    refine ⟨ho, ?_⟩
    intro d hd
    have := h.deb_rng d hd
    omega
  · left
    exact ⟨ho, h.tick_hi⟩

theorem phase_reconcile {cfg : Cfg} {e0 : α} {T : Nat} {c : α} {base : List (Nat × α)} {s : St α}
    (hf : s.file = c) (hi : Inv cfg e0 s)
    (hA : s.observed ≠ c → s.now ≤ T + cfg.R)
    (hB : s.observed = c → ∀ d, s.deb = some d → d ≤ T + cfg.R + cfg.D)
    (hn : News cfg T c base s) : Phase cfg e0 T c base (reconcile cfg s) := by
  have hi' := inv_reconcile hi
  unfold reconcile at hi' ⊢
  split
  · rename_i hfo
    have : s.observed = c := by rw [← hfo, hf]
    exact ⟨hf, hi, Or.inr ⟨this, hB this⟩, hn⟩
  · rename_i hfo
    rw [if_neg hfo] at hi'
    have hne : s.observed ≠ c := by intro h; apply hfo; rw [hf, h]
    refine ⟨hf, hi', Or.inr ⟨hf, ?_⟩, hn⟩
    intro d hd
    dsimp only at hd
    simp only [Option.some.injEq] at hd
    have := hA hne
    omega

theorem phase_step {cfg : Cfg} {e0 : α} {T : Nat} {c : α} {base : List (Nat × α)} {s s' : St α} {o : Op α}
    (h : Phase cfg e0 T c base s) (hw : o.isWrite = false)
    (hs : step? .repaired cfg s o = some s') : Phase cfg e0 T c base s' := by
  have hinv' := inv_step h.inv hs
  have hA : s.observed ≠ c → s.now ≤ T + cfg.R := by
    intro hne
    rcases h.prog with ⟨_, ht⟩ | ⟨he, _⟩
    · have := h.inv.tick_lo; omega
    · exact absurd he hne
  have hB : s.observed = c → ∀ d, s.deb = some d → d ≤ T + cfg.R + cfg.D := by
    intro he
    rcases h.prog with ⟨hne, _⟩ | ⟨_, hb⟩
    · exact absurd he hne
    · exact hb
  cases o with
  | write c' => simp [Op.isWrite] at hw
  | event =>
    simp only [step?] at hs
    split at hs
    · simp only [Option.some.injEq] at hs; subst hs
      exact phase_reconcile h.file_eq h.inv hA hB h.news
    · simp at hs
  | other =>
    simp only [step?] at hs
    split at hs
    · simp only [Option.some.injEq] at hs; subst hs; exact h
    · simp at hs
  | wclose =>
    simp only [step?, Option.some.injEq] at hs; subst hs
    exact ⟨h.file_eq, hinv', h.prog, h.news⟩
  | tick ok =>
    simp only [step?] at hs
    split at hs
    · rename_i hn
      simp only [Option.some.injEq] at hs; subst hs
      refine phase_reconcile (s := { s with nextTick := s.nextTick + cfg.R, watcher := s.watcher || ok }) h.file_eq ?_ hA hB h.news
      exact ⟨by dsimp only; have := h.inv.tick_lo; omega, by dsimp only; omega, h.inv.deb_rng, h.inv.deb_none,
        h.inv.eval_last, h.inv.chain⟩
    · simp at hs
  | fire =>
    simp only [step?] at hs
    split at hs
    · rename_i hd
      simp only [Option.some.injEq] at hs; subst hs
      simp only [fire] at hinv' ⊢
      split
      · rename_i hfo
        rw [if_pos hfo] at hinv'
        have hoc : s.observed = c := by rw [← hfo, h.file_eq]
        have hnow : s.now ≤ T + cfg.R + cfg.D := hB hoc _ hd
        simp only [runCallback] at hinv' ⊢
        split
        · rename_i hoe
          rw [if_pos hoe] at hinv'
          refine ⟨h.file_eq, hinv', Or.inr ⟨hoc, ?_⟩, h.news⟩
          intro d hd'; simp at hd'
        · rename_i hoe
          rw [if_neg hoe] at hinv'
          refine ⟨h.file_eq, hinv', Or.inr ⟨hoc, ?_⟩, ?_⟩
          · intro d hd'; simp at hd'
          · obtain ⟨new, hc, hl, hall, hev⟩ := h.news
            cases new with
            | nil =>
              refine ⟨[(s.now, s.file)], by simp [hc], by simp, ?_, fun _ => hoc⟩
              intro p hp
              simp only [List.mem_singleton] at hp
              subst hp
              exact ⟨hnow, h.file_eq⟩
            | cons p ps =>
              exfalso
              apply hoe
              rw [hev (by simp), hoc]
      · rename_i hfo
        rw [if_neg hfo] at hinv'
        have hne : s.observed ≠ c := by intro hh; apply hfo; rw [h.file_eq, hh]
        refine ⟨h.file_eq, hinv', Or.inr ⟨h.file_eq, ?_⟩, h.news⟩
        intro d hd'
        dsimp only at hd'
        simp only [Option.some.injEq] at hd'
        have := hA hne
        omega
    · simp at hs
  | wait d =>
    simp only [step?] at hs
    split at hs
    · simp only [Option.some.injEq] at hs; subst hs
      exact ⟨h.file_eq, hinv', h.prog, h.news⟩
    · simp at hs

theorem phase_run {cfg : Cfg} {e0 : α} {T : Nat} {c : α} {base : List (Nat × α)} :
    ∀ (ops : List (Op α)) {s s' : St α}, Phase cfg e0 T c base s → (∀ o ∈ ops, o.isWrite = false) →
      run? .repaired cfg s ops = some s' → Phase cfg e0 T c base s'
  | [], s, s', h, _, hr => by simp only [run?, Option.some.injEq] at hr; subst hr; exact h
  | o :: os, s, s', h, hw, hr => by
    simp only [run?] at hr
    split at hr
    · simp at hr
    · rename_i s1 hs1
      exact phase_run os (phase_step h (hw o (by simp)) hs1) (fun o' ho' => hw o' (by simp [ho'])) hr

/-- once more than `R + D` has passed since `T`, nothing is pending and `c` is the evaluated content -/
theorem phase_end {cfg : Cfg} {e0 : α} {T : Nat} {c : α} {base : List (Nat × α)} {s : St α}
    (h : Phase cfg e0 T c base s) (hlate : T + cfg.R + cfg.D < s.now) :
    s.deb = none ∧ s.observed = c ∧ s.evaluated = c := by
  rcases h.prog with ⟨_, ht⟩ | ⟨ho, hb⟩
  · have := h.inv.tick_lo; omega
  · have hd : s.deb = none := by
      cases hdd : s.deb with
      | none => rfl
      | some d =>
        have h1 := hb d hdd
        have h2 := (h.inv.deb_rng d hdd).1
        omega
    exact ⟨hd, ho, by rw [← h.inv.deb_none hd, ho]⟩

/-! ### after a notification (or tick) that was handled once the file had stopped changing

`B` bounds the pending debounce: the loop has fingerprinted the final content (`observed = file`). -/

structure Settled (cfg : Cfg) (e0 : α) (c : α) (B : Nat) (s : St α) : Prop where
  file_eq : s.file = c
  inv     : Inv cfg e0 s
  obs     : s.observed = c
  deb_le  : ∀ d, s.deb = some d → d ≤ B

theorem reconcile_observed (cfg : Cfg) (s : St α) : (reconcile cfg s).observed = (reconcile cfg s).file := by
  unfold reconcile
  split
  · rename_i h; exact h.symm
  · rfl

theorem settled_start {cfg : Cfg} {e0 : α} {s : St α} (h : Inv cfg e0 s) (ho : s.observed = s.file) :
    Settled cfg e0 s.file (s.now + cfg.D) s :=
  ⟨rfl, h, ho, fun d hd => (h.deb_rng d hd).2⟩

theorem reconcile_noop {cfg : Cfg} {s : St α} (h : s.file = s.observed) : reconcile cfg s = s := by
  unfold reconcile; rw [if_pos h]

theorem settled_step {cfg : Cfg} {e0 : α} {c : α} {B : Nat} {s s' : St α} {o : Op α}
    (h : Settled cfg e0 c B s) (hw : o.isWrite = false)
    (hs : step? .repaired cfg s o = some s') : Settled cfg e0 c B s' := by
  have hinv' := inv_step h.inv hs
  have hfo : s.file = s.observed := by rw [h.file_eq, h.obs]
  cases o with
  | write c' => simp [Op.isWrite] at hw
  | event =>
    simp only [step?] at hs
    split at hs
    · simp only [Option.some.injEq] at hs; subst hs
      rw [reconcile_noop hfo]; exact h
    · simp at hs
  | other =>
    simp only [step?] at hs
    split at hs
    · simp only [Option.some.injEq] at hs; subst hs; exact h
    · simp at hs
  | wclose =>
    simp only [step?, Option.some.injEq] at hs; subst hs
    exact ⟨h.file_eq, hinv', h.obs, h.deb_le⟩
  | tick ok =>
    simp only [step?] at hs
    split at hs
    · simp only [Option.some.injEq] at hs; subst hs
      have : reconcile cfg { s with nextTick := s.nextTick + cfg.R, watcher := s.watcher || ok } =
          { s with nextTick := s.nextTick + cfg.R, watcher := s.watcher || ok } := reconcile_noop hfo
      rw [this] at hinv' ⊢
      exact ⟨h.file_eq, hinv', h.obs, h.deb_le⟩
    · simp at hs
  | fire =>
    simp only [step?] at hs
    split at hs
    · simp only [Option.some.injEq] at hs; subst hs
      simp only [fire] at hinv' ⊢
      rw [if_pos hfo] at hinv' ⊢
      simp only [runCallback] at hinv' ⊢
      split
      · rename_i hoe
        rw [if_pos hoe] at hinv'
        exact ⟨h.file_eq, hinv', h.obs, by intro d hd; simp at hd⟩
      · rename_i hoe
        rw [if_neg hoe] at hinv'
        exact ⟨h.file_eq, hinv', h.obs, by intro d hd; simp at hd⟩
    · simp at hs
  | wait d =>
    simp only [step?] at hs
    split at hs
    · simp only [Option.some.injEq] at hs; subst hs
      exact ⟨h.file_eq, hinv', h.obs, h.deb_le⟩
    · simp at hs

theorem settled_run {cfg : Cfg} {e0 : α} {c : α} {B : Nat} :
    ∀ (ops : List (Op α)) {s s' : St α}, Settled cfg e0 c B s → (∀ o ∈ ops, o.isWrite = false) →
      run? .repaired cfg s ops = some s' → Settled cfg e0 c B s'
  | [], s, s', h, _, hr => by simp only [run?, Option.some.injEq] at hr; subst hr; exact h
  | o :: os, s, s', h, hw, hr => by
    simp only [run?] at hr
    split at hr
    · simp at hr
    · rename_i s1 hs1
      exact settled_run os (settled_step h (hw o (by simp)) hs1) (fun o' ho' => hw o' (by simp [ho'])) hr

theorem settled_end {cfg : Cfg} {e0 : α} {c : α} {B : Nat} {s : St α}
    (h : Settled cfg e0 c B s) (hlate : B < s.now) : s.deb = none ∧ s.evaluated = c := by
  have hd : s.deb = none := by
    cases hdd : s.deb with
    | none => rfl
    | some d =>
      have h1 := h.deb_le d hdd
      have h2 := (h.inv.deb_rng d hdd).1
      omega
  exact ⟨hd, by rw [← h.inv.deb_none hd, h.obs]⟩

/-! ### the callback log as a list of contents -/

theorem noAdjDup_snoc : ∀ (xs : List α) (a : α),
    noAdjDup (xs ++ [a]) = true ↔ (noAdjDup xs = true ∧ ∀ b, xs.getLast? = some b → b ≠ a)
  | [], a => by simp [noAdjDup]
  | [x], a => by simp [noAdjDup]
  | x :: y :: r, a => by
    have ih := noAdjDup_snoc (y :: r) a
    simp only [List.cons_append, noAdjDup, Bool.and_eq_true] at ih ⊢
    rw [ih]
    simp only [List.getLast?_cons_cons]
    constructor
    · rintro ⟨h1, h2, h3⟩; exact ⟨⟨h1, h2⟩, h3⟩
    · rintro ⟨⟨h1, h2⟩, h3⟩; exact ⟨h1, h2, h3⟩

theorem getLast?_seen (e0 : α) (calls : List (Nat × α)) :
    (e0 :: (calls.map (·.2)).reverse).getLast? = some (lastSeenL e0 calls) := by
  cases calls with
  | nil => simp [lastSeenL]
  | cons p r =>
    obtain ⟨t, c⟩ := p
    simp [lastSeenL, List.getLast?_cons]

theorem chainOK_noAdjDup (e0 : α) : ∀ (calls : List (Nat × α)), chainOK e0 calls →
    noAdjDup (e0 :: (calls.map (·.2)).reverse) = true
  | [], _ => by simp [noAdjDup]
  | (t, c) :: r, h => by
    have ih := chainOK_noAdjDup e0 r h.2
    have : e0 :: (((t, c) :: r).map (·.2)).reverse = (e0 :: (r.map (·.2)).reverse) ++ [c] := by simp
    rw [this, noAdjDup_snoc]
    refine ⟨ih, ?_⟩
    intro b hb
    rw [getLast?_seen] at hb
    simp only [Option.some.injEq] at hb
    subst hb
    exact fun hh => h.1 hh.symm

end Gate.C38
