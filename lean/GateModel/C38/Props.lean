import GateModel.C38.Lemmas
import GateModel.C38.Spec
/-
C38 — config file reload fires once for the final content despite lost fs events.

Property theorems only.  `run? .repaired cfg (init cfg e0) ops = some s` reads: `ops` is ANY history of the
repaired loop started on content `e0` — writes / replacements / deletions (`write`), notifications handled at
arbitrary instants (`event`: lost = absent, duplicated = repeated, delayed = later), ignored notifications,
watcher failures, reconcile ticks, debounce expiries and passing time — for ANY reconcile interval `cfg.R`
and debounce `cfg.D`.  Stabilisation is a split `pre`/`post` of the history with no `write` in `post`;
`s₁` is the state at the last change (`s₁.now` its instant), `s₂` any later state.
-/
namespace Gate.C38.Props
open Gate.C38
variable {α : Type} [DecidableEq α]

/-! ### never for content equal to what was last evaluated -/

/-- The contents handed to the callback, with the content present at start in front, never repeat a neighbour:
    the callback never runs for the content it evaluated last. -/
theorem never_for_unchanged (cfg : Cfg) (e0 : α) (ops : List (Op α)) (s : St α)
    (h : run? .repaired cfg (init cfg e0) ops = some s) : noAdjDup (e0 :: seen s) = true :=
  chainOK_noAdjDup e0 s.calls (inv_run ops (inv_init cfg e0) h).chain

/-- What the loop records as `evaluated` is what the callback really read last. -/
theorem evaluated_is_last_seen (cfg : Cfg) (e0 : α) (ops : List (Op α)) (s : St α)
    (h : run? .repaired cfg (init cfg e0) ops = some s) : s.evaluated = lastSeen e0 s :=
  (inv_run ops (inv_init cfg e0) h).eval_last

/-! ### after the file stops changing -/

/-- At most one callback after the last change; it is for the final content and not later than `R + D`. -/
theorem at_most_once_after_stabilisation (cfg : Cfg) (e0 : α) (pre post : List (Op α)) (s₁ s₂ : St α)
    (h₁ : run? .repaired cfg (init cfg e0) pre = some s₁) (h₂ : run? .repaired cfg s₁ post = some s₂)
    (hw : ∀ o ∈ post, o.isWrite = false) :
    s₂.file = s₁.file ∧ ∃ new, s₂.calls = new ++ s₁.calls ∧ new.length ≤ 1 ∧
      ∀ p ∈ new, p.1 ≤ s₁.now + cfg.R + cfg.D ∧ p.2 = s₂.file := by
  have ph := phase_run post (phase_start (inv_run pre (inv_init cfg e0) h₁)) hw h₂
  obtain ⟨new, hc, hl, hall, _⟩ := ph.news
  exact ⟨ph.file_eq, new, hc, hl, fun p hp => ⟨(hall p hp).1, by rw [ph.file_eq]; exact (hall p hp).2⟩⟩

/-- Later than `R + D` after the last change nothing is pending and the content the callback saw last is the
    content of the file — whatever notifications were lost. -/
theorem eventual_reload (cfg : Cfg) (e0 : α) (pre post : List (Op α)) (s₁ s₂ : St α)
    (h₁ : run? .repaired cfg (init cfg e0) pre = some s₁) (h₂ : run? .repaired cfg s₁ post = some s₂)
    (hw : ∀ o ∈ post, o.isWrite = false) (hlate : s₁.now + cfg.R + cfg.D < s₂.now) :
    lastSeen e0 s₂ = s₂.file ∧ s₂.evaluated = s₂.file ∧ s₂.deb = none := by
  have ph := phase_run post (phase_start (inv_run pre (inv_init cfg e0) h₁)) hw h₂
  obtain ⟨hd, _, he⟩ := phase_end ph hlate
  refine ⟨?_, by rw [he, ph.file_eq], hd⟩
  unfold lastSeen
  rw [← ph.inv.eval_last, he, ph.file_eq]

/-- Sharper, when a notification (or a tick) is handled after the last change — at state `s₁`, giving `sₑ`:
    later than ONE debounce after that instant the callback has seen the final content.  (This is the clause the
    driver evaluates on scripts whose last change is followed by a delivered notification.) -/
theorem eventual_reload_after_notification (cfg : Cfg) (e0 : α) (pre post : List (Op α)) (s₁ sₑ s₂ : St α)
    (h₁ : run? .repaired cfg (init cfg e0) pre = some s₁)
    (hev : step? .repaired cfg s₁ .event = some sₑ ∨ ∃ ok, step? .repaired cfg s₁ (.tick ok) = some sₑ)
    (h₂ : run? .repaired cfg sₑ post = some s₂)
    (hw : ∀ o ∈ post, o.isWrite = false) (hlate : sₑ.now + cfg.D < s₂.now) :
    lastSeen e0 s₂ = s₂.file ∧ s₂.evaluated = s₂.file ∧ s₂.deb = none := by
  have hi₁ := inv_run pre (inv_init cfg e0) h₁
  have hiₑ : Inv cfg e0 sₑ := by
    rcases hev with h | ⟨ok, h⟩ <;> exact inv_step hi₁ h
  have hobs : sₑ.observed = sₑ.file := by
    rcases hev with h | ⟨ok, h⟩
    · simp only [step?] at h
      split at h
      · simp only [Option.some.injEq] at h; subst h; exact reconcile_observed cfg s₁
      · simp at h
    · simp only [step?] at h
      split at h
      · simp only [Option.some.injEq] at h; subst h; exact reconcile_observed cfg _
      · simp at h
  have st := settled_run post (settled_start hiₑ hobs) hw h₂
  obtain ⟨hd, he⟩ := settled_end st hlate
  refine ⟨?_, by rw [he, st.file_eq], hd⟩
  unfold lastSeen
  rw [← st.inv.eval_last, he, st.file_eq]

/-- If the final content differs from what the callback saw last, it runs EXACTLY once for it, in time. -/
theorem exactly_once_when_changed (cfg : Cfg) (e0 : α) (pre post : List (Op α)) (s₁ s₂ : St α)
    (h₁ : run? .repaired cfg (init cfg e0) pre = some s₁) (h₂ : run? .repaired cfg s₁ post = some s₂)
    (hw : ∀ o ∈ post, o.isWrite = false) (hlate : s₁.now + cfg.R + cfg.D < s₂.now)
    (hchg : lastSeen e0 s₁ ≠ s₁.file) :
    ∃ t, s₂.calls = (t, s₁.file) :: s₁.calls ∧ t ≤ s₁.now + cfg.R + cfg.D := by
  obtain ⟨hf, new, hc, hl, hall⟩ := at_most_once_after_stabilisation cfg e0 pre post s₁ s₂ h₁ h₂ hw
  have hev := (eventual_reload cfg e0 pre post s₁ s₂ h₁ h₂ hw hlate).1
  match new, hc, hl, hall with
  | [], hc, _, _ =>
    exfalso
    apply hchg
    simp only [List.nil_append] at hc
    unfold lastSeen at hev ⊢
    rw [← hc, hev, hf]
  | [(t, c)], hc, _, hall =>
    have := hall (t, c) (by simp)
    exact ⟨t, by rw [hc, ← hf, ← this.2]; rfl, this.1⟩
  | _ :: _ :: _, _, hl, _ => simp at hl

/-- If the final content equals what the callback saw last (e.g. the file was changed and restored), the
    callback does not run at all. -/
theorem no_callback_when_unchanged (cfg : Cfg) (e0 : α) (pre post : List (Op α)) (s₁ s₂ : St α)
    (h₁ : run? .repaired cfg (init cfg e0) pre = some s₁) (h₂ : run? .repaired cfg s₁ post = some s₂)
    (hw : ∀ o ∈ post, o.isWrite = false) (hsame : lastSeen e0 s₁ = s₁.file) :
    s₂.calls = s₁.calls := by
  have hi₁ := inv_run pre (inv_init cfg e0) h₁
  have ph := phase_run post (phase_start hi₁) hw h₂
  obtain ⟨new, hc, hl, hall, _⟩ := ph.news
  match new, hc, hl, hall with
  | [], hc, _, _ => simpa using hc
  | [(t, c)], hc, _, hall =>
    exfalso
    have hch := ph.inv.chain
    rw [hc] at hch
    have := (hall (t, c) (by simp)).2
    have hcf : c = s₁.file := this
    exact hch.1 (by show c = lastSeenL e0 s₁.calls; rw [hcf]; exact hsame.symm)
  | _ :: _ :: _, _, hl, _ => simp at hl

/-- The three clauses for a history given as one list. -/
theorem stabilised_history (cfg : Cfg) (e0 : α) (pre post : List (Op α)) (s₂ : St α)
    (h : run? .repaired cfg (init cfg e0) (pre ++ post) = some s₂) (hw : ∀ o ∈ post, o.isWrite = false) :
    ∃ s₁, run? .repaired cfg (init cfg e0) pre = some s₁ ∧ s₂.file = s₁.file ∧
      (∃ new, s₂.calls = new ++ s₁.calls ∧ new.length ≤ 1 ∧ ∀ p ∈ new, p.1 ≤ s₁.now + cfg.R + cfg.D ∧ p.2 = s₂.file) ∧
      (s₁.now + cfg.R + cfg.D < s₂.now → lastSeen e0 s₂ = s₂.file ∧ s₂.deb = none) := by
  rw [run?_append] at h
  cases h₁ : run? .repaired cfg (init cfg e0) pre with
  | none => rw [h₁] at h; simp at h
  | some s₁ =>
    rw [h₁] at h
    simp only [Option.bind_some] at h
    obtain ⟨hf, hn⟩ := at_most_once_after_stabilisation cfg e0 pre post s₁ s₂ h₁ h hw
    refine ⟨s₁, rfl, hf, hn, fun hl => ?_⟩
    have := eventual_reload cfg e0 pre post s₁ s₂ h₁ h hw hl
    exact ⟨this.1, this.2.2⟩

/-! ### polling does not depend on the watcher -/

def Op.usesWatcher : Op α → Bool
  | .event => true
  | .other => true
  | .tick ok => ok
  | _ => false

/-- Eventual reload with NO watcher at all after the last change: no notification is ever delivered and every
    attempt to re-attach the watcher fails (`tick false` only) — the content is still reloaded within `R + D`,
    exactly once.  (An instance of the theorems above, which quantify over all histories; stated because the
    reconcile tick must poll whether or not re-attaching succeeded.) -/
theorem eventual_reload_without_watcher (cfg : Cfg) (e0 : α) (pre post : List (Op α)) (s₁ s₂ : St α)
    (h₁ : run? .repaired cfg (init cfg e0) pre = some s₁) (h₂ : run? .repaired cfg s₁ post = some s₂)
    (hw : ∀ o ∈ post, o.isWrite = false) (_hnowatcher : ∀ o ∈ post, Op.usesWatcher o = false)
    (hlate : s₁.now + cfg.R + cfg.D < s₂.now) (hchg : lastSeen e0 s₁ ≠ s₁.file) :
    lastSeen e0 s₂ = s₂.file ∧ ∃ t, s₂.calls = (t, s₁.file) :: s₁.calls ∧ t ≤ s₁.now + cfg.R + cfg.D :=
  ⟨(eventual_reload cfg e0 pre post s₁ s₂ h₁ h₂ hw hlate).1,
   exactly_once_when_changed cfg e0 pre post s₁ s₂ h₁ h₂ hw hlate hchg⟩

/-- such histories exist: watcher lost, re-attach failing at every tick, change made, still reloaded -/
example : (run? .repaired ⟨250, 100⟩ (init ⟨250, 100⟩ 0)
    [.wclose, .write 1, .wait 250, .tick false, .wait 100, .fire, .wait 150, .tick false, .wait 10]).map
      (fun s => (seen s, s.watcher)) = some ([1], false) := by decide

/-! ### "changed" is a function of the content only -/

/-- The reload decision is independent of file metadata: whatever inode, size and modification time the
    environment leaves behind (new ones, or an earlier mtime restored after a same-length rewrite), and whatever
    metadata-only operations are interleaved, the loop — state, pending debounce, callback log — evolves exactly
    as on the history with the metadata erased.  Every theorem above therefore holds for such histories; in
    particular a rewrite that keeps (inode, size, mtime) is reloaded like any other change. -/
theorem reload_decision_ignores_metadata {μ : Type} (v : Variant) (cfg : Cfg) :
    ∀ (ops : List (MOp α μ)) (s : St α) (m : μ),
      (runM? v cfg s m ops).map (·.1) = run? v cfg s (eraseMeta ops)
  | [], s, m => rfl
  | .write c m' :: r, s, m => by
    simp only [runM?, stepM?, eraseMeta, run?, step?, Option.map_some]
    exact reload_decision_ignores_metadata v cfg r _ m'
  | .touch m' :: r, s, m => by
    simp only [runM?, stepM?, eraseMeta]
    exact reload_decision_ignores_metadata v cfg r s m'
  | .loop o :: r, s, m => by
    simp only [runM?, stepM?, eraseMeta, run?]
    cases hs : step? v cfg s o with
    | none => simp
    | some s' => simp only [Option.map_some]; exact reload_decision_ignores_metadata v cfg r s' m

/-- a same-length rewrite with the old mtime restored (metadata `m` before and after), notification delivered:
    reloaded exactly like a rewrite that changes the metadata -/
example : (runM? .repaired ⟨250, 100⟩ (init ⟨250, 100⟩ 0) (7 : Nat)
      [.write 1 7, .loop .event, .loop (.wait 100), .loop .fire]).map (fun p => seen p.1) = some [1] ∧
    (runM? .repaired ⟨250, 100⟩ (init ⟨250, 100⟩ 0) (7 : Nat)
      [.write 1 8, .loop .event, .loop (.wait 100), .loop .fire]).map (fun p => seen p.1) = some [1] := by
  constructor <;> decide

/-- With gate's constants the bound is 350 ms. -/
theorem default_bound : defaultCfg.R + defaultCfg.D = 350 := by decide

/-! ### the pre-fix loop (`runCallback(observed)` straight at debounce expiry) violates all three clauses -/

/-- (contents: 0 = "a", 1 = "b", 2 = "c")
    witness: change to 1 found by the reconcile tick (fingerprint taken), change to 2 50 ms later with
    its notification lost, debounce expires (callback reads 2 under fingerprint 1), next tick finds 2
    "new" and the callback runs a second time for it -/
def doubleCallbackHistory : List (Op Nat) :=
  [.write 1, .wait 250, .tick true, .wait 50, .write 2, .wait 50, .fire, .wait 150, .tick true, .wait 100, .fire]

set_option maxRecDepth 8000 in
theorem defective_double_callback_fails :
    ¬ (∀ s, run? .defective ⟨250, 100⟩ (init ⟨250, 100⟩ 0) doubleCallbackHistory = some s →
        noAdjDup (0 :: seen s) = true) := by
  intro h
  have := h _ rfl
  revert this
  decide

/-- the same history is accepted by the repaired loop with a single callback -/
example : (run? .repaired ⟨250, 100⟩ (init ⟨250, 100⟩ 0)
    [.write 1, .wait 250, .tick true, .wait 50, .write 2, .wait 50, .fire, .wait 100, .fire, .wait 50, .tick true]).map seen
    = some [2] := by decide

/-- witness: the file is changed and restored within the debounce window (second notification lost): the
    pre-fix loop runs the callback twice for the content it started with -/
def unchangedCallbackHistory : List (Op Nat) :=
  [.write 1, .event, .write 0, .wait 100, .fire, .wait 150, .tick true, .wait 100, .fire]

theorem defective_unchanged_callback_fails :
    ¬ (∀ s, run? .defective ⟨250, 100⟩ (init ⟨250, 100⟩ 0) unchangedCallbackHistory = some s →
        s.calls = []) := by
  intro h
  have := h _ rfl
  revert this
  decide

example : (run? .repaired ⟨250, 100⟩ (init ⟨250, 100⟩ 0)
    [.write 1, .event, .write 0, .wait 100, .fire, .wait 100, .fire, .wait 50, .tick true]).map seen = some [] := by decide

/-- witness: 1 is fingerprinted, the callback reads 2 under that fingerprint, then the file goes back to
    1: the pre-fix loop believes 1 is evaluated and NEVER reloads it — the running configuration (2)
    differs from the file (1) for good -/
def missedFinalHistory : List (Op Nat) :=
  [.write 1, .event, .write 2, .wait 100, .fire, .write 1, .event, .wait 150, .tick true, .wait 250, .tick true, .wait 250, .tick true]

set_option maxRecDepth 8000 in
theorem defective_misses_final_content_fails :
    ¬ (∀ s, run? .defective ⟨250, 100⟩ (init ⟨250, 100⟩ 0) missedFinalHistory = some s →
        lastSeen 0 s = s.file) := by
  intro h
  have := h _ rfl
  revert this
  decide

/-! ### the source has the modelled shape (regenerated facts; a source change breaks these) -/

/-- the debounce-expiry case fingerprints again (and may re-schedule) before `runCallback` -/
theorem source_debounce_site_repaired : codeVariant = .repaired := by decide

/-- `reconcile` is: fingerprint, (return when unchanged), schedule -/
theorem source_reconcile_shape :
    (closures Gate.Gen.C38.runWatchLoopCalls)[2]? = some ["fingerprint", "return", "schedule"] := by decide

/-- `runCallback` invokes the callback once and neither fingerprints nor schedules -/
theorem source_runCallback_shape :
    ((closures Gate.Gen.C38.runWatchLoopCalls)[5]?.map fun b =>
      (b.count "cb", b.contains "fingerprint", b.contains "schedule", b.contains "reconcile")) =
      some (1, false, false, false) := by decide

/-- the loop: tick → (re-attach) reconcile; debounce → fingerprint/schedule/runCallback; event → reconcile -/
theorem source_loop_shape :
    loopTail Gate.Gen.C38.runWatchLoopCalls =
      ["ctx.Done", "stopDebounce", "return", "opts.newWatcher", "bindWatcher", "opts.attached", "reconcile",
       "fingerprint", "schedule", "runCallback", "closeWatcher", "filepath.Clean", "closeWatcher", "filepath.Dir",
       "filepath.Base", "reconcile", "closeWatcher", "closeWatcher"] := by decide

/-- the initial fingerprint is taken before the loop goroutine starts -/
theorem source_initial_fingerprint :
    hasInfix ["fingerprint", "go:runWatchLoop"] Gate.Gen.C38.watchWithOptionsCalls = true := by decide

/-! ### non-vacuity: the hypotheses of the stabilisation theorems are satisfiable (a lossy history) -/

example : ∃ (s₁ s₂ : St Nat),
    run? .repaired ⟨250, 100⟩ (init ⟨250, 100⟩ 0) [.write 1, .event, .wait 30, .wclose, .write 2] = some s₁ ∧
    run? .repaired ⟨250, 100⟩ s₁ [.wait 70, .fire, .wait 100, .fire, .wait 50, .tick true, .wait 200] = some s₂ ∧
    s₁.now + 250 + 100 < s₂.now ∧ lastSeen 0 s₁ ≠ s₁.file ∧ seen s₂ = [2] :=
  ⟨_, _, rfl, rfl, by decide, by decide, by decide⟩

end Gate.C38.Props
