import GateModel.Base.Line
import GateModel.C38.Spec
/-
C38 driver.  Case lines (harness/c38/main.go):

  script <R> <D> <init> <end> <t:op[:arg],…|->   \t   seq=<c.c.c|_> intime=<0|1> at=<b.b.b|_>
  unstable script …                               \t   unstable
(the harness prints `watcher-not-closed` instead of a sequence when the loop ignored a scripted watcher failure;
the model never does, so that is a correspondence mismatch)

contents: `a` `b` `c`, `-` = file missing.  ops: w:<c> r:<c> m:<c> p:<c> d (file state changes; m and p keep
the previous modification time — the model's file state is the content only, theorem
`reload_decision_ignores_metadata`), e E (notification for the
config file), o (ignored notification), x:<kind> (watcher failure), q:<n> (the next n re-attach attempts of the
watcher factory fail; 99 = all of them).
Model output: the callback's content sequence predicted by the model of the code variant the regenerated facts
say the source is (`codeVariant`) and the callback instants in 100 ms buckets `(t+10)/100`; `intime` is always 1 in
the model (theorem `at_most_once_after_stabilisation`).
When some operation is nominally closer than `margin` to a model deadline the real ordering cannot be
predicted: the implementation's line is echoed and only the spec verdict is given.
Verdict: the executable spec on the IMPLEMENTATION's sequence (`specVerdict`): no callback for the content seen
last, only contents the script wrote, and — when the script waited longer than R+D after its last file operation,
or longer than D (+100 ms) after a notification delivered after it — the last content seen is the final content.
-/
namespace Gate.C38
open Gate

def parseOp (tok : String) : Option (Nat × ScriptOp String × Bool) :=   -- (time, op, isFileOp)
  match tok.splitOn ":" with
  | [t, "q", n] => do pure (← t.toNat?, .failAttach (← n.toNat?), false)
  | [t, "w", c] => do pure (← t.toNat?, .step (.write c), true)
  | [t, "r", c] => do pure (← t.toNat?, .step (.write c), true)
  | [t, "m", c] => do pure (← t.toNat?, .step (.write c), true)   -- in place, previous mtime restored: a content change
  | [t, "p", c] => do pure (← t.toNat?, .step (.write c), true)   -- atomic replace carrying the old mtime
  | [t, "d"] => do pure (← t.toNat?, .step (.write "-"), true)
  | [t, "e"] => do pure (← t.toNat?, .step (.event), false)
  | [t, "E"] => do pure (← t.toNat?, .step (.event), false)
  | [t, "o"] => do pure (← t.toNat?, .step (.other), false)
  | [t, "x", _] => do pure (← t.toNat?, .step (.wclose), false)
  | _ => none

def parseOps (s : String) : Option (List (Nat × ScriptOp String × Bool)) :=
  if s = "-" then some [] else (s.splitOn ",").mapM parseOp

def showSeq (xs : List String) : String := if xs.isEmpty then "_" else ".".intercalate xs

def parseImpl (impl : String) : Option (List String × Bool) :=
  match impl.splitOn " " with
  | [a, b, c] =>
    if a.startsWith "seq=" && b.startsWith "intime=" && c.startsWith "at=" then
      let sq := (a.drop 4).toString
      some (if sq = "_" then [] else sq.splitOn ".", (b.drop 7).toString = "1")
    else none
  | _ => none

def sortedTimes : List Nat → Bool
  | a :: b :: r => decide (a ≤ b) && sortedTimes (b :: r)
  | _ => true

def stepCase (c : Case) : String × String :=
  match c.op, c.args with
  | "unstable", _ => ("unstable", "-")
  | "script", [r, d, c0, e, opsS] =>
    match r.toNat?, d.toNat?, e.toNat?, parseOps opsS with
    | some R, some D, some endT, some ops =>
      if D ≠ debounceMs then ("const-mismatch debounce=" ++ toString debounceMs, "-")
      else if !sortedTimes (ops.map (·.1)) || (match ops.getLast? with | some (t, _) => decide (endT < t) | none => false) then
        ("bad-script", "-")
      else
        let cfg : Cfg := ⟨R, D⟩
        let written := ops.filterMap fun (_, o, _) => match o with | .step (.write x) => some x | _ => none
        let lastFs := (ops.filterMap fun (t, _, f) => if f then some t else none).getLast?.getD 0
        -- a notification for the config file delivered (watcher attached) after the last file operation
        let tail := match (ops.reverse.span fun (_, _, f) => !f) with | (afterLast, _) => afterLast.reverse
        let failsBefore := fun (t : Nat) => ops.filterMap fun (tx, o, _) =>
          match o with | .step .wclose => if tx ≤ t then some tx else none | _ => none
        let reattachable := !(ops.any fun (_, o, _) => match o with | .failAttach _ => true | _ => false)
        let notified := tail.findSome? fun (t, o, _) =>
          match o with
          | .step .event => if watcherUpAt R 60 reattachable (failsBefore t) t then some t else none
          | _ => none
        let settled := decide (lastFs + R + D < endT) ||
          (match notified with | some te => decide (te + D + 100 ≤ endT) | none => false)
        let verdict := match parseImpl c.impl with
          | some (sq, inTime) => specVerdict c0 sq written settled inTime
          | none => if c.impl = "watcher-not-closed" then "-" else "viol:unparsable-output"
        match runScript codeVariant cfg c0 (ops.map fun (t, o, _) => (t, o)) endT with
        | none => ("model-error", verdict)
        | some x =>
          if x.amb then (c.impl, verdict)
          else ("seq=" ++ showSeq (seen x.st) ++ " intime=1 at=" ++
                showSeq ((x.st.calls.map fun p => toString ((p.1 + 10) / 100)).reverse), verdict)
    | _, _, _, _ => ("bad-case", "-")
  | _, _ => ("bad-case", "-")

end Gate.C38

def main : IO Unit := Gate.runPureDriver Gate.C38.stepCase
