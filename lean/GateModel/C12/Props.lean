import GateModel.C12.Lemmas
import GateModel.Gen.C12
/-
C12 — the property theorems.

The system: one Go map under a `sync.RWMutex`, ANY number of threads with ANY well-locked programs
(writers: register / unregister / players.add / players.remove / server Register / Unregister; readers:
Players, DisconnectAll, players.Range, Servers, PlayerCount, players.Len), ANY initial map content, ANY
schedule — including schedules that switch threads between two elements of a running `range`.
`wellLocked` / `copiesUnderLock` are decidable and are evaluated, on every run, on the programs read off
the REGENERATED call sequences of the real functions (`Gate.Gen.C12`), so the general theorems apply to
the code as it is now; on the unchanged tree three of them were false (`*_as_found_not_well_locked`).
-/
namespace Gate.C12.Props
open Gate.C12

/-- states reachable from map `m0` by well-locked thread programs under some schedule -/
def Reachable (s : Sys) : Prop :=
  ∃ (m0 : GMap) (progs : List (List Act)) (sched : List Nat),
    (∀ p ∈ progs, wellLocked p = true) ∧ exec (mkSys m0 progs) sched = some s

theorem Reachable.inv {s : Sys} (h : Reachable s) : Inv s := by
  obtain ⟨m0, progs, sched, hwl, hs⟩ := h
  exact exec_inv sched (mkSys_inv m0 progs hwl) hs

/-! ### no crash, no race -/

/-- no schedule makes a well-locked system hit `concurrent map iteration and map write`, and no map
    access ever executes outside the lock mode it needs -/
theorem no_fault {s : Sys} (h : Reachable s) : s.fatal = false ∧ s.race = false :=
  ⟨h.inv.clean.2, h.inv.clean.1⟩

/-- step form: in a reachable state a map write is never executed while another thread is in the middle
    of a range (the condition the Go runtime checks) -/
theorem no_write_during_foreign_range {s : Sys} (h : Reachable s) (t : Nat) (a : Act) (rest : List Task)
    (hth : s.threads[t]? = some (.act a :: rest)) (hw : (∃ k v, a = .put k v) ∨ (∃ k, a = .del k)) :
    s.iterating = [] := by
  have inv := h.inv
  have hnot := not_iterating_of_act inv hth
  obtain ⟨h', haft, _⟩ := wlT_cons (inv.wlAll t _ hth)
  have hheld : heldOf s t = .w := by
    rcases hw with ⟨k, v, rfl⟩ | ⟨k, rfl⟩ <;>
      (cases hh : heldOf s t <;> simp [Held.afterT, Held.after, hh] at haft <;> rfl)
  exact inv.no_iter_of_writer (heldOf_w hheld) hnot

/-- readers and the writer exclude each other, so the mutex model is a real RWMutex -/
theorem rw_exclusion {s : Sys} (h : Reachable s) (hw : s.writer.isSome = true) : s.readers = [] := h.inv.excl hw

/-! ### the listing is a snapshot of one instant -/

/-- every listing a `range` returned is exactly the content the map had at one instant (when the range
    began, inside the critical section) — never a mix of entries from different moments -/
theorem snapshot_consistent {s : Sys} (h : Reachable s) (o : Out) (ho : o ∈ s.outs) : o.listing = o.began.vals :=
  h.inv.outsOK o ho

/-- while a range is running the map still has the content it had when the range began, and what has
    been collected so far is a prefix of it -/
theorem map_frozen_during_range {s : Sys} (h : Reachable s) (t : Nat) (ht : t ∈ s.iterating) :
    s.began t = s.m ∧ ∃ i, s.acc t = (s.m.take i).map (·.2) := by
  obtain ⟨i, _, _, h2, h3⟩ := h.inv.iterHead t ht
  exact ⟨h3, i, h2⟩

/-- a thread in the middle of a range holds the mutex -/
theorem range_holds_lock {s : Sys} (h : Reachable s) (t : Nat) (ht : t ∈ s.iterating) : s.canRead t = true :=
  canRead_of_held (h.inv.iter_held ht)

/-! ### returned lists are caller-owned (fresh, unshared) -/

/-- every listing call hands out its OWN backing array: no two returned lists share one, and a returned
    list still holds exactly the snapshot it was built from unless that very slice was mutated in place -/
theorem returned_lists_unshared {s : Sys} (h : Reachable s) :
    (s.outs.map (·.handle)).Nodup ∧
    (∀ o ∈ s.outs, o.handle ∈ s.dirty ∨ s.heap[o.handle]? = some o.listing) ∧
    s.cache = none :=
  ⟨h.inv.heapInv.handlesND, h.inv.heapInv.content, h.inv.heapInv.cacheNone⟩

/-- a caller that reorders / overwrites the list it got (sortServers(proxy.Servers())) changes the slice
    of no other caller, and the slice it changes is one that was returned to IT -/
theorem mutation_touches_only_own_slice {s s' : Sys} {t : Nat} {rest : List Task} (h : Reachable s)
    (hth : s.threads[t]? = some (.act .mutate :: rest)) (hs : step s t = some s') :
    (∀ o ∈ s.outs, s.mine t ≠ some o.handle → s'.heap[o.handle]? = s.heap[o.handle]?) ∧
    (∀ k, s.mine t = some k → ∃ o ∈ s.outs, o.handle = k ∧ o.tid = t) ∧
    s'.outs = s.outs ∧ s'.m = s.m := by
  refine ⟨?_, h.inv.heapInv.mineOwn t, ?_, ?_⟩
  · intro o _ hne
    unfold step at hs; rw [hth] at hs
    simp only [stepTask] at hs
    cases hm : s.mine t with
    | none => rw [hm] at hs; injection hs with hs; subst hs; rfl
    | some k =>
      rw [hm] at hs hne; injection hs with hs; subst hs
      have : k ≠ o.handle := fun e => hne (e ▸ rfl)
      exact List.getElem?_set_ne this
  · unfold step at hs; rw [hth] at hs
    simp only [stepTask] at hs
    cases hm : s.mine t <;> (rw [hm] at hs; injection hs with hs; subst hs; rfl)
  · unfold step at hs; rw [hth] at hs
    simp only [stepTask] at hs
    cases hm : s.mine t <;> (rw [hm] at hs; injection hs with hs; subst hs; rfl)

/-- a listing made AFTER some caller scrambled its list is still the map's content: `snapshot_consistent`
    holds for every out, whatever mutations happened before -/
theorem later_listing_unaffected {s : Sys} (h : Reachable s) (o : Out) (ho : o ∈ s.outs) :
    o.listing = o.began.vals ∧ (o.handle ∈ s.dirty ∨ s.heap[o.handle]? = some o.began.vals) := by
  have h1 := h.inv.outsOK o ho
  refine ⟨h1, ?_⟩
  rcases h.inv.heapInv.content o ho with hd | hc
  · exact Or.inl hd
  · exact Or.inr (h1 ▸ hc)

/-- a CACHED listing (first caller builds the slice, later callers get the same backing array) breaks
    this: caller 0 lists and reorders its result in place, caller 1 lists afterwards and is handed
    `[2, 2, 3]` — server 2 twice, server 1 not at all — while the registry holds `[1, 2, 3]` -/
theorem cached_listing_fails :
    ((exec (mkSys [(1, 1), (2, 2), (3, 3)] [[.rangeCached, .mutate], [.rangeCached]]) [0, 0, 1]).map
      (fun s => (s.outs.map (·.listing), s.outs.map (·.handle), s.m.vals))) =
      some ([[1, 2, 3], [2, 2, 3]], [0, 0], [1, 2, 3]) := by decide

/-- the repaired readers under the same usage: two distinct slices, the second caller sees the registry -/
example :
    ((exec (mkSys [(1, 1), (2, 2), (3, 3)] [playersRepaired ++ [.mutate], playersRepaired])
        [0, 0, 0, 0, 0, 0, 0, 0, 0, 0, 1, 1, 1, 1, 1, 1, 1, 1, 1]).map
      (fun s => (s.outs.map (·.listing), s.outs.map (·.handle), s.heap))) =
      some ([[1, 2, 3], [1, 2, 3]], [0, 1], [[2, 2, 3], [1, 2, 3]]) := by decide

theorem cached_listing_not_well_locked : wellLocked [.rangeCached] = false := by decide

/-! ### the code as found: kernel-checked witnesses (DESIGN §11 row 8) -/

/-- `Players()` as found (map header copied under RLock, iterated after RUnlock) against one
    registration: reader releases the lock, starts the range, the writer writes → fatal, and race -/
theorem no_fault_fails :
    ((exec (mkSys [(1, 1), (2, 2)] [playersAsFound, [.lock, .put 3 3, .unlock]]) [0, 0, 0, 0, 0, 1, 1]).map
      (fun s => (s.fatal, s.race))) = some (true, true) := by decide

/-- without a crash the listing mixes moments: the reader has seen player 1, the writer removes 1 and
    adds 3, the reader goes on and returns `[1, 3]` — the content of the map at NO instant
    (`[1, 2]` before the writer, `[2, 3]` after) -/
theorem snapshot_fails :
    ((exec (mkSys [(1, 1), (2, 2)] [rangeAsFound, [.lock, .del 1, .put 3 3, .unlock]])
        [0, 0, 0, 0, 1, 1, 1, 1, 0, 0, 0]).map
      (fun s => (s.outs.map (·.listing), s.m.vals))) = some ([[1, 3]], [2, 3]) := by decide

/-- the same schedules cannot even be run against the repaired reader: the writer is not enabled while
    the reader is inside its section -/
theorem repaired_reader_blocks_writer :
    (exec (mkSys [(1, 1), (2, 2)] [playersRepaired, [.lock, .put 3 3, .unlock]]) [0, 0, 0, 1]) = none := by decide

/-- and any complete run of it returns the snapshot -/
example :
    ((exec (mkSys [(1, 1), (2, 2)] [playersRepaired, [.lock, .put 3 3, .unlock]]) [0, 0, 0, 0, 0, 0, 0, 1, 1, 1, 0]).map
      (fun s => (s.outs.map (·.listing), s.m.vals, s.fatal, s.race))) = some ([[1, 2]], [1, 2, 3], false, false) := by
  decide

theorem as_found_not_well_locked :
    wellLocked playersAsFound = false ∧ wellLocked disconnectAllAsFound = false ∧ wellLocked rangeAsFound = false := by
  decide

/-! ### source shape (regenerated from /repo on every run): the real functions are well-locked programs -/

/-- the three listing functions that were defective: each copies the map inside its read section -/
theorem listing_copies_under_lock :
    copiesUnderLock (progOf "p.muP" false Gate.Gen.C12.playersCalls) = true ∧
    copiesUnderLock (progOf "p.muP" true Gate.Gen.C12.disconnectAllCalls) = true ∧
    copiesUnderLock (progOf "p.mu" false Gate.Gen.C12.rangeCalls) = true := by decide

/-- EXACT bodies of the two functions that RETURN a list: read section (deferred unlock), a `make` of the
    result inside it on every call, the copying loop, return — nothing else is called: no cache is
    consulted or stored, nothing returns before the section (no fast path) -/
theorem listings_are_fresh_copies :
    Gate.Gen.C12.serversCalls = ["p.muS.RLock", "defer:p.muS.RUnlock", "len", "make", "append", "return"] ∧
    Gate.Gen.C12.playersCalls = ["p.muP.RLock", "defer:p.muP.RUnlock", "len", "make", "append", "return"] := by
  decide

/-- the two listers that do not return the list (they consume it): the copy is `make`d inside the
    section on every call and nothing precedes the section -/
theorem consumed_listings_are_fresh_copies :
    Gate.Gen.C12.disconnectAllCalls.takeWhile (· ≠ "p.muP.RUnlock") = ["p.muP.RLock", "len", "make", "append"] ∧
    Gate.Gen.C12.rangeCalls.takeWhile (· ≠ "p.mu.RUnlock") = ["p.mu.RLock", "len", "make", "append"] ∧
    Gate.Gen.C12.rangeCalls = ["p.mu.RLock", "len", "make", "append", "p.mu.RUnlock", "fn", "return"] := by
  decide

/-- DisconnectAll and Range release the lock BEFORE they disconnect players / run the callback
    (holding it there would deadlock with teardown's unregister, or with a callback that calls add/remove) -/
theorem callbacks_outside_lock :
    (progOf "p.muP" true Gate.Gen.C12.disconnectAllCalls).getLast? = some .use ∧
    (progOf "p.mu" false Gate.Gen.C12.rangeCalls).getLast? = some .use ∧
    (progOf "p.muP" true Gate.Gen.C12.disconnectAllCalls).dropWhile (· ≠ .runlock) = [.runlock, .use, .use, .use] ∧
    (progOf "p.mu" false Gate.Gen.C12.rangeCalls).dropWhile (· ≠ .runlock) = [.runlock, .use] := by decide

/-- the other readers -/
theorem other_readers_well_locked :
    copiesUnderLock (progOf "p.muS" false Gate.Gen.C12.serversCalls) = true ∧
    wellLocked (progOf "p.muP" false Gate.Gen.C12.playerCountCalls) = true ∧
    (progOf "p.muP" false Gate.Gen.C12.playerCountCalls).contains .size = true ∧
    wellLocked (progOf "p.mu" false Gate.Gen.C12.lenCalls) = true ∧
    (progOf "p.mu" false Gate.Gen.C12.lenCalls).contains .size = true ∧
    wellLocked (progOf "p.muP" false Gate.Gen.C12.resetCalls) = true := by decide

/-- the writers: every `delete`/`len` of unregisterConnection, players.remove and Unregister sits in a
    write section; add/remove/registerConnection are Lock…Unlock bracketed -/
theorem writers_well_locked :
    wellLocked (progOf "p.muP" false Gate.Gen.C12.unregisterCalls) = true ∧
    (progOf "p.muP" false Gate.Gen.C12.unregisterCalls).count (.del 0) = 2 ∧
    wellLocked (progOf "p.mu" false Gate.Gen.C12.removeCalls) = true ∧
    (progOf "p.mu" false Gate.Gen.C12.removeCalls).contains (.del 0) = true ∧
    wellLocked (progOf "p.mu" false Gate.Gen.C12.addCalls) = true ∧
    (progOf "p.mu" false Gate.Gen.C12.addCalls) = [.lock, .unlock] ∧
    wellLocked (progOf "p.muS" false Gate.Gen.C12.unregisterServerCalls) = true ∧
    (progOf "p.muS" false Gate.Gen.C12.unregisterServerCalls).contains (.del 0) = true := by decide

/-! ### counting: the count is the size of the map, and a teardown that owns nothing changes nothing -/

/-- the unregister section of a connection that was never registered (a refused duplicate login) deletes
    a key that is not there: the map, hence `len(m)` = PlayerCount and every later listing, is unchanged -/
theorem del_absent_keeps_map (m : GMap) (k : Key) (h : ∀ e ∈ m, e.1 ≠ k) : m.del k = m := by
  unfold GMap.del
  apply List.filter_eq_self.mpr
  intro e he
  simp [h e he]

/-- deleting never makes the count negative or larger -/
theorem del_length_le (m : GMap) (k : Key) : (m.del k).length ≤ m.length := List.length_filter_le _ _

/-! ### non-vacuity -/

example : Reachable (mkSys [] []) := ⟨[], [], [], (fun p hp => by cases hp), rfl⟩

/-- a reachable state in which a reader is in the middle of its range while the writer waits -/
example : ∃ s, Reachable s ∧ s.iterating = [0] ∧ s.acc 0 = [1] :=
  ⟨_, ⟨[(1, 1), (2, 2)], [playersRepaired, [.lock, .put 3 3, .unlock]], [0, 0, 0, 0],
      by decide, rfl⟩, rfl, rfl⟩

end Gate.C12.Props
