/-
C12 — model of one Go map guarded by a `sync.RWMutex` (the proxy's `playerIDs` under `muP`, a server's
player list under `players.mu`, the server registry under `muS`) with writers and listing readers, as an
interleaving machine.

A thread is a list of atomic actions: the mutex operations, single map writes, `len(m)`, a `range` over
the map that collects the values (`for _, v := range m { out = append(out, v) }` — one `iterBegin`, then
one `iterNext` action PER ELEMENT, so other threads can be scheduled between any two elements), and
`use` (everything done with the private copy: return it, call callbacks, spawn goroutines).

Go (after the C12 fix; the code as found is `playersAsFound` / `rangeAsFound` / `disconnectAllAsFound`):

    Players():        RLock; defer RUnlock; out := make(len(m)); for v := range m { append }; return out
    DisconnectAll():  RLock; copy := make(len(m)); for v := range m { append }; RUnlock; spawn/wait over copy
    players.Range(f): RLock; copy := make(len(m)); for v := range m { append }; RUnlock; for v in copy { f(v) }
    as found:         RLock; h := m (the map HEADER, no copy); RUnlock; [len(h)]; for v := range h { … }
    Servers(), PlayerCount(), players.Len():  RLock; defer RUnlock; …
    register/unregisterConnection, players.add/remove, Register/Unregister:  Lock; writes; Unlock

Outcomes tracked in the state:
  `race`  — an access executed without the lock mode it needs (a read outside RLock/Lock, a write
            outside Lock, an unlock of a mutex the thread does not hold): a data race by Go's rules;
  `fatal` — a map write executed while ANOTHER thread is in the middle of a `range` over the map:
            the Go runtime's `fatal error: concurrent map iteration and map write`.
Every finished `range` is logged in `outs` with the map content at its `iterBegin` (ghost).
-/
namespace Gate.C12

abbrev Key := Nat
abbrev Val := Nat
/-- map content; `range` visits it in list order (Go's order is unspecified: any order is some list) -/
abbrev GMap := List (Key × Val)

def GMap.del (m : GMap) (k : Key) : GMap := m.filter (fun e => !(e.1 == k))
def GMap.put (m : GMap) (k : Key) (v : Val) : GMap := GMap.del m k ++ [(k, v)]
def GMap.vals (m : GMap) : List Val := m.map (·.2)

inductive Act where
  | lock | unlock | rlock | runlock
  | put (k : Key) (v : Val) | del (k : Key)
  | size                      -- len(m)
  | range                     -- collect all values by iterating m
  | use                       -- work on the private copy only (read it, call callbacks, spawn goroutines)
  | mutate                    -- reorder / overwrite IN PLACE the slice the thread's last listing returned
                              -- (what the built-in /server and /glist do: sortServers(proxy.Servers()))
  | rangeCached               -- NOT in the tree: a listing served from a cached slice, built by the first
                              -- caller after a change and handed (same backing array) to every later caller
  deriving Repr, DecidableEq

inductive Task where
  | act (a : Act)
  | iterNext (i : Nat)        -- the range loop is at element i
  deriving Repr, DecidableEq

/-- a finished listing: who, what it returned (content at return time), the map content when the range
    began (ghost), and the slice (index into the heap of backing arrays) that was handed to the caller -/
structure Out where
  tid : Nat
  listing : List Val
  began : GMap
  handle : Nat
  deriving Repr, DecidableEq

/-- what an in-place reordering does to a slice (any length-preserving function would do: the theorems
    do not depend on it; this one duplicates the second element over the first, the first half of a swap) -/
def scramble : List Val → List Val
  | _ :: b :: r => b :: b :: r
  | l => l

structure Sys where
  m : GMap
  writer : Option Nat         -- holder of Lock
  readers : List Nat          -- holders of RLock
  iterating : List Nat        -- threads inside a `range`
  race : Bool
  fatal : Bool
  acc : Nat → List Val        -- values collected so far by a thread's running range
  began : Nat → GMap          -- ghost: map content at the thread's last iterBegin
  threads : List (List Task)
  outs : List Out
  heap : List (List Val)      -- the backing arrays of all slices handed out so far
  mine : Nat → Option Nat     -- the slice a thread got from its last listing
  dirty : List Nat            -- ghost: slices that were mutated in place after they were returned
  cache : Option Nat          -- cached-listing variant only: the slice that is handed out again

def updF {α} (f : Nat → α) (t : Nat) (a : α) : Nat → α := fun x => if x = t then a else f x

/-- does thread `t` hold the mutex in a mode that allows reading / writing -/
def Sys.canRead (s : Sys) (t : Nat) : Bool := s.readers.contains t || s.writer == some t
def Sys.canWrite (s : Sys) (t : Nat) : Bool := s.writer == some t

/-- the effect of thread `t` executing its next task; `none`: not enabled (blocked on the mutex) -/
def stepTask (s : Sys) (t : Nat) (task : Task) (rest : List Task) : Option Sys :=
  match task with
  | .act .lock =>
    if s.writer.isNone && s.readers.isEmpty then some { s with writer := some t, threads := s.threads.set t rest }
    else none
  | .act .unlock =>
    if s.writer == some t then some { s with writer := none, threads := s.threads.set t rest }
    else some { s with race := true, threads := s.threads.set t rest }
  | .act .rlock =>
    if s.writer.isNone then some { s with readers := t :: s.readers, threads := s.threads.set t rest }
    else none
  | .act .runlock =>
    if s.readers.contains t then some { s with readers := s.readers.erase t, threads := s.threads.set t rest }
    else some { s with race := true, threads := s.threads.set t rest }
  | .act (.put k v) =>
    some { s with m := s.m.put k v, race := s.race || !s.canWrite t,
                  fatal := s.fatal || s.iterating.any (· != t), threads := s.threads.set t rest }
  | .act (.del k) =>
    some { s with m := s.m.del k, race := s.race || !s.canWrite t,
                  fatal := s.fatal || s.iterating.any (· != t), threads := s.threads.set t rest }
  | .act .size =>
    some { s with race := s.race || !s.canRead t, threads := s.threads.set t rest }
  | .act .range =>
    some { s with race := s.race || !s.canRead t, iterating := t :: s.iterating,
                  acc := updF s.acc t [], began := updF s.began t s.m,
                  threads := s.threads.set t (.iterNext 0 :: rest) }
  | .act .use => some { s with threads := s.threads.set t rest }
  | .act .mutate =>
    match s.mine t with
    | some h => some { s with heap := s.heap.set h (scramble (s.heap.getD h [])), dirty := h :: s.dirty,
                              threads := s.threads.set t rest }
    | none => some { s with threads := s.threads.set t rest }
  | .act .rangeCached =>
    match s.cache with
    | some h =>   -- fast path: no lock, the SAME slice again
      some { s with outs := s.outs ++ [⟨t, s.heap.getD h [], s.m, h⟩], mine := updF s.mine t (some h),
                    threads := s.threads.set t rest }
    | none =>     -- build under the read lock (one section), remember the slice
      if s.writer.isNone then
        some { s with outs := s.outs ++ [⟨t, s.m.vals, s.m, s.heap.length⟩], heap := s.heap ++ [s.m.vals],
                      mine := updF s.mine t (some s.heap.length), cache := some s.heap.length,
                      threads := s.threads.set t rest }
      else none
  | .iterNext i =>
    match s.m[i]? with
    | some e => some { s with race := s.race || !s.canRead t, acc := updF s.acc t (s.acc t ++ [e.2]),
                              threads := s.threads.set t (.iterNext (i + 1) :: rest) }
    | none =>   -- the loop is done: the collected values are a FRESH slice owned by the caller
      some { s with race := s.race || !s.canRead t, iterating := s.iterating.erase t,
                    outs := s.outs ++ [⟨t, s.acc t, s.began t, s.heap.length⟩], heap := s.heap ++ [s.acc t],
                    mine := updF s.mine t (some s.heap.length), threads := s.threads.set t rest }

def step (s : Sys) (t : Nat) : Option Sys :=
  match s.threads[t]? with
  | some (task :: rest) => stepTask s t task rest
  | _ => none

def exec (s : Sys) : List Nat → Option Sys
  | [] => some s
  | t :: ts => (step s t).bind (fun s' => exec s' ts)

def mkSys (m0 : GMap) (progs : List (List Act)) : Sys :=
  { m := m0, writer := none, readers := [], iterating := [], race := false, fatal := false,
    acc := fun _ => [], began := fun _ => [], threads := progs.map (·.map Task.act), outs := [],
    heap := [], mine := fun _ => none, dirty := [], cache := none }

/-! ### lock discipline of a program (decidable; evaluated on programs derived from the source) -/

inductive Held where
  | free | r | w
  deriving Repr, DecidableEq

/-- the mode held after an action, `none` if the action is not allowed in mode `h`: every access sits
    inside a section of the right mode and sections are properly bracketed -/
def Held.after : Held → Act → Option Held
  | .free, .lock => some .w
  | .w, .unlock => some .free
  | .free, .rlock => some .r
  | .r, .runlock => some .free
  | .w, .put _ _ => some .w
  | .w, .del _ => some .w
  | .r, .size => some .r
  | .w, .size => some .w
  | .r, .range => some .r
  | .w, .range => some .w
  | h, .use => some h
  | h, .mutate => some h          -- touches only the caller's own slice: allowed anywhere
  | _, _ => Option.none           -- in particular `.rangeCached` is never part of a well-locked program

/-- a program is well locked from mode `h`: every action is allowed and nothing is held at the end -/
def wl : Held → List Act → Bool
  | h, [] => h == .free
  | h, a :: rest => match h.after a with
    | some h' => wl h' rest
    | none => false

def wellLocked (p : List Act) : Bool := wl .free p

/-- a listing reader that really copies under the lock: well locked and it contains a `range` -/
def copiesUnderLock (p : List Act) : Bool := wellLocked p && p.contains .range

/-! ### programs read off the regenerated call sequences -/

/-- translate a `gofacts calls` list of a function that guards a map with mutex `mu` into a program:
    `mu.RLock` … ; `defer:mu.RUnlock` releases at the end; `len` reads the map header; `append` is the
    body of a `range` loop collecting values; `delete` is a map write; callbacks / spawned goroutines /
    other calls only use private data.  `privLen`: after the mutex has been released once, `len` is
    applied to the private copy (DisconnectAll's `wg.Add(len(players))`), not to the map. -/
def progOf (mu : String) (privLen : Bool) (calls : List String) : List Act :=
  go calls [] false
where
  go : List String → List Act → Bool → List Act
    | [], deferred, _ => deferred
    | c :: rest, deferred, released =>
      if c = mu ++ ".Lock" then .lock :: go rest deferred released
      else if c = mu ++ ".Unlock" then .unlock :: go rest deferred true
      else if c = mu ++ ".RLock" then .rlock :: go rest deferred released
      else if c = mu ++ ".RUnlock" then .runlock :: go rest deferred true
      else if c = "defer:" ++ mu ++ ".Unlock" then go rest (.unlock :: deferred) released
      else if c = "defer:" ++ mu ++ ".RUnlock" then go rest (.runlock :: deferred) released
      else if c = "len" then (if privLen && released then .use else .size) :: go rest deferred released
      else if c = "append" then .range :: go rest deferred released
      else if c = "delete" then .del 0 :: go rest deferred released
      else if c = "fn" || c = "go:{" || c = "wg.Wait" then .use :: go rest deferred released
      else go rest deferred released

/-- the listing functions as found in the unchanged tree -/
def playersAsFound : List Act := [.rlock, .runlock, .size, .range, .use]
def disconnectAllAsFound : List Act := [.rlock, .runlock, .size, .range, .use]
def rangeAsFound : List Act := [.rlock, .runlock, .range, .use]
/-- and repaired -/
def playersRepaired : List Act := [.rlock, .size, .range, .runlock, .use]

/-- sequential use (differential harness): run thread `t` until its stack is empty -/
def runThread : Nat → Sys → Nat → Option Sys
  | 0, _, _ => none
  | fuel + 1, s, t =>
    match s.threads[t]? with
    | some (_ :: _) => (step s t).bind (fun s' => runThread fuel s' t)
    | _ => some s

end Gate.C12
