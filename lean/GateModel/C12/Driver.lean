import GateModel.Base.Line
import GateModel.C12.Model
/-
C12 driver.  Sequential correspondence: every op of the harness is run on the machine of Model.lean as ONE
thread executing the corresponding well-locked program to completion (`runThread`), on the three maps
(player registry, the lobby's player list, server registry).  Case lines:

  reset
  join <i> | leave <i>                registerConnection of a fresh connection i / i.Disconnect → teardown
  dup <i>                             a second login with i's name and UUID while i is online: refused, the refused
                                      connection is torn down (unregisters nothing): `r=<admitted> n=<PlayerCount()>`
  sadd <i> | srem <i>                 players.add / players.remove on the lobby
  regsrv <k> | unregsrv <k>           Proxy.Register / Proxy.Unregister
  players | count | servers | slen | srange     the listing / counting APIs (sorted); the harness scrambles every
                                      slice it gets back IN PLACE after reading it (reverse, then overwrite all
                                      entries with one), so a listing that shares its backing array with an
                                      earlier caller's shows duplicates
  srangemut rem | srangemut add <j>   Range whose callback, on its first call, removes every member /
                                      adds 40 new members: `r=<visited> len=<Len() afterwards>`
  srangestop <n>                      Range whose callback returns false at its n-th call: visits
  discall                             DisconnectAll: `r=<players torn down> n=<PlayerCount afterwards>`
  conc <scenario> <iters>             concurrent stress in a child process (search aid): impl `ok` or what broke

Spec verdict (on the implementation's output, from the implementation's own history): a listing has no
duplicates and is exactly the set that is registered at that moment; Range visits exactly the snapshot
taken when it was called, whatever the callback does; DisconnectAll tears down exactly the registered
players and leaves none; nothing hangs or dies.
-/
namespace Gate.C12
open Gate

structure DState where
  reg : GMap := []        -- playerIDs (key = value = connection index)
  srv : GMap := []        -- the lobby's player list
  servers : GMap := [(0, 0)]
  -- the spec's own bookkeeping, fed by the implementation's answers
  sReg : List Nat := []
  sSrv : List Nat := []
  sServers : List Nat := [0]

def natSort (xs : List Nat) : List Nat := xs.mergeSort (fun a b => a ≤ b)
def showList (xs : List Nat) : String :=
  if xs.isEmpty then "-" else ",".intercalate ((natSort xs).map toString)

/-- run one program as the only thread; result: the map afterwards and the listings it returned
    (`none`: blocked, out of fuel, or the machine flagged a race / fatal) -/
def runProg (m : GMap) (p : List Act) : Option (GMap × List (List Val)) :=
  match runThread (4 * m.length + 64) (mkSys m [p]) 0 with
  | some s => if s.race || s.fatal then none else some (s.m, s.outs.map (·.listing))
  | none => none

/-- a listing call; the caller then reorders / overwrites the list it got, in place (the harness does) -/
def listProg : List Act := [.rlock, .size, .range, .runlock, .use, .mutate]
def sizeProg : List Act := [.rlock, .size, .runlock]

def listing (m : GMap) : Option (List Val) := (runProg m listProg).bind (fun r => r.2.head?)
def write (m : GMap) (w : List Act) : Option GMap := (runProg m ([.lock] ++ w ++ [.unlock])).map (·.1)

def has (m : GMap) (k : Nat) : Bool := m.any (·.1 == k)

def setOf (xs : List Nat) : List Nat := natSort xs.eraseDups
def noDup (xs : List Nat) : Bool := xs.eraseDups.length == xs.length

def parseList (s : String) : Option (List Nat) :=
  if s = "-" then some [] else (s.splitOn ",").mapM String.toNat?

def fieldAfter (pre s : String) : Option String :=
  if s.startsWith pre then some (s.drop pre.length).toString else none

/-- verdict for an impl answer `r=<list>` against the expected set -/
def judgeList (impl : String) (want : List Nat) : String :=
  match (fieldAfter "r=" impl).bind parseList with
  | none => "viol:unparsable"
  | some l => if !noDup l then "viol:duplicate-entry" else if setOf l == setOf want then "ok" else "viol:listing-wrong"

def judgeNat (impl : String) (want : Nat) (sig : String) : String :=
  if impl == "r=" ++ toString want then "ok" else "viol:" ++ sig

def bad (d : DState) : DState × String × String := (d, "bad-op", "-")

def range40 (j : Nat) : List Nat := (List.range 40).map (· + j)

def dstep (d : DState) (c : Case) : DState × String × String :=
  if c.impl == "hang" then (d, "?", "viol:hang") else
  if c.impl == "panic" then (d, "?", "viol:panic") else
  match c.op, c.args with
  | "reset", _ => ({}, "-", "-")
  | "conc", _ => (d, "ok", if c.impl == "ok" then "ok" else "viol:" ++ c.impl)
  | "join", [a] =>
    match a.toNat? with
    | some i =>
      if has d.reg i then (d, "r=0", judgeNat c.impl 0 "join") else
      match write d.reg [.put i i] with
      | some m => ({ d with reg := m, sReg := if c.impl == "r=1" then i :: d.sReg else d.sReg }, "r=1",
                   if d.sReg.contains i then judgeNat c.impl 0 "join" else judgeNat c.impl 1 "join")
      | none => bad d
    | none => bad d
  | "dup", [a] =>
    -- a refused second login of an online player: registerConnection's section writes nothing, the refused
    -- connection's teardown is a write section that deletes nothing; `n` = PlayerCount() afterwards
    match a.toNat? with
    | some i =>
      if !has d.reg i then bad d else
      match write d.reg [], runProg d.reg sizeProg with
      | some m, some _ =>
        let want := "r=0 n=" ++ toString d.sReg.length
        ({ d with reg := m }, "r=0 n=" ++ toString m.length,
         if c.impl == want then "ok"
         else if c.impl.startsWith "r=0 " then "viol:count-wrong" else "viol:duplicate-login-admitted")
      | _, _ => bad d
    | none => bad d
  | "leave", [a] =>
    match a.toNat? with
    | some i => match write d.reg [.del i] with
      | some m => ({ d with reg := m, sReg := d.sReg.filter (· != i) }, "r=-", "-")
      | none => bad d
    | none => bad d
  | "sadd", [a] =>
    match a.toNat? with
    | some i => match write d.srv [.put i i] with
      | some m => ({ d with srv := m, sSrv := i :: d.sSrv.filter (· != i) }, "r=-", "-")
      | none => bad d
    | none => bad d
  | "srem", [a] =>
    match a.toNat? with
    | some i => match write d.srv [.del i] with
      | some m => ({ d with srv := m, sSrv := d.sSrv.filter (· != i) }, "r=-", "-")
      | none => bad d
    | none => bad d
  | "regsrv", [a] =>
    match a.toNat? with
    | some k =>
      let want := if d.sServers.contains k then 0 else 1
      if has d.servers k then (d, "r=0", judgeNat c.impl want "register-server") else
      match write d.servers [.put k k] with
      | some m => ({ d with servers := m, sServers := if c.impl == "r=1" then k :: d.sServers else d.sServers },
                   "r=1", judgeNat c.impl want "register-server")
      | none => bad d
    | none => bad d
  | "unregsrv", [a] =>
    match a.toNat? with
    | some k =>
      let want := if d.sServers.contains k then 1 else 0
      if !has d.servers k then (d, "r=0", judgeNat c.impl want "unregister-server") else
      match write d.servers [.del k] with
      | some m => ({ d with servers := m, sServers := if c.impl == "r=1" then d.sServers.filter (· != k) else d.sServers },
                   "r=1", judgeNat c.impl want "unregister-server")
      | none => bad d
    | none => bad d
  | "players", _ =>
    match listing d.reg with
    | some l => (d, "r=" ++ showList l, judgeList c.impl d.sReg)
    | none => bad d
  | "servers", _ =>
    match listing d.servers with
    | some l => (d, "r=" ++ showList l, judgeList c.impl d.sServers)
    | none => bad d
  | "srange", _ =>
    match listing d.srv with
    | some l => (d, "r=" ++ showList l, judgeList c.impl d.sSrv)
    | none => bad d
  | "count", _ =>
    match runProg d.reg sizeProg with
    | some _ => (d, "r=" ++ toString d.reg.length, judgeNat c.impl d.sReg.length "count-wrong")
    | none => bad d
  | "slen", _ =>
    match runProg d.srv sizeProg with
    | some _ => (d, "r=" ++ toString d.srv.length, judgeNat c.impl d.sSrv.length "count-wrong")
    | none => bad d
  | "srangemut", mode :: rest =>
    -- Range = [rlock, size, range, runlock] then the callbacks on the private copy; the first callback writes
    match listing d.srv with
    | none => bad d
    | some snap =>
      let adds := match mode, rest with
        | "add", [j] => range40 (j.toNat?.getD 0)
        | _, _ => []
      let w : List Act := if mode == "rem" then snap.map Act.del else adds.map (fun i => Act.put i i)
      let w := if snap.isEmpty then [] else w      -- no member, no callback
      match write d.srv w with
      | none => bad d
      | some m =>
        let sAfter := if d.sSrv.isEmpty then d.sSrv else
          if mode == "rem" then [] else adds ++ d.sSrv.filter (fun x => !adds.contains x)
        let out := "r=" ++ showList snap ++ " len=" ++ toString m.length
        let verdict := match c.impl.splitOn " " with
          | [r, ln] =>
            let v := judgeList r d.sSrv
            if v != "ok" then (if v == "viol:listing-wrong" then "viol:range-not-snapshot" else v)
            else if ln == "len=" ++ toString sAfter.length then "ok" else "viol:count-wrong"
          | _ => "viol:unparsable"
        ({ d with srv := m, sSrv := sAfter }, out, verdict)
  | "srangestop", [a] =>
    match a.toNat?, listing d.srv with
    | some n, some snap =>
      (d, "r=" ++ toString (min n snap.length), judgeNat c.impl (min n d.sSrv.length) "range-stop")
    | _, _ => bad d
  | "discall", _ =>
    -- DisconnectAll = [rlock, size, range, runlock], then one Disconnect per copied player: each teardown
    -- is its own write section
    match listing d.reg with
    | none => bad d
    | some snap =>
      match snap.foldl (fun (m : Option GMap) i => m.bind (fun m => write m [.del i])) (some d.reg) with
      | none => bad d
      | some m =>
        let verdict := match c.impl.splitOn " " with
          | [r, n] =>
            let v := judgeList r d.sReg
            if v != "ok" then (if v == "viol:listing-wrong" then "viol:disconnect-all-incomplete" else v)
            else if n == "n=0" then "ok" else "viol:disconnect-all-incomplete"
          | _ => "viol:unparsable"
        ({ d with reg := m, sReg := [] }, "r=" ++ showList snap ++ " n=" ++ toString m.length, verdict)
  | _, _ => bad d

end Gate.C12

def main : IO Unit := Gate.runDriver ({} : Gate.C12.DState) Gate.C12.dstep
