import GateModel.C12.Model
/-
C12 helper lemmas: the invariant of well-locked systems and its preservation by every atomic action.
-/
namespace Gate.C12

def Held.afterT : Held → Task → Option Held
  | h, .act a => h.after a
  | .free, .iterNext _ => Option.none
  | h, .iterNext _ => some h

/-- the remaining stack of a thread is well locked from the mode the thread holds now -/
def wlT : Held → List Task → Bool
  | h, [] => h == .free
  | h, t :: rest => match h.afterT t with
    | some h' => wlT h' rest
    | none => false

theorem wlT_map_act (h : Held) (p : List Act) : wlT h (p.map Task.act) = wl h p := by
  induction p generalizing h with
  | nil => rfl
  | cons a rest ih =>
    simp only [List.map_cons, wlT, wl, Held.afterT]
    cases h.after a with
    | none => rfl
    | some h' => exact ih h'

/-- the mode thread `t` holds in state `s` -/
def heldOf (s : Sys) (t : Nat) : Held :=
  if s.writer = some t then .w else if t ∈ s.readers then .r else .free

structure Inv (s : Sys) : Prop where
  excl    : s.writer.isSome = true → s.readers = []
  rnodup  : s.readers.Nodup
  inodup  : s.iterating.Nodup
  wlAll   : ∀ t ts, s.threads[t]? = some ts → wlT (heldOf s t) ts = true
  clean   : s.race = false ∧ s.fatal = false
  iterHead : ∀ t ∈ s.iterating, ∃ i rest, s.threads[t]? = some (.iterNext i :: rest) ∧
               s.acc t = (s.m.take i).map (·.2) ∧ s.began t = s.m
  iterConv : ∀ t i rest, s.threads[t]? = some (.iterNext i :: rest) → t ∈ s.iterating
  restActs : ∀ (t : Nat) (task : Task) (rest : List Task), s.threads[t]? = some (task :: rest) →
               ∀ x ∈ rest, ∃ a, x = Task.act a
  outsOK  : ∀ o ∈ s.outs, o.listing = o.began.vals

theorem heldOf_w {s : Sys} {t : Nat} (h : heldOf s t = .w) : s.writer = some t := by
  unfold heldOf at h
  split at h
  · assumption
  · split at h <;> cases h

theorem heldOf_r {s : Sys} {t : Nat} (h : heldOf s t = .r) : s.writer ≠ some t ∧ t ∈ s.readers := by
  unfold heldOf at h
  split at h
  · cases h
  · split at h
    · exact ⟨by assumption, by assumption⟩
    · cases h

theorem heldOf_none {s : Sys} {t : Nat} (h : heldOf s t = .free) : s.writer ≠ some t ∧ t ∉ s.readers := by
  unfold heldOf at h
  split at h
  · cases h
  · split at h
    · cases h
    · exact ⟨by assumption, by assumption⟩

theorem canRead_of_held {s : Sys} {t : Nat} (h : heldOf s t ≠ .free) : s.canRead t = true := by
  unfold heldOf at h
  unfold Sys.canRead
  split at h
  · rename_i hw; simp [hw]
  · split at h
    · rename_i hr; simp [hr]
    · exact absurd rfl h

/-- a thread in the middle of a range holds the mutex (in some mode) -/
theorem Inv.iter_held {s : Sys} (inv : Inv s) {u : Nat} (hu : u ∈ s.iterating) : heldOf s u ≠ .free := by
  obtain ⟨i, rest, hth, _, _⟩ := inv.iterHead u hu
  have := inv.wlAll u _ hth
  intro hn
  rw [hn] at this
  simp [wlT, Held.afterT] at this

/-- while some thread holds the write lock and is not itself iterating, nobody iterates -/
theorem Inv.no_iter_of_writer {s : Sys} (inv : Inv s) {t : Nat} (hw : s.writer = some t) (hnot : t ∉ s.iterating) :
    s.iterating = [] := by
  cases hi : s.iterating with
  | nil => rfl
  | cons u rest =>
    have hu : u ∈ s.iterating := by rw [hi]; exact List.mem_cons_self ..
    have hh := inv.iter_held hu
    have hre : s.readers = [] := inv.excl (by rw [hw]; rfl)
    unfold heldOf at hh
    by_cases h1 : s.writer = some u
    · rw [hw] at h1; injection h1 with h1; subst h1; exact absurd hu hnot
    · simp [h1, hre] at hh

/-- frame: changing only thread `t`'s stack keeps the other threads' stacks -/
theorem get_set_other {l : List (List Task)} {t u : Nat} {new : List Task} (h : u ≠ t) :
    (l.set t new)[u]? = l[u]? := List.getElem?_set_ne (Ne.symm h)

theorem get_set_self {l : List (List Task)} {t : Nat} {old new : List Task} (h : l[t]? = some old) :
    (l.set t new)[t]? = some new := by
  have : t < l.length := by
    rcases List.getElem?_eq_some_iff.mp h with ⟨hlt, _⟩; exact hlt
  exact List.getElem?_set_self this

/-- split `wlT` of a non-empty stack -/
theorem wlT_cons {h : Held} {task : Task} {rest : List Task} (hw : wlT h (task :: rest) = true) :
    ∃ h', h.afterT task = some h' ∧ wlT h' rest = true := by
  simp only [wlT] at hw
  cases hh : h.afterT task with
  | none => rw [hh] at hw; cases hw
  | some h' => rw [hh] at hw; exact ⟨h', rfl, hw⟩


theorem heldOf_congr {s s' : Sys} (hw : s'.writer = s.writer) (hr : s'.readers = s.readers) (u : Nat) :
    heldOf s' u = heldOf s u := by unfold heldOf; rw [hw, hr]

/-- rebuild `wlAll` after thread `t` replaced its stack -/
theorem wlAll_step {s s' : Sys} (inv : Inv s) {t : Nat} {old new : List Task} (hth : s.threads[t]? = some old)
    (hthr : s'.threads = s.threads.set t new)
    (hother : ∀ u, u ≠ t → heldOf s' u = heldOf s u)
    (hself : wlT (heldOf s' t) new = true) :
    ∀ u ts, s'.threads[u]? = some ts → wlT (heldOf s' u) ts = true := by
  intro u ts hu
  rw [hthr] at hu
  by_cases hut : u = t
  · subst hut
    rw [get_set_self hth] at hu
    injection hu with hu; subst hu; exact hself
  · rw [get_set_other hut] at hu
    rw [hother u hut]; exact inv.wlAll u ts hu

/-- rebuild `restActs` when the new stack of `t` is the old tail, possibly with a new head -/
theorem restActs_step {s s' : Sys} (inv : Inv s) {t : Nat} {task : Task} {rest new : List Task}
    (hth : s.threads[t]? = some (task :: rest)) (hthr : s'.threads = s.threads.set t new)
    (hnew : new = rest ∨ ∃ x, new = x :: rest) :
    ∀ (u : Nat) (task' : Task) (rest' : List Task), s'.threads[u]? = some (task' :: rest') →
      ∀ x ∈ rest', ∃ a, x = Task.act a := by
  intro u task' rest' hu x hx
  rw [hthr] at hu
  have hr := inv.restActs t task rest hth
  by_cases hut : u = t
  · subst hut
    rw [get_set_self hth] at hu
    injection hu with hu
    rcases hnew with h | ⟨y, h⟩
    · rw [h] at hu; rw [hu] at hr
      exact hr x (List.mem_cons_of_mem _ hx)
    · rw [h] at hu; injection hu with _ h2; rw [← h2] at hx; exact hr x hx
  · rw [get_set_other hut] at hu
    exact inv.restActs u task' rest' hu x hx

theorem not_iterating_of_act {s : Sys} (inv : Inv s) {t : Nat} {a : Act} {rest : List Task}
    (hth : s.threads[t]? = some (.act a :: rest)) : t ∉ s.iterating := by
  intro hin
  obtain ⟨i, r, h, _, _⟩ := inv.iterHead t hin
  rw [hth] at h; injection h with h; injection h with h; cases h

/-- `iterHead`/`iterConv` when thread `t` (head an `act`, not iterating) moves on to its tail and the
    map, the iteration set and the per-thread range state are untouched -/
theorem iter_frame {s s' : Sys} (inv : Inv s) {t : Nat} {a : Act} {rest : List Task}
    (hth : s.threads[t]? = some (.act a :: rest)) (hthr : s'.threads = s.threads.set t rest)
    (hm : s'.m = s.m) (hi : s'.iterating = s.iterating) (hacc : s'.acc = s.acc) (hb : s'.began = s.began) :
    (∀ u ∈ s'.iterating, ∃ i r, s'.threads[u]? = some (.iterNext i :: r) ∧
        s'.acc u = (s'.m.take i).map (·.2) ∧ s'.began u = s'.m) ∧
    (∀ u i r, s'.threads[u]? = some (.iterNext i :: r) → u ∈ s'.iterating) := by
  have hnot := not_iterating_of_act inv hth
  constructor
  · intro u hu
    rw [hi] at hu
    have hut : u ≠ t := fun e => hnot (e ▸ hu)
    obtain ⟨i, r, h1, h2, h3⟩ := inv.iterHead u hu
    refine ⟨i, r, ?_, ?_, ?_⟩
    · rw [hthr, get_set_other hut]; exact h1
    · rw [hacc, hm]; exact h2
    · rw [hb, hm]; exact h3
  · intro u i r hu
    rw [hthr] at hu
    rw [hi]
    by_cases hut : u = t
    · subst hut
      rw [get_set_self hth] at hu
      injection hu with hu
      have := inv.restActs u _ _ hth (.iterNext i) (by rw [hu]; exact List.mem_cons_self ..)
      obtain ⟨a', ha'⟩ := this; cases ha'
    · rw [get_set_other hut] at hu
      exact inv.iterConv u i r hu

end Gate.C12
