import GateModel.C12.Model
/-
C12 helper lemmas: the invariant of well-locked systems and its preservation by every atomic action.
-/
namespace Gate.C12

def Held.afterT : Held → Task → Option Held
  | h, .act a => h.after a
  | .free, .iterNext _ => Option.none
  | h, .iterNext _ => some h

/-- the remaining stack of a thread is well locked from the mode the thread holds now -/
def wlT : Held → List Task → Bool
  | h, [] => h == .free
  | h, t :: rest => match h.afterT t with
    | some h' => wlT h' rest
    | none => false

theorem wlT_map_act (h : Held) (p : List Act) : wlT h (p.map Task.act) = wl h p := by
  induction p generalizing h with
  | nil => rfl
  | cons a rest ih =>
    simp only [List.map_cons, wlT, wl, Held.afterT]
    cases h.after a with
    | none => rfl
    | some h' => exact ih h'

/-- the mode thread `t` holds in state `s` -/
def heldOf (s : Sys) (t : Nat) : Held :=
  if s.writer = some t then .w else if t ∈ s.readers then .r else .free

/-- ownership of the returned slices -/
structure HeapInv (s : Sys) : Prop where
  handlesND : (s.outs.map (·.handle)).Nodup
  handlesLt : ∀ o ∈ s.outs, o.handle < s.heap.length
  mineOwn   : ∀ t h, s.mine t = some h → ∃ o ∈ s.outs, o.handle = h ∧ o.tid = t
  content   : ∀ o ∈ s.outs, o.handle ∈ s.dirty ∨ s.heap[o.handle]? = some o.listing
  dirtyOwn  : ∀ h ∈ s.dirty, ∃ o ∈ s.outs, o.handle = h
  cacheNone : s.cache = none

theorem HeapInv.frame {s s' : Sys} (h : HeapInv s) (ho : s'.outs = s.outs) (hh : s'.heap = s.heap)
    (hm : s'.mine = s.mine) (hd : s'.dirty = s.dirty) (hc : s'.cache = s.cache) : HeapInv s' where
  handlesND := by rw [ho]; exact h.handlesND
  handlesLt := by rw [ho, hh]; exact h.handlesLt
  mineOwn := by rw [ho, hm]; exact h.mineOwn
  content := by rw [ho, hh, hd]; exact h.content
  dirtyOwn := by rw [ho, hd]; exact h.dirtyOwn
  cacheNone := by rw [hc]; exact h.cacheNone

structure Inv (s : Sys) : Prop where
  heapInv : HeapInv s
  excl    : s.writer.isSome = true → s.readers = []
  rnodup  : s.readers.Nodup
  inodup  : s.iterating.Nodup
  wlAll   : ∀ t ts, s.threads[t]? = some ts → wlT (heldOf s t) ts = true
  clean   : s.race = false ∧ s.fatal = false
  iterHead : ∀ t ∈ s.iterating, ∃ i rest, s.threads[t]? = some (.iterNext i :: rest) ∧
               s.acc t = (s.m.take i).map (·.2) ∧ s.began t = s.m
  iterConv : ∀ t i rest, s.threads[t]? = some (.iterNext i :: rest) → t ∈ s.iterating
  restActs : ∀ (t : Nat) (task : Task) (rest : List Task), s.threads[t]? = some (task :: rest) →
               ∀ x ∈ rest, ∃ a, x = Task.act a
  outsOK  : ∀ o ∈ s.outs, o.listing = o.began.vals

theorem heldOf_w {s : Sys} {t : Nat} (h : heldOf s t = .w) : s.writer = some t := by
  unfold heldOf at h
  split at h
  · assumption
  · split at h <;> cases h

theorem heldOf_r {s : Sys} {t : Nat} (h : heldOf s t = .r) : s.writer ≠ some t ∧ t ∈ s.readers := by
  unfold heldOf at h
  split at h
  · cases h
  · split at h
    · exact ⟨by assumption, by assumption⟩
    · cases h

theorem heldOf_none {s : Sys} {t : Nat} (h : heldOf s t = .free) : s.writer ≠ some t ∧ t ∉ s.readers := by
  unfold heldOf at h
  split at h
  · cases h
  · split at h
    · cases h
    · exact ⟨by assumption, by assumption⟩

theorem canRead_of_held {s : Sys} {t : Nat} (h : heldOf s t ≠ .free) : s.canRead t = true := by
  unfold heldOf at h
  unfold Sys.canRead
  split at h
  · rename_i hw; simp [hw]
  · split at h
    · rename_i hr; simp [hr]
    · exact absurd rfl h

/-- a thread in the middle of a range holds the mutex (in some mode) -/
theorem Inv.iter_held {s : Sys} (inv : Inv s) {u : Nat} (hu : u ∈ s.iterating) : heldOf s u ≠ .free := by
  obtain ⟨i, rest, hth, _, _⟩ := inv.iterHead u hu
  have := inv.wlAll u _ hth
  intro hn
  rw [hn] at this
  simp [wlT, Held.afterT] at this

/-- while some thread holds the write lock and is not itself iterating, nobody iterates -/
theorem Inv.no_iter_of_writer {s : Sys} (inv : Inv s) {t : Nat} (hw : s.writer = some t) (hnot : t ∉ s.iterating) :
    s.iterating = [] := by
  cases hi : s.iterating with
  | nil => rfl
  | cons u rest =>
    have hu : u ∈ s.iterating := by rw [hi]; exact List.mem_cons_self ..
    have hh := inv.iter_held hu
    have hre : s.readers = [] := inv.excl (by rw [hw]; rfl)
    unfold heldOf at hh
    by_cases h1 : s.writer = some u
    · rw [hw] at h1; injection h1 with h1; subst h1; exact absurd hu hnot
    · simp [h1, hre] at hh

/-- frame: changing only thread `t`'s stack keeps the other threads' stacks -/
theorem get_set_other {l : List (List Task)} {t u : Nat} {new : List Task} (h : u ≠ t) :
    (l.set t new)[u]? = l[u]? := List.getElem?_set_ne (Ne.symm h)

theorem get_set_self {l : List (List Task)} {t : Nat} {old new : List Task} (h : l[t]? = some old) :
    (l.set t new)[t]? = some new := by
  have : t < l.length := by
    rcases List.getElem?_eq_some_iff.mp h with ⟨hlt, _⟩; exact hlt
  exact List.getElem?_set_self this

/-- split `wlT` of a non-empty stack -/
theorem wlT_cons {h : Held} {task : Task} {rest : List Task} (hw : wlT h (task :: rest) = true) :
    ∃ h', h.afterT task = some h' ∧ wlT h' rest = true := by
  simp only [wlT] at hw
  cases hh : h.afterT task with
  | none => rw [hh] at hw; cases hw
  | some h' => rw [hh] at hw; exact ⟨h', rfl, hw⟩


theorem heldOf_congr {s s' : Sys} (hw : s'.writer = s.writer) (hr : s'.readers = s.readers) (u : Nat) :
    heldOf s' u = heldOf s u := by unfold heldOf; rw [hw, hr]

/-- rebuild `wlAll` after thread `t` replaced its stack -/
theorem wlAll_step {s s' : Sys} (inv : Inv s) {t : Nat} {old new : List Task} (hth : s.threads[t]? = some old)
    (hthr : s'.threads = s.threads.set t new)
    (hother : ∀ u, u ≠ t → heldOf s' u = heldOf s u)
    (hself : wlT (heldOf s' t) new = true) :
    ∀ u ts, s'.threads[u]? = some ts → wlT (heldOf s' u) ts = true := by
  intro u ts hu
  rw [hthr] at hu
  by_cases hut : u = t
  · subst hut
    rw [get_set_self hth] at hu
    injection hu with hu; subst hu; exact hself
  · rw [get_set_other hut] at hu
    rw [hother u hut]; exact inv.wlAll u ts hu

/-- rebuild `restActs` when the new stack of `t` is the old tail, possibly with a new head -/
theorem restActs_step {s s' : Sys} (inv : Inv s) {t : Nat} {task : Task} {rest new : List Task}
    (hth : s.threads[t]? = some (task :: rest)) (hthr : s'.threads = s.threads.set t new)
    (hnew : new = rest ∨ ∃ x, new = x :: rest) :
    ∀ (u : Nat) (task' : Task) (rest' : List Task), s'.threads[u]? = some (task' :: rest') →
      ∀ x ∈ rest', ∃ a, x = Task.act a := by
  intro u task' rest' hu x hx
  rw [hthr] at hu
  have hr := inv.restActs t task rest hth
  by_cases hut : u = t
  · subst hut
    rw [get_set_self hth] at hu
    injection hu with hu
    rcases hnew with h | ⟨y, h⟩
    · rw [h] at hu; rw [hu] at hr
      exact hr x (List.mem_cons_of_mem _ hx)
    · rw [h] at hu; injection hu with _ h2; rw [← h2] at hx; exact hr x hx
  · rw [get_set_other hut] at hu
    exact inv.restActs u task' rest' hu x hx

theorem not_iterating_of_act {s : Sys} (inv : Inv s) {t : Nat} {a : Act} {rest : List Task}
    (hth : s.threads[t]? = some (.act a :: rest)) : t ∉ s.iterating := by
  intro hin
  obtain ⟨i, r, h, _, _⟩ := inv.iterHead t hin
  rw [hth] at h; injection h with h; injection h with h; cases h

/-- `iterHead`/`iterConv` when thread `t` (head an `act`, not iterating) moves on to its tail and the
    map, the iteration set and the per-thread range state are untouched -/
theorem iter_frame {s s' : Sys} (inv : Inv s) {t : Nat} {a : Act} {rest : List Task}
    (hth : s.threads[t]? = some (.act a :: rest)) (hthr : s'.threads = s.threads.set t rest)
    (hm : s'.m = s.m ∨ s.iterating = []) (hi : s'.iterating = s.iterating) (hacc : s'.acc = s.acc) (hb : s'.began = s.began) :
    (∀ u ∈ s'.iterating, ∃ i r, s'.threads[u]? = some (.iterNext i :: r) ∧
        s'.acc u = (s'.m.take i).map (·.2) ∧ s'.began u = s'.m) ∧
    (∀ u i r, s'.threads[u]? = some (.iterNext i :: r) → u ∈ s'.iterating) := by
  have hnot := not_iterating_of_act inv hth
  constructor
  · intro u hu
    rw [hi] at hu
    have hm : s'.m = s.m := by
      rcases hm with h | h
      · exact h
      · rw [h] at hu; cases hu
    have hut : u ≠ t := fun e => hnot (e ▸ hu)
    obtain ⟨i, r, h1, h2, h3⟩ := inv.iterHead u hu
    refine ⟨i, r, ?_, ?_, ?_⟩
    · rw [hthr, get_set_other hut]; exact h1
    · rw [hacc, hm]; exact h2
    · rw [hb, hm]; exact h3
  · intro u i r hu
    rw [hthr] at hu
    rw [hi]
    by_cases hut : u = t
    · subst hut
      rw [get_set_self hth] at hu
      injection hu with hu
      have := inv.restActs u _ _ hth (.iterNext i) (by rw [hu]; exact List.mem_cons_self ..)
      obtain ⟨a', ha'⟩ := this; cases ha'
    · rw [get_set_other hut] at hu
      exact inv.iterConv u i r hu


/-- a finished range hands a FRESH slice to its caller -/
theorem heap_alloc {s : Sys} (h : HeapInv s) (t : Nat) (l : List Val) (g : GMap) {s' : Sys}
    (ho : s'.outs = s.outs ++ [⟨t, l, g, s.heap.length⟩] := by rfl) (hh : s'.heap = s.heap ++ [l] := by rfl)
    (hm : s'.mine = updF s.mine t (some s.heap.length) := by rfl) (hd : s'.dirty = s.dirty := by rfl)
    (hc : s'.cache = s.cache := by rfl) : HeapInv s' where
  handlesND := by
    rw [ho, List.map_append, List.nodup_append]
    refine ⟨h.handlesND, by simp, ?_⟩
    intro a ha b hb
    simp only [List.map_cons, List.map_nil, List.mem_singleton] at hb
    obtain ⟨o, hoo, rfl⟩ := List.mem_map.mp ha
    have := h.handlesLt o hoo
    omega
  handlesLt := by
    intro o hoo
    rw [ho] at hoo; rw [hh, List.length_append]
    rcases List.mem_append.mp hoo with hoo | hoo
    · have := h.handlesLt o hoo; simp; omega
    · simp only [List.mem_singleton] at hoo; subst hoo; simp
  mineOwn := by
    intro u k hk
    rw [hm] at hk; rw [ho]
    unfold updF at hk
    split at hk
    · rename_i hut
      injection hk with hk
      exact ⟨⟨t, l, g, s.heap.length⟩, List.mem_append_right _ (List.mem_singleton.mpr rfl), hk, hut.symm⟩
    · obtain ⟨o, hoo, h1, h2⟩ := h.mineOwn u k hk
      exact ⟨o, List.mem_append_left _ hoo, h1, h2⟩
  content := by
    intro o hoo
    rw [ho] at hoo; rw [hh, hd]
    rcases List.mem_append.mp hoo with hoo | hoo
    · rcases h.content o hoo with hc' | hc'
      · exact Or.inl hc'
      · right; rw [List.getElem?_append_left (h.handlesLt o hoo)]; exact hc'
    · simp only [List.mem_singleton] at hoo; subst hoo
      right; simp
  dirtyOwn := by
    intro k hk
    rw [hd] at hk; rw [ho]
    obtain ⟨o, hoo, h1⟩ := h.dirtyOwn k hk
    exact ⟨o, List.mem_append_left _ hoo, h1⟩
  cacheNone := by rw [hc]; exact h.cacheNone

/-- mutating one's own slice in place touches no other slice -/
theorem heap_mutate {s : Sys} (h : HeapInv s) (k : Nat) (hk : ∃ o ∈ s.outs, o.handle = k) (f : List Val → List Val)
    {s' : Sys} (ho : s'.outs = s.outs := by rfl) (hh : s'.heap = s.heap.set k (f (s.heap.getD k [])) := by rfl)
    (hm : s'.mine = s.mine := by rfl) (hd : s'.dirty = k :: s.dirty := by rfl)
    (hc : s'.cache = s.cache := by rfl) : HeapInv s' where
  handlesND := by rw [ho]; exact h.handlesND
  handlesLt := by rw [ho, hh, List.length_set]; exact h.handlesLt
  mineOwn := by rw [ho, hm]; exact h.mineOwn
  content := by
    intro o hoo
    rw [ho] at hoo; rw [hh, hd]
    by_cases hok : o.handle = k
    · exact Or.inl (hok ▸ List.mem_cons_self ..)
    · rcases h.content o hoo with hc' | hc'
      · exact Or.inl (List.mem_cons_of_mem _ hc')
      · right; rw [List.getElem?_set_ne (Ne.symm hok)]; exact hc'
  dirtyOwn := by
    intro j hj
    rw [hd] at hj; rw [ho]
    rcases List.mem_cons.mp hj with hj | hj
    · subst hj; exact hk
    · exact h.dirtyOwn j hj
  cacheNone := by rw [hc]; exact h.cacheNone

/-- all actions that neither start, advance nor finish a range -/
theorem inv_plain_step {s s' : Sys} (inv : Inv s) {t : Nat} {a : Act} {rest : List Task}
    (hth : s.threads[t]? = some (.act a :: rest)) (hthr : s'.threads = s.threads.set t rest)
    (hm : s'.m = s.m ∨ s.iterating = []) (hi : s'.iterating = s.iterating) (hacc : s'.acc = s.acc)
    (hb : s'.began = s.began) (houts : s'.outs = s.outs) (hheap : HeapInv s') (hrace : s'.race = false) (hfatal : s'.fatal = false)
    (hexcl : s'.writer.isSome = true → s'.readers = []) (hnd : s'.readers.Nodup)
    (hother : ∀ u, u ≠ t → heldOf s' u = heldOf s u) (hself : wlT (heldOf s' t) rest = true) : Inv s' where
  heapInv := hheap
  excl := hexcl
  rnodup := hnd
  inodup := by rw [hi]; exact inv.inodup
  wlAll := wlAll_step inv hth hthr hother hself
  clean := ⟨hrace, hfatal⟩
  iterHead := (iter_frame inv hth hthr hm hi hacc hb).1
  iterConv := (iter_frame inv hth hthr hm hi hacc hb).2
  restActs := restActs_step inv hth hthr (Or.inl rfl)
  outsOK := by rw [houts]; exact inv.outsOK

theorem heldOf_eq_w {s : Sys} {t : Nat} (h : s.writer = some t) : heldOf s t = .w := by simp [heldOf, h]

theorem stepTask_inv {s s' : Sys} {t : Nat} {task : Task} {rest : List Task} (inv : Inv s)
    (hth : s.threads[t]? = some (task :: rest)) (hs : stepTask s t task rest = some s') : Inv s' := by
  obtain ⟨h', haft, hwl⟩ := wlT_cons (inv.wlAll t _ hth)
  cases task with
  | act a =>
    have hnot := not_iterating_of_act inv hth
    cases a with
    | lock =>
      have hfree : heldOf s t = .free ∧ h' = .w := by
        cases hh : heldOf s t <;> simp [Held.afterT, Held.after, hh] at haft <;> simp [haft]
      obtain ⟨_, rfl⟩ := hfree
      simp only [stepTask] at hs
      split at hs
      · rename_i hc
        injection hs with hs; subst hs
        simp only [Bool.and_eq_true, Option.isNone_iff_eq_none, List.isEmpty_iff] at hc
        refine inv_plain_step inv hth rfl (Or.inl rfl) rfl rfl rfl rfl (inv.heapInv.frame rfl rfl rfl rfl rfl) inv.clean.1 inv.clean.2
          (fun _ => hc.2) inv.rnodup ?_ ?_
        · intro u hut
          have h1 : ¬ (some t = some u) := fun e => hut (Option.some.inj e).symm
          simp [heldOf, hc.1, h1]
        · rw [heldOf_eq_w rfl]; exact hwl
      · cases hs
    | unlock =>
      have hw : heldOf s t = .w ∧ h' = .free := by
        cases hh : heldOf s t <;> simp [Held.afterT, Held.after, hh] at haft <;> simp [haft]
      obtain ⟨hw, rfl⟩ := hw
      have hwr := heldOf_w hw
      have hre : s.readers = [] := inv.excl (by rw [hwr]; rfl)
      simp only [stepTask, hwr, beq_self_eq_true, if_true] at hs
      injection hs with hs; subst hs
      refine inv_plain_step inv hth rfl (Or.inl rfl) rfl rfl rfl rfl (inv.heapInv.frame rfl rfl rfl rfl rfl) inv.clean.1 inv.clean.2
        (fun h => by cases h) inv.rnodup ?_ ?_
      · intro u hut
        have h1 : ¬ (some t = some u) := fun e => hut (Option.some.inj e).symm
        simp [heldOf, hwr, h1]
      · simp only [heldOf, hre]; simpa using hwl
    | rlock =>
      have hfree : heldOf s t = .free ∧ h' = .r := by
        cases hh : heldOf s t <;> simp [Held.afterT, Held.after, hh] at haft <;> simp [haft]
      obtain ⟨hf, rfl⟩ := hfree
      simp only [stepTask] at hs
      split at hs
      · rename_i hc
        injection hs with hs; subst hs
        simp only [Option.isNone_iff_eq_none] at hc
        have hn := heldOf_none hf
        refine inv_plain_step inv hth rfl (Or.inl rfl) rfl rfl rfl rfl (inv.heapInv.frame rfl rfl rfl rfl rfl) inv.clean.1 inv.clean.2
          (fun h => by simp [hc] at h) (List.nodup_cons.mpr ⟨hn.2, inv.rnodup⟩) ?_ ?_
        · intro u hut
          simp [heldOf, hc, hut]
        · simp only [heldOf, hc]; simpa using hwl
      · cases hs
    | runlock =>
      have hr : heldOf s t = .r ∧ h' = .free := by
        cases hh : heldOf s t <;> simp [Held.afterT, Held.after, hh] at haft <;> simp [haft]
      obtain ⟨hr, rfl⟩ := hr
      obtain ⟨hnw, hin⟩ := heldOf_r hr
      have hc : s.readers.contains t = true := List.contains_iff_mem.mpr hin
      simp only [stepTask, hc, if_true] at hs
      injection hs with hs; subst hs
      have hwn : s.writer = none := by
        cases hw : s.writer with
        | none => rfl
        | some w => have := inv.excl (by rw [hw]; rfl); rw [this] at hin; cases hin
      refine inv_plain_step inv hth rfl (Or.inl rfl) rfl rfl rfl rfl (inv.heapInv.frame rfl rfl rfl rfl rfl) inv.clean.1 inv.clean.2
        (fun h => by simp [hwn] at h) (inv.rnodup.erase t) ?_ ?_
      · intro u hut
        simp only [heldOf, List.mem_erase_of_ne hut]
      · have : t ∉ s.readers.erase t := fun h => ((inv.rnodup.mem_erase_iff).mp h).1 rfl
        simp only [heldOf, hwn, this]; simpa using hwl
    | put k v =>
      have hw : heldOf s t = .w ∧ h' = .w := by
        cases hh : heldOf s t <;> simp [Held.afterT, Held.after, hh] at haft <;> simp [haft]
      obtain ⟨hw, rfl⟩ := hw
      have hwr := heldOf_w hw
      have hni := inv.no_iter_of_writer hwr hnot
      simp only [stepTask] at hs
      injection hs with hs; subst hs
      refine inv_plain_step inv hth rfl (Or.inr hni) rfl rfl rfl rfl (inv.heapInv.frame rfl rfl rfl rfl rfl) ?_ ?_ inv.excl inv.rnodup
        (fun u _ => heldOf_congr rfl rfl u) ?_
      · simp [inv.clean.1, Sys.canWrite, hwr]
      · simp [inv.clean.2, hni]
      · change wlT (heldOf s t) rest = true; rw [hw]; exact hwl
    | del k =>
      have hw : heldOf s t = .w ∧ h' = .w := by
        cases hh : heldOf s t <;> simp [Held.afterT, Held.after, hh] at haft <;> simp [haft]
      obtain ⟨hw, rfl⟩ := hw
      have hwr := heldOf_w hw
      have hni := inv.no_iter_of_writer hwr hnot
      simp only [stepTask] at hs
      injection hs with hs; subst hs
      refine inv_plain_step inv hth rfl (Or.inr hni) rfl rfl rfl rfl (inv.heapInv.frame rfl rfl rfl rfl rfl) ?_ ?_ inv.excl inv.rnodup
        (fun u _ => heldOf_congr rfl rfl u) ?_
      · simp [inv.clean.1, Sys.canWrite, hwr]
      · simp [inv.clean.2, hni]
      · change wlT (heldOf s t) rest = true; rw [hw]; exact hwl
    | size =>
      have hh : heldOf s t ≠ .free ∧ h' = heldOf s t := by
        cases hh : heldOf s t <;> simp [Held.afterT, Held.after, hh] at haft <;>
          (subst haft; exact ⟨by decide, rfl⟩)
      obtain ⟨hne, rfl⟩ := hh
      simp only [stepTask] at hs
      injection hs with hs; subst hs
      refine inv_plain_step inv hth rfl (Or.inl rfl) rfl rfl rfl rfl (inv.heapInv.frame rfl rfl rfl rfl rfl) ?_ inv.clean.2 inv.excl inv.rnodup
        (fun u _ => heldOf_congr rfl rfl u) ?_
      · simp [inv.clean.1, canRead_of_held hne]
      · change wlT (heldOf s t) rest = true; exact hwl
    | use =>
      have hh : h' = heldOf s t := by
        cases hh : heldOf s t <;> simp [Held.afterT, Held.after, hh] at haft <;> simp [haft]
      subst hh
      simp only [stepTask] at hs
      injection hs with hs; subst hs
      refine inv_plain_step inv hth rfl (Or.inl rfl) rfl rfl rfl rfl (inv.heapInv.frame rfl rfl rfl rfl rfl) inv.clean.1 inv.clean.2 inv.excl inv.rnodup
        (fun u _ => heldOf_congr rfl rfl u) ?_
      change wlT (heldOf s t) rest = true; exact hwl
    | mutate =>
      have hh : h' = heldOf s t := by
        cases hh : heldOf s t <;> simp [Held.afterT, Held.after, hh] at haft <;> simp [haft]
      subst hh
      simp only [stepTask] at hs
      cases hmine : s.mine t with
      | none =>
        rw [hmine] at hs; injection hs with hs; subst hs
        refine inv_plain_step inv hth rfl (Or.inl rfl) rfl rfl rfl rfl (inv.heapInv.frame rfl rfl rfl rfl rfl)
          inv.clean.1 inv.clean.2 inv.excl inv.rnodup (fun u _ => heldOf_congr rfl rfl u) ?_
        change wlT (heldOf s t) rest = true; exact hwl
      | some k =>
        rw [hmine] at hs; injection hs with hs; subst hs
        obtain ⟨o, hoo, h1, _⟩ := inv.heapInv.mineOwn t k hmine
        refine inv_plain_step inv hth rfl (Or.inl rfl) rfl rfl rfl rfl
          (heap_mutate inv.heapInv k ⟨o, hoo, h1⟩ scramble)
          inv.clean.1 inv.clean.2 inv.excl inv.rnodup (fun u _ => heldOf_congr rfl rfl u) ?_
        change wlT (heldOf s t) rest = true; exact hwl
    | rangeCached =>
      cases hh : heldOf s t <;> simp [Held.afterT, Held.after, hh] at haft
    | range =>
      have hh : heldOf s t ≠ .free ∧ h' = heldOf s t := by
        cases hh : heldOf s t <;> simp [Held.afterT, Held.after, hh] at haft <;>
          (subst haft; exact ⟨by decide, rfl⟩)
      obtain ⟨hne, rfl⟩ := hh
      simp only [stepTask] at hs
      injection hs with hs; subst hs
      have hself : wlT (heldOf s t) (.iterNext 0 :: rest) = true := by
        simp only [wlT]
        cases hh : heldOf s t with
        | free => exact absurd hh hne
        | r => simp only [Held.afterT]; rw [hh] at hwl; exact hwl
        | w => simp only [Held.afterT]; rw [hh] at hwl; exact hwl
      exact {
        heapInv := inv.heapInv.frame rfl rfl rfl rfl rfl
        excl := inv.excl
        rnodup := inv.rnodup
        inodup := List.nodup_cons.mpr ⟨hnot, inv.inodup⟩
        wlAll := wlAll_step inv hth rfl (fun u _ => heldOf_congr rfl rfl u)
                   (by change wlT (heldOf s t) _ = true; exact hself)
        clean := ⟨by simp [inv.clean.1, canRead_of_held hne], inv.clean.2⟩
        iterHead := by
          intro u hu
          rcases List.mem_cons.mp hu with hu | hu
          · subst hu
            exact ⟨0, rest, get_set_self hth, by simp [updF], by simp [updF]⟩
          · have hut : u ≠ t := fun e => hnot (e ▸ hu)
            obtain ⟨i, r, h1, h2, h3⟩ := inv.iterHead u hu
            refine ⟨i, r, ?_, ?_, ?_⟩
            · show (s.threads.set t _)[u]? = _
              rw [get_set_other hut]; exact h1
            · show updF s.acc t [] u = _
              simp only [updF, hut, if_false]; exact h2
            · show updF s.began t s.m u = _
              simp only [updF, hut, if_false]; exact h3
        iterConv := by
          intro u i r hu
          by_cases hut : u = t
          · subst hut; exact List.mem_cons_self ..
          · have hu' : (s.threads.set t (Task.iterNext 0 :: rest))[u]? = some (Task.iterNext i :: r) := hu
            rw [get_set_other hut] at hu'
            exact List.mem_cons_of_mem _ (inv.iterConv u i r hu')
        restActs := restActs_step inv hth rfl (Or.inr ⟨_, rfl⟩)
        outsOK := inv.outsOK }
  | iterNext i =>
    have hh : heldOf s t ≠ .free ∧ h' = heldOf s t := by
      cases hh : heldOf s t <;> simp [Held.afterT, hh] at haft <;>
        (subst haft; exact ⟨by decide, rfl⟩)
    obtain ⟨hne, rfl⟩ := hh
    have hin : t ∈ s.iterating := inv.iterConv t i rest hth
    obtain ⟨i', r', h1, hacc, hbeg⟩ := inv.iterHead t hin
    rw [hth] at h1; injection h1 with h1; injection h1 with h1 h1r; injection h1 with h1; subst h1
    simp only [stepTask] at hs
    cases hmi : s.m[i]? with
    | some e =>
      rw [hmi] at hs; injection hs with hs; subst hs
      have hself : wlT (heldOf s t) (.iterNext (i + 1) :: rest) = true := by
        simp only [wlT]
        cases hh : heldOf s t with
        | free => exact absurd hh hne
        | r => simp only [Held.afterT]; rw [hh] at hwl; exact hwl
        | w => simp only [Held.afterT]; rw [hh] at hwl; exact hwl
      exact {
        heapInv := inv.heapInv.frame rfl rfl rfl rfl rfl
        excl := inv.excl
        rnodup := inv.rnodup
        inodup := inv.inodup
        wlAll := wlAll_step inv hth rfl (fun u _ => heldOf_congr rfl rfl u)
                   (by change wlT (heldOf s t) _ = true; exact hself)
        clean := ⟨by simp [inv.clean.1, canRead_of_held hne], inv.clean.2⟩
        iterHead := by
          intro u hu
          by_cases hut : u = t
          · subst hut
            refine ⟨i + 1, rest, get_set_self hth, ?_, hbeg⟩
            show updF s.acc u (s.acc u ++ [e.2]) u = _
            simp only [updF, if_true, hacc, List.take_add_one, hmi, List.map_append]
            rfl
          · obtain ⟨j, r, g1, g2, g3⟩ := inv.iterHead u hu
            refine ⟨j, r, ?_, ?_, g3⟩
            · show (s.threads.set t _)[u]? = _
              rw [get_set_other hut]; exact g1
            · show updF s.acc t _ u = _
              simp only [updF, hut, if_false]; exact g2
        iterConv := by
          intro u j r hu
          by_cases hut : u = t
          · subst hut; exact hin
          · have hu' : (s.threads.set t (Task.iterNext (i + 1) :: rest))[u]? = some (Task.iterNext j :: r) := hu
            rw [get_set_other hut] at hu'
            exact inv.iterConv u j r hu'
        restActs := restActs_step inv hth rfl (Or.inr ⟨_, rfl⟩)
        outsOK := inv.outsOK }
    | none =>
      rw [hmi] at hs; injection hs with hs; subst hs
      have hlen : s.m.length ≤ i := List.getElem?_eq_none_iff.mp hmi
      exact {
        heapInv := heap_alloc inv.heapInv t (s.acc t) (s.began t)
        excl := inv.excl
        rnodup := inv.rnodup
        inodup := inv.inodup.erase t
        wlAll := wlAll_step inv hth rfl (fun u _ => heldOf_congr rfl rfl u)
                   (by change wlT (heldOf s t) _ = true; exact hwl)
        clean := ⟨by simp [inv.clean.1, canRead_of_held hne], inv.clean.2⟩
        iterHead := by
          intro u hu
          have hu' := (inv.inodup.mem_erase_iff).mp hu
          obtain ⟨j, r, g1, g2, g3⟩ := inv.iterHead u hu'.2
          refine ⟨j, r, ?_, g2, g3⟩
          show (s.threads.set t _)[u]? = _
          rw [get_set_other hu'.1]; exact g1
        iterConv := by
          intro u j r hu
          have hu0 : (s.threads.set t rest)[u]? = some (Task.iterNext j :: r) := hu
          by_cases hut : u = t
          · subst hut
            rw [get_set_self hth] at hu0
            injection hu0 with hu0
            have := inv.restActs u _ _ hth (.iterNext j) (by rw [hu0]; exact List.mem_cons_self ..)
            obtain ⟨a', ha'⟩ := this; cases ha'
          · rw [get_set_other hut] at hu0
            exact (inv.inodup.mem_erase_iff).mpr ⟨hut, inv.iterConv u j r hu0⟩
        restActs := restActs_step inv hth rfl (Or.inl rfl)
        outsOK := by
          intro o ho
          rcases List.mem_append.mp ho with ho | ho
          · exact inv.outsOK o ho
          · simp only [List.mem_singleton] at ho
            subst ho
            show s.acc t = (s.began t).vals
            rw [hacc, hbeg, List.take_of_length_le hlen]; rfl }

theorem step_inv {s s' : Sys} {t : Nat} (inv : Inv s) (hs : step s t = some s') : Inv s' := by
  unfold step at hs
  split at hs
  · rename_i task rest hth
    exact stepTask_inv inv hth hs
  · cases hs

theorem exec_inv {s s' : Sys} (sched : List Nat) (inv : Inv s) (hs : exec s sched = some s') : Inv s' := by
  induction sched generalizing s with
  | nil => simp only [exec] at hs; injection hs with hs; exact hs ▸ inv
  | cons t ts ih =>
    simp only [exec] at hs
    cases hst : step s t with
    | none => rw [hst] at hs; cases hs
    | some s1 => rw [hst] at hs; exact ih (step_inv inv hst) hs

theorem mkSys_inv (m0 : GMap) (progs : List (List Act)) (hwl : ∀ p ∈ progs, wellLocked p = true) :
    Inv (mkSys m0 progs) where
  heapInv := {
    handlesND := List.nodup_nil
    handlesLt := (by intro o ho; cases ho)
    mineOwn := (by intro t h hm; cases hm)
    content := (by intro o ho; cases ho)
    dirtyOwn := (by intro h hh; cases hh)
    cacheNone := rfl }
  excl := by intro h; rfl
  rnodup := List.nodup_nil
  inodup := List.nodup_nil
  wlAll := by
    intro t ts hts
    simp only [mkSys, List.getElem?_map] at hts
    cases hp : progs[t]? with
    | none => rw [hp] at hts; cases hts
    | some p =>
      rw [hp] at hts; injection hts with hts; subst hts
      have : heldOf (mkSys m0 progs) t = .free := by simp [heldOf, mkSys]
      rw [this, wlT_map_act]
      exact hwl p (List.mem_of_getElem? hp)
  clean := ⟨rfl, rfl⟩
  iterHead := by intro t ht; cases ht
  iterConv := by
    intro t i rest hts
    simp only [mkSys, List.getElem?_map] at hts
    cases hp : progs[t]? with
    | none => rw [hp] at hts; cases hts
    | some p =>
      rw [hp] at hts; injection hts with hts
      cases p with
      | nil => cases hts
      | cons a r => injection hts with h1 _; cases h1
  restActs := by
    intro t task rest hts x hx
    simp only [mkSys, List.getElem?_map] at hts
    cases hp : progs[t]? with
    | none => rw [hp] at hts; cases hts
    | some p =>
      rw [hp] at hts; injection hts with hts
      have hts' : p.map Task.act = task :: rest := hts
      have : x ∈ p.map Task.act := by rw [hts']; exact List.mem_cons_of_mem _ hx
      obtain ⟨a, _, ha⟩ := List.mem_map.mp this
      exact ⟨a, ha.symm⟩
  outsOK := by intro o ho; cases ho

end Gate.C12
