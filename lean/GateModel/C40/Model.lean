import GateModel.Base.Bytes
import GateModel.C09.Sha1
import GateModel.C10.Utf8
/-
C40 model.

* `javaCompatibleUsername(name)` (pkg/edition/bedrock/geyser/geyser.go):
      for _, r := range name {                      -- Go rune decoding, invalid bytes are U+FFFD
          if normalized.Len() == 16 { break }
          switch { case a-z, A-Z, 0-9, '_': WriteByte(byte(r));  default: WriteByte('_') }
      }
      if normalized.Len() == 0 { return "_" }
  It is applied in `onGameProfile` to `fmt.Sprintf(cfg.UsernameFormat, bedrockData.Username)` (or to the raw
  gamertag when the format is empty).  `Sprintf` is a PARAMETER here: the theorems quantify over every string
  that can reach the normaliser, hence over every gamertag and every format.

* `BedrockData.JavaUuid()` (floodgate/floodgate.go):
      sum := sha1("FloodgateXUID:" ‖ strconv.FormatInt(d.Xuid, 10))
      sum[6] = (sum[6] & 0x0f) | (5 << 4);  sum[8] = (sum[8] & 0x3f) | 0x80;  uuid.FromBytes(sum[:16])
-/
namespace Gate.C40
open Gate Gate.Hash Gate.Utf8

/-! ### profile name -/

def isNameRune (r : Nat) : Bool :=
  (97 ≤ r && r ≤ 122) || (65 ≤ r && r ≤ 90) || (48 ≤ r && r ≤ 57) || r == 95

/-- the byte written for one rune -/
def normRune (r : Nat) : UInt8 := if isNameRune r then UInt8.ofNat r else 95

/-- the `for range` loop with its `strings.Builder` as accumulator -/
def normLoop : List Nat → Bytes → Bytes
  | [], acc => acc
  | r :: rs, acc => if acc.length = 16 then acc else normLoop rs (acc ++ [normRune r])

def javaCompatibleUsername (name : Bytes) : Bytes :=
  let n := normLoop (decodeRunes name) []
  if n.length = 0 then [95] else n

/-- `onGameProfile`: `formattedName := Username; if format != "" { formattedName = fmt.Sprintf(format, Username) };
    formattedName = javaCompatibleUsername(formattedName)`.  `sprintf` is an ARBITRARY function (parameter). -/
def profileName (sprintf : Bytes → Bytes → Bytes) (format gamertag : Bytes) : Bytes :=
  javaCompatibleUsername (if format.isEmpty then gamertag else sprintf format gamertag)

/-- split a format with exactly one `%`, which starts the verb `%s`, into (prefix, suffix) -/
def cutVerb : Bytes → Option (Bytes × Bytes)
  | [] => none
  | 37 :: 115 :: r => if r.contains 37 then none else some ([], r)
  | 37 :: _ => none
  | b :: r => (cutVerb r).map fun (p, s) => (b :: p, s)

/-- `fmt.Sprintf(format, gamertag)` for the formats `prefix%ssuffix` without any other `%`
    (the class the documentation and the validation suggest); `none` outside that class -/
def simpleSprintf (format gamertag : Bytes) : Option Bytes :=
  (cutVerb format).map fun (p, s) => p ++ gamertag ++ s

/-! ### XUID → UUID -/

/-- ASCII bytes of a list of (ASCII) characters -/
def asciiBytes (cs : List Char) : Bytes := cs.map fun c => UInt8.ofNat c.toNat

/-- `strconv.FormatInt(x, 10)` -/
def formatInt (x : Int) : Bytes :=
  if x < 0 then 45 :: asciiBytes (Nat.toDigits 10 x.natAbs) else asciiBytes (Nat.toDigits 10 x.natAbs)

def xuidPrefix : Bytes := "FloodgateXUID:".toUTF8.toList

def xuidMessage (xuid : Int) : Bytes := xuidPrefix ++ formatInt xuid

/-- the two masking assignments on the 20-byte SHA-1 sum -/
def stampV5 (h : Bytes) : Bytes :=
  (h.modify 6 (fun (b : UInt8) => (b &&& 0x0f) ||| ((5 : UInt8) <<< (4 : UInt8)))).modify 8
    (fun (b : UInt8) => (b &&& 0x3f) ||| 0x80)

/-- `JavaUuid()`; only `d.Xuid` is read -/
def javaUuid (xuid : Int) : Bytes := (stampV5 (sha1 (xuidMessage xuid))).take 16

end Gate.C40
