import GateModel.Base.Bytes
/-
C40 reference: what a Java profile name must look like, RFC 4122 fields of a UUID.
-/
namespace Gate.C40
open Gate

def allowedByte (b : UInt8) : Bool :=
  (65 ≤ b.toNat && b.toNat ≤ 90) || (97 ≤ b.toNat && b.toNat ≤ 122) || (48 ≤ b.toNat && b.toNat ≤ 57) || b.toNat == 95

/-- 1 to 16 characters from A-Z a-z 0-9 `_` (all ASCII: characters = bytes) -/
def validJavaName (s : Bytes) : Prop := 1 ≤ s.length ∧ s.length ≤ 16 ∧ ∀ b ∈ s, allowedByte b = true

instance (s : Bytes) : Decidable (validJavaName s) := by unfold validJavaName; infer_instance

/-- RFC 4122: 16 bytes, version nibble = high nibble of byte 6, variant = top two bits of byte 8 = `10` -/
def isRfc4122 (version : UInt8) (u : Bytes) : Prop :=
  u.length = 16 ∧ (∃ b : UInt8, u[6]? = some b ∧ b >>> 4 = version) ∧ (∃ b : UInt8, u[8]? = some b ∧ b >>> 6 = 2)

/-- executable form for the driver -/
def isRfc4122b (version : UInt8) (u : Bytes) : Bool :=
  u.length == 16 && (u.getD 6 0 >>> 4 == version) && (u.getD 8 0 >>> 6 == 2)

end Gate.C40
