import GateModel.C40.Lemmas
import GateModel.Gen.C40
/-
C40 — Bedrock players get valid, stable Java identities.

Property theorems only.
  * `name_valid`             : for EVERY input string (every gamertag under every username format) the profile
                               name is 1..16 bytes, all from A-Z a-z 0-9 `_`;
  * `profile_name_valid`     : the same for the name `onGameProfile` builds, for ALL formats and gamertags with
                               `fmt.Sprintf` an arbitrary function; `profile_name_affix`: for `prefix%ssuffix` the
                               format's literals count against the 16 like the gamertag; `profile_name_deterministic`;
  * `name_shape`             : it is the first 16 runes mapped rune-wise (`_` for anything else), `_` if empty;
  * `name_stable`            : a name that is already a valid Java name is returned unchanged (idempotence follows);
  * `uuid_rfc4122`           : for every XUID: 16 bytes, version nibble 5, variant `10`;  `uuid_ne_nil`;
  * `uuid_deterministic`     : the UUID is a function of the XUID alone;
  * `uuid_injective_partial` : different XUIDs give different UUIDs — under the explicit hypothesis that SHA-1
                               restricted to the 122 retained bits is collision-free on the messages
                               "FloodgateXUID:" ++ decimal.  PARTIAL: the hypothesis is cryptographic.
                               What IS proved: decimal printing is injective (`decimal_injective`) and the stamp keeps
                               exactly the 122 free bits (`uuid_eq_iff_free_bits`).
  * `source_shape_*`         : regenerated call sequences / namespace literal.
-/
namespace Gate.C40.Props
open Gate Gate.Hash Gate.Utf8 Gate.C40

/-- the profile name is always a valid Java name -/
theorem name_valid (s : Bytes) : validJavaName (javaCompatibleUsername s) := by
  rw [javaCompatibleUsername_eq]
  split
  · exact ⟨by decide, by decide, by decide⟩
  · rename_i hne
    refine ⟨?_, ?_, ?_⟩
    · exact List.length_pos_iff.mpr hne
    · simp only [List.length_map, List.length_take]; omega
    · intro b hb
      obtain ⟨r, _, rfl⟩ := List.mem_map.mp hb
      exact normRune_allowed r

/-- the profile name built by `onGameProfile`, for EVERY username format and EVERY gamertag — whatever
    `fmt.Sprintf` returns for them (`sprintf` is universally quantified): 1..16 bytes from the allowed set -/
theorem profile_name_valid (sprintf : Bytes → Bytes → Bytes) (format gamertag : Bytes) :
    validJavaName (profileName sprintf format gamertag) := name_valid _

/-- for a format `prefix%ssuffix` the name is the first 16 runes of prefix ++ gamertag ++ suffix, normalised:
    literal characters of the format count against the 16 like the gamertag's do (no budget arithmetic) -/
theorem profile_name_affix (sprintf : Bytes → Bytes → Bytes) (pre suf tag : Bytes)
    (hs : sprintf (pre ++ [37, 115] ++ suf) tag = pre ++ tag ++ suf) :
    profileName sprintf (pre ++ [37, 115] ++ suf) tag = javaCompatibleUsername (pre ++ tag ++ suf) := by
  unfold profileName
  have : (pre ++ [37, 115] ++ suf).isEmpty = false := by
    cases pre <;> simp
  rw [this, hs]; rfl

/-- the same (format, gamertag) always yields the same name: no hidden state -/
theorem profile_name_deterministic (sprintf : Bytes → Bytes → Bytes) (f1 f2 t1 t2 : Bytes)
    (hf : f1 = f2) (ht : t1 = t2) : profileName sprintf f1 t1 = profileName sprintf f2 t2 := by rw [hf, ht]

/-- functional description: first 16 runes, each kept if allowed and replaced by `_` otherwise -/
theorem name_shape (s : Bytes) :
    javaCompatibleUsername s =
      (if ((decodeRunes s).take 16).map normRune = [] then [95] else ((decodeRunes s).take 16).map normRune) :=
  javaCompatibleUsername_eq s

/-- valid names pass through unchanged -/
theorem name_stable (s : Bytes) (h : validJavaName s) : javaCompatibleUsername s = s := by
  obtain ⟨h1, h2, h3⟩ := h
  rw [javaCompatibleUsername_eq, decodeRunes_ascii s (fun b hb => allowed_ascii b (h3 b hb))]
  have hm : ((s.map (·.toNat)).take 16).map normRune = s := by
    rw [List.take_of_length_le (by simpa using h2), List.map_map]
    calc s.map (normRune ∘ fun b => b.toNat) = s.map id :=
          List.map_congr_left (fun b hb => normRune_toNat b (h3 b hb))
      _ = s := List.map_id s
  rw [hm, if_neg (by intro h0; rw [h0] at h1; simp at h1)]

theorem name_idempotent (s : Bytes) :
    javaCompatibleUsername (javaCompatibleUsername s) = javaCompatibleUsername s :=
  name_stable _ (name_valid s)

/-- RFC 4122 fields, for every XUID -/
theorem uuid_rfc4122 (xuid : Int) : isRfc4122 5 (javaUuid xuid) := by
  unfold javaUuid isRfc4122
  have hlen := sha1_length (xuidMessage xuid)
  generalize sha1 (xuidMessage xuid) = h at hlen
  have h6 : 6 < h.length := by omega
  have h8 : 8 < h.length := by omega
  refine ⟨by simp [stampV5, hlen], ?_, ?_⟩
  · refine ⟨(h[6] &&& 0x0f) ||| ((5 : UInt8) <<< (4 : UInt8)), ?_, version5_bits h[6]⟩
    simp [stampV5, List.getElem?_eq_getElem h6]
  · refine ⟨(h[8] &&& 0x3f) ||| 0x80, ?_, variant_bits h[8]⟩
    simp [stampV5, List.getElem?_eq_getElem h8]

/-- hence never `uuid.Nil` (the `uid == uuid.Nil` disconnect in `onGameProfile` is dead for this reason) -/
theorem uuid_ne_nil (xuid : Int) : javaUuid xuid ≠ List.replicate 16 0 := by
  intro h
  obtain ⟨_, ⟨b, hb, hv⟩, _⟩ := uuid_rfc4122 xuid
  rw [h] at hb
  have : b = 0 := by
    have : (List.replicate 16 (0 : UInt8))[6]? = some 0 := by decide
    rw [this] at hb; exact (Option.some.inj hb).symm
  rw [this] at hv
  exact absurd hv (by decide)

/-- the same XUID always maps to the same UUID: `javaUuid` has no other input -/
theorem uuid_deterministic (x y : Int) (h : x = y) : javaUuid x = javaUuid y := by rw [h]

/-- `strconv.FormatInt(·, 10)` is injective (it has a left inverse) -/
theorem decimal_injective (x y : Int) (h : formatInt x = formatInt y) : x = y := formatInt_injective x y h

/-- two XUIDs share a UUID iff their hashes agree on the 122 retained bits -/
theorem uuid_eq_iff_free_bits (x y : Int) :
    javaUuid x = javaUuid y ↔ free122 (sha1 (xuidMessage x)) = free122 (sha1 (xuidMessage y)) := by
  constructor
  · intro h
    rw [← unstamp_stamp, ← unstamp_stamp]
    exact congrArg unstamp h
  · intro h
    -- the UUID is the free bits with the fixed version/variant fields set again
    have restamp : ∀ hh : Bytes, (stampV5 hh).take 16 = stampV5 (free122 hh) := by
      intro hh
      unfold stampV5 free122
      rw [take_modify, take_modify]
      have e1 : ∀ (l : Bytes) (f g : UInt8 → UInt8), (l.modify 8 f).modify 6 g = (l.modify 6 g).modify 8 f :=
        fun l f g => List.modify_modify_ne f g l (by decide)
      rw [e1, List.modify_modify_eq, List.modify_modify_eq]
      congr 2
      · funext b; revert b; apply forall_uint8; decide +kernel
      · funext b; revert b; apply forall_uint8; decide +kernel
    unfold javaUuid
    rw [restamp, restamp, h]

/-- PARTIAL (cryptographic hypothesis): different XUIDs map to different UUIDs -/
theorem uuid_injective_partial
    (noCollision : ∀ x y : Int, free122 (sha1 (xuidMessage x)) = free122 (sha1 (xuidMessage y)) →
      xuidMessage x = xuidMessage y)
    (x y : Int) (h : javaUuid x = javaUuid y) : x = y :=
  xuidMessage_injective x y (noCollision x y ((uuid_eq_iff_free_bits x y).mp h))

/-! ### regenerated source shape -/

theorem source_shape_profile :
    (Gate.Gen.C40.onGameProfileCalls.filter
      (fun c => c == "bedrockData.JavaUuid" || c == "fmt.Sprintf" || c == "javaCompatibleUsername" || c == "e.SetGameProfile"))
      = ["bedrockData.JavaUuid", "fmt.Sprintf", "javaCompatibleUsername", "e.SetGameProfile"] := by decide

theorem source_shape_uuid :
    (Gate.Gen.C40.javaUuidCalls.filter
      (fun c => !(c == "[]byte" || c == "len" || c == "fmt.Errorf" || c == "return")))
      = ["sha1.New", "h.Write", "strconv.FormatInt", "h.Write", "h.Sum", "uuid.FromBytes"]
    ∧ xuidPrefix = (Gate.Gen.C40.javaUuidLits.headD "").toUTF8.toList := by
  constructor <;> decide +kernel

/-! ### non-vacuity: the repository's own table, and satisfiable hypotheses -/
example : javaCompatibleUsername ".LLG icedRyan".toUTF8.toList = "_LLG_icedRyan".toUTF8.toList := by decide +kernel
example : javaCompatibleUsername ".玩家 One".toUTF8.toList = "____One".toUTF8.toList := by decide +kernel
example : javaCompatibleUsername ".abcdefghijklmnop".toUTF8.toList = "_abcdefghijklmno".toUTF8.toList := by decide +kernel
example : javaCompatibleUsername [] = [95] := by decide +kernel
example : validJavaName "Bedrock_Player".toUTF8.toList := by decide +kernel
example : profileName (fun f t => (simpleSprintf f t).getD t) "[Bedrock-Player]%s_BE".toUTF8.toList "Steve".toUTF8.toList
    = "_Bedrock_Player_".toUTF8.toList := by decide +kernel
example : simpleSprintf "[BE]%s!".toUTF8.toList "x X".toUTF8.toList = some "[BE]x X!".toUTF8.toList := by decide +kernel
example : toHex (javaUuid 2535432196048835) = "875d5dd151455874a7d539177814b2ac" := by decide +kernel
example : javaUuid 1 ≠ javaUuid 2 := by decide +kernel

end Gate.C40.Props
