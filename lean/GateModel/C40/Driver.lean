import GateModel.Base.Line
import GateModel.C40.Model
import GateModel.C40.Spec
import Std.Data.HashMap
/-
C40 driver.  Case lines:
  `norm <hex>\t<hex>`                          javaCompatibleUsername(name) (verif hook)
  `juuid <xuid>\t<uuidHex> <uuidHex>`          BedrockData{Xuid,…}.JavaUuid(), called twice on two different
                                               BedrockData values that share only the XUID (`err` on error)
  `bedrock <formatHex> <gamertagHex> <formattedHex> <xuid>\tok <uuidHex> <nameHex>`
        a real Bedrock login through the Geyser listener; `formatted` is fmt.Sprintf(format, gamertag) (or the
        gamertag for an empty format) — the Sprintf PARAMETER of the model, supplied by the harness.
Spec verdicts (on the implementation's output): the name is a valid Java name (1..16 of A-Z a-z 0-9 _); the UUID
has 16 bytes, version 5, variant 10, both calls agree, and — across the whole run — no two different XUIDs were given
the same UUID and the same (format, gamertag) was never given two different names (the driver remembers every UUID
and every name the implementation produced; a `reset` line clears the memory).  For formats `prefix%ssuffix` the
driver also recomputes `Sprintf` itself (`simpleSprintf`) and refuses a harness-supplied `formatted` that differs.
-/
namespace Gate.C40
open Gate Gate.Hash

def nameVerdict (h : String) : String :=
  match parseHex h with
  | some n => if decide (validJavaName n) then "ok" else "viol:invalid-java-name"
  | none => "viol:invalid-java-name"

def uuidVerdict (h : String) : String :=
  match parseHex h with
  | some u => if isRfc4122b 5 u then "ok" else "viol:uuid-not-rfc4122"
  | none => "viol:uuid-not-rfc4122"

def both (a b : String) : String := if a ≠ "ok" then a else b

structure Seen where
  uuids : Std.HashMap String Int := {}
  names : Std.HashMap String String := {}

/-- record `uuid ↦ xuid`; a second, different XUID for the same UUID is a collision -/
def noteUuid (seen : Seen) (u : String) (xuid : Int) : Seen × String :=
  match seen.uuids.get? u with
  | some y => if y = xuid then (seen, "ok") else (seen, "viol:uuid-collision")
  | none => ({ seen with uuids := seen.uuids.insert u xuid }, "ok")

/-- record `(format, gamertag) ↦ name`; a different name for the same pair is instability -/
def noteName (seen : Seen) (key name : String) : Seen × String :=
  match seen.names.get? key with
  | some n => if n = name then (seen, "ok") else (seen, "viol:name-unstable")
  | none => ({ seen with names := seen.names.insert key name }, "ok")

def step (seen : Seen) (c : Case) : Seen × String × String :=
  match c.op, c.args with
  | "reset", _ => (({} : Seen), "-", "-")
  | "norm", [h] =>
    match parseHex h with
    | some s => (seen, toHex (javaCompatibleUsername s), nameVerdict c.impl)
    | none => (seen, "bad-op", "-")
  | "juuid", [x] =>
    match x.toInt? with
    | some xuid =>
      let u := toHex (javaUuid xuid)
      match c.impl.splitOn " " with
      | [a, b] =>
        let (seen', coll) := noteUuid seen a xuid
        (seen', u ++ " " ++ u, if a ≠ b then "viol:uuid-unstable" else both (uuidVerdict a) coll)
      | _ => (seen, u ++ " " ++ u, "viol:uuid-not-rfc4122")
    | none => (seen, "bad-op", "-")
  | "bedrock", [fmtH, tagH, formatted, x] =>
    match parseHex fmtH, parseHex tagH, parseHex formatted, x.toInt? with
    | some fmt, some tag, some f, some xuid =>
      let sprintfOk := match simpleSprintf fmt tag with
        | some f' => f' == f
        | none => true
      let m := if sprintfOk then "ok " ++ toHex (javaUuid xuid) ++ " " ++ toHex (profileName (fun _ _ => f) fmt (if fmt.isEmpty then f else tag))
               else "sprintf-parameter-mismatch"
      match c.impl.splitOn " " with
      | ["ok", u, n] =>
        let (seen1, coll) := noteUuid seen u xuid
        let (seen2, stab) := noteName seen1 (fmtH ++ " " ++ tagH) n
        (seen2, m, both (both (both (uuidVerdict u) (nameVerdict n)) coll) stab)
      | _ => (seen, m, "viol:bedrock-login-failed")
    | _, _, _, _ => (seen, "bad-op", "-")
  | _, _ => (seen, "bad-op", "-")

end Gate.C40

def main : IO Unit := Gate.runDriver ({} : Gate.C40.Seen) Gate.C40.step
