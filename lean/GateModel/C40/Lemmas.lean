import GateModel.C40.Model
import GateModel.C40.Spec
/-
C40 helper lemmas: the normalising loop, decimal printing is injective, the UUID stamp keeps the
122 free bits.
-/
namespace Gate.C40
open Gate Gate.Hash Gate.Utf8

theorem forall_uint8 (P : UInt8 → Prop) (h : ∀ n, n < 256 → P (UInt8.ofNat n)) : ∀ b, P b := by
  intro b
  have := h b.toNat b.toNat_lt
  rwa [UInt8.ofNat_toNat] at this

/-! ### the loop -/

theorem ofNat_toNat_lt (r : Nat) (h : r < 256) : (UInt8.ofNat r).toNat = r := by
  simp [UInt8.toNat_ofNat']
  omega

theorem normRune_allowed (r : Nat) : allowedByte (normRune r) = true := by
  unfold normRune
  split
  · rename_i h
    simp only [isNameRune, Bool.or_eq_true, Bool.and_eq_true, decide_eq_true_eq, beq_iff_eq] at h
    have hr : r < 256 := by omega
    simp only [allowedByte, ofNat_toNat_lt r hr, Bool.or_eq_true, Bool.and_eq_true, decide_eq_true_eq, beq_iff_eq]
    omega
  · decide

theorem normRune_toNat (b : UInt8) (h : allowedByte b = true) : normRune b.toNat = b := by
  have hn : isNameRune b.toNat = true := by
    simp only [allowedByte, Bool.or_eq_true, Bool.and_eq_true, decide_eq_true_eq, beq_iff_eq] at h
    simp only [isNameRune, Bool.or_eq_true, Bool.and_eq_true, decide_eq_true_eq, beq_iff_eq]
    omega
  simp [normRune, hn]

theorem allowed_ascii (b : UInt8) (h : allowedByte b = true) : b.toNat < 128 := by
  simp only [allowedByte, Bool.or_eq_true, Bool.and_eq_true, decide_eq_true_eq, beq_iff_eq] at h
  omega

/-- closed form of the loop: append the images of the next `16 − len` runes -/
theorem normLoop_eq (rs : List Nat) (acc : Bytes) (h : acc.length ≤ 16) :
    normLoop rs acc = acc ++ (rs.take (16 - acc.length)).map normRune := by
  induction rs generalizing acc with
  | nil => simp [normLoop]
  | cons r t ih =>
    unfold normLoop
    split
    · rename_i h16
      simp [h16]
    · rename_i h16
      have hlt : acc.length < 16 := by omega
      rw [ih (acc ++ [normRune r]) (by simp; omega)]
      have : 16 - acc.length = (16 - (acc ++ [normRune r]).length) + 1 := by simp; omega
      rw [this, List.take_succ_cons]
      simp

theorem javaCompatibleUsername_eq (name : Bytes) :
    javaCompatibleUsername name =
      (if ((decodeRunes name).take 16).map normRune = [] then [95]
       else ((decodeRunes name).take 16).map normRune) := by
  unfold javaCompatibleUsername
  rw [normLoop_eq _ [] (by simp)]
  simp

/-! ### decimal printing -/

/-- `strconv.ParseInt`-style reader used only as a left inverse -/
def ofDigitBytes (bs : Bytes) (init : Nat) : Nat := bs.foldl (fun a b => 10 * a + (b.toNat - 48)) init

def parseInt : Bytes → Int
  | 45 :: r => - (ofDigitBytes r 0 : Int)
  | r => (ofDigitBytes r 0 : Int)

theorem digit_toNat (c : Char) (h : c.isDigit = true) : 48 ≤ c.toNat ∧ c.toNat ≤ 57 := by
  simp only [Char.isDigit, Bool.and_eq_true, decide_eq_true_eq] at h
  have h1 : (48 : UInt32) ≤ c.val := h.1
  have h2 : c.val ≤ (57 : UInt32) := h.2
  rw [UInt32.le_iff_toNat_le] at h1 h2
  exact ⟨h1, h2⟩

theorem ofDigitBytes_ascii (cs : List Char) (init : Nat) (h : ∀ c ∈ cs, c.isDigit = true) :
    ofDigitBytes (asciiBytes cs) init = Nat.ofDigitChars 10 cs init := by
  induction cs generalizing init with
  | nil => simp [ofDigitBytes, asciiBytes]
  | cons c t ih =>
    have hc := digit_toNat c (h c (List.mem_cons_self ..))
    have ht : ∀ x ∈ t, x.isDigit = true := fun x hx => h x (List.mem_cons_of_mem _ hx)
    rw [Nat.ofDigitChars_cons, ← ih _ ht]
    simp only [ofDigitBytes, asciiBytes, List.map_cons, List.foldl_cons]
    rw [ofNat_toNat_lt c.toNat (by omega)]
    rfl

theorem digits_roundtrip (n : Nat) : ofDigitBytes (asciiBytes (Nat.toDigits 10 n)) 0 = n := by
  rw [ofDigitBytes_ascii _ _ (fun c hc => Nat.isDigit_of_mem_toDigits (by decide) (by decide) hc)]
  exact Nat.ofDigitChars_ten_toDigits

theorem digits_head_ne_minus (n : Nat) :
    ∃ d r, asciiBytes (Nat.toDigits 10 n) = d :: r ∧ d ≠ 45 := by
  have hne : Nat.toDigits 10 n ≠ [] := Nat.toDigits_ne_nil
  match hd : Nat.toDigits 10 n with
  | [] => exact absurd hd hne
  | c :: t =>
    have hc := digit_toNat c (Nat.isDigit_of_mem_toDigits (b := 10) (n := n) (by decide) (by decide)
      (by rw [hd]; exact List.mem_cons_self ..))
    refine ⟨UInt8.ofNat c.toNat, asciiBytes t, by simp [asciiBytes], ?_⟩
    intro h
    have := congrArg UInt8.toNat h
    rw [ofNat_toNat_lt c.toNat (by omega)] at this
    have h45 : (45 : UInt8).toNat = 45 := rfl
    omega

theorem parseInt_formatInt (x : Int) : parseInt (formatInt x) = x := by
  unfold formatInt
  split
  · rename_i hneg
    simp only [parseInt, digits_roundtrip]
    omega
  · rename_i hnn
    obtain ⟨d, r, hdr, hd⟩ := digits_head_ne_minus x.natAbs
    have hrt := digits_roundtrip x.natAbs
    rw [hdr] at hrt ⊢
    have : parseInt (d :: r) = (ofDigitBytes (d :: r) 0 : Int) := by
      unfold parseInt
      split
      · rename_i heq
        simp only [List.cons.injEq] at heq
        exact absurd heq.1 hd
      · rfl
    rw [this, hrt]
    omega

theorem formatInt_injective (x y : Int) (h : formatInt x = formatInt y) : x = y := by
  rw [← parseInt_formatInt x, ← parseInt_formatInt y, h]

theorem xuidMessage_injective (x y : Int) (h : xuidMessage x = xuidMessage y) : x = y :=
  formatInt_injective x y (List.append_cancel_left h)

/-! ### the stamp -/

/-- the 122 bits of a hash that survive in the UUID: first 16 bytes, version nibble and variant bits cleared -/
def free122 (h : Bytes) : Bytes := ((h.take 16).modify 6 (· &&& 0x0f)).modify 8 (· &&& 0x3f)

/-- clear version and variant fields of a UUID -/
def unstamp (u : Bytes) : Bytes := (u.modify 6 (· &&& 0x0f)).modify 8 (· &&& 0x3f)

theorem take_modify {α} (l : List α) (i n : Nat) (f : α → α) :
    (l.modify i f).take n = (l.take n).modify i f := by
  apply List.ext_getElem?
  intro j
  simp only [List.getElem?_take, List.getElem?_modify]
  by_cases hj : j < n <;> simp [hj]

theorem unstamp6 : ((· &&& (0x0f : UInt8)) ∘ fun (b : UInt8) => (b &&& 0x0f) ||| ((5 : UInt8) <<< (4 : UInt8)))
    = (· &&& (0x0f : UInt8)) := by
  funext b
  revert b
  apply forall_uint8
  decide +kernel

theorem unstamp8 : ((· &&& (0x3f : UInt8)) ∘ fun (b : UInt8) => (b &&& 0x3f) ||| 0x80) = (· &&& (0x3f : UInt8)) := by
  funext b
  revert b
  apply forall_uint8
  decide +kernel

theorem unstamp_stamp (h : Bytes) : unstamp ((stampV5 h).take 16) = free122 h := by
  unfold unstamp stampV5 free122
  rw [take_modify, take_modify]
  have e1 : ∀ (l : Bytes) (f g : UInt8 → UInt8), (l.modify 8 f).modify 6 g = (l.modify 6 g).modify 8 f :=
    fun l f g => List.modify_modify_ne f g l (by decide)
  rw [e1, List.modify_modify_eq, List.modify_modify_eq, unstamp6, unstamp8]

theorem version5_bits : ∀ b : UInt8, ((b &&& 0x0f) ||| ((5 : UInt8) <<< (4 : UInt8))) >>> 4 = 5 := by
  apply forall_uint8; decide +kernel

theorem variant_bits : ∀ b : UInt8, ((b &&& 0x3f) ||| 0x80) >>> 6 = 2 := by
  apply forall_uint8; decide +kernel

end Gate.C40
