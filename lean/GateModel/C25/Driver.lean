import GateModel.Base.Line
import GateModel.C25.Model
/-
C25 driver.  Stateless; one case per plugin message:

  <site> <cls> <datahex> <rawhex> <allow> <edit> <wok>
    site  cp|cc|ci|bp|bc          handler (see Model.lean)
    cls   reg|unreg|known|other   channel class
    allow d|y|n                   subscribed handler: leave default / SetForward(true) / SetForward(false)
    edit  n|f|a                   subscribed handler edits Data() in place: nothing / flips the first byte / fills with 0xAA
    wok   1|0                     writes to the target connection succeed / fail

Output: `ev=<events> fw=<writes>`; events `R` (register), `U` (unregister), `P:<hex>` (plugin-message event,
Data() as first seen); writes `<k><side>:p:<cls>:<hex>` (WritePacket of a plugin.Message) or
`<k><side>:r:<hex>` (Write of a raw payload), side `b`ackend/`c`lient, k = `o` write succeeded / `x` failed.

Verdict = the property on the IMPLEMENTATION's output: a plugin-message event exposes exactly the body;
at most one per message; a forwarded registration raises exactly one register event (`…-outside-play`
when the site is not the PLAY handler), an unforwarded one none; what is forwarded after an event is a
plugin message with the event's data as the handler left it.
-/
namespace Gate.C25
open Gate

def parseSite : String → Option Site
  | "cp" => some .cp | "cc" => some .cc | "ci" => some .ci | "bp" => some .bp | "bc" => some .bc | _ => none
def parseCls : String → Option Cls
  | "reg" => some .register | "unreg" => some .unregister | "known" => some .known | "other" => some .unknown | _ => none
def Cls.show : Cls → String
  | .register => "reg" | .unregister => "unreg" | .known => "known" | .unknown => "other"
def parseAllow : String → Option Allow
  | "d" => some .dflt | "y" => some .yes | "n" => some .no | _ => none

def editFn : String → Bytes → Bytes
  | "f" => fun d => match d with | [] => [] | b :: r => (b ^^^ 255) :: r
  | "a" => fun d => d.map fun _ => 170
  | _ => id

def showEv : Ev → String
  | .reg => "R" | .unreg => "U" | .pm d => "P:" ++ toHex d
def showFw (ok toBackend : Bool) : Fw → String
  | .packet c d => (if ok then "o" else "x") ++ (if toBackend then "b" else "c") ++ ":p:" ++ c.show ++ ":" ++ toHex d
  | .raw d => (if ok then "o" else "x") ++ (if toBackend then "b" else "c") ++ ":r:" ++ toHex d

def showList (xs : List String) : String := if xs.isEmpty then "-" else ",".intercalate xs

def showOut (i : In) (o : List Ev × List Fw) : String :=
  "ev=" ++ showList (o.1.map showEv) ++ " fw=" ++ showList (o.2.map (showFw i.writeOK i.site.toBackend))

/-- implementation output parsed back: events, and writes as (ok, side, kind, cls, hex) -/
def parseImpl (s : String) : Option (List String × List (List String)) :=
  match s.splitOn " " with
  | [e, f] =>
    let ev := (e.drop 3).toString
    let fw := (f.drop 3).toString
    some (if ev = "-" then [] else ev.splitOn ",", if fw = "-" then [] else (fw.splitOn ",").map (·.splitOn ":"))
  | _ => none

def judge (i : In) (edit : Bytes → Bytes) (impl : String) : String :=
  match parseImpl impl with
  | none => "viol:unparsable"
  | some (evs, fws) =>
    let pms := evs.filter (·.startsWith "P:")
    let regs := evs.filter (· == "R")
    let okFws := fws.filter fun f => match f with | k :: _ => k.startsWith "o" | _ => false
    let isFwd := !okFws.isEmpty
    if pms.any (fun p => p != "P:" ++ toHex i.data) then "viol:event-not-body"
    else if pms.length > 1 then "viol:duplicate-event"
    else if i.cls != .register && !regs.isEmpty then "viol:spurious-register-event"
    else if i.cls == .register && i.site.toBackend && isFwd && regs.length != 1 then
      (if i.site == .cp then "viol:register-event-missing" else "viol:register-no-event-outside-play")
    else if i.cls == .register && !isFwd && !regs.isEmpty then "viol:register-event-without-forward"
    else if !pms.isEmpty && okFws.any (fun f => match f with
        | [_, "p", _, hx] => hx != toHex (edit i.data)
        | _ => true) then "viol:forwarded-not-event-data"
    else "ok"

/-! `hist <site> <allow> <edit> <hex>,<hex>,…` — a history of messages on the proxy-registered channel through
the same handler; every subscriber keeps its `Data()` slice and is released only after ALL messages were
handled.  Output `ev=P:<first>/<late>,… fw=<sorted writes>`: per event the body at first sight and again
after the whole history was handled (before its own edit). -/

def insertS (x : String) : List String → List String
  | [] => [x]
  | y :: ys => if x ≤ y then x :: y :: ys else y :: insertS x ys
def sortS (l : List String) : List String := l.foldr insertS []

def histStep (site : Site) (allow : Allow) (edit : Bytes → Bytes) (bodies : List Bytes) (impl : String) : String × String :=
  let st := allocFresh [] bodies
  let evs := (List.range bodies.length).map fun k =>
    "P:" ++ toHex (bodies.getD k []) ++ "/" ++ toHex ((lateView st k).getD [])
  let outs := bodies.map fun b => handle edit ⟨site, .known, b, [], allow, true⟩
  let fws := sortS (outs.flatMap fun o => o.2.map (showFw true site.toBackend))
  let model := "ev=" ++ showList evs ++ " fw=" ++ showList fws
  let verdict := match parseImpl impl with
    | none => "viol:unparsable"
    | some (ievs, ifws) =>
      if ievs.length ≠ bodies.length then "viol:event-count"
      else if (ievs.zip bodies).any (fun (e, b) => !(e.startsWith ("P:" ++ toHex b ++ "/"))) then "viol:event-not-body"
      else if (ievs.zip bodies).any (fun (e, b) => e != "P:" ++ toHex b ++ "/" ++ toHex b) then "viol:event-data-overwritten"
      else if sortS (ifws.map (":".intercalate ·)) != fws then "viol:forwarded-not-event-data"
      else "ok"
  (model, verdict)

def step (c : Case) : String × String :=
  if c.op = "hist" then
    match c.args with
    | [site, al, ed, hs] =>
      (match parseSite site, parseAllow al, (hs.splitOn ",").mapM parseHex with
       | some site, some allow, some bodies => histStep site allow (editFn ed) bodies c.impl
       | _, _, _ => ("bad-op", "-"))
    | _ => ("bad-op", "-")
  else
  match c.args with
  | [cls, dh, rh, al, ed, wok] =>
    (match parseSite c.op, parseCls cls, parseHex dh, parseHex rh, parseAllow al with
     | some site, some cls, some data, some raw, some allow =>
       let i : In := ⟨site, cls, data, raw, allow, wok = "1"⟩
       let edit := editFn ed
       (showOut i (handle edit i), judge i edit c.impl)
     | _, _, _, _, _ => ("bad-op", "-"))
  | _ => ("bad-op", "-")

end Gate.C25

def main : IO Unit := Gate.runPureDriver Gate.C25.step
