import GateModel.C25.Lemmas
/-
C25 — Plugin channel events fire for forwarded messages with the real message body.

Property theorems only.  `handle edit i` is what the handler of site `i.site` does with ONE plugin
message, for every channel class, every body `i.data`, every raw payload `i.raw`, every in-place edit
`edit` a subscribed handler performs on `Data()`, every SetForward choice and either outcome of the write
(see Model.lean).  Everything is universally quantified; the proofs are finite case splits over site ×
class × allow × writeOK with the byte strings and `edit` arbitrary.
-/
namespace Gate.C25.Props
open Gate Gate.C25

/-! ### channel registrations (client, PLAY) -/

/-- A register message is always passed on unchanged, and it raises exactly one channel-register event
    if that forward succeeded and none if it did not. -/
theorem register_event_iff_forwarded (edit : Bytes → Bytes) (i : In) (hs : i.site = .cp) (hc : i.cls = .register) :
    (handle edit i).2 = [.packet .register i.data] ∧
    (handle edit i).1.count .reg = (if forwarded i (handle edit i) then 1 else 0) ∧
    (handle edit i).1.count .unreg = 0 := by
  obtain ⟨site, cls, data, raw, allow, ok⟩ := i
  simp only at hs hc; subst hs hc
  cases ok <;> simp [handle, forwarded]

/-- No other message class raises a register event at any site. -/
theorem only_register_raises_register_event (edit : Bytes → Bytes) (i : In) (h : i.cls ≠ .register) :
    Ev.reg ∉ (handle edit i).1 := by
  obtain ⟨site, cls, data, raw, allow, ok⟩ := i
  cases site <;> cases cls <;> simp_all [handle, eventPath]

/-- Unregister: exactly one unregister event, message passed on unchanged. -/
theorem unregister_event_once (edit : Bytes → Bytes) (i : In) (hs : i.site = .cp) (hc : i.cls = .unregister) :
    handle edit i = ([.unreg], [.packet .unregister i.data]) := by
  obtain ⟨site, cls, data, raw, allow, ok⟩ := i
  simp only at hs hc; subst hs hc; rfl

/-! ### plugin-message events: body, and what is forwarded -/

/-- Every plugin-message event, at every site (either direction, PLAY / CONFIG / initial connect),
    exposes exactly the plugin message's body. -/
theorem event_body_is_message_body (edit : Bytes → Bytes) (i : In) (d : Bytes)
    (h : Ev.pm d ∈ (handle edit i).1) : d = i.data := by
  obtain ⟨site, cls, data, raw, allow, ok⟩ := i
  cases site <;> cases cls <;> simp_all [handle, eventPath] <;> (split at h <;> simp_all)

/-- A message on a channel known to the proxy raises exactly one plugin-message event; other
    classes raise none. -/
theorem one_event_per_known_message (edit : Bytes → Bytes) (i : In) :
    (handle edit i).1.count (.pm i.data) = (if i.cls = .known then 1 else 0) := by
  obtain ⟨site, cls, data, raw, allow, ok⟩ := i
  cases site <;> cases cls <;> simp [handle, eventPath] <;> (split <;> simp)

/-- The data a handler sees is the data forwarded: on the event path the only thing ever written is a
    plugin message on the same channel whose body is the event's data as the handlers left it. -/
theorem forwarded_is_event_data (edit : Bytes → Bytes) (i : In) (h : i.cls = .known) :
    (handle edit i).2 = [] ∨ (handle edit i).2 = [.packet .known (edit i.data)] := by
  rw [handle_known edit i h]; unfold eventPath
  split
  · exact .inr rfl
  · exact .inl rfl

/-- … and it is written exactly when the event allows forwarding (site default, or the handler's SetForward). -/
theorem forwarded_iff_allowed (edit : Bytes → Bytes) (i : In) (h : i.cls = .known) :
    (handle edit i).2 ≠ [] ↔ i.allow.result i.site.forwardDefault = true := by
  rw [handle_known edit i h]; unfold eventPath
  split <;> simp_all

/-- Messages that do not go through an event are passed on untouched (the decoded message towards the
    backend, the raw payload towards the client). -/
theorem non_event_messages_pass_unchanged (edit : Bytes → Bytes) (i : In) (h : i.cls ≠ .known) :
    (handle edit i).2 = (if i.site.toBackend then [.packet i.cls i.data] else [.raw i.raw]) := by
  obtain ⟨site, cls, data, raw, allow, ok⟩ := i
  cases site <;> cases cls <;> simp_all [handle, Site.toBackend]

/-! ### histories of several messages: every event owns its body -/

/-- Event `k` of any history exposes its own message body, also when its subscriber looks after all
    later messages were handled. -/
theorem event_keeps_its_own_body (bodies : List Bytes) (k : Nat) :
    lateView (allocFresh [] bodies) k = bodies[k]? := by
  rw [allocFresh_eq]; simp [lateView]

/-- Later messages never change what an earlier event exposes. -/
theorem later_messages_never_change_earlier_event (bodies more : List Bytes) (k : Nat) (hk : k < bodies.length) :
    lateView (allocFresh [] (bodies ++ more)) k = lateView (allocFresh [] bodies) k := by
  rw [allocFresh_eq, allocFresh_eq]
  simp only [lateView, List.nil_append]
  rw [List.getElem?_append_left hk]

/-- With one reused scratch buffer this fails: the first event ends up exposing the second body. -/
theorem shared_scratch_buffer_fails :
    lateViewScratch (allocScratch ([], []) [[65, 65, 65], [66, 66, 66]]) 0 = some [66, 66, 66] := by decide

/-! ### the defects repaired by fixes/C25-*.diff, as kernel-checked witnesses on the pre-fix variant -/

/-- pre-fix: a successfully forwarded registration raised NO event … -/
theorem register_event_fails_for_defective_variant :
    handleDefective id ⟨.cp, .register, [97, 58, 98], [], .dflt, true⟩ = ([], [.packet .register [97, 58, 98]]) := by
  rfl
/-- … and a registration whose forward failed raised one. -/
theorem register_event_on_failed_write_for_defective_variant :
    (handleDefective id ⟨.cp, .register, [97, 58, 98], [], .dflt, false⟩).1 = [.reg] := by rfl
/-- pre-fix: the backend CONFIG handler's event exposed the raw packet payload, and what was forwarded
    was the raw payload, not what the handler saw/edited -/
theorem event_body_fails_for_defective_variant :
    handleDefective (fun _ => [0]) ⟨.bc, .known, [1, 2], [238, 238], .yes, true⟩ = ([.pm [238, 238]], [.raw [238, 238]]) := by
  rfl

/-! ### what still fails on the repaired tree (known finding)

Full-strength claim "every channel registration a client sends that the proxy forwards raises exactly one
register event" holds only in PLAY: the CONFIG and initial-connect client handlers pass a
`minecraft:register` message on like any other channel and raise no event. -/
theorem register_event_config_fails :
    ¬ (∀ (edit : Bytes → Bytes) (i : In), i.site.toBackend = true → i.cls = .register →
        forwarded i (handle edit i) = true → (handle edit i).1.count .reg = 1) := by
  intro h
  have := h id ⟨.cc, .register, [97, 58, 98], [], .dflt, true⟩ rfl rfl rfl
  revert this; decide
theorem register_event_initial_connect_fails :
    (handle id ⟨.ci, .register, [97, 58, 98], [], .dflt, true⟩) = ([], [.packet .register [97, 58, 98]]) := by rfl
/-- the part that holds: in PLAY -/
theorem register_event_partial (edit : Bytes → Bytes) (i : In) (hs : i.site = .cp) (hc : i.cls = .register)
    (hf : forwarded i (handle edit i) = true) : (handle edit i).1.count .reg = 1 := by
  have := (register_event_iff_forwarded edit i hs hc).2.1
  rw [hf] at this; simpa using this

/-! ### tie to the source (regenerated by tools/gofacts on every run) -/

open Gate.Gen.C25 in
/-- which events each handler can construct: only the client PLAY handler knows register/unregister
    events; all five construct PluginMessageEvent and a fresh plugin.Message for the event path;
    the transition handler constructs none -/
theorem src_event_sites :
    "PlayerChannelRegisterEvent" ∈ clientPlayLits ∧ "PlayerChannelUnregisterEvent" ∈ clientPlayLits ∧
    "PlayerChannelRegisterEvent" ∉ clientConfigLits ∧ "PlayerChannelRegisterEvent" ∉ clientInitialLits ∧
    (∀ l ∈ [clientPlayLits, clientConfigLits, clientInitialLits, backendPlayLits, backendConfigLits],
      "PluginMessageEvent" ∈ l ∧ "plugin.Message" ∈ l) ∧
    backendTransitionLits = [] := by decide

open Gate.Gen.C25 in
/-- every handler dispatches `*plugin.Message`; in the client PLAY handler the register branch writes
    before it fires; the backend CONFIG handler copies the body (`make`/`copy`) before firing and reads
    `pme.Data()` before forwarding; its forwardToPlayer has the WritePacket and the raw Write paths -/
theorem src_dispatch_and_order :
    "*plugin.Message" ∈ clientPlayCases ∧ "*plugin.Message" ∈ clientConfigCases ∧
    "*plugin.Message" ∈ clientInitialCases ∧ "*plugin.Message" ∈ backendPlayCases ∧
    "*plugin.Message" ∈ backendConfigCases ∧
    clientPlayCalls.idxOf "backendConn.WritePacket" < clientPlayCalls.idxOf "c.proxy().event.Fire" ∧
    clientPlayCalls.idxOf "c.proxy().event.Fire" < clientPlayCalls.idxOf "plugin.IsUnregister" ∧
    backendConfigCalls.idxOf "copy" < backendConfigCalls.idxOf "event.FireParallel" ∧
    "copy" ∈ backendConfigCalls ∧
    (∀ l ∈ [clientPlayCalls, clientInitialCalls, backendPlayCalls, backendConfigCalls],
      l.idxOf "make" < l.idxOf "copy" ∧ l.idxOf "copy" < l.idxOf "event.FireParallel" ∧
      l.idxOf "event.FireParallel" < l.length ∧ !l.contains "append") ∧
    backendConfigCalls.idxOf "func:{" < backendConfigCalls.idxOf "pme.Data" ∧ "pme.Data" ∈ backendConfigCalls ∧
    backendConfigForwardCalls = ["b.serverConn.player.WritePacket", "return", "b.serverConn.player.Write"] := by
  decide

/-! ### non-vacuity -/
example : forwarded ⟨.cp, .register, [1], [], .dflt, true⟩ (handle id ⟨.cp, .register, [1], [], .dflt, true⟩) = true := rfl
example : handle (fun d => d.map (· + 1)) ⟨.bc, .known, [1, 2], [9], .yes, true⟩ = ([.pm [1, 2]], [.packet .known [2, 3]]) := rfl
example : handle id ⟨.cc, .known, [1, 2], [9], .dflt, true⟩ = ([.pm [1, 2]], []) := rfl

end Gate.C25.Props
