import GateModel.C25.Model
/- C25 helper lemmas (the model is a finite case split; little is needed). -/
namespace Gate.C25

theorem handle_known (edit : Bytes → Bytes) (i : In) (h : i.cls = .known) : handle edit i = eventPath edit i := by
  unfold handle; rw [h]

theorem handle_events_not_known (edit : Bytes → Bytes) (i : In) (h : i.cls ≠ .known) (d : Bytes) :
    Ev.pm d ∉ (handle edit i).1 := by
  unfold handle
  cases hs : i.site <;> cases hc : i.cls <;> simp_all <;> (split <;> simp)

theorem allocFresh_eq : ∀ (bs : List Bytes) (st : Store), allocFresh st bs = st ++ bs
  | [], st => by simp [allocFresh]
  | b :: bs, st => by rw [allocFresh, allocFresh_eq bs]; simp

end Gate.C25
