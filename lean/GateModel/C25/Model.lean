import GateModel.Base.Bytes
import GateModel.Gen.C25
/-
C25 — model of what the five session handlers of pkg/edition/java/proxy do with one plugin message:

  cp  clientPlaySessionHandler.handlePluginMessage        client → backend, PLAY
  cc  clientConfigSessionHandler.handlePluginMessage      client → backend, CONFIG (backend ready, C24)
  ci  initialConnectSessionHandler.handlePluginMessage    client → backend, before the first join (< 1.20.2)
  bp  backendPlaySessionHandler.handlePluginMessage       backend → client, PLAY
  bc  backendConfigSessionHandler.handlePluginMessage     backend → client, CONFIG

as a function from the message (channel class, body `data`, raw packet payload `raw` as carried by the
PacketContext), the behaviour of the subscribed event handler (`edit`: what it does to `Data()` in place;
`allow`: whether it calls SetForward) and whether writes to the target connection succeed, to the list
of fired events and the list of things written to the other side.

`handle` mirrors the REPAIRED code (fixes/C25-*.diff); `handleDefective` keeps what the code did before.
Brand and BungeeCord channels, legacy-Forge phase handling, and the "no connected server / backend not
in PLAY / connection inactive" early exits are not part of this model (the harness keeps a connected,
active backend in PLAY with vanilla phases).
-/
namespace Gate.C25

inductive Site where
  | cp | cc | ci | bp | bc
  deriving DecidableEq, Repr

/-- channel class: the register / unregister channels, a channel registered with the proxy's
    ChannelRegistrar (`known`), any other channel -/
inductive Cls where
  | register | unregister | known | unknown
  deriving DecidableEq, Repr

/-- what the subscribed PluginMessageEvent handler does about forwarding -/
inductive Allow where
  | dflt | yes | no
  deriving DecidableEq, Repr

structure In where
  site : Site
  cls : Cls
  data : Bytes
  raw : Bytes
  allow : Allow
  writeOK : Bool
  deriving Repr

inductive Ev where
  | reg                  -- PlayerChannelRegisterEvent
  | unreg                -- PlayerChannelUnregisterEvent
  | pm (data : Bytes)    -- PluginMessageEvent; `data` = Data() as handed to the first subscriber
  deriving DecidableEq, Repr

inductive Fw where
  | packet (cls : Cls) (data : Bytes)   -- WritePacket(&plugin.Message{Channel, Data})
  | raw (bytes : Bytes)                 -- Write(pc.Payload)
  deriving DecidableEq, Repr

def Allow.result (dflt : Bool) : Allow → Bool
  | .dflt => dflt
  | .yes => true
  | .no => false

/-- `forward` as initialised at each site -/
def Site.forwardDefault : Site → Bool
  | .cp | .ci | .bp => true
  | .cc | .bc => false

def Site.toBackend : Site → Bool
  | .cp | .cc | .ci => true
  | .bp | .bc => false

/-- the event path shared by all sites for a `known` channel: fire with the body, then forward what the
    handlers left in `Data()` if allowed -/
def eventPath (edit : Bytes → Bytes) (i : In) : List Ev × List Fw :=
  ([.pm i.data], if i.allow.result i.site.forwardDefault then [.packet .known (edit i.data)] else [])

def handle (edit : Bytes → Bytes) (i : In) : List Ev × List Fw :=
  match i.site, i.cls with
  | _, .known => eventPath edit i
  -- client PLAY: register fires exactly when the forward succeeded; unregister always fires
  | .cp, .register => (if i.writeOK then [.reg] else [], [.packet .register i.data])
  | .cp, .unregister => ([.unreg], [.packet .unregister i.data])
  | .cp, .unknown => ([], [.packet .unknown i.data])
  -- client CONFIG / initial connect: everything else is written through unchanged, no event
  | .cc, c => ([], [.packet c i.data])
  | .ci, c => ([], [.packet c i.data])
  -- backend handlers: everything else is forwarded as the raw payload
  | .bp, _ => ([], [.raw i.raw])
  | .bc, _ => ([], [.raw i.raw])

/-- the code before the fixes: register event fired only when the write FAILED; backend CONFIG event
    carried the raw payload and forwarded the raw payload whatever the handlers did -/
def handleDefective (edit : Bytes → Bytes) (i : In) : List Ev × List Fw :=
  match i.site, i.cls with
  | .cp, .register => (if i.writeOK then [] else [.reg], [.packet .register i.data])
  | .bc, .known => ([.pm i.raw], if i.allow.result false then [.raw i.raw] else [])
  | _, _ => handle edit i

/-- a message counts as forwarded when something was written and the write succeeded -/
def forwarded (i : In) (out : List Ev × List Fw) : Bool := i.writeOK && !out.2.isEmpty

/-! ## histories: which memory an event's `Data()` points to

`Data()` returns a slice; a subscriber may keep it while the handler goes on reading packets (events are
dispatched with FireParallel).  `Store` is the memory of byte buffers; event `k` of a history points to
buffer `k`.  The code allocates a FRESH buffer per event (`make`+`copy` in cp/ci/bp/bc, the freshly
decoded packet's own slice in cc): `allocFresh`.  `allocScratch` is the defective alternative — one
reusable scratch buffer per handler (`append(buf[:0], body...)`), kept for the `_fails` witness. -/

abbrev Store := List Bytes

/-- handle the bodies of a history one after the other, a fresh buffer each -/
def allocFresh : Store → List Bytes → Store
  | st, [] => st
  | st, b :: bs => allocFresh (st ++ [b]) bs

/-- what event `k` exposes when its subscriber looks (again) after the whole history was handled -/
def lateView (st : Store) (k : Nat) : Option Bytes := st[k]?

/-- one shared scratch array: each new body overwrites its beginning; event `k` still sees its own
    length `lens[k]` of it -/
def allocScratch : (Bytes × List Nat) → List Bytes → (Bytes × List Nat)
  | acc, [] => acc
  | (arr, lens), b :: bs => allocScratch (b ++ arr.drop b.length, lens ++ [b.length]) bs

def lateViewScratch (acc : Bytes × List Nat) (k : Nat) : Option Bytes := acc.2[k]?.map fun n => acc.1.take n

end Gate.C25
