import GateModel.Base.Bytes
import GateModel.Gen.C29
/-
C29 — model of Lite route matching (pkg/edition/java/lite: match.go, util.go, forward.go:findRoute,
substituteBackendParams).  Core Lean only.

What Go does, and how it is mirrored here:

* `ClearVirtualHost` works on the raw bytes of the handshake's server address:
  `strings.Split(name, "\x00")[0]`, `strings.Split(…, "///")[0]`, `strings.Trim(…, ".")`
  → `clearVirtualHost` (polymorphic in the alphabet; used on `Bytes`).
* `getRegexp` lower-cases the pattern (`strings.ToLower`), builds a regular expression *text*
  (`regexp.QuoteMeta`, `ReplaceAll(…, "\\?", "(.)")`, anchors, `ReplaceAll(…, "\\*", "(.*?)")`), compiles it
  (cached) → `globToRegex`, `parseRx` (Go's regexp parser restricted to the class that can occur).
* `matchWithGroups` runs `FindStringSubmatch` on the lower-cased host → `rxMatch` (leftmost-first
  backtracking semantics: a lazy star tries the shortest text first).
  `strings.ToLower` is the parameter `lower : Bytes → Str` (it decodes UTF-8 with U+FFFD for invalid
  bytes and maps runes, so its result is a sequence of Unicode scalar values = `List Char`).
* `FindRouteWithGroups`: first route, first host pattern → `findRouteWithGroups`.
* `substituteBackendParams` → `substitute` (single pass, the repaired code) and
  `substituteDefective` (the sequential `ReplaceAll` from `$n` down to `$1` the code used before the fix).
* `findRoute` → `findRoute` (cleaned host, search, candidate list).

Variant switches (DESIGN §6.5): `dotAll` (`true` = repaired regex with `(?s)`; `false` = `.` does not
match a newline, the pre-fix behaviour) and `substitute` / `substituteDefective`.
-/
namespace Gate.C29
open Gate

abbrev Str := List Char
abbrev Groups := List Str

/-! ## polymorphic string helpers -/
section generic
variable {α : Type} [DecidableEq α]

/-- `strings.Split(s, sep)[0]` for a non-empty `sep`: the text before the first occurrence. -/
def beforeFirst (sep : List α) : List α → List α
  | [] => []
  | c :: t => if sep.isPrefixOf (c :: t) then [] else c :: beforeFirst sep t

/-- `strings.TrimLeft(s, d)` for a one-character cutset -/
def trimLeft (d : α) : List α → List α
  | [] => []
  | c :: t => if c = d then trimLeft d t else c :: t

/-- `strings.Trim(s, d)` for a one-character cutset -/
def trim (d : α) (s : List α) : List α := (trimLeft d (trimLeft d s).reverse).reverse

/-- `ClearVirtualHost` -/
def clearVirtualHost (forge tcp : List α) (dot : α) (s : List α) : List α :=
  trim dot (beforeFirst tcp (beforeFirst forge s))

/-- One left-to-right replacement pass with a prioritised list of (old, new) pairs: at each position
    the first listed pair whose `old` is a prefix of the remaining text is applied and the scan continues
    after it; inserted text is never rescanned.  The `Nat` counts characters still to be skipped
    (the rest of a matched `old`).  Models `strings.NewReplacer(pairs…).Replace` and, with one pair,
    `strings.ReplaceAll`, for non-empty `old` strings. -/
def scanReplace (pairs : List (List α × List α)) : Nat → List α → List α
  | _, [] => []
  | k + 1, _ :: t => scanReplace pairs k t
  | 0, c :: t =>
    match pairs.find? (fun p => p.1.isPrefixOf (c :: t)) with
    | some p => p.2 ++ scanReplace pairs (p.1.length - 1) t
    | none => c :: scanReplace pairs 0 t

/-- `strings.ReplaceAll(s, old, new)` (non-empty `old`) -/
def replaceAll (old new s : List α) : List α := scanReplace [(old, new)] 0 s

/-- decimal digits of `n` (fuel makes the recursion structural); `digit d` is the character of digit `d` -/
def decimalF (digit : Nat → α) : Nat → Nat → List α
  | 0, _ => []
  | f + 1, n => if n < 10 then [digit n] else decimalF digit f (n / 10) ++ [digit (n % 10)]
/-- `fmt.Sprintf("%d", n)` for a non-negative `n` -/
def decimal (digit : Nat → α) (n : Nat) : List α := decimalF digit (n + 1) n

/-- the parameter `$i` -/
def param (dollar : α) (digit : Nat → α) (i : Nat) : List α := dollar :: decimal digit i

/-- replacement pairs `($n, gₙ), …, ($1, g₁)`: highest index first -/
def paramPairsFrom (dollar : α) (digit : Nat → α) : Nat → List (List α) → List (List α × List α)
  | _, [] => []
  | i, g :: gs => paramPairsFrom dollar digit (i + 1) gs ++ [(param dollar digit i, g)]
def paramPairs (dollar : α) (digit : Nat → α) (groups : List (List α)) : List (List α × List α) :=
  paramPairsFrom dollar digit 1 groups

/-- `substituteBackendParams` as repaired: one pass, `$n … $1` in that priority. -/
def substitute (dollar : α) (digit : Nat → α) (groups : List (List α)) (template : List α) : List α :=
  if groups.isEmpty then template else scanReplace (paramPairs dollar digit groups) 0 template

/-- `substituteBackendParams` before the fix: `for i := n; i >= 1; i-- { result = ReplaceAll(result, "$i", groups[i-1]) }`;
    `paramPairs` lists the pairs in exactly that order. -/
def substituteDefective (dollar : α) (digit : Nat → α) (groups : List (List α)) (template : List α) : List α :=
  (paramPairs dollar digit groups).foldl (fun res p => replaceAll p.1 p.2 res) template

end generic

/-! ## glob → regular expression text (getRegexp's loader) -/

inductive Elem where
  | lit (c : Char)   -- a literal character
  | any              -- `(.)`   from `?`
  | star             -- `(.*?)` from `*`
  deriving DecidableEq, Repr

/-- the characters `regexp.QuoteMeta` escapes: ``\.+*?()|[]{}^$`` -/
def isMeta (c : Char) : Bool :=
  c = '\\' || c = '.' || c = '+' || c = '*' || c = '?' || c = '(' || c = ')' || c = '|' ||
  c = '[' || c = ']' || c = '{' || c = '}' || c = '^' || c = '$'

/-- `regexp.QuoteMeta` -/
def quoteMeta : Str → Str
  | [] => []
  | c :: t => if isMeta c then '\\' :: c :: quoteMeta t else c :: quoteMeta t

/-- the regex text: `dotAll = true` is the repaired code (`"(?s)^"` prefix), `false` the original (`"^"`). -/
def globToRegex (dotAll : Bool) (pattern : Str) : Str :=
  let q := quoteMeta pattern
  let r := (if dotAll then "(?s)^".toList else "^".toList) ++ replaceAll "\\?".toList "(.)".toList q ++ "$".toList
  replaceAll "\\*".toList "(.*?)".toList r

/-- Go's regexp parser on the class that can occur: body up to and including the final `$`.
    Anything outside the class is `none` (the model claims nothing about it). -/
def parseBody : Str → Option (List Elem)
  | [] => none
  | c :: t =>
    if c = '$' then (if t.isEmpty then some [] else none)
    else if c = '\\' then
      match t with
      | d :: t' => if isMeta d then (parseBody t').map (Elem.lit d :: ·) else none
      | [] => none
    else if c = '(' then
      match t with
      | '.' :: ')' :: t' => (parseBody t').map (Elem.any :: ·)
      | '.' :: '*' :: '?' :: ')' :: t' => (parseBody t').map (Elem.star :: ·)
      | _ => none
    else if isMeta c then none
    else (parseBody t).map (Elem.lit c :: ·)

/-- whole expression: optional `(?s)`, `^`, body, `$`.  Result: (dot matches newline?, elements). -/
def parseRx : Str → Option (Bool × List Elem)
  | '(' :: '?' :: 's' :: ')' :: '^' :: t => (parseBody t).map (fun es => (true, es))
  | '^' :: t => (parseBody t).map (fun es => (false, es))
  | _ => none

/-- the glob pattern's element sequence -/
def elems : Str → List Elem
  | [] => []
  | c :: t => (if c = '?' then Elem.any else if c = '*' then Elem.star else Elem.lit c) :: elems t

/-! ## matching: leftmost-first semantics of `^ e₁ … eₙ $` with capture groups -/

def consHead (c : Char) : Groups → Groups
  | g :: r => (c :: g) :: r
  | [] => [[c]]

/-- lazy star: try the continuation `k` on the whole rest first, then after consuming one more
    character that `.` accepts. -/
def starLoop (ok : Char → Bool) (k : Str → Option Groups) : Str → Option Groups
  | [] => (k []).map ([] :: ·)
  | c :: t =>
    match k (c :: t) with
    | some gs => some ([] :: gs)
    | none => if ok c then (starLoop ok k t).map (consHead c) else none

/-- `ok c` = "`.` matches `c`". -/
def rxMatch (ok : Char → Bool) : List Elem → Str → Option Groups
  | [], s => if s.isEmpty then some [] else none
  | .lit c :: p, s =>
    match s with
    | h :: t => if h = c then rxMatch ok p t else none
    | [] => none
  | .any :: p, s =>
    match s with
    | h :: t => if ok h then (rxMatch ok p t).map ([h] :: ·) else none
    | [] => none
  | .star :: p, s => starLoop ok (rxMatch ok p) s

/-- what `.` matches: everything with `(?s)`, everything but `\n` without -/
def dotOk (dotAll : Bool) (c : Char) : Bool := dotAll || c != '\n'

/-- the direct glob matcher (repaired semantics): lazy, leftmost -/
def globMatch (pattern host : Str) : Option Groups := rxMatch (fun _ => true) (elems pattern) host

/-- `matchWithGroups(s, pattern)`: lower both, build + compile the regex, `FindStringSubmatch`. -/
def matchWithGroups (lower : Bytes → Str) (dotAll : Bool) (s pattern : Bytes) : Option Groups :=
  match parseRx (globToRegex dotAll (lower pattern)) with
  | some (d, es) => rxMatch (dotOk d) es (lower s)
  | none => none

/-! ## routes -/

structure Route where
  hosts : List Bytes
  backends : List Bytes
  deriving DecidableEq, Repr

/-- inner loop of `FindRouteWithGroups`: first host pattern of one route that matches; index, pattern, groups -/
def findInHosts (m : Bytes → Option Groups) : Nat → List Bytes → Option (Nat × Bytes × Groups)
  | _, [] => none
  | j, p :: ps => match m p with
    | some gs => some (j, p, gs)
    | none => findInHosts m (j + 1) ps

/-- `FindRouteWithGroups`: (route index, host-pattern index, pattern, groups) of the first match -/
def findRouteFrom (m : Bytes → Option Groups) : Nat → List Route → Option (Nat × Nat × Bytes × Groups)
  | _, [] => none
  | i, r :: rs => match findInHosts m 0 r.hosts with
    | some (j, p, gs) => some (i, j, p, gs)
    | none => findRouteFrom m (i + 1) rs
def findRouteWithGroups (m : Bytes → Option Groups) (routes : List Route) := findRouteFrom m 0 routes

/-- bytes of an ASCII string constant (the separators are ASCII; `Props.src_separators` checks their values) -/
def asciiBytes (s : String) : Bytes := s.toList.map (fun c => UInt8.ofNat c.toNat)
def forgeSep : Bytes := asciiBytes Gate.Gen.C29.forgeSeparator
def tcpShieldSep : Bytes := asciiBytes Gate.Gen.C29.tcpShieldRealIPSeparator
def dotByte : UInt8 := 46
def dollarByte : UInt8 := 36
def digitByte (d : Nat) : UInt8 := UInt8.ofNat (48 + d)

/-- `ClearVirtualHost` on bytes -/
def clearHost (raw : Bytes) : Bytes := clearVirtualHost forgeSep tcpShieldSep dotByte raw

inductive RouteResult where
  | noRoute                                              -- error "no route configured": connection closed, nothing dialled
  | noBackend (route : Nat) (pattern : Bytes)            -- error "no backend configured for route"
  | candidates (route : Nat) (pattern : Bytes) (backends : List Bytes)
  deriving DecidableEq, Repr

/-- `findRoute` up to the candidate list (`tryBackends` before any strategy is applied).
    `enc` turns a captured group (runes of the lower-cased host) back into bytes (UTF-8). -/
def findRoute (lower : Bytes → Str) (enc : Str → Bytes) (dotAll : Bool)
    (subst : List Bytes → Bytes → Bytes) (routes : List Route) (rawHost : Bytes) : RouteResult :=
  let cleared := clearHost rawHost
  match findRouteWithGroups (fun p => matchWithGroups lower dotAll cleared p) routes with
  | none => .noRoute
  | some (i, _, p, gs) =>
    match routes[i]? with
    | none => .noRoute
    | some r =>
      if r.backends.isEmpty then .noBackend i p
      else .candidates i p (r.backends.map (subst (gs.map enc)))

/-- the addresses a connection can dial -/
def RouteResult.dialList : RouteResult → List Bytes
  | .candidates _ _ bs => bs
  | _ => []

def substituteBytes := substitute (α := UInt8) dollarByte digitByte
def substituteDefectiveBytes := substituteDefective (α := UInt8) dollarByte digitByte

/-! ## concrete `lower` / `enc` used by the driver (Go's `strings.ToLower` on the generator's alphabet) -/

/-- UTF-8 decoding as Go ranges over a string: an invalid byte yields U+FFFD and consumes one byte. -/
def decodeGoF : Nat → Bytes → Str
  | 0, _ => []
  | _, [] => []
  | f + 1, b0 :: t =>
    let bad := Char.ofNat 0xFFFD
    let n0 := b0.toNat
    let cont (b : UInt8) (lo hi : Nat) : Bool := lo ≤ b.toNat && b.toNat ≤ hi
    if n0 < 0x80 then Char.ofNat n0 :: decodeGoF f t
    else if n0 < 0xC2 then bad :: decodeGoF f t
    else if n0 < 0xE0 then
      match t with
      | b1 :: t1 => if cont b1 0x80 0xBF then Char.ofNat ((n0 - 0xC0) * 64 + (b1.toNat - 0x80)) :: decodeGoF f t1
                    else bad :: decodeGoF f t
      | _ => bad :: decodeGoF f t
    else if n0 < 0xF0 then
      let lo := if n0 = 0xE0 then 0xA0 else 0x80
      let hi := if n0 = 0xED then 0x9F else 0xBF
      match t with
      | b1 :: b2 :: t2 =>
        if cont b1 lo hi && cont b2 0x80 0xBF then
          Char.ofNat ((n0 - 0xE0) * 4096 + (b1.toNat - 0x80) * 64 + (b2.toNat - 0x80)) :: decodeGoF f t2
        else bad :: decodeGoF f t
      | _ => bad :: decodeGoF f t
    else if n0 < 0xF5 then
      let lo := if n0 = 0xF0 then 0x90 else 0x80
      let hi := if n0 = 0xF4 then 0x8F else 0xBF
      match t with
      | b1 :: b2 :: b3 :: t3 =>
        if cont b1 lo hi && cont b2 0x80 0xBF && cont b3 0x80 0xBF then
          Char.ofNat ((n0 - 0xF0) * 262144 + (b1.toNat - 0x80) * 4096 + (b2.toNat - 0x80) * 64 + (b3.toNat - 0x80))
            :: decodeGoF f t3
        else bad :: decodeGoF f t
      | _ => bad :: decodeGoF f t
    else bad :: decodeGoF f t
def decodeGo (bs : Bytes) : Str := decodeGoF bs.length bs

/-- simple lower-case mapping (Go `unicode.ToLower`, Unicode 15) for the ranges the generator uses:
    U+0080–U+017F, U+023A–U+023E, U+0386–U+03AB, U+0400–U+042F and a few specials. -/
def lowerTable : List (Nat × Nat) := [
(192,224),(193,225),(194,226),(195,227),(196,228),(197,229),(198,230),(199,231),(200,232),(201,233),
(202,234),(203,235),(204,236),(205,237),(206,238),(207,239),(208,240),(209,241),(210,242),(211,243),
(212,244),(213,245),(214,246),(216,248),(217,249),(218,250),(219,251),(220,252),(221,253),(222,254),
(256,257),(258,259),(260,261),(262,263),(264,265),(266,267),(268,269),(270,271),(272,273),(274,275),
(276,277),(278,279),(280,281),(282,283),(284,285),(286,287),(288,289),(290,291),(292,293),(294,295),
(296,297),(298,299),(300,301),(302,303),(304,105),(306,307),(308,309),(310,311),(313,314),(315,316),
(317,318),(319,320),(321,322),(323,324),(325,326),(327,328),(330,331),(332,333),(334,335),(336,337),
(338,339),(340,341),(342,343),(344,345),(346,347),(348,349),(350,351),(352,353),(354,355),(356,357),
(358,359),(360,361),(362,363),(364,365),(366,367),(368,369),(370,371),(372,373),(374,375),(376,255),
(377,378),(379,380),(381,382),(570,11365),(571,572),(573,410),(574,11366),(902,940),(904,941),(905,942),
(906,943),(908,972),(910,973),(911,974),(913,945),(914,946),(915,947),(916,948),(917,949),(918,950),
(919,951),(920,952),(921,953),(922,954),(923,955),(924,956),(925,957),(926,958),(927,959),(928,960),
(929,961),(931,963),(932,964),(933,965),(934,966),(935,967),(936,968),(937,969),(938,970),(939,971),
(1024,1104),(1025,1105),(1026,1106),(1027,1107),(1028,1108),(1029,1109),(1030,1110),(1031,1111),(1032,1112),(1033,1113),
(1034,1114),(1035,1115),(1036,1116),(1037,1117),(1038,1118),(1039,1119),(1040,1072),(1041,1073),(1042,1074),(1043,1075),
(1044,1076),(1045,1077),(1046,1078),(1047,1079),(1048,1080),(1049,1081),(1050,1082),(1051,1083),(1052,1084),(1053,1085),
(1054,1086),(1055,1087),(1056,1088),(1057,1089),(1058,1090),(1059,1091),(1060,1092),(1061,1093),(1062,1094),(1063,1095),
(1064,1096),(1065,1097),(1066,1098),(1067,1099),(1068,1100),(1069,1101),(1070,1102),(1071,1103),(7838,223),(8486,969),
(8490,107),(8491,229),(66560,66600),(66561,66601),(66562,66602),(66563,66603),(65313,65345),(65314,65346),(65315,65347)]

def goLowerRune (c : Char) : Char :=
  let n := c.toNat
  if n < 128 then (if 65 ≤ n && n ≤ 90 then Char.ofNat (n + 32) else c)
  else match lowerTable.find? (fun p => p.1 == n) with
    | some p => Char.ofNat p.2
    | none => c

/-- `strings.ToLower` -/
def goLower (bs : Bytes) : Str := (decodeGo bs).map goLowerRune

/-- UTF-8 encoding of a rune sequence -/
def utf8 (s : Str) : Bytes := (String.ofList s).toUTF8.toList

end Gate.C29
