import GateModel.Base.Line
import GateModel.C29.Model
import GateModel.C29.Spec
/-
C29 driver.  Case lines (all strings hex, `-` = empty string, `_` = empty list):
  m <host> <pattern>                 matchWithGroups + match           → `no b=0` | `ok <g,…> b=1`
  clr <raw>                          ClearVirtualHost                  → <hex>
  fr <host> <routes>                 FindRouteWithGroups               → `none` | `r=<i> p=<pattern> g=<g,…>`
  route <raw> <routes>               findRoute + candidate list        → `noroute` | `nobackend r= p=` | `cands r= p= <b,…>`
  sub <template> <groups>            substituteBackendParams           → <hex>
  subt <tok,…> <groups>              same, template given as tokens (l<hexbyte> | r<k>)
  fwd <raw> <pattern>                lite.Forward with one loopback backend → `dials=<n> closed=<0|1>`
routes: `;`-separated `hosts|backends`, each a `,`-separated hex list.
The model output is the REPAIRED model's.  The verdict is the reference semantics (Spec.lean) evaluated on the
implementation's output; signatures: newline-not-matched, glob-not-matched, glob-matched-wrongly, groups-wrong,
match-bool, not-first-match, resubstitution, expansion-wrong, dial-without-route, not-closed.
-/
namespace Gate.C29
open Gate

def parseList (s : String) : Option (List Bytes) :=
  if s = "_" then some [] else (s.splitOn ",").mapM parseHex

def showList (xs : List Bytes) : String :=
  if xs.isEmpty then "_" else ",".intercalate (xs.map toHex)

def parseRoutes (s : String) : Option (List Route) :=
  if s = "_" then some [] else
  (s.splitOn ";").mapM fun e => match e.splitOn "|" with
    | [h, b] => do pure ⟨← parseList h, ← parseList b⟩
    | _ => none

def parseToks (s : String) : Option (List Tok) :=
  (s.splitOn ",").mapM fun t =>
    match t.toList with
    | 'l' :: r => match parseHexChars r with
      | some [b] => some (Tok.lit b)
      | _ => none
    | 'r' :: r => (String.ofList r).toNat?.map Tok.ref
    | _ => none

def showGroups (gs : Groups) : String := showList (gs.map utf8)

/-- which variant of the model produces the model output: the repaired one (default), or — for diagnosis,
    `C29_VARIANT=defective` — the pre-fix behaviour (`.` rejects newline, sequential `$n` replacement). -/
structure Variant where
  dotAll : Bool := true
  subst : List Bytes → Bytes → Bytes := substituteBytes

def mwgV (v : Variant) (s p : Bytes) : Option Groups := matchWithGroups goLower v.dotAll s p
def mwg (s p : Bytes) : Option Groups := matchWithGroups goLower true s p

def accepts (host : Bytes) (p : Bytes) : Bool := globAccepts (elems (goLower p)) (goLower host)

/-- verdict for a `matched / groups` answer of the implementation -/
def judgeMatch (host pat : Bytes) (implMatched : Bool) (implGroups : Option (List Bytes)) : String :=
  let h := goLower host
  let es := elems (goLower pat)
  let acc := globAccepts es h
  if !implMatched then
    (if acc then (if h.contains '\n' then "viol:newline-not-matched" else "viol:glob-not-matched") else "ok")
  else if !acc then "viol:glob-matched-wrongly"
  else match implGroups with
    | some gs => if inst es (gs.map decodeGo) = some h then "ok" else "viol:groups-wrong"
    | none => "viol:groups-wrong"

def stepMatch (v : Variant) (c : Case) (host pat : Bytes) : String × String :=
  let model := match mwgV v host pat with
    | some gs => "ok " ++ showGroups gs ++ " b=1"
    | none => "no b=0"
  let verdict := match c.impl.splitOn " " with
    | ["no", b] => if b = "b=0" then judgeMatch host pat false none else "viol:match-bool"
    | ["ok", g, b] => if b = "b=1" then judgeMatch host pat true (parseList g) else "viol:match-bool"
    | _ => "viol:glob-not-matched"
  (model, verdict)

def kv (s key : String) : Option String :=
  if s.startsWith key then some ((s.drop key.length).toString) else none

def hasNewline (host : Bytes) : Bool := (goLower host).contains '\n'
def routeViol (host : Bytes) : String :=
  if hasNewline host then "viol:newline-not-matched" else "viol:not-first-match"

def stepFr (v : Variant) (c : Case) (host : Bytes) (routes : List Route) : String × String :=
  let res := findRouteWithGroups (mwgV v host) routes
  let model := match res with
    | some (i, _, p, gs) => "r=" ++ toString i ++ " p=" ++ toHex p ++ " g=" ++ showGroups gs
    | none => "none"
  let want := firstAccepted (accepts host) 0 routes
  let verdict := match c.impl.splitOn " ", want with
    | ["none"], none => "ok"
    | [r, p, _], some (i, j) =>
      (match kv r "r=", kv p "p=" with
       | some ri, some ph =>
         if ri.toNat? = some i ∧ (parseHex ph) = (routes[i]?.bind (·.hosts[j]?)) then "ok" else routeViol host
       | _, _ => routeViol host)
    | _, _ => routeViol host
  (model, verdict)

def showResult : RouteResult → String
  | .noRoute => "noroute"
  | .noBackend i p => "nobackend r=" ++ toString i ++ " p=" ++ toHex p
  | .candidates i p bs => "cands r=" ++ toString i ++ " p=" ++ toHex p ++ " " ++ showList bs

def stepRoute (v : Variant) (c : Case) (raw : Bytes) (routes : List Route) : String × String :=
  let res := findRoute goLower utf8 v.dotAll v.subst routes raw
  let good := findRoute goLower utf8 true substituteBytes routes raw
  let want := firstAccepted (accepts (clearHost raw)) 0 routes
  let verdict := match c.impl.splitOn " ", want with
    | ["noroute"], none => "ok"
    | _ :: r :: _, some (i, _) =>
      if kv r "r=" = some (toString i) then
        -- right route: the candidate list must be the single-pass expansion of the route's templates
        (if c.impl = showResult good then "ok" else "viol:resubstitution")
      else routeViol (clearHost raw)
    | _, _ => routeViol (clearHost raw)
  (showResult res, verdict)

def stepSub (v : Variant) (c : Case) (tmpl : Bytes) (groups : List Bytes) : String × String :=
  let m := toHex (substituteBytes groups tmpl)
  (toHex (v.subst groups tmpl), if c.impl = m then "ok" else "viol:resubstitution")

def stepSubT (v : Variant) (c : Case) (toks : List Tok) (groups : List Bytes) : String × String :=
  let m := toHex (v.subst groups (renderToks toks))
  let verdict :=
    if groups.isEmpty then (if c.impl = toHex (renderToks toks) then "ok" else "viol:expansion-wrong")
    else if unambiguous groups.length toks then
      (if c.impl = toHex (expandToks groups toks) then "ok" else "viol:expansion-wrong")
    else "-"
  (m, verdict)

def stepFwd (v : Variant) (c : Case) (raw pat : Bytes) : String × String :=
  let matched := (mwgV v (clearHost raw) pat).isSome
  let model := if matched then "dials=1 closed=1" else "dials=0 closed=1"
  let acc := accepts (clearHost raw) pat
  let verdict :=
    if !acc then
      (if c.impl.startsWith "dials=0" then (if c.impl = "dials=0 closed=1" then "ok" else "viol:not-closed")
       else "viol:dial-without-route")
    else if c.impl = "dials=1 closed=1" then "ok"
    else if (goLower (clearHost raw)).contains '\n' then "viol:newline-not-matched" else "viol:glob-not-matched"
  (model, verdict)

def containsSub (sep : Bytes) : Bytes → Bool
  | [] => sep.isEmpty
  | c :: t => sep.isPrefixOf (c :: t) || containsSub sep t

/-- the cleaned host has no Forge / TCPShield separator, no surrounding dots, and is what remains of the
    text before the first separator -/
def judgeClear (raw : Bytes) (impl : String) : String :=
  match parseHex impl with
  | none => "viol:clear"
  | some r =>
    let okShape := !containsSub forgeSep r && !containsSub tcpShieldSep r &&
      r.head? != some dotByte && r.getLast? != some dotByte
    let cut := beforeFirst tcpShieldSep (beforeFirst forgeSep raw)
    -- cut = dots ++ r ++ dots
    let core := cut.dropWhile (· == dotByte)
    let okText := r.isPrefixOf core && (core.drop r.length).all (· == dotByte)
    if okShape && okText then "ok" else "viol:clear"

def step (v : Variant) (c : Case) : String × String :=
  match c.op, c.args with
  | "m", [h, p] => match parseHex h, parseHex p with
    | some h, some p => stepMatch v c h p
    | _, _ => ("bad-op", "-")
  | "clr", [r] => match parseHex r with
    | some r => (toHex (clearHost r), judgeClear r c.impl)
    | none => ("bad-op", "-")
  | "fr", [h, rs] => match parseHex h, parseRoutes rs with
    | some h, some rs => stepFr v c h rs
    | _, _ => ("bad-op", "-")
  | "route", [h, rs] => match parseHex h, parseRoutes rs with
    | some h, some rs => stepRoute v c h rs
    | _, _ => ("bad-op", "-")
  | "sub", [t, g] => match parseHex t, parseList g with
    | some t, some g => stepSub v c t g
    | _, _ => ("bad-op", "-")
  | "subt", [t, g] => match parseToks t, parseList g with
    | some t, some g => stepSubT v c t g
    | _, _ => ("bad-op", "-")
  | "fwd", [h, p] => match parseHex h, parseHex p with
    | some h, some p => stepFwd v c h p
    | _, _ => ("bad-op", "-")
  | _, _ => ("bad-op", "-")

end Gate.C29

def main : IO Unit := do
  let v : Gate.C29.Variant :=
    if (← IO.getEnv "C29_VARIANT") == some "defective" then
      { dotAll := false, subst := Gate.C29.substituteDefectiveBytes }
    else {}
  Gate.runPureDriver (Gate.C29.step v)
