import GateModel.C29.Model
import GateModel.C29.Spec
namespace Gate.C29
end Gate.C29
