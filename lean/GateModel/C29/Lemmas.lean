import GateModel.C29.Model
import GateModel.C29.Spec
/-
C29 helper lemmas (core Lean only).
-/
namespace Gate.C29
open Gate

/-! ## scanReplace / replaceAll -/
section scan
variable {α : Type} [DecidableEq α]

theorem scanReplace_skip (ps : List (List α × List α)) (a r : List α) :
    scanReplace ps a.length (a ++ r) = scanReplace ps 0 r := by
  induction a with
  | nil => rfl
  | cons x a ih => simpa [scanReplace] using ih

/-- two-character needle, no match at the current position -/
theorem replace2_no (a b : α) (rep : List α) (c : α) (t : List α)
    (h : ¬ (c = a ∧ t.head? = some b)) :
    replaceAll [a, b] rep (c :: t) = c :: replaceAll [a, b] rep t := by
  unfold replaceAll
  have hp : List.isPrefixOf [a, b] (c :: t) = false := by
    cases t with
    | nil => simp [List.isPrefixOf]
    | cons d t =>
      simp only [List.isPrefixOf, Bool.and_true]
      simp only [List.head?_cons, Option.some.injEq] at h
      by_cases h1 : a = c
      · by_cases h2 : b = d
        · exact absurd ⟨h1.symm, h2.symm⟩ h
        · simp [h2]
      · simp [h1]
  simp [scanReplace, hp]

/-- two-character needle, match at the current position -/
theorem replace2_yes (a b : α) (rep : List α) (t : List α) :
    replaceAll [a, b] rep (a :: b :: t) = rep ++ replaceAll [a, b] rep t := by
  unfold replaceAll
  simp [scanReplace, List.isPrefixOf]

theorem replace2_nil (a b : α) (rep : List α) : replaceAll [a, b] rep [] = [] := rfl

end scan

/-! ## the regular-expression text -/

def renderElem : Elem → Str
  | .lit c => if isMeta c then ['\\', c] else [c]
  | .any => ['(', '.', ')']
  | .star => ['(', '.', '*', '?', ')']

/-- canonical text of an element sequence -/
def render (es : List Elem) : Str := es.flatMap renderElem

/-- the text after the first `ReplaceAll` (`?` done, `*` still escaped) -/
def render1 : Str → Str
  | [] => []
  | c :: t => (if c = '?' then ['(', '.', ')'] else if isMeta c then ['\\', c] else [c]) ++ render1 t

theorem notMeta_ne {c d : Char} (h : isMeta c = false) (hd : isMeta d = true) : c ≠ d := by
  intro e; subst e; simp [h] at hd

theorem quoteMeta_head (t : Str) (x : Char) (hx : isMeta x = true) (hx' : x ≠ '\\') :
    (quoteMeta t).head? ≠ some x := by
  cases t with
  | nil => simp [quoteMeta]
  | cons c t =>
    unfold quoteMeta
    by_cases hc : isMeta c = true
    · simp [hc]; exact fun e => hx' e.symm
    · have hc' : isMeta c = false := by simpa using hc
      simp [hc']; exact notMeta_ne hc' hx

theorem step1 (p : Str) : replaceAll ['\\', '?'] ['(', '.', ')'] (quoteMeta p) = render1 p := by
  induction p with
  | nil => rfl
  | cons c t ih =>
    unfold quoteMeta render1
    by_cases hq : c = '?'
    · subst hq
      simp only [show isMeta '?' = true by decide, if_true]
      rw [replace2_yes, ih]
    · by_cases hm : isMeta c = true
      · simp only [hm, if_true, hq, if_false]
        rw [replace2_no _ _ _ _ _ (by simp [hq]),
            replace2_no _ _ _ _ _ (by
              intro ⟨_, h2⟩
              exact quoteMeta_head t '?' (by decide) (by decide) h2), ih]
        rfl
      · have hm' : isMeta c = false := by simpa using hm
        simp only [hm', hq, Bool.false_eq_true, if_false]
        rw [replace2_no _ _ _ _ _ (by
              intro ⟨h1, _⟩
              exact notMeta_ne hm' (by decide) h1), ih]
        rfl

theorem render1_head (t : Str) : (render1 t ++ ['$']).head? ≠ some '*' := by
  cases t with
  | nil => decide
  | cons c t =>
    unfold render1
    by_cases hq : c = '?'
    · simp [hq]
    · by_cases hm : isMeta c = true
      · simp [hm, hq]
      · have hm' : isMeta c = false := by simpa using hm
        simp [hm', hq]; exact notMeta_ne hm' (by decide)

theorem step2 (p : Str) :
    replaceAll ['\\', '*'] ['(', '.', '*', '?', ')'] (render1 p ++ ['$']) = render (elems p) ++ ['$'] := by
  induction p with
  | nil => rfl
  | cons c t ih =>
    unfold render1 elems
    by_cases hq : c = '?'
    · subst hq
      simp only [if_true, render, List.flatMap_cons, renderElem, List.cons_append, List.nil_append]
      rw [replace2_no _ _ _ _ _ (by simp), replace2_no _ _ _ _ _ (by simp), replace2_no _ _ _ _ _ (by simp), ih]
      rfl
    · by_cases hs : c = '*'
      · subst hs
        simp only [show isMeta '*' = true by decide, if_true, hq, if_false, render, List.flatMap_cons, renderElem,
          List.cons_append, List.nil_append]
        rw [replace2_yes, ih]
        rfl
      · by_cases hm : isMeta c = true
        · simp only [hm, if_true, hq, hs, if_false, render, List.flatMap_cons, renderElem, List.cons_append,
            List.nil_append]
          rw [replace2_no _ _ _ _ _ (by simp [hs]),
              replace2_no _ _ _ _ _ (by
                intro ⟨_, h2⟩
                exact render1_head t h2), ih]
          rfl
        · have hm' : isMeta c = false := by simpa using hm
          simp only [hm', hq, hs, Bool.false_eq_true, if_false, render, List.flatMap_cons, renderElem, List.cons_append, List.nil_append]
          rw [replace2_no _ _ _ _ _ (by
                intro ⟨h1, _⟩
                exact notMeta_ne hm' (by decide) h1), ih]
          rfl

def rxPrefix (dotAll : Bool) : Str := if dotAll then ['(', '?', 's', ')', '^'] else ['^']

/-- Theorem A: the text built by the two `ReplaceAll` calls is the canonical text of the glob's elements -/
theorem globToRegex_eq (d : Bool) (p : Str) :
    globToRegex d p = rxPrefix d ++ render (elems p) ++ ['$'] := by
  unfold globToRegex
  have e1 : "\\?".toList = ['\\', '?'] := by decide
  have e2 : "(.)".toList = ['(', '.', ')'] := by decide
  have e3 : "\\*".toList = ['\\', '*'] := by decide
  have e4 : "(.*?)".toList = ['(', '.', '*', '?', ')'] := by decide
  have e5 : "$".toList = ['$'] := by decide
  have e6 : "(?s)^".toList = ['(', '?', 's', ')', '^'] := by decide
  have e7 : "^".toList = ['^'] := by decide
  simp only [e1, e2, e3, e4, e5, e6, e7, step1]
  cases d
  · simp only [Bool.false_eq_true, if_false, rxPrefix, List.cons_append, List.nil_append, List.append_assoc]
    rw [replace2_no _ _ _ _ _ (by simp), step2]
  · simp only [if_true, rxPrefix, List.cons_append, List.nil_append, List.append_assoc]
    rw [replace2_no _ _ _ _ _ (by simp), replace2_no _ _ _ _ _ (by simp), replace2_no _ _ _ _ _ (by simp),
        replace2_no _ _ _ _ _ (by simp), replace2_no _ _ _ _ _ (by simp), step2]

/-- Theorem B: the parser reads the canonical text back as the element sequence -/
theorem parseBody_render (es : List Elem) : parseBody (render es ++ ['$']) = some es := by
  induction es with
  | nil => simp [render, parseBody]
  | cons e es ih =>
    cases e with
    | lit c =>
      by_cases hm : isMeta c = true
      · simp only [render, List.flatMap_cons, renderElem, hm, if_true, List.cons_append, List.nil_append]
        unfold parseBody
        simp only [show ('\\' : Char) ≠ '$' by decide, if_false, if_true, hm]
        have := ih; simp only [render] at this; rw [this]; rfl
      · have hm' : isMeta c = false := by simpa using hm
        simp only [render, List.flatMap_cons, renderElem, hm', Bool.false_eq_true, if_false, List.cons_append, List.nil_append]
        unfold parseBody
        have h1 : c ≠ '$' := notMeta_ne hm' (by decide)
        have h2 : c ≠ '\\' := notMeta_ne hm' (by decide)
        have h3 : c ≠ '(' := notMeta_ne hm' (by decide)
        simp only [h1, h2, h3, if_false, hm', Bool.false_eq_true]
        have := ih; simp only [render] at this; rw [this]; rfl
    | any =>
      simp only [render, List.flatMap_cons, renderElem, List.cons_append, List.nil_append]
      unfold parseBody
      simp only [show ('(' : Char) ≠ '$' by decide, show ('(' : Char) ≠ '\\' by decide, if_false, if_true]
      have := ih; simp only [render] at this; rw [this]; rfl
    | star =>
      simp only [render, List.flatMap_cons, renderElem, List.cons_append, List.nil_append]
      unfold parseBody
      simp only [show ('(' : Char) ≠ '$' by decide, show ('(' : Char) ≠ '\\' by decide, if_false, if_true]
      have := ih; simp only [render] at this; rw [this]; rfl

theorem parseRx_globToRegex (d : Bool) (p : Str) : parseRx (globToRegex d p) = some (d, elems p) := by
  rw [globToRegex_eq]
  cases d
  · simp [rxPrefix, parseRx, parseBody_render]
  · simp [rxPrefix, parseRx, parseBody_render]

/-! ## the matcher against glob semantics -/

theorem starLoop_some (ok : Char → Bool) (k : Str → Option Groups) (s : Str) (gs : Groups)
    (h : starLoop ok k s = some gs) :
    ∃ g rest tail, s = g ++ rest ∧ gs = g :: tail ∧ k rest = some tail ∧ (∀ c ∈ g, ok c = true) := by
  induction s generalizing gs with
  | nil =>
    simp only [starLoop, Option.map_eq_some_iff] at h
    obtain ⟨tail, hk, rfl⟩ := h
    exact ⟨[], [], tail, rfl, rfl, hk, by simp⟩
  | cons c t ih =>
    unfold starLoop at h
    cases hk : k (c :: t) with
    | some gs' =>
      simp only [hk, Option.some.injEq] at h
      exact ⟨[], c :: t, gs', rfl, h.symm, hk, by simp⟩
    | none =>
      simp only [hk] at h
      by_cases hc : ok c = true
      · simp only [hc, if_true, Option.map_eq_some_iff] at h
        obtain ⟨gs0, h0, rfl⟩ := h
        obtain ⟨g, rest, tail, rfl, rfl, hk', hok⟩ := ih gs0 h0
        refine ⟨c :: g, rest, tail, rfl, rfl, hk', ?_⟩
        intro x hx
        rcases List.mem_cons.mp hx with rfl | hx
        · exact hc
        · exact hok x hx
      · simp [hc] at h

theorem starLoop_complete (ok : Char → Bool) (k : Str → Option Groups) (g rest : Str)
    (hk : (k rest).isSome) (hok : ∀ c ∈ g, ok c = true) : (starLoop ok k (g ++ rest)).isSome := by
  induction g with
  | nil =>
    cases rest with
    | nil =>
      simp only [List.append_nil, starLoop]
      cases h : k [] with
      | none => simp [h] at hk
      | some v => simp
    | cons c t =>
      simp only [List.nil_append, starLoop]
      cases h : k (c :: t) with
      | none => simp [h] at hk
      | some v => simp
  | cons c g ih =>
    simp only [List.cons_append, starLoop]
    cases h : k (c :: (g ++ rest)) with
    | some v => simp
    | none =>
      have hc : ok c = true := hok c (by simp)
      have := ih (fun x hx => hok x (by simp [hx]))
      simp only [hc, if_true, Option.isSome_map]
      exact this

/-- the lazy star takes the shortest text after which the continuation succeeds -/
theorem starLoop_min (ok : Char → Bool) (k : Str → Option Groups) (s g : Str) (tail : Groups)
    (h : starLoop ok k s = some (g :: tail)) (g' rest' : Str) (hs : s = g' ++ rest')
    (hk : (k rest').isSome) : g.length ≤ g'.length := by
  induction s generalizing g g' tail with
  | nil =>
    simp only [starLoop, Option.map_eq_some_iff] at h
    obtain ⟨_, _, h2⟩ := h
    simp only [List.cons.injEq] at h2
    simp [← h2.1]
  | cons c t ih =>
    unfold starLoop at h
    cases hkc : k (c :: t) with
    | some gs' =>
      simp only [hkc, Option.some.injEq, List.cons.injEq] at h
      simp [← h.1]
    | none =>
      simp only [hkc] at h
      by_cases hc : ok c = true
      · simp only [hc, if_true, Option.map_eq_some_iff] at h
        obtain ⟨gs0, h0, h1⟩ := h
        obtain ⟨g0, rest0, tail0, _, rfl, _, _⟩ := starLoop_some ok k t gs0 h0
        simp only [consHead, List.cons.injEq] at h1
        cases g' with
        | nil =>
          simp only [List.nil_append] at hs
          subst hs
          simp [hkc] at hk
        | cons c' g1 =>
          simp only [List.cons_append, List.cons.injEq] at hs
          have := ih g0 tail0 h0 g1 hs.2
          rw [← h1.1]
          simp only [List.length_cons]
          omega
      · simp [hc] at h

def okAll : Char → Bool := fun _ => true

theorem rxMatch_sound (ok : Char → Bool) (es : List Elem) (s : Str) (gs : Groups)
    (h : rxMatch ok es s = some gs) : inst es gs = some s := by
  induction es generalizing s gs with
  | nil =>
    simp only [rxMatch] at h
    cases s with
    | nil => simp at h; subst h; rfl
    | cons c t => simp at h
  | cons e es ih =>
    cases e with
    | lit c =>
      cases s with
      | nil => simp [rxMatch] at h
      | cons x t =>
        simp only [rxMatch] at h
        by_cases hx : x = c
        · simp only [hx, if_true] at h
          simp [inst, ih t gs h, hx]
        · simp [hx] at h
    | any =>
      cases s with
      | nil => simp [rxMatch] at h
      | cons x t =>
        simp only [rxMatch] at h
        by_cases hx : ok x = true
        · simp only [hx, if_true, Option.map_eq_some_iff] at h
          obtain ⟨gs', h', rfl⟩ := h
          simp [inst, ih t gs' h']
        · simp [hx] at h
    | star =>
      simp only [rxMatch] at h
      obtain ⟨g, rest, tail, rfl, rfl, hk, _⟩ := starLoop_some ok _ s gs h
      simp [inst, ih rest tail hk]

theorem inst_lit {c : Char} {p : List Elem} {gs : Groups} {s : Str} (h : inst (.lit c :: p) gs = some s) :
    ∃ t, s = c :: t ∧ inst p gs = some t := by
  cases gs <;> simp only [inst, Option.map_eq_some_iff] at h <;> obtain ⟨t, h1, rfl⟩ := h <;> exact ⟨t, rfl, h1⟩

theorem inst_any {p : List Elem} {gs : Groups} {s : Str} (h : inst (.any :: p) gs = some s) :
    ∃ x t gs', gs = [x] :: gs' ∧ s = x :: t ∧ inst p gs' = some t := by
  match gs, h with
  | [x] :: gs', h =>
    simp only [inst, Option.map_eq_some_iff] at h
    obtain ⟨t, h1, rfl⟩ := h
    exact ⟨x, t, gs', rfl, rfl, h1⟩
  | [] :: _, h => simp [inst] at h
  | (_ :: _ :: _) :: _, h => simp [inst] at h
  | [], h => simp [inst] at h

theorem inst_star {p : List Elem} {gs : Groups} {s : Str} (h : inst (.star :: p) gs = some s) :
    ∃ g t gs', gs = g :: gs' ∧ s = g ++ t ∧ inst p gs' = some t := by
  cases gs with
  | nil => simp [inst] at h
  | cons g gs' =>
    simp only [inst, Option.map_eq_some_iff] at h
    obtain ⟨t, h1, rfl⟩ := h
    exact ⟨g, t, gs', rfl, rfl, h1⟩

theorem rxMatch_complete (es : List Elem) (s : Str) (gs : Groups)
    (h : inst es gs = some s) : (rxMatch okAll es s).isSome := by
  induction es generalizing s gs with
  | nil =>
    cases gs with
    | nil => simp only [inst, Option.some.injEq] at h; subst h; simp [rxMatch]
    | cons g gs => simp [inst] at h
  | cons e es ih =>
    cases e with
    | lit c =>
      obtain ⟨t, rfl, h1⟩ := inst_lit h
      simp [rxMatch, ih t gs h1]
    | any =>
      obtain ⟨x, t, gs', rfl, rfl, h1⟩ := inst_any h
      simp [rxMatch, okAll, ih t gs' h1]
    | star =>
      obtain ⟨g, t, gs', rfl, rfl, h1⟩ := inst_star h
      simp only [rxMatch]
      exact starLoop_complete okAll _ g t (ih t gs' h1) (by simp [okAll])

theorem rxMatch_minimal (es : List Elem) (s : Str) (gs gs' : Groups)
    (h : rxMatch okAll es s = some gs) (h' : inst es gs' = some s) :
    lexLe (starLens es gs) (starLens es gs') := by
  induction es generalizing s gs gs' with
  | nil => simp [starLens, lexLe]
  | cons e es ih =>
    cases e with
    | lit c =>
      obtain ⟨t, rfl, h1⟩ := inst_lit h'
      simp only [rxMatch, if_true] at h
      have := ih t gs gs' h h1
      cases gs <;> cases gs' <;> simpa [starLens] using this
    | any =>
      obtain ⟨x, t, gs1', rfl, rfl, h1⟩ := inst_any h'
      simp only [rxMatch, okAll, if_true, Option.map_eq_some_iff] at h
      obtain ⟨gs1, hm, rfl⟩ := h
      simpa [starLens] using ih t gs1 gs1' hm h1
    | star =>
      obtain ⟨g', t', gs1', rfl, rfl, h1⟩ := inst_star h'
      simp only [rxMatch] at h
      obtain ⟨g, rest, tail, hs, rfl, hk, _⟩ := starLoop_some okAll _ _ gs h
      have hle := starLoop_min okAll _ _ g tail h g' t' rfl (rxMatch_complete es t' gs1' h1)
      simp only [starLens, lexLe]
      by_cases hlt : g.length < g'.length
      · exact Or.inl hlt
      · have heq : g.length = g'.length := by omega
        refine Or.inr ⟨heq, ?_⟩
        have := List.append_inj hs.symm heq
        obtain ⟨rfl, rfl⟩ := this
        exact ih rest tail gs1' hk h1

theorem starLoop_congr (ok1 ok2 : Char → Bool) (k1 k2 : Str → Option Groups) (s : Str)
    (hok : ∀ c ∈ s, ok1 c = ok2 c) (hk : ∀ t, (∀ c ∈ t, c ∈ s) → k1 t = k2 t) :
    starLoop ok1 k1 s = starLoop ok2 k2 s := by
  induction s with
  | nil => simp [starLoop, hk [] (by simp)]
  | cons c t ih =>
    unfold starLoop
    rw [hk (c :: t) (fun _ h => h), hok c (by simp)]
    rw [ih (fun x hx => hok x (by simp [hx])) (fun u hu => hk u (fun x hx => by simp [hu x hx]))]

/-- the two variants agree on texts in which `.` behaves the same -/
theorem rxMatch_congr (ok1 ok2 : Char → Bool) (es : List Elem) (s : Str)
    (hok : ∀ c ∈ s, ok1 c = ok2 c) : rxMatch ok1 es s = rxMatch ok2 es s := by
  induction es generalizing s with
  | nil => rfl
  | cons e es ih =>
    cases e with
    | lit c =>
      cases s with
      | nil => rfl
      | cons x t => simp only [rxMatch]; rw [ih t (fun y hy => hok y (by simp [hy]))]
    | any =>
      cases s with
      | nil => rfl
      | cons x t =>
        simp only [rxMatch]
        rw [ih t (fun y hy => hok y (by simp [hy])), hok x (by simp)]
    | star =>
      simp only [rxMatch]
      exact starLoop_congr ok1 ok2 _ _ s hok (fun t ht => ih t (fun c hc => hok c (ht c hc)))

theorem starAccepts_eq (k : Str → Bool) (k' : Str → Option Groups) (hk : ∀ s, k s = (k' s).isSome) (s : Str) :
    starAccepts k s = (starLoop okAll k' s).isSome := by
  induction s with
  | nil => simp [starAccepts, starLoop, hk]
  | cons c t ih =>
    simp only [starAccepts, starLoop, hk, ih]
    cases k' (c :: t) <;> simp [okAll]

/-- the boolean reference matcher agrees with the group-producing matcher -/
theorem globAccepts_eq (es : List Elem) (s : Str) : globAccepts es s = (rxMatch okAll es s).isSome := by
  induction es generalizing s with
  | nil => cases s <;> simp [globAccepts, rxMatch]
  | cons e es ih =>
    cases e with
    | lit c =>
      cases s with
      | nil => simp [globAccepts, rxMatch]
      | cons x t =>
        simp only [globAccepts, rxMatch, ih]
        by_cases hx : x = c <;> simp [hx]
    | any =>
      cases s with
      | nil => simp [globAccepts, rxMatch]
      | cons x t => simp [globAccepts, rxMatch, ih, okAll]
    | star =>
      simp only [globAccepts, rxMatch]
      exact starAccepts_eq _ _ (fun s => ih s) s

/-! ## first-match search -/

theorem findInHosts_none (m : Bytes → Option Groups) (j0 : Nat) (ps : List Bytes) :
    findInHosts m j0 ps = none ↔ ∀ q ∈ ps, m q = none := by
  induction ps generalizing j0 with
  | nil => simp [findInHosts]
  | cons q ps ih =>
    unfold findInHosts
    cases hq : m q with
    | some gs => simp [hq]
    | none => simp [hq, ih]

theorem findInHosts_some (m : Bytes → Option Groups) (j0 : Nat) (ps : List Bytes) (j : Nat) (p : Bytes) (gs : Groups) :
    findInHosts m j0 ps = some (j, p, gs) ↔
      ∃ k, j = j0 + k ∧ ps[k]? = some p ∧ m p = some gs ∧ ∀ k' < k, ∀ q, ps[k']? = some q → m q = none := by
  induction ps generalizing j0 with
  | nil => simp [findInHosts]
  | cons q ps ih =>
    unfold findInHosts
    cases hq : m q with
    | some gs0 =>
      simp only [Option.some.injEq, Prod.mk.injEq]
      constructor
      · rintro ⟨rfl, rfl, rfl⟩
        exact ⟨0, rfl, rfl, hq, by omega⟩
      · rintro ⟨k, rfl, hk, hm, hlt⟩
        cases k with
        | zero =>
          simp only [List.getElem?_cons_zero, Option.some.injEq] at hk
          subst hk
          rw [hq] at hm
          simp only [Option.some.injEq] at hm
          exact ⟨rfl, rfl, hm⟩
        | succ k =>
          have := hlt 0 (by omega) q rfl
          rw [hq] at this; cases this
    | none =>
      simp only []
      rw [ih]
      constructor
      · rintro ⟨k, rfl, hk, hm, hlt⟩
        refine ⟨k + 1, by omega, by simpa using hk, hm, ?_⟩
        intro k' hk' q' hq'
        cases k' with
        | zero => simp only [List.getElem?_cons_zero, Option.some.injEq] at hq'; subst hq'; exact hq
        | succ k' => exact hlt k' (by omega) q' (by simpa using hq')
      · rintro ⟨k, rfl, hk, hm, hlt⟩
        cases k with
        | zero =>
          simp only [List.getElem?_cons_zero, Option.some.injEq] at hk
          subst hk; rw [hq] at hm; cases hm
        | succ k =>
          refine ⟨k, by omega, by simpa using hk, hm, ?_⟩
          intro k' hk' q' hq'
          exact hlt (k' + 1) (by omega) q' (by simpa using hq')

theorem findRouteFrom_none (m : Bytes → Option Groups) (i0 : Nat) (rs : List Route) :
    findRouteFrom m i0 rs = none ↔ ∀ r ∈ rs, ∀ q ∈ r.hosts, m q = none := by
  induction rs generalizing i0 with
  | nil => simp [findRouteFrom]
  | cons r rs ih =>
    unfold findRouteFrom
    cases hr : findInHosts m 0 r.hosts with
    | some v =>
      obtain ⟨j, p, gs⟩ := v
      simp only [reduceCtorEq, List.mem_cons, forall_eq_or_imp, false_iff, not_and]
      intro hall
      have := (findInHosts_none m 0 r.hosts).mpr hall
      rw [hr] at this; cases this
    | none =>
      simp only [List.mem_cons, forall_eq_or_imp]
      rw [ih]
      exact ⟨fun h => ⟨(findInHosts_none m 0 r.hosts).mp hr, h⟩, fun h => h.2⟩

/-- the characterisation of `FindRouteWithGroups`' answer: the lexicographically first (route, host pattern) that matches -/
def IsFirstMatch (m : Bytes → Option Groups) (rs : List Route) (i j : Nat) (p : Bytes) (gs : Groups) : Prop :=
  ∃ r, rs[i]? = some r ∧ r.hosts[j]? = some p ∧ m p = some gs ∧
    (∀ j' < j, ∀ q, r.hosts[j']? = some q → m q = none) ∧
    (∀ i' < i, ∀ r', rs[i']? = some r' → ∀ q ∈ r'.hosts, m q = none)

theorem findRouteFrom_some (m : Bytes → Option Groups) (i0 : Nat) (rs : List Route) (i j : Nat) (p : Bytes) (gs : Groups) :
    findRouteFrom m i0 rs = some (i, j, p, gs) ↔ ∃ k, i = i0 + k ∧ IsFirstMatch m rs k j p gs := by
  induction rs generalizing i0 with
  | nil => simp [findRouteFrom, IsFirstMatch]
  | cons r rs ih =>
    unfold findRouteFrom
    cases hr : findInHosts m 0 r.hosts with
    | some v =>
      obtain ⟨j1, p1, gs1⟩ := v
      have h1 := (findInHosts_some m 0 r.hosts j1 p1 gs1).mp hr
      obtain ⟨k1, hj1, hk1, hm1, hlt1⟩ := h1
      simp only [Nat.zero_add] at hj1
      subst hj1
      simp only [Option.some.injEq, Prod.mk.injEq]
      constructor
      · rintro ⟨rfl, rfl, rfl, rfl⟩
        exact ⟨0, rfl, r, rfl, hk1, hm1, hlt1, by omega⟩
      · rintro ⟨k, rfl, r', hr', hj, hm, hlt, hprev⟩
        cases k with
        | zero =>
          simp only [List.getElem?_cons_zero, Option.some.injEq] at hr'
          subst hr'
          have h2 := (findInHosts_some m 0 r.hosts j p gs).mpr ⟨j, by omega, hj, hm, hlt⟩
          rw [hr] at h2
          simp only [Option.some.injEq, Prod.mk.injEq] at h2
          exact ⟨rfl, h2.1, h2.2.1, h2.2.2⟩
        | succ k =>
          have := hprev 0 (by omega) r rfl p1 (List.mem_of_getElem? hk1)
          rw [hm1] at this; cases this
    | none =>
      have hnone := (findInHosts_none m 0 r.hosts).mp hr
      simp only []
      rw [ih]
      constructor
      · rintro ⟨k, rfl, r', hr', hj, hm, hlt, hprev⟩
        refine ⟨k + 1, by omega, r', by simpa using hr', hj, hm, hlt, ?_⟩
        intro i' hi' r'' hr''
        cases i' with
        | zero => simp only [List.getElem?_cons_zero, Option.some.injEq] at hr''; subst hr''; exact hnone
        | succ i' => exact hprev i' (by omega) r'' (by simpa using hr'')
      · rintro ⟨k, rfl, r', hr', hj, hm, hlt, hprev⟩
        cases k with
        | zero =>
          simp only [List.getElem?_cons_zero, Option.some.injEq] at hr'
          subst hr'
          have := hnone p (List.mem_of_getElem? hj)
          rw [hm] at this; cases this
        | succ k =>
          refine ⟨k, by omega, r', by simpa using hr', hj, hm, hlt, ?_⟩
          intro i' hi' r'' hr''
          exact hprev (i' + 1) (by omega) r'' (by simpa using hr'')

/-! ## ClearVirtualHost -/
section clear
variable {α : Type} [DecidableEq α]

theorem beforeFirst_split (sep s : List α) :
    ∃ rest, s = beforeFirst sep s ++ rest ∧ (rest = [] ∨ sep.isPrefixOf rest = true) := by
  induction s with
  | nil => exact ⟨[], rfl, Or.inl rfl⟩
  | cons c t ih =>
    unfold beforeFirst
    by_cases h : sep.isPrefixOf (c :: t) = true
    · simp only [h, if_true, List.nil_append]
      exact ⟨c :: t, rfl, Or.inr h⟩
    · simp only [h, Bool.false_eq_true, if_false]
      obtain ⟨rest, h1, h2⟩ := ih
      exact ⟨rest, by rw [List.cons_append, ← h1], h2⟩

/-- the separator does not start anywhere inside the kept part -/
theorem beforeFirst_no_sep (sep s : List α) (k : Nat) (hk : k < (beforeFirst sep s).length) :
    sep.isPrefixOf (s.drop k) = false := by
  induction s generalizing k with
  | nil => simp [beforeFirst] at hk
  | cons c t ih =>
    unfold beforeFirst at hk
    by_cases h : sep.isPrefixOf (c :: t) = true
    · simp [h] at hk
    · simp only [h, Bool.false_eq_true, if_false, List.length_cons] at hk
      cases k with
      | zero => simp only [List.drop_zero]; exact Bool.eq_false_iff.mpr h
      | succ k => simpa using ih k (by omega)

theorem trimLeft_spec (d : α) (s : List α) :
    ∃ a, s = a ++ trimLeft d s ∧ (∀ x ∈ a, x = d) ∧ (trimLeft d s).head? ≠ some d := by
  induction s with
  | nil => exact ⟨[], rfl, by simp, by simp [trimLeft]⟩
  | cons c t ih =>
    unfold trimLeft
    by_cases h : c = d
    · simp only [h, if_true]
      obtain ⟨a, h1, h2, h3⟩ := ih
      exact ⟨d :: a, by rw [List.cons_append, ← h1], by simpa using h2, h3⟩
    · simp only [h, if_false]
      exact ⟨[], rfl, by simp, by simpa using h⟩

theorem trim_spec (d : α) (s : List α) :
    ∃ a b, s = a ++ trim d s ++ b ∧ (∀ x ∈ a, x = d) ∧ (∀ x ∈ b, x = d) ∧
      (trim d s).head? ≠ some d ∧ (trim d s).getLast? ≠ some d := by
  obtain ⟨a, h1, h2, h3⟩ := trimLeft_spec d s
  obtain ⟨b, g1, g2, g3⟩ := trimLeft_spec d (trimLeft d s).reverse
  have hu : trimLeft d s = trim d s ++ b.reverse := by
    have := congrArg List.reverse g1
    simpa [trim] using this
  refine ⟨a, b.reverse, ?_, h2, ?_, ?_, ?_⟩
  · rw [List.append_assoc, ← hu]; exact h1
  · intro x hx; exact g2 x (by simpa using hx)
  · intro hh
    apply h3
    rw [hu]
    cases ht : trim d s with
    | nil => simp [ht] at hh
    | cons y ys => simpa [ht] using hh
  · simpa [trim] using g3

end clear

/-! ## decimal numerals -/
section dec
variable {α : Type} [DecidableEq α]

theorem decimalF_succ (digit : Nat → α) (f n : Nat) (h : n < f) :
    decimalF digit (f + 1) n = decimalF digit f n := by
  induction f generalizing n with
  | zero => omega
  | succ f ih =>
    show (if n < 10 then [digit n] else decimalF digit (f + 1) (n / 10) ++ [digit (n % 10)]) =
         (if n < 10 then [digit n] else decimalF digit f (n / 10) ++ [digit (n % 10)])
    by_cases hn : n < 10
    · simp [hn]
    · simp only [hn, if_false]
      rw [ih (n / 10) (by omega)]

theorem decimalF_fuel (digit : Nat → α) (f n : Nat) (h : n < f) :
    decimalF digit f n = decimalF digit (n + 1) n := by
  induction f with
  | zero => omega
  | succ f ih =>
    by_cases hf : n = f
    · subst hf; rfl
    · rw [decimalF_succ digit f n (by omega), ih (by omega)]

/-- unfolding of `decimal` without fuel -/
theorem decimal_eq (digit : Nat → α) (n : Nat) :
    decimal digit n = if n < 10 then [digit n] else decimal digit (n / 10) ++ [digit (n % 10)] := by
  unfold decimal
  show (if n < 10 then [digit n] else decimalF digit n (n / 10) ++ [digit (n % 10)]) = _
  by_cases hn : n < 10
  · simp [hn]
  · simp only [hn, if_false]
    rw [decimalF_fuel digit n (n / 10) (by omega)]

theorem decimal_ne_nil (digit : Nat → α) (n : Nat) : decimal digit n ≠ [] := by
  rw [decimal_eq]; by_cases hn : n < 10 <;> simp [hn]

theorem decimal_length_ge2 (digit : Nat → α) (n : Nat) (hn : 10 ≤ n) : 2 ≤ (decimal digit n).length := by
  rw [decimal_eq]
  have : ¬ n < 10 := by omega
  simp only [this, if_false, List.length_append, List.length_cons, List.length_nil]
  have := decimal_ne_nil digit (n / 10)
  have : 0 < (decimal digit (n / 10)).length := List.length_pos_iff.mpr this
  omega

theorem decimal_all (digit : Nat → α) (P : α → Prop) (hP : ∀ d, d < 10 → P (digit d)) (n : Nat) :
    ∀ x ∈ decimal digit n, P x := by
  induction n using Nat.strongRecOn with
  | _ n ih =>
    rw [decimal_eq]
    by_cases hn : n < 10
    · simp only [hn, if_true, List.mem_singleton]; rintro x rfl; exact hP n hn
    · simp only [hn, if_false, List.mem_append, List.mem_singleton]
      rintro x (hx | rfl)
      · exact ih (n / 10) (by omega) x hx
      · exact hP _ (by omega)

theorem decimal_inj (digit : Nat → α) (hinj : ∀ a b, a < 10 → b < 10 → digit a = digit b → a = b) (i k : Nat)
    (h : decimal digit i = decimal digit k) : i = k := by
  induction i using Nat.strongRecOn generalizing k with
  | _ i ih =>
    by_cases hi : i < 10
    · by_cases hk : k < 10
      · rw [decimal_eq digit i, decimal_eq digit k] at h
        simp only [hi, hk, if_true, List.cons.injEq, and_true] at h
        exact hinj i k hi hk h
      · have h2 := decimal_length_ge2 digit k (by omega)
        rw [← h, decimal_eq digit i] at h2
        simp [hi] at h2
    · by_cases hk : k < 10
      · have h2 := decimal_length_ge2 digit i (by omega)
        rw [h, decimal_eq digit k] at h2
        simp [hk] at h2
      · rw [decimal_eq digit i, decimal_eq digit k] at h
        simp only [hi, hk, if_false] at h
        have h3 := List.append_inj' h rfl
        have e1 := ih (i / 10) (by omega) (k / 10) h3.1
        have e2 := hinj (i % 10) (k % 10) (Nat.mod_lt _ (by omega)) (Nat.mod_lt _ (by omega)) (by simpa using h3.2)
        omega

/-- a numeral that is a prefix of another numeral denotes a number that is not larger -/
theorem decimal_prefix_le (digit : Nat → α) (hinj : ∀ a b, a < 10 → b < 10 → digit a = digit b → a = b) (i k : Nat)
    (h : decimal digit i <+: decimal digit k) : i ≤ k := by
  induction k using Nat.strongRecOn with
  | _ k ih =>
    by_cases hk : k < 10
    · rw [decimal_eq digit k] at h
      simp only [hk, if_true] at h
      have hne := decimal_ne_nil digit i
      have : decimal digit i = [digit k] := by
        obtain ⟨t, ht⟩ := h
        cases hd : decimal digit i with
        | nil => exact absurd hd hne
        | cons x xs =>
          rw [hd] at ht
          simp only [List.cons_append, List.cons.injEq, List.append_eq_nil_iff] at ht
          rw [ht.1, ht.2.1]
      have e : decimal digit i = decimal digit k := by
        rw [this, decimal_eq digit k]; simp [hk]
      exact Nat.le_of_eq (decimal_inj digit hinj i k e)
    · rw [decimal_eq digit k] at h
      simp only [hk, if_false] at h
      rcases List.prefix_concat_iff.mp h with h1 | h1
      · have e : decimal digit i = decimal digit k := by
          rw [h1, decimal_eq digit k]; simp [hk]
        exact Nat.le_of_eq (decimal_inj digit hinj i k e)
      · have := ih (k / 10) (by omega) h1
        have : k / 10 ≤ k := Nat.div_le_self k 10
        omega

end dec

/-! ## parameter substitution on bytes -/

theorem digitByte_inj : ∀ a b, a < 10 → b < 10 → digitByte a = digitByte b → a = b := by
  intro a b ha hb h
  have key : ∀ x : Fin 10, ∀ y : Fin 10, digitByte x.val = digitByte y.val → x = y := by decide
  have := key ⟨a, ha⟩ ⟨b, hb⟩ h
  exact congrArg Fin.val this

theorem digitByte_isDigit : ∀ d, d < 10 → isDigitByte (digitByte d) = true := by
  intro d hd
  have key : ∀ x : Fin 10, isDigitByte (digitByte x.val) = true := by decide
  exact key ⟨d, hd⟩

abbrev par (k : Nat) : Bytes := param dollarByte digitByte k
abbrev dec (k : Nat) : Bytes := decimal digitByte k

theorem prefix_of_digits (a b rest : Bytes) (ha : ∀ x ∈ a, isDigitByte x = true)
    (hr : ∀ x, rest.head? = some x → isDigitByte x = false) (h : a <+: b ++ rest) : a <+: b := by
  induction b generalizing a with
  | nil =>
    cases a with
    | nil => exact List.prefix_refl _
    | cons x a' =>
      simp only [List.nil_append] at h
      obtain ⟨t, ht⟩ := h
      have hx := ha x (by simp)
      have : rest.head? = some x := by rw [← ht]; rfl
      rw [hr x this] at hx; cases hx
  | cons y b' ih =>
    cases a with
    | nil => exact List.nil_prefix
    | cons x a' =>
      simp only [List.cons_append] at h
      rw [List.cons_prefix_cons] at h ⊢
      exact ⟨h.1, ih a' (fun z hz => ha z (by simp [hz])) h.2⟩

/-- a higher-numbered parameter is not a prefix where `$k` stands, unless a digit follows -/
theorem par_not_prefix (j k : Nat) (rest : Bytes) (hjk : k < j)
    (hr : ∀ x, rest.head? = some x → isDigitByte x = false) :
    (par j).isPrefixOf (par k ++ rest) = false := by
  apply Bool.eq_false_iff.mpr
  intro h
  rw [List.isPrefixOf_iff_prefix] at h
  simp only [par, param, List.cons_append, List.cons_prefix_cons, true_and] at h
  have h2 := prefix_of_digits (dec j) (dec k) rest
    (decimal_all digitByte (fun x => isDigitByte x = true) digitByte_isDigit j) hr h
  have := decimal_prefix_le digitByte digitByte_inj j k h2
  omega

theorem mem_paramPairsFrom (i : Nat) (gs : List Bytes) (p : Bytes × Bytes)
    (h : p ∈ paramPairsFrom dollarByte digitByte i gs) : ∃ j, i ≤ j ∧ j < i + gs.length ∧ p.1 = par j := by
  induction gs generalizing i with
  | nil => simp [paramPairsFrom] at h
  | cons g gs ih =>
    simp only [paramPairsFrom, List.mem_append, List.mem_singleton] at h
    rcases h with h | rfl
    · obtain ⟨j, h1, h2, h3⟩ := ih (i + 1) h
      exact ⟨j, by omega, by simp only [List.length_cons]; omega, h3⟩
    · exact ⟨i, by omega, by simp only [List.length_cons]; omega, rfl⟩

theorem find_param (gs : List Bytes) (i k : Nat) (rest : Bytes) (hik : i ≤ k) (hk : k < i + gs.length)
    (hr : ∀ x, rest.head? = some x → isDigitByte x = false) :
    (paramPairsFrom dollarByte digitByte i gs).find? (fun p => p.1.isPrefixOf (par k ++ rest)) =
      some (par k, gs.getD (k - i) []) := by
  induction gs generalizing i with
  | nil => simp only [List.length_nil] at hk; omega
  | cons g gs ih =>
    simp only [paramPairsFrom, List.find?_append]
    by_cases hki : k = i
    · subst hki
      have hnone : (paramPairsFrom dollarByte digitByte (k + 1) gs).find?
          (fun p => p.1.isPrefixOf (par k ++ rest)) = none := by
        rw [List.find?_eq_none]
        intro p hp
        obtain ⟨j, h1, _, h3⟩ := mem_paramPairsFrom (k + 1) gs p hp
        rw [h3, par_not_prefix j k rest (by omega) hr]
        simp
      rw [hnone]
      have hpre : (par k).isPrefixOf (par k ++ rest) = true := by
        rw [List.isPrefixOf_iff_prefix]; exact List.prefix_append _ _
      simp [List.find?, hpre]
    · have := ih (i + 1) (by omega) (by simp only [List.length_cons] at hk; omega)
      rw [this]
      have e : k - i = (k - (i + 1)) + 1 := by omega
      simp [e]

theorem no_param_at_literal (gs : List Bytes) (i : Nat) (b : UInt8) (t : Bytes) (hb : b ≠ dollarByte) :
    (paramPairsFrom dollarByte digitByte i gs).find? (fun p => p.1.isPrefixOf (b :: t)) = none := by
  rw [List.find?_eq_none]
  intro p hp
  obtain ⟨j, _, _, h3⟩ := mem_paramPairsFrom i gs p hp
  rw [h3]
  simp only [par, param, List.isPrefixOf]
  have : (dollarByte == b) = false := by
    apply Bool.eq_false_iff.mpr
    intro h; exact hb (eq_of_beq h).symm
  simp [this]

theorem renderToks_head_not_digit (n : Nat) (k : Nat) (ts : List Tok)
    (hu : unambiguous n (.ref k :: ts) = true) :
    ∀ x, (renderToks ts).head? = some x → isDigitByte x = false := by
  intro x hx
  cases ts with
  | nil => simp [renderToks] at hx
  | cons t ts =>
    cases t with
    | lit b =>
      simp only [renderToks, List.flatMap_cons, renderTok, List.cons_append, List.nil_append, List.head?_cons,
        Option.some.injEq] at hx
      subst hx
      simp only [unambiguous, Bool.and_eq_true, Bool.not_eq_true'] at hu
      exact hu.2
    | ref k' =>
      simp only [renderToks, List.flatMap_cons, renderTok, param, List.cons_append, List.head?_cons,
        Option.some.injEq] at hx
      subst hx
      decide

theorem unambiguous_tail (n : Nat) (t : Tok) (ts : List Tok) (hu : unambiguous n (t :: ts) = true) :
    unambiguous n ts = true := by
  cases t with
  | lit b => simp only [unambiguous, Bool.and_eq_true] at hu; exact hu.2
  | ref k => simp only [unambiguous, Bool.and_eq_true] at hu; exact hu.1.2

/-- single-pass substitution expands an unambiguous tokenised template to literals and referenced groups -/
theorem scan_tokens (groups : List Bytes) (toks : List Tok) (hu : unambiguous groups.length toks = true) :
    scanReplace (paramPairs dollarByte digitByte groups) 0 (renderToks toks) = expandToks groups toks := by
  induction toks with
  | nil => rfl
  | cons t ts ih =>
    have ih' := ih (unambiguous_tail _ t ts hu)
    cases t with
    | lit b =>
      have hb : b ≠ dollarByte := by
        simp only [unambiguous, Bool.and_eq_true, bne_iff_ne, ne_eq] at hu
        exact hu.1
      simp only [renderToks, expandToks, List.flatMap_cons, renderTok, expandTok, List.cons_append,
        List.nil_append]
      simp only [scanReplace, paramPairs, no_param_at_literal groups 1 b _ hb]
      congr 1
    | ref k =>
      have hk : 1 ≤ k ∧ k ≤ groups.length := by
        simp only [unambiguous, Bool.and_eq_true, decide_eq_true_eq] at hu
        exact ⟨hu.1.1.1, hu.1.1.2⟩
      have hr := renderToks_head_not_digit _ k ts hu
      have hf := find_param groups 1 k (renderToks ts) hk.1 (by omega) hr
      simp only [renderToks, expandToks, List.flatMap_cons, renderTok, expandTok, hk, and_self, if_true]
      show scanReplace _ 0 (dollarByte :: (dec k ++ renderToks ts)) = _
      have hf' : (paramPairs dollarByte digitByte groups).find?
          (fun p => p.1.isPrefixOf (dollarByte :: (dec k ++ renderToks ts))) = some (par k, groups.getD (k - 1) []) := hf
      simp only [scanReplace, hf']
      have hl : (par k).length - 1 = (dec k).length := by simp [par, param]
      rw [hl, scanReplace_skip]
      rw [ih']
      rfl

end Gate.C29
