import GateModel.C29.Lemmas
/-
C29 — Lite routes the first route whose host pattern matches the cleaned host.

Property theorems only (helper lemmas live in `Lemmas.lean`).  `lower : Bytes → Str` (Go's
`strings.ToLower`: raw bytes to lower-cased runes) and `enc : Str → Bytes` (runes back to UTF-8) are
arbitrary parameters.  Clauses of the property and where they are proved:

  cleaned host                      clear_host_cut, clear_host_trim
  `*` any sequence, `?` exactly one regex_of_glob, match_eq_glob, glob_sound, glob_complete, glob_match_iff
  the text each wildcard matched    glob_sound + glob_lazy_leftmost (which decomposition when several exist)
  compared case-insensitively       match_eq_glob (both sides go through `lower`)
  first route in configuration order first_match, no_match, route_spec
  $1, $2 … replaced by those texts  substitute_tokens, substitute_no_groups, route_spec
  no match ⇒ closed without dialing no_match_no_dial, dial_implies_match
  tie to the source                 src_regex_literals, src_separators, src_call_shapes
  the two defects repaired          wildcard_newline_fails / defective_match_partial,
                                    substituteDefective_fails / substituteDefective_partial
-/
namespace Gate.C29.Props
open Gate Gate.C29

/-! ### the regular expression built from a glob pattern denotes the glob -/

/-- For every pattern text the expression assembled by `QuoteMeta` + the two `ReplaceAll` calls + anchors parses
    (as Go's regexp syntax, restricted to the class that occurs) to exactly the pattern's element sequence:
    `?` ↦ one-character group, `*` ↦ lazy any-sequence group, every other character — regex metacharacters
    included — a literal.  In particular compilation never fails. -/
theorem regex_of_glob (dotAll : Bool) (pattern : Str) :
    parseRx (globToRegex dotAll pattern) = some (dotAll, elems pattern) := parseRx_globToRegex dotAll pattern

/-- `matchWithGroups` (repaired) is the direct glob matcher on the lower-cased pattern and host. -/
theorem match_eq_glob (lower : Bytes → Str) (s pattern : Bytes) :
    matchWithGroups lower true s pattern = globMatch (lower pattern) (lower s) := by
  unfold matchWithGroups globMatch
  rw [regex_of_glob]
  exact rxMatch_congr _ _ _ _ (fun c _ => by simp [dotOk])

/-- soundness: the returned texts instantiate the pattern to the host (one text per wildcard, a single
    character for each `?`). -/
theorem glob_sound (pattern host : Str) (gs : Groups) (h : globMatch pattern host = some gs) :
    inst (elems pattern) gs = some host := rxMatch_sound _ _ _ _ h

/-- completeness: if any assignment of texts to the wildcards yields the host, the matcher matches —
    for every host, newlines and control characters included. -/
theorem glob_complete (pattern host : Str) (gs : Groups) (h : inst (elems pattern) gs = some host) :
    (globMatch pattern host).isSome := rxMatch_complete _ _ _ h

theorem glob_match_iff (pattern host : Str) :
    (globMatch pattern host).isSome ↔ ∃ gs, inst (elems pattern) gs = some host := by
  constructor
  · intro h
    cases hm : globMatch pattern host with
    | none => simp [hm] at h
    | some gs => exact ⟨gs, glob_sound _ _ _ hm⟩
  · rintro ⟨gs, h⟩; exact glob_complete _ _ _ h

/-- which decomposition is returned when several exist: the lazy-leftmost one — the vector of `*` text
    lengths is lexicographically least among all decompositions. -/
theorem glob_lazy_leftmost (pattern host : Str) (gs gs' : Groups)
    (h : globMatch pattern host = some gs) (h' : inst (elems pattern) gs' = some host) :
    lexLe (starLens (elems pattern) gs) (starLens (elems pattern) gs') := rxMatch_minimal _ _ _ _ h h'

/-- the boolean reference matcher used as oracle by the driver decides exactly the glob semantics -/
theorem reference_accepts_iff (pattern host : Str) :
    globAccepts (elems pattern) host = true ↔ ∃ gs, inst (elems pattern) gs = some host := by
  rw [globAccepts_eq]; exact glob_match_iff pattern host

example : globMatch "*.example.*".toList "abc.example.com".toList = some ["abc".toList, "com".toList] := by decide
example : inst (elems "a?c*".toList) ["b".toList, "\n$1".toList] = some "abc\n$1".toList := by decide

/-! ### first match in configuration order -/

/-- `FindRouteWithGroups` returns (i, j, pattern, groups) iff pattern j of route i matches with those groups and
    no earlier pattern of route i and no pattern of an earlier route matches. -/
theorem first_match (m : Bytes → Option Groups) (routes : List Route) (i j : Nat) (p : Bytes) (gs : Groups) :
    findRouteWithGroups m routes = some (i, j, p, gs) ↔ IsFirstMatch m routes i j p gs := by
  unfold findRouteWithGroups
  rw [findRouteFrom_some]
  constructor
  · rintro ⟨k, hk, h⟩; simp only [Nat.zero_add] at hk; subst hk; exact h
  · intro h; exact ⟨i, by omega, h⟩

theorem no_match (m : Bytes → Option Groups) (routes : List Route) :
    findRouteWithGroups m routes = none ↔ ∀ r ∈ routes, ∀ q ∈ r.hosts, m q = none :=
  findRouteFrom_none m 0 routes

/-- "`q` matches the cleaned host" in the property's terms: glob semantics on the lower-cased texts -/
def Matches (lower : Bytes → Str) (raw q : Bytes) : Prop :=
  ∃ gs, inst (elems (lower q)) gs = some (lower (clearHost raw))

theorem matches_iff (lower : Bytes → Str) (raw q : Bytes) :
    (matchWithGroups lower true (clearHost raw) q).isSome ↔ Matches lower raw q := by
  rw [match_eq_glob]; exact glob_match_iff _ _

/-- The whole route decision in the property's terms.  If `findRoute` yields candidates for route `i` via
    pattern `p`, then `p` is host pattern `j` of route `i`, it glob-matches the cleaned, lower-cased host with
    the lazy-leftmost texts `gs`, no earlier pattern (same route) and no pattern of an earlier route matches,
    and the candidates are the route's backends with `gs` substituted. -/
theorem route_spec (lower : Bytes → Str) (enc : Str → Bytes) (subst : List Bytes → Bytes → Bytes)
    (routes : List Route) (raw : Bytes) (i : Nat) (p : Bytes) (bs : List Bytes)
    (h : findRoute lower enc true subst routes raw = .candidates i p bs) :
    ∃ (r : Route) (j : Nat) (gs : Groups), routes[i]? = some r ∧ r.hosts[j]? = some p ∧
      inst (elems (lower p)) gs = some (lower (clearHost raw)) ∧
      (∀ gs', inst (elems (lower p)) gs' = some (lower (clearHost raw)) →
        lexLe (starLens (elems (lower p)) gs) (starLens (elems (lower p)) gs')) ∧
      (∀ j' < j, ∀ q, r.hosts[j']? = some q → ¬ Matches lower raw q) ∧
      (∀ i' < i, ∀ r', routes[i']? = some r' → ∀ q ∈ r'.hosts, ¬ Matches lower raw q) ∧
      bs = r.backends.map (subst (gs.map enc)) := by
  unfold findRoute at h
  simp only [] at h
  cases hf : findRouteWithGroups (fun p => matchWithGroups lower true (clearHost raw) p) routes with
  | none => simp [hf] at h
  | some v =>
    obtain ⟨i0, j0, p0, gs0⟩ := v
    obtain ⟨r, hr, hj, hm, hlt, hprev⟩ := (first_match _ _ _ _ _ _).mp hf
    simp only [hf, hr] at h
    by_cases hb : r.backends.isEmpty = true
    · simp [hb] at h
    · simp only [hb, Bool.false_eq_true, if_false, RouteResult.candidates.injEq] at h
      obtain ⟨rfl, rfl, rfl⟩ := h
      have hm' : globMatch (lower p0) (lower (clearHost raw)) = some gs0 := by rw [← match_eq_glob]; exact hm
      have none_not : ∀ q, matchWithGroups lower true (clearHost raw) q = none → ¬ Matches lower raw q := by
        intro q hq hmq
        have := (matches_iff lower raw q).mpr hmq
        rw [hq] at this; cases this
      exact ⟨r, j0, gs0, hr, hj, glob_sound _ _ _ hm', fun gs' hg => glob_lazy_leftmost _ _ _ _ hm' hg,
        fun j' hj' q hq => none_not q (hlt j' hj' q hq),
        fun i' hi' r' hr' q hq => none_not q (hprev i' hi' r' hr' q hq), rfl⟩

/-- A host matching no route gets no route: the result is the "no route" error and nothing can be dialled. -/
theorem no_match_no_dial (lower : Bytes → Str) (enc : Str → Bytes) (subst : List Bytes → Bytes → Bytes)
    (routes : List Route) (raw : Bytes)
    (h : ∀ r ∈ routes, ∀ q ∈ r.hosts, ¬ Matches lower raw q) :
    findRoute lower enc true subst routes raw = .noRoute ∧
    (findRoute lower enc true subst routes raw).dialList = [] := by
  have hn : findRouteWithGroups (fun p => matchWithGroups lower true (clearHost raw) p) routes = none := by
    rw [no_match]
    intro r hr q hq
    cases hm : matchWithGroups lower true (clearHost raw) q with
    | none => rfl
    | some gs => exact absurd ((matches_iff lower raw q).mp (by simp [hm])) (h r hr q hq)
  have : findRoute lower enc true subst routes raw = .noRoute := by
    unfold findRoute; simp [hn]
  exact ⟨this, by rw [this]; rfl⟩

/-- conversely every address that can be dialled comes from a route with a matching pattern -/
theorem dial_implies_match (lower : Bytes → Str) (enc : Str → Bytes) (subst : List Bytes → Bytes → Bytes)
    (routes : List Route) (raw : Bytes) (b : Bytes)
    (h : b ∈ (findRoute lower enc true subst routes raw).dialList) :
    ∃ r ∈ routes, ∃ q ∈ r.hosts, Matches lower raw q := by
  cases hr : findRoute lower enc true subst routes raw with
  | noRoute => simp [hr, RouteResult.dialList] at h
  | noBackend i p => simp [hr, RouteResult.dialList] at h
  | candidates i p bs =>
    obtain ⟨r, j, gs, h1, h2, h3, _⟩ := route_spec lower enc subst routes raw i p bs hr
    exact ⟨r, List.mem_of_getElem? h1, p, List.mem_of_getElem? h2, gs, h3⟩

/-! ### cleaned host -/

/-- Forge / TCPShield suffix removal: the kept text is everything before the first separator, and no separator
    starts inside it. -/
theorem clear_host_cut (sep s : Bytes) :
    (∃ rest, s = beforeFirst sep s ++ rest ∧ (rest = [] ∨ sep.isPrefixOf rest = true)) ∧
    (∀ k, k < (beforeFirst sep s).length → sep.isPrefixOf (s.drop k) = false) :=
  ⟨beforeFirst_split sep s, beforeFirst_no_sep sep s⟩

/-- surrounding dots: the cleaned host is the cut text minus leading and trailing dots, and has none left -/
theorem clear_host_trim (raw : Bytes) :
    ∃ a b, beforeFirst tcpShieldSep (beforeFirst forgeSep raw) = a ++ clearHost raw ++ b ∧
      (∀ x ∈ a, x = dotByte) ∧ (∀ x ∈ b, x = dotByte) ∧
      (clearHost raw).head? ≠ some dotByte ∧ (clearHost raw).getLast? ≠ some dotByte :=
  trim_spec dotByte _

example : clearHost ([46, 97, 46, 98, 46, 46, 0, 70, 77, 76, 0]) = [97, 46, 98] := by decide
example : clearHost ([97, 47, 47, 47, 49, 46, 50]) = [97] := by decide

/-! ### parameter substitution -/

/-- a template written as literal bytes (none of them `$`) and references `$k` (`1 ≤ k ≤ n`, none directly
    followed by a literal digit) expands to its literals and the referenced groups — whatever the groups
    contain (`$`, digits, nothing): inserted text is never scanned again. -/
theorem substitute_tokens (groups : List Bytes) (toks : List Tok) (hne : groups ≠ [])
    (hu : unambiguous groups.length toks = true) :
    substituteBytes groups (renderToks toks) = expandToks groups toks := by
  unfold substituteBytes substitute
  have : groups.isEmpty = false := by cases groups <;> simp_all
  simp only [this, Bool.false_eq_true, if_false]
  exact scan_tokens groups toks hu

theorem substitute_no_groups (template : Bytes) : substituteBytes [] template = template := rfl

example : unambiguous 2 [.ref 2, .lit 45, .ref 1] = true ∧
    renderToks [.ref 2, .lit 45, .ref 1] = [36, 50, 45, 36, 49] ∧
    substituteBytes [[120], [36, 49]] [36, 50, 45, 36, 49] = [36, 49, 45, 120] := by decide

/-! ### tie to the source: facts regenerated by `tools/gofacts` -/

open Gate.Gen.C29 in
/-- the string literals of the regex builder, in source order, are the ones `globToRegex true` uses -/
theorem src_regex_literals :
    regexLits = ["(?s)^", "\\?", "(.)", "$", "\\*", "(.*?)"] := by decide

theorem src_separators : forgeSep = [0] ∧ tcpShieldSep = [47, 47, 47] ∧
    Gate.Gen.C29.clearVirtualHostLits = ["."] := by decide

def before (a b : String) (cs : List String) : Bool := cs.idxOf a < cs.idxOf b && cs.idxOf b < cs.length

open Gate.Gen.C29 in
theorem src_call_shapes :
    clearVirtualHostCalls = ["strings.Split", "strings.Split", "strings.Trim", "return"] ∧
    before "strings.ToLower" "compiledRegexCache.Get" getRegexpCalls ∧
    before "getRegexp" "strings.ToLower" matchWithGroupsCalls ∧
    before "strings.ToLower" "reg.FindStringSubmatch" matchWithGroupsCalls ∧
    "matchWithGroups" ∈ findRouteWithGroupsCalls ∧
    before "ClearVirtualHost" "FindRouteWithGroups" findRouteCalls ∧
    before "FindRouteWithGroups" "substituteBackendParams" findRouteCalls ∧
    before "substituteBackendParams" "strategyManager.GetNextBackend" findRouteCalls ∧
    before "findRoute" "tryBackends" forwardCalls ∧ before "findRoute" "dialRoute" forwardCalls ∧
    "strings.NewReplacer().Replace" ∈ substituteCalls ∧ "strings.ReplaceAll" ∉ substituteCalls ∧
    substituteLits = ["$"] := by decide

/-! ### the two defects that were repaired, kept as kernel-checked witnesses -/

/-- before the fix (`.` without `(?s)`): the glob `*` does not match `a\nb` although glob semantics accepts it -/
theorem wildcard_newline_fails :
    ¬ (∀ pattern host : Str, globAccepts (elems pattern) host = true →
        (rxMatch (dotOk false) (elems pattern) host).isSome) := by
  intro h
  have := h ['*'] ['a', '\n', 'b'] (by decide)
  revert this; decide

/-- … and is correct on every host without a newline -/
theorem defective_match_partial (lower : Bytes → Str) (s pattern : Bytes) (h : '\n' ∉ lower s) :
    matchWithGroups lower false s pattern = matchWithGroups lower true s pattern := by
  unfold matchWithGroups
  rw [regex_of_glob, regex_of_glob]
  apply rxMatch_congr
  intro c hc
  have : c ≠ '\n' := fun e => h (e ▸ hc)
  simp [dotOk, this]

/-- before the fix (sequential `ReplaceAll` from `$n` down to `$1`): `$2-$1` with groups `x`, `$1` gave `x-x` -/
theorem substituteDefective_fails :
    substituteDefectiveBytes [[120], [36, 49]] (renderToks [.ref 2, .lit 45, .ref 1])
      ≠ expandToks [[120], [36, 49]] [.ref 2, .lit 45, .ref 1] := by decide

/-- … and coincides with the single pass when there is one group -/
theorem substituteDefective_partial (g template : Bytes) :
    substituteDefectiveBytes [g] template = substituteBytes [g] template := rfl

end Gate.C29.Props
