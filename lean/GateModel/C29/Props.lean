import GateModel.C29.Lemmas
namespace Gate.C29.Props
open Gate Gate.C29
theorem placeholder : True := trivial
end Gate.C29.Props
