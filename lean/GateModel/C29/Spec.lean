import GateModel.C29.Model
/-
C29 — the property's reference semantics, executable, and independent of the model's matcher:

* glob semantics: `inst es gs` instantiates an element sequence with one text per wildcard
  (`?` exactly one character, `*` any sequence); a host matches iff some assignment instantiates to it
  (`globAccepts` decides that without producing groups);
* first match: the first (route, host pattern) in configuration order that the reference accepts;
* substitution: a template given as tokens (literal bytes and parameter references) expands to the
  concatenation of its literals and the referenced groups (a reference beyond the number of groups stays as text).
-/
namespace Gate.C29
open Gate

/-- instantiate an element sequence with the texts of its wildcards -/
def inst : List Elem → Groups → Option Str
  | [], [] => some []
  | [], _ :: _ => none
  | .lit c :: p, gs => (inst p gs).map (c :: ·)
  | .any :: p, [x] :: gs => (inst p gs).map (x :: ·)
  | .any :: _, _ => none
  | .star :: p, g :: gs => (inst p gs).map (g ++ ·)
  | .star :: _, [] => none

def starAccepts (k : Str → Bool) : Str → Bool
  | [] => k []
  | c :: t => k (c :: t) || starAccepts k t

/-- reference glob matcher (boolean) -/
def globAccepts : List Elem → Str → Bool
  | [], s => s.isEmpty
  | .lit c :: p, s => match s with
    | h :: t => h = c && globAccepts p t
    | [] => false
  | .any :: p, s => match s with
    | _ :: t => globAccepts p t
    | [] => false
  | .star :: p, s => starAccepts (globAccepts p) s

/-- lengths of the texts taken by the `*` wildcards, in order (the `?` texts always have length one) -/
def starLens : List Elem → Groups → List Nat
  | .star :: p, g :: gs => g.length :: starLens p gs
  | .any :: p, _ :: gs => starLens p gs
  | .lit _ :: p, gs => starLens p gs
  | _, _ => []

/-- lexicographic `≤` on length vectors -/
def lexLe : List Nat → List Nat → Prop
  | [], _ => True
  | _ :: _, [] => False
  | a :: as, b :: bs => a < b ∨ (a = b ∧ lexLe as bs)

/-- index (route, host pattern) of the first pattern the reference accepts -/
def firstAcceptedHost (acc : Bytes → Bool) : Nat → List Bytes → Option Nat
  | _, [] => none
  | j, p :: ps => if acc p then some j else firstAcceptedHost acc (j + 1) ps
def firstAccepted (acc : Bytes → Bool) : Nat → List Route → Option (Nat × Nat)
  | _, [] => none
  | i, r :: rs => match firstAcceptedHost acc 0 r.hosts with
    | some j => some (i, j)
    | none => firstAccepted acc (i + 1) rs

/-! ### templates as tokens -/
inductive Tok where
  | lit (b : UInt8)
  | ref (k : Nat)
  deriving DecidableEq, Repr

def renderTok : Tok → Bytes
  | .lit b => [b]
  | .ref k => param dollarByte digitByte k
def renderToks (ts : List Tok) : Bytes := ts.flatMap renderTok

/-- intended expansion: a reference `1 ≤ k ≤ n` becomes group `k`, anything else stays as written -/
def expandTok (groups : List Bytes) : Tok → Bytes
  | .lit b => [b]
  | .ref k => if 1 ≤ k ∧ k ≤ groups.length then groups.getD (k - 1) [] else param dollarByte digitByte k
def expandToks (groups : List Bytes) (ts : List Tok) : Bytes := ts.flatMap (expandTok groups)

def isDigitByte (b : UInt8) : Bool := 48 ≤ b.toNat && b.toNat ≤ 57

/-- a tokenisation is unambiguous for `n` groups when no literal is `$`, every reference is in range `1..n`
    and no reference is directly followed by a literal digit (`$1` then `2` would read as `$12`) -/
def unambiguous (n : Nat) : List Tok → Bool
  | [] => true
  | .lit b :: ts => b != dollarByte && unambiguous n ts
  | .ref k :: ts => decide (1 ≤ k) && decide (k ≤ n) && unambiguous n ts &&
      (match ts with
       | .lit b :: _ => !isDigitByte b
       | _ => true)

end Gate.C29
