import GateModel.C27.Lemmas
import GateModel.Gen.C27
/-
C27 — resource-pack prompts never block and follow the client-version rules.

Property theorems only.  `stepL is117` is the model of the REPAIRED legacy handler (`handler_legacy.go`, and
`handler_legacy117.go` for `is117 = true`; fixes/C27-*.diff applied to /repo), `stepM` the model of `handler_modern.go`,
`stepLDefective` the legacy handler as found.  `runL`/`runM` run an arbitrary history (list of operations) and return
the final state and, per operation, its result and the observations it emitted (prompts written to the player, responses
written to the in-flight backend, status events fired, kicks) — all theorems quantify over ALL histories.
`FreshFrom 0 ops` = the queued packs carry fresh, increasing sequence numbers (every queue operation brings a new pack).
-/
namespace Gate.C27.Props
open Gate.C27

/-! ### 1. every call returns -/

/-- Legacy handlers (clients < 1.20.3): in every history every call returns with the handler's mutex free; the only
    call that does not return normally is `Remove`, which a legacy client's handler refuses by design. -/
theorem no_deadlock_legacy (is117 : Bool) (ops : List Op) :
    (runL is117 {} ops).1.held = false ∧
    ∀ e ∈ (runL is117 {} ops).2, e.2.1 ≠ .deadlock ∧ (e.2.1 = .panic → ∃ id, e.1 = .remove id) :=
  runL_rets is117 ops {} rfl

/-- Modern handler (1.20.3+): in every history every call returns normally. -/
theorem no_deadlock_modern (ops : List Op) :
    (runM {} ops).1.held = false ∧ ∀ e ∈ (runM {} ops).2, ∃ b, e.2.1 = .ok b :=
  runM_rets ops {} rfl

/-! ### 2. clients below 1.20.3: one outstanding prompt, in queue order, the head always prompted -/

/-- The prompt-discipline monitor (`Disc`) accepts the observations of every history: a pack is prompted only while
    no prompted pack is still waiting for its final response, and with a sequence number above every earlier prompt
    (queue order; no pack is prompted twice). -/
theorem single_outstanding_in_queue_order (is117 : Bool) (ops : List Op) (hf : FreshFrom 0 ops) :
    ∃ d, ({} : Disc).run (allObs (runL is117 {} ops).2) = some d := by
  have inv : InvL ({} : LSt) ({} : Disc) 0 :=
    ⟨by simp [SortedQ], by simp, by simp, by simp⟩
  obtain ⟨d, _, h, _⟩ := runL_disc is117 ops {} {} 0 rfl inv hf
  exact ⟨d, h⟩

/-- After every history the head of a non-empty queue IS the outstanding prompt: no queued pack (in particular no
    forced pack of a 1.17+ client) is skipped or left unprompted. -/
theorem head_of_queue_is_prompted (is117 : Bool) (ops : List Op) (hf : FreshFrom 0 ops) (q : Pack) (rest : List Pack)
    (hq : (runL is117 {} ops).1.queue = q :: rest) :
    ∃ d, ({} : Disc).run (allObs (runL is117 {} ops).2) = some d ∧ d.outstanding = some q.seq := by
  have inv : InvL ({} : LSt) ({} : Disc) 0 :=
    ⟨by simp [SortedQ], by simp, by simp, by simp⟩
  obtain ⟨d, hi, h, inv'⟩ := runL_disc is117 ops {} {} 0 rfl inv hf
  have hh := inv'.head
  simp only [hq] at hh
  exact ⟨d, h, hh.1⟩

/-! ### 3. auto-decline only after the client declined; never for a forced pack on 1.17+ -/

/-- The auto-decline monitor accepts every history: the handler synthesises a response only as DECLINED and only
    while the client's most recent ACCEPTED/DECLINED answer is DECLINED — in particular never before the client
    answered at all (the first pack is prompted). -/
theorem auto_decline_only_after_decline (is117 : Bool) (ops : List Op) :
    ∃ l, adRun none (allObs (runL is117 {} ops).2) = some l :=
  ⟨_, runL_ad is117 ops {} rfl⟩

/-- Whatever the handler auto-declines is not a forced pack of a 1.17+ client (that one is still prompted, see
    `head_of_queue_is_prompted`). -/
theorem forced_117_never_auto_declined (is117 : Bool) (ops : List Op) (s : Status) (p : Option Pack)
    (h : Obs.fired s p true ∈ allObs (runL is117 {} ops).2) :
    s = .declined ∧ ∃ q, p = some q ∧ (q.force && is117) = false :=
  runL_autoOk is117 ops {} _ h rfl

/-! ### 4. 1.20.3+: packs are tracked per id -/

/-- An operation about pack id `x` does not touch the outstanding list, the pending entry or the applied entry of any
    other id. -/
theorem modern_per_id (st : MSt) (op : Op) (x y : Nat) (hx : opId op = some x) (hy : y ≠ x) :
    (stepM st op).1.out y = st.out y ∧
    getL y (stepM st op).1.pending = getL y st.pending ∧
    getL y (stepM st op).1.applied = getL y st.applied :=
  stepM_other_ids st op x y hx hy

/-- One outstanding prompt per id: a pack is prompted only when it is queued while nothing of its id is outstanding,
    or when a FINAL response for its id has just consumed the previous head of that id's list (and then it is the new
    head). -/
theorem modern_prompt_only_when_id_free (st : MSt) (op : Op) (p : Pack) (hp : Obs.prompt p ∈ (stepM st op).2.2) :
    (op = .queue p ∧ st.out p.id = []) ∨
    (∃ s i h q rest, op = .response s i h ∧ s.intermediate = false ∧ st.out i = q :: rest ∧ p ∈ rest ∧
        ((stepM st op).1.out i).head? = some p) :=
  stepM_prompt_cases st op p hp

/-! ### 5. the backend is told iff the pack did not come from the proxy -/

/-- Legacy: handling a response (the client's or a synthesised one) writes exactly one response packet with the
    response's status/id/hash to the in-flight backend iff there is one and the pack is not a proxy-originated one,
    and nothing else to the backend. -/
theorem report_backend_iff_backend_origin_legacy (st : LSt) (s : Status) (id hash : Nat) (auto : Bool) :
    ((handleResponse st s id hash auto).2.1.filter (fun o => match o with | .report .. => true | _ => false)) =
      if st.backend ∧ handledOf st.queue.head? = false then [.report s id hash] else [] := by
  unfold handleResponse reportOf
  by_cases hk : (decide (s = .declined) && forceOf st.queue.head?) = true <;>
    by_cases hh : handledOf st.queue.head? = true <;> by_cases hb : st.backend = true <;>
    simp [hk, hh, hb, List.filter]

/-- Modern: likewise; for a repeated SUCCESSFUL of an untracked but applied pack the applied pack's origin decides. -/
theorem report_backend_iff_backend_origin_modern (st : MSt) (s : Status) (id hash : Nat) :
    ((respondM st s id hash).2.1.filter (fun o => match o with | .report .. => true | _ => false)) =
      let q := match earlyM s (st.out id).head? (getL id (popM st s id).applied) with
               | some a => some a
               | none => (st.out id).head?
      if st.backend ∧ handledOf q = false then [.report s id hash] else [] := by
  have hev : ∀ q, (eventsM s q).filter (fun o => match o with | .report .. => true | _ => false) = [] := by
    intro q
    unfold eventsM
    cases q with
    | none => rfl
    | some p => by_cases h : (decide (s = .declined) && p.force) = true <;> simp [h, List.filter]
  have htick : ∀ st' : MSt, (tickM st' id).filter (fun o => match o with | .report .. => true | _ => false) = [] := by
    intro st'; unfold tickM; split <;> simp [List.filter]
  have hrep : ∀ (b : Bool) (q : Option Pack),
      (reportOf b q s id hash).filter (fun o => match o with | .report .. => true | _ => false) =
        if b ∧ handledOf q = false then [.report s id hash] else [] := by
    intro b q
    unfold reportOf
    by_cases hh : handledOf q = true <;> by_cases hb : b = true <;> simp [hh, hb, List.filter]
  have hb1 : (popM st s id).backend = st.backend := by unfold popM; split <;> rfl
  have hb2 : (respondStM st s id).backend = st.backend := by
    unfold respondStM
    simp only []
    split
    · exact hb1
    · have : ∀ (x : MSt) q, (updateM x s id q).backend = x.backend := by
        intro x q; unfold updateM; cases s <;> simp <;> (cases q <;> rfl)
      rw [this]; exact hb1
  unfold respondM
  simp only []
  split
  · rename_i a he
    simp only [List.filter_append, hev, hrep, List.nil_append, hb1, he]
  · rename_i he
    by_cases hs : s.intermediate = true
    · simp only [hs, if_true, List.filter_append, hev, hrep, List.nil_append, List.filter_nil, hb2, he]
    · simp only [hs, Bool.false_eq_true, if_false, List.filter_append, hev, htick, hrep, List.nil_append, hb2, he]

/-! ### 6. the legacy handler as found violates the property (kernel-checked witnesses) -/

def wPack : Pack := ⟨1, 0, 1, false, false⟩

/-- The 1-operation witness: on the code as found, queueing a pack for a client below 1.20.3 never returns
    (`QueueResourcePack` holds the mutex and `tickResourcePackQueue` locks it again). -/
theorem no_deadlock_fails : (stepLDefective {} (.queue wPack)).2.1 = .deadlock := by decide

/-- … and so does every final response to a queued pack. -/
theorem final_response_deadlocks_fails :
    (stepLDefective { queue := [wPack] } (.response .successful 0 0)).2.1 = .deadlock := by decide

/-- A response while nothing is outstanding crashes the code as found (nil dereference). -/
theorem untracked_response_panics_fails : (stepLDefective {} (.response .successful 0 0)).2.1 = .panic := by decide

/-- With only the locks repaired but `prevResourceResponse` still a `bool` starting at `false`, the FIRST pack would
    be auto-declined instead of prompted: the monitor rejects, and no prompt is written. -/
theorem first_pack_auto_declined_fails :
    (stepL false initPrevFalse (.queue wPack)).2.2 = [.fired .declined (some wPack) true] ∧
    adRun none (stepL false initPrevFalse (.queue wPack)).2.2 = none := by
  constructor <;> decide

/-- The repaired handler on the same witnesses: the pack is prompted, responses return, untracked responses are
    passed to the backend. -/
theorem witnesses_repaired :
    stepL false {} (.queue wPack) = ({ queue := [wPack] }, .ok false, [.prompt wPack]) ∧
    (stepL true { queue := [wPack] } (.response .successful 0 0)).2.1 = .ok false ∧
    stepL false { backend := true } (.response .successful 0 0) =
      ({ backend := true }, .ok false, [.fired .successful none false, .report .successful 0 0]) := by
  refine ⟨?_, ?_, ?_⟩ <;> decide

/-- After a decline the repaired 1.17+ handler auto-declines the non-forced pack, reports it, and prompts the forced
    pack exactly once. -/
theorem decline_flushes_until_forced :
    (runL true { backend := true }
      [.queue ⟨1,0,1,false,false⟩, .queue ⟨2,0,2,false,false⟩, .queue ⟨3,0,3,true,false⟩, .response .declined 0 0]).2.map (·.2.2) =
    [[.prompt ⟨1,0,1,false,false⟩], [], [],
     [.fired .declined (some ⟨1,0,1,false,false⟩) false, .report .declined 0 0,
      .fired .declined (some ⟨2,0,2,false,false⟩) true, .report .declined 0 2,
      .prompt ⟨3,0,3,true,false⟩]] := by decide

/-- A pack whose id is already applied is queued again and DISCARDED: the call returns and the applied pack is forgotten
    (the state update every status performs is part of the model, see `legacy_status_cases`). -/
theorem discarded_forgets_applied_pack :
    (runL false {} [.queue ⟨1,1,1,false,false⟩, .response .successful 0 0, .queue ⟨2,1,1,false,false⟩,
                    .response .discarded 0 0]).1 = ({} : LSt) ∧
    (runL false {} [.queue ⟨1,1,1,false,false⟩, .response .successful 0 0, .queue ⟨2,1,1,false,false⟩]).1.applied =
      some ⟨1,1,1,false,false⟩ := by
  constructor <;> decide

/-! ### 7. the model's shape is the source's shape (regenerated facts) -/

/-- Only the entry points take the legacy handler's mutex; `tickResourcePackQueue` and `handleResponse` do not, and
    `tickResourcePackQueue` does not call back into a locking entry point. -/
theorem legacy_lock_regions :
    Gate.Gen.C27.legacyQueueCalls.take 2 = ["h.Lock", "defer:h.Unlock"] ∧
    Gate.Gen.C27.legacyOnResponseCalls.take 2 = ["h.Lock", "defer:h.Unlock"] ∧
    "h.Lock" ∉ Gate.Gen.C27.legacyTickCalls ∧ "h.RLock" ∉ Gate.Gen.C27.legacyTickCalls ∧
    "h.OnResourcePackResponse" ∉ Gate.Gen.C27.legacyTickCalls ∧ "h.onResourcePackResponse" ∉ Gate.Gen.C27.legacyTickCalls ∧
    "h.Lock" ∉ Gate.Gen.C27.legacyHandleResponseCalls ∧ "h.RLock" ∉ Gate.Gen.C27.legacyHandleResponseCalls ∧
    "h.tickResourcePackQueue" ∉ Gate.Gen.C27.legacyHandleResponseCalls := by decide

/-- Closed world: everything that runs with the legacy handler's mutex held — `handleResponse`, `tickResourcePackQueue`
    and what they call on the handler (`HandleResponseResult`, `SendResourcePackRequestPacket`, the event's kick
    predicate) down to the package helpers — calls only functions from this list, none of which takes the handler's
    mutex.  Any new call from a locked region (e.g. a locking accessor such as `ClearAppliedResourcePacks`) breaks
    this obligation. -/
def lockFreeCalls : List String :=
  ["return", "new", "len",
   -- the queue, the player, the event, the backend
   "h.outstandingPacks.Front", "h.outstandingPacks.Len", "h.outstandingPacks.TryPopFront", "h.outstandingPacks.PushBack",
   "h.player.Protocol", "h.player.Protocol().GreaterEqual", "h.player.Disconnect",
   "bundle.Status.Intermediate", "bundle.ResponsePacket", "newPlayerResourcePackStatusEvent", "event.FireParallel",
   "func:{", "}", "shouldDisconnectForForcePack", "e.Status", "e.PackInfo", "event.OverwriteKick", "errors.Join",
   "player.BackendInFlight", "backend.WritePacket", "player.Protocol", "queued.RequestPacket", "player.WritePacket",
   -- lock-free methods / helpers whose own call lists are checked below
   "h.handleResponse", "h.tickResourcePackQueue", "h.HandleResponseResult", "h.SendResourcePackRequestPacket",
   "handleResponseResult", "sendResourcePackRequestPacket", "h.l.shouldDisconnectForForcePack"]

theorem legacy_locked_region_is_closed :
    (∀ c ∈ Gate.Gen.C27.legacyHandleResponseCalls, c ∈ lockFreeCalls) ∧
    (∀ c ∈ Gate.Gen.C27.legacyTickCalls, c ∈ lockFreeCalls) ∧
    (∀ c ∈ Gate.Gen.C27.legacyHandleResultCalls, c ∈ lockFreeCalls) ∧
    (∀ c ∈ Gate.Gen.C27.legacySendRequestCalls, c ∈ lockFreeCalls) ∧
    (∀ c ∈ Gate.Gen.C27.legacyShouldDisconnectCalls, c ∈ lockFreeCalls) ∧
    (∀ c ∈ Gate.Gen.C27.legacy117ShouldDisconnectCalls, c ∈ lockFreeCalls) ∧
    (∀ c ∈ Gate.Gen.C27.handleResponseResultCalls, c ∈ lockFreeCalls) ∧
    (∀ c ∈ Gate.Gen.C27.sendRequestPacketCalls, c ∈ lockFreeCalls) ∧
    -- between Lock and Unlock the two entry points call only these
    (∀ c ∈ Gate.Gen.C27.legacyQueueCalls.drop 2, c ∈ lockFreeCalls) ∧
    (∀ c ∈ Gate.Gen.C27.legacyOnResponseCalls.drop 2, c ∈ lockFreeCalls) ∧
    -- the 1.17 wrapper only delegates
    Gate.Gen.C27.legacy117OnResponseCalls = ["h.l.onResourcePackResponse", "return"] ∧
    Gate.Gen.C27.legacy117QueueCalls = ["h.l.QueueResourcePack", "return"] := by decide

/-- Closed world for the modern handler: with its mutex held, `OnResourcePackResponse` calls only these; its tick
    merely TRIES to read-lock (`modern_lock_regions`). -/
def modernLockedCalls : List String :=
  ["m.outstandingPacks.Get", "m.outstandingPacks.Remove", "bundle.Status.Intermediate", "len", "delete", "return",
   "newPlayerResourcePackStatusEvent", "event.FireParallel", "func:{", "}", "e.Status", "e.PackInfo", "e.OverwriteKick",
   "m.player.Disconnect", "errors.Join", "m.HandleResponseResult", "m.tickResourcePackQueue",
   "m.TryRLock", "m.RUnlock", "m.SendResourcePackRequestPacket", "handleResponseResult", "sendResourcePackRequestPacket"]

theorem modern_locked_region_is_closed :
    (∀ c ∈ Gate.Gen.C27.modernOnResponseCalls.drop 2, c ∈ modernLockedCalls) ∧
    (∀ c ∈ Gate.Gen.C27.modernTickCalls, c ∈ modernLockedCalls) ∧
    (∀ c ∈ Gate.Gen.C27.modernHandleResultCalls, c ∈ modernLockedCalls) ∧
    (∀ c ∈ Gate.Gen.C27.modernSendRequestCalls, c ∈ modernLockedCalls) := by decide

/-- the response is handled (and reported) before the queue is ticked, once; an empty queue is popped with the
    non-panicking `TryPopFront` -/
theorem legacy_response_shape :
    Gate.Gen.C27.legacyOnResponseCalls =
      ["h.Lock", "defer:h.Unlock", "h.handleResponse", "bundle.Status.Intermediate", "h.tickResourcePackQueue",
       "errors.Join", "return"] ∧
    "h.outstandingPacks.TryPopFront" ∈ Gate.Gen.C27.legacyHandleResponseCalls ∧
    "h.outstandingPacks.PopFront" ∉ Gate.Gen.C27.legacyHandleResponseCalls ∧
    "h.handleResponse" ∈ Gate.Gen.C27.legacyTickCalls := by decide

/-- the statuses the legacy handler distinguishes are those of `updateL` -/
theorem legacy_status_cases :
    Gate.Gen.C27.legacyStatusCases =
      ["AcceptedResponseStatus", "DeclinedResponseStatus", "SuccessfulResponseStatus",
       "FailedDownloadResponseStatus", "DiscardedResponseStatus"] := by decide

/-- the modern handler releases its lock before ticking from `QueueResourcePack`, and its tick only TRIES to lock -/
theorem modern_lock_regions :
    Gate.Gen.C27.modernQueueCalls.take 6 =
      ["m.Lock", "m.outstandingPacks.Put", "m.outstandingPacks.Count", "m.outstandingPacks.Get", "m.Unlock",
       "m.tickResourcePackQueue"] ∧
    "m.Lock" ∉ Gate.Gen.C27.modernTickCalls ∧ "m.RLock" ∉ Gate.Gen.C27.modernTickCalls ∧
    "m.TryRLock" ∈ Gate.Gen.C27.modernTickCalls := by decide

/-- `handleResponseResult` writes to the in-flight backend only -/
theorem report_goes_to_backend_in_flight :
    Gate.Gen.C27.handleResponseResultCalls =
      ["player.BackendInFlight", "bundle.ResponsePacket", "backend.WritePacket", "return", "return"] := by decide

/-! ### 8. the hypotheses are satisfiable -/

example : FreshFrom 0 [.queue ⟨1,0,1,false,false⟩, .response .accepted 0 0, .queue ⟨2,0,0,true,true⟩, .clear] := by
  simp [FreshFrom]

end Gate.C27.Props
