import GateModel.Base.Line
import GateModel.C27.Model
/-
C27 driver.  Case lines:
  reset <protocol>                        new handler (legacy < 755 ≤ legacy117 < 765 ≤ modern)
  q <seq> <id> <hash> <force> <proxy>     QueueResourcePack
  r <status> <id> <hash>                  OnResourcePackResponse
  c | x <id> | b <0|1>                    clear | remove | backend present
Output: `<ret> <P…/B… in write order> ev=<sorted events> k=<kicks> p=<pending> a=<applied>`.
Verdict: the property's clauses evaluated by a monitor over the IMPLEMENTATION's outputs of the sequence so far
(every call returns; one outstanding prompt, in queue order, each pack prompted once; auto-decline only after a
client decline and never for a forced pack on 1.17+; the head of a non-empty queue is prompted; the backend is told
about a response iff the pack did not come from the proxy).
-/
namespace Gate.C27
open Gate

inductive Kind where | legacy | legacy117 | modern
  deriving DecidableEq

def kindOf (protocol : Nat) : Kind :=
  if protocol ≥ 765 then .modern else if protocol ≥ 755 then .legacy117 else .legacy

/-! ### rendering the model's behaviour -/

def obsSync : Obs → Option String
  | .prompt p => some ("P" ++ toString p.seq)
  | .report s id h => some ("B" ++ toString s.code ++ ":" ++ toString id ++ ":" ++ toString h)
  | _ => none
def obsEvent : Obs → Option String
  | .fired s p _ => some ("E" ++ toString s.code ++ ":" ++ (match p with | some q => toString q.seq | none => "_"))
  | _ => none

def joinC (xs : List String) : String := if xs.isEmpty then "-" else ",".intercalate xs
def sortS (xs : List String) : List String := xs.mergeSort (fun a b => decide (a ≤ b))
def sortN (xs : List Nat) : List Nat := xs.mergeSort (fun a b => decide (a ≤ b))
def showSeqs (xs : List Nat) : String := joinC ((sortN xs).map toString)

def showRet : Ret → String
  | .ok h => if h then "ok:1" else "ok:0"
  | .deadlock => "hang"
  | .panic => "panic"

def render (ret : Ret) (log : List Obs) (pending applied : List Nat) : String :=
  let k := (log.filter (· == .kick)).length
  let snap := match ret with
    | .deadlock => "p=? a=?"
    | _ => "p=" ++ showSeqs pending ++ " a=" ++ showSeqs applied
  showRet ret ++ " " ++ joinC (log.filterMap obsSync) ++ " ev=" ++ joinC (sortS (log.filterMap obsEvent)) ++
    " k=" ++ toString k ++ " " ++ snap

/-! ### parsing the implementation's output (for the monitor) -/

structure ImplOut where
  ret     : String
  prompts : List Nat
  reports : List String          -- "B<status>:<id>:<hash>"
  events  : List (Nat × Option Nat)   -- status code, pack seq
  kicks   : Nat
  applied : List Nat

def splitC (s : String) : List String := if s = "-" then [] else s.splitOn ","

def parseImpl (s : String) : Option ImplOut :=
  match s.splitOn " " with
  | [ret, sy, ev, k, _p, a] =>
    let sy := splitC sy
    let prompts := sy.filterMap fun x => if x.startsWith "P" then (x.drop 1).toNat? else none
    let reports := sy.filter (·.startsWith "B")
    let events := (splitC (ev.drop 3).toString).filterMap fun x =>
      match (x.drop 1).toString.splitOn ":" with
      | [c, q] => (c.toNat?).map fun c => (c, q.toNat?)
      | _ => none
    let applied := (splitC (a.drop 2).toString).filterMap String.toNat?
    some ⟨ret, prompts, reports, events, ((k.drop 2).toString.toNat?).getD 0, applied⟩
  | _ => none

/-! ### the monitor -/

structure Mon where
  kind     : Kind := .legacy
  packs    : List Pack := []            -- every pack queued so far
  prompted : List Nat := []             -- seqs prompted so far
  popped   : List Nat := []             -- seqs whose final response / auto-decline was seen
  lastAD   : Option Bool := none        -- last client answer among ACCEPTED (true) / DECLINED (false)
  backend  : Bool := false
  applied  : List Nat := []             -- the implementation's applied packs after the previous op

def Mon.pack (m : Mon) (seq : Nat) : Option Pack := m.packs.find? (·.seq == seq)

def isFinal (code : Nat) : Bool := code != 3 && code != 4

/-- outstanding (prompted, not yet popped) seqs sharing the queue of `p` (all of them for legacy, same id for modern) -/
def Mon.outstandingFor (m : Mon) (p : Pack) : List Nat :=
  (m.prompted.filter (fun s => !m.popped.contains s)).filter fun s =>
    match m.kind, m.pack s with
    | .modern, some q => q.id == p.id
    | .modern, none => false
    | _, _ => true

def expectReport (backend : Bool) (q : Option Pack) (code id hash : Nat) : List String :=
  if !backend then [] else
  match q with
  | some p => if p.proxy then [] else ["B" ++ toString code ++ ":" ++ toString id ++ ":" ++ toString hash]
  | none => ["B" ++ toString code ++ ":" ++ toString id ++ ":" ++ toString hash]

def monitor (m : Mon) (op : Op) (o : ImplOut) : Mon × String :=
  -- environment / bookkeeping first
  let m := match op with
    | .queue p => { m with packs := m.packs ++ [p] }
    | .backend b => { m with backend := b }
    | .response .accepted _ _ => { m with lastAD := some true }
    | .response .declined _ _ => { m with lastAD := some false }
    | _ => m
  let legacyRemove := (match op with | .remove _ => true | _ => false) && m.kind != .modern
  if o.ret = "hang" then (m, "viol:deadlock")
  else if o.ret = "panic" && !legacyRemove then (m, "viol:panic")
  else if o.ret = "panic" then (m, "ok")
  else
  -- which events are the handler's own auto-declines: DECLINED for a pack that was never prompted
  let autoE := o.events.filter fun e => e.1 == 1 && (match e.2 with | some s => !m.prompted.contains s | none => false)
  let clientE := o.events.filter fun e => !(e.1 == 1 && (match e.2 with | some s => !m.prompted.contains s | none => false))
  let autoBad := autoE.any fun e =>
    match e.2.bind m.pack with
    | some p => m.lastAD != some false || (p.force && m.kind == .legacy117) || m.kind == .modern
    | none => true
  -- pops
  let m1 := { m with popped := m.popped ++ (o.events.filter (fun e => isFinal e.1)).filterMap (·.2) }
  -- prompts, one at a time
  let step := fun (acc : Mon × Option String) (s : Nat) =>
    let (mm, bad) := acc
    match bad with
    | some _ => acc
    | none =>
      match mm.pack s with
      | none => (mm, some "viol:prompt-unknown-pack")
      | some p =>
        if mm.prompted.contains s then (mm, some "viol:prompted-twice")
        else if !(mm.outstandingFor p).isEmpty then (mm, some "viol:second-prompt-outstanding")
        else if mm.kind != .modern && mm.prompted.any (fun t => t > s) then (mm, some "viol:prompt-order")
        else ({ mm with prompted := mm.prompted ++ [s] }, none)
  let (m2, bad) := o.prompts.foldl step (m1, none)
  -- the head of every non-empty queue must be prompted
  let waiting := m2.packs.filter fun p => !m2.popped.contains p.seq
  let headMissing := match m2.kind with
    | .modern => waiting.any fun p => (m2.outstandingFor p).isEmpty
    | _ => !waiting.isEmpty && (match waiting.head? with | some p => (m2.outstandingFor p).isEmpty | none => false)
  -- backend reports
  let expAuto := autoE.flatMap fun e =>
    match e.2.bind m.pack with
    | some p => expectReport m.backend (some p) 1 p.id p.hash
    | none => []
  let expClient := match op with
    | .response s id hash =>
      match clientE.head? with
      | some e => expectReport m.backend (e.2.bind m.pack) s.code id hash
      | none =>
        -- modern, untracked: a repeated SUCCESSFUL for an applied pack goes by that pack's origin
        let viaApplied := if s = .successful then (m.applied.filterMap m.pack).find? (·.id == id) else none
        expectReport m.backend viaApplied s.code id hash
    | _ => []
  let reportsOk := sortS o.reports == sortS (expAuto ++ expClient)
  let m3 := { m2 with applied := o.applied }
  let m3 := match op with
    | .clear => if m3.kind == .modern then { m3 with popped := m3.packs.map (·.seq) } else m3
    | .remove id => if m3.kind == .modern then
        { m3 with popped := m3.popped ++ (m3.packs.filter (·.id == id)).map (·.seq) } else m3
    | _ => m3
  let v :=
    match bad with
    | some b => b
    | none =>
      if autoBad then "viol:auto-decline-without-decline"
      else if headMissing && (match op with | .clear | .remove _ => false | _ => true) then "viol:head-not-prompted"
      else if !reportsOk then "viol:backend-report"
      else "ok"
  (m3, v)

/-! ### driver state -/

structure DS where
  kind : Kind := .legacy
  l    : LSt := {}
  m    : MSt := {}
  mon  : Mon := {}

def parseOp (c : Case) : Option Op :=
  match c.op, c.args with
  | "q", [s, i, h, f, p] => do pure (.queue ⟨← s.toNat?, ← i.toNat?, ← h.toNat?, f == "1", p == "1"⟩)
  | "r", [s, i, h] => do pure (.response (← (← s.toNat?) |> Status.ofCode) (← i.toNat?) (← h.toNat?))
  | "c", [] => some .clear
  | "x", [i] => do pure (.remove (← i.toNat?))
  | "b", [b] => some (.backend (b == "1"))
  | _, _ => none

def step (s : DS) (c : Case) : DS × String × String :=
  if c.op = "reset" then
    match c.args with
    | [p] =>
      let k := kindOf (p.toNat?.getD 0)
      ({ kind := k, mon := { kind := k } }, "-", "-")
    | _ => (s, "bad-op", "-")
  else
  match parseOp c with
  | none => (s, "bad-op", "-")
  | some op =>
    let (s', out) : DS × String := match s.kind with
      | .modern =>
        let r := stepM s.m op
        ({ s with m := r.1 }, render r.2.1 r.2.2 (r.1.pending.map (·.2.seq)) (r.1.applied.map (·.2.seq)))
      | k =>
        let r := stepL (k == .legacy117) s.l op
        ({ s with l := r.1 }, render r.2.1 r.2.2 (r.1.pending.toList.map (·.seq)) (r.1.applied.toList.map (·.seq)))
    match parseImpl c.impl with
    | none => (s', out, "viol:unparsable-output")
    | some o =>
      let (mon, v) := monitor s.mon op o
      ({ s' with mon := mon }, out, v)

end Gate.C27

def main : IO Unit := Gate.runDriver ({} : Gate.C27.DS) Gate.C27.step
