/-
C27 — model of the resource-pack handlers in `pkg/edition/java/proxy/internal/resourcepack`:
`handler_legacy.go` (clients < 1.17), `handler_legacy117.go` (1.17 – 1.20.2, a wrapper around the legacy
handler) and `handler_modern.go` (1.20.3+), with the shared helpers of `handler.go`.

Each handler is a state machine `step : State → Op → State × Ret`; the handler's `sync.RWMutex` is explicit
state (`held`): an entry point that finds it held returns `deadlock` (a non-reentrant lock re-acquired by its
holder never returns), `remove` on a legacy handler and a dereferenced nil are `panic`.  Everything the handler
does to the outside is returned, per call, as a list of observations in program order: request packets written to the player (`prompt`),
response packets written to the in-flight backend (`report`), status events fired (`fired`; `auto` marks the
DECLINED response the handler synthesises when it flushes the queue) and forced-pack kicks (`kick`).

`stepL`/`stepM` are the REPAIRED code (what /repo contains with fixes/C27-*.diff applied); `stepLDefective` is the
legacy handler as found.  Core Lean only.
-/
namespace Gate.C27

inductive Status where
  | successful | declined | failedDownload | accepted | downloaded | invalidURL | failedReload | discarded
  deriving DecidableEq, Repr

/-- `ResponseStatus.Intermediate()` -/
def Status.intermediate : Status → Bool
  | .accepted | .downloaded => true
  | _ => false

def Status.code : Status → Nat
  | .successful => 0 | .declined => 1 | .failedDownload => 2 | .accepted => 3
  | .downloaded => 4 | .invalidURL => 5 | .failedReload => 6 | .discarded => 7

def Status.ofCode : Nat → Option Status
  | 0 => some .successful | 1 => some .declined | 2 => some .failedDownload | 3 => some .accepted
  | 4 => some .downloaded | 5 => some .invalidURL | 6 => some .failedReload | 7 => some .discarded
  | _ => none

/-- a `*resourcepack.Info`; `seq` is its identity (a fresh number per queue operation), `id` the pack UUID
    (0 = `uuid.Nil`), `hash` a tag for its hash (0 = none) -/
structure Pack where
  seq   : Nat
  id    : Nat
  hash  : Nat
  force : Bool      -- ShouldForce
  proxy : Bool      -- Origin == PluginOnProxyOrigin
  deriving DecidableEq, Repr

inductive Obs where
  | prompt (p : Pack)                                     -- request packet for pack p written to the player
  | report (s : Status) (id hash : Nat)                   -- response packet written to the backend
  | fired (s : Status) (p : Option Pack) (auto : Bool)    -- PlayerResourcePackStatusEvent for pack p
  | kick                                                  -- Disconnect(requiredTexturePrompt.disconnect)
  deriving DecidableEq, Repr

inductive Ret where
  | ok (handled : Bool)
  | deadlock
  | panic
  deriving DecidableEq, Repr

inductive Op where
  | queue (p : Pack)                          -- QueueResourcePack
  | response (s : Status) (id hash : Nat)     -- OnResourcePackResponse(bundle)
  | clear                                     -- ClearAppliedResourcePacks
  | remove (id : Nat)                         -- Remove
  | backend (present : Bool)                  -- environment: BackendInFlight() becomes (non-)nil
  deriving DecidableEq, Repr

/-! ### shared helpers (`handler.go`) -/

def forceOf (q : Option Pack) : Bool := match q with | some p => p.force | none => false

/-- `handleResponseResult`: `handled` -/
def handledOf (q : Option Pack) : Bool := match q with | some p => p.proxy | none => false

/-- `handleResponseResult`: the backend is told unless the pack came from the proxy -/
def reportOf (backend : Bool) (q : Option Pack) (s : Status) (id hash : Nat) : List Obs :=
  if handledOf q then [] else if backend then [.report s id hash] else []

/-! ### legacy handlers (< 1.20.3) -/

structure LSt where
  queue   : List Pack   := []        -- outstandingPacks
  prev    : Option Bool := none      -- prevResourceResponse (nil until the client accepted / declined once)
  pending : Option Pack := none
  applied : Option Pack := none
  backend : Bool := false
  held    : Bool := false            -- the handler's mutex
  deriving DecidableEq, Repr

/-- the state update of `handleResponse` -/
def updateL (st : LSt) (s : Status) (q : Option Pack) : LSt :=
  match s with
  | .accepted => { st with prev := some true, pending := q }
  | .declined => { st with prev := some false }
  | .successful => { st with applied := q, pending := none }
  | .failedDownload => { st with pending := none }
  | .discarded =>
    match q, st.applied with
    | some p, some a => if p.id ≠ 0 ∧ a.id = p.id then { st with applied := none } else st
    | _, _ => st
  | _ => st

/-- `handleResponse` (lock held): take the pack the response is for, fire the event, update, tell the backend.
    Returns the new state, what was emitted, and `handled`. -/
def handleResponse (st : LSt) (s : Status) (bid bhash : Nat) (auto : Bool) : LSt × List Obs × Bool :=
  let q := st.queue.head?
  let st' := if s.intermediate then st else { st with queue := st.queue.tail }
  (updateL st' s q,
   [.fired s q auto] ++ (if decide (s = .declined) && forceOf q then [.kick] else []) ++
     reportOf st.backend q s bid bhash,
   handledOf q)

/-- the flush loop of `tickResourcePackQueue` (the client declined before): decline everything up to the first
    forced pack of a 1.17+ client, which is prompted anyway -/
def declineLoop (is117 : Bool) : Nat → LSt → LSt × List Obs
  | 0, st => (st, [])
  | fuel + 1, st =>
    match st.queue with
    | [] => (st, [])
    | q :: _ =>
      if q.force && is117 then (st, [.prompt q])
      else
        let r := handleResponse st .declined q.id q.hash true
        let r' := declineLoop is117 fuel r.1
        (r'.1, r.2.1 ++ r'.2)

/-- `tickResourcePackQueue` (lock held) -/
def tick (is117 : Bool) (st : LSt) : LSt × List Obs :=
  match st.queue with
  | [] => (st, [])
  | q :: _ =>
    if st.prev = some false then declineLoop is117 st.queue.length st
    else (st, [.prompt q])

/-- an entry point: `h.Lock(); defer h.Unlock()` -/
def withLockL (st : LSt) (body : LSt → LSt × List Obs × Bool) : LSt × Ret × List Obs :=
  if st.held then (st, .deadlock, [])
  else
    let r := body { st with held := true }
    ({ r.1 with held := false }, .ok r.2.2, r.2.1)

/-- the repaired legacy handler; `is117` = the client is 1.17+ (`legacy117Handler`) -/
def stepL (is117 : Bool) (st : LSt) : Op → LSt × Ret × List Obs
  | .queue p => withLockL st fun st =>
      let st := { st with queue := st.queue ++ [p] }
      if st.queue.length = 1 then let t := tick is117 st; (t.1, t.2, false) else (st, [], false)
  | .response s id hash => withLockL st fun st =>
      let r := handleResponse st s id hash false
      if s.intermediate then r
      else let t := tick is117 r.1; (t.1, r.2.1 ++ t.2, r.2.2)
  | .clear => withLockL st fun st => ({ st with applied := none }, [], false)
  | .remove _ => (st, .panic, [])   -- "Cannot remove a ResourcePack from a legacy client" (Velocity throws too)
  | .backend b => ({ st with backend := b }, .ok false, [])

/-- The legacy handler AS FOUND: `QueueResourcePack` and `onResourcePackResponse` call
    `tickResourcePackQueue` with the mutex held and `tickResourcePackQueue` locks it again; a response with an
    empty queue dereferences nil (`*queued`, `PopFront` on an empty deque). -/
def stepLDefective (st : LSt) : Op → LSt × Ret × List Obs
  | .queue p =>
    if st.held then (st, .deadlock, []) else
    let st := { st with queue := st.queue ++ [p], held := true }
    if st.queue.length = 1 then (st, .deadlock, [])          -- tickResourcePackQueue: h.Lock() again
    else ({ st with held := false }, .ok false, [])
  | .response s id hash =>
    if st.held then (st, .deadlock, []) else
    match st.queue.head? with
    | none => (st, .panic, [])      -- PopFront on an empty deque / *queued with queued == nil (lock released by defer)
    | some q =>
      let st := { st with held := true }
      let r := handleResponse st s id hash false
      if s.intermediate then ({ r.1 with held := false }, .ok r.2.2, r.2.1)
      else
        -- event + state update happen, then tickResourcePackQueue locks again: the backend is never told
        (r.1, .deadlock, [.fired s (some q) false] ++ (if decide (s = .declined) && q.force then [.kick] else []))
  | .clear => if st.held then (st, .deadlock, []) else ({ st with applied := none }, .ok false, [])
  | .remove _ => (st, .panic, [])
  | .backend b => ({ st with backend := b }, .ok false, [])

/-- the state the code as found starts in: `prevResourceResponse bool` is `false`, i.e. "declined" -/
def initPrevFalse : LSt := { prev := some false }

/-- run a history: final state and, per operation, its result and what it emitted -/
def runL (is117 : Bool) : LSt → List Op → LSt × List (Op × Ret × List Obs)
  | st, [] => (st, [])
  | st, op :: ops =>
    let r := stepL is117 st op
    let rest := runL is117 r.1 ops
    (rest.1, (op, r.2.1, r.2.2) :: rest.2)

/-! ### modern handler (1.20.3+) -/

/-- association lists keyed by pack id -/
def getL {α} (k : Nat) : List (Nat × α) → Option α
  | [] => none
  | (k', v) :: r => if k' = k then some v else getL k r
def eraseL {α} (k : Nat) (l : List (Nat × α)) : List (Nat × α) := l.filter (fun e => e.1 != k)
def setL {α} (k : Nat) (v : α) (l : List (Nat × α)) : List (Nat × α) := eraseL k l ++ [(k, v)]

/-- `valuesSlice.Remove`: the removed slot is filled with the LAST element -/
def swapRemoveHead {α} : List α → List α
  | [] => []
  | [_] => []
  | _ :: r => r.getLast?.toList ++ r.dropLast

structure MSt where
  outstanding : List (Nat × List Pack) := []   -- multimap id → packs
  pending     : List (Nat × Pack) := []
  applied     : List (Nat × Pack) := []
  backend     : Bool := false
  held        : Bool := false
  deriving DecidableEq, Repr

def MSt.out (st : MSt) (id : Nat) : List Pack := (getL id st.outstanding).getD []
def MSt.setOut (st : MSt) (id : Nat) (l : List Pack) : MSt :=
  { st with outstanding := if l.isEmpty then eraseL id st.outstanding else setL id l st.outstanding }

/-- `tickResourcePackQueue(id)`: prompt the first outstanding pack of that id (takes no lock it could block on) -/
def tickM (st : MSt) (id : Nat) : List Obs :=
  match st.out id with
  | [] => []
  | p :: _ => [.prompt p]

def withLockM (st : MSt) (body : MSt → MSt × List Obs × Bool) : MSt × Ret × List Obs :=
  if st.held then (st, .deadlock, [])
  else
    let r := body { st with held := true }
    ({ r.1 with held := false }, .ok r.2.2, r.2.1)

/-- the state update of the modern `OnResourcePackResponse` (all but the early-return case) -/
def updateM (st : MSt) (s : Status) (id : Nat) (q : Option Pack) : MSt :=
  match s with
  | .accepted => (match q with | some p => { st with pending := setL id p st.pending } | none => st)
  | .successful =>
    let st := { st with pending := eraseL id st.pending }
    (match q with | some p => { st with applied := setL id p st.applied } | none => st)
  | .discarded => { st with pending := eraseL id st.pending, applied := eraseL id st.applied }
  | _ => st

/-- the SUCCESSFUL special case: a repeated SUCCESSFUL for an untracked but applied pack returns early through it -/
def earlyM (s : Status) (q a : Option Pack) : Option Pack :=
  if s = .successful ∧ q = none then a else none

/-- a final response removes the head of that id's list (`multimap.Remove`) -/
def popM (st : MSt) (s : Status) (id : Nat) : MSt :=
  if s.intermediate then st else st.setOut id (swapRemoveHead (st.out id))

/-- the event (and forced-pack kick) of the modern handler: only for a tracked pack -/
def eventsM (s : Status) (q : Option Pack) : List Obs :=
  match q with
  | none => []
  | some p => [.fired s (some p) false] ++ (if decide (s = .declined) && p.force then [.kick] else [])

/-- the state after the modern `OnResourcePackResponse` -/
def respondStM (st : MSt) (s : Status) (id : Nat) : MSt :=
  let q := (st.out id).head?
  let st1 := popM st s id
  match earlyM s q (getL id st1.applied) with
  | some _ => { st1 with pending := eraseL id st1.pending }
  | none => updateM st1 s id q

/-- the body of the modern `OnResourcePackResponse` (lock held) -/
def respondM (st : MSt) (s : Status) (id hash : Nat) : MSt × List Obs × Bool :=
  let q := (st.out id).head?
  let st1 := popM st s id
  let st2 := respondStM st s id
  match earlyM s q (getL id st1.applied) with
  | some a => (st2, eventsM s q ++ reportOf st1.backend (some a) s id hash, handledOf (some a))
  | none =>
    (st2, eventsM s q ++ (if s.intermediate then [] else tickM st2 id) ++ reportOf st2.backend q s id hash, handledOf q)

def stepM (st : MSt) : Op → MSt × Ret × List Obs
  | .queue p =>
    -- Lock; Put; Unlock; then tick outside the lock
    if st.held then (st, .deadlock, []) else
    let st := st.setOut p.id (st.out p.id ++ [p])
    (st, .ok false, if (st.out p.id).length = 1 then tickM st p.id else [])
  | .response s id hash => withLockM st fun st => respondM st s id hash
  | .clear => withLockM st fun st => ({ st with outstanding := [], pending := [], applied := [] }, [], false)
  | .remove id => withLockM st fun st =>
      let had := (getL id st.applied).isSome || (getL id st.pending).isSome
      ({ st with outstanding := eraseL id st.outstanding, pending := eraseL id st.pending,
                 applied := eraseL id st.applied }, [], had)
  | .backend b => ({ st with backend := b }, .ok false, [])

def runM : MSt → List Op → MSt × List (Op × Ret × List Obs)
  | st, [] => (st, [])
  | st, op :: ops =>
    let r := stepM st op
    let rest := runM r.1 ops
    (rest.1, (op, r.2.1, r.2.2) :: rest.2)

end Gate.C27
