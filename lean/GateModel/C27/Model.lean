/-
C27 — model of the resource-pack handlers in `pkg/edition/java/proxy/internal/resourcepack`:
`handler_legacy.go` (clients < 1.17), `handler_legacy117.go` (1.17 – 1.20.2, a wrapper around the legacy
handler) and `handler_modern.go` (1.20.3+), with the shared helpers of `handler.go`.

Each handler is a state machine `step : State → Op → State × Ret`; the handler's `sync.RWMutex` is explicit
state (`held`): an entry point that finds it held returns `deadlock` (a non-reentrant lock re-acquired by its
holder never returns), `remove` on a legacy handler and a dereferenced nil are `panic`.  Everything the handler
does to the outside is appended to `log` in program order: request packets written to the player (`prompt`),
response packets written to the in-flight backend (`report`), status events fired (`fired`; `auto` marks the
DECLINED response the handler synthesises when it flushes the queue) and forced-pack kicks (`kick`).

`stepL`/`stepM` are the REPAIRED code (what /repo contains with fixes/C27-*.diff applied); `stepLDefective` is the
legacy handler as found.  Core Lean only.
-/
namespace Gate.C27

inductive Status where
  | successful | declined | failedDownload | accepted | downloaded | invalidURL | failedReload | discarded
  deriving DecidableEq, Repr

/-- `ResponseStatus.Intermediate()` -/
def Status.intermediate : Status → Bool
  | .accepted | .downloaded => true
  | _ => false

def Status.code : Status → Nat
  | .successful => 0 | .declined => 1 | .failedDownload => 2 | .accepted => 3
  | .downloaded => 4 | .invalidURL => 5 | .failedReload => 6 | .discarded => 7

def Status.ofCode : Nat → Option Status
  | 0 => some .successful | 1 => some .declined | 2 => some .failedDownload | 3 => some .accepted
  | 4 => some .downloaded | 5 => some .invalidURL | 6 => some .failedReload | 7 => some .discarded
  | _ => none

/-- a `*resourcepack.Info`; `seq` is its identity (a fresh number per queue operation), `id` the pack UUID
    (0 = `uuid.Nil`), `hash` a tag for its hash (0 = none) -/
structure Pack where
  seq   : Nat
  id    : Nat
  hash  : Nat
  force : Bool      -- ShouldForce
  proxy : Bool      -- Origin == PluginOnProxyOrigin
  deriving DecidableEq, Repr

inductive Obs where
  | prompt (seq : Nat)                                               -- request packet written to the player
  | report (s : Status) (id hash : Nat)                              -- response packet written to the backend
  | fired (s : Status) (pack : Option Nat) (auto : Bool)                 -- PlayerResourcePackStatusEvent (its pack)
  | kick                                                             -- Disconnect(requiredTexturePrompt.disconnect)
  deriving DecidableEq, Repr

inductive Ret where
  | ok (handled : Bool)
  | deadlock
  | panic
  deriving DecidableEq, Repr

inductive Op where
  | queue (p : Pack)                          -- QueueResourcePack
  | response (s : Status) (id hash : Nat)     -- OnResourcePackResponse(bundle)
  | clear                                     -- ClearAppliedResourcePacks
  | remove (id : Nat)                         -- Remove
  | backend (present : Bool)                  -- environment: BackendInFlight() becomes (non-)nil
  deriving DecidableEq, Repr

/-! ### shared helpers (`handler.go`) -/

def forceOf (q : Option Pack) : Bool := match q with | some p => p.force | none => false

/-- `handleResponseResult`: `handled` -/
def handledOf (q : Option Pack) : Bool := match q with | some p => p.proxy | none => false

/-- `handleResponseResult`: the backend is told unless the pack came from the proxy -/
def reportOf (backend : Bool) (q : Option Pack) (s : Status) (id hash : Nat) : List Obs :=
  if handledOf q then [] else if backend then [.report s id hash] else []

/-! ### legacy handlers (< 1.20.3) -/

structure LSt where
  queue   : List Pack   := []        -- outstandingPacks
  prev    : Option Bool := none      -- prevResourceResponse (nil until the client accepted / declined once)
  pending : Option Pack := none
  applied : Option Pack := none
  backend : Bool := false
  held    : Bool := false            -- the handler's mutex
  log     : List Obs := []
  deriving DecidableEq, Repr

def LSt.emit (st : LSt) (os : List Obs) : LSt := { st with log := st.log ++ os }

/-- `handleResponse` (lock held): take the pack the response is for, fire the event, update, tell the backend -/
def handleResponse (st : LSt) (s : Status) (bid bhash : Nat) (auto : Bool) : LSt × Bool :=
  let q := st.queue.head?
  let st := if s.intermediate then st else { st with queue := st.queue.tail }
  let ev : List Obs := [.fired s (q.map (·.seq)) auto]
  let kick : List Obs :=
    if decide (s = .declined) && forceOf q then [.kick] else []
  let st : LSt :=
    match s with
    | .accepted => { st with prev := some true, pending := q }
    | .declined => { st with prev := some false }
    | .successful => { st with applied := q, pending := none }
    | .failedDownload => { st with pending := none }
    | .discarded =>
      match q, st.applied with
      | some p, some a => if p.id ≠ 0 ∧ a.id = p.id then { st with applied := none } else st
      | _, _ => st
    | _ => st
  (st.emit (ev ++ kick ++ reportOf st.backend q s bid bhash), handledOf q)

/-- the flush loop of `tickResourcePackQueue` (the client declined before): decline everything up to the first
    forced pack of a 1.17+ client, which is prompted anyway -/
def declineLoop (is117 : Bool) : Nat → LSt → LSt
  | 0, st => st
  | fuel + 1, st =>
    match st.queue with
    | [] => st
    | q :: _ =>
      if q.force && is117 then st.emit [.prompt q.seq]
      else declineLoop is117 fuel (handleResponse st .declined q.id q.hash true).1

/-- `tickResourcePackQueue` (lock held) -/
def tick (is117 : Bool) (st : LSt) : LSt :=
  match st.queue with
  | [] => st
  | q :: _ =>
    if st.prev = some false then declineLoop is117 st.queue.length st
    else st.emit [.prompt q.seq]

/-- an entry point: `h.Lock(); defer h.Unlock()` -/
def withLockL (st : LSt) (body : LSt → LSt × Bool) : LSt × Ret :=
  if st.held then (st, .deadlock)
  else
    let r := body { st with held := true }
    ({ r.1 with held := false }, .ok r.2)

/-- the repaired legacy handler; `is117` = the client is 1.17+ (`legacy117Handler`) -/
def stepL (is117 : Bool) (st : LSt) : Op → LSt × Ret
  | .queue p => withLockL st fun st =>
      let st := { st with queue := st.queue ++ [p] }
      (if st.queue.length = 1 then tick is117 st else st, false)
  | .response s id hash => withLockL st fun st =>
      let r := handleResponse st s id hash false
      (if s.intermediate then r.1 else tick is117 r.1, r.2)
  | .clear => withLockL st fun st => ({ st with applied := none }, false)
  | .remove _ => (st, .panic)      -- "Cannot remove a ResourcePack from a legacy client" (Velocity throws too)
  | .backend b => ({ st with backend := b }, .ok false)

/-- The legacy handler AS FOUND: `QueueResourcePack` and `onResourcePackResponse` call
    `tickResourcePackQueue` with the mutex held and `tickResourcePackQueue` locks it again; a response with an
    empty queue dereferences nil (`*queued`, `PopFront` on an empty deque). -/
def stepLDefective (st : LSt) : Op → LSt × Ret
  | .queue p =>
    if st.held then (st, .deadlock) else
    let st := { st with queue := st.queue ++ [p], held := true }
    if st.queue.length = 1 then (st, .deadlock)          -- tickResourcePackQueue: h.Lock() again
    else ({ st with held := false }, .ok false)
  | .response s id hash =>
    if st.held then (st, .deadlock) else
    match st.queue.head? with
    | none => ({ st with held := true }, .panic)          -- PopFront on empty deque / *queued with queued == nil
    | some _ =>
      let st := { st with held := true }
      if s.intermediate then
        let r := handleResponse st s id hash false
        ({ r.1 with held := false }, .ok r.2)
      else
        -- event + state update happen, then tickResourcePackQueue locks again: nothing is reported
        let r := handleResponse { st with backend := false } s id hash false
        ({ r.1 with backend := st.backend }, .deadlock)
  | .clear => if st.held then (st, .deadlock) else ({ st with applied := none }, .ok false)
  | .remove _ => (st, .panic)
  | .backend b => ({ st with backend := b }, .ok false)

/-- the state the code as found starts in: `prevResourceResponse bool` is `false`, i.e. "declined" -/
def initPrevFalse : LSt := { prev := some false }

def runL (is117 : Bool) : LSt → List Op → LSt
  | st, [] => st
  | st, op :: ops => runL is117 (stepL is117 st op).1 ops

/-! ### modern handler (1.20.3+) -/

/-- association lists keyed by pack id -/
def getL {α} (k : Nat) : List (Nat × α) → Option α
  | [] => none
  | (k', v) :: r => if k' = k then some v else getL k r
def eraseL {α} (k : Nat) (l : List (Nat × α)) : List (Nat × α) := l.filter (fun e => e.1 != k)
def setL {α} (k : Nat) (v : α) (l : List (Nat × α)) : List (Nat × α) := eraseL k l ++ [(k, v)]

/-- `valuesSlice.Remove`: the removed slot is filled with the LAST element -/
def swapRemoveHead {α} : List α → List α
  | [] => []
  | [_] => []
  | _ :: r => r.getLast?.toList ++ r.dropLast

structure MSt where
  outstanding : List (Nat × List Pack) := []   -- multimap id → packs
  pending     : List (Nat × Pack) := []
  applied     : List (Nat × Pack) := []
  backend     : Bool := false
  held        : Bool := false
  log         : List Obs := []
  deriving DecidableEq, Repr

def MSt.emit (st : MSt) (os : List Obs) : MSt := { st with log := st.log ++ os }
def MSt.out (st : MSt) (id : Nat) : List Pack := (getL id st.outstanding).getD []
def MSt.setOut (st : MSt) (id : Nat) (l : List Pack) : MSt :=
  { st with outstanding := if l.isEmpty then eraseL id st.outstanding else setL id l st.outstanding }

/-- `tickResourcePackQueue(id)`: prompt the first outstanding pack of that id (takes no lock it could block on) -/
def tickM (st : MSt) (id : Nat) : MSt :=
  match st.out id with
  | [] => st
  | p :: _ => st.emit [.prompt p.seq]

def withLockM (st : MSt) (body : MSt → MSt × Bool) : MSt × Ret :=
  if st.held then (st, .deadlock)
  else
    let r := body { st with held := true }
    ({ r.1 with held := false }, .ok r.2)

def stepM (st : MSt) : Op → MSt × Ret
  | .queue p =>
    -- Lock; Put; Unlock; then tick outside the lock
    if st.held then (st, .deadlock) else
    let st := st.setOut p.id (st.out p.id ++ [p])
    (if (st.out p.id).length = 1 then tickM st p.id else st, .ok false)
  | .response s id hash => withLockM st fun st =>
    let l := st.out id
    let q := l.head?
    let st := if s.intermediate then st else st.setOut id (swapRemoveHead l)
    let st := match q with
      | none => st
      | some p => st.emit ([.fired s (some p.seq) false] ++
                    (if decide (s = .declined) && p.force then [.kick] else []))
    -- the SUCCESSFUL special case returns early through the applied pack
    match s, q, getL id st.applied with
    | .successful, none, some a =>
      let st := { st with pending := eraseL id st.pending }
      (st.emit (reportOf st.backend (some a) s id hash), handledOf (some a))
    | _, _, _ =>
      let st : MSt := match s with
        | .accepted => (match q with | some p => { st with pending := setL id p st.pending } | none => st)
        | .successful =>
          let st := { st with pending := eraseL id st.pending }
          (match q with | some p => { st with applied := setL id p st.applied } | none => st)
        | .discarded => { st with pending := eraseL id st.pending, applied := eraseL id st.applied }
        | _ => st
      let st := if s.intermediate then st else tickM st id
      (st.emit (reportOf st.backend q s id hash), handledOf q)
  | .clear => withLockM st fun st => ({ st with outstanding := [], pending := [], applied := [] }, false)
  | .remove id => withLockM st fun st =>
      let had := (getL id st.applied).isSome || (getL id st.pending).isSome
      ({ st with outstanding := eraseL id st.outstanding, pending := eraseL id st.pending,
                 applied := eraseL id st.applied }, had)
  | .backend b => ({ st with backend := b }, .ok false)

def runM : MSt → List Op → MSt
  | st, [] => st
  | st, op :: ops => runM (stepM st op).1 ops

end Gate.C27
