import GateModel.C27.Model
/-
C27 helper definitions and lemmas: the trace monitors that phrase the property's clauses, and the invariants
that tie them to the handler models.
-/
namespace Gate.C27

/-! ### monitors over the observations of a history -/

/-- concatenated observations of a history -/
def allObs (tr : List (Op × Ret × List Obs)) : List Obs := tr.flatMap (·.2.2)

/-- Prompt discipline for clients below 1.20.3: `outstanding` = the prompted pack still waiting for its final
    response, `last` = seq of the last prompted pack.  A prompt is legal only when nothing is outstanding and its
    seq is larger than every earlier prompt's (queue order, each pack at most once). -/
structure Disc where
  outstanding : Option Nat := none
  last : Nat := 0
  deriving DecidableEq, Repr

def Disc.step (d : Disc) : Obs → Option Disc
  | .prompt p => if d.outstanding = none ∧ d.last < p.seq then some ⟨some p.seq, p.seq⟩ else none
  | .fired s (some p) _ =>
    if s.intermediate = false ∧ d.outstanding = some p.seq then some { d with outstanding := none } else some d
  | _ => some d

def Disc.run (d : Disc) : List Obs → Option Disc
  | [] => some d
  | o :: os => (d.step o).bind (·.run os)

theorem Disc.run_append (d : Disc) (a b : List Obs) : d.run (a ++ b) = (d.run a).bind (·.run b) := by
  induction a generalizing d with
  | nil => simp [Disc.run]
  | cons o os ih =>
    simp only [List.cons_append, Disc.run]
    cases d.step o <;> simp [ih]

/-- Auto-decline rule: `last` = the client's last answer among ACCEPTED (`true`) / DECLINED (`false`).  A response
    synthesised by the handler (`auto`) must be DECLINED and is legal only while `last = some false`. -/
def adStep (last : Option Bool) : Obs → Option (Option Bool)
  | .fired s _ auto =>
    if auto then (if s = .declined ∧ last = some false then some last else none)
    else if s = .accepted then some (some true)
    else if s = .declined then some (some false)
    else some last
  | _ => some last

def adRun (last : Option Bool) : List Obs → Option (Option Bool)
  | [] => some last
  | o :: os => (adStep last o).bind (adRun · os)

theorem adRun_append (l : Option Bool) (a b : List Obs) : adRun l (a ++ b) = (adRun l a).bind (adRun · b) := by
  induction a generalizing l with
  | nil => simp [adRun]
  | cons o os ih =>
    simp only [List.cons_append, adRun]
    cases adStep l o <;> simp [ih]

/-- histories whose queued packs carry fresh, increasing sequence numbers above `hi` -/
def FreshFrom : Nat → List Op → Prop
  | _, [] => True
  | hi, .queue p :: ops => hi < p.seq ∧ FreshFrom p.seq ops
  | hi, _ :: ops => FreshFrom hi ops

/-! ### legacy handler: basic facts -/

@[simp] theorem updateL_queue (st : LSt) (s : Status) (q : Option Pack) : (updateL st s q).queue = st.queue := by
  unfold updateL
  cases s <;> simp
  · split <;> try rfl
    split <;> rfl

@[simp] theorem updateL_held (st : LSt) (s : Status) (q : Option Pack) : (updateL st s q).held = st.held := by
  unfold updateL
  cases s <;> simp
  · split <;> try rfl
    split <;> rfl

@[simp] theorem updateL_backend (st : LSt) (s : Status) (q : Option Pack) : (updateL st s q).backend = st.backend := by
  unfold updateL
  cases s <;> simp
  · split <;> try rfl
    split <;> rfl

theorem handleResponse_queue (st : LSt) (s : Status) (i h : Nat) (a : Bool) :
    (handleResponse st s i h a).1.queue = if s.intermediate then st.queue else st.queue.tail := by
  unfold handleResponse
  by_cases hs : s.intermediate <;> simp [hs]

@[simp] theorem handleResponse_held (st : LSt) (s : Status) (i h : Nat) (a : Bool) :
    (handleResponse st s i h a).1.held = st.held := by
  unfold handleResponse
  by_cases hs : s.intermediate <;> simp [hs]

theorem declineLoop_held (is117 : Bool) (fuel : Nat) (st : LSt) : (declineLoop is117 fuel st).1.held = st.held := by
  induction fuel generalizing st with
  | zero => rfl
  | succ n ih =>
    unfold declineLoop
    split
    · rfl
    · split
      · rfl
      · simp [ih]

theorem tick_held (is117 : Bool) (st : LSt) : (tick is117 st).1.held = st.held := by
  unfold tick
  split
  · rfl
  · split
    · exact declineLoop_held _ _ _
    · rfl

/-! ### legacy handler: prompt discipline -/

set_option linter.unusedSimpArgs false

def SortedQ (q : List Pack) : Prop := q.Pairwise (fun a b => a.seq < b.seq)

/-- between operations: the head of a non-empty queue is the outstanding prompt -/
structure InvL (st : LSt) (d : Disc) (hi : Nat) : Prop where
  sorted : SortedQ st.queue
  bound  : ∀ p ∈ st.queue, p.seq ≤ hi
  last   : d.last ≤ hi
  head   : match st.queue with
           | [] => d.outstanding = none
           | q :: _ => d.outstanding = some q.seq ∧ d.last = q.seq

/-- inside an operation, after the head was taken: nothing outstanding, everything queued is newer than any prompt -/
structure Mid (st : LSt) (d : Disc) (hi : Nat) : Prop where
  sorted : SortedQ st.queue
  bound  : ∀ p ∈ st.queue, p.seq ≤ hi
  last   : d.last ≤ hi
  none   : d.outstanding = none
  newer  : ∀ p ∈ st.queue, d.last < p.seq

/-- the monitor ignores kicks and reports -/
theorem Disc.run_kick_report (d : Disc) (k : Bool) (r : List Obs) (hr : ∀ o ∈ r, ∃ s i h, o = .report s i h) :
    d.run ((if k then [.kick] else []) ++ r) = some d := by
  have h2 : ∀ (r : List Obs), (∀ o ∈ r, ∃ s i h, o = .report s i h) → d.run r = some d := by
    intro r
    induction r with
    | nil => intro _; rfl
    | cons o os ih =>
      intro h
      obtain ⟨s, i, hh, rfl⟩ := h o (by simp)
      simp [Disc.run, Disc.step, ih (fun o ho => h o (by simp [ho]))]
  cases k <;> simp [Disc.run, Disc.step, h2 r hr]

theorem reportOf_reports (b : Bool) (q : Option Pack) (s : Status) (i h : Nat) :
    ∀ o ∈ reportOf b q s i h, ∃ s i h, o = .report s i h := by
  unfold reportOf
  split
  · simp
  · split <;> simp

theorem run_handleResponse (d : Disc) (st : LSt) (s : Status) (i h : Nat) (a : Bool) :
    d.run (handleResponse st s i h a).2.1 = d.step (.fired s st.queue.head? a) := by
  unfold handleResponse
  simp only [List.cons_append, List.nil_append, Disc.run]
  cases hd : d.step (.fired s st.queue.head? a) with
  | none => rfl
  | some d' =>
    simp only [Option.bind]
    exact Disc.run_kick_report d' _ _ (reportOf_reports _ _ _ _ _)

/-- a final response consumes the outstanding head -/
theorem handleResponse_final (st : LSt) (d : Disc) (hi : Nat) (s : Status) (i h : Nat) (a : Bool)
    (hs : s.intermediate = false) (inv : InvL st d hi) :
    ∃ d', d.run (handleResponse st s i h a).2.1 = some d' ∧ Mid (handleResponse st s i h a).1 d' hi := by
  have hq := handleResponse_queue st s i h a
  simp only [hs] at hq
  rw [run_handleResponse]
  cases hqu : st.queue with
  | nil =>
    have hd := inv.head; simp only [hqu] at hd
    refine ⟨d, by simp [Disc.step], ?_⟩
    refine ⟨?_, ?_, inv.last, hd, ?_⟩ <;> simp [hq, hqu, SortedQ]
  | cons q rest =>
    have hd := inv.head; simp only [hqu] at hd
    have hsort := inv.sorted; simp only [hqu, SortedQ, List.pairwise_cons] at hsort
    refine ⟨{ d with outstanding := none }, by simp [Disc.step, hs, hd.1], ?_⟩
    refine ⟨?_, ?_, inv.last, rfl, ?_⟩
    · simp [hq, hqu, SortedQ, hsort.2]
    · intro p hp; simp [hq, hqu] at hp; exact inv.bound p (by simp [hqu, hp])
    · intro p hp; simp [hq, hqu] at hp; simp [hd.2]; exact hsort.1 p hp

/-- an intermediate response (ACCEPTED / DOWNLOADED) leaves queue and monitor alone -/
theorem handleResponse_peek (st : LSt) (d : Disc) (hi : Nat) (s : Status) (i h : Nat) (a : Bool)
    (hs : s.intermediate = true) (inv : InvL st d hi) :
    d.run (handleResponse st s i h a).2.1 = some d ∧ InvL (handleResponse st s i h a).1 d hi := by
  have hq := handleResponse_queue st s i h a
  simp only [hs, if_true] at hq
  rw [run_handleResponse]
  constructor
  · cases hqu : st.queue <;> simp [Disc.step, hs]
  · exact ⟨by rw [hq]; exact inv.sorted, by rw [hq]; exact inv.bound, inv.last, by rw [hq]; exact inv.head⟩

/-- the flush loop declines unprompted packs only: the monitor never sees an outstanding prompt touched -/
theorem handleResponse_auto (st : LSt) (d : Disc) (hi : Nat) (i h : Nat) (m : Mid st d hi) :
    d.run (handleResponse st .declined i h true).2.1 = some d ∧ Mid (handleResponse st .declined i h true).1 d hi := by
  have hq := handleResponse_queue st .declined i h true
  simp only [Status.intermediate] at hq
  rw [run_handleResponse]
  constructor
  · cases hqu : st.queue <;> simp [Disc.step, m.none]
  · refine ⟨?_, ?_, m.last, m.none, ?_⟩
    · rw [hq]; exact List.Pairwise.sublist (List.tail_sublist _) m.sorted
    · intro p hp; rw [hq] at hp; exact m.bound p (List.mem_of_mem_tail hp)
    · intro p hp; rw [hq] at hp; exact m.newer p (List.mem_of_mem_tail hp)

theorem declineLoop_inv (is117 : Bool) (fuel : Nat) (st : LSt) (d : Disc) (hi : Nat)
    (hf : st.queue.length ≤ fuel) (m : Mid st d hi) :
    ∃ d', d.run (declineLoop is117 fuel st).2 = some d' ∧ InvL (declineLoop is117 fuel st).1 d' hi := by
  induction fuel generalizing st d with
  | zero =>
    have : st.queue = [] := List.eq_nil_of_length_eq_zero (by omega)
    exact ⟨d, rfl, ⟨m.sorted, m.bound, m.last, by simp [declineLoop, this, m.none]⟩⟩
  | succ n ih =>
    unfold declineLoop
    cases hqu : st.queue with
    | nil => exact ⟨d, rfl, ⟨m.sorted, m.bound, m.last, by simp [hqu, m.none]⟩⟩
    | cons q rest =>
      simp only
      by_cases hforce : (q.force && is117) = true
      · simp only [hforce, if_true]
        have hnew := m.newer q (by simp [hqu])
        refine ⟨⟨some q.seq, q.seq⟩, by simp [Disc.run, Disc.step, m.none, hnew], ?_⟩
        exact ⟨m.sorted, m.bound, m.bound q (by simp [hqu]), by simp [hqu]⟩
      · simp only [hforce]
        obtain ⟨h1, h2⟩ := handleResponse_auto st d hi q.id q.hash m
        have hlen : (handleResponse st .declined q.id q.hash true).1.queue.length ≤ n := by
          rw [handleResponse_queue]; simp [Status.intermediate, hqu] at hf ⊢; omega
        obtain ⟨d', h3, h4⟩ := ih _ d hlen h2
        exact ⟨d', by simp [Disc.run_append, h1, h3], h4⟩

theorem tick_inv (is117 : Bool) (st : LSt) (d : Disc) (hi : Nat) (m : Mid st d hi) :
    ∃ d', d.run (tick is117 st).2 = some d' ∧ InvL (tick is117 st).1 d' hi := by
  unfold tick
  cases hqu : st.queue with
  | nil => exact ⟨d, rfl, ⟨m.sorted, m.bound, m.last, by simp [hqu, m.none]⟩⟩
  | cons q rest =>
    simp only
    by_cases hp : st.prev = some false
    · simp only [hp, if_true]
      have := declineLoop_inv is117 (q :: rest).length st d hi (by simp [hqu]) m
      simpa [hqu] using this
    · simp only [hp, if_false]
      have hnew := m.newer q (by simp [hqu])
      refine ⟨⟨some q.seq, q.seq⟩, by simp [Disc.run, Disc.step, m.none, hnew], ?_⟩
      exact ⟨m.sorted, m.bound, m.bound q (by simp [hqu]), by simp [hqu]⟩

theorem InvL.congr {st : LSt} {d : Disc} {hi : Nat} (inv : InvL st d hi) {st' : LSt} (h : st'.queue = st.queue) : InvL st' d hi :=
  ⟨by rw [h]; exact inv.sorted, by rw [h]; exact inv.bound, inv.last, by rw [h]; exact inv.head⟩
theorem Mid.congr {st : LSt} {d : Disc} {hi : Nat} (m : Mid st d hi) {st' : LSt} (h : st'.queue = st.queue) : Mid st' d hi :=
  ⟨by rw [h]; exact m.sorted, by rw [h]; exact m.bound, m.last, m.none, by rw [h]; exact m.newer⟩

def nextHi (hi : Nat) : Op → Nat
  | .queue p => p.seq
  | _ => hi
def freshOp (hi : Nat) : Op → Prop
  | .queue p => hi < p.seq
  | _ => True

theorem stepL_inv (is117 : Bool) (st : LSt) (d : Disc) (hi : Nat) (op : Op)
    (hheld : st.held = false) (inv : InvL st d hi) (hf : freshOp hi op) :
    ∃ d', d.run (stepL is117 st op).2.2 = some d' ∧ InvL (stepL is117 st op).1 d' (nextHi hi op) := by
  cases op with
  | queue p =>
    simp only [freshOp] at hf
    simp only [stepL, withLockL, hheld, nextHi, Bool.false_eq_true, ↓reduceIte]
    cases hqu : st.queue with
    | nil =>
      have hd := inv.head; simp only [hqu] at hd
      have m : Mid { st with queue := st.queue ++ [p], held := true } d p.seq :=
        ⟨by simp [hqu, SortedQ], by simp [hqu], by have := inv.last; omega, hd,
         by intro q hq; simp [hqu] at hq; subst hq; have := inv.last; omega⟩
      obtain ⟨d', h1, h2⟩ := tick_inv is117 _ d p.seq m
      refine ⟨d', ?_, ?_⟩
      · simpa [hqu] using h1
      · simp only [hqu, List.nil_append, List.length_cons, List.length_nil, if_true]
        simp only [hqu, List.nil_append] at h2
        exact h2.congr rfl
    | cons q rest =>
      have hd := inv.head; simp only [hqu] at hd
      refine ⟨d, by simp [hqu, Disc.run], ?_⟩
      simp only [hqu, List.cons_append, List.length_cons]
      have hne : ¬ (rest ++ [p]).length + 1 = 1 := by simp
      simp only [hne, if_false]
      refine ⟨?_, ?_, by have := inv.last; omega, ?_⟩
      · have hs := inv.sorted
        simp only [hqu, SortedQ] at hs ⊢
        rw [← List.cons_append, List.pairwise_append]
        refine ⟨hs, by simp, ?_⟩
        intro a ha b hb
        simp at hb; subst hb
        have := inv.bound a (by simp [hqu]; simpa using ha)
        omega
      · intro a ha
        simp at ha
        rcases ha with rfl | ha | rfl
        · have := inv.bound a (by simp [hqu]); omega
        · have := inv.bound a (by simp [hqu, ha]); omega
        · omega
      · simpa using hd
  | response s i h =>
    simp only [stepL, withLockL, hheld, nextHi, Bool.false_eq_true, ↓reduceIte]
    have inv' : InvL { st with held := true } d hi := inv.congr rfl
    by_cases hs : s.intermediate = true
    · obtain ⟨h1, h2⟩ := handleResponse_peek _ d hi s i h false hs inv'
      exact ⟨d, by simpa [hs] using h1, by simp only [hs, if_true]; exact h2.congr rfl⟩
    · have hs' : s.intermediate = false := by simpa using hs
      obtain ⟨d1, h1, m⟩ := handleResponse_final _ d hi s i h false hs' inv'
      obtain ⟨d2, h2, h3⟩ := tick_inv is117 _ d1 hi m
      refine ⟨d2, ?_, ?_⟩
      · simp only [hs', Bool.false_eq_true, if_false]
        simp [Disc.run_append, h1, h2]
      · simp only [hs', Bool.false_eq_true, if_false]
        exact h3.congr rfl
  | clear =>
    simp only [stepL, withLockL, hheld, nextHi, Bool.false_eq_true, ↓reduceIte]
    exact ⟨d, rfl, inv.congr rfl⟩
  | remove id =>
    simp only [stepL, nextHi]
    exact ⟨d, rfl, inv⟩
  | backend b =>
    simp only [stepL, nextHi]
    exact ⟨d, rfl, inv.congr rfl⟩

theorem stepL_held (is117 : Bool) (st : LSt) (op : Op) (h : st.held = false) :
    (stepL is117 st op).1.held = false ∧ (stepL is117 st op).2.1 ≠ .deadlock ∧
    ((stepL is117 st op).2.1 = .panic → ∃ id, op = .remove id) := by
  cases op <;> simp [stepL, withLockL, h]

/-! ### legacy handler: whole histories -/

theorem runL_disc (is117 : Bool) (ops : List Op) (st : LSt) (d : Disc) (hi : Nat)
    (hheld : st.held = false) (inv : InvL st d hi) (hf : FreshFrom hi ops) :
    ∃ d' hi', d.run (allObs (runL is117 st ops).2) = some d' ∧ InvL (runL is117 st ops).1 d' hi' := by
  induction ops generalizing st d hi with
  | nil => exact ⟨d, hi, rfl, inv⟩
  | cons op ops ih =>
    have hfo : freshOp hi op := by cases op <;> simp_all [FreshFrom, freshOp]
    have hfr : FreshFrom (nextHi hi op) ops := by cases op <;> simp_all [FreshFrom, nextHi]
    obtain ⟨d1, h1, inv1⟩ := stepL_inv is117 st d hi op hheld inv hfo
    obtain ⟨d2, hi2, h2, inv2⟩ := ih _ d1 _ (stepL_held is117 st op hheld).1 inv1 hfr
    refine ⟨d2, hi2, ?_, inv2⟩
    simp only [runL, allObs, List.flatMap_cons]
    simp only [allObs] at h2
    rw [Disc.run_append, h1]
    exact h2

theorem runL_rets (is117 : Bool) (ops : List Op) (st : LSt) (hheld : st.held = false) :
    (runL is117 st ops).1.held = false ∧
    ∀ e ∈ (runL is117 st ops).2, e.2.1 ≠ .deadlock ∧ (e.2.1 = .panic → ∃ id, e.1 = .remove id) := by
  induction ops generalizing st with
  | nil => exact ⟨hheld, by simp [runL]⟩
  | cons op ops ih =>
    obtain ⟨h1, h2, h3⟩ := stepL_held is117 st op hheld
    obtain ⟨h4, h5⟩ := ih _ h1
    refine ⟨h4, ?_⟩
    intro e he
    simp only [runL, List.mem_cons] at he
    rcases he with rfl | he
    · exact ⟨h2, h3⟩
    · exact h5 e he

/-! ### legacy handler: the auto-decline rule -/

theorem adRun_kick_report (l : Option Bool) (k : Bool) (r : List Obs) (hr : ∀ o ∈ r, ∃ s i h, o = .report s i h) :
    adRun l ((if k then [.kick] else []) ++ r) = some l := by
  have h2 : ∀ (r : List Obs), (∀ o ∈ r, ∃ s i h, o = .report s i h) → adRun l r = some l := by
    intro r
    induction r with
    | nil => intro _; rfl
    | cons o os ih =>
      intro h
      obtain ⟨s, i, hh, rfl⟩ := h o (by simp)
      simp [adRun, adStep, ih (fun o ho => h o (by simp [ho]))]
  cases k <;> simp [adRun, adStep, h2 r hr]

theorem adRun_handleResponse (l : Option Bool) (st : LSt) (s : Status) (i h : Nat) (a : Bool) :
    adRun l (handleResponse st s i h a).2.1 = adStep l (.fired s st.queue.head? a) := by
  unfold handleResponse
  simp only [List.cons_append, List.nil_append, adRun]
  cases hd : adStep l (.fired s st.queue.head? a) with
  | none => rfl
  | some d' =>
    simp only [Option.bind]
    exact adRun_kick_report d' _ _ (reportOf_reports _ _ _ _ _)

theorem updateL_prev (st : LSt) (s : Status) (q : Option Pack) :
    (updateL st s q).prev = if s = .accepted then some true else if s = .declined then some false else st.prev := by
  unfold updateL
  cases s <;> simp
  · split <;> try rfl
    split <;> rfl

theorem handleResponse_prev (st : LSt) (s : Status) (i h : Nat) (a : Bool) :
    (handleResponse st s i h a).1.prev =
      if s = .accepted then some true else if s = .declined then some false else st.prev := by
  unfold handleResponse
  simp only [updateL_prev]
  by_cases hs : s.intermediate = true <;> simp [hs]

/-- a client response keeps "monitor = prevResourceResponse" -/
theorem handleResponse_ad_client (st : LSt) (s : Status) (i h : Nat) :
    adRun st.prev (handleResponse st s i h false).2.1 = some (handleResponse st s i h false).1.prev := by
  rw [adRun_handleResponse, handleResponse_prev]
  simp only [adStep, Bool.false_eq_true, if_false]
  by_cases h1 : s = .accepted <;> by_cases h2 : s = .declined <;> simp [h1, h2]

theorem declineLoop_ad (is117 : Bool) (fuel : Nat) (st : LSt) (hp : st.prev = some false) :
    adRun (some false) (declineLoop is117 fuel st).2 = some (some false) ∧
    (declineLoop is117 fuel st).1.prev = some false := by
  induction fuel generalizing st with
  | zero => exact ⟨rfl, hp⟩
  | succ n ih =>
    unfold declineLoop
    cases hqu : st.queue with
    | nil => exact ⟨rfl, hp⟩
    | cons q rest =>
      simp only
      by_cases hforce : (q.force && is117) = true
      · simp only [hforce, if_true]; exact ⟨by simp [adRun, adStep], hp⟩
      · simp only [hforce]
        have h1 : adRun (some false) (handleResponse st .declined q.id q.hash true).2.1 = some (some false) := by
          rw [adRun_handleResponse]; simp [adStep]
        have h2 : (handleResponse st .declined q.id q.hash true).1.prev = some false := by
          rw [handleResponse_prev]; simp
        obtain ⟨h3, h4⟩ := ih _ h2
        exact ⟨by simp [adRun_append, h1, h3], h4⟩

theorem tick_ad (is117 : Bool) (st : LSt) :
    adRun st.prev (tick is117 st).2 = some st.prev ∧ (tick is117 st).1.prev = st.prev := by
  unfold tick
  cases hqu : st.queue with
  | nil => exact ⟨rfl, rfl⟩
  | cons q rest =>
    simp only
    by_cases hp : st.prev = some false
    · simp only [hp, if_true]
      have := declineLoop_ad is117 (q :: rest).length st hp
      simpa [hp] using this
    · simp only [hp, if_false]; exact ⟨by simp [adRun, adStep], by trivial⟩

theorem stepL_ad (is117 : Bool) (st : LSt) (op : Op) (hheld : st.held = false) :
    adRun st.prev (stepL is117 st op).2.2 = some (stepL is117 st op).1.prev := by
  cases op with
  | queue p =>
    simp only [stepL, withLockL, hheld, Bool.false_eq_true, ↓reduceIte]
    split
    · have := tick_ad is117 { st with queue := st.queue ++ [p], held := true }
      simp only [] at this ⊢
      rw [this.1, this.2]
    · rfl
  | response s i h =>
    simp only [stepL, withLockL, hheld, Bool.false_eq_true, ↓reduceIte]
    have h1 := handleResponse_ad_client { st with held := true } s i h
    by_cases hs : s.intermediate = true
    · simpa [hs] using h1
    · have hs' : s.intermediate = false := by simpa using hs
      have h2 := tick_ad is117 (handleResponse { st with held := true } s i h false).1
      simp only [hs', Bool.false_eq_true, ↓reduceIte]
      simp only [] at h1
      rw [adRun_append, h1]
      simp only [Option.bind]
      rw [h2.1, h2.2]
  | clear => simp [stepL, withLockL, hheld, adRun]
  | remove id => simp [stepL, adRun]
  | backend b => simp [stepL, adRun]

theorem runL_ad (is117 : Bool) (ops : List Op) (st : LSt) (hheld : st.held = false) :
    adRun st.prev (allObs (runL is117 st ops).2) = some (runL is117 st ops).1.prev := by
  induction ops generalizing st with
  | nil => rfl
  | cons op ops ih =>
    simp only [runL, allObs, List.flatMap_cons]
    rw [adRun_append, stepL_ad is117 st op hheld]
    exact ih _ (stepL_held is117 st op hheld).1

/-- the handler never synthesises a response for a forced pack of a 1.17+ client -/
def AutoOk (is117 : Bool) : Obs → Prop
  | .fired s p auto => auto = true → s = .declined ∧ ∃ q, p = some q ∧ (q.force && is117) = false
  | _ => True

theorem handleResponse_autoOk_client (is117 : Bool) (st : LSt) (s : Status) (i h : Nat) :
    ∀ o ∈ (handleResponse st s i h false).2.1, AutoOk is117 o := by
  intro o ho
  unfold handleResponse at ho
  simp only [List.cons_append, List.nil_append, List.mem_cons, List.mem_append] at ho
  rcases ho with rfl | ho | ho
  · simp [AutoOk]
  · split at ho <;> simp_all [AutoOk]
  · obtain ⟨s', i', h', rfl⟩ := reportOf_reports _ _ _ _ _ o ho; simp [AutoOk]

theorem declineLoop_autoOk (is117 : Bool) (fuel : Nat) (st : LSt) :
    ∀ o ∈ (declineLoop is117 fuel st).2, AutoOk is117 o := by
  induction fuel generalizing st with
  | zero => simp [declineLoop]
  | succ n ih =>
    unfold declineLoop
    cases hqu : st.queue with
    | nil => simp
    | cons q rest =>
      simp only
      by_cases hforce : (q.force && is117) = true
      · simp [hforce, AutoOk]
      · simp only [hforce]
        intro o ho
        simp only [Bool.false_eq_true, ↓reduceIte, List.mem_append] at ho
        rcases ho with ho | ho
        · unfold handleResponse at ho
          simp only [List.cons_append, List.nil_append, List.mem_cons, List.mem_append] at ho
          rcases ho with rfl | ho | ho
          · simp only [AutoOk, hqu, List.head?_cons]
            exact fun _ => ⟨by simp, q, by simp, by simpa using hforce⟩
          · split at ho <;> simp_all [AutoOk]
          · obtain ⟨s', i', h', rfl⟩ := reportOf_reports _ _ _ _ _ o ho; simp [AutoOk]
        · exact ih _ o ho

theorem tick_autoOk (is117 : Bool) (st : LSt) : ∀ o ∈ (tick is117 st).2, AutoOk is117 o := by
  unfold tick
  split
  · simp
  · split
    · exact declineLoop_autoOk _ _ _
    · simp [AutoOk]

theorem stepL_autoOk (is117 : Bool) (st : LSt) (op : Op) : ∀ o ∈ (stepL is117 st op).2.2, AutoOk is117 o := by
  cases op with
  | queue p =>
    simp only [stepL, withLockL]
    split
    · simp
    · simp only []
      split
      · exact tick_autoOk _ _
      · simp
  | response s i h =>
    simp only [stepL, withLockL]
    split
    · simp
    · simp only []
      split
      · exact handleResponse_autoOk_client is117 _ s i h
      · intro o ho
        simp only [List.mem_append] at ho
        rcases ho with ho | ho
        · exact handleResponse_autoOk_client is117 _ s i h o ho
        · exact tick_autoOk _ _ o ho
  | clear => simp only [stepL, withLockL]; split <;> simp
  | remove id => simp [stepL]
  | backend b => simp [stepL]

theorem runL_autoOk (is117 : Bool) (ops : List Op) (st : LSt) :
    ∀ o ∈ allObs (runL is117 st ops).2, AutoOk is117 o := by
  induction ops generalizing st with
  | nil => simp [runL, allObs]
  | cons op ops ih =>
    intro o ho
    simp only [runL, allObs, List.flatMap_cons, List.mem_append] at ho
    rcases ho with ho | ho
    · exact stepL_autoOk is117 st op o ho
    · exact ih _ o ho

/-! ### modern handler -/

theorem getL_eraseL_self {α} (k : Nat) (l : List (Nat × α)) : getL k (eraseL k l) = none := by
  induction l with
  | nil => rfl
  | cons e r ih =>
    obtain ⟨k', v⟩ := e
    by_cases h : k' = k
    · simp [eraseL, List.filter_cons, h] at ih ⊢; exact ih
    · simp [eraseL, List.filter_cons, h, getL] at ih ⊢; exact ih

theorem getL_eraseL_ne {α} (k k' : Nat) (l : List (Nat × α)) (h : k' ≠ k) : getL k' (eraseL k l) = getL k' l := by
  induction l with
  | nil => rfl
  | cons e r ih =>
    obtain ⟨k2, v⟩ := e
    by_cases h2 : k2 = k
    · have : k2 ≠ k' := fun e => h (e ▸ h2 ▸ rfl)
      simp [eraseL, List.filter_cons, h2, getL] at ih ⊢
      subst h2
      simp [this, ih]
    · simp [eraseL, List.filter_cons, h2, getL] at ih ⊢
      by_cases h3 : k2 = k' <;> simp [h3, ih]

theorem getL_append {α} (k : Nat) (a b : List (Nat × α)) :
    getL k (a ++ b) = match getL k a with | some v => some v | none => getL k b := by
  induction a with
  | nil => rfl
  | cons e r ih =>
    obtain ⟨k2, v⟩ := e
    by_cases h : k2 = k <;> simp [getL, h, ih]

theorem getL_setL_self {α} (k : Nat) (v : α) (l : List (Nat × α)) : getL k (setL k v l) = some v := by
  simp [setL, getL_append, getL_eraseL_self, getL]

theorem getL_setL_ne {α} (k k' : Nat) (v : α) (l : List (Nat × α)) (h : k' ≠ k) :
    getL k' (setL k v l) = getL k' l := by
  simp only [setL, getL_append, getL_eraseL_ne k k' l h]
  cases getL k' l <;> simp [getL, Ne.symm h]

theorem out_setOut_self (st : MSt) (k : Nat) (l : List Pack) : (st.setOut k l).out k = l := by
  unfold MSt.setOut MSt.out
  cases l with
  | nil => simp [getL_eraseL_self]
  | cons a r => simp [getL_setL_self]

theorem out_setOut_ne (st : MSt) (k k' : Nat) (l : List Pack) (h : k' ≠ k) : (st.setOut k l).out k' = st.out k' := by
  unfold MSt.setOut MSt.out
  by_cases he : l.isEmpty <;> simp [he, getL_eraseL_ne _ _ _ h, getL_setL_ne _ _ _ _ h]

@[simp] theorem setOut_pending (st : MSt) (k : Nat) (l : List Pack) : (st.setOut k l).pending = st.pending := rfl
@[simp] theorem setOut_applied (st : MSt) (k : Nat) (l : List Pack) : (st.setOut k l).applied = st.applied := rfl
@[simp] theorem setOut_backend (st : MSt) (k : Nat) (l : List Pack) : (st.setOut k l).backend = st.backend := rfl
@[simp] theorem setOut_held (st : MSt) (k : Nat) (l : List Pack) : (st.setOut k l).held = st.held := rfl

theorem stepM_held (st : MSt) (op : Op) (h : st.held = false) :
    (stepM st op).1.held = false ∧ ∃ b, (stepM st op).2.1 = .ok b := by
  cases op with
  | queue p => simp [stepM, h]
  | response s i hh =>
    simp only [stepM, withLockM, h, Bool.false_eq_true, ↓reduceIte]
    exact ⟨trivial, _, rfl⟩
  | clear => simp [stepM, withLockM, h]
  | remove id => simp [stepM, withLockM, h]
  | backend b => simp [stepM, h]

theorem runM_rets (ops : List Op) (st : MSt) (hheld : st.held = false) :
    (runM st ops).1.held = false ∧ ∀ e ∈ (runM st ops).2, ∃ b, e.2.1 = .ok b := by
  induction ops generalizing st with
  | nil => exact ⟨hheld, by simp [runM]⟩
  | cons op ops ih =>
    obtain ⟨h1, h2⟩ := stepM_held st op hheld
    obtain ⟨h4, h5⟩ := ih _ h1
    refine ⟨h4, ?_⟩
    intro e he
    simp only [runM, List.mem_cons] at he
    rcases he with rfl | he
    · exact h2
    · exact h5 e he

/-- the pack id an operation is about -/
def opId : Op → Option Nat
  | .queue p => some p.id
  | .response _ id _ => some id
  | .remove id => some id
  | _ => none

theorem updateM_out (st : MSt) (s : Status) (id : Nat) (q : Option Pack) (y : Nat) :
    (updateM st s id q).out y = st.out y := by
  unfold updateM MSt.out
  cases s <;> simp <;> (try (cases q <;> rfl))

theorem updateM_other (st : MSt) (s : Status) (id : Nat) (q : Option Pack) (y : Nat) (hy : y ≠ id) :
    getL y (updateM st s id q).pending = getL y st.pending ∧ getL y (updateM st s id q).applied = getL y st.applied := by
  unfold updateM
  cases s <;> simp <;> (try (cases q <;> simp [getL_setL_ne _ _ _ _ hy, getL_eraseL_ne _ _ _ hy])) <;>
    simp [getL_setL_ne _ _ _ _ hy, getL_eraseL_ne _ _ _ hy]

theorem respondM_fst (st : MSt) (s : Status) (i h : Nat) : (respondM st s i h).1 = respondStM st s i := by
  unfold respondM
  simp only []
  split <;> rfl

theorem popM_other (st : MSt) (s : Status) (i y : Nat) (hy : y ≠ i) :
    (popM st s i).out y = st.out y ∧ (popM st s i).pending = st.pending ∧ (popM st s i).applied = st.applied ∧
    (popM st s i).backend = st.backend ∧ (popM st s i).held = st.held := by
  unfold popM
  by_cases hs : s.intermediate = true
  · simp [hs]
  · simp [hs, out_setOut_ne _ _ _ _ hy]

theorem respondM_other (st : MSt) (s : Status) (i h y : Nat) (hy : y ≠ i) :
    (respondM st s i h).1.out y = st.out y ∧
    getL y (respondM st s i h).1.pending = getL y st.pending ∧
    getL y (respondM st s i h).1.applied = getL y st.applied := by
  rw [respondM_fst]
  unfold respondStM
  have h1 := popM_other st s i y hy
  simp only []
  split
  · refine ⟨?_, ?_, ?_⟩
    · show MSt.out _ y = _; simpa [MSt.out] using h1.1
    · simp [getL_eraseL_ne _ _ _ hy, h1.2.1]
    · simp [h1.2.2.1]
  · refine ⟨?_, ?_, ?_⟩
    · rw [updateM_out]; exact h1.1
    · rw [(updateM_other _ s i _ y hy).1, h1.2.1]
    · rw [(updateM_other _ s i _ y hy).2, h1.2.2.1]

/-- Per-id tracking: an operation about pack id `x` leaves the outstanding list, the pending entry and the applied
    entry of every other id `y` untouched. -/
theorem stepM_other_ids (st : MSt) (op : Op) (x y : Nat) (hx : opId op = some x) (hy : y ≠ x) :
    (stepM st op).1.out y = st.out y ∧
    getL y (stepM st op).1.pending = getL y st.pending ∧
    getL y (stepM st op).1.applied = getL y st.applied := by
  cases op with
  | queue p =>
    simp only [opId, Option.some.injEq] at hx; subst hx
    simp only [stepM]
    split
    · exact ⟨rfl, rfl, rfl⟩
    · exact ⟨out_setOut_ne _ _ _ _ hy, rfl, rfl⟩
  | response s i h =>
    simp only [opId, Option.some.injEq] at hx; subst hx
    simp only [stepM, withLockM]
    split
    · exact ⟨rfl, rfl, rfl⟩
    · have := respondM_other { st with held := true } s i h y hy
      simpa [MSt.out] using this
  | clear => simp [opId] at hx
  | remove id =>
    simp only [opId, Option.some.injEq] at hx; subst hx
    simp only [stepM, withLockM]
    split
    · exact ⟨rfl, rfl, rfl⟩
    · simp [MSt.out, getL_eraseL_ne _ _ _ hy]
  | backend b => simp [opId] at hx

theorem mem_swapRemoveHead {α} (l : List α) (p : α) (h : p ∈ swapRemoveHead l) :
    ∃ q rest, l = q :: rest ∧ p ∈ rest := by
  match l with
  | [] => simp [swapRemoveHead] at h
  | [_] => simp [swapRemoveHead] at h
  | q :: a :: r =>
    refine ⟨q, a :: r, rfl, ?_⟩
    simp only [swapRemoveHead, List.mem_append, Option.mem_toList] at h
    rcases h with h | h
    · exact List.mem_of_getLast? h
    · exact List.dropLast_subset _ h

theorem no_prompt_events (s : Status) (q : Option Pack) (p : Pack) : Obs.prompt p ∉ eventsM s q := by
  unfold eventsM
  cases q with
  | none => simp
  | some x => by_cases h : (decide (s = .declined) && x.force) = true <;> simp [h]

theorem no_prompt_report (b : Bool) (q : Option Pack) (s : Status) (i h : Nat) (p : Pack) :
    Obs.prompt p ∉ reportOf b q s i h := by
  intro hm
  obtain ⟨_, _, _, he⟩ := reportOf_reports _ _ _ _ _ _ hm
  cases he

theorem respondStM_out (st : MSt) (s : Status) (i : Nat) : (respondStM st s i).out i = (popM st s i).out i := by
  unfold respondStM
  simp only []
  split
  · rfl
  · rw [updateM_out]

/-- One outstanding prompt per id: the modern handler prompts a pack only (a) when it is queued and nothing of
    its id is outstanding, or (b) when a FINAL response for its id has just consumed the previous head of that id's
    list — and the prompted pack is then the head of that list. -/
theorem stepM_prompt_cases (st : MSt) (op : Op) (p : Pack) (hp : Obs.prompt p ∈ (stepM st op).2.2) :
    (op = .queue p ∧ st.out p.id = []) ∨
    (∃ s i h q rest, op = .response s i h ∧ s.intermediate = false ∧ st.out i = q :: rest ∧ p ∈ rest ∧
        ((stepM st op).1.out i).head? = some p) := by
  cases op with
  | queue q =>
    left
    simp only [stepM] at hp
    split at hp
    · simp at hp
    · simp only [out_setOut_self] at hp
      split at hp
      · rename_i hlen
        have hnil : st.out q.id = [] := by
          cases hq : st.out q.id with
          | nil => rfl
          | cons a r => simp [hq] at hlen
        simp only [tickM, out_setOut_self, hnil, List.nil_append, List.mem_cons, List.not_mem_nil, or_false,
          Obs.prompt.injEq] at hp
        subst hp
        exact ⟨rfl, hnil⟩
      · simp at hp
  | response s i h =>
    right
    simp only [stepM, withLockM] at hp ⊢
    split at hp
    · simp at hp
    · rename_i hheld
      simp only [hheld]
      simp only [] at hp ⊢
      unfold respondM at hp
      simp only [] at hp
      split at hp
      · simp only [List.mem_append] at hp
        rcases hp with hp | hp
        · exact absurd hp (no_prompt_events _ _ _)
        · exact absurd hp (no_prompt_report _ _ _ _ _ _)
      · simp only [List.mem_append] at hp
        rcases hp with (hp | hp) | hp
        · exact absurd hp (no_prompt_events _ _ _)
        · by_cases hs : s.intermediate = true
          · simp [hs] at hp
          · have hs' : s.intermediate = false := by simpa using hs
            simp only [hs', Bool.false_eq_true, ↓reduceIte, tickM] at hp
            have hout : (respondStM { st with held := true } s i).out i = swapRemoveHead (st.out i) := by
              rw [respondStM_out]; unfold popM; simp only [hs', Bool.false_eq_true, ↓reduceIte, out_setOut_self]
              rfl
            rw [hout] at hp
            cases hsr : swapRemoveHead (st.out i) with
            | nil => simp [hsr] at hp
            | cons x xs =>
              simp only [hsr, List.mem_cons, List.not_mem_nil, or_false, Obs.prompt.injEq] at hp
              subst hp
              obtain ⟨q, rest, hl, hm⟩ := mem_swapRemoveHead (st.out i) p (by simp [hsr])
              refine ⟨s, i, h, q, rest, rfl, hs', hl, hm, ?_⟩
              rw [respondM_fst]
              show ((respondStM { st with held := true } s i).out i).head? = some p
              rw [hout, hsr]; rfl
        · exact absurd hp (no_prompt_report _ _ _ _ _ _)
  | clear => simp only [stepM, withLockM] at hp; split at hp <;> simp at hp
  | remove id => simp only [stepM, withLockM] at hp; split at hp <;> simp at hp
  | backend b => simp [stepM] at hp

end Gate.C27
