import GateModel.C11.Lemmas
import GateModel.Gen.C11
/-
C11 — the property theorems.

`Reachable c s`: `s` is reached by the REPAIRED machine from the empty registry, for ANY thread programs
over the registry API (`Call`) and ANY schedule, under configuration/profile assignment `c`.  All
theorems quantify over `c` (online/offline, kick flag, every assignment of lower-case names and UUIDs to
connections — case variants are the same `Key`).  The `_fails` theorems are kernel-checked witnesses
that the code as found (`Mode.asFound`, and each of its three sites alone) violates the clause.
-/
namespace Gate.C11.Props
open Gate.C11

/-! ### at most one registered player per UUID; the count is the number of registered UUIDs -/

/-- `Players()` and `Player(id)` describe the same set -/
theorem players_iff_registered {c : Cfg} {s : Sys} (h : Reachable c s) (p : Pid) :
    p ∈ s.players ↔ s.registered c p := by
  have inv := h.inv
  constructor
  · intro hp
    obtain ⟨e, he, rfl⟩ := List.mem_map.mp hp
    have hg : s.ids.get e.1 = some e.2 := AMap.get_of_mem inv.idsND he
    show s.ids.get (c.idOf e.2) = some e.2
    rw [inv.idsKey _ _ hg]; exact hg
  · intro hp
    exact List.mem_map.mpr ⟨(c.idOf p, p), AMap.mem_of_get hp, rfl⟩

/-- at every moment at most one registered player exists per UUID -/
theorem ids_unique {c : Cfg} {s : Sys} (h : Reachable c s) (p q : Pid)
    (hp : p ∈ s.players) (hq : q ∈ s.players) (hid : c.idOf p = c.idOf q) : p = q := by
  have h1 := (players_iff_registered h p).mp hp
  have h2 := (players_iff_registered h q).mp hq
  unfold Sys.registered at h1 h2
  rw [hid, h2] at h1
  exact (Option.some.inj h1).symm

/-- the UUIDs of the listed players are exactly the keys of the id index, hence pairwise distinct -/
theorem player_ids_are_keys {c : Cfg} {s : Sys} (h : Reachable c s) : s.players.map c.idOf = AMap.keys s.ids := by
  have inv := h.inv
  unfold Sys.players AMap.keys
  rw [List.map_map]
  apply List.map_congr_left
  intro e he
  exact inv.idsKey _ _ (AMap.get_of_mem inv.idsND he)

/-- the player count equals the number of registered players, which equals the number of registered
    (pairwise distinct) UUIDs; no player is listed twice -/
theorem count_eq_ids {c : Cfg} {s : Sys} (h : Reachable c s) :
    s.playerCount = s.players.length ∧ s.playerCount = (s.players.map c.idOf).length ∧
    (s.players.map c.idOf).Nodup ∧ s.players.Nodup := by
  have hk := player_ids_are_keys h
  have hnd : (s.players.map c.idOf).Nodup := hk ▸ h.inv.idsND
  refine ⟨by simp [Sys.playerCount, Sys.players], by simp [Sys.playerCount, Sys.players], hnd, ?_⟩
  exact List.Pairwise.of_map c.idOf (fun a b hab e => hab (congrArg c.idOf e)) hnd

/-! ### kicking disabled: one player per lower-case name, both indices describe the same set -/

theorem same_set {c : Cfg} {s : Sys} (h : Reachable c s) (hk : c.kickMode = false) (p : Pid) :
    s.named c p ↔ s.registered c p := h.inv.sameSet hk p

theorem names_unique {c : Cfg} {s : Sys} (h : Reachable c s) (hk : c.kickMode = false) (p q : Pid)
    (hp : s.registered c p) (hq : s.registered c q) (hn : c.nameOf p = c.nameOf q) : p = q := by
  have h1 := (h.inv.sameSet hk p).mpr hp
  have h2 := (h.inv.sameSet hk q).mpr hq
  rw [hn, h2] at h1
  exact (Option.some.inj h1).symm

/-- a name lookup never returns a player that is not registered by UUID (any mode: the entry's owner
    has been registered; outside kick mode it still is) -/
theorem name_lookup_sound {c : Cfg} {s : Sys} (h : Reachable c s) (hk : c.kickMode = false) (k : Key) (p : Pid)
    (hl : s.names.get k = some p) : s.registered c p := by
  have hkey := h.inv.namesKey k p hl
  exact (h.inv.sameSet hk p).mp (by rw [hkey]; exact hl)

/-! ### a registered player stays findable until its own disconnect -/

/-- state form: a player whose registration succeeded and whose own teardown has not run is found by
    UUID, and by name unless a kick-mode registration of the same lower-case name replaced it -/
theorem stays_findable {c : Cfg} {s : Sys} (h : Reachable c s) (p : Pid) (hr : s.regd p = true) (ht : s.torn p = false) :
    s.registered c p ∧
    (s.named c p ∨ ∃ q, s.evictedBy p = some q ∧ c.kickMode = true ∧ q ≠ p ∧ c.nameOf q = c.nameOf p ∧ s.regd q = true) := by
  refine ⟨h.inv.findId p hr ht, ?_⟩
  rcases h.inv.findName p hr ht with hl | hrr
  · exact Or.inl hl
  · cases he : s.evictedBy p with
    | none => rw [he] at hrr; cases hrr
    | some q => exact Or.inr ⟨q, rfl, h.inv.evict p q he⟩

/-- with kicking disabled: by name too -/
theorem stays_findable_by_name {c : Cfg} {s : Sys} (h : Reachable c s) (hk : c.kickMode = false) (p : Pid)
    (hr : s.regd p = true) (ht : s.torn p = false) : s.named c p := by
  rcases (stays_findable h p hr ht).2 with hl | ⟨q, _, hkm, _⟩
  · exact hl
  · rw [hk] at hkm; cases hkm

/-- a player's teardown (the only thing that ends the guarantee above) runs only after its own
    connection closed -/
theorem teardown_only_after_own_close {c : Cfg} {s : Sys} (h : Reachable c s) (p : Pid) (ht : s.torn p = true) :
    s.closed p = true := h.inv.tornClosed p ht

/-- an `unregisterConnection(p)` is pending in some thread only after `p`'s connection closed -/
theorem unregister_pending_only_after_close {c : Cfg} {s : Sys} (h : Reachable c s) (ts : List Task)
    (hts : ts ∈ s.threads) (p : Pid) (hp : Task.unreg p ∈ ts) : s.closed p = true := (h.inv.tasksOK ts hts).1 p hp

/-- step form, for EVERY state and thread: the only atomic action that makes `p` unfindable by UUID is
    `p`'s own teardown — a rejected, duplicate or failed login (`canReg`/`reg` of anybody), a
    disconnect or the teardown of any other connection never removes it -/
theorem only_own_teardown_removes_id {c : Cfg} {s s' : Sys} {t : Nat} (hs : step Mode.repaired c s t = some s')
    (p : Pid) (h1 : s.registered c p) (h2 : ¬ s'.registered c p) :
    ∃ rest, s.threads[t]? = some (Task.unreg p :: rest) := by
  unfold Sys.registered at h1 h2
  cases step_kind hs with
  | same hi hn => rw [hi] at h2; exact absurd h1 h2
  | reg q rest hth hfree hname hi hn =>
    rw [hi, AMap.get_put] at h2
    by_cases hk : c.idOf p = c.idOf q
    · rw [hk, hfree] at h1; cases h1
    · simp only [hk, if_false] at h2; exact absurd h1 h2
  | unreg q rest hth hi hn =>
    by_cases hpq : p = q
    · subst hpq; exact ⟨rest, hth⟩
    · rw [hi] at h2; exact absurd (AMap.get_eraseIf_keep h1 hpq) h2

/-- the name entry of `p` is lost only through `p`'s own teardown or, in kick mode only, through the
    registration of another player with the same lower-case name -/
theorem only_own_teardown_or_kick_removes_name {c : Cfg} {s s' : Sys} {t : Nat}
    (hs : step Mode.repaired c s t = some s') (p : Pid) (h1 : s.named c p) (h2 : ¬ s'.named c p) :
    (∃ rest, s.threads[t]? = some (Task.unreg p :: rest)) ∨
    (c.kickMode = true ∧ ∃ q rest, q ≠ p ∧ c.nameOf q = c.nameOf p ∧ s.threads[t]? = some (Task.call (.reg q) :: rest)) := by
  unfold Sys.named at h1 h2
  cases step_kind hs with
  | same hi hn => rw [hn] at h2; exact absurd h1 h2
  | reg q rest hth hfree hname hi hn =>
    rw [hn, AMap.get_put] at h2
    by_cases hk : c.nameOf p = c.nameOf q
    · right
      have hkm : c.kickMode = true := by
        cases hc : c.kickMode
        · rw [hk, hname hc] at h1; cases h1
        · rfl
      refine ⟨hkm, q, rest, ?_, hk.symm, hth⟩
      intro hqp; subst hqp; simp at h2
    · simp only [hk, if_false] at h2; exact absurd h1 h2
  | unreg q rest hth hi hn =>
    by_cases hpq : p = q
    · subst hpq; exact Or.inl ⟨rest, hth⟩
    · rw [hn] at h2; exact absurd (AMap.get_eraseIf_keep h1 hpq) h2

/-! ### the older session with the same UUID is gone before the new one is registered -/

/-- whenever an action writes `q` into the id index, every other connection with the same UUID whose
    registration ever succeeded has been closed and torn down before (in kick mode: the kick; otherwise
    the new login would have been rejected) -/
theorem kick_before_register {c : Cfg} {s s' : Sys} {t : Nat} (h : Reachable c s)
    (hs : step Mode.repaired c s t = some s') (q : Pid) (h1 : ¬ s.registered c q) (h2 : s'.registered c q)
    (p : Pid) (_hpq : p ≠ q) (hid : c.idOf p = c.idOf q) (hr : s.regd p = true) :
    s.closed p = true ∧ s.torn p = true ∧ ¬ s.registered c p := by
  unfold Sys.registered at h1 h2
  have hfree : s.ids.get (c.idOf q) = none := by
    cases step_kind hs with
    | same hi hn => rw [hi] at h2; exact absurd h2 h1
    | reg q' rest hth hfree hname hi hn =>
      rw [hi, AMap.get_put] at h2
      by_cases hk : c.idOf q = c.idOf q'
      · rw [hk]; exact hfree
      · simp only [hk, if_false] at h2; exact absurd h2 h1
    | unreg q' rest hth hi hn => rw [hi] at h2; exact absurd (AMap.get_eraseIf_some h2) h1
  have ht : s.torn p = true := by
    cases htp : s.torn p
    · have := h.inv.findId p hr htp
      rw [hid, hfree] at this; cases this
    · rfl
  refine ⟨h.inv.tornClosed p ht, ht, ?_⟩
  show ¬ s.ids.get (c.idOf p) = some p
  rw [hid, hfree]; exact fun e => by cases e

/-- at any moment at most one live (registered, not torn down) session exists per UUID -/
theorem one_live_session_per_uuid {c : Cfg} {s : Sys} (h : Reachable c s) (p q : Pid)
    (hp : s.regd p = true) (hpt : s.torn p = false) (hq : s.regd q = true) (hqt : s.torn q = false)
    (hid : c.idOf p = c.idOf q) : p = q := by
  have h1 := h.inv.findId p hp hpt
  have h2 := h.inv.findId q hq hqt
  rw [hid, h2] at h1
  exact (Option.some.inj h1).symm

/-! ### no action leaves `muP` held: registry calls never block -/

theorem lock_never_leaks {c : Cfg} {s : Sys} (h : Reachable c s) : s.held = none := h.inv.free

theorem never_blocked {c : Cfg} {s : Sys} (h : Reachable c s) (t : Nat) (task : Task) (rest : List Task)
    (hth : s.threads[t]? = some (task :: rest)) : (step Mode.repaired c s t).isSome = true :=
  step_enabled h.inv.free hth (fun p f o e =>
    (h.inv.tasksOK _ (List.mem_of_getElem? hth)).2 p f o (e ▸ List.mem_cons_self ..))

/-! ### the code as found: kernel-checked witnesses -/

/-- two connections with the same lower-case name ("Bob"/"bob") and different UUIDs, offline, no kick flag -/
def cSameName : Cfg := { online := false, kickFlag := false, nameOf := fun _ => 7, idOf := fun p => p }
/-- two connections with the same UUID -/
def cSameId : Cfg := { online := false, kickFlag := false, nameOf := fun p => p, idOf := fun _ => 7 }
/-- same lower-case name, different UUIDs, OFFLINE mode with the kick flag set (kick mode is off) -/
def cOfflineKick : Cfg := { online := false, kickFlag := true, nameOf := fun _ => 7, idOf := fun p => p }

def onlyUncheckedUnreg : Mode := { Mode.repaired with checkedUnreg := false }
def onlyNoUnlock : Mode := { Mode.repaired with unlockOnReject := false }
def onlyKickMismatch : Mode := { Mode.repaired with kickNeedsOnline := false }

/-- DESIGN §11 row 6.  Player 0 registers; login 1 (same name) is rejected by canRegister and
    disconnected; its teardown deletes player 0's name entry: 0 is registered, not torn down, yet not
    findable by name (kick mode off) -/
def witnessUnreg (m : Mode) : Option Sys :=
  exec m cSameName (mkSys [[.reg 0], [.canReg 1, .disconnect 1]]) [0, 1, 1, 1, 1]

theorem stays_findable_fails_asFound :
    (witnessUnreg Mode.asFound).map (fun s => (s.regd 0, s.torn 0, s.names.get (cSameName.nameOf 0), s.ids.get 0))
      = some (true, false, none, some 0) := by decide
theorem stays_findable_fails :
    (witnessUnreg onlyUncheckedUnreg).map (fun s => (s.regd 0, s.torn 0, s.names.get (cSameName.nameOf 0), s.ids.get 0))
      = some (true, false, none, some 0) := by decide
/-- the same schedule on the repaired machine keeps player 0 findable -/
theorem stays_findable_witness_repaired :
    (witnessUnreg Mode.repaired).map (fun s => (s.regd 0, s.torn 0, s.names.get (cSameName.nameOf 0), s.ids.get 0))
      = some (true, false, some 0, some 0) := by decide

/-- the rejected login's DisconnectEvent claims a successful login (found = true for somebody else's entry) -/
theorem rejected_login_status_fails :
    ((exec Mode.asFound cSameId (mkSys [[.reg 0], [.canReg 1, .disconnect 1]]) [0, 1, 1, 1, 1]).map
      (fun s => (s.log.getLast?, s.ids.get 7))) = some (some (.disc 1 .successful), none) := by decide

/-- registerConnection's `return false` keeps `muP`: after a duplicate is rejected by registerConnection
    itself, no other thread's registry call is ever enabled again -/
def witnessLeak (m : Mode) : Option Sys :=
  exec m cSameId (mkSys [[.reg 0, .reg 1], [.count]]) [0, 0]

theorem never_blocked_fails_asFound :
    (witnessLeak Mode.asFound).map (fun s => (s.held, (step Mode.asFound cSameId s 1).isSome)) = some (some 0, false) := by
  decide
theorem never_blocked_fails :
    (witnessLeak onlyNoUnlock).map (fun s => (s.held, (step onlyNoUnlock cSameId s 1).isSome)) = some (some 0, false) := by
  decide
theorem never_blocked_witness_repaired :
    (witnessLeak Mode.repaired).map (fun s => (s.held, (step Mode.repaired cSameId s 1).isSome)) = some (none, true) := by
  decide

/-- DESIGN §11 row 7.  Offline mode with the kick flag: both logins pass canRegister, then
    registerConnection takes the kick branch and checks UUIDs only: two registered players share one
    lower-case name although kick mode is off -/
def witnessKick (m : Mode) : Option Sys :=
  exec m cOfflineKick (mkSys [[.canReg 0, .reg 0], [.canReg 1, .reg 1]]) [0, 1, 0, 1]

theorem names_unique_fails_asFound :
    (witnessKick Mode.asFound).map (fun s => (s.ids.get 0, s.ids.get 1, s.names.get 7, cOfflineKick.kickMode))
      = some (some 0, some 1, some 1, false) := by decide
theorem names_unique_fails :
    (witnessKick onlyKickMismatch).map (fun s => (s.ids.get 0, s.ids.get 1, s.names.get 7, cOfflineKick.kickMode))
      = some (some 0, some 1, some 1, false) := by decide
theorem names_unique_witness_repaired :
    (witnessKick Mode.repaired).map (fun s => (s.ids.get 0, s.ids.get 1, s.names.get 7, s.log.getLast?))
      = some (some 0, none, some 0, some (.ret 1 false)) := by decide

/-- check-then-act.  If unregisterConnection decided ownership in a read section and deleted by key in a
    later write section, then in kick mode (online, kick flag) with "bob"(uuid 1) online: bob's
    connection closes and its teardown finds it owns both entries; "Bob"(uuid 2) registers in between and
    takes over the name entry; the write section deletes it by key — player 1 is registered, connected,
    never replaced, yet not findable by name -/
def cKickSameName : Cfg := { online := true, kickFlag := true, nameOf := fun _ => 7, idOf := fun p => p }
def onlySplitUnreg : Mode := { Mode.repaired with splitUnreg := true }
def witnessSplit (m : Mode) (sched : List Nat) : Option Sys :=
  exec m cKickSameName (mkSys [[.reg 0, .disconnect 0], [.reg 1]]) sched

theorem stale_unregister_fails :
    (witnessSplit onlySplitUnreg [0, 0, 0, 1, 0, 0]).map (fun s => ((s.regd 1, s.torn 1, s.closed 1), s.ids.get 1,
        s.names.get (cKickSameName.nameOf 1), s.evictedBy 1)) =
      some ((true, false, false), some 1, (none : Option Pid), (none : Option Pid)) := by
  decide
theorem stale_unregister_witness_repaired :
    (witnessSplit Mode.repaired [0, 0, 0, 1, 0]).map (fun s => (s.regd 1, s.torn 1, s.ids.get 1,
        s.names.get (cKickSameName.nameOf 1), s.log.getLast?)) =
      some (true, false, some 1, some 1, some (.disc 0 .successful)) := by decide

/-! ### the registry does not depend on how an individual login was authenticated -/

/-- `player.OnlineMode()` (true on an offline-mode proxy only for a login whose online mode a
    PreLoginEvent subscriber forced) is a dimension of `Cfg` all theorems above quantify over; the
    repaired machine never reads it: changing it arbitrarily changes no step -/
theorem registry_ignores_login_online_flag (c : Cfg) (f : Pid → Bool) (s : Sys) (t : Nat) :
    step Mode.repaired { c with onlineOf := f } s t = step Mode.repaired c s t := by
  unfold step
  split
  · rename_i task rest _
    cases task with
    | call cl => cases cl <;> rfl
    | setDup e => rfl
    | unreg p => rfl
    | fire p fd => rfl
    | unregWrite p fd o => rfl
  · rfl

theorem exec_ignores_login_online_flag (c : Cfg) (f : Pid → Bool) (s : Sys) (sched : List Nat) :
    exec Mode.repaired { c with onlineOf := f } s sched = exec Mode.repaired c s sched := by
  induction sched generalizing s with
  | nil => rfl
  | cons t ts ih =>
    simp only [exec, registry_ignores_login_online_flag]
    cases step Mode.repaired c s t with
    | none => rfl
    | some s1 => exact ih s1

/-- kick mode decided per login (`Kick && (OnlineMode || player.OnlineMode())`): offline proxy with the
    kick flag, "steve" (offline login, uuid 0) registered, then "Steve" (uuid 1) whose online mode was
    forced logs in — strictly sequentially: canRegister says yes without looking, registerConnection takes
    the kick branch (UUIDs only) and overwrites steve's name entry: two registered players share one
    lower-case name while kick mode is off, steve is connected but not findable by name -/
def cForcedOnline : Cfg :=
  { online := false, kickFlag := true, nameOf := fun _ => 7, idOf := fun p => p, onlineOf := fun p => p == 1 }
def onlyKickPerLogin : Mode := { Mode.repaired with kickPerLogin := true }
def witnessPerLogin (m : Mode) : Option Sys :=
  exec m cForcedOnline (mkSys [[.canReg 0, .reg 0], [.canReg 1, .reg 1]]) [0, 0, 1, 1]

theorem per_login_kick_fails :
    (witnessPerLogin onlyKickPerLogin).map (fun s => ((s.ids.get 0, s.ids.get 1, s.names.get 7),
        (s.regd 0, s.torn 0, cForcedOnline.kickMode), s.log)) =
      some ((some 0, some 1, some 1), (true, false, false), [.ret 0 true, .ret 0 true, .ret 1 true, .ret 1 true]) := by
  decide
theorem per_login_kick_witness_repaired :
    (witnessPerLogin Mode.repaired).map (fun s => ((s.ids.get 0, s.ids.get 1, s.names.get 7), s.log)) =
      some ((some 0, (none : Option Pid), some 0), [.ret 0 true, .ret 0 true, .ret 1 false, .ret 1 false]) := by
  decide

/-! ### non-vacuity: kick mode really kicks, then registers -/

/-- online + kick flag, same UUID: the newcomer's thread marks, disconnects and tears down the older
    session (status `conflicting`) and only then writes itself -/
example :
    ((exec Mode.repaired { online := true, kickFlag := true, nameOf := fun _ => 3, idOf := fun _ => 7 }
        (mkSys [[.reg 0], [.reg 1]]) [0, 1, 1, 1, 1, 1, 1]).map
      (fun s => (s.ids.get 7, s.names.get 3, s.closed 0, s.torn 0, s.log))) =
    some (some 1, some 1, true, true, [.ret 0 true, .disc 0 .conflicting, .ret 1 true]) := by decide

example : Reachable cSameName (mkSys []) := ⟨[], [], rfl⟩

/-! ### source shape (regenerated from /repo on every run) -/

/-- every `return` that comes after the first `lock` is immediately preceded by `unlock` -/
def exitsUnlocked (lock unlock : String) : List String → Bool
  | [] => true
  | a :: rest => if a = lock then go unlock a rest else exitsUnlocked lock unlock rest
where
  go (unlock : String) : String → List String → Bool
    | _, [] => true
    | prev, a :: rest => (if a = "return" then prev = unlock else true) && go unlock a rest

/-- all `accesses` sit between `lock` and `unlock`, and the lock is released at the end -/
def insideRegion (lock unlock : String) (accesses : List String) : Bool → List String → Bool
  | inside, [] => !inside
  | inside, a :: rest =>
    if a = lock then !inside && insideRegion lock unlock accesses true rest
    else if a = unlock then inside && insideRegion lock unlock accesses false rest
    else (inside || !(accesses.contains a)) && insideRegion lock unlock accesses inside rest

/-- `lock` is immediately followed by the deferred `unlock`: the rest of the function is one section -/
def deferredRegion (lock unlock : String) : List String → Bool
  | a :: b :: rest => if a = lock then b = "defer:" ++ unlock && !(rest.contains lock)
                      else deferredRegion lock unlock (b :: rest)
  | _ => false

/-- the operations on mutex `mu` a function performs, in source order (deferred ones included) -/
def muOps (mu : String) (calls : List String) : List String :=
  calls.filter (fun c => [mu ++ ".Lock", mu ++ ".Unlock", mu ++ ".RLock", mu ++ ".RUnlock",
    "defer:" ++ mu ++ ".Unlock", "defer:" ++ mu ++ ".RUnlock", mu ++ ".TryLock", mu ++ ".TryRLock",
    "go:" ++ mu ++ ".Unlock", "go:" ++ mu ++ ".RUnlock"].contains c)

/-- EXACT lock shape of the registry functions: unregisterConnection is ONE write section (no separate
    read section before it: ownership is decided and acted upon atomically), the readers are one deferred
    read section, registerConnection is one Lock with an Unlock on each of its four ways out -/
theorem registry_lock_shape_exact :
    muOps "p.muP" Gate.Gen.C11.unregisterCalls = ["p.muP.Lock", "p.muP.Unlock"] ∧
    muOps "p.muP" Gate.Gen.C11.registerCalls =
      ["p.muP.Lock", "p.muP.Unlock", "p.muP.Unlock", "p.muP.Unlock", "p.muP.Unlock"] ∧
    muOps "p.muP" Gate.Gen.C11.canRegisterCalls = ["p.muP.RLock", "defer:p.muP.RUnlock"] ∧
    muOps "p.muP" Gate.Gen.C11.playerCalls = ["p.muP.RLock", "defer:p.muP.RUnlock"] ∧
    muOps "p.muP" Gate.Gen.C11.playerByNameCalls = ["p.muP.RLock", "defer:p.muP.RUnlock"] ∧
    muOps "p.muP" Gate.Gen.C11.playerCountCalls = ["p.muP.RLock", "defer:p.muP.RUnlock"] ∧
    -- nothing returns from unregisterConnection before its section (no fast path around the lock)
    (Gate.Gen.C11.unregisterCalls.takeWhile (· ≠ "p.muP.Lock")).contains "return" = false := by decide

/-- (secondary signal) the only things the two admission functions ask the PLAYER for are its name and
    its UUID; the mode comes from `p.config()` alone — no per-login predicate is called -/
theorem admission_reads_config_name_id_only :
    Gate.Gen.C11.canRegisterCalls.filter (fun c => !["p.muP.RLock", "defer:p.muP.RUnlock", "return"].contains c) =
      ["p.config", "player.Username", "strings.ToLower", "player.ID"] ∧
    (Gate.Gen.C11.registerCalls.filter (fun c => !["p.muP.Lock", "p.muP.Unlock", "return"].contains c)).eraseDups =
      ["player.Username", "strings.ToLower", "p.config", "player.ID",
       "existing.disconnectDueToDuplicateConnection.Store", "existing.Disconnect"] := by decide

/-- registerConnection: one `Lock`; every exit after it is preceded by `Unlock` (no lock leak) -/
theorem register_exits_unlocked :
    exitsUnlocked "p.muP.Lock" "p.muP.Unlock" Gate.Gen.C11.registerCalls = true ∧
    Gate.Gen.C11.registerCalls.count "p.muP.Lock" = 1 ∧
    "existing.Disconnect" ∈ Gate.Gen.C11.registerCalls := by decide

/-- unregisterConnection: both deletes and the emptiness test sit in one Lock…Unlock section -/
theorem unregister_one_section :
    insideRegion "p.muP.Lock" "p.muP.Unlock" ["delete", "len"] false Gate.Gen.C11.unregisterCalls = true ∧
    Gate.Gen.C11.unregisterCalls.count "delete" = 2 := by decide

/-- canRegisterConnection and the lookups are single read sections -/
theorem readers_single_section :
    deferredRegion "p.muP.RLock" "p.muP.RUnlock" Gate.Gen.C11.canRegisterCalls = true ∧
    deferredRegion "p.muP.RLock" "p.muP.RUnlock" Gate.Gen.C11.playerCalls = true ∧
    deferredRegion "p.muP.RLock" "p.muP.RUnlock" Gate.Gen.C11.playerByNameCalls = true ∧
    deferredRegion "p.muP.RLock" "p.muP.RUnlock" Gate.Gen.C11.playerCountCalls = true := by decide

/-- teardown unregisters exactly once and is what the session handlers' `Disconnected` call;
    `Disconnected` is called inside the connection's `closeOnce` -/
theorem teardown_once_from_close :
    Gate.Gen.C11.teardownCalls.count "p.registrar.unregisterConnection" = 1 ∧
    "i.player.teardown" ∈ Gate.Gen.C11.initialDisconnectedCalls ∧
    "a.connectedPlayer.teardown" ∈ Gate.Gen.C11.authDisconnectedCalls ∧
    insideRegion "func:{" "}" ["sh.Disconnected", "c.cancelCtx"] false
      (Gate.Gen.C11.closeKnownCalls.takeWhile (· ≠ "c.closeOnce.Do")) = true ∧
    "sh.Disconnected" ∈ Gate.Gen.C11.closeKnownCalls ∧ "c.closeOnce.Do" ∈ Gate.Gen.C11.closeKnownCalls := by decide

end Gate.C11.Props
