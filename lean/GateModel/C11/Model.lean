/-
C11 — model of the player registry of `pkg/edition/java/proxy` as an interleaving machine.

Go (proxy.go, player.go, netmc/connection.go; after the C11 fixes — the code as found is `Mode.asFound`):

    canRegisterConnection(p):  if cfg.OnlineMode && cfg.Kick { return true }     -- config only: never player.OnlineMode()
                               RLock; r := names[lower(p)] == nil && ids[id(p)] == nil; RUnlock; return r
    registerConnection(p):     retry: Lock
                               if cfg.OnlineMode && cfg.Kick {            -- as found: `cfg.Kick` alone
                                  if e, ok := ids[id(p)]; ok { Unlock; e.dup.Store(true); e.Disconnect(); goto retry }
                               } else if names[lower(p)] exists || ids[id(p)] exists {
                                  Unlock; return false                   -- as found: returns WITHOUT Unlock
                               }
                               ids[id(p)] = p; names[lower(p)] = p; Unlock; return true
    unregisterConnection(p):   Lock; if ids[id(p)] == p { found = true; delete(ids, id(p)) }
                               if names[lower(p)] == p { delete(names, lower(p)) }; Unlock; return found
                               -- as found: found = ids[id(p)] exists; both keys deleted unconditionally
                               -- `splitUnreg` (a check-then-act variant, not in the tree): RLock; found, owns :=
                               --   ids[id(p)] == p, names[lower(p)] == p; RUnlock; (return if neither);
                               --   Lock; delete by key what was owned THEN; Unlock
    p.Disconnect() / read-loop error:  closeOnce.Do { cancelCtx; conn.Close; sessionHandler.Disconnected() → p.teardown() }
    teardown(p):               found := unregisterConnection(p); status from found / p.dup; fire DisconnectEvent
    Player(id) / playerByName(n) / PlayerCount() / Players():   one RLock section each

Every `muP` critical section is ONE atomic action (which accesses sit inside which section is regenerated
from the source into `Gate.Gen.C11`, see Props).  A thread is a work stack of `Task`s, a system is a list
of threads, a schedule is a list of thread ids (`exec`).  Programs handed to `mkSys` consist of API calls
only; `unreg`/`fire`/`setDup` tasks are pushed by the machine itself, exactly where the Go code calls them
(teardown runs inside the `closeOnce` of the closing thread; the kick branch of `registerConnection`
continues with `dup.Store`, `Disconnect`, `goto retry`).

The lock `muP` appears in the state only as `held`: a write lock that some thread kept when it returned
(possible only in the code as found); every section that needs `muP` is then not enabled.

Ghost fields (not in the Go code, used by the theorems): `regd p` — `registerConnection(p)` has returned
true; `torn p` — `unregisterConnection(p)` has run; `evictedBy p = some q` — a kick-mode registration of
`q` overwrote the name entry that pointed to `p`.
-/
namespace Gate.C11

abbrev Pid := Nat   -- a connection / `*connectedPlayer`
abbrev Key := Nat   -- a lower-cased user name, or a UUID

/-- a Go map with `Key` keys: association list, at most one entry per key -/
abbrev AMap := List (Key × Pid)

def AMap.get : AMap → Key → Option Pid
  | [], _ => none
  | (k', v) :: r, k => if k' = k then some v else AMap.get r k

def AMap.erase (m : AMap) (k : Key) : AMap := m.filter (fun e => !(e.1 == k))
def AMap.put (m : AMap) (k : Key) (v : Pid) : AMap := (k, v) :: AMap.erase m k
/-- `if m[k] == v { delete(m, k) }` -/
def AMap.eraseIf (m : AMap) (k : Key) (v : Pid) : AMap := if AMap.get m k = some v then AMap.erase m k else m

def upd {α} (f : Pid → α) (p : Pid) (a : α) : Pid → α := fun x => if x = p then a else f x

/-- configuration and the (immutable) profile of every connection -/
structure Cfg where
  online   : Bool          -- config.OnlineMode
  kickFlag : Bool          -- config.OnlineModeKickExistingPlayers
  nameOf   : Pid → Key     -- strings.ToLower(player.Username())
  idOf     : Pid → Key     -- player.ID()
  onlineOf : Pid → Bool := fun _ => false
                           -- player.OnlineMode(): whether THIS login was authenticated (true for everybody on an
                           -- online-mode proxy; on an offline-mode proxy true only when a PreLoginEvent subscriber
                           -- forced online mode for it).  The registry must not depend on it.

/-- the three sites at which the code as found differs from the repaired code -/
structure Mode where
  checkedUnreg   : Bool    -- unregisterConnection removes an entry only if it is the caller's
  unlockOnReject : Bool    -- registerConnection releases muP on its `return false` paths
  kickNeedsOnline : Bool   -- registerConnection tests `OnlineMode && Kick` like canRegisterConnection
  splitUnreg : Bool := false  -- check-then-act variant: unregisterConnection decides ownership in a READ
                              -- section, releases muP, then deletes BY KEY in a separate write section
  kickPerLogin : Bool := false -- variant, not in the tree: kick mode decided PER LOGIN,
                               -- `Kick && (OnlineMode || player.OnlineMode())`, in both canRegister and register
  deriving Repr, DecidableEq

def Mode.repaired : Mode :=
  { checkedUnreg := true, unlockOnReject := true, kickNeedsOnline := true, splitUnreg := false, kickPerLogin := false }
def Mode.asFound  : Mode :=
  { checkedUnreg := false, unlockOnReject := false, kickNeedsOnline := false, splitUnreg := false, kickPerLogin := false }

/-- does `registerConnection(p)` take its kick branch -/
def regKick (m : Mode) (c : Cfg) (p : Pid) : Bool :=
  if m.kickPerLogin then c.kickFlag && (c.online || c.onlineOf p)
  else if m.kickNeedsOnline then c.online && c.kickFlag else c.kickFlag
/-- does `canRegisterConnection(p)` answer `true` without looking at the registry -/
def canKick (m : Mode) (c : Cfg) (p : Pid) : Bool :=
  if m.kickPerLogin then c.kickFlag && (c.online || c.onlineOf p) else c.online && c.kickFlag
/-- kick mode as documented (config.yml) and as `canRegisterConnection` reads it -/
def Cfg.kickMode (c : Cfg) : Bool := c.online && c.kickFlag

inductive Status where
  | successful | conflicting | canceledByUser
  deriving Repr, DecidableEq

inductive Call where
  | canReg (p : Pid)       -- canRegisterConnection(p)
  | reg (p : Pid)          -- registerConnection(p)
  | disconnect (p : Pid)   -- p.Disconnect(reason) by anybody / p's connection closing for any reason
  | lookupId (k : Key)     -- Proxy.Player(id)
  | lookupName (k : Key)   -- Proxy.PlayerByName(name), k = lower(name)
  | count                  -- Proxy.PlayerCount()
  | list                   -- Proxy.Players()
  deriving Repr, DecidableEq

inductive Task where
  | call (c : Call)
  | setDup (e : Pid)               -- e.disconnectDueToDuplicateConnection.Store(true)
  | unreg (p : Pid)                -- teardown(p): the unregisterConnection(p) critical section
  | fire (p : Pid) (found : Bool)  -- teardown(p): status from `found`, `p.dup`; fire DisconnectEvent
  | unregWrite (p : Pid) (found ownsName : Bool)  -- split variant only: the write section acting on the
                                                  -- ownership decided earlier in the read section
  deriving Repr, DecidableEq

inductive Ev where
  | ret (t : Nat) (v : Bool)              -- canReg / reg returned v
  | found (t : Nat) (r : Option Pid)      -- lookup result
  | num (t : Nat) (n : Nat)               -- PlayerCount
  | listing (t : Nat) (l : List Pid)      -- Players
  | disc (p : Pid) (st : Status)          -- DisconnectEvent
  deriving Repr, DecidableEq

structure Sys where
  names   : AMap
  ids     : AMap
  held    : Option Nat            -- muP kept write-locked by a thread that returned
  closed  : Pid → Bool            -- closeOnce of p's connection has fired
  dup     : Pid → Bool            -- p.disconnectDueToDuplicateConnection
  regd    : Pid → Bool            -- ghost
  torn    : Pid → Bool            -- ghost
  evictedBy : Pid → Option Pid    -- ghost
  threads : List (List Task)
  log     : List Ev

def Sys.playerCount (s : Sys) : Nat := s.ids.length           -- len(p.playerIDs)
def Sys.players (s : Sys) : List Pid := s.ids.map (·.2)        -- Players(): the values of playerIDs
def Sys.registered (c : Cfg) (s : Sys) (p : Pid) : Prop := s.ids.get (c.idOf p) = some p
def Sys.named (c : Cfg) (s : Sys) (p : Pid) : Prop := s.names.get (c.nameOf p) = some p

/-- ghost bookkeeping: `p` overwrites the name entry that held `prev` -/
def evictUpd (ev : Pid → Option Pid) (prev : Option Pid) (p : Pid) : Pid → Option Pid :=
  match prev with
  | some q => if q = p then ev else upd ev q (some p)
  | none => ev

/-- the two map writes of registerConnection (with the ghost bookkeeping) -/
def register (c : Cfg) (s : Sys) (t : Nat) (p : Pid) : Sys :=
  { s with ids := s.ids.put (c.idOf p) p, names := s.names.put (c.nameOf p) p,
           regd := upd s.regd p true,
           evictedBy := evictUpd s.evictedBy (s.names.get (c.nameOf p)) p,
           log := s.log ++ [.ret t true] }

def statusOf (found dup : Bool) : Status :=
  if found then (if dup then .conflicting else .successful) else .canceledByUser

/-- the effect of thread `t` executing its next task (rest of its stack: `rest`); `none`: not enabled -/
def stepTask (m : Mode) (c : Cfg) (s : Sys) (t : Nat) (task : Task) (rest : List Task) : Option Sys :=
  match task with
  | .call (.canReg p) =>
    if canKick m c p then
      some { s with log := s.log ++ [.ret t true], threads := s.threads.set t rest }
    else if s.held.isSome then none
    else some { s with log := s.log ++ [.ret t ((s.names.get (c.nameOf p)).isNone && (s.ids.get (c.idOf p)).isNone)],
                       threads := s.threads.set t rest }
  | .call (.reg p) =>
    if s.held.isSome then none
    else if regKick m c p then
      match s.ids.get (c.idOf p) with
      | some e => some { s with threads := s.threads.set t (.setDup e :: .call (.disconnect e) :: .call (.reg p) :: rest) }
      | none => some { register c s t p with threads := s.threads.set t rest }
    else if (s.names.get (c.nameOf p)).isSome || (s.ids.get (c.idOf p)).isSome then
      some { s with held := if m.unlockOnReject then none else some t,
                    log := s.log ++ [.ret t false], threads := s.threads.set t rest }
    else some { register c s t p with threads := s.threads.set t rest }
  | .call (.disconnect p) =>
    if s.closed p then some { s with threads := s.threads.set t rest }
    else some { s with closed := upd s.closed p true, threads := s.threads.set t (.unreg p :: rest) }
  | .call (.lookupId k) =>
    if s.held.isSome then none
    else some { s with log := s.log ++ [.found t (s.ids.get k)], threads := s.threads.set t rest }
  | .call (.lookupName k) =>
    if s.held.isSome then none
    else some { s with log := s.log ++ [.found t (s.names.get k)], threads := s.threads.set t rest }
  | .call .count =>
    if s.held.isSome then none
    else some { s with log := s.log ++ [.num t s.playerCount], threads := s.threads.set t rest }
  | .call .list =>
    if s.held.isSome then none
    else some { s with log := s.log ++ [.listing t s.players], threads := s.threads.set t rest }
  | .setDup e => some { s with dup := upd s.dup e true, threads := s.threads.set t rest }
  | .unreg p =>
    if s.held.isSome then none
    else if m.splitUnreg then
      -- read section of the check-then-act variant: decide, release, (maybe) come back for the write lock
      let found := s.ids.get (c.idOf p) == some p
      let owns := s.names.get (c.nameOf p) == some p
      if !found && !owns then
        some { s with torn := upd s.torn p true, threads := s.threads.set t (.fire p false :: rest) }
      else some { s with threads := s.threads.set t (.unregWrite p found owns :: rest) }
    else if m.checkedUnreg then
      some { s with ids := s.ids.eraseIf (c.idOf p) p, names := s.names.eraseIf (c.nameOf p) p,
                    torn := upd s.torn p true,
                    threads := s.threads.set t (.fire p (s.ids.get (c.idOf p) == some p) :: rest) }
    else
      some { s with ids := s.ids.erase (c.idOf p), names := s.names.erase (c.nameOf p),
                    torn := upd s.torn p true,
                    threads := s.threads.set t (.fire p (s.ids.get (c.idOf p)).isSome :: rest) }
  | .fire p found =>
    some { s with log := s.log ++ [.disc p (statusOf found (s.dup p))], threads := s.threads.set t rest }
  | .unregWrite p found owns =>
    if !m.splitUnreg || s.held.isSome then none   -- this task exists in the split variant only
    else
      some { s with ids := if found then s.ids.erase (c.idOf p) else s.ids,
                    names := if owns then s.names.erase (c.nameOf p) else s.names,
                    torn := upd s.torn p true,
                    threads := s.threads.set t (.fire p found :: rest) }

/-- one scheduling step: thread `t` performs its next atomic action (`none`: not enabled) -/
def step (m : Mode) (c : Cfg) (s : Sys) (t : Nat) : Option Sys :=
  match s.threads[t]? with
  | some (task :: rest) => stepTask m c s t task rest
  | _ => none

/-- run a schedule (list of thread ids); `none` if it schedules a thread that is not enabled -/
def exec (m : Mode) (c : Cfg) (s : Sys) : List Nat → Option Sys
  | [] => some s
  | t :: ts => (step m c s t).bind (fun s' => exec m c s' ts)

def Sys.empty : Sys :=
  { names := [], ids := [], held := none, closed := fun _ => false, dup := fun _ => false,
    regd := fun _ => false, torn := fun _ => false, evictedBy := fun _ => none, threads := [], log := [] }

/-- initial system: empty registry, every thread a list of API calls -/
def mkSys (threads : List (List Call)) : Sys :=
  { Sys.empty with threads := threads.map (·.map Task.call) }

/-- sequential use (what the differential harness does): thread `t` runs until its stack is empty.
    `none`: the thread got stuck on a held lock, or ran out of fuel (the kick loop spinning). -/
def runThread (m : Mode) (c : Cfg) : Nat → Sys → Nat → Option Sys
  | 0, _, _ => none
  | fuel + 1, s, t =>
    match s.threads[t]? with
    | some (_ :: _) => (step m c s t).bind (fun s' => runThread m c fuel s' t)
    | _ => some s

end Gate.C11
