import GateModel.Base.Line
import GateModel.C11.Model
/-
C11 driver.  The harness drives the real registry sequentially (one API call at a time, each to
completion); the driver runs the repaired machine the same way (`runThread` on a single thread) and
prints the same canonical line.  Case lines:

  reset <online01> <kick01>        new proxy with that configuration            impl `-`
  new <i> <Name> <id> <o>          declares connection i (ASCII name, numeric UUID, o = its player.OnlineMode():
                                   generated independently of the proxy's mode — forced online/offline logins)   impl `-`
  canreg <i> | reg <i>             canRegisterConnection / registerConnection
  disc <i>                         i.Disconnect(reason) — closes i's connection, teardown runs inside
  racekick <i> <j>                 (kick mode, different UUIDs) i.Disconnect() and registerConnection(j) started
                                   concurrently while the harness holds muP, then released together
  byid <id> | byname <Name> | count | list      Proxy.Player / PlayerByName / PlayerCount / Players
  stress <online> <kick> <workers> <flows>      concurrent login flows (search aid): impl `ok` or the broken invariant

impl/model output:  `r=<result> n=<PlayerCount> ids=<id:i,…> names=<lowername:i,…> ev=<status:i,…>`
(ids sorted by id, names by key, `-` for empty; `ev` = `<status>:<i>` DisconnectEvents fired during the op, in order),
or `hang` when the call or the dump did not return.

Spec verdict (on the IMPLEMENTATION's output, using only the implementation's own history):
uniqueness/count, same-set outside kick mode, findability of every player whose `reg` returned 1 and
for which no DisconnectEvent fired, kick order, login status, lookups agreeing with the dump, no hang.
-/
namespace Gate.C11
open Gate

structure Decl where
  pid : Nat
  lname : String
  id : Nat
  online : Bool := false   -- player.OnlineMode() of this connection

structure DState where
  online : Bool := false
  kick : Bool := false
  decls : List Decl := []
  nameKeys : List String := []
  sys : Option Sys := some Sys.empty
  implRegd : List Nat := []
  implTorn : List Nat := []

def DState.decl (d : DState) (p : Nat) : Option Decl := d.decls.find? (·.pid == p)
def DState.nameKey (d : DState) (n : String) : Nat := (d.nameKeys.findIdx? (· == n)).getD d.nameKeys.length
def DState.cfg (d : DState) : Cfg :=
  { online := d.online, kickFlag := d.kick,
    nameOf := fun p => match d.decl p with | some x => d.nameKey x.lname | none => 1000000 + p,
    idOf := fun p => match d.decl p with | some x => x.id | none => 1000000 + p,
    onlineOf := fun p => match d.decl p with | some x => x.online | none => false }
def DState.kickMode (d : DState) : Bool := d.online && d.kick

def joinOr (xs : List String) : String := if xs.isEmpty then "-" else ",".intercalate xs

def statusName : Status → String
  | .successful => "successful" | .conflicting => "conflicting" | .canceledByUser => "canceledByUser"

def showOpt : Option Nat → String | some p => toString p | none => "-"

def natSort (xs : List Nat) : List Nat := xs.mergeSort (fun a b => a ≤ b)

/-- canonical dump of the model's registry -/
def dump (d : DState) (s : Sys) (evs : List Ev) : String :=
  let ids := (s.ids.mergeSort (fun a b => a.1 ≤ b.1)).map (fun e => toString e.1 ++ ":" ++ toString e.2)
  let names := (s.names.map (fun e => (d.nameKeys.getD e.1 "?", e.2))).mergeSort (fun a b => a.1 ≤ b.1)
  let ev := evs.filterMap (fun e => match e with | .disc p st => some (statusName st ++ ":" ++ toString p) | _ => none)
  "n=" ++ toString s.playerCount ++ " ids=" ++ joinOr ids ++ " names=" ++
    joinOr (names.map (fun e => e.1 ++ ":" ++ toString e.2)) ++ " ev=" ++ joinOr ev

def resultOf (evs : List Ev) : String :=
  match evs.filterMap (fun e => match e with
      | .ret _ v => some (if v then "1" else "0")
      | .found _ r => some (showOpt r)
      | .num _ n => some (toString n)
      | .listing _ l => some (joinOr ((natSort l).map toString))
      | _ => none) with
  | [] => "-"
  | l => l.getLast!

/-- run API calls, one after the other, each to completion, on the repaired machine -/
def runCalls (d : DState) (cs : List Call) : DState × String :=
  match d.sys with
  | none => (d, "hang")
  | some s =>
    match runThread Mode.repaired d.cfg 96 { s with threads := [cs.map Task.call], log := [] } 0 with
    | none => ({ d with sys := none }, "hang")
    | some s' => ({ d with sys := some { s' with log := [] } }, "r=" ++ resultOf s'.log ++ " " ++ dump d s' s'.log)

/-! ### the executable spec, evaluated on the implementation's line -/

structure ImplLine where
  r : String
  n : Nat
  ids : List (Nat × Nat)
  names : List (String × Nat)
  ev : List (String × Nat)

def parsePairs {α} (f : String → Option α) (s : String) : Option (List (α × Nat)) :=
  if s = "-" then some [] else
  (s.splitOn ",").mapM fun e => match e.splitOn ":" with
    | [a, b] => do pure (← f a, ← b.toNat?)
    | _ => none

def field (pre : String) (s : String) : Option String :=
  if s.startsWith pre then some (s.drop pre.length).toString else none

def parseImpl (s : String) : Option ImplLine :=
  match s.splitOn " " with
  | [r, n, ids, names, ev] => do
    let r ← field "r=" r
    let n ← (← field "n=" n).toNat?
    let ids ← parsePairs String.toNat? (← field "ids=" ids)
    let names ← parsePairs some (← field "names=" names)
    let ev ← parsePairs some (← field "ev=" ev)
    pure ⟨r, n, ids, names, ev⟩
  | _ => none

def runCall (d : DState) (c : Call) : DState × String := runCalls d [c]

def hasDup : List Nat → Bool
  | [] => false
  | a :: r => r.contains a || hasDup r

def firstViol (checks : List (Bool × String)) : String :=
  match checks.find? (fun c => !c.1) with
  | some c => "viol:" ++ c.2
  | none => "ok"

/-- the spec; `d` already contains the implementation's history INCLUDING this line -/
def judge (d : DState) (op : String) (arg : String) (l : ImplLine) : String :=
  let idPlayers := l.ids.map (·.2)
  let namePlayers := l.names.map (·.2)
  let idOf := fun p => (d.decl p).map (·.id)
  let lnameOf := fun p => (d.decl p).map (·.lname)
  let live := d.implRegd.filter (fun p => !d.implTorn.contains p)
  -- kick mode: p may have lost its name entry only to a player of the same lower-case name whose
  -- registration succeeded AFTER p's (implRegd is newest first)
  let replaced := fun p => ((d.implRegd.takeWhile (· != p)).any (fun q => lnameOf q == lnameOf p))
  firstViol [
    (l.n == l.ids.length, "count-mismatch"),
    (!hasDup idPlayers, "duplicate-player"),
    (l.ids.all (fun e => idOf e.2 == some e.1), "wrong-key"),
    (l.names.all (fun e => lnameOf e.2 == some e.1), "wrong-key"),
    (live.all (fun p => idPlayers.contains p), "unregister-removes-other"),
    (d.kickMode || live.all (fun p => namePlayers.contains p), "unregister-removes-other"),
    (!d.kickMode || live.all (fun p => namePlayers.contains p || replaced p), "unregister-removes-other"),
    (d.kickMode || !hasDup (idPlayers.map (fun p => d.nameKey ((lnameOf p).getD "?"))), "duplicate-name"),
    (d.kickMode || (natSort idPlayers == natSort namePlayers), "indices-differ"),
    (idPlayers.all (fun p => d.implRegd.contains p), "never-registered-listed"),
    (l.ev.all (fun e => if e.1 == "canceledByUser" then true else d.implRegd.contains e.2), "status"),
    (!(op == "reg" && l.r == "1") ||
       (match arg.toNat? with
        | some j => d.decls.all (fun x => x.pid == j || !(some x.id == idOf j) || !d.implRegd.contains x.pid
                                          || d.implTorn.contains x.pid)
        | none => false), "kick-order"),
    (match op with
     | "count" => l.r == toString l.n
     | "list" => l.r == joinOr ((natSort idPlayers).map toString)
     | "byid" => (match arg.toNat? with
                  | some k => l.r == showOpt ((l.ids.find? (·.1 == k)).map (·.2))
                  | none => false)
     | "byname" => l.r == showOpt ((l.names.find? (·.1 == arg.toLower)).map (·.2))
     | _ => true, "lookup-inconsistent")]

/-- fold the implementation's answer into the history the spec uses -/
def absorb (d : DState) (op arg : String) (l : ImplLine) : DState :=
  let d := if op == "reg" && l.r == "1" then
      (match arg.toNat? with | some j => { d with implRegd := j :: d.implRegd } | none => d) else d
  { d with implTorn := l.ev.map (·.2) ++ d.implTorn }

def callOf (d : DState) (op arg : String) : Option Call :=
  match op with
  | "canreg" => arg.toNat?.map Call.canReg
  | "reg" => arg.toNat?.map Call.reg
  | "disc" => arg.toNat?.map Call.disconnect
  | "byid" => arg.toNat?.map Call.lookupId
  | "byname" => some (Call.lookupName (d.nameKey arg.toLower))
  | "count" => some Call.count
  | "list" => some Call.list
  | _ => none

def dstep (d : DState) (c : Case) : DState × String × String :=
  match c.op, c.args with
  | "reset", [o, k] => ({ online := o == "1", kick := k == "1" }, "-", "-")
  | "new", i :: name :: id :: rest =>
    match i.toNat?, id.toNat? with
    | some i, some id =>
      let ln := name.toLower
      let keys := if d.nameKeys.contains ln then d.nameKeys else d.nameKeys ++ [ln]
      ({ d with decls := ⟨i, ln, id, rest.head? == some "1"⟩ :: d.decls, nameKeys := keys }, "-", "-")
    | _, _ => (d, "bad-op", "-")
  | "racekick", [a, b] =>
    -- i's connection closes while j registers, both parked at muP and released together: on the repaired
    -- machine every interleaving of the two ends in the same state as running them one after the other
    match a.toNat?, b.toNat? with
    | some i, some j =>
      let (d1, out) := runCalls d [.disconnect i, .reg j]
      if c.impl == "hang" then (d1, out, "viol:lock-leak") else
      match parseImpl c.impl with
      | none => (d1, out, "viol:unparsable")
      | some l =>
        let d2 := absorb d1 "reg" b l
        (d2, out, judge d2 "reg" b l)
    | _, _ => (d, "bad-op", "-")
  | "stress", _ => (d, "ok", if c.impl == "ok" then "ok" else "viol:" ++ c.impl)
  | op, args =>
    let arg := args.headD ""
    match callOf d op arg with
    | none => (d, "bad-op", "-")
    | some call =>
      let (d1, out) := runCall d call
      if c.impl == "hang" then (d1, out, "viol:lock-leak") else
      match parseImpl c.impl with
      | none => (d1, out, "viol:unparsable")
      | some l =>
        let d2 := absorb d1 op arg l
        (d2, out, judge d2 op arg l)

end Gate.C11

def main : IO Unit := Gate.runDriver ({} : Gate.C11.DState) Gate.C11.dstep
