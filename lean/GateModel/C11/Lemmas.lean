import GateModel.C11.Model
/-
C11 helper lemmas: association maps, the registry invariant `Inv` and its preservation by every
atomic action of the repaired machine.
-/
namespace Gate.C11

/-! ### association maps -/

def AMap.keys (m : AMap) : List Key := m.map (·.1)

@[simp] theorem AMap.get_nil (k : Key) : AMap.get [] k = none := rfl
theorem AMap.get_cons (k' : Key) (v : Pid) (r : AMap) (k : Key) :
    AMap.get ((k', v) :: r) k = if k' = k then some v else AMap.get r k := rfl

theorem AMap.get_erase (m : AMap) (k k' : Key) :
    (AMap.erase m k).get k' = if k' = k then none else m.get k' := by
  induction m with
  | nil => simp [AMap.erase]
  | cons e r ih =>
    obtain ⟨a, v⟩ := e
    unfold AMap.erase at ih ⊢
    by_cases hak : a = k
    · subst hak
      simp only [List.filter_cons, beq_self_eq_true, Bool.not_true, Bool.false_eq_true, if_false, ih]
      by_cases h : k' = a
      · simp [h]
      · have : ¬ a = k' := fun e => h e.symm
        simp [h, AMap.get_cons, this]
    · have hb : (!(a == k)) = true := by simp [hak]
      simp only [List.filter_cons, hb, if_true, AMap.get_cons, ih]
      by_cases h1 : a = k'
      · subst h1; simp [hak]
      · simp [h1]

theorem AMap.get_put (m : AMap) (k k' : Key) (v : Pid) :
    (AMap.put m k v).get k' = if k' = k then some v else m.get k' := by
  unfold AMap.put
  rw [AMap.get_cons, AMap.get_erase]
  by_cases h : k' = k
  · subst h; simp
  · have : ¬ k = k' := fun e => h e.symm
    simp [h, this]

theorem AMap.get_eraseIf (m : AMap) (k k' : Key) (v : Pid) :
    (AMap.eraseIf m k v).get k' = if k' = k ∧ m.get k = some v then none else m.get k' := by
  unfold AMap.eraseIf
  by_cases h : m.get k = some v
  · simp only [h, if_true, and_true, AMap.get_erase]
  · simp [h]

theorem AMap.mem_of_get {m : AMap} {k : Key} {v : Pid} (h : m.get k = some v) : (k, v) ∈ m := by
  induction m with
  | nil => simp at h
  | cons e r ih =>
    obtain ⟨a, w⟩ := e
    rw [AMap.get_cons] at h
    by_cases hak : a = k
    · simp [hak] at h; simp [hak, h]
    · simp [hak] at h; exact List.mem_cons_of_mem _ (ih h)

theorem AMap.get_of_mem {m : AMap} {k : Key} {v : Pid} (hnd : (AMap.keys m).Nodup) (h : (k, v) ∈ m) :
    m.get k = some v := by
  induction m with
  | nil => simp at h
  | cons e r ih =>
    obtain ⟨a, w⟩ := e
    simp only [AMap.keys, List.map_cons, List.nodup_cons] at hnd
    rw [AMap.get_cons]
    rcases List.mem_cons.mp h with h | h
    · injection h with h1 h2; simp [h1, h2]
    · have hk : k ∈ r.map (·.1) := List.mem_map.mpr ⟨(k, v), h, rfl⟩
      have : ¬ a = k := fun e => hnd.1 (e ▸ hk)
      simp [this]; exact ih hnd.2 h

theorem AMap.keys_erase_sub (m : AMap) (k x : Key) (h : x ∈ AMap.keys (AMap.erase m k)) : x ∈ AMap.keys m ∧ x ≠ k := by
  simp only [AMap.keys, AMap.erase, List.mem_map, List.mem_filter] at h ⊢
  obtain ⟨e, ⟨he, hne⟩, rfl⟩ := h
  exact ⟨⟨e, he, rfl⟩, by simpa using hne⟩

theorem AMap.nodup_erase {m : AMap} (k : Key) (h : (AMap.keys m).Nodup) : (AMap.keys (AMap.erase m k)).Nodup := by
  unfold AMap.keys AMap.erase
  exact List.Nodup.sublist (List.Sublist.map _ List.filter_sublist) h

theorem AMap.nodup_eraseIf {m : AMap} (k : Key) (v : Pid) (h : (AMap.keys m).Nodup) :
    (AMap.keys (AMap.eraseIf m k v)).Nodup := by
  unfold AMap.eraseIf; split
  · exact AMap.nodup_erase k h
  · exact h

theorem AMap.nodup_put {m : AMap} (k : Key) (v : Pid) (h : (AMap.keys m).Nodup) : (AMap.keys (AMap.put m k v)).Nodup := by
  unfold AMap.put
  show ((k :: AMap.keys (AMap.erase m k))).Nodup
  refine List.nodup_cons.mpr ⟨fun hk => (AMap.keys_erase_sub m k k hk).2 rfl, AMap.nodup_erase k h⟩

@[simp] theorem upd_same {α} (f : Pid → α) (p : Pid) (a : α) : upd f p a p = a := by simp [upd]
theorem upd_other {α} (f : Pid → α) {p x : Pid} (a : α) (h : x ≠ p) : upd f p a x = f x := by simp [upd, h]


theorem AMap.get_eraseIf_some {m : AMap} {k k' : Key} {v x : Pid} (h : (AMap.eraseIf m k v).get k' = some x) :
    m.get k' = some x := by
  rw [AMap.get_eraseIf] at h
  split at h
  · cases h
  · exact h

theorem AMap.get_eraseIf_keep {m : AMap} {k k' : Key} {v x : Pid} (h : m.get k' = some x) (hne : x ≠ v) :
    (AMap.eraseIf m k v).get k' = some x := by
  rw [AMap.get_eraseIf]
  split
  · rename_i hc
    obtain ⟨rfl, hv⟩ := hc
    rw [h] at hv; injection hv with hv; exact absurd hv hne
  · exact h

theorem AMap.get_eraseIf_iff {m : AMap} {k k' : Key} {v x : Pid} (hne : x ≠ v) :
    (AMap.eraseIf m k v).get k' = some x ↔ m.get k' = some x :=
  ⟨AMap.get_eraseIf_some, fun h => AMap.get_eraseIf_keep h hne⟩

theorem AMap.get_eraseIf_self (m : AMap) (k : Key) (v : Pid) : (AMap.eraseIf m k v).get k ≠ some v := by
  rw [AMap.get_eraseIf]
  by_cases h : m.get k = some v
  · simp [h]
  · simp [h]

/-! ### the invariant -/

/-- `unregisterConnection(p)` is only ever pending in a thread after `p`'s connection closed -/
def TasksOK (closed : Pid → Bool) (ts : List Task) : Prop :=
  (∀ p, Task.unreg p ∈ ts → closed p = true) ∧ (∀ p f o, Task.unregWrite p f o ∉ ts)

structure Inv (c : Cfg) (s : Sys) : Prop where
  idsKey    : ∀ k p, s.ids.get k = some p → c.idOf p = k
  namesKey  : ∀ k p, s.names.get k = some p → c.nameOf p = k
  idsND     : (AMap.keys s.ids).Nodup
  namesND   : (AMap.keys s.names).Nodup
  free      : s.held = none
  idsRegd   : ∀ k p, s.ids.get k = some p → s.regd p = true
  namesRegd : ∀ k p, s.names.get k = some p → s.regd p = true
  findId    : ∀ p, s.regd p = true → s.torn p = false → s.ids.get (c.idOf p) = some p
  findName  : ∀ p, s.regd p = true → s.torn p = false →
                s.names.get (c.nameOf p) = some p ∨ (s.evictedBy p).isSome = true
  evict     : ∀ p q, s.evictedBy p = some q →
                c.kickMode = true ∧ q ≠ p ∧ c.nameOf q = c.nameOf p ∧ s.regd q = true
  sameSet   : c.kickMode = false → ∀ p, s.names.get (c.nameOf p) = some p ↔ s.ids.get (c.idOf p) = some p
  tornClosed : ∀ p, s.torn p = true → s.closed p = true
  tasksOK   : ∀ ts ∈ s.threads, TasksOK s.closed ts

/-- actions that leave the registry proper untouched -/
theorem Inv.frame {c : Cfg} {s s' : Sys} (h : Inv c s)
    (hn : s'.names = s.names) (hi : s'.ids = s.ids) (hh : s'.held = none)
    (hc : ∀ x, s.closed x = true → s'.closed x = true)
    (hr : s'.regd = s.regd) (ht : s'.torn = s.torn) (he : s'.evictedBy = s.evictedBy)
    (hth : ∀ ts ∈ s'.threads, TasksOK s'.closed ts) : Inv c s' where
  idsKey := by rw [hi]; exact h.idsKey
  namesKey := by rw [hn]; exact h.namesKey
  idsND := by rw [hi]; exact h.idsND
  namesND := by rw [hn]; exact h.namesND
  free := hh
  idsRegd := by rw [hi, hr]; exact h.idsRegd
  namesRegd := by rw [hn, hr]; exact h.namesRegd
  findId := by rw [hi, hr, ht]; exact h.findId
  findName := by rw [hn, hr, ht, he]; exact h.findName
  evict := by rw [he, hr]; exact h.evict
  sameSet := by rw [hn, hi]; exact h.sameSet
  tornClosed := by rw [ht]; exact fun p hp => hc p (h.tornClosed p hp)
  tasksOK := hth

theorem tasksOK_set {closed : Pid → Bool} {l : List (List Task)} {t : Nat} {new : List Task}
    (hl : ∀ ts ∈ l, TasksOK closed ts) (hnew : TasksOK closed new) : ∀ ts ∈ l.set t new, TasksOK closed ts := by
  intro ts hts
  rcases List.mem_or_eq_of_mem_set hts with h | h
  · exact hl ts h
  · exact h ▸ hnew

theorem TasksOK.tail {closed : Pid → Bool} {a : Task} {ts : List Task} (h : TasksOK closed (a :: ts)) : TasksOK closed ts :=
  ⟨fun p hp => h.1 p (List.mem_cons_of_mem _ hp), fun p f o hp => h.2 p f o (List.mem_cons_of_mem _ hp)⟩

theorem TasksOK.mono {c1 c2 : Pid → Bool} {ts : List Task} (h : TasksOK c1 ts) (hc : ∀ x, c1 x = true → c2 x = true) :
    TasksOK c2 ts := ⟨fun p hp => hc p (h.1 p hp), h.2⟩

/-- pushing tasks that are neither `unreg` nor `unregWrite` in front of an admissible stack -/
theorem TasksOK.cons {closed : Pid → Bool} {a : Task} {ts : List Task} (h : TasksOK closed ts)
    (h1 : ∀ p, a = Task.unreg p → closed p = true) (h2 : ∀ p f o, a ≠ Task.unregWrite p f o) :
    TasksOK closed (a :: ts) := by
  constructor
  · intro p hp
    rcases List.mem_cons.mp hp with hp | hp
    · exact h1 p hp.symm
    · exact h.1 p hp
  · intro p f o hp
    rcases List.mem_cons.mp hp with hp | hp
    · exact h2 p f o hp.symm
    · exact h.2 p f o hp

theorem upd_true_mono (f : Pid → Bool) (p x : Pid) (h : f x = true) : upd f p true x = true := by
  unfold upd; split <;> simp [h]

/-- the two map writes of registerConnection, performed when the id key is free and (outside kick mode) the name key too -/
theorem register_inv {c : Cfg} {s : Sys} {t : Nat} {p : Pid} {T : List (List Task)} (h : Inv c s)
    (hid : s.ids.get (c.idOf p) = none) (hname : c.kickMode = false → s.names.get (c.nameOf p) = none)
    (hT : ∀ ts ∈ T, TasksOK s.closed ts) : Inv c { register c s t p with threads := T } where
  idsKey := by
    intro k x hx
    simp only [register, AMap.get_put] at hx
    split at hx
    · rename_i hk; injection hx with hx; rw [← hx, hk]
    · exact h.idsKey k x hx
  namesKey := by
    intro k x hx
    simp only [register, AMap.get_put] at hx
    split at hx
    · rename_i hk; injection hx with hx; rw [← hx, hk]
    · exact h.namesKey k x hx
  idsND := AMap.nodup_put _ _ h.idsND
  namesND := AMap.nodup_put _ _ h.namesND
  free := h.free
  idsRegd := by
    intro k x hx
    simp only [register, AMap.get_put] at hx ⊢
    split at hx
    · injection hx with hx; rw [← hx]; exact upd_same _ _ _
    · exact upd_true_mono _ _ _ (h.idsRegd k x hx)
  namesRegd := by
    intro k x hx
    simp only [register, AMap.get_put] at hx ⊢
    split at hx
    · injection hx with hx; rw [← hx]; exact upd_same _ _ _
    · exact upd_true_mono _ _ _ (h.namesRegd k x hx)
  findId := by
    intro x hr ht
    simp only [register, AMap.get_put] at hr ht ⊢
    by_cases hxp : x = p
    · subst hxp; simp
    · rw [upd_other _ _ hxp] at hr
      have hold := h.findId x hr ht
      by_cases hk : c.idOf x = c.idOf p
      · rw [hk, hid] at hold; cases hold
      · simp [hk, hold]
  findName := by
    intro x hr ht
    simp only [register, AMap.get_put] at hr ht ⊢
    by_cases hxp : x = p
    · subst hxp; simp
    · rw [upd_other _ _ hxp] at hr
      rcases h.findName x hr ht with hl | hrr
      · by_cases hk : c.nameOf x = c.nameOf p
        · right
          rw [hk] at hl
          simp only [hl, evictUpd, hxp, if_false, upd_same, Option.isSome_some]
        · left; simp [hk, hl]
      · right
        cases hprev : s.names.get (c.nameOf p) with
        | none => simpa [evictUpd] using hrr
        | some y =>
          simp only [evictUpd]
          split
          · exact hrr
          · unfold upd; split <;> simp [hrr]
  evict := by
    intro x q hq
    simp only [register] at hq ⊢
    have old : s.evictedBy x = some q → c.kickMode = true ∧ q ≠ x ∧ c.nameOf q = c.nameOf x ∧ upd s.regd p true q = true := by
      intro ho
      obtain ⟨a, b, d, e⟩ := h.evict x q ho
      exact ⟨a, b, d, upd_true_mono _ _ _ e⟩
    cases hprev : s.names.get (c.nameOf p) with
    | none => rw [hprev] at hq; exact old hq
    | some y =>
      rw [hprev] at hq
      simp only [evictUpd] at hq
      split at hq
      · exact old hq
      · rename_i hyp
        unfold upd at hq
        split at hq
        · rename_i hxy
          injection hq with hq
          subst hq; subst hxy
          refine ⟨?_, fun e => hyp e.symm, (h.namesKey _ _ hprev).symm, upd_same _ _ _⟩
          cases hkm : c.kickMode
          · rw [hname hkm] at hprev; cases hprev
          · rfl
        · exact old hq
  sameSet := by
    intro hkm x
    simp only [register, AMap.get_put]
    have hn := hname hkm
    by_cases hxp : x = p
    · subst hxp; simp
    · have hne : ¬ (some p = some x) := fun e => hxp (Option.some.inj e).symm
      by_cases hk1 : c.nameOf x = c.nameOf p <;> by_cases hk2 : c.idOf x = c.idOf p
      · simp [hk1, hk2, hne]
      · simp only [hk1, hk2, if_true, if_false, hne, false_iff]
        intro hx
        have := (h.sameSet hkm x).mpr hx
        rw [hk1, hn] at this; cases this
      · simp only [hk1, hk2, if_true, if_false, hne, iff_false]
        intro hx
        have := (h.sameSet hkm x).mp hx
        rw [hk2, hid] at this; cases this
      · simp only [hk1, hk2, if_false]; exact h.sameSet hkm x
  tornClosed := h.tornClosed
  tasksOK := hT

/-- the (checked) unregisterConnection critical section of `p`'s teardown -/
theorem unreg_inv {c : Cfg} {s : Sys} {p : Pid} {T : List (List Task)} (h : Inv c s) (hcl : s.closed p = true)
    (hT : ∀ ts ∈ T, TasksOK s.closed ts) :
    Inv c { s with ids := s.ids.eraseIf (c.idOf p) p, names := s.names.eraseIf (c.nameOf p) p,
                   torn := upd s.torn p true, threads := T } where
  idsKey := fun k x hx => h.idsKey k x (AMap.get_eraseIf_some hx)
  namesKey := fun k x hx => h.namesKey k x (AMap.get_eraseIf_some hx)
  idsND := AMap.nodup_eraseIf _ _ h.idsND
  namesND := AMap.nodup_eraseIf _ _ h.namesND
  free := h.free
  idsRegd := fun k x hx => h.idsRegd k x (AMap.get_eraseIf_some hx)
  namesRegd := fun k x hx => h.namesRegd k x (AMap.get_eraseIf_some hx)
  findId := by
    intro x hr ht
    by_cases hxp : x = p
    · subst hxp; simp at ht
    · simp only [upd_other _ _ hxp] at ht
      exact AMap.get_eraseIf_keep (h.findId x hr ht) hxp
  findName := by
    intro x hr ht
    by_cases hxp : x = p
    · subst hxp; simp at ht
    · simp only [upd_other _ _ hxp] at ht
      rcases h.findName x hr ht with hl | hrr
      · exact Or.inl (AMap.get_eraseIf_keep hl hxp)
      · exact Or.inr hrr
  evict := h.evict
  sameSet := by
    intro hkm x
    by_cases hxp : x = p
    · subst hxp
      exact ⟨fun hx => absurd hx (AMap.get_eraseIf_self _ _ _), fun hx => absurd hx (AMap.get_eraseIf_self _ _ _)⟩
    · show (AMap.eraseIf s.names (c.nameOf p) p).get (c.nameOf x) = some x ↔
           (AMap.eraseIf s.ids (c.idOf p) p).get (c.idOf x) = some x
      rw [AMap.get_eraseIf_iff hxp, AMap.get_eraseIf_iff hxp]
      exact h.sameSet hkm x
  tornClosed := by
    intro x hx
    by_cases hxp : x = p
    · subst hxp; exact hcl
    · simp only [upd_other _ _ hxp] at hx; exact h.tornClosed x hx
  tasksOK := hT


theorem regKick_repaired (c : Cfg) (p : Pid) : regKick Mode.repaired c p = c.kickMode := rfl
theorem canKick_repaired (c : Cfg) (p : Pid) : canKick Mode.repaired c p = c.kickMode := rfl

/-- every atomic action of the repaired machine preserves the invariant -/
theorem stepTask_inv {c : Cfg} {s s' : Sys} {t : Nat} {task : Task} {rest : List Task} (h : Inv c s)
    (hmem : (task :: rest) ∈ s.threads) (hs : stepTask Mode.repaired c s t task rest = some s') : Inv c s' := by
  have hrest : TasksOK s.closed rest := (h.tasksOK _ hmem).tail
  have hfree : s.held.isSome = false := by rw [h.free]; rfl
  have hset : ∀ new, TasksOK s.closed new → ∀ ts ∈ s.threads.set t new, TasksOK s.closed ts :=
    fun new hn => tasksOK_set h.tasksOK hn
  cases task with
  | call cl =>
    cases cl with
    | canReg p =>
      simp only [stepTask, hfree] at hs
      split at hs <;> (injection hs with hs; subst hs; exact h.frame rfl rfl h.free (fun _ a => a) rfl rfl rfl (hset _ hrest))
    | reg p =>
      simp only [stepTask, hfree, regKick_repaired, Bool.false_eq_true, if_false] at hs
      by_cases hk : c.kickMode = true
      · simp only [hk, if_true] at hs
        cases hid : s.ids.get (c.idOf p) with
        | some e =>
          rw [hid] at hs; injection hs with hs; subst hs
          refine h.frame rfl rfl h.free (fun _ a => a) rfl rfl rfl (hset _ ?_)
          exact ((hrest.cons (by intro q hq; cases hq) (by intro q f o hq; cases hq)).cons
            (by intro q hq; cases hq) (by intro q f o hq; cases hq)).cons
            (by intro q hq; cases hq) (by intro q f o hq; cases hq)
        | none =>
          rw [hid] at hs; injection hs with hs; subst hs
          exact register_inv h hid (fun hf => by rw [hk] at hf; cases hf) (hset _ hrest)
      · have hk' : c.kickMode = false := by cases hc : c.kickMode <;> simp_all
        simp only [hk', Bool.false_eq_true, if_false] at hs
        split at hs
        · injection hs with hs; subst hs
          exact h.frame rfl rfl rfl (fun _ a => a) rfl rfl rfl (hset _ hrest)
        · rename_i hno
          injection hs with hs; subst hs
          have h1 : s.names.get (c.nameOf p) = none := by
            cases hx : s.names.get (c.nameOf p) <;> simp_all
          have h2 : s.ids.get (c.idOf p) = none := by
            cases hx : s.ids.get (c.idOf p) <;> simp_all
          exact register_inv h h2 (fun _ => h1) (hset _ hrest)
    | disconnect p =>
      simp only [stepTask] at hs
      split at hs
      · injection hs with hs; subst hs
        exact h.frame rfl rfl h.free (fun _ a => a) rfl rfl rfl (hset _ hrest)
      · injection hs with hs; subst hs
        have hmono : ∀ x, s.closed x = true → upd s.closed p true x = true := fun x hx => upd_true_mono _ _ _ hx
        refine h.frame rfl rfl h.free hmono rfl rfl rfl ?_
        refine tasksOK_set (fun ts hts => (h.tasksOK ts hts).mono hmono) ?_
        refine (hrest.mono hmono).cons ?_ (by intro q f o hq; cases hq)
        intro q hq
        injection hq with hq; subst hq; exact upd_same _ _ _
    | lookupId k =>
      simp only [stepTask, hfree, Bool.false_eq_true, if_false] at hs
      injection hs with hs; subst hs
      exact h.frame rfl rfl h.free (fun _ a => a) rfl rfl rfl (hset _ hrest)
    | lookupName k =>
      simp only [stepTask, hfree, Bool.false_eq_true, if_false] at hs
      injection hs with hs; subst hs
      exact h.frame rfl rfl h.free (fun _ a => a) rfl rfl rfl (hset _ hrest)
    | count =>
      simp only [stepTask, hfree, Bool.false_eq_true, if_false] at hs
      injection hs with hs; subst hs
      exact h.frame rfl rfl h.free (fun _ a => a) rfl rfl rfl (hset _ hrest)
    | list =>
      simp only [stepTask, hfree, Bool.false_eq_true, if_false] at hs
      injection hs with hs; subst hs
      exact h.frame rfl rfl h.free (fun _ a => a) rfl rfl rfl (hset _ hrest)
  | setDup e =>
    simp only [stepTask] at hs
    injection hs with hs; subst hs
    exact h.frame rfl rfl h.free (fun _ a => a) rfl rfl rfl (hset _ hrest)
  | unreg p =>
    simp only [stepTask, hfree, Bool.false_eq_true, if_false, Mode.repaired, if_true] at hs
    injection hs with hs; subst hs
    have hcl : s.closed p = true := (h.tasksOK _ hmem).1 p (List.mem_cons_self ..)
    refine unreg_inv h hcl (hset _ ?_)
    exact hrest.cons (by intro q hq; cases hq) (by intro q f o hq; cases hq)
  | fire p f =>
    simp only [stepTask] at hs
    injection hs with hs; subst hs
    exact h.frame rfl rfl h.free (fun _ a => a) rfl rfl rfl (hset _ hrest)
  | unregWrite p f o => exact absurd (List.mem_cons_self ..) ((h.tasksOK _ hmem).2 p f o)

theorem step_inv {c : Cfg} {s s' : Sys} {t : Nat} (h : Inv c s) (hs : step Mode.repaired c s t = some s') : Inv c s' := by
  unfold step at hs
  split at hs
  · rename_i task rest hth
    exact stepTask_inv h (List.mem_of_getElem? hth) hs
  · cases hs

theorem exec_inv {c : Cfg} {s s' : Sys} (sched : List Nat) (h : Inv c s) (hs : exec Mode.repaired c s sched = some s') :
    Inv c s' := by
  induction sched generalizing s with
  | nil => simp only [exec] at hs; injection hs with hs; exact hs ▸ h
  | cons t ts ih =>
    simp only [exec] at hs
    cases hst : step Mode.repaired c s t with
    | none => rw [hst] at hs; cases hs
    | some s1 => rw [hst] at hs; exact ih (step_inv h hst) hs

theorem mkSys_inv (c : Cfg) (threads : List (List Call)) : Inv c (mkSys threads) where
  idsKey := by intro k p h; cases h
  namesKey := by intro k p h; cases h
  idsND := List.nodup_nil
  namesND := List.nodup_nil
  free := rfl
  idsRegd := by intro k p h; cases h
  namesRegd := by intro k p h; cases h
  findId := by intro p h; cases h
  findName := by intro p h; cases h
  evict := by intro p q h; cases h
  sameSet := by intro _ p; exact ⟨(fun h => by cases h), (fun h => by cases h)⟩
  tornClosed := by intro p h; cases h
  tasksOK := by
    intro ts hts
    simp only [mkSys, List.mem_map] at hts
    obtain ⟨cs, _, rfl⟩ := hts
    constructor
    · intro p hp; simp at hp
    · intro p f o hp; simp at hp

/-- what one atomic action of the repaired machine can do to the two indices -/
inductive StepKind (c : Cfg) (s s' : Sys) (t : Nat) : Prop where
  | same (hi : s'.ids = s.ids) (hn : s'.names = s.names)
  | reg (q : Pid) (rest : List Task) (hth : s.threads[t]? = some (Task.call (.reg q) :: rest))
      (hfree : s.ids.get (c.idOf q) = none) (hname : c.kickMode = false → s.names.get (c.nameOf q) = none)
      (hi : s'.ids = s.ids.put (c.idOf q) q) (hn : s'.names = s.names.put (c.nameOf q) q)
  | unreg (q : Pid) (rest : List Task) (hth : s.threads[t]? = some (Task.unreg q :: rest))
      (hi : s'.ids = s.ids.eraseIf (c.idOf q) q) (hn : s'.names = s.names.eraseIf (c.nameOf q) q)

theorem step_kind {c : Cfg} {s s' : Sys} {t : Nat} (hs : step Mode.repaired c s t = some s') : StepKind c s s' t := by
  unfold step at hs
  split at hs
  case h_2 => cases hs
  rename_i task rest hth
  cases task with
  | call cl =>
    cases cl with
    | canReg p =>
      simp only [stepTask] at hs
      split at hs
      · injection hs with hs; subst hs; exact .same rfl rfl
      · split at hs
        · cases hs
        · injection hs with hs; subst hs; exact .same rfl rfl
    | reg p =>
      simp only [stepTask, regKick_repaired] at hs
      split at hs
      · cases hs
      · by_cases hk : c.kickMode = true
        · simp only [hk, if_true] at hs
          cases hid : s.ids.get (c.idOf p) with
          | some e => rw [hid] at hs; injection hs with hs; subst hs; exact .same rfl rfl
          | none =>
            rw [hid] at hs; injection hs with hs; subst hs
            exact .reg p rest hth hid (fun hf => by rw [hk] at hf; cases hf) rfl rfl
        · have hk' : c.kickMode = false := by cases hc : c.kickMode <;> simp_all
          simp only [hk', Bool.false_eq_true, if_false] at hs
          split at hs
          · injection hs with hs; subst hs; exact .same rfl rfl
          · rename_i hno
            injection hs with hs; subst hs
            have h1 : s.names.get (c.nameOf p) = none := by
              cases hx : s.names.get (c.nameOf p) <;> simp_all
            have h2 : s.ids.get (c.idOf p) = none := by
              cases hx : s.ids.get (c.idOf p) <;> simp_all
            exact .reg p rest hth h2 (fun _ => h1) rfl rfl
    | disconnect p =>
      simp only [stepTask] at hs
      split at hs <;> (injection hs with hs; subst hs; exact .same rfl rfl)
    | lookupId k =>
      simp only [stepTask] at hs
      split at hs
      · cases hs
      · injection hs with hs; subst hs; exact .same rfl rfl
    | lookupName k =>
      simp only [stepTask] at hs
      split at hs
      · cases hs
      · injection hs with hs; subst hs; exact .same rfl rfl
    | count =>
      simp only [stepTask] at hs
      split at hs
      · cases hs
      · injection hs with hs; subst hs; exact .same rfl rfl
    | list =>
      simp only [stepTask] at hs
      split at hs
      · cases hs
      · injection hs with hs; subst hs; exact .same rfl rfl
  | setDup e =>
    simp only [stepTask] at hs
    injection hs with hs; subst hs; exact .same rfl rfl
  | unreg p =>
    simp only [stepTask, Mode.repaired, if_true, Bool.false_eq_true, if_false] at hs
    split at hs
    · cases hs
    · injection hs with hs; subst hs; exact .unreg p rest hth rfl rfl
  | fire p f =>
    simp only [stepTask] at hs
    injection hs with hs; subst hs; exact .same rfl rfl
  | unregWrite p f o =>
    simp [stepTask, Mode.repaired] at hs

/-- with `muP` free every pending task is enabled -/
theorem step_enabled {c : Cfg} {s : Sys} {t : Nat} {task : Task} {rest : List Task} (hfree : s.held = none)
    (hth : s.threads[t]? = some (task :: rest)) (hno : ∀ p f o, task ≠ Task.unregWrite p f o) :
    (step Mode.repaired c s t).isSome = true := by
  unfold step
  rw [hth]
  simp only
  cases task with
  | call cl =>
    cases cl <;> simp only [stepTask, hfree, Option.isSome_none, Bool.false_eq_true, if_false]
    · split <;> rfl
    · split
      · split <;> rfl
      · split <;> rfl
    · split <;> rfl
    all_goals rfl
  | setDup e => rfl
  | unreg p =>
    simp only [stepTask, hfree, Option.isSome_none, Bool.false_eq_true, if_false, Mode.repaired, if_true]
    rfl
  | fire p f => rfl
  | unregWrite p f o => exact absurd rfl (hno p f o)

/-- states reachable by the repaired machine from an empty registry, for any programs and any schedule -/
def Reachable (c : Cfg) (s : Sys) : Prop :=
  ∃ (threads : List (List Call)) (sched : List Nat), exec Mode.repaired c (mkSys threads) sched = some s

theorem Reachable.inv {c : Cfg} {s : Sys} (h : Reachable c s) : Inv c s := by
  obtain ⟨threads, sched, hs⟩ := h
  exact exec_inv sched (mkSys_inv c threads) hs

end Gate.C11
