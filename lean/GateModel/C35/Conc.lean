/-
C35 — concurrent appliers.  Each goroutine runs  Lock ; load the shared state ; compute + store ; Unlock
(the shape of ApplyLiveConfig / ApplyLiveConfigIfVersion / ConfigSnapshot, regenerated from the source as
`Gate.Gen.C35.*Calls`).  Threads are interleaved arbitrarily at the granularity of these four actions; the
load and the store are separate actions, so without the mutex updates could be lost.  `Sys.order` is a ghost
variable: the order in which the stores happened.
Core Lean only, generic in the state, the requests and the sequential body `f`.
-/
namespace Gate.C35.Conc

variable {S O R : Type}

inductive PC (S R : Type) where
  | idle | locked | loaded (snap : S) | committed (r : R) | finished (r : R)

structure Sys (S R : Type) where
  shared : S
  holder : Option Nat
  pc : Nat → PC S R
  order : List Nat

def upd (pc : Nat → PC S R) (t : Nat) (v : PC S R) : Nat → PC S R := fun x => if x = t then v else pc x

/-- one action of thread `t`; `none` = not enabled (blocked on the mutex, or already finished) -/
def tstep (f : S → O → S × R) (ops : Nat → O) (y : Sys S R) (t : Nat) : Option (Sys S R) :=
  match y.pc t with
  | .idle => if y.holder = none then some { y with holder := some t, pc := upd y.pc t .locked } else none
  | .locked => some { y with pc := upd y.pc t (.loaded y.shared) }
  | .loaded snap =>
    let res := f snap (ops t)
    some { y with shared := res.1, pc := upd y.pc t (.committed res.2), order := y.order ++ [t] }
  | .committed r => some { y with holder := none, pc := upd y.pc t (.finished r) }
  | .finished _ => none

/-- a schedule: the thread that moves at each step -/
def exec (f : S → O → S × R) (ops : Nat → O) : Sys S R → List Nat → Option (Sys S R)
  | y, [] => some y
  | y, t :: ts => match tstep f ops y t with
    | some y' => exec f ops y' ts
    | none => none

def start (s : S) : Sys S R := { shared := s, holder := none, pc := fun _ => .idle, order := [] }

/-- sequential execution of the requests of the threads in `order` -/
def seq (f : S → O → S × R) (ops : Nat → O) : S → List Nat → S × List (Nat × R)
  | s, [] => (s, [])
  | s, t :: ts =>
    let res := f s (ops t)
    let rest := seq f ops res.1 ts
    (rest.1, (t, res.2) :: rest.2)

theorem seq_append (f : S → O → S × R) (ops : Nat → O) (s : S) (a : List Nat) (t : Nat) :
    seq f ops s (a ++ [t]) =
      ((f (seq f ops s a).1 (ops t)).1, (seq f ops s a).2 ++ [(t, (f (seq f ops s a).1 (ops t)).2)]) := by
  induction a generalizing s with
  | nil => simp [seq]
  | cons x xs ih => simp [seq, ih]

def done (p : PC S R) : Prop := (∃ r, p = .committed r) ∨ (∃ r, p = .finished r)

/-- the invariant of every reachable system state -/
structure Inv (f : S → O → S × R) (ops : Nat → O) (s0 : S) (y : Sys S R) : Prop where
  shared_eq : y.shared = (seq f ops s0 y.order).1
  results : ∀ t r, (y.pc t = .committed r ∨ y.pc t = .finished r) → (t, r) ∈ (seq f ops s0 y.order).2
  loaded : ∀ t snap, y.pc t = .loaded snap → snap = y.shared ∧ y.holder = some t
  locked : ∀ t, y.pc t = .locked → y.holder = some t
  committed : ∀ t r, y.pc t = .committed r → y.holder = some t
  order_mem : ∀ t, t ∈ y.order ↔ done (y.pc t)
  order_nodup : y.order.Nodup

theorem inv_start (f : S → O → S × R) (ops : Nat → O) (s0 : S) : Inv f ops s0 (start s0 : Sys S R) where
  shared_eq := rfl
  results := by intro t r h; simp [start] at h
  loaded := by intro t s h; simp [start] at h
  locked := by intro t h; simp [start] at h
  committed := by intro t r h; simp [start] at h
  order_mem := by intro t; simp [start, done]
  order_nodup := by simp [start]

theorem upd_same (pc : Nat → PC S R) (t : Nat) (v : PC S R) : upd pc t v t = v := by simp [upd]
theorem upd_other (pc : Nat → PC S R) {t u : Nat} (v : PC S R) (h : u ≠ t) : upd pc t v u = pc u := by
  simp [upd, h]

theorem inv_step (f : S → O → S × R) (ops : Nat → O) (s0 : S) (y y' : Sys S R) (t : Nat)
    (hi : Inv f ops s0 y) (hs : tstep f ops y t = some y') : Inv f ops s0 y' := by
  unfold tstep at hs
  cases hp : y.pc t with
  | idle =>
    rw [hp] at hs
    by_cases hh : y.holder = none
    · simp only [hh, if_true, Option.some.injEq] at hs
      subst hs
      -- nobody is inside the critical section
      have nobody_loaded : ∀ u snap, y.pc u ≠ .loaded snap := fun u snap h => by
        have := (hi.loaded u snap h).2; rw [hh] at this; cases this
      have nobody_locked : ∀ u, y.pc u ≠ .locked := fun u h => by
        have := hi.locked u h; rw [hh] at this; cases this
      have nobody_committed : ∀ u r, y.pc u ≠ .committed r := fun u r h => by
        have := hi.committed u r h; rw [hh] at this; cases this
      refine ⟨hi.shared_eq, ?_, ?_, ?_, ?_, ?_, hi.order_nodup⟩
      · intro u r h
        dsimp only at h ⊢
        by_cases hu : u = t
        · subst hu; simp [upd_same] at h
        · rw [upd_other _ _ hu] at h; exact hi.results u r h
      · intro u snap h
        dsimp only at h ⊢
        by_cases hu : u = t
        · subst hu; simp [upd_same] at h
        · rw [upd_other _ _ hu] at h; exact absurd h (nobody_loaded u snap)
      · intro u h
        dsimp only at h ⊢
        by_cases hu : u = t
        · subst hu; rfl
        · rw [upd_other _ _ hu] at h; exact absurd h (nobody_locked u)
      · intro u r h
        dsimp only at h ⊢
        by_cases hu : u = t
        · subst hu; simp [upd_same] at h
        · rw [upd_other _ _ hu] at h; exact absurd h (nobody_committed u r)
      · intro u
        dsimp only
        by_cases hu : u = t
        · subst hu
          rw [hi.order_mem, hp]; simp [upd_same, done]
        · simp only [upd_other _ _ hu]; exact hi.order_mem u
    · simp [hh] at hs
  | locked =>
    rw [hp] at hs
    simp only [Option.some.injEq] at hs
    subst hs
    have hold := hi.locked t hp
    refine ⟨hi.shared_eq, ?_, ?_, ?_, ?_, ?_, hi.order_nodup⟩
    · intro u r h
      dsimp only at h ⊢
      by_cases hu : u = t
      · subst hu; simp [upd_same] at h
      · rw [upd_other _ _ hu] at h; exact hi.results u r h
    · intro u snap h
      dsimp only at h ⊢
      by_cases hu : u = t
      · subst hu; simp only [upd_same, PC.loaded.injEq] at h; exact ⟨h.symm, hold⟩
      · rw [upd_other _ _ hu] at h; exact hi.loaded u snap h
    · intro u h
      dsimp only at h ⊢
      by_cases hu : u = t
      · subst hu; simp [upd_same] at h
      · rw [upd_other _ _ hu] at h; exact hi.locked u h
    · intro u r h
      dsimp only at h ⊢
      by_cases hu : u = t
      · subst hu; simp [upd_same] at h
      · rw [upd_other _ _ hu] at h; exact hi.committed u r h
    · intro u
      dsimp only
      by_cases hu : u = t
      · subst hu; rw [hi.order_mem, hp]; simp [upd_same, done]
      · simp only [upd_other _ _ hu]; exact hi.order_mem u
  | loaded snap =>
    rw [hp] at hs
    simp only [Option.some.injEq] at hs
    subst hs
    obtain ⟨hsnap, hold⟩ := hi.loaded t snap hp
    have hnot : t ∉ y.order := by rw [hi.order_mem, hp]; simp [done]
    have others : ∀ u, u ≠ t → (∀ s, y.pc u ≠ .loaded s) ∧ y.pc u ≠ .locked ∧ ∀ r, y.pc u ≠ .committed r := by
      intro u hu
      refine ⟨fun s h => ?_, fun h => ?_, fun r h => ?_⟩
      · have := (hi.loaded u s h).2; rw [hold] at this; exact hu (Option.some.inj this).symm
      · have := hi.locked u h; rw [hold] at this; exact hu (Option.some.inj this).symm
      · have := hi.committed u r h; rw [hold] at this; exact hu (Option.some.inj this).symm
    have hseq := seq_append f ops s0 y.order t
    rw [← hi.shared_eq, ← hsnap] at hseq
    refine ⟨?_, ?_, ?_, ?_, ?_, ?_, ?_⟩
    · show (f snap (ops t)).1 = _; rw [hseq]
    · intro u r h
      dsimp only at h ⊢
      show (u, r) ∈ (seq f ops s0 (y.order ++ [t])).2
      rw [hseq]
      by_cases hu : u = t
      · subst hu
        simp only [upd_same, PC.committed.injEq, reduceCtorEq, or_false] at h
        subst h; simp
      · rw [upd_other _ _ hu] at h
        exact List.mem_append_left _ (hi.results u r h)
    · intro u s h
      dsimp only at h ⊢
      by_cases hu : u = t
      · subst hu; simp [upd_same] at h
      · rw [upd_other _ _ hu] at h; exact absurd h ((others u hu).1 s)
    · intro u h
      dsimp only at h ⊢
      by_cases hu : u = t
      · subst hu; simp [upd_same] at h
      · rw [upd_other _ _ hu] at h; exact absurd h (others u hu).2.1
    · intro u r h
      dsimp only at h ⊢
      by_cases hu : u = t
      · subst hu; exact hold
      · rw [upd_other _ _ hu] at h; exact absurd h ((others u hu).2.2 r)
    · intro u
      dsimp only
      by_cases hu : u = t
      · subst hu; simp [upd_same, done]
      · simp only [upd_other _ _ hu, List.mem_append, List.mem_singleton, hu, or_false]
        exact hi.order_mem u
    · exact List.nodup_append.mpr ⟨hi.order_nodup, by simp, by
        intro a ha b hb; simp only [List.mem_singleton] at hb; subst hb; intro e; subst e; exact hnot ha⟩
  | committed r =>
    rw [hp] at hs
    simp only [Option.some.injEq] at hs
    subst hs
    have hold := hi.committed t r hp
    have others : ∀ u, u ≠ t → (∀ s, y.pc u ≠ .loaded s) ∧ y.pc u ≠ .locked ∧ ∀ r, y.pc u ≠ .committed r := by
      intro u hu
      refine ⟨fun s h => ?_, fun h => ?_, fun r h => ?_⟩
      · have := (hi.loaded u s h).2; rw [hold] at this; exact hu (Option.some.inj this).symm
      · have := hi.locked u h; rw [hold] at this; exact hu (Option.some.inj this).symm
      · have := hi.committed u r h; rw [hold] at this; exact hu (Option.some.inj this).symm
    refine ⟨hi.shared_eq, ?_, ?_, ?_, ?_, ?_, hi.order_nodup⟩
    · intro u r' h
      dsimp only at h ⊢
      by_cases hu : u = t
      · subst hu
        simp only [upd_same, reduceCtorEq, PC.finished.injEq, false_or] at h
        subst h; exact hi.results u r (Or.inl hp)
      · rw [upd_other _ _ hu] at h; exact hi.results u r' h
    · intro u s h
      dsimp only at h ⊢
      by_cases hu : u = t
      · subst hu; simp [upd_same] at h
      · rw [upd_other _ _ hu] at h; exact absurd h ((others u hu).1 s)
    · intro u h
      dsimp only at h ⊢
      by_cases hu : u = t
      · subst hu; simp [upd_same] at h
      · rw [upd_other _ _ hu] at h; exact absurd h (others u hu).2.1
    · intro u r' h
      dsimp only at h ⊢
      by_cases hu : u = t
      · subst hu; simp [upd_same] at h
      · rw [upd_other _ _ hu] at h; exact absurd h ((others u hu).2.2 r')
    · intro u
      dsimp only
      by_cases hu : u = t
      · subst hu; rw [hi.order_mem, hp]; simp [upd_same, done]
      · simp only [upd_other _ _ hu]; exact hi.order_mem u
  | finished r => rw [hp] at hs; simp at hs

theorem inv_exec (f : S → O → S × R) (ops : Nat → O) (s0 : S) (sched : List Nat) :
    ∀ (y y' : Sys S R), Inv f ops s0 y → exec f ops y sched = some y' → Inv f ops s0 y' := by
  induction sched with
  | nil => intro y y' hi h; simp only [exec, Option.some.injEq] at h; subst h; exact hi
  | cons t ts ih =>
    intro y y' hi h
    simp only [exec] at h
    cases hs : tstep f ops y t with
    | none => rw [hs] at h; cases h
    | some y1 => rw [hs] at h; exact ih y1 y' (inv_step f ops s0 y y1 t hi hs) h

end Gate.C35.Conc
