import GateModel.C35.Model
/-
C35 — the property as an abstract machine: one atomic compare-and-swap register holding a configuration
content, whose only accepted writes are valid candidates that differ from the current content in the Lite
routes.  `specStep` does not mention the proxy's own checks, clones, or the order of the tests in the code.
Core Lean only.
-/
namespace Gate.C35

/-- "differs from the current configuration solely in Lite routes" (of a Lite configuration) -/
def RouteOnlyChange (cur cand : Config) : Prop :=
  cur.lite = true ∧ cand.lite = true ∧ cand.rest = cur.rest ∧ cand.routes ≠ cur.routes

instance (cur cand : Config) : Decidable (RouteOnlyChange cur cand) := by
  unfold RouteOnlyChange; exact inferInstance

/-- accepted write -/
def Acceptable (valid : Config → Bool) (cur : Config) (cand : Option Config) : Prop :=
  ∃ c, cand = some c ∧ valid c = true ∧ RouteOnlyChange cur c

/-- the register: current content and how many times it was replaced -/
structure Reg where
  cur : Config
  writes : Nat
  deriving DecidableEq

def specStep {V : Type} [DecidableEq V] (valid : Config → Bool) (ver : Config → V) (r : Reg) (op : Op V) :
    Reg × Result V :=
  match op.expected with
  | some e => if ver r.cur ≠ e then (r, ⟨.preconditionFailed, some (ver r.cur)⟩) else body
  | none => body
where
  body : Reg × Result V :=
    match op.cand with
    | none => (r, ⟨.invalid, none⟩)
    | some c =>
      if c = r.cur then (r, ⟨.unchanged, some (ver r.cur)⟩)
      else if valid c = false then (r, ⟨.invalid, none⟩)
      else if RouteOnlyChange r.cur c then (⟨c, r.writes + 1⟩, ⟨.applied, some (ver c)⟩)
      else (r, ⟨.unsupported, none⟩)

def specRun {V : Type} [DecidableEq V] (valid : Config → Bool) (ver : Config → V) :
    Reg → List (Op V) → Reg × List (Result V)
  | r, [] => (r, [])
  | r, op :: ops =>
    let (r1, x) := specStep valid ver r op
    let (r2, xs) := specRun valid ver r1 ops
    (r2, x :: xs)

/-- the abstraction: the Gate's current configuration and the proxy's route generation -/
def abs (s : State) : Reg := ⟨s.cur, s.proxy.gen⟩

/-- Gate and Java proxy agree on the configuration ("routing" = the published routes) -/
def Coherent (s : State) : Prop := s.proxy.cfg = s.cur

end Gate.C35
