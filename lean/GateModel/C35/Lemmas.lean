import GateModel.C35.Spec
/-
C35 — helper lemmas: the code's sequence of tests refines the abstract register.
-/
namespace Gate.C35

theorem config_ext {a b : Config} (h1 : a.rest = b.rest) (h2 : a.lite = b.lite) (h3 : a.routes = b.routes) :
    a = b := by
  cases a; cases b; simp_all

theorem withRoutes_eq {cur c : Config} (h : RouteOnlyChange cur c) : cur.withRoutes c.routes = c :=
  config_ext h.2.2.1.symm (h.1.trans h.2.1.symm) rfl

theorem onlyRoutesChanged_iff (cur c : Config) (hne : cur ≠ c) :
    onlyRoutesChanged cur c = true ↔ RouteOnlyChange cur c := by
  unfold onlyRoutesChanged RouteOnlyChange
  simp only [Bool.and_eq_true, decide_eq_true_eq]
  constructor
  · rintro ⟨⟨l1, l2⟩, hr⟩
    exact ⟨l1, l2, hr.symm, fun hrt => hne (config_ext hr (l1.trans l2.symm) hrt.symm)⟩
  · rintro ⟨l1, l2, hr, _⟩
    exact ⟨⟨l1, l2⟩, hr.symm⟩

theorem proxyApply_ok (valid : Config → Bool) (p : Proxy) (cur c : Config) (hc : p.cfg = cur)
    (h : RouteOnlyChange cur c) (hv : valid c = true) :
    proxyApply valid p c = some ⟨c, p.gen + 1⟩ := by
  obtain ⟨l1, l2, hr, hne⟩ := h
  have hw : p.cfg.withRoutes c.routes = c := by rw [hc]; exact withRoutes_eq ⟨l1, l2, hr, hne⟩
  unfold proxyApply
  have a1 : (!p.cfg.lite || !c.lite) = false := by rw [hc, l1, l2]; rfl
  have a2 : ¬ p.cfg = c := by
    rw [hc]; intro e; exact hne (by rw [e])
  have a3 : ¬ p.cfg.rest ≠ c.rest := by rw [hc, hr]; simp
  have a4 : (!valid c) = false := by rw [hv]; rfl
  have a5 : c.routes ≠ p.cfg.routes := by rw [hc]; exact hne
  rw [a1, if_neg (by simp), if_neg a2, if_neg a3, a4, if_neg (by simp), hw, if_pos a5]

/-- Under coherence the code path of `applyLiveConfigLocked` (+ the proxy's own checks) is the abstract body:
    in particular the proxy never refuses (`prepare_failed` is unreachable). -/
theorem applyLocked_refines {V : Type} [DecidableEq V] (valid : Config → Bool) (ver : Config → V)
    (s : State) (hc : Coherent s) (cand : Option Config) :
    ∃ s', applyLocked valid ver s cand = (s', (specStep.body valid ver (abs s) ⟨cand, none⟩).2) ∧
      Coherent s' ∧ abs s' = (specStep.body valid ver (abs s) ⟨cand, none⟩).1 := by
  cases cand with
  | none => exact ⟨s, rfl, hc, rfl⟩
  | some c =>
    unfold applyLocked specStep.body
    have ha : (abs s).cur = s.cur := rfl
    simp only []
    by_cases h1 : s.cur = c
    · rw [if_pos h1, if_pos (show c = (abs s).cur from h1.symm)]; exact ⟨s, rfl, hc, rfl⟩
    · have h1' : ¬ c = (abs s).cur := fun e => h1 e.symm
      rw [if_neg h1, if_neg h1']
      cases hv : valid c with
      | false =>
        rw [if_pos (show (!false) = true from rfl), if_pos (show false = false from rfl)]
        exact ⟨s, rfl, hc, rfl⟩
      | true =>
        rw [if_neg (show ¬ (!true) = true by simp), if_neg (show ¬ true = false by simp)]
        by_cases h2 : RouteOnlyChange s.cur c
        · have ho := (onlyRoutesChanged_iff s.cur c h1).mpr h2
          rw [if_neg (show ¬ (!onlyRoutesChanged s.cur c) = true by simp [ho]),
            if_pos (show RouteOnlyChange (abs s).cur c from h2)]
          simp only [withRoutes_eq h2, proxyApply_ok valid s.proxy s.cur c hc h2 hv]
          exact ⟨_, rfl, rfl, rfl⟩
        · have ho : onlyRoutesChanged s.cur c = false := by
            cases hh : onlyRoutesChanged s.cur c with
            | false => rfl
            | true => exact absurd ((onlyRoutesChanged_iff s.cur c h1).mp hh) h2
          rw [if_pos (show (!onlyRoutesChanged s.cur c) = true by simp [ho]),
            if_neg (show ¬ RouteOnlyChange (abs s).cur c from h2)]
          exact ⟨s, rfl, hc, rfl⟩

theorem body_expected_irrel {V : Type} [DecidableEq V] (valid : Config → Bool) (ver : Config → V) (r : Reg)
    (cand : Option Config) (e : Option V) :
    specStep.body valid ver r ⟨cand, e⟩ = specStep.body valid ver r ⟨cand, none⟩ := rfl

theorem step_refines {V : Type} [DecidableEq V] (valid : Config → Bool) (ver : Config → V)
    (s : State) (hc : Coherent s) (op : Op V) :
    ∃ s', step valid ver s op = (s', (specStep valid ver (abs s) op).2) ∧ Coherent s' ∧
      abs s' = (specStep valid ver (abs s) op).1 := by
  obtain ⟨cand, expected⟩ := op
  cases expected with
  | none =>
    simpa [step, specStep] using applyLocked_refines valid ver s hc cand
  | some e =>
    simp only [step, applyIfVersion, specStep, abs]
    by_cases h : ver s.cur = e
    · simp only [h, ne_eq, not_true_eq_false, if_false]
      rw [body_expected_irrel]
      exact applyLocked_refines valid ver s hc cand
    · simp only [ne_eq, h, not_false_eq_true, if_true]
      exact ⟨s, rfl, hc, rfl⟩

theorem run_refines {V : Type} [DecidableEq V] (valid : Config → Bool) (ver : Config → V)
    (ops : List (Op V)) : ∀ (s : State), Coherent s →
    ∃ s', run valid ver s ops = (s', (specRun valid ver (abs s) ops).2) ∧ Coherent s' ∧
      abs s' = (specRun valid ver (abs s) ops).1 := by
  induction ops with
  | nil => intro s hc; exact ⟨s, rfl, hc, rfl⟩
  | cons op ops ih =>
    intro s hc
    obtain ⟨s1, e1, c1, a1⟩ := step_refines valid ver s hc op
    obtain ⟨s2, e2, c2, a2⟩ := ih s1 c1
    refine ⟨s2, ?_, c2, ?_⟩
    · simp only [run, specRun, e1, e2, a1]
    · simp only [specRun, a2, a1]


/-! ### the abstract register, case by case -/

def GuardOk {V : Type} (ver : Config → V) (r : Reg) (op : Op V) : Prop := ∀ e, op.expected = some e → ver r.cur = e

theorem body_cases {V : Type} [DecidableEq V] (valid : Config → Bool) (ver : Config → V) (r : Reg) (op : Op V) :
    (op.cand = none ∧ specStep.body valid ver r op = (r, ⟨.invalid, none⟩)) ∨
    (op.cand = some r.cur ∧ specStep.body valid ver r op = (r, ⟨.unchanged, some (ver r.cur)⟩)) ∨
    (∃ c, op.cand = some c ∧ c ≠ r.cur ∧ valid c = false ∧ specStep.body valid ver r op = (r, ⟨.invalid, none⟩)) ∨
    (∃ c, op.cand = some c ∧ c ≠ r.cur ∧ valid c = true ∧ RouteOnlyChange r.cur c ∧
        specStep.body valid ver r op = (⟨c, r.writes + 1⟩, ⟨.applied, some (ver c)⟩)) ∨
    (∃ c, op.cand = some c ∧ c ≠ r.cur ∧ valid c = true ∧ ¬ RouteOnlyChange r.cur c ∧
        specStep.body valid ver r op = (r, ⟨.unsupported, none⟩)) := by
  unfold specStep.body
  cases hc : op.cand with
  | none => exact Or.inl ⟨rfl, rfl⟩
  | some c =>
    by_cases h1 : c = r.cur
    · right; left; subst h1; simp
    · cases hv : valid c with
      | false => right; right; left; exact ⟨c, rfl, h1, hv, by simp [h1, hv]⟩
      | true =>
        by_cases h2 : RouteOnlyChange r.cur c
        · right; right; right; left; exact ⟨c, rfl, h1, hv, h2, by simp [h1, hv, h2]⟩
        · right; right; right; right; exact ⟨c, rfl, h1, hv, h2, by simp [h1, hv, h2]⟩

theorem spec_cases {V : Type} [DecidableEq V] (valid : Config → Bool) (ver : Config → V) (r : Reg) (op : Op V) :
    ((∃ e, op.expected = some e ∧ ver r.cur ≠ e) ∧
        specStep valid ver r op = (r, ⟨.preconditionFailed, some (ver r.cur)⟩)) ∨
    (GuardOk ver r op ∧ specStep valid ver r op = specStep.body valid ver r op) := by
  unfold specStep GuardOk
  cases he : op.expected with
  | none => right; exact ⟨fun e h => (by cases h), rfl⟩
  | some e =>
    by_cases h : ver r.cur = e
    · right; exact ⟨fun e' h' => (by rw [← Option.some.inj h']; exact h), by simp [h]⟩
    · left; exact ⟨⟨e, rfl, h⟩, by simp [h]⟩


theorem state_eq_of_abs {s s' : State} (h : Coherent s) (h' : Coherent s') (e : abs s' = abs s) : s' = s := by
  unfold Coherent at h h'
  unfold abs at e
  cases s with
  | mk cur proxy =>
    cases s' with
    | mk cur' proxy' =>
      cases proxy; cases proxy'
      simp only [Reg.mk.injEq] at e
      simp_all

/-- what one request does to a coherent Gate: the six possible outcomes -/
inductive Outcome {V : Type} (valid : Config → Bool) (ver : Config → V) (s : State) (op : Op V) :
    State → Result V → Prop where
  | stale (e : V) : op.expected = some e → ver s.cur ≠ e →
      Outcome valid ver s op s ⟨.preconditionFailed, some (ver s.cur)⟩
  | nil : (∀ e, op.expected = some e → ver s.cur = e) → op.cand = none →
      Outcome valid ver s op s ⟨.invalid, none⟩
  | same : (∀ e, op.expected = some e → ver s.cur = e) → op.cand = some s.cur →
      Outcome valid ver s op s ⟨.unchanged, some (ver s.cur)⟩
  | invalid (c : Config) : (∀ e, op.expected = some e → ver s.cur = e) → op.cand = some c → c ≠ s.cur →
      valid c = false → Outcome valid ver s op s ⟨.invalid, none⟩
  | applied (c : Config) : (∀ e, op.expected = some e → ver s.cur = e) → op.cand = some c → valid c = true →
      RouteOnlyChange s.cur c →
      Outcome valid ver s op ⟨c, ⟨c, s.proxy.gen + 1⟩⟩ ⟨.applied, some (ver c)⟩
  | unsupported (c : Config) : (∀ e, op.expected = some e → ver s.cur = e) → op.cand = some c → c ≠ s.cur →
      valid c = true → ¬ RouteOnlyChange s.cur c → Outcome valid ver s op s ⟨.unsupported, none⟩

theorem step_outcome {V : Type} [DecidableEq V] (valid : Config → Bool) (ver : Config → V)
    (s : State) (hc : Coherent s) (op : Op V) :
    Outcome valid ver s op (step valid ver s op).1 (step valid ver s op).2 ∧ Coherent (step valid ver s op).1 := by
  obtain ⟨s', e, c', a⟩ := step_refines valid ver s hc op
  rw [e]
  refine ⟨?_, c'⟩
  simp only []
  rcases spec_cases valid ver (abs s) op with ⟨⟨ex, h1, h2⟩, h3⟩ | ⟨hg, h3⟩
  · rw [h3] at a ⊢
    have := state_eq_of_abs hc c' a
    subst this
    exact Outcome.stale ex h1 h2
  · rw [h3] at a ⊢
    have hg' : ∀ e, op.expected = some e → ver s.cur = e := hg
    rcases body_cases valid ver (abs s) op with ⟨h4, h5⟩ | ⟨h4, h5⟩ | ⟨c, h4, h6, h7, h5⟩ |
        ⟨c, h4, h6, h7, h8, h5⟩ | ⟨c, h4, h6, h7, h8, h5⟩
    · rw [h5] at a ⊢; have := state_eq_of_abs hc c' a; subst this; exact Outcome.nil hg' h4
    · rw [h5] at a ⊢; have := state_eq_of_abs hc c' a; subst this; exact Outcome.same hg' h4
    · rw [h5] at a ⊢; have := state_eq_of_abs hc c' a; subst this; exact Outcome.invalid c hg' h4 h6 h7
    · rw [h5] at a ⊢
      have hs : s' = ⟨c, ⟨c, s.proxy.gen + 1⟩⟩ := by
        unfold Coherent at c'
        unfold abs at a
        cases s' with
        | mk cur proxy =>
          cases proxy
          simp only [Reg.mk.injEq] at a
          simp_all
      subst hs
      exact Outcome.applied c hg' h4 h7 h8
    · rw [h5] at a ⊢; have := state_eq_of_abs hc c' a; subst this; exact Outcome.unsupported c hg' h4 h6 h7 h8

theorem coherent_init (c : Config) : Coherent (init c) := rfl

/-- invariants of every sequential history from a coherent state -/
theorem run_facts {V : Type} [DecidableEq V] (valid : Config → Bool) (ver : Config → V) (ops : List (Op V)) :
    ∀ s, Coherent s →
      Coherent (run valid ver s ops).1 ∧
      (run valid ver s ops).1.cur.rest = s.cur.rest ∧ (run valid ver s ops).1.cur.lite = s.cur.lite ∧
      ((run valid ver s ops).1.cur = s.cur ∨
        ∃ op ∈ ops, op.cand = some (run valid ver s ops).1.cur ∧ valid (run valid ver s ops).1.cur = true) ∧
      (run valid ver s ops).1.proxy.gen =
        s.proxy.gen + ((run valid ver s ops).2.filter (fun x => x.code = .applied)).length ∧
      (∀ x ∈ (run valid ver s ops).2, x.code ≠ .prepareFailed) ∧
      (run valid ver s ops).2.length = ops.length := by
  induction ops with
  | nil => intro s hc; simp [run, hc]
  | cons op ops ih =>
    intro s hc
    obtain ⟨ho, hc1⟩ := step_outcome valid ver s hc op
    obtain ⟨i1, i2, i3, i4, i5, i6, i7⟩ := ih _ hc1
    simp only [run]
    generalize hstep : step valid ver s op = st at ho hc1 i1 i2 i3 i4 i5 i6 i7
    obtain ⟨s1, x⟩ := st
    simp only at ho hc1 i1 i2 i3 i4 i5 i6 i7 ⊢
    have step_rest : s1.cur.rest = s.cur.rest ∧ s1.cur.lite = s.cur.lite ∧
        (s1.cur = s.cur ∨ (op.cand = some s1.cur ∧ valid s1.cur = true)) ∧
        s1.proxy.gen = s.proxy.gen + (if x.code = .applied then 1 else 0) ∧ x.code ≠ .prepareFailed := by
      cases ho with
      | stale e h1 h2 => simp
      | nil h1 h2 => simp
      | same h1 h2 => simp
      | invalid c h1 h2 h3 h4 => simp
      | applied c h1 h2 h3 h4 =>
        obtain ⟨l1, l2, hr, hne⟩ := h4
        simp [hr, l1, l2, h2, h3]
      | unsupported c h1 h2 h3 h4 h5 => simp
    obtain ⟨r1, r2, r3, r4, r5⟩ := step_rest
    refine ⟨i1, i2.trans r1, i3.trans r2, ?_, ?_, ?_, by simp [i7]⟩
    · rcases i4 with h | ⟨o, ho', h1, h2⟩
      · rcases r3 with h' | ⟨h1, h2⟩
        · exact Or.inl (h.trans h')
        · right; exact ⟨op, List.mem_cons_self, by rw [h]; exact h1, by rw [h]; exact h2⟩
      · right; exact ⟨o, List.mem_cons_of_mem _ ho', h1, h2⟩
    · rw [i5, r4]
      by_cases hx : x.code = .applied <;> simp [hx] <;> omega
    · intro y hy
      rcases List.mem_cons.mp hy with h | h
      · rw [h]; exact r5
      · exact i6 y h


/-! ### the API handler -/

/-- what one API request does to a coherent Gate -/
inductive ApiOutcome {V : Type} (valid : Config → Bool) (ver : Config → V) (a : ApiState) (req : ApiReq V) :
    ApiState → ApiResp V → Prop where
  | noVersion : req.ifMatch = none → ApiOutcome valid ver a req a ⟨.invalidArgument, none⟩
  | undecodable : req.cand = none → ApiOutcome valid ver a req a ⟨.invalidArgument, none⟩
  | invalid (c : Config) : req.cand = some c → valid c = false → ApiOutcome valid ver a req a ⟨.invalidArgument, none⟩
  | stale (e : V) (c : Config) : req.ifMatch = some e → req.cand = some c → valid c = true → ver a.gate.cur ≠ e →
      ApiOutcome valid ver a req a ⟨.failedPrecondition, none⟩
  | unsupported (e : V) (c : Config) : req.ifMatch = some e → req.cand = some c → valid c = true →
      ver a.gate.cur = e → c ≠ a.gate.cur → ¬ RouteOnlyChange a.gate.cur c →
      ApiOutcome valid ver a req a ⟨.failedPrecondition, none⟩
  | same (e : V) : req.ifMatch = some e → req.cand = some a.gate.cur → valid a.gate.cur = true → ver a.gate.cur = e →
      ApiOutcome valid ver a req ⟨a.gate, if req.persist then some a.gate.cur else a.file⟩
        ⟨.ok, some (ver a.gate.cur)⟩
  | applied (e : V) (c : Config) : req.ifMatch = some e → req.cand = some c → valid c = true →
      ver a.gate.cur = e → RouteOnlyChange a.gate.cur c →
      ApiOutcome valid ver a req ⟨⟨c, ⟨c, a.gate.proxy.gen + 1⟩⟩, if req.persist then some c else a.file⟩
        ⟨.ok, some (ver c)⟩

theorem apiApply_outcome {V : Type} [DecidableEq V] (valid : Config → Bool) (ver : Config → V)
    (a : ApiState) (hc : Coherent a.gate) (req : ApiReq V) :
    ApiOutcome valid ver a req (apiApply valid ver a req).1 (apiApply valid ver a req).2 ∧
      Coherent (apiApply valid ver a req).1.gate := by
  unfold apiApply
  cases hm : req.ifMatch with
  | none => exact ⟨ApiOutcome.noVersion hm, hc⟩
  | some e =>
    cases hcand : req.cand with
    | none => exact ⟨ApiOutcome.undecodable hcand, hc⟩
    | some c =>
      cases hv : valid c with
      | false =>
        simp only [hv, Bool.not_false, if_true]
        exact ⟨ApiOutcome.invalid c hcand hv, hc⟩
      | true =>
        simp only [hv, Bool.not_true, Bool.false_eq_true, if_false]
        have hstep : applyIfVersion valid ver a.gate (some c) e = step valid ver a.gate ⟨some c, some e⟩ := rfl
        obtain ⟨ho, hc1⟩ := step_outcome valid ver a.gate hc ⟨some c, some e⟩
        rw [hstep]
        generalize step valid ver a.gate ⟨some c, some e⟩ = st at ho hc1
        obtain ⟨s1, x⟩ := st
        simp only at ho hc1 ⊢
        cases ho with
        | stale e' h1 h2 =>
          cases h1
          exact ⟨ApiOutcome.stale e c hm hcand hv h2, hc⟩
        | nil h1 h2 => cases h2
        | same h1 h2 =>
          cases h2
          exact ⟨ApiOutcome.same e hm hcand hv (h1 e rfl), hc⟩
        | invalid c' h1 h2 h3 h4 => cases h2; rw [hv] at h4; cases h4
        | applied c' h1 h2 h3 h4 =>
          cases h2
          exact ⟨ApiOutcome.applied e c hm hcand hv (h1 e rfl) h4, rfl⟩
        | unsupported c' h1 h2 h3 h4 h5 =>
          cases h2
          exact ⟨ApiOutcome.unsupported e c hm hcand hv (h1 e rfl) h3 h5, hc⟩

end Gate.C35
