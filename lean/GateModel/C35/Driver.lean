import GateModel.Base.Line
import GateModel.C35.Model
/-
C35 driver (stateful: `reset` starts a new Gate).  Line formats: see harness/c35/main.go.

Model output = what the model's Gate answers and its state afterwards (byte-identical to the real one).
Verdict = the property's clauses evaluated on the IMPLEMENTATION's output, relative to the implementation's
own previous state:
  applied  ⇒ candidate valid, Lite on both sides, differs from the previous content in routes only; the new
             content is exactly the candidate's, the proxy routes are the candidate's, generation + 1
  not applied ⇒ content, version, proxy routes and generation are unchanged
  the version shown is always the hash of the content shown (changes iff content changes)
  a conditional apply whose expected version is not the previous version answers precondition_failed
  with the current version; `unchanged` only for a candidate equal to the current content
`conc` lines: the observed results + final state must be those of SOME sequential order of the requests
(model output echoes the implementation when such an order exists, else `no-linearization`).
-/
namespace Gate.C35
open Gate

abbrev V := String

def verOf (c : Config) : V := s!"c{c.rest}.{c.routes}"

def Code.token : Code → String
  | .applied => "applied" | .unchanged => "unchanged" | .invalid => "invalid" | .unsupported => "unsupported"
  | .preconditionFailed => "precondition_failed" | .prepareFailed => "prepare_failed"

def showState (s : State) : String :=
  s!"cur={s.cur.rest}.{s.cur.routes} ver={verOf s.cur} proxy={s.proxy.cfg.routes} gen={s.proxy.gen}"

def showResult (r : Result V) (sep : String) : String := r.code.token ++ sep ++ (r.version.getD "-")

/-- what the implementation reported about its state -/
structure Obs where
  rest : Nat
  routes : Nat
  ver : String
  proxy : Nat
  gen : Nat
  deriving DecidableEq

def parseObs (s : String) : Option Obs :=
  match (s.trimAscii.toString).splitOn " " with
  | [c, v, p, g] =>
    match (c.drop 4).toString.splitOn ".", (p.drop 6).toString.toNat?, (g.drop 4).toString.toNat? with
    | [a, b], some pr, some gn => do pure ⟨← a.toNat?, ← b.toNat?, (v.drop 4).toString, pr, gn⟩
    | _, _, _ => none
  | _ => none

structure Cand where
  cfg : Option Config
  valid : Bool
  expected : Option V

def parseCand (rest lite routes valid : String) (expected : Option String) : Option Cand := do
  pure ⟨some ⟨← rest.toNat?, lite = "1", ← routes.toNat?⟩, valid = "1", expected⟩

/-- the spec on one sequential request -/
def judge (prev : Obs) (cand : Cand) (code : String) (version : String) (now : Obs) : String :=
  let unchangedState := now = prev
  if now.ver ≠ s!"c{now.rest}.{now.routes}" then "viol:version-not-content"
  else if let some e := cand.expected then
    if e ≠ prev.ver then
      (if code = "precondition_failed" && version = prev.ver && unchangedState then "ok" else "viol:cas")
    else judgeBody prev cand code version now
  else judgeBody prev cand code version now
where
  judgeBody (prev : Obs) (cand : Cand) (code version : String) (now : Obs) : String :=
    if code = "applied" then
      match cand.cfg with
      | none => "viol:applied-nil"
      | some c =>
        if !(cand.valid && c.lite && c.rest = prev.rest && c.routes ≠ prev.routes) then "viol:applied-not-route-only"
        else if !(now.rest = c.rest && now.routes = c.routes) then "viol:published-not-candidate"
        else if version ≠ now.ver then "viol:result-version"
        else if !(now.proxy = c.routes && now.gen = prev.gen + 1) then "viol:routing-not-updated"
        else "ok"
    else if now ≠ prev then "viol:rejected-changed-state"
    else if code = "unchanged" then
      match cand.cfg with
      | some c => if c.rest = prev.rest && c.routes = prev.routes && version = prev.ver then "ok" else "viol:unchanged-but-differs"
      | none => "viol:unchanged-but-differs"
    else if code = "precondition_failed" then "viol:cas"
    else
      -- a rejection must have a reason: nil / invalid / not a route-only change of a Lite config
      match cand.cfg with
      | none => "ok"
      | some c =>
        if cand.valid && c.lite && c.rest = prev.rest && c.routes ≠ prev.routes then "viol:route-change-rejected" else "ok"

def ApiCode.token : ApiCode → String
  | .ok => "ok" | .invalidArgument => "invalid_argument" | .failedPrecondition => "failed_precondition"
  | .internal => "internal"

/-- the spec on one API request (relative to the implementation's previous state; the file is removed
    before every request, so `file` is what THIS request wrote) -/
def judgeApi (prev : Obs) (ifm : Option String) (cand : Option (Config × Bool)) (persist : Bool)
    (code version file : String) (now : Obs) : String :=
  if now.ver ≠ s!"c{now.rest}.{now.routes}" then "viol:version-not-content"
  else if code = "ok" then
    if ifm ≠ some prev.ver then "viol:api-cas"
    else match cand with
      | none => "viol:api-ok-without-candidate"
      | some (c, valid) =>
        let same := c.rest = prev.rest && c.routes = prev.routes
        if !(valid && (same || (c.lite && c.rest = prev.rest))) then "viol:api-applied-not-route-only"
        else if !(now.rest = c.rest && now.routes = c.routes && now.proxy = c.routes) then "viol:published-not-candidate"
        else if now.gen ≠ (if same then prev.gen else prev.gen + 1) then "viol:routing-not-updated"
        else if version ≠ now.ver then "viol:result-version"
        else if file ≠ (if persist then "cand" else "-") then "viol:api-persist"
        else "ok"
  else if now ≠ prev then "viol:rejected-changed-state"
  else if file ≠ "-" then "viol:api-rejected-persisted"
  else match cand with
    | some (c, valid) =>
      if ifm = some prev.ver && valid && c.rest = prev.rest && (c.lite || c.routes = prev.routes)
      then "viol:api-valid-rejected" else "ok"
    | none => "ok"

structure DS where
  model : State
  prev : Option Obs

def validFn (b : Bool) : Config → Bool := fun _ => b

def splitOut (impl : String) : Option (String × String × Obs) :=
  match impl.splitOn " | " with
  | [res, st] =>
    match res.splitOn " " with
    | [code, ver] => do pure (code, ver, ← parseObs st)
    | _ => none
  | _ => none

def seqOp (ds : DS) (cand : Cand) (impl : String) : DS × String × String :=
  let op : Op V := ⟨cand.cfg, cand.expected⟩
  let (s', r) := step (validFn cand.valid) verOf ds.model op
  let out := showResult r " " ++ " | " ++ showState s'
  let (verdict, prev') := match ds.prev, splitOut impl with
    | some p, some (code, ver, now) => (judge p cand code ver now, some now)
    | _, some (_, _, now) => ("-", some now)
    | _, none => ("viol:unparsable-output", ds.prev)
  ({ model := s', prev := prev' }, out, verdict)

/-! ### concurrent requests: search for a sequential witness -/

def insertAll (x : Nat) : List Nat → List (List Nat)
  | [] => [[x]]
  | y :: ys => (x :: y :: ys) :: (insertAll x ys).map (y :: ·)

def permutations : List Nat → List (List Nat)
  | [] => [[]]
  | x :: xs => (permutations xs).flatMap (insertAll x)

def runOrder (init : State) (cands : Array Cand) (order : List Nat) : State × List (Nat × String) :=
  order.foldl (fun (acc : State × List (Nat × String)) i =>
    match cands[i]? with
    | some cand =>
      let (s', r) := step (validFn cand.valid) verOf acc.1 ⟨cand.cfg, cand.expected⟩
      (s', acc.2 ++ [(i, showResult r ",")])
    | none => acc) (init, [])

def concOp (init : State) (cands : Array Cand) (impl : String) : String × String :=
  match impl.splitOn " | " with
  | [res, st] =>
    let results := res.splitOn ";"
    let n := cands.size
    let ok := (permutations (List.range n)).any fun order =>
      let (s', rs) := runOrder init cands order
      showState s' = st && (List.range n).all fun i =>
        match rs.find? (·.1 = i) with
        | some (_, r) => results[i]? = some r
        | none => false
    if results.length = n && ok then (impl, "ok") else ("no-linearization", "viol:not-linearizable")
  | _ => ("no-linearization", "viol:not-linearizable")

def parseConcCand (s : String) : Option Cand :=
  match s.splitOn "," with
  | [a, b, c, d, e] => parseCand a b c d (if e = "-" then none else some e)
  | _ => none

def stepD (ds : DS) (c : Case) : DS × String × String :=
  match c.op, c.args with
  | "reset", [r, l, t] =>
    match r.toNat?, t.toNat? with
    | some rest, some routes =>
      let s := init ⟨rest, l = "1", routes⟩
      ({ model := s, prev := parseObs c.impl }, showState s,
        match parseObs c.impl with
        | some o => if o.ver = s!"c{o.rest}.{o.routes}" && o.rest = rest && o.routes = routes && o.proxy = routes then "ok"
                    else "viol:initial-snapshot"
        | none => "viol:unparsable-output")
    | _, _ => (ds, "bad-op", "-")
  | "apply", [a, b, t, v] =>
    match parseCand a b t v none with
    | some cand => seqOp ds cand c.impl
    | none => (ds, "bad-op", "-")
  | "applyif", [a, b, t, v, e] =>
    match parseCand a b t v (some e) with
    | some cand => seqOp ds cand c.impl
    | none => (ds, "bad-op", "-")
  | "applynil", [] => seqOp ds ⟨none, false, none⟩ c.impl
  | "applynil", [e] => seqOp ds ⟨none, false, some e⟩ c.impl
  | "api", [ifm, cand, persist] =>
    let ifMatch : Option String := if ifm = "-" then none else some ifm
    let pc : Option (Option (Config × Bool)) :=
      if cand = "u" then some none else
      match cand.splitOn "," with
      | [a, b, t, v] => match a.toNat?, t.toNat? with
        | some rest, some routes => some (some (⟨rest, b = "1", routes⟩, v = "1"))
        | _, _ => none
      | _ => none
    match pc with
    | none => (ds, "bad-op", "-")
    | some cv =>
      let req : ApiReq V := ⟨ifMatch, cv.map (·.1), persist = "1"⟩
      let validBit := match cv with | some (_, v) => v | none => false
      let (a', resp) := apiApply (validFn validBit) verOf ⟨ds.model, none⟩ req
      let fileTok := match a'.file with | some _ => "cand" | none => "-"
      let out := resp.code.token ++ " " ++ resp.version.getD "-" ++ " file=" ++ fileTok ++ " | " ++ showState a'.gate
      let parsed : Option (String × String × String × Obs) :=
        match c.impl.splitOn " | " with
        | [res, st] => match res.splitOn " " with
          | [code, ver, f] => do pure (code, ver, (f.drop 5).toString, ← parseObs st)
          | _ => none
        | _ => none
      let (verdict, prev') := match ds.prev, parsed with
        | some p, some (code, ver, f, now) => (judgeApi p ifMatch cv (persist = "1") code ver f now, some now)
        | _, some (_, _, _, now) => ("-", some now)
        | _, none => ("viol:unparsable-output", ds.prev)
      ({ model := a'.gate, prev := prev' }, out, verdict)
  | "conc", [r, l, t, ops] =>
    match r.toNat?, t.toNat?, (ops.splitOn ";").mapM parseConcCand with
    | some rest, some routes, some cands =>
      let (m, v) := concOp (init ⟨rest, l = "1", routes⟩) cands.toArray c.impl
      (ds, m, v)
    | _, _, _ => (ds, "bad-op", "-")
  | _, _ => (ds, "bad-op", "-")

end Gate.C35

def main : IO Unit :=
  Gate.runDriver (σ := Gate.C35.DS) ⟨Gate.C35.init ⟨0, false, 0⟩, none⟩ Gate.C35.stepD
