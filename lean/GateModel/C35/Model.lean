/-
C35 — model of live configuration application:
  pkg/gate/gate.go       ApplyLiveConfig, ApplyLiveConfigIfVersion, applyLiveConfigLocked, configVersion,
                         onlyLiveLiteRoutesChanged, configsEqual, ConfigSnapshot
  pkg/edition/java/proxy/proxy.go   (*Proxy).ApplyLiveConfig (runtime snapshot + route generation)

A configuration is its *content*: `rest` = the canonical JSON of everything except the Lite routes (it
includes lite.enabled, repeated here as `lite` because the code tests it separately), `routes` = the
canonical JSON of the Lite routes.  `configsEqual` (bytes.Equal of json.Marshal) is equality of contents;
`cloneLiveLiteRoutes` (a JSON round trip) preserves the routes' content.  `valid` (Config.Validate has no
errors) and `ver` (configVersion = sha256 of the canonical JSON, hex) are parameters.
Core Lean only.
-/
namespace Gate.C35

structure Config where
  rest : Nat
  lite : Bool
  routes : Nat
  deriving DecidableEq, Repr

/-- `published := *current; published.Config.Lite.Routes = routes` -/
def Config.withRoutes (c : Config) (r : Nat) : Config := { c with routes := r }

inductive Code where
  | applied | unchanged | invalid | unsupported | preconditionFailed | prepareFailed
  deriving DecidableEq, Repr

structure Result (V : Type) where
  code : Code
  version : Option V

/-- the Java proxy's runtime snapshot (`runtimeConfigSnapshot`): its configuration and the route generation -/
structure Proxy where
  cfg : Config
  gen : Nat
  deriving DecidableEq, Repr

/-- the Gate: `currentConfig` and the Java proxy -/
structure State where
  cur : Config
  proxy : Proxy
  deriving DecidableEq, Repr

/-- `(*Proxy).ApplyLiveConfig(candidate)`; `none` = it returned an error.
    `reflect.DeepEqual` on configurations built by struct copy + JSON-cloned routes is content equality. -/
def proxyApply (valid : Config → Bool) (p : Proxy) (cand : Config) : Option Proxy :=
  if !p.cfg.lite || !cand.lite then none
  else if p.cfg = cand then some p
  else if p.cfg.rest ≠ cand.rest then none
  else if !valid cand then none
  else some { cfg := p.cfg.withRoutes cand.routes,
              gen := if cand.routes ≠ p.cfg.routes then p.gen + 1 else p.gen }

/-- `onlyLiveLiteRoutesChanged(current, candidate)` -/
def onlyRoutesChanged (cur cand : Config) : Bool :=
  cur.lite && cand.lite && cur.rest = cand.rest

/-- `applyLiveConfigLocked(candidate)`; `none` is the nil candidate -/
def applyLocked {V : Type} (valid : Config → Bool) (ver : Config → V) (s : State) (cand : Option Config) :
    State × Result V :=
  match cand with
  | none => (s, ⟨.invalid, none⟩)
  | some c =>
    if s.cur = c then (s, ⟨.unchanged, some (ver s.cur)⟩)
    else if !valid c then (s, ⟨.invalid, none⟩)
    else if !onlyRoutesChanged s.cur c then (s, ⟨.unsupported, none⟩)
    else
      let published : Config := s.cur.withRoutes c.routes
      match proxyApply valid s.proxy published with
      | none => (s, ⟨.prepareFailed, none⟩)
      | some p' => ({ cur := published, proxy := p' }, ⟨.applied, some (ver published)⟩)

/-- `ApplyLiveConfigIfVersion(candidate, expected)` (body, under reloadMu) -/
def applyIfVersion {V : Type} [DecidableEq V] (valid : Config → Bool) (ver : Config → V) (s : State)
    (cand : Option Config) (expected : V) : State × Result V :=
  if ver s.cur ≠ expected then (s, ⟨.preconditionFailed, some (ver s.cur)⟩)
  else applyLocked valid ver s cand

/-- one request -/
structure Op (V : Type) where
  cand : Option Config
  expected : Option V          -- `some v`: ApplyLiveConfigIfVersion, `none`: ApplyLiveConfig

def step {V : Type} [DecidableEq V] (valid : Config → Bool) (ver : Config → V) (s : State) (op : Op V) :
    State × Result V :=
  match op.expected with
  | some v => applyIfVersion valid ver s op.cand v
  | none => applyLocked valid ver s op.cand

/-- `gate.New(Options{Config: c})` -/
def init (c : Config) : State := { cur := c, proxy := { cfg := c, gen := 0 } }

/-- sequential history -/
def run {V : Type} [DecidableEq V] (valid : Config → Bool) (ver : Config → V) :
    State → List (Op V) → State × List (Result V)
  | s, [] => (s, [])
  | s, op :: ops =>
    let (s1, r) := step valid ver s op
    let (s2, rs) := run valid ver s1 ops
    (s2, r :: rs)


/-! ### the API handler: `ConfigHandlerImpl.ApplyConfig` (pkg/gate/api_handlers.go), under `applyMu` -/

/-- connect codes the handler answers with -/
inductive ApiCode where
  | ok | invalidArgument | failedPrecondition | internal
  deriving DecidableEq, Repr

/-- one ApplyConfig request.  `ifMatch = none` is the empty string; `cand = none` means the payload /
    merge patch could not be turned into a configuration (missing input, undecodable, unknown member);
    otherwise `cand` is the decoded document, resp. the merge-patched effective configuration. -/
structure ApiReq (V : Type) where
  ifMatch : Option V
  cand : Option Config
  persist : Bool

/-- the Gate plus the configuration file the handler persists to (`none`: nothing written) -/
structure ApiState where
  gate : State
  file : Option Config

structure ApiResp (V : Type) where
  code : ApiCode
  version : Option V

/-- the handler's steps in source order: if_match required; decode / merge; validate; then EVERY candidate
    — also one equal to the effective configuration — goes through `ApplyLiveConfigIfVersion`, which tests
    the expected version first; persist only after success. -/
def apiApply {V : Type} [DecidableEq V] (valid : Config → Bool) (ver : Config → V) (a : ApiState)
    (req : ApiReq V) : ApiState × ApiResp V :=
  match req.ifMatch with
  | none => (a, ⟨.invalidArgument, none⟩)
  | some e =>
    match req.cand with
    | none => (a, ⟨.invalidArgument, none⟩)
    | some c =>
      if !valid c then (a, ⟨.invalidArgument, none⟩)
      else
        let out := applyIfVersion valid ver a.gate (some c) e
        match out.2.code with
        | .applied | .unchanged =>
          ({ gate := out.1, file := if req.persist then some c else a.file }, ⟨.ok, out.2.version⟩)
        | .preconditionFailed | .unsupported => ({ a with gate := out.1 }, ⟨.failedPrecondition, none⟩)
        | .invalid => ({ a with gate := out.1 }, ⟨.invalidArgument, none⟩)
        | .prepareFailed => ({ a with gate := out.1 }, ⟨.internal, none⟩)

end Gate.C35
