import GateModel.C35.Lemmas
import GateModel.C35.Conc
import GateModel.Gen.C35
/-
C35 — Live config changes are atomic, validated and versioned by content.

`step` (Model.lean) mirrors ApplyLiveConfig / ApplyLiveConfigIfVersion (bodies under reloadMu) including
the Java proxy's own ApplyLiveConfig; `valid` (Config.Validate) and `ver` (configVersion = sha256 of the
canonical JSON) are parameters; a configuration is its content (canonical JSON of everything but the
routes, canonical JSON of the routes).  `Coherent s` — Gate and proxy hold the same configuration — holds
initially (`init`) and is preserved.  Property theorems only; helpers are in Lemmas.lean / Conc.lean.
-/
namespace Gate.C35.Props
open Gate.C35

variable {V : Type} [DecidableEq V] (valid : Config → Bool) (ver : Config → V)

/-! ### one request -/

/-- only valid candidates that differ from the current configuration solely in Lite routes are applied -/
theorem only_route_changes_applied (s : State) (hc : Coherent s) (op : Op V)
    (h : (step valid ver s op).2.code = .applied) : Acceptable valid s.cur op.cand := by
  obtain ⟨ho, _⟩ := step_outcome valid ver s hc op
  generalize step valid ver s op = st at ho h
  obtain ⟨s1, x⟩ := st
  simp only at ho h ⊢
  cases ho with
  | applied c h1 h2 h3 h4 => exact ⟨c, h2, h3, h4⟩
  | _ => simp at h

/-- … and every such candidate is applied (unless a stale expected version was given) -/
theorem acceptable_is_applied (s : State) (hc : Coherent s) (op : Op V)
    (ha : Acceptable valid s.cur op.cand) (hg : ∀ e, op.expected = some e → e = ver s.cur) :
    (step valid ver s op).2.code = .applied := by
  obtain ⟨c, hcand, hv, hr⟩ := ha
  obtain ⟨ho, _⟩ := step_outcome valid ver s hc op
  generalize step valid ver s op = st at ho
  obtain ⟨s1, x⟩ := st
  simp only at ho ⊢
  cases ho with
  | applied => rfl
  | stale e h1 h2 => exact absurd (hg e h1).symm h2
  | nil h1 h2 => rw [hcand] at h2; cases h2
  | same h1 h2 => rw [hcand] at h2; cases h2; exact absurd rfl hr.2.2.2
  | invalid c' h1 h2 h3 h4 => rw [hcand] at h2; cases h2; rw [hv] at h4; cases h4
  | unsupported c' h1 h2 h3 h4 h5 => rw [hcand] at h2; cases h2; exact absurd hr h5

/-- the published configuration is exactly the (complete) candidate; the proxy routes with it and its
    route generation advances (ping cache reset) -/
theorem published_is_the_candidate (s : State) (hc : Coherent s) (op : Op V)
    (h : (step valid ver s op).2.code = .applied) :
    op.cand = some (step valid ver s op).1.cur ∧
    (step valid ver s op).1.proxy.cfg = (step valid ver s op).1.cur ∧
    (step valid ver s op).1.proxy.gen = s.proxy.gen + 1 := by
  obtain ⟨ho, _⟩ := step_outcome valid ver s hc op
  generalize step valid ver s op = st at ho h
  obtain ⟨s1, x⟩ := st
  simp only at ho h ⊢
  cases ho with
  | applied c h1 h2 h3 h4 => exact ⟨h2, rfl, rfl⟩
  | _ => simp at h

/-- rejected candidates leave configuration, version, routing and generation unchanged -/
theorem rejected_unchanged (s : State) (hc : Coherent s) (op : Op V)
    (h : (step valid ver s op).2.code ≠ .applied) : (step valid ver s op).1 = s := by
  obtain ⟨ho, _⟩ := step_outcome valid ver s hc op
  generalize step valid ver s op = st at ho h
  obtain ⟨s1, x⟩ := st
  simp only at ho h ⊢
  cases ho with
  | applied => simp at h
  | _ => rfl

/-- compare-and-swap: a conditional apply gets past the precondition only with the current version -/
theorem conditional_apply_is_cas (s : State) (hc : Coherent s) (op : Op V) (e : V) (he : op.expected = some e)
    (h : (step valid ver s op).2.code ≠ .preconditionFailed) : e = ver s.cur := by
  obtain ⟨ho, _⟩ := step_outcome valid ver s hc op
  generalize step valid ver s op = st at ho h
  obtain ⟨s1, x⟩ := st
  simp only at ho h ⊢
  cases ho with
  | stale e' h1 h2 => simp at h
  | nil h1 _ => exact (h1 e he).symm
  | same h1 _ => exact (h1 e he).symm
  | invalid _ h1 _ _ _ => exact (h1 e he).symm
  | applied _ h1 _ _ _ => exact (h1 e he).symm
  | unsupported _ h1 _ _ _ _ => exact (h1 e he).symm

theorem stale_version_refused (s : State) (op : Op V) (e : V) (he : op.expected = some e) (h : e ≠ ver s.cur) :
    step valid ver s op = (s, ⟨.preconditionFailed, some (ver s.cur)⟩) := by
  simp [step, he, applyIfVersion, Ne.symm h]

/-- every version a result carries is the version of the configuration current after the request -/
theorem reported_version_is_current (s : State) (hc : Coherent s) (op : Op V) (v : V)
    (h : (step valid ver s op).2.version = some v) : v = ver (step valid ver s op).1.cur := by
  obtain ⟨ho, _⟩ := step_outcome valid ver s hc op
  generalize step valid ver s op = st at ho h
  obtain ⟨s1, x⟩ := st
  simp only at ho h ⊢
  cases ho <;> simp_all

theorem unchanged_means_same_content (s : State) (hc : Coherent s) (op : Op V)
    (h : (step valid ver s op).2.code = .unchanged) : op.cand = some s.cur := by
  obtain ⟨ho, _⟩ := step_outcome valid ver s hc op
  generalize step valid ver s op = st at ho h
  obtain ⟨s1, x⟩ := st
  simp only at ho h ⊢
  cases ho with
  | same h1 h2 => exact h2
  | _ => simp at h

/-- the content changes exactly when the request is applied … -/
theorem content_changes_iff_applied (s : State) (hc : Coherent s) (op : Op V) :
    (step valid ver s op).1.cur ≠ s.cur ↔ (step valid ver s op).2.code = .applied := by
  obtain ⟨ho, _⟩ := step_outcome valid ver s hc op
  generalize step valid ver s op = st at ho
  obtain ⟨s1, x⟩ := st
  simp only at ho ⊢
  cases ho with
  | applied c h1 h2 h3 h4 =>
    simp only [ne_eq, iff_true]
    intro e; exact h4.2.2.2 (by rw [e])
  | _ => simp

omit [DecidableEq V] in
/-- … and the version string changes exactly when the content changes
    (hypothesis: sha256 ∘ canonical JSON is injective on contents, i.e. no collision) -/
theorem version_changes_iff_content_changes (hinj : ∀ a b, ver a = ver b → a = b) (s s' : State) :
    ver s'.cur ≠ ver s.cur ↔ s'.cur ≠ s.cur :=
  ⟨fun h e => h (by rw [e]), fun h e => h (hinj _ _ e)⟩

/-! ### all sequential histories -/

/-- From `gate.New(c0)`, after ANY sequence of requests: Gate and proxy agree; everything except the routes is
    still c0's; the current configuration is c0 or one complete, valid, submitted candidate; the route
    generation counts the applied requests; `prepare_failed` never happens; one result per request. -/
theorem history_invariants (c0 : Config) (ops : List (Op V)) :
    let out := run valid ver (init c0) ops
    Coherent out.1 ∧ out.1.cur.rest = c0.rest ∧ out.1.cur.lite = c0.lite ∧
    (out.1.cur = c0 ∨ ∃ op ∈ ops, op.cand = some out.1.cur ∧ valid out.1.cur = true) ∧
    out.1.proxy.gen = (out.2.filter (fun x => x.code = .applied)).length ∧
    (∀ x ∈ out.2, x.code ≠ .prepareFailed) ∧ out.2.length = ops.length := by
  have := run_facts valid ver ops (init c0) (coherent_init c0)
  simpa [init] using this

/-- a Gate whose configuration is not in Lite mode never changes it -/
theorem non_lite_never_changes (c0 : Config) (h : c0.lite = false) (ops : List (Op V)) :
    (run valid ver (init c0) ops).1 = init c0 := by
  induction ops with
  | nil => rfl
  | cons op ops ih =>
    have hc := coherent_init c0
    have : (step valid ver (init c0) op).1 = init c0 := by
      apply rejected_unchanged valid ver _ hc
      intro ha
      obtain ⟨c, _, _, hr⟩ := only_route_changes_applied valid ver _ hc op ha
      have : c0.lite = true := hr.1
      rw [h] at this; cases this
    simp only [run]
    generalize hs : step valid ver (init c0) op = st at this
    obtain ⟨s1, x⟩ := st
    simp only at this
    subst this
    exact ih

/-- the code's sequence of tests (and the proxy's own) implements the abstract compare-and-swap register -/
theorem refines_cas_register (ops : List (Op V)) (s : State) (hc : Coherent s) :
    (run valid ver s ops).2 = (specRun valid ver (abs s) ops).2 ∧
    abs (run valid ver s ops).1 = (specRun valid ver (abs s) ops).1 := by
  obtain ⟨s', e, _, a⟩ := run_refines valid ver ops s hc
  rw [e]; exact ⟨rfl, a⟩

/-! ### through the API handler (`ConfigHandlerImpl.ApplyConfig`): if_match is a precondition for EVERY candidate -/

/-- the handler answers OK only if if_match is the current version — whatever the candidate, including one that
    resolves to the configuration already in effect (re-submitted document, empty merge patch, same routes) -/
theorem api_ok_requires_current_version (a : ApiState) (hc : Coherent a.gate) (req : ApiReq V)
    (h : (apiApply valid ver a req).2.code = .ok) : req.ifMatch = some (ver a.gate.cur) := by
  obtain ⟨ho, _⟩ := apiApply_outcome valid ver a hc req
  generalize apiApply valid ver a req = st at ho h
  obtain ⟨a1, x⟩ := st
  simp only at ho h ⊢
  cases ho with
  | same e h1 h2 h3 h4 => rw [h1, h4]
  | applied e c h1 h2 h3 h4 h5 => rw [h1, h4]
  | _ => simp at h

/-- a stale / arbitrary / missing version is refused and changes nothing — for every candidate, in particular
    (`req.cand = some a.gate.cur`) one equal to the configuration in effect -/
theorem api_wrong_version_refused (a : ApiState) (hc : Coherent a.gate) (req : ApiReq V)
    (hm : req.ifMatch ≠ some (ver a.gate.cur)) :
    (apiApply valid ver a req).2.code ≠ .ok ∧ (apiApply valid ver a req).1 = a := by
  obtain ⟨ho, _⟩ := apiApply_outcome valid ver a hc req
  generalize apiApply valid ver a req = st at ho
  obtain ⟨a1, x⟩ := st
  simp only at ho ⊢
  cases ho with
  | same e h1 h2 h3 h4 => exact absurd (by rw [h1, h4]) hm
  | applied e c h1 h2 h3 h4 h5 => exact absurd (by rw [h1, h4]) hm
  | _ => exact ⟨by simp, rfl⟩

/-- OK means: the candidate was valid and either equal to the current content or a route-only change of it; it
    is now the current configuration and the returned version is its version -/
theorem api_ok_publishes_the_candidate (a : ApiState) (hc : Coherent a.gate) (req : ApiReq V)
    (h : (apiApply valid ver a req).2.code = .ok) :
    ∃ c, req.cand = some c ∧ valid c = true ∧ (c = a.gate.cur ∨ RouteOnlyChange a.gate.cur c) ∧
      (apiApply valid ver a req).1.gate.cur = c ∧ (apiApply valid ver a req).2.version = some (ver c) := by
  obtain ⟨ho, _⟩ := apiApply_outcome valid ver a hc req
  generalize apiApply valid ver a req = st at ho h
  obtain ⟨a1, x⟩ := st
  simp only at ho h ⊢
  cases ho with
  | same e h1 h2 h3 h4 => exact ⟨_, h2, h3, Or.inl rfl, rfl, rfl⟩
  | applied e c h1 h2 h3 h4 h5 => exact ⟨c, h2, h3, Or.inr h5, rfl, rfl⟩
  | _ => simp at h

/-- every refusal leaves the Gate, the proxy and the persisted file untouched -/
theorem api_rejected_changes_nothing (a : ApiState) (hc : Coherent a.gate) (req : ApiReq V)
    (h : (apiApply valid ver a req).2.code ≠ .ok) : (apiApply valid ver a req).1 = a := by
  obtain ⟨ho, _⟩ := apiApply_outcome valid ver a hc req
  generalize apiApply valid ver a req = st at ho h
  obtain ⟨a1, x⟩ := st
  simp only at ho h ⊢
  cases ho with
  | same e h1 h2 h3 h4 => simp at h
  | applied e c h1 h2 h3 h4 h5 => simp at h
  | _ => rfl

/-- the file is written only by a successful request that asked for it, and then holds its candidate -/
theorem api_persists_only_on_success (a : ApiState) (hc : Coherent a.gate) (req : ApiReq V)
    (h : (apiApply valid ver a req).1.file ≠ a.file) :
    (apiApply valid ver a req).2.code = .ok ∧ req.persist = true ∧ (apiApply valid ver a req).1.file = req.cand := by
  obtain ⟨ho, _⟩ := apiApply_outcome valid ver a hc req
  generalize apiApply valid ver a req = st at ho h
  obtain ⟨a1, x⟩ := st
  simp only at ho h ⊢
  cases ho with
  | same e h1 h2 h3 h4 =>
    cases hp : req.persist <;> simp_all
  | applied e c h1 h2 h3 h4 h5 =>
    cases hp : req.persist <;> simp_all
  | _ => exact absurd rfl h

/-- with the current version, a valid no-op or route-only candidate is accepted -/
theorem api_current_version_accepted (a : ApiState) (hc : Coherent a.gate) (req : ApiReq V) (c : Config)
    (hm : req.ifMatch = some (ver a.gate.cur)) (hcand : req.cand = some c) (hv : valid c = true)
    (hr : c = a.gate.cur ∨ RouteOnlyChange a.gate.cur c) : (apiApply valid ver a req).2.code = .ok := by
  obtain ⟨ho, _⟩ := apiApply_outcome valid ver a hc req
  generalize apiApply valid ver a req = st at ho
  obtain ⟨a1, x⟩ := st
  simp only at ho ⊢
  cases ho with
  | same => rfl
  | applied => rfl
  | noVersion h1 => rw [hm] at h1; cases h1
  | undecodable h1 => rw [hcand] at h1; cases h1
  | invalid c' h1 h2 => rw [hcand] at h1; cases h1; rw [hv] at h2; cases h2
  | stale e c' h1 h2 h3 h4 => rw [hm] at h1; cases h1; exact absurd rfl h4
  | unsupported e c' h1 h2 h3 h4 h5 h6 =>
    rw [hcand] at h2; cases h2
    rcases hr with hr | hr
    · exact absurd hr h5
    · exact absurd hr h6

/-- the handler still preserves Gate/proxy coherence, so all of the above holds along every API history -/
theorem api_preserves_coherence (a : ApiState) (hc : Coherent a.gate) (req : ApiReq V) :
    Coherent (apiApply valid ver a req).1.gate := (apiApply_outcome valid ver a hc req).2

/-! ### all interleavings of concurrent appliers -/

/-- Linearizability.  Threads run  Lock ; load ; compute+store ; Unlock  with the request body `step`; for every
    schedule of these actions, the shared state is the one a SEQUENTIAL execution of the stored requests in
    the order `y.order` produces, every thread that got past its store holds exactly the result that
    sequential execution gives it, and `order` lists those threads once each. -/
theorem linearizable (ops : Nat → Op V) (s0 : State) (sched : List Nat) (y : Conc.Sys State (Result V))
    (h : Conc.exec (step valid ver) ops (Conc.start s0) sched = some y) :
    y.shared = (Conc.seq (step valid ver) ops s0 y.order).1 ∧
    (∀ t r, (y.pc t = .committed r ∨ y.pc t = .finished r) →
        (t, r) ∈ (Conc.seq (step valid ver) ops s0 y.order).2) ∧
    y.order.Nodup ∧ (∀ t, t ∈ y.order ↔ Conc.done (y.pc t)) := by
  have hi := Conc.inv_exec (step valid ver) ops s0 sched _ y (Conc.inv_start _ ops s0) h
  exact ⟨hi.shared_eq, hi.results, hi.order_nodup, hi.order_mem⟩

/-- between a thread's load and its store nobody else changes the shared configuration (no lost update) -/
theorem loaded_snapshot_is_current (ops : Nat → Op V) (s0 : State) (sched : List Nat)
    (y : Conc.Sys State (Result V))
    (h : Conc.exec (step valid ver) ops (Conc.start s0) sched = some y) (t : Nat) (snap : State)
    (hl : y.pc t = .loaded snap) : snap = y.shared ∧ y.holder = some t :=
  (Conc.inv_exec (step valid ver) ops s0 sched _ y (Conc.inv_start _ ops s0) h).loaded t snap hl

/-! ### source shape (regenerated from /repo on every run): every applier body is one reloadMu critical section -/

theorem apply_is_critical_section :
    Gate.Gen.C35.applyCalls = ["g.reloadMu.Lock", "defer:g.reloadMu.Unlock", "g.applyLiveConfigLocked", "return"] := by
  decide
theorem applyIfVersion_is_critical_section :
    Gate.Gen.C35.applyIfCalls =
      ["g.reloadMu.Lock", "defer:g.reloadMu.Unlock", "g.currentConfig.Load", "configVersion", "return", "return",
       "g.applyLiveConfigLocked", "return"] := by decide
theorem snapshot_is_critical_section :
    Gate.Gen.C35.snapshotCalls.take 3 = ["g.reloadMu.Lock", "defer:g.reloadMu.Unlock", "g.currentConfig.Load"] := by
  decide
/-- load once at the top, tests in the modelled order, store only after the proxy accepted -/
theorem locked_body_order :
    Gate.Gen.C35.lockedCalls.filter (fun c => c ∈
        ["g.currentConfig.Load", "configsEqual", "candidate.Validate", "onlyLiveLiteRoutesChanged",
         "cloneLiveLiteRoutes", "g.javaProxy.ApplyLiveConfig", "g.currentConfig.Store"])
      = ["g.currentConfig.Load", "configsEqual", "candidate.Validate", "onlyLiveLiteRoutesChanged",
         "cloneLiveLiteRoutes", "g.javaProxy.ApplyLiveConfig", "g.currentConfig.Store"] := by decide
theorem version_is_sha256_of_json :
    Gate.Gen.C35.versionCalls = ["json.Marshal", "return", "sha256.Sum256", "fmt.Sprintf", "return"] := by decide
theorem equality_is_json_equality :
    Gate.Gen.C35.equalCalls = ["json.Marshal", "return", "json.Marshal", "return", "bytes.Equal", "return"] := by decide
theorem proxy_apply_order :
    Gate.Gen.C35.proxyApplyCalls.filter (fun c => c ∈
        ["p.liveConfigMu.Lock", "defer:p.liveConfigMu.Unlock", "p.configSnapshot", "reflect.DeepEqual",
         "candidate.Validate", "cloneLiteRoutes", "liteRoutesChanged", "lite.ResetPingCache", "p.currentCfg.Store"])
      = ["p.liveConfigMu.Lock", "defer:p.liveConfigMu.Unlock", "p.configSnapshot", "reflect.DeepEqual",
         "reflect.DeepEqual", "candidate.Validate", "cloneLiteRoutes", "liteRoutesChanged", "lite.ResetPingCache",
         "p.currentCfg.Store"] := by decide

/-! ### non-vacuity -/

private def c0 : Config := ⟨0, true, 0⟩
private def okAll : Config → Bool := fun c => c.routes ≠ 9
private def verId : Config → Nat × Nat := fun c => (c.rest, c.routes)

example : Coherent (init c0) := rfl
example : (run okAll verId (init c0)
    [⟨some ⟨0, true, 1⟩, none⟩, ⟨some ⟨0, true, 2⟩, some (0, 0)⟩, ⟨some ⟨1, true, 2⟩, some (0, 1)⟩,
     ⟨some ⟨0, true, 9⟩, none⟩, ⟨some ⟨0, true, 1⟩, none⟩, ⟨none, none⟩]).2.map (·.code)
    = [.applied, .preconditionFailed, .unsupported, .invalid, .unchanged, .invalid] := by decide
example : ∀ a b : Config, a.lite = b.lite → verId a = verId b → a = b := by
  intro a b hl h; cases a; cases b; simp_all [verId]
/-- two threads, schedule  A.lock A.load A.store A.unlock B.lock B.load B.store B.unlock  runs to completion -/
example : (Conc.exec (step okAll verId) (fun t => (⟨some ⟨0, true, t + 1⟩, none⟩ : Op (Nat × Nat)))
    (Conc.start (init c0)) [0, 0, 0, 0, 1, 1, 1, 1]).isSome = true := by decide
/-- a thread cannot take the lock while another holds it -/
example : (Conc.exec (step okAll verId) (fun t => (⟨some ⟨0, true, t + 1⟩, none⟩ : Op (Nat × Nat)))
    (Conc.start (init c0)) [0, 1]).isSome = false := by decide

end Gate.C35.Props
