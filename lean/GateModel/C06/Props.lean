import GateModel.C06.Lemmas
/-
C06 — Packet id tables agree with the reference protocol for every version.

Property theorems only.  `build st dir` is the model of registry `state.<st>.<dir>` after `init()` of
register.go, computed from the mapping table that `tools/gofacts` regenerates from the source on every run
(`Gate.Gen.C06`); registries are numbered Handshake 0, Status 1, Config 2, Login 3, Play 4 (`registryS`),
directions 0 = serverbound, 1 = clientbound.

  * `ids_injective`, `types_injective`, `id_type_inverse` — GENERAL (any register.go content): whenever init does
    not panic, per protocol an id has at most one type, a type at most one id, and `PacketID`/`CreatePacket` are
    mutually inverse lookups.  Proved by induction over `Register`, not by evaluation.
  * `ref_<registry>_<dir>` — `decide +kernel` over the complete generated table, one theorem per (registry,
    direction): init does not panic and every reference entry has the reference's id at every supported
    protocol ≤ `refMax`.  `expand_wellformed` and `matches_reference` are the ∀-statements lifted from them.
  * `fallback_partial`, `fallback_fails` — a registry with `Fallback = true` answers an unknown protocol with the
    lowest supported version's table; one with `Fallback = false` answers `nil`.  register.go sets `false` for
    `Play` (both directions): recorded finding `play-no-fallback` (Velocity behaves the same and throws).  The
    theorems are stated for both values of the flag, so a repair of register.go does not break them.
  * `reference_coverage`, `supported_subset_reference`, version-table sanity.
-/
namespace Gate.C06.Props
open Gate.Gen.C06 Gate.C06

/-! ### each id ↔ at most one type, for every registry, direction, protocol (general, by induction) -/

theorem ids_injective {st dir : Nat} {t : Table} (h : build st dir = .ok t) {p : Int} {pt : ProtoTable}
    (hp : findProto t p = some pt) {id ty1 ty2 : Nat} (h1 : (id, ty1) ∈ pt) (h2 : (id, ty2) ∈ pt) :
    ty1 = ty2 :=
  pinj_id_unique ((build_inv h).1 _ (findProto_mem hp)) h1 h2

theorem types_injective {st dir : Nat} {t : Table} (h : build st dir = .ok t) {p : Int} {pt : ProtoTable}
    (hp : findProto t p = some pt) {id1 id2 ty : Nat} (h1 : (id1, ty) ∈ pt) (h2 : (id2, ty) ∈ pt) :
    id1 = id2 :=
  pinj_type_unique ((build_inv h).1 _ (findProto_mem hp)) h1 h2

/-- `PacketTypes[ty] = id` exactly when `PacketIDs[id] = ty` -/
theorem id_type_inverse {st dir : Nat} {t : Table} (h : build st dir = .ok t) (p : Int) (id ty : Nat) :
    packetId t p ty = some id ↔ packetType t p id = some ty := by
  unfold packetId packetType
  cases hf : findProto t p with
  | none => simp
  | some pt =>
    have hi := (build_inv h).1 _ (findProto_mem hf)
    simp only [Option.bind_some]
    rw [packetIdIn_iff hi, packetTypeIn_iff hi]

/-- the registries exist exactly for the supported versions -/
theorem registry_protocols {st dir : Nat} {t : Table} (h : build st dir = .ok t) (p : Int) :
    (findProto t p).isSome = true ↔ p ∈ supported := by
  have hk := (build_inv h).2
  constructor
  · intro hs
    cases hf : findProto t p with
    | none => rw [hf] at hs; cases hs
    | some pt => rw [← hk]; exact List.mem_map.mpr ⟨_, findProto_mem hf, rfl⟩
  · intro hp; exact findProto_isSome (hk ▸ hp)

/-! ### the generated table: no panic, ids equal to the reference (kernel evaluation, one per registry) -/

set_option maxRecDepth 100000 in
theorem ref_handshake_sb : refCheck registryS.Handshake 0 = true := by decide +kernel
set_option maxRecDepth 100000 in
theorem ref_handshake_cb : refCheck registryS.Handshake 1 = true := by decide +kernel
set_option maxRecDepth 100000 in
theorem ref_status_sb : refCheck registryS.Status 0 = true := by decide +kernel
set_option maxRecDepth 100000 in
theorem ref_status_cb : refCheck registryS.Status 1 = true := by decide +kernel
set_option maxRecDepth 100000 in
theorem ref_config_sb : refCheck registryS.Config 0 = true := by decide +kernel
set_option maxRecDepth 100000 in
theorem ref_config_cb : refCheck registryS.Config 1 = true := by decide +kernel
set_option maxRecDepth 100000 in
theorem ref_login_sb : refCheck registryS.Login 0 = true := by decide +kernel
set_option maxRecDepth 100000 in
theorem ref_login_cb : refCheck registryS.Login 1 = true := by decide +kernel
set_option maxRecDepth 100000 in
theorem ref_play_sb : refCheck registryS.Play 0 = true := by decide +kernel
set_option maxRecDepth 100000 in
theorem ref_play_cb : refCheck registryS.Play 1 = true := by decide +kernel

/-- the registry variables of register.go are exactly these five, in this order -/
theorem registry_states : registryStates.length = 5 ∧
    [registryS.Handshake, registryS.Status, registryS.Config, registryS.Login, registryS.Play] = [0, 1, 2, 3, 4] := by
  decide

theorem refCheck_all {st dir : Nat} (hst : st < 5) (hdir : dir < 2) : refCheck st dir = true := by
  have hs : st = 0 ∨ st = 1 ∨ st = 2 ∨ st = 3 ∨ st = 4 := by omega
  have hd : dir = 0 ∨ dir = 1 := by omega
  rcases hs with rfl | rfl | rfl | rfl | rfl <;> rcases hd with rfl | rfl
  · exact ref_handshake_sb
  · exact ref_handshake_cb
  · exact ref_status_sb
  · exact ref_status_cb
  · exact ref_config_sb
  · exact ref_config_cb
  · exact ref_login_sb
  · exact ref_login_cb
  · exact ref_play_sb
  · exact ref_play_cb

/-- none of the panic branches of `Register` is reachable on the table written in register.go -/
theorem expand_wellformed {st dir : Nat} (hst : st < 5) (hdir : dir < 2) : ∃ t, build st dir = .ok t :=
  isOk_iff.mp (refCheck_ok (refCheck_all hst hdir))

/-- every packet type gate shares with the reference has the reference's id (and is registered exactly where
    the reference registers it) in every supported protocol version the reference covers -/
theorem matches_reference {st dir : Nat} (hst : st < 5) (hdir : dir < 2) {t : Table} (hb : build st dir = .ok t)
    (e : Spec.RefEntry) (he : e ∈ Spec.reference) (hes : e.st = st) (hed : e.dir = dir)
    (p : Int) (hp : p ∈ supported) (hmax : p ≤ Spec.refMax) :
    packetId t p e.ty = Spec.refId e.maps p :=
  refCheck_spec (refCheck_all hst hdir) hb e he hes hed p hp hmax

/-- coverage of the reference: every registration of register.go is for a type the reference has an entry for
    in that registry and direction, except the two gate-only sound packets -/
theorem reference_coverage :
    coverageCheck [registryT.packet_SoundEntityPacket, registryT.packet_StopSoundPacket] = true := by
  decide +kernel

/-- reference entries only name registries/directions that exist -/
theorem reference_wellformed : Spec.reference.all (fun e => decide (e.st < 5 ∧ e.dir < 2)) = true := by
  decide +kernel

/-! ### version table -/

/-- `Versions` lists the supported versions in strictly ascending order, so `MinimumVersion` is the lowest and
    `MaximumVersion` the highest supported protocol -/
theorem supported_ascending : supported.Pairwise (· < ·) := by decide +kernel

theorem min_lowest : ∀ p ∈ supported, minVersion ≤ p := by decide +kernel
theorem max_highest : ∀ p ∈ supported, p ≤ maxVersion := by decide +kernel
theorem min_supported : minVersion ∈ supported := by decide +kernel

/-- every version gate supports (up to the newest the reference knows) is a version of the reference -/
theorem supported_subset_reference : ∀ p ∈ supported, p ≤ Spec.refMax → p ∈ Spec.velocityVersions := by
  decide +kernel

/-! ### unknown protocol versions

`protocolRegistry t fb p` models `(*PacketRegistry).ProtocolRegistry(p)` for a registry whose `Fallback` field is
`fb`.  Which value the field has per registry is a regenerated fact (`fallbackFlag`, from the `X.Dir.Fallback = b`
assignments of register.go); the driver uses it, the theorems below cover both values. -/

/-- a registry with `Fallback = true` answers a protocol the proxy does not know with the lowest supported
    version's table (never `nil`).  `_partial`: the property's clause holds for such registries only. -/
theorem fallback_partial {st dir : Nat} {t : Table} (hb : build st dir = .ok t) (p : Int) (hp : p ∉ supported) :
    protocolRegistry t true p = protocolRegistry t true minVersion ∧
      (protocolRegistry t true p).isSome = true := by
  have hk := (build_inv hb).2
  have hnone : findProto t p = none := findProto_none.mpr (hk ▸ hp)
  have hmin : (findProto t minVersion).isSome = true := findProto_isSome (hk ▸ min_supported)
  cases hm : findProto t minVersion with
  | none => rw [hm] at hmin; cases hmin
  | some pt => simp [protocolRegistry, hnone, hm]

/-- with `Fallback = false` (what register.go sets for `Play`) the clause fails for EVERY unknown protocol:
    the answer is `nil`, not the lowest version's table -/
theorem fallback_fails {st dir : Nat} {t : Table} (hb : build st dir = .ok t) (p : Int) (hp : p ∉ supported) :
    protocolRegistry t false p = none ∧ protocolRegistry t false p ≠ protocolRegistry t false minVersion := by
  have hk := (build_inv hb).2
  have hnone : findProto t p = none := findProto_none.mpr (hk ▸ hp)
  have hmin : (findProto t minVersion).isSome = true := findProto_isSome (hk ▸ min_supported)
  cases hm : findProto t minVersion with
  | none => rw [hm] at hmin; cases hmin
  | some pt => simp [protocolRegistry, hnone, hm]

/-- concrete witness on the generated table: 9999 is unknown, `Play.ServerBound` initialises -/
theorem fallback_fails_witness : ∃ t, build registryS.Play 0 = .ok t ∧ (9999 : Int) ∉ supported ∧
    protocolRegistry t false 9999 = none := by
  obtain ⟨t, hb⟩ := expand_wellformed (st := registryS.Play) (dir := 0) (by decide) (by decide)
  have hp : (9999 : Int) ∉ supported := by decide +kernel
  exact ⟨t, hb, hp, (fallback_fails hb 9999 hp).1⟩

/-- every registry other than `Play` keeps the default `Fallback = true` -/
theorem fallback_enabled_outside_play :
    ([registryS.Handshake, registryS.Status, registryS.Config, registryS.Login].all fun st =>
      fallbackFlag st 0 && fallbackFlag st 1) = true := by decide

/-! ### non-vacuity -/

example : ∃ t, build registryS.Play 1 = .ok t := expand_wellformed (by decide) (by decide)
example : (9999 : Int) ∉ supported ∧ (109 : Int) ∉ supported ∧ (-1 : Int) ∉ supported := by decide +kernel
example : Spec.reference.length = 90 ∧ (Spec.referenceFor registryS.Play 1).length = 31 := by decide +kernel
example : Spec.refId [Spec.mp 0 4, Spec.mpl 3 477 758] 758 = some 3 ∧
    Spec.refId [Spec.mp 0 4, Spec.mpl 3 477 758] 759 = none ∧ Spec.refId [Spec.mp 7 47] 5 = none := by decide

end Gate.C06.Props
