import GateModel.Base.Line
import GateModel.C06.Model
import GateModel.C06.Spec
/-
C06 driver.  Case lines (registry by Go variable name, direction `sb`/`cb`):
  versions                      all=<Versions protocols> min=<MinimumVersion> max=<MaximumVersion>
  flag   <Reg> <dir>            PacketRegistry.Fallback after init
  keys   <Reg> <dir>            sorted keys of PacketRegistry.Protocols
  dump   <Reg> <dir> <p>        proto=<Protocol field> ids=<id:type,… by id> types=<type:id,… by type name>
  count  <Reg> <dir>            number of registered (protocol, type) pairs
  reg    <Reg> <dir> <p>        ProtocolRegistry(p): `nil` | `<Protocol field> <len(PacketIDs)>`
  pid    <Reg> <dir> <p> <type> ProtocolRegistry(p).PacketID(new type): id | none | panic (nil registry)
  create <Reg> <dir> <p> <id>   ProtocolRegistry(p).CreatePacket(id): type | nil | panic
  gomc   <Reg> <dir> <type> <k> gate's id of <type> at protocol 764 (k = go-mc's constant for the same packet)
The model answers from `build` (the expansion of the regenerated register.go table).
Spec verdicts on the IMPLEMENTATION's output: per-protocol maps mutually inverse and injective, ids equal to the
hand-transcribed Velocity reference (`Spec.reference`, protocols ≤ `Spec.refMax`), unknown protocols answered
with the lowest supported version's registry, protocol-764 ids equal to go-mc's constants (and the reference
equal to go-mc, too).
-/
namespace Gate.C06
open Gate Gate.Gen.C06

structure Ctx where
  tables : Array (Except Panic Table)   -- index 2*st+dir

def mkCtx : Ctx :=
  ⟨((List.range registryStates.length).flatMap fun st => [build st 0, build st 1]).toArray⟩

def stateIdx (name : String) : Option Nat :=
  let i := registryStates.idxOf name
  if i < registryStates.length then some i else none

def dirIdx : String → Option Nat
  | "sb" => some 0 | "cb" => some 1 | _ => none

def typeIdx (name : String) : Option Nat :=
  let i := registryTypes.idxOf name
  if i < registryTypes.length then some i else none

def typeName (i : Nat) : String := registryTypes.getD i ("type#" ++ toString i)

def strLe (a b : String) : Bool := !(b < a)

def joinOrDash (xs : List String) : String := if xs.isEmpty then "-" else ",".intercalate xs

def showIds (pt : ProtoTable) : String :=
  joinOrDash ((pt.mergeSort fun a b => a.1 ≤ b.1).map fun e => toString e.1 ++ ":" ++ typeName e.2)

def showTypes (pt : ProtoTable) : String :=
  joinOrDash (((pt.map fun e => (typeName e.2, e.1)).mergeSort fun a b => strLe a.1 b.1).map
    fun e => e.1 ++ ":" ++ toString e.2)

/-- parse `a:b,c:d` -/
def parsePairs (s : String) : List (String × String) :=
  if s = "-" then [] else (s.splitOn ",").filterMap fun e => match e.splitOn ":" with
    | [a, b] => some (a, b) | _ => none

def field (impl key : String) : Option String :=
  (impl.splitOn " ").findSome? fun tok =>
    if tok.startsWith (key ++ "=") then some ((tok.drop (key.length + 1)).toString) else none

def nodup (xs : List String) : Bool :=
  match xs with
  | [] => true
  | x :: r => !r.contains x && nodup r

def refEntry (st dir ty : Nat) : Option Spec.RefEntry :=
  Spec.reference.find? fun e => e.st == st && e.dir == dir && e.ty == ty

/-- verdict for one `dump` line, from the implementation's output only -/
def dumpVerdict (st dir : Nat) (p : Int) (impl : String) : String :=
  match field impl "ids", field impl "types" with
  | some ids, some tys =>
    let a := parsePairs ids            -- (id, type)
    let b := parsePairs tys            -- (type, id)
    if !nodup (a.map Prod.fst) || !nodup (a.map Prod.snd) then "viol:not-injective"
    else if !(a.all fun e => b.contains (e.2, e.1)) || !(b.all fun e => a.contains (e.2, e.1)) then
      "viol:maps-not-inverse"
    else if supported.contains p && p ≤ Spec.refMax then
      let bad := (Spec.referenceFor st dir).find? fun e =>
        let implId := (a.find? fun x => x.2 == typeName e.ty).map Prod.fst
        implId != (Spec.refId e.maps p).map toString
      match bad with
      | some e => "viol:ref-id:" ++ typeName e.ty
      | none => "ok"
    else "ok"
  | _, _ => "viol:bad-dump"

def step (cx : Ctx) (c : Case) : String × String :=
  if c.op = "versions" then
    ("all=" ++ ",".intercalate (allVersions.map toString) ++ " min=" ++ toString minVersion ++ " max=" ++ toString maxVersion, "-")
  else match c.args with
  | sn :: dn :: rest =>
    match stateIdx sn, dirIdx dn with
    | some st, some dir =>
      match cx.tables.getD (2 * st + dir) (.error .unknownProto) with
      | .error e => ("init-panic:" ++ e.toString, "-")
      | .ok t =>
        let fb := fallbackFlag st dir
        match c.op, rest with
        | "flag", [] => (toString fb, "-")
        | "keys", [] => (",".intercalate (((t.map Prod.fst).mergeSort fun a b => a ≤ b).map toString), "-")
        | "count", [] => (toString (pairCount t), "-")
        | "dump", [ps] =>
          match ps.toInt? with
          | some p => match findProto t p with
            | some pt => ("proto=" ++ toString p ++ " ids=" ++ showIds pt ++ " types=" ++ showTypes pt, dumpVerdict st dir p c.impl)
            | none => ("absent", "-")
          | none => ("bad-op", "-")
        | "reg", [ps] =>
          match ps.toInt? with
          | some p =>
            let m := match protocolRegistry t fb p with
              | some (q, pt) => toString q ++ " " ++ toString pt.length
              | none => "nil"
            let v :=
              if supported.contains p then (if c.impl.startsWith (toString p ++ " ") then "ok" else "viol:wrong-registry")
              else if c.impl = "nil" then (if sn = "Play" then "viol:play-no-fallback" else "viol:no-fallback")
              else if c.impl.startsWith (toString minVersion ++ " ") then "ok" else "viol:fallback-not-lowest"
            (m, v)
          | none => ("bad-op", "-")
        | "pid", [ps, tn] =>
          match ps.toInt? with
          | some p =>
            let ty := typeIdx tn
            match protocolRegistry t fb p with
            | none => ("panic", if sn = "Play" then "viol:play-no-fallback" else "viol:no-fallback")
            | some (_, pt) =>
              let m := match ty.bind (packetIdIn pt) with
                | some id => toString id | none => "none"
              let v := match ty.bind (refEntry st dir) with
                | some e =>
                  if supported.contains p && p ≤ Spec.refMax then
                    (if c.impl = ((Spec.refId e.maps p).map toString).getD "none" then "ok" else "viol:ref-id:" ++ tn)
                  else "-"
                | none => "-"
              (m, v)
          | none => ("bad-op", "-")
        | "create", [ps, ids] =>
          match ps.toInt?, ids.toNat? with
          | some p, some id =>
            match protocolRegistry t fb p with
            | none => ("panic", if sn = "Play" then "viol:play-no-fallback" else "viol:no-fallback")
            | some (_, pt) => (match packetTypeIn pt id with | some ty => typeName ty | none => "nil", "-")
          | _, _ => ("bad-op", "-")
        | "gomc", [tn, ks] =>
          let p : Int := 764
          let ty := typeIdx tn
          let m := match (findProto t p), ty with
            | some pt, some ty => (match packetIdIn pt ty with | some id => toString id | none => "none")
            | none, _ => "nil"
            | _, none => "none"
          let refOk := match ty.bind (refEntry st dir) with
            | some e => ((Spec.refId e.maps p).map toString).getD "none" == ks
            | none => true
          (m, if c.impl != ks then "viol:gomc-id:" ++ tn else if !refOk then "viol:reference-vs-gomc:" ++ tn else "ok")
        | _, _ => ("bad-op", "-")
    | _, _ => ("bad-op", "-")
  | _ => ("bad-op", "-")

end Gate.C06

def main : IO Unit :=
  let cx := Gate.C06.mkCtx
  Gate.runDriver cx (fun cx c => let (m, v) := Gate.C06.step cx c; (cx, m, v))
