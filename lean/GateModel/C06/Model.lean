import GateModel.Gen.C06
/-
C06 — model of `state.PacketRegistry` (pkg/edition/java/proto/state/registry.go) over the mapping table that
`tools/gofacts` regenerates from register.go / version.go (`Gate.Gen.C06`).

What is mirrored:
  * `version.go`: `SupportedVersions` = `Versions` without Unknown/Legacy, `MinimumVersion` = its head,
    `MaximumVersion` = its last element;
  * `NewPacketRegistry`: one empty `ProtocolRegistry` per supported version, `Fallback = true`;
  * `PacketRegistry.Register`: the per-mapping range computation, its three shape panics, `versionRange` with
    the early `return false` at the upper end, and the "unknown protocol" / "id already registered" / "type
    already registered" panics;
  * `ProtocolRegistry(protocol)` with the fallback to `MinimumVersion`;
  * `ProtocolRegistry.PacketID` / `CreatePacket` (as lookups; packet construction by reflection is not modelled).

Go's two maps `PacketIDs : id → type` and `PacketTypes : type → id` are written together after both duplicate
checks, so one list of `(id, type)` pairs represents both.  Packet types are numbered by first registration
(`Gate.Gen.C06.registryTypes`).  `proto.Protocol` is Go `int` (64 bit); the model uses `Int` (no arithmetic on it
other than `from - to`, far from overflow for any protocol number that fits 32 bits).
Core Lean only.
-/
namespace Gate.C06
open Gate.Gen.C06

/-! ### version.go -/

/-- `version.Versions` (protocol numbers, slice order) -/
def allVersions : List Int := versions.map Prod.snd

/-- `Protocol.Unknown()` / `Protocol.Legacy()` compare with the two sentinel versions -/
def isSupportedEntry (p : Int) : Bool := p != versionsV.Unknown && p != versionsV.Legacy

/-- `version.SupportedVersions` -/
def supported : List Int := allVersions.filter isSupportedEntry

/-- `version.MinimumVersion.Protocol` (Go would panic at package init on an empty list; 0 here) -/
def minVersion : Int := supported.head?.getD 0
/-- `version.MaximumVersion.Protocol` -/
def maxVersion : Int := supported.getLast?.getD 0

/-! ### registry.go -/

structure Mapping where
  id        : Nat
  proto     : Int
  lastValid : Int     -- 0 = not set (Go zero value), as in `PacketMapping.LastValidProtocol`
  deriving DecidableEq, Repr

inductive Panic where
  | afterLast      -- "Cannot add a mapping after last valid mapping"
  | lastLower      -- "Last mapping version cannot be higher than highest mapping version"
  | order          -- "Next mapping version (…) should be lower then current (…)"
  | unknownProto   -- "Unknown protocol version …"
  | dupId          -- "Can not register packet … already registered with same id"
  | dupType        -- "… is already registered for protocol …"
  deriving DecidableEq, Repr

def Panic.toString : Panic → String
  | .afterLast => "after-last" | .lastLower => "last-lower" | .order => "order"
  | .unknownProto => "unknown-proto" | .dupId => "dup-id" | .dupType => "dup-type"

/-- one `ProtocolRegistry`: the `(id, type)` pairs, newest first -/
abbrev ProtoTable := List (Nat × Nat)
/-- `PacketRegistry.Protocols` (keyed by protocol, in `Versions` order) -/
abbrev Table := List (Int × ProtoTable)

/-- `NewPacketRegistry`: an empty registry per supported version -/
def newTable : Table := supported.map fun p => (p, [])

def hasId (pt : ProtoTable) (id : Nat) : Bool := pt.any fun e => e.1 == id
def hasType (pt : ProtoTable) (ty : Nat) : Bool := pt.any fun e => e.2 == ty

/-- the callback body of `Register`: look the protocol up, check both maps, insert -/
def insertAt (id ty : Nat) (p : Int) : Table → Except Panic Table
  | [] => .error .unknownProto
  | (q, pt) :: rest =>
    if q = p then
      if hasId pt id then .error .dupId
      else if hasType pt ty then .error .dupType
      else .ok ((q, (id, ty) :: pt) :: rest)
    else match insertAt id ty p rest with
      | .ok rest' => .ok ((q, pt) :: rest')
      | .error e => .error e

/-- `versionRange(version.Versions, from, to, fn)` with `Register`'s callback: walk `Versions` in slice order,
    for every protocol in `[from, to]` stop when it is `to` and this is not the last mapping, else insert. -/
def rangeLoop (id ty : Nat) (from_ to : Int) (isLast : Bool) : List Int → Table → Except Panic Table
  | [], t => .ok t
  | v :: vs, t =>
    if from_ ≤ v ∧ v ≤ to then
      if v = to ∧ !isLast then .ok t
      else match insertAt id ty v t with
        | .ok t' => rangeLoop id ty from_ to isLast vs t'
        | .error e => .error e
    else rangeLoop id ty from_ to isLast vs t

/-- upper end `to` of a mapping's range: the next mapping's version, or for the last mapping its
    `LastValidProtocol` if set, else `MaximumVersion` -/
def mappingTo (cur : Mapping) : List Mapping → Int
  | [] => if cur.lastValid ≠ 0 then cur.lastValid else maxVersion
  | nxt :: _ => nxt.proto

/-- `lastInList` of `Register` -/
def lastInList (cur : Mapping) : Int := if cur.lastValid = 0 then maxVersion else cur.lastValid

/-- the `for i, current := range mappings` loop of `Register`
    (`rest.isEmpty` ⇔ Go's `next == current`: there is no following mapping) -/
def regMaps (ty : Nat) : List Mapping → Table → Except Panic Table
  | [], t => .ok t
  | cur :: rest, t =>
    if cur.lastValid ≠ 0 ∧ rest.isEmpty = false then .error .afterLast
    else if cur.lastValid ≠ 0 ∧ cur.proto - cur.lastValid > 0 then .error .lastLower
    else if cur.proto - mappingTo cur rest ≥ 0 ∧ cur.proto ≠ lastInList cur then .error .order
    else match rangeLoop cur.id ty cur.proto (mappingTo cur rest) rest.isEmpty allVersions t with
      | .ok t' => regMaps ty rest t'
      | .error e => .error e

/-- one `Register` call as written in register.go -/
structure Reg where
  ty   : Nat
  maps : List Mapping
  deriving Repr

def registerAll : List Reg → Table → Except Panic Table
  | [], t => .ok t
  | r :: rs, t => match regMaps r.ty r.maps t with
    | .ok t' => registerAll rs t'
    | .error e => .error e

/-- the `Register` calls of register.go for one (registry, direction), in source order -/
def regsFor (st dir : Nat) : List Reg :=
  (registry.filter fun r => r.1 == st && r.2.1 == dir).map fun r =>
    ⟨r.2.2.1, r.2.2.2.map fun m => ⟨m.1, m.2.1, m.2.2⟩⟩

/-- the registry `state.<st>.<dir>` after package initialisation (or the panic that init would raise) -/
def build (st dir : Nat) : Except Panic Table := registerAll (regsFor st dir) newTable

/-- `PacketRegistry.Fallback` after init: `true` from `NewPacketRegistry`, then the assignments in order -/
def fallbackFlag (st dir : Nat) : Bool :=
  registryFallback.foldl (fun acc a => if a.1 == st && a.2.1 == dir then a.2.2 else acc) true

/-! ### lookups -/

def findProto (t : Table) (p : Int) : Option ProtoTable :=
  match t with
  | [] => none
  | (q, pt) :: rest => if q = p then some pt else findProto rest p

/-- `(*PacketRegistry).ProtocolRegistry(protocol)`.  Result: `(Protocol field, table)` or `none` for Go `nil`.
    Go recurses on `MinimumVersion`; `NewPacketRegistry` always creates that entry, so one step suffices
    (if it were missing Go would recurse forever; the model answers `none`). -/
def protocolRegistry (t : Table) (fallback : Bool) (p : Int) : Option (Int × ProtoTable) :=
  match findProto t p with
  | some pt => some (p, pt)
  | none =>
    if fallback then (findProto t minVersion).map fun pt => (minVersion, pt)
    else none

/-- `ProtocolRegistry.PacketID(of)` : `PacketTypes[type]` -/
def packetIdIn (pt : ProtoTable) (ty : Nat) : Option Nat := (pt.find? fun e => e.2 == ty).map Prod.fst
/-- `ProtocolRegistry.CreatePacket(id)` : `PacketIDs[id]` (type of the created packet) -/
def packetTypeIn (pt : ProtoTable) (id : Nat) : Option Nat := (pt.find? fun e => e.1 == id).map Prod.snd

def packetId (t : Table) (p : Int) (ty : Nat) : Option Nat := (findProto t p).bind (packetIdIn · ty)
def packetType (t : Table) (p : Int) (id : Nat) : Option Nat := (findProto t p).bind (packetTypeIn · id)

/-- number of registered `(protocol, type)` pairs -/
def pairCount (t : Table) : Nat := (t.map fun e => e.2.length).sum

end Gate.C06
