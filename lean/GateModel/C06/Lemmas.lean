import GateModel.C06.Model
import GateModel.C06.Spec
/-
C06 — helper lemmas.  General facts about `PacketRegistry.Register` (valid for ANY list of registrations, not
only the generated one): a registry that initialises without panic has, per protocol, injective id→type and
type→id maps, and its protocol keys are exactly the supported versions.  Plus the boolean checkers whose
`decide +kernel` evaluation over the complete generated table is lifted to ∀-statements in Props.lean.
-/
namespace Gate.C06
open Gate.Gen.C06

/-- no two entries of one `ProtocolRegistry` share an id or share a type -/
def PInj (pt : ProtoTable) : Prop := pt.Pairwise fun a b => a.1 ≠ b.1 ∧ a.2 ≠ b.2
def TInj (t : Table) : Prop := ∀ e ∈ t, PInj e.2
def keys (t : Table) : List Int := t.map Prod.fst

def isOk {ε α} : Except ε α → Bool
  | .ok _ => true
  | .error _ => false

theorem isOk_iff {ε α} {x : Except ε α} : isOk x = true ↔ ∃ a, x = .ok a := by
  cases x <;> simp [isOk]

theorem hasId_false {pt : ProtoTable} {id : Nat} (h : hasId pt id = false) : ∀ e ∈ pt, id ≠ e.1 := by
  intro e he heq
  have : hasId pt id = true := List.any_eq_true.mpr ⟨e, he, by simp [heq]⟩
  rw [h] at this; cases this

theorem hasType_false {pt : ProtoTable} {ty : Nat} (h : hasType pt ty = false) : ∀ e ∈ pt, ty ≠ e.2 := by
  intro e he heq
  have : hasType pt ty = true := List.any_eq_true.mpr ⟨e, he, by simp [heq]⟩
  rw [h] at this; cases this

theorem insertAt_ok {id ty : Nat} {p : Int} :
    ∀ {t t' : Table}, insertAt id ty p t = .ok t' → TInj t → TInj t' ∧ keys t' = keys t
  | [], _, h, _ => by simp [insertAt] at h
  | (q, pt) :: rest, t', h, hi => by
    have hrest : TInj rest := fun e he => hi e (List.mem_cons_of_mem _ he)
    have hpt : PInj pt := hi (q, pt) (List.mem_cons_self ..)
    unfold insertAt at h
    by_cases hq : q = p
    · rw [if_pos hq] at h
      cases hid : hasId pt id
      · cases hty : hasType pt ty
        · simp [hid, hty] at h
          subst h
          refine ⟨?_, by simp [keys]⟩
          intro e he
          rcases List.mem_cons.mp he with rfl | he
          · show PInj ((id, ty) :: pt)
            refine List.pairwise_cons.mpr ⟨?_, hpt⟩
            intro b hb
            exact ⟨hasId_false hid b hb, hasType_false hty b hb⟩
          · exact hrest e he
        · simp [hid, hty] at h
      · simp [hid] at h
    · rw [if_neg hq] at h
      cases hr : insertAt id ty p rest with
      | error e => simp [hr] at h
      | ok rest' =>
        simp [hr] at h
        subst h
        have ih := insertAt_ok hr hrest
        refine ⟨?_, by simp [keys] at ih ⊢; exact ih.2⟩
        intro e he
        rcases List.mem_cons.mp he with rfl | he
        · exact hpt
        · exact ih.1 e he

theorem rangeLoop_ok {id ty : Nat} {from_ to : Int} {isLast : Bool} :
    ∀ (vs : List Int) {t t' : Table}, rangeLoop id ty from_ to isLast vs t = .ok t' → TInj t →
      TInj t' ∧ keys t' = keys t
  | [], t, t', h, hi => by
    simp [rangeLoop] at h; subst h; exact ⟨hi, rfl⟩
  | v :: vs, t, t', h, hi => by
    unfold rangeLoop at h
    by_cases hr : from_ ≤ v ∧ v ≤ to
    · rw [if_pos hr] at h
      by_cases hs : v = to ∧ (!isLast) = true
      · rw [if_pos hs] at h
        simp at h; subst h; exact ⟨hi, rfl⟩
      · rw [if_neg hs] at h
        cases hins : insertAt id ty v t with
        | error e => simp [hins] at h
        | ok t1 =>
          simp [hins] at h
          have h1 := insertAt_ok hins hi
          have h2 := rangeLoop_ok vs h h1.1
          exact ⟨h2.1, h2.2.trans h1.2⟩
    · rw [if_neg hr] at h
      exact rangeLoop_ok vs h hi

theorem regMaps_ok {ty : Nat} :
    ∀ (ms : List Mapping) {t t' : Table}, regMaps ty ms t = .ok t' → TInj t → TInj t' ∧ keys t' = keys t
  | [], t, t', h, hi => by
    simp [regMaps] at h; subst h; exact ⟨hi, rfl⟩
  | cur :: rest, t, t', h, hi => by
    unfold regMaps at h
    by_cases c1 : cur.lastValid ≠ 0 ∧ rest.isEmpty = false
    · rw [if_pos c1] at h; cases h
    · rw [if_neg c1] at h
      by_cases c2 : cur.lastValid ≠ 0 ∧ cur.proto - cur.lastValid > 0
      · rw [if_pos c2] at h; cases h
      · rw [if_neg c2] at h
        by_cases c3 : cur.proto - mappingTo cur rest ≥ 0 ∧ cur.proto ≠ lastInList cur
        · rw [if_pos c3] at h; cases h
        · rw [if_neg c3] at h
          cases hrl : rangeLoop cur.id ty cur.proto (mappingTo cur rest) rest.isEmpty allVersions t with
          | error e => simp [hrl] at h
          | ok t1 =>
            simp [hrl] at h
            have h1 := rangeLoop_ok _ hrl hi
            have h2 := regMaps_ok rest h h1.1
            exact ⟨h2.1, h2.2.trans h1.2⟩

theorem registerAll_ok :
    ∀ (rs : List Reg) {t t' : Table}, registerAll rs t = .ok t' → TInj t → TInj t' ∧ keys t' = keys t
  | [], t, t', h, hi => by
    simp [registerAll] at h; subst h; exact ⟨hi, rfl⟩
  | r :: rs, t, t', h, hi => by
    unfold registerAll at h
    split at h
    · rename_i t1 hr
      have h1 := regMaps_ok _ hr hi
      have h2 := registerAll_ok rs h h1.1
      exact ⟨h2.1, h2.2.trans h1.2⟩
    · cases h

theorem newTable_inj : TInj newTable := by
  intro e he
  simp [newTable] at he
  obtain ⟨p, _, rfl⟩ := he
  exact List.Pairwise.nil

theorem keys_newTable : keys newTable = supported := by
  simp [keys, newTable, Function.comp_def]

/-- any registry that initialises without panic is injective per protocol and has exactly the supported
    versions as keys -/
theorem build_inv {st dir : Nat} {t : Table} (h : build st dir = .ok t) : TInj t ∧ keys t = supported := by
  have := registerAll_ok _ h newTable_inj
  exact ⟨this.1, this.2.trans keys_newTable⟩

/-! ### lookups -/

theorem findProto_none {t : Table} {p : Int} : findProto t p = none ↔ p ∉ keys t := by
  induction t with
  | nil => simp [findProto, keys]
  | cons e rest ih =>
    obtain ⟨q, pt⟩ := e
    unfold findProto
    by_cases hq : q = p
    · simp [hq, keys]
    · rw [if_neg hq]
      simp only [keys, List.map_cons, List.mem_cons, not_or] at ih ⊢
      constructor
      · intro h; exact ⟨fun h' => hq h'.symm, ih.mp h⟩
      · intro h; exact ih.mpr h.2

theorem findProto_mem {t : Table} {p : Int} {pt : ProtoTable} (h : findProto t p = some pt) : (p, pt) ∈ t := by
  induction t with
  | nil => simp [findProto] at h
  | cons e rest ih =>
    obtain ⟨q, pt'⟩ := e
    unfold findProto at h
    by_cases hq : q = p
    · rw [if_pos hq] at h
      cases h; subst hq; exact List.mem_cons_self ..
    · rw [if_neg hq] at h
      exact List.mem_cons_of_mem _ (ih h)

theorem findProto_isSome {t : Table} {p : Int} (h : p ∈ keys t) : (findProto t p).isSome = true := by
  cases hf : findProto t p with
  | none => exact absurd h (findProto_none.mp hf)
  | some _ => rfl

theorem packetIdIn_iff {pt : ProtoTable} (hi : PInj pt) {id ty : Nat} :
    packetIdIn pt ty = some id ↔ (id, ty) ∈ pt := by
  induction pt with
  | nil => simp [packetIdIn]
  | cons e rest ih =>
    have hp := List.pairwise_cons.mp hi
    unfold packetIdIn
    rw [List.find?_cons]
    by_cases he : e.2 = ty
    · simp only [he, beq_self_eq_true, Option.map_some, Option.some.injEq, List.mem_cons]
      constructor
      · intro h; left; cases e; simp_all
      · intro h
        rcases h with h | h
        · rw [← h]
        · exact absurd he.symm (by have := (hp.1 _ h).2; simpa using fun h' => this h'.symm)
    · have : (e.2 == ty) = false := by simpa using he
      simp only [this]
      have ih' := ih hp.2
      unfold packetIdIn at ih'
      rw [ih']
      simp only [List.mem_cons]
      constructor
      · intro h; right; exact h
      · intro h
        rcases h with h | h
        · exact absurd (by rw [← h]) he
        · exact h

theorem packetTypeIn_iff {pt : ProtoTable} (hi : PInj pt) {id ty : Nat} :
    packetTypeIn pt id = some ty ↔ (id, ty) ∈ pt := by
  induction pt with
  | nil => simp [packetTypeIn]
  | cons e rest ih =>
    have hp := List.pairwise_cons.mp hi
    unfold packetTypeIn
    rw [List.find?_cons]
    by_cases he : e.1 = id
    · simp only [he, beq_self_eq_true, Option.map_some, Option.some.injEq, List.mem_cons]
      constructor
      · intro h; left; cases e; simp_all
      · intro h
        rcases h with h | h
        · rw [← h]
        · exact absurd he.symm (by have := (hp.1 _ h).1; simpa using fun h' => this h'.symm)
    · have : (e.1 == id) = false := by simpa using he
      simp only [this]
      have ih' := ih hp.2
      unfold packetTypeIn at ih'
      rw [ih']
      simp only [List.mem_cons]
      constructor
      · intro h; right; exact h
      · intro h
        rcases h with h | h
        · exact absurd (by rw [← h]) he
        · exact h

theorem pinj_id_unique {pt : ProtoTable} (hi : PInj pt) {id ty1 ty2 : Nat}
    (h1 : (id, ty1) ∈ pt) (h2 : (id, ty2) ∈ pt) : ty1 = ty2 := by
  have a := (packetTypeIn_iff hi).mpr h1
  have b := (packetTypeIn_iff hi).mpr h2
  rw [a] at b; exact Option.some.inj b

theorem pinj_type_unique {pt : ProtoTable} (hi : PInj pt) {id1 id2 ty : Nat}
    (h1 : (id1, ty) ∈ pt) (h2 : (id2, ty) ∈ pt) : id1 = id2 := by
  have a := (packetIdIn_iff hi).mpr h1
  have b := (packetIdIn_iff hi).mpr h2
  rw [a] at b; exact Option.some.inj b

/-! ### boolean checkers evaluated by the kernel on the generated table -/

/-- supported protocols the reference speaks about -/
def refProtocols : List Int := supported.filter fun p => p ≤ Spec.refMax

/-- the registry initialises, and every reference entry of this (registry, direction) has, at every supported
    protocol up to `refMax`, exactly the id (or absence) the reference says -/
def refCheck (st dir : Nat) : Bool :=
  match build st dir with
  | .ok t => t.all fun e => !decide (e.1 ≤ Spec.refMax) ||
      (Spec.referenceFor st dir).all fun r => packetIdIn e.2 r.ty == Spec.refId r.maps e.1
  | .error _ => false

theorem refCheck_ok {st dir : Nat} (h : refCheck st dir = true) : isOk (build st dir) = true := by
  unfold refCheck at h
  cases hb : build st dir with
  | ok t => rfl
  | error e => simp [hb] at h

theorem refCheck_spec {st dir : Nat} (h : refCheck st dir = true) {t : Table} (hb : build st dir = .ok t)
    (e : Spec.RefEntry) (he : e ∈ Spec.reference) (hst : e.st = st) (hdir : e.dir = dir)
    (p : Int) (hp : p ∈ supported) (hmax : p ≤ Spec.refMax) :
    packetId t p e.ty = Spec.refId e.maps p := by
  unfold refCheck at h
  rw [hb] at h
  simp only [List.all_eq_true] at h
  have he' : e ∈ Spec.referenceFor st dir := by
    simp [Spec.referenceFor, List.mem_filter, he, hst, hdir]
  have hk := (build_inv hb).2
  cases hf : findProto t p with
  | none => exact absurd (hk ▸ hp) (findProto_none.mp hf)
  | some pt =>
    have := h (p, pt) (findProto_mem hf)
    simp only [hmax, decide_true, Bool.not_true, Bool.false_or, List.all_eq_true] at this
    simpa [packetId, hf] using this e he'

/-- every registered (registry, direction, type) either has a reference entry or is one of the listed
    gate-only types -/
def coverageCheck (gateOnly : List Nat) : Bool :=
  registry.all fun r =>
    (Spec.reference.any fun e => e.st == r.1 && e.dir == r.2.1 && e.ty == r.2.2.1) || gateOnly.contains r.2.2.1

end Gate.C06
