import GateModel.Gen.C06
/-
C06 — reference table: Velocity's `StateRegistry` (com.velocitypowered.proxy.protocol.StateRegistry) packet ids
for the packet classes gate has a counterpart of, transcribed BY HAND from the transcriber's knowledge of
Velocity (3.4.x line, up to Minecraft 1.21.11 / protocol 774) and of the vanilla protocol.  It is NOT derived
from gate's register.go.  Each entry is Velocity's own `map(id, VERSION[, lastValidVersion])` list; `refId`
gives it Velocity's range meaning declaratively (an id applies from its version up to the next mapping's
version, the last one up to `lastValid` or without end).

Packet types are referred to through `Gate.Gen.C06.registryT.*` (the index gate's table gives to the Go type
that corresponds to the Velocity class named in the comment), so a type that disappears from register.go makes
this file fail to elaborate (tie broken, reported by ./check).

Not covered by the reference (stated in the evidence): protocols above `refMax` (gate's 26.1 / 26.2 = 775, 776:
unknown to the transcriber), and the two gate-only packet types `packet.SoundEntityPacket`,
`packet.StopSoundPacket` (Velocity registers no sound packets).  The protocol-764 slice of this table and of
gate's runtime table is cross-checked mechanically against go-mc's `data/packetid` constants by the harness.
Core Lean only.
-/
namespace Gate.C06.Spec
open Gate.Gen.C06

/-! Velocity's `ProtocolVersion` constants (hand-transcribed protocol numbers). -/
def MC_1_7_2 : Int := 4
def MC_1_7_6 : Int := 5
def MC_1_8 : Int := 47
def MC_1_9 : Int := 107
def MC_1_9_1 : Int := 108
def MC_1_9_2 : Int := 109
def MC_1_9_4 : Int := 110
def MC_1_10 : Int := 210
def MC_1_11 : Int := 315
def MC_1_11_1 : Int := 316
def MC_1_12 : Int := 335
def MC_1_12_1 : Int := 338
def MC_1_12_2 : Int := 340
def MC_1_13 : Int := 393
def MC_1_13_1 : Int := 401
def MC_1_13_2 : Int := 404
def MC_1_14 : Int := 477
def MC_1_14_1 : Int := 480
def MC_1_14_2 : Int := 485
def MC_1_14_3 : Int := 490
def MC_1_14_4 : Int := 498
def MC_1_15 : Int := 573
def MC_1_15_1 : Int := 575
def MC_1_15_2 : Int := 578
def MC_1_16 : Int := 735
def MC_1_16_1 : Int := 736
def MC_1_16_2 : Int := 751
def MC_1_16_3 : Int := 753
def MC_1_16_4 : Int := 754
def MC_1_17 : Int := 755
def MC_1_17_1 : Int := 756
def MC_1_18 : Int := 757
def MC_1_18_2 : Int := 758
def MC_1_19 : Int := 759
def MC_1_19_1 : Int := 760
def MC_1_19_3 : Int := 761
def MC_1_19_4 : Int := 762
def MC_1_20 : Int := 763
def MC_1_20_2 : Int := 764
def MC_1_20_3 : Int := 765
def MC_1_20_5 : Int := 766
def MC_1_21 : Int := 767
def MC_1_21_2 : Int := 768
def MC_1_21_4 : Int := 769
def MC_1_21_5 : Int := 770
def MC_1_21_6 : Int := 771
def MC_1_21_7 : Int := 772
def MC_1_21_9 : Int := 773
def MC_1_21_11 : Int := 774

/-- the protocol versions Velocity supports, up to the newest one transcribed -/
def velocityVersions : List Int := [MC_1_7_2, MC_1_7_6, MC_1_8, MC_1_9, MC_1_9_1, MC_1_9_2, MC_1_9_4, MC_1_10,
  MC_1_11, MC_1_11_1, MC_1_12, MC_1_12_1, MC_1_12_2, MC_1_13, MC_1_13_1, MC_1_13_2, MC_1_14, MC_1_14_1,
  MC_1_14_2, MC_1_14_3, MC_1_14_4, MC_1_15, MC_1_15_1, MC_1_15_2, MC_1_16, MC_1_16_1, MC_1_16_2, MC_1_16_3,
  MC_1_16_4, MC_1_17, MC_1_17_1, MC_1_18, MC_1_18_2, MC_1_19, MC_1_19_1, MC_1_19_3, MC_1_19_4, MC_1_20,
  MC_1_20_2, MC_1_20_3, MC_1_20_5, MC_1_21, MC_1_21_2, MC_1_21_4, MC_1_21_5, MC_1_21_6, MC_1_21_7, MC_1_21_9,
  MC_1_21_11]

/-- newest protocol the reference speaks about -/
def refMax : Int := MC_1_21_11

/-- `map(id, version)` / `map(id, version, lastValidVersion)` -/
structure RefMap where
  id    : Nat
  since : Int
  last  : Option Int := none

def mp (id : Nat) (v : Int) : RefMap := ⟨id, v, none⟩
def mpl (id : Nat) (v last : Int) : RefMap := ⟨id, v, some last⟩

structure RefEntry where
  st   : Nat            -- registry index (`registryS.*`)
  dir  : Nat            -- 0 serverbound, 1 clientbound
  ty   : Nat            -- packet type index (`registryT.*`)
  maps : List RefMap

/-- the mapping in force at protocol `p`: the last one in list order whose `since ≤ p`
    (Velocity lists mappings with ascending `since`) -/
def refMapAt (maps : List RefMap) (p : Int) : Option RefMap :=
  maps.foldl (fun acc m => if m.since ≤ p then some m else acc) none

/-- id Velocity uses for an entry at protocol `p`: that of the mapping in force, unless that mapping ended
    before `p` (`lastValidVersion`); `none` = not registered at `p`. -/
def refId (maps : List RefMap) (p : Int) : Option Nat :=
  match refMapAt maps p with
  | none => none
  | some m => match m.last with
    | none => some m.id
    | some l => if p ≤ l then some m.id else none

def SB : Nat := 0
def CB : Nat := 1

open registryS registryT in
def reference : List RefEntry := [
  -- HANDSHAKE
  ⟨Handshake, SB, packet_Handshake /- HandshakePacket -/, [mp 0x00 MC_1_7_2]⟩,
  -- STATUS
  ⟨Status, SB, packet_StatusRequest /- StatusRequestPacket -/, [mp 0x00 MC_1_7_2]⟩,
  ⟨Status, SB, packet_StatusPing /- StatusPingPacket -/, [mp 0x01 MC_1_7_2]⟩,
  ⟨Status, CB, packet_StatusResponse /- StatusResponsePacket -/, [mp 0x00 MC_1_7_2]⟩,
  ⟨Status, CB, packet_StatusPing /- StatusPingPacket -/, [mp 0x01 MC_1_7_2]⟩,
  -- CONFIG serverbound
  ⟨Config, SB, packet_ClientSettings /- ClientSettingsPacket -/, [mp 0x00 MC_1_20_2]⟩,
  ⟨Config, SB, cookie_CookieResponse /- ServerboundCookieResponsePacket -/, [mp 0x01 MC_1_20_5]⟩,
  ⟨Config, SB, plugin_Message /- PluginMessagePacket -/, [mp 0x01 MC_1_20_2, mp 0x02 MC_1_20_5]⟩,
  ⟨Config, SB, config_FinishedUpdate /- FinishedUpdatePacket -/, [mp 0x02 MC_1_20_2, mp 0x03 MC_1_20_5]⟩,
  ⟨Config, SB, packet_KeepAlive /- KeepAlivePacket -/, [mp 0x03 MC_1_20_2, mp 0x04 MC_1_20_5]⟩,
  ⟨Config, SB, packet_PingIdentify /- PingIdentifyPacket -/, [mp 0x04 MC_1_20_2, mp 0x05 MC_1_20_5]⟩,
  ⟨Config, SB, packet_ResourcePackResponse /- ResourcePackResponsePacket -/, [mp 0x05 MC_1_20_2, mp 0x06 MC_1_20_5]⟩,
  ⟨Config, SB, config_KnownPacks /- KnownPacksPacket -/, [mp 0x07 MC_1_20_5]⟩,
  ⟨Config, SB, packet_CustomClickActionPacket /- ServerboundCustomClickActionPacket -/, [mp 0x08 MC_1_21_6]⟩,
  ⟨Config, SB, config_CodeOfConductAcceptPacket /- CodeOfConductAcceptPacket -/, [mp 0x09 MC_1_21_9]⟩,
  -- CONFIG clientbound
  ⟨Config, CB, cookie_CookieRequest /- ClientboundCookieRequestPacket -/, [mp 0x00 MC_1_20_5]⟩,
  ⟨Config, CB, plugin_Message /- PluginMessagePacket -/, [mp 0x00 MC_1_20_2, mp 0x01 MC_1_20_5]⟩,
  ⟨Config, CB, packet_Disconnect /- DisconnectPacket -/, [mp 0x01 MC_1_20_2, mp 0x02 MC_1_20_5]⟩,
  ⟨Config, CB, config_FinishedUpdate /- FinishedUpdatePacket -/, [mp 0x02 MC_1_20_2, mp 0x03 MC_1_20_5]⟩,
  ⟨Config, CB, packet_KeepAlive /- KeepAlivePacket -/, [mp 0x03 MC_1_20_2, mp 0x04 MC_1_20_5]⟩,
  ⟨Config, CB, packet_PingIdentify /- PingIdentifyPacket -/, [mp 0x04 MC_1_20_2, mp 0x05 MC_1_20_5]⟩,
  ⟨Config, CB, config_RegistrySync /- RegistrySyncPacket -/, [mp 0x05 MC_1_20_2, mp 0x07 MC_1_20_5]⟩,
  ⟨Config, CB, packet_RemoveResourcePack /- RemoveResourcePackPacket -/, [mp 0x06 MC_1_20_3, mp 0x08 MC_1_20_5]⟩,
  ⟨Config, CB, packet_ResourcePackRequest /- ResourcePackRequestPacket -/,
    [mp 0x06 MC_1_20_2, mp 0x07 MC_1_20_3, mp 0x09 MC_1_20_5]⟩,
  ⟨Config, CB, cookie_CookieStore /- ClientboundStoreCookiePacket -/, [mp 0x0A MC_1_20_5]⟩,
  ⟨Config, CB, packet_Transfer /- TransferPacket -/, [mp 0x0B MC_1_20_5]⟩,
  ⟨Config, CB, config_ActiveFeatures /- ActiveFeaturesPacket -/,
    [mp 0x07 MC_1_20_2, mp 0x08 MC_1_20_3, mp 0x0C MC_1_20_5]⟩,
  ⟨Config, CB, config_TagsUpdate /- TagsUpdatePacket -/,
    [mp 0x08 MC_1_20_2, mp 0x09 MC_1_20_3, mp 0x0D MC_1_20_5]⟩,
  ⟨Config, CB, config_KnownPacks /- KnownPacksPacket -/, [mp 0x0E MC_1_20_5]⟩,
  ⟨Config, CB, packet_CustomReportDetails /- ClientboundCustomReportDetailsPacket -/, [mp 0x0F MC_1_21]⟩,
  ⟨Config, CB, packet_ServerLinks /- ClientboundServerLinksPacket -/, [mp 0x10 MC_1_21]⟩,
  ⟨Config, CB, packet_DialogClear /- DialogClearPacket -/, [mp 0x11 MC_1_21_6]⟩,
  ⟨Config, CB, packet_DialogShow /- DialogShowPacket -/, [mp 0x12 MC_1_21_6]⟩,
  ⟨Config, CB, config_CodeOfConductPacket /- CodeOfConductPacket -/, [mp 0x13 MC_1_21_9]⟩,
  -- LOGIN
  ⟨Login, SB, packet_ServerLogin /- ServerLoginPacket -/, [mp 0x00 MC_1_7_2]⟩,
  ⟨Login, SB, packet_EncryptionResponse /- EncryptionResponsePacket -/, [mp 0x01 MC_1_7_2]⟩,
  ⟨Login, SB, packet_LoginPluginResponse /- LoginPluginResponsePacket -/, [mp 0x02 MC_1_13]⟩,
  ⟨Login, SB, packet_LoginAcknowledged /- LoginAcknowledgedPacket -/, [mp 0x03 MC_1_20_2]⟩,
  ⟨Login, SB, cookie_CookieResponse /- ServerboundCookieResponsePacket -/, [mp 0x04 MC_1_20_5]⟩,
  ⟨Login, CB, packet_Disconnect /- DisconnectPacket -/, [mp 0x00 MC_1_7_2]⟩,
  ⟨Login, CB, packet_EncryptionRequest /- EncryptionRequestPacket -/, [mp 0x01 MC_1_7_2]⟩,
  ⟨Login, CB, packet_ServerLoginSuccess /- ServerLoginSuccessPacket -/, [mp 0x02 MC_1_7_2]⟩,
  ⟨Login, CB, packet_SetCompression /- SetCompressionPacket -/, [mp 0x03 MC_1_8]⟩,
  ⟨Login, CB, packet_LoginPluginMessage /- LoginPluginMessagePacket -/, [mp 0x04 MC_1_13]⟩,
  ⟨Login, CB, cookie_CookieRequest /- ClientboundCookieRequestPacket -/, [mp 0x05 MC_1_20_5]⟩,
  -- PLAY serverbound
  ⟨Play, SB, packet_TabCompleteRequest /- TabCompleteRequestPacket -/,
    [mp 0x14 MC_1_7_2, mp 0x01 MC_1_9, mp 0x02 MC_1_12, mp 0x01 MC_1_12_1, mp 0x05 MC_1_13, mp 0x06 MC_1_14,
     mp 0x08 MC_1_19, mp 0x09 MC_1_19_1, mp 0x08 MC_1_19_3, mp 0x09 MC_1_19_4, mp 0x0A MC_1_20_2,
     mp 0x0B MC_1_20_5, mp 0x0D MC_1_21_2, mp 0x0E MC_1_21_6]⟩,
  ⟨Play, SB, chat_LegacyChat /- LegacyChatPacket -/,
    [mp 0x01 MC_1_7_2, mp 0x02 MC_1_9, mp 0x03 MC_1_12, mp 0x02 MC_1_12_1, mpl 0x03 MC_1_14 MC_1_18_2]⟩,
  ⟨Play, SB, chat_ChatAcknowledgement /- ChatAcknowledgementPacket -/,
    [mp 0x03 MC_1_19_3, mp 0x04 MC_1_21_2, mp 0x05 MC_1_21_6]⟩,
  ⟨Play, SB, chat_KeyedPlayerCommand /- KeyedPlayerCommandPacket -/,
    [mp 0x03 MC_1_19, mpl 0x04 MC_1_19_1 MC_1_19_1]⟩,
  ⟨Play, SB, chat_KeyedPlayerChat /- KeyedPlayerChatPacket -/,
    [mp 0x04 MC_1_19, mpl 0x05 MC_1_19_1 MC_1_19_1]⟩,
  ⟨Play, SB, chat_SessionPlayerCommand /- SessionPlayerCommandPacket -/,
    [mp 0x04 MC_1_19_3, mp 0x05 MC_1_20_5, mp 0x06 MC_1_21_2, mp 0x07 MC_1_21_6]⟩,
  ⟨Play, SB, chat_UnsignedPlayerCommand /- UnsignedPlayerCommandPacket -/,
    [mp 0x04 MC_1_20_5, mp 0x05 MC_1_21_2, mp 0x06 MC_1_21_6]⟩,
  ⟨Play, SB, chat_SessionPlayerChat /- SessionPlayerChatPacket -/,
    [mp 0x05 MC_1_19_3, mp 0x06 MC_1_20_5, mp 0x07 MC_1_21_2, mp 0x08 MC_1_21_6]⟩,
  ⟨Play, SB, packet_ClientSettings /- ClientSettingsPacket -/,
    [mp 0x15 MC_1_7_2, mp 0x04 MC_1_9, mp 0x05 MC_1_12, mp 0x04 MC_1_12_1, mp 0x05 MC_1_14, mp 0x07 MC_1_19,
     mp 0x08 MC_1_19_1, mp 0x07 MC_1_19_3, mp 0x08 MC_1_19_4, mp 0x09 MC_1_20_2, mp 0x0A MC_1_20_5,
     mp 0x0C MC_1_21_2, mp 0x0D MC_1_21_6]⟩,
  ⟨Play, SB, cookie_CookieResponse /- ServerboundCookieResponsePacket -/,
    [mp 0x11 MC_1_20_5, mp 0x13 MC_1_21_2, mp 0x14 MC_1_21_6]⟩,
  ⟨Play, SB, plugin_Message /- PluginMessagePacket -/,
    [mp 0x17 MC_1_7_2, mp 0x09 MC_1_9, mp 0x0A MC_1_12, mp 0x09 MC_1_12_1, mp 0x0A MC_1_13, mp 0x0B MC_1_14,
     mp 0x0A MC_1_17, mp 0x0C MC_1_19, mp 0x0D MC_1_19_1, mp 0x0C MC_1_19_3, mp 0x0D MC_1_19_4,
     mp 0x0F MC_1_20_2, mp 0x10 MC_1_20_3, mp 0x12 MC_1_20_5, mp 0x14 MC_1_21_2, mp 0x15 MC_1_21_6]⟩,
  ⟨Play, SB, packet_KeepAlive /- KeepAlivePacket -/,
    [mp 0x00 MC_1_7_2, mp 0x0B MC_1_9, mp 0x0C MC_1_12, mp 0x0B MC_1_12_1, mp 0x0E MC_1_13, mp 0x0F MC_1_14,
     mp 0x10 MC_1_16, mp 0x0F MC_1_17, mp 0x11 MC_1_19, mp 0x12 MC_1_19_1, mp 0x11 MC_1_19_3,
     mp 0x12 MC_1_19_4, mp 0x14 MC_1_20_2, mp 0x15 MC_1_20_3, mp 0x18 MC_1_20_5, mp 0x1A MC_1_21_2,
     mp 0x1B MC_1_21_6]⟩,
  ⟨Play, SB, packet_ResourcePackResponse /- ResourcePackResponsePacket -/,
    [mp 0x19 MC_1_8, mp 0x16 MC_1_9, mp 0x18 MC_1_12, mp 0x1D MC_1_13, mp 0x1F MC_1_14, mp 0x20 MC_1_16,
     mp 0x21 MC_1_16_2, mp 0x23 MC_1_19, mp 0x24 MC_1_19_1, mp 0x27 MC_1_20_2, mp 0x28 MC_1_20_3,
     mp 0x2B MC_1_20_5, mp 0x2D MC_1_21_2, mp 0x2F MC_1_21_4, mp 0x30 MC_1_21_6]⟩,
  ⟨Play, SB, config_FinishedUpdate /- FinishedUpdatePacket -/,
    [mp 0x0B MC_1_20_2, mp 0x0C MC_1_20_5, mp 0x0E MC_1_21_2, mp 0x0F MC_1_21_6]⟩,
  -- PLAY clientbound
  ⟨Play, CB, bossbar_BossBar /- BossBarPacket -/,
    [mp 0x0C MC_1_9, mp 0x0D MC_1_15, mp 0x0C MC_1_16, mp 0x0D MC_1_17, mp 0x0A MC_1_19, mp 0x0B MC_1_19_4,
     mp 0x0A MC_1_20_2, mp 0x09 MC_1_21_5]⟩,
  ⟨Play, CB, chat_LegacyChat /- LegacyChatPacket -/,
    [mp 0x02 MC_1_7_2, mp 0x0F MC_1_9, mp 0x0E MC_1_13, mp 0x0F MC_1_15, mp 0x0E MC_1_16,
     mpl 0x0F MC_1_17 MC_1_18_2]⟩,
  ⟨Play, CB, packet_TabCompleteResponse /- TabCompleteResponsePacket -/,
    [mp 0x3A MC_1_7_2, mp 0x0E MC_1_9, mp 0x10 MC_1_13, mp 0x11 MC_1_15, mp 0x10 MC_1_16, mp 0x0F MC_1_16_2,
     mp 0x11 MC_1_17, mp 0x0E MC_1_19, mp 0x0D MC_1_19_3, mp 0x0F MC_1_19_4, mp 0x10 MC_1_20_2,
     mp 0x0F MC_1_21_5]⟩,
  ⟨Play, CB, packet_AvailableCommands /- AvailableCommandsPacket -/,
    [mp 0x11 MC_1_13, mp 0x12 MC_1_15, mp 0x11 MC_1_16, mp 0x10 MC_1_16_2, mp 0x12 MC_1_17, mp 0x0F MC_1_19,
     mp 0x0E MC_1_19_3, mp 0x10 MC_1_19_4, mp 0x11 MC_1_20_2, mp 0x10 MC_1_21_5]⟩,
  ⟨Play, CB, cookie_CookieRequest /- ClientboundCookieRequestPacket -/, [mp 0x16 MC_1_20_5, mp 0x15 MC_1_21_5]⟩,
  ⟨Play, CB, plugin_Message /- PluginMessagePacket -/,
    [mp 0x3F MC_1_7_2, mp 0x18 MC_1_9, mp 0x19 MC_1_13, mp 0x18 MC_1_14, mp 0x19 MC_1_15, mp 0x18 MC_1_16,
     mp 0x17 MC_1_16_2, mp 0x18 MC_1_17, mp 0x15 MC_1_19, mp 0x16 MC_1_19_1, mp 0x15 MC_1_19_3,
     mp 0x17 MC_1_19_4, mp 0x18 MC_1_20_2, mp 0x19 MC_1_20_5, mp 0x18 MC_1_21_5]⟩,
  ⟨Play, CB, packet_Disconnect /- DisconnectPacket -/,
    [mp 0x40 MC_1_7_2, mp 0x1A MC_1_9, mp 0x1B MC_1_13, mp 0x1A MC_1_14, mp 0x1B MC_1_15, mp 0x1A MC_1_16,
     mp 0x19 MC_1_16_2, mp 0x1A MC_1_17, mp 0x17 MC_1_19, mp 0x19 MC_1_19_1, mp 0x17 MC_1_19_3,
     mp 0x1A MC_1_19_4, mp 0x1B MC_1_20_2, mp 0x1D MC_1_20_5, mp 0x1C MC_1_21_5, mp 0x20 MC_1_21_9]⟩,
  ⟨Play, CB, packet_KeepAlive /- KeepAlivePacket -/,
    [mp 0x00 MC_1_7_2, mp 0x1F MC_1_9, mp 0x21 MC_1_13, mp 0x20 MC_1_14, mp 0x21 MC_1_15, mp 0x20 MC_1_16,
     mp 0x1F MC_1_16_2, mp 0x21 MC_1_17, mp 0x1E MC_1_19, mp 0x20 MC_1_19_1, mp 0x1F MC_1_19_3,
     mp 0x23 MC_1_19_4, mp 0x24 MC_1_20_2, mp 0x26 MC_1_20_5, mp 0x27 MC_1_21_2, mp 0x26 MC_1_21_5,
     mp 0x2B MC_1_21_9]⟩,
  ⟨Play, CB, packet_JoinGame /- JoinGamePacket -/,
    [mp 0x01 MC_1_7_2, mp 0x23 MC_1_9, mp 0x25 MC_1_13, mp 0x25 MC_1_14, mp 0x26 MC_1_15, mp 0x25 MC_1_16,
     mp 0x24 MC_1_16_2, mp 0x26 MC_1_17, mp 0x23 MC_1_19, mp 0x25 MC_1_19_1, mp 0x24 MC_1_19_3,
     mp 0x28 MC_1_19_4, mp 0x29 MC_1_20_2, mp 0x2B MC_1_20_5, mp 0x2C MC_1_21_2, mp 0x2B MC_1_21_5,
     mp 0x30 MC_1_21_9]⟩,
  ⟨Play, CB, packet_Respawn /- RespawnPacket -/,
    [mp 0x07 MC_1_7_2, mp 0x33 MC_1_9, mp 0x34 MC_1_12, mp 0x35 MC_1_12_1, mp 0x38 MC_1_13, mp 0x3A MC_1_14,
     mp 0x3B MC_1_15, mp 0x3A MC_1_16, mp 0x39 MC_1_16_2, mp 0x3D MC_1_17, mp 0x3B MC_1_19, mp 0x3E MC_1_19_1,
     mp 0x3D MC_1_19_3, mp 0x41 MC_1_19_4, mp 0x43 MC_1_20_2, mp 0x45 MC_1_20_3, mp 0x47 MC_1_20_5,
     mp 0x4C MC_1_21_2, mp 0x4B MC_1_21_5, mp 0x50 MC_1_21_9]⟩,
  ⟨Play, CB, packet_RemoveResourcePack /- RemoveResourcePackPacket -/,
    [mp 0x43 MC_1_20_3, mp 0x45 MC_1_20_5, mp 0x4A MC_1_21_2, mp 0x49 MC_1_21_5, mp 0x4E MC_1_21_9]⟩,
  ⟨Play, CB, packet_ResourcePackRequest /- ResourcePackRequestPacket -/,
    [mp 0x48 MC_1_8, mp 0x32 MC_1_9, mp 0x33 MC_1_12, mp 0x34 MC_1_12_1, mp 0x37 MC_1_13, mp 0x39 MC_1_14,
     mp 0x3A MC_1_15, mp 0x39 MC_1_16, mp 0x38 MC_1_16_2, mp 0x3C MC_1_17, mp 0x3A MC_1_19, mp 0x3D MC_1_19_1,
     mp 0x3C MC_1_19_3, mp 0x40 MC_1_19_4, mp 0x42 MC_1_20_2, mp 0x44 MC_1_20_3, mp 0x46 MC_1_20_5,
     mp 0x4B MC_1_21_2, mp 0x4A MC_1_21_5, mp 0x4F MC_1_21_9]⟩,
  ⟨Play, CB, packet_HeaderAndFooter /- HeaderAndFooterPacket -/,
    [mp 0x47 MC_1_8, mp 0x48 MC_1_9, mp 0x47 MC_1_9_4, mp 0x49 MC_1_12, mp 0x4A MC_1_12_1, mp 0x4E MC_1_13,
     mp 0x53 MC_1_14, mp 0x54 MC_1_15, mp 0x53 MC_1_16, mp 0x5E MC_1_17, mp 0x5F MC_1_18, mp 0x60 MC_1_19,
     mp 0x63 MC_1_19_1, mp 0x61 MC_1_19_3, mp 0x65 MC_1_19_4, mp 0x68 MC_1_20_2, mp 0x6A MC_1_20_3,
     mp 0x6D MC_1_20_5, mp 0x74 MC_1_21_2, mp 0x73 MC_1_21_5, mp 0x78 MC_1_21_9]⟩,
  ⟨Play, CB, title_Legacy /- LegacyTitlePacket -/,
    [mp 0x45 MC_1_8, mp 0x45 MC_1_9, mp 0x47 MC_1_12, mp 0x48 MC_1_12_1, mp 0x4B MC_1_13, mp 0x4F MC_1_14,
     mp 0x50 MC_1_15, mpl 0x4F MC_1_16 MC_1_16_4]⟩,
  ⟨Play, CB, title_Subtitle /- TitleSubtitlePacket -/,
    [mp 0x57 MC_1_17, mp 0x58 MC_1_18, mp 0x5B MC_1_19_1, mp 0x59 MC_1_19_3, mp 0x5D MC_1_19_4,
     mp 0x5F MC_1_20_2, mp 0x61 MC_1_20_3, mp 0x63 MC_1_20_5, mp 0x6A MC_1_21_2, mp 0x69 MC_1_21_5,
     mp 0x6E MC_1_21_9]⟩,
  ⟨Play, CB, title_Text /- TitleTextPacket -/,
    [mp 0x59 MC_1_17, mp 0x5A MC_1_18, mp 0x5D MC_1_19_1, mp 0x5B MC_1_19_3, mp 0x5F MC_1_19_4,
     mp 0x61 MC_1_20_2, mp 0x63 MC_1_20_3, mp 0x65 MC_1_20_5, mp 0x6C MC_1_21_2, mp 0x6B MC_1_21_5,
     mp 0x70 MC_1_21_9]⟩,
  ⟨Play, CB, title_Actionbar /- TitleActionbarPacket -/,
    [mp 0x41 MC_1_17, mp 0x40 MC_1_19, mp 0x43 MC_1_19_1, mp 0x42 MC_1_19_3, mp 0x46 MC_1_19_4,
     mp 0x48 MC_1_20_2, mp 0x4A MC_1_20_3, mp 0x4C MC_1_20_5, mp 0x51 MC_1_21_2, mp 0x50 MC_1_21_5,
     mp 0x55 MC_1_21_9]⟩,
  ⟨Play, CB, title_Times /- TitleTimesPacket -/,
    [mp 0x5A MC_1_17, mp 0x5B MC_1_18, mp 0x5E MC_1_19_1, mp 0x5C MC_1_19_3, mp 0x60 MC_1_19_4,
     mp 0x62 MC_1_20_2, mp 0x64 MC_1_20_3, mp 0x66 MC_1_20_5, mp 0x6D MC_1_21_2, mp 0x6C MC_1_21_5,
     mp 0x71 MC_1_21_9]⟩,
  ⟨Play, CB, title_Clear /- TitleClearPacket -/,
    [mp 0x10 MC_1_17, mp 0x0D MC_1_19, mp 0x0C MC_1_19_3, mp 0x0E MC_1_19_4, mp 0x0F MC_1_20_2,
     mp 0x0E MC_1_21_5]⟩,
  ⟨Play, CB, legacytablist_PlayerListItem /- LegacyPlayerListItemPacket -/,
    [mp 0x38 MC_1_7_2, mp 0x2D MC_1_9, mp 0x2E MC_1_12_1, mp 0x30 MC_1_13, mp 0x33 MC_1_14, mp 0x34 MC_1_15,
     mp 0x33 MC_1_16, mp 0x32 MC_1_16_2, mp 0x36 MC_1_17, mp 0x34 MC_1_19, mpl 0x37 MC_1_19_1 MC_1_19_1]⟩,
  ⟨Play, CB, playerinfo_Remove /- RemovePlayerInfoPacket -/,
    [mp 0x35 MC_1_19_3, mp 0x39 MC_1_19_4, mp 0x3B MC_1_20_2, mp 0x3D MC_1_20_5, mp 0x3F MC_1_21_2,
     mp 0x3E MC_1_21_5, mp 0x43 MC_1_21_9]⟩,
  ⟨Play, CB, playerinfo_Upsert /- UpsertPlayerInfoPacket -/,
    [mp 0x36 MC_1_19_3, mp 0x3A MC_1_19_4, mp 0x3C MC_1_20_2, mp 0x3E MC_1_20_5, mp 0x40 MC_1_21_2,
     mp 0x3F MC_1_21_5, mp 0x44 MC_1_21_9]⟩,
  ⟨Play, CB, cookie_CookieStore /- ClientboundStoreCookiePacket -/,
    [mp 0x6B MC_1_20_5, mp 0x72 MC_1_21_2, mp 0x71 MC_1_21_5, mp 0x76 MC_1_21_9]⟩,
  ⟨Play, CB, chat_SystemChat /- SystemChatPacket -/,
    [mp 0x5F MC_1_19, mp 0x62 MC_1_19_1, mp 0x60 MC_1_19_3, mp 0x64 MC_1_19_4, mp 0x67 MC_1_20_2,
     mp 0x69 MC_1_20_3, mp 0x6C MC_1_20_5, mp 0x73 MC_1_21_2, mp 0x72 MC_1_21_5, mp 0x77 MC_1_21_9]⟩,
  ⟨Play, CB, packet_PlayerChatCompletion /- PlayerChatCompletionPacket -/,
    [mp 0x15 MC_1_19_1, mp 0x14 MC_1_19_3, mp 0x16 MC_1_19_4, mp 0x17 MC_1_20_2, mp 0x18 MC_1_20_5,
     mp 0x17 MC_1_21_5]⟩,
  ⟨Play, CB, packet_ServerData /- ServerDataPacket -/,
    [mp 0x3F MC_1_19, mp 0x42 MC_1_19_1, mp 0x41 MC_1_19_3, mp 0x45 MC_1_19_4, mp 0x47 MC_1_20_2,
     mp 0x49 MC_1_20_3, mp 0x4B MC_1_20_5, mp 0x50 MC_1_21_2, mp 0x4F MC_1_21_5, mp 0x54 MC_1_21_9]⟩,
  ⟨Play, CB, config_StartUpdate /- StartUpdatePacket -/,
    [mp 0x65 MC_1_20_2, mp 0x67 MC_1_20_3, mp 0x69 MC_1_20_5, mp 0x70 MC_1_21_2, mp 0x6F MC_1_21_5,
     mp 0x74 MC_1_21_9]⟩,
  ⟨Play, CB, packet_BundleDelimiter /- BundleDelimiterPacket -/, [mp 0x00 MC_1_19_4]⟩,
  ⟨Play, CB, packet_Transfer /- TransferPacket -/, [mp 0x73 MC_1_20_5, mp 0x7A MC_1_21_2, mp 0x7F MC_1_21_9]⟩,
  ⟨Play, CB, packet_CustomReportDetails /- ClientboundCustomReportDetailsPacket -/,
    [mp 0x7A MC_1_21, mp 0x81 MC_1_21_2, mp 0x86 MC_1_21_9]⟩,
  ⟨Play, CB, packet_ServerLinks /- ClientboundServerLinksPacket -/,
    [mp 0x7B MC_1_21, mp 0x82 MC_1_21_2, mp 0x87 MC_1_21_9]⟩
]

/-- the reference entries of one (registry, direction) -/
def referenceFor (st dir : Nat) : List RefEntry := reference.filter fun e => e.st == st && e.dir == dir

end Gate.C06.Spec
