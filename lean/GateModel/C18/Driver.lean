import GateModel.Base.Line
import GateModel.C18.Model
/-
C18 driver.  One stateful sequence per `reset`.  Case lines (`b` backend index, `id` decimal int64):

  reset                 fresh player, backends 0..3 fresh (conn present, open, PLAY), no current / in-flight
  cap                   → pendingKeepAliveCapacity
  rec b id              recordBackendKeepAlive            → -
  burst b n start       n records start, start+1, …       → -
  reply id              forwardKeepAlive                  → writes
  replyh id             clientPlaySessionHandler.handleKeepAlive → writes
  send b id             sendKeepAliveToBackend(b)         → <0|1> writes
  sendnil id            sendKeepAliveToBackend(nil)       → 0 -
  consume b id          consumePendingKeepAlive           → <0|1>
  new                   newServerConnection: the next backend index (4, 5, …)   → -
  disc b                serverConnection.disconnect                             → -
  cur b|-  infl b|-     setConnectedServer / setInFlightConnection → -
  state b s             backend protocol state (h|s|l|c|p) → -
  closed b 0|1, conn b 0|1                                 → -
  race g id,id,…        g goroutines each reply every id (rotated start) → sorted writes
  racelocked g id,…     the same, started while the connections' mutexes are held by someone else

`writes` = `-` or comma-separated `b:id` in the order written (sorted for `race`); the client
connection counts as backend 9.  Verdict = the property evaluated on the IMPLEMENTATION's writes
against the model state before the op: every write must carry the replied id, go to a backend that is
current/in-flight (resp. the addressed one), on which that id is pending, whose connection passes the
gate, and at most once.
-/
namespace Gate.C18
open Gate

def parseSt : String → Option St
  | "h" => some .handshake | "s" => some .status | "l" => some .login
  | "c" => some .config | "p" => some .play | _ => none

def parseOptNat (s : String) : Option (Option Nat) :=
  if s = "-" then some none else s.toNat?.map some

/-- delta of `written` between two systems on backends 0..15, as `b:id` tokens in backend order -/
def delta (s s' : Sys) : List (Nat × Int) :=
  (List.range 16).flatMap fun b =>
    (((s'.bs b).written.drop (s.bs b).written.length).map fun i => (b, i))

def showWrites (ws : List (Nat × Int)) : String :=
  if ws.isEmpty then "-" else ",".intercalate (ws.map fun (b, i) => toString b ++ ":" ++ toString i)

def parseWrites (s : String) : Option (List (Nat × Int)) :=
  if s = "-" then some [] else
  (s.splitOn ",").mapM fun t => match t.splitOn ":" with
    | [b, i] => do pure (← b.toNat?, ← i.toInt?)
    | _ => none

def leW (a b : Nat × Int) : Bool := a.1 < b.1 || (a.1 == b.1 && a.2 ≤ b.2)
def insertW (x : Nat × Int) : List (Nat × Int) → List (Nat × Int)
  | [] => [x]
  | y :: ys => if leW x y then x :: y :: ys else y :: insertW x ys
def sortW (l : List (Nat × Int)) : List (Nat × Int) := l.foldr insertW []

/-- the property on one implementation write `(b, i)` given the pre-state, the replied ids and the
    backends the reply may address -/
def judgeWrite (s : Sys) (ids : List Int) (allowed : List Nat) (w : Nat × Int) : Option String :=
  let (b, i) := w
  if !ids.contains i then some "wrong-id"
  else if !allowed.contains b then some "wrong-backend"
  else if !(s.bs b).pending.contains i then some "not-pending"
  else if !connOkB (s.bs b) then some "state-gate"
  else none

def judge (s : Sys) (ids : List Int) (allowed : List Nat) (impl : String) (single : Bool := true) : String :=
  match parseWrites impl with
  | none => "viol:unparsable"
  | some ws =>
    match ws.findSome? (judgeWrite s ids allowed) with
    | some sig => "viol:" ++ sig
    | none =>
      if ws.eraseDups.length ≠ ws.length then "viol:dup-forward"
      else if single && ws.length > 1 then "viol:multi-forward" else "ok"

def ptrs (s : Sys) : List Nat := s.cur.toList ++ s.infl.toList

def stripBool (impl : String) : String :=
  match impl.splitOn " " with
  | [_, w] => w
  | _ => "?"

def step (s : Sys) (c : Case) : Sys × String × String :=
  match c.op, c.args with
  | "reset", _ => ({}, "-", "-")
  | "cap", _ => (s, toString cap, "-")
  -- a backend index not used before IS a fresh serverConnection (empty LRU, connected, PLAY)
  | "new", _ => (s, "-", "-")
  -- serverConnection.disconnect: close the connection if it is still there, then forget it; the LRU stays
  | "disc", [b] => (match b.toNat? with
    | some b =>
      if (s.bs b).hasConn then (act (act s (.setClosed b true)) (.setConn b false), "-", "-") else (s, "-", "-")
    | none => (s, "bad-op", "-"))
  | "rec", [b, i] => match b.toNat?, i.toInt? with
    | some b, some i => ((act s (.record b i)).gc, "-", "-")
    | _, _ => (s, "bad-op", "-")
  | "burst", [b, n, st] => match b.toNat?, n.toNat?, st.toInt? with
    | some b, some n, some st =>
      ((exec s ((List.range n).map fun (k : Nat) => Act.record b (st + (k : Int)))).gc, "-", "-")
    | _, _, _ => (s, "bad-op", "-")
  | "reply", [i] | "replyh", [i] => match i.toInt? with
    | some i =>
      let s' := (reply s i).gc
      (s', showWrites (delta s s'), judge s [i] (ptrs s) c.impl)
    | none => (s, "bad-op", "-")
  | "send", [b, i] => match b.toNat?, i.toInt? with
    | some b, some i =>
      let s' := (sendTo s b i).gc
      let hit := (s.bs b).pending.contains i
      (s', (if hit then "1 " else "0 ") ++ showWrites (delta s s'), judge s [i] [b] (stripBool c.impl))
    | _, _ => (s, "bad-op", "-")
  | "sendnil", [_] => (s, "0 -", judge s [] [] (stripBool c.impl))
  | "consume", [b, i] => match b.toNat?, i.toInt? with
    | some b, some i =>
      let B := s.bs b
      let (l', hit) := lruConsume B.pending i
      (s.setB b { B with pending := l' }, if hit then "1" else "0", "-")
    | _, _ => (s, "bad-op", "-")
  | "cur", [o] => match parseOptNat o with
    | some o => (act s (.setCur o), "-", "-")
    | none => (s, "bad-op", "-")
  | "infl", [o] => match parseOptNat o with
    | some o => (act s (.setInfl o), "-", "-")
    | none => (s, "bad-op", "-")
  | "state", [b, st] => match b.toNat?, parseSt st with
    | some b, some st => (act s (.setState b st), "-", "-")
    | _, _ => (s, "bad-op", "-")
  | "closed", [b, v] => match b.toNat? with
    | some b => (act s (.setClosed b (v = "1")), "-", "-")
    | none => (s, "bad-op", "-")
  | "conn", [b, v] => match b.toNat? with
    | some b => (act s (.setConn b (v = "1")), "-", "-")
    | none => (s, "bad-op", "-")
  | "race", [g, ids] | "racelocked", [g, ids] => match g.toNat?, (ids.splitOn ",").mapM String.toInt? with
    | some g, some ids =>
      -- consumption is atomic, so the outcome of the race is the outcome of handling all g·|ids|
      -- replies one after the other (in any order)
      let all := (List.range g).flatMap fun _ => ids
      let s' := all.foldl (fun acc i => (reply acc i).gc) s
      (s', showWrites (sortW (delta s s')), judge s ids (ptrs s) c.impl false)
    | _, _ => (s, "bad-op", "-")
  | _, _ => (s, "bad-op", "-")

end Gate.C18

def main : IO Unit := Gate.runDriver ({} : Gate.C18.Sys) Gate.C18.step
