import GateModel.C18.Model
/-
C18 helper lemmas: LRU algebra, history bookkeeping, the system invariant and its preservation by
every atomic action.
-/
namespace Gate.C18

/-! ## LRU -/

theorem lruConsume_eq (l : Lru) (k : Int) :
    lruConsume l k = if k ∈ l then (l.erase k, true) else (l, false) := by
  unfold lruConsume lruGet lruDelete
  by_cases h : k ∈ l
  · simp [h]
  · simp [h]

theorem mem_lruSet {c : Nat} {l : Lru} {k x : Int} (h : x ∈ lruSet c l k) : x = k ∨ x ∈ l := by
  unfold lruSet at h
  by_cases hk : k ∈ l
  · rw [if_pos hk] at h
    rcases List.mem_cons.mp h with h | h
    · exact .inl h
    · exact .inr (List.mem_of_mem_erase h)
  · rw [if_neg hk] at h
    by_cases hc : (k :: l).length > c
    · rw [if_pos hc] at h
      have := (List.dropLast_sublist (k :: l)).subset h
      rcases List.mem_cons.mp this with h | h
      · exact .inl h
      · exact .inr h
    · rw [if_neg hc] at h
      rcases List.mem_cons.mp h with h | h
      · exact .inl h
      · exact .inr h

theorem nodup_lruSet {c : Nat} {l : Lru} (k : Int) (h : l.Nodup) : (lruSet c l k).Nodup := by
  unfold lruSet
  by_cases hk : k ∈ l
  · rw [if_pos hk]
    refine List.nodup_cons.mpr ⟨?_, h.erase k⟩
    intro hm
    exact ((h.mem_erase_iff).mp hm).1 rfl
  · rw [if_neg hk]
    have hn : (k :: l).Nodup := List.nodup_cons.mpr ⟨hk, h⟩
    by_cases hc : (k :: l).length > c
    · rw [if_pos hc]; exact hn.sublist (List.dropLast_sublist _)
    · rw [if_neg hc]; exact hn

theorem length_lruSet {c : Nat} {l : Lru} (k : Int) (h : l.length ≤ c) :
    (lruSet c l k).length ≤ c := by
  unfold lruSet
  by_cases hk : k ∈ l
  · rw [if_pos hk]
    have := List.length_erase_of_mem hk
    have hpos : 0 < l.length := List.length_pos_of_mem hk
    simp only [List.length_cons]; omega
  · rw [if_neg hk]
    by_cases hcc : (k :: l).length > c
    · rw [if_pos hcc]; simp only [List.length_dropLast, List.length_cons]; omega
    · rw [if_neg hcc]; omega

/-- inserting a fresh key into a (not over-full) LRU = push front, keep the `c` most recent -/
theorem lruSet_fresh {c : Nat} {l : Lru} {k : Int} (hk : k ∉ l) (h : l.length ≤ c) :
    lruSet c l k = (k :: l).take c := by
  unfold lruSet
  rw [if_neg hk]
  by_cases hc : (k :: l).length > c
  · rw [if_pos hc, List.dropLast_eq_take]
    have : (k :: l).length - 1 = c := by simp only [List.length_cons] at hc ⊢; omega
    rw [this]
  · rw [if_neg hc]
    exact (List.take_of_length_le (by omega)).symm

theorem take_append_take {α} (a b : List α) (c : Nat) : (a ++ b.take c).take c = (a ++ b).take c := by
  rw [List.take_append, List.take_append, List.take_take]
  congr 2
  omega

/-- recording fresh, pairwise distinct ids `ids` (oldest first) on top of `l` keeps exactly the `c`
    most recent keys, newest first -/
theorem foldl_lruSet_fresh (c : Nat) : ∀ (ids : List Int) (l : Lru), l.length ≤ c → (ids ++ l).Nodup →
    ids.foldl (lruSet c) l = (ids.reverse ++ l).take c
  | [], l, h, _ => by simp [List.take_of_length_le h]
  | k :: ids, l, h, hn => by
    have hk : k ∉ l := by
      intro hm
      rw [List.cons_append] at hn
      exact (List.nodup_cons.mp hn).1 (List.mem_append_right _ hm)
    have hn' : (ids ++ (k :: l).take c).Nodup := by
      have h1 : (ids ++ k :: l).Nodup := by
        have : (k :: (ids ++ l)).Nodup := by rw [List.cons_append] at hn; exact hn
        have hp : (ids ++ k :: l).Perm (k :: (ids ++ l)) := List.perm_middle
        exact hp.nodup_iff.mpr this
      exact h1.sublist (List.Sublist.append (List.Sublist.refl _) (List.take_sublist _ _))
    rw [List.foldl_cons, lruSet_fresh hk h,
      foldl_lruSet_fresh c ids _ (by simp [List.length_take]; omega) hn', take_append_take]
    simp

/-! ## history bookkeeping (log is newest first) -/

/-- backend `b` sent keep-alive `i` and no reply has consumed it since -/
def unanswered : List Ev → Nat → Int → Bool
  | [], _, _ => false
  | .recd b i :: h, b', i' => if b = b' ∧ i = i' then true else unanswered h b' i'
  | .cons b i :: h, b', i' => if b = b' ∧ i = i' then false else unanswered h b' i'
  | .fwd _ _ :: h, b', i' => unanswered h b' i'

def nrec (h : List Ev) (b : Nat) (i : Int) : Nat := h.count (.recd b i)
def ncons (h : List Ev) (b : Nat) (i : Int) : Nat := h.count (.cons b i)
def nfwd (h : List Ev) (b : Nat) (i : Int) : Nat := h.count (.fwd b i)

/-- every consume in the history took a keep-alive that was unanswered at that moment -/
def ValidC : List Ev → Prop
  | [] => True
  | .cons b i :: h => unanswered h b i = true ∧ ValidC h
  | _ :: h => ValidC h

theorem ncons_le_nrec : ∀ (h : List Ev) (b : Nat) (i : Int), ValidC h →
    ncons h b i + (if unanswered h b i = true then 1 else 0) ≤ nrec h b i
  | [], b, i, _ => by simp [ncons, nrec, unanswered]
  | e :: h, b, i, hv => by
    cases e with
    | recd b' i' =>
      have ih := ncons_le_nrec h b i hv
      unfold ncons nrec at *
      by_cases hb : b' = b ∧ i' = i
      · obtain ⟨rfl, rfl⟩ := hb
        simp only [unanswered, and_self, if_true, List.count_cons_self]
        rw [List.count_cons_of_ne (by simp)]
        split at ih <;> omega
      · have hne : Ev.recd b' i' ≠ Ev.recd b i := by
          intro he; injection he with h1 h2; exact hb ⟨h1, h2⟩
        simp only [unanswered, hb, if_false]
        rw [List.count_cons_of_ne (by simp), List.count_cons_of_ne hne]
        exact ih
    | cons b' i' =>
      have ih := ncons_le_nrec h b i hv.2
      unfold ncons nrec at *
      by_cases hb : b' = b ∧ i' = i
      · obtain ⟨rfl, rfl⟩ := hb
        have hu := hv.1
        simp only [unanswered, and_self, if_true, List.count_cons_self]
        rw [List.count_cons_of_ne (by simp)]
        rw [hu] at ih
        simp at ih ⊢; omega
      · have hne : Ev.cons b' i' ≠ Ev.cons b i := by
          intro he; injection he with h1 h2; exact hb ⟨h1, h2⟩
        simp only [unanswered, hb, if_false]
        rw [List.count_cons_of_ne hne, List.count_cons_of_ne (by simp)]
        exact ih
    | fwd b' i' =>
      have ih := ncons_le_nrec h b i hv
      unfold ncons nrec at *
      simp only [unanswered]
      rw [List.count_cons_of_ne (by simp), List.count_cons_of_ne (by simp)]
      exact ih

/-! ## tokens held by threads -/

def hold (b : Nat) (i : Int) (th : Thread) : Nat := if th.id = i ∧ th.pc.held = some b then 1 else 0
def holders (l : List Thread) (b : Nat) (i : Int) : Nat := (l.map (hold b i)).sum

theorem sum_map_set (f : Thread → Nat) : ∀ (l : List Thread) (t : Nat) (th x : Thread), l[t]? = some th →
    ((l.set t x).map f).sum + f th = (l.map f).sum + f x
  | [], _, _, _, h => by simp at h
  | a :: l, 0, th, x, h => by
    simp at h; subst h
    simp only [List.set_cons_zero, List.map_cons, List.sum_cons]; omega
  | a :: l, t + 1, th, x, h => by
    have := sum_map_set f l t th x (by simpa using h)
    simp only [List.set_cons_succ, List.map_cons, List.sum_cons]; omega

theorem holders_set {l : List Thread} {t : Nat} {th : Thread} (x : Thread) (b : Nat) (i : Int)
    (h : l[t]? = some th) : holders (l.set t x) b i + hold b i th = holders l b i + hold b i x :=
  sum_map_set (hold b i) l t th x h

theorem holders_append (l : List Thread) (x : Thread) (b : Nat) (i : Int) :
    holders (l ++ [x]) b i = holders l b i + hold b i x := by
  simp [holders]

theorem hold_of_not_held {th : Thread} (h : th.pc.held = none) (b : Nat) (i : Int) : hold b i th = 0 := by
  simp [hold, h]

theorem unanswered_cons_ne {h : List Ev} {b j : Nat} {id i : Int} (hne : ¬ (b = j ∧ id = i)) :
    unanswered (.cons b id :: h) j i = unanswered h j i := by
  rw [unanswered, if_neg hne]

theorem unanswered_recd_ne {h : List Ev} {b j : Nat} {id i : Int} (hne : ¬ (b = j ∧ id = i)) :
    unanswered (.recd b id :: h) j i = unanswered h j i := by
  rw [unanswered, if_neg hne]

theorem unanswered_recd_self (h : List Ev) (b : Nat) (id : Int) :
    unanswered (.recd b id :: h) b id = true := by
  rw [unanswered, if_pos ⟨rfl, rfl⟩]

/-! ## the invariant -/

structure Inv (s : Sys) : Prop where
  nodup : ∀ b, (s.bs b).pending.Nodup
  len : ∀ b, (s.bs b).pending.length ≤ cap
  pend : ∀ b i, i ∈ (s.bs b).pending → unanswered s.log b i = true
  valid : ValidC s.log
  tok : ∀ b i, holders s.ths b i + nfwd s.log b i ≤ ncons s.log b i

/-- a step that only moves thread `t` to a pc holding no more than before -/
theorem inv_setPc {s : Sys} {t : Nat} {th : Thread} (pc : Pc) (h : Inv s) (ht : s.ths[t]? = some th)
    (hpc : pc.held = none ∨ pc.held = th.pc.held) : Inv (s.setPc t th pc) where
  nodup := h.nodup
  len := h.len
  pend := h.pend
  valid := h.valid
  tok := by
    intro b i
    have h1 := holders_set (l := s.ths) { th with pc := pc } b i ht
    have h2 := h.tok b i
    have h3 : hold b i { th with pc := pc } ≤ hold b i th := by
      rcases hpc with hp | hp
      · rw [hold_of_not_held (th := { th with pc := pc }) hp]; omega
      · simp [hold, hp]
    show holders (s.ths.set t { th with pc := pc }) b i + nfwd s.log b i ≤ ncons s.log b i
    omega

theorem inv_consumeStep {s : Sys} {t : Nat} {th : Thread} (b : Nat) (miss : Pc) (h : Inv s)
    (ht : s.ths[t]? = some th) (hth : th.pc.held = none) (hmiss : miss.held = none) :
    Inv (consumeStep s t th b miss) := by
  unfold consumeStep
  simp only [lruConsume_eq]
  by_cases hm : th.id ∈ (s.bs b).pending
  · rw [if_pos hm]
    refine ⟨?_, ?_, ?_, ?_, ?_⟩
    · intro j
      show (if j = b then _ else s.bs j).pending.Nodup
      by_cases hj : j = b
      · rw [if_pos hj]; exact (h.nodup b).erase _
      · rw [if_neg hj]; exact h.nodup j
    · intro j
      show (if j = b then _ else s.bs j).pending.length ≤ cap
      by_cases hj : j = b
      · rw [if_pos hj]
        have := h.len b
        have := List.length_erase_of_mem hm
        show ((s.bs b).pending.erase th.id).length ≤ cap
        omega
      · rw [if_neg hj]; exact h.len j
    · intro j i hi
      show unanswered (.cons b th.id :: s.log) j i = true
      have hi' : i ∈ (if j = b then ({ s.bs b with pending := (s.bs b).pending.erase th.id } : Backend) else s.bs j).pending := hi
      by_cases hj : j = b
      · rw [if_pos hj] at hi'
        have := ((h.nodup b).mem_erase_iff).mp hi'
        subst hj
        have hne : ¬ (j = j ∧ th.id = i) := fun hc => this.1 hc.2.symm
        rw [unanswered_cons_ne hne]
        exact h.pend j i this.2
      · rw [if_neg hj] at hi'
        have hne : ¬ (b = j ∧ th.id = i) := fun hc => hj hc.1.symm
        rw [unanswered_cons_ne hne]
        exact h.pend j i hi'
    · exact ⟨h.pend b th.id hm, h.valid⟩
    · intro j i
      show holders (s.ths.set t { th with pc := .readConn b }) j i + nfwd (.cons b th.id :: s.log) j i
        ≤ ncons (.cons b th.id :: s.log) j i
      have h1 := holders_set (l := s.ths) { th with pc := Pc.readConn b } j i ht
      have h2 := h.tok j i
      rw [hold_of_not_held hth] at h1
      have h4 : nfwd (.cons b th.id :: s.log) j i = nfwd s.log j i := by
        unfold nfwd; rw [List.count_cons_of_ne (by simp)]
      by_cases hc : b = j ∧ th.id = i
      · obtain ⟨rfl, rfl⟩ := hc
        have h5 : ncons (.cons b th.id :: s.log) b th.id = ncons s.log b th.id + 1 := by
          unfold ncons; rw [List.count_cons_self]
        have h6 : hold b th.id { th with pc := Pc.readConn b } = 1 := by simp [hold, Pc.held]
        omega
      · have h5 : ncons (.cons b th.id :: s.log) j i = ncons s.log j i := by
          unfold ncons; rw [List.count_cons_of_ne]
          intro he; injection he with e1 e2; exact hc ⟨e1, e2⟩
        have h6 : hold j i { th with pc := Pc.readConn b } = 0 := by
          unfold hold
          rw [if_neg]
          intro hh
          apply hc
          refine ⟨?_, hh.1⟩
          have := hh.2
          simpa [Pc.held] using this
        omega
  · rw [if_neg hm]
    exact inv_setPc miss h ht (.inl hmiss)

theorem inv_write {s : Sys} {t : Nat} {th : Thread} (b : Nat) (h : Inv s)
    (ht : s.ths[t]? = some th) (hpc : th.pc = .write b) :
    Inv { (s.setB b { s.bs b with written := (s.bs b).written ++ [th.id] }).setPc t th .done with
          log := .fwd b th.id :: s.log } := by
  have hp : ∀ j, (if j = b then ({ s.bs b with written := (s.bs b).written ++ [th.id] } : Backend)
      else s.bs j).pending = (s.bs j).pending := by
    intro j; by_cases hj : j = b
    · rw [if_pos hj, hj]
    · rw [if_neg hj]
  refine ⟨?_, ?_, ?_, ?_, ?_⟩
  · intro j
    show (if j = b then _ else s.bs j).pending.Nodup
    rw [hp]; exact h.nodup j
  · intro j
    show (if j = b then _ else s.bs j).pending.length ≤ cap
    rw [hp]; exact h.len j
  · intro j i hi
    have hi' : i ∈ (if j = b then ({ s.bs b with written := (s.bs b).written ++ [th.id] } : Backend)
      else s.bs j).pending := hi
    rw [hp] at hi'
    show unanswered (.fwd b th.id :: s.log) j i = true
    rw [unanswered]; exact h.pend j i hi'
  · exact h.valid
  · intro j i
    show holders (s.ths.set t { th with pc := .done }) j i + nfwd (.fwd b th.id :: s.log) j i
      ≤ ncons (.fwd b th.id :: s.log) j i
    have h1 := holders_set (l := s.ths) { th with pc := Pc.done } j i ht
    have h2 := h.tok j i
    have h3 : hold j i { th with pc := Pc.done } = 0 := hold_of_not_held rfl j i
    have h4 : ncons (.fwd b th.id :: s.log) j i = ncons s.log j i := by
      unfold ncons; rw [List.count_cons_of_ne (by simp)]
    by_cases hc : b = j ∧ th.id = i
    · obtain ⟨rfl, rfl⟩ := hc
      have h5 : nfwd (.fwd b th.id :: s.log) b th.id = nfwd s.log b th.id + 1 := by
        unfold nfwd; rw [List.count_cons_self]
      have h6 : hold b th.id th = 1 := by simp [hold, hpc, Pc.held]
      omega
    · have h5 : nfwd (.fwd b th.id :: s.log) j i = nfwd s.log j i := by
        unfold nfwd; rw [List.count_cons_of_ne]
        intro he; injection he with e1 e2; exact hc ⟨e1, e2⟩
      omega

theorem inv_stepThread {s : Sys} (t : Nat) (h : Inv s) : Inv (stepThread s t) := by
  unfold stepThread
  cases ht : s.ths[t]? with
  | none => exact h
  | some th =>
    simp only
    cases hpc : th.pc with
    | done => exact h
    | start =>
      simp only
      cases s.cur with
      | none => exact inv_setPc _ h ht (.inl rfl)
      | some b => exact inv_setPc _ h ht (.inl rfl)
    | consume1 b => exact inv_consumeStep b _ h ht (by rw [hpc]; rfl) rfl
    | readInfl =>
      simp only
      cases s.infl with
      | none => exact inv_setPc _ h ht (.inl rfl)
      | some b => exact inv_setPc _ h ht (.inl rfl)
    | consume2 b => exact inv_consumeStep b _ h ht (by rw [hpc]; rfl) rfl
    | readConn b =>
      simp only
      split
      · exact inv_setPc _ h ht (.inr (by rw [hpc]; rfl))
      · exact inv_setPc _ h ht (.inl rfl)
    | readClosed b =>
      simp only
      split
      · exact inv_setPc _ h ht (.inl rfl)
      · exact inv_setPc _ h ht (.inr (by rw [hpc]; rfl))
    | readState b =>
      simp only
      split
      · exact inv_setPc _ h ht (.inr (by rw [hpc]; rfl))
      · exact inv_setPc _ h ht (.inl rfl)
    | write b => exact inv_write b h ht hpc

theorem inv_setB_conn {s : Sys} (b : Nat) (x : Backend) (h : Inv s) (hx : x.pending = (s.bs b).pending) :
    Inv (s.setB b x) := by
  have hp : ∀ j, (if j = b then x else s.bs j).pending = (s.bs j).pending := by
    intro j; by_cases hj : j = b
    · rw [if_pos hj, hj, hx]
    · rw [if_neg hj]
  refine ⟨?_, ?_, ?_, h.valid, h.tok⟩
  · intro j; show (if j = b then x else s.bs j).pending.Nodup; rw [hp]; exact h.nodup j
  · intro j; show (if j = b then x else s.bs j).pending.length ≤ cap; rw [hp]; exact h.len j
  · intro j i hi
    have hi' : i ∈ (if j = b then x else s.bs j).pending := hi
    rw [hp] at hi'; exact h.pend j i hi'

theorem inv_record {s : Sys} (b : Nat) (id : Int) (h : Inv s) : Inv (act s (.record b id)) := by
  refine ⟨?_, ?_, ?_, ?_, ?_⟩
  · intro j
    show (if j = b then ({ s.bs b with pending := lruSet cap (s.bs b).pending id } : Backend) else s.bs j).pending.Nodup
    by_cases hj : j = b
    · rw [if_pos hj]; exact nodup_lruSet id (h.nodup b)
    · rw [if_neg hj]; exact h.nodup j
  · intro j
    show (if j = b then ({ s.bs b with pending := lruSet cap (s.bs b).pending id } : Backend) else s.bs j).pending.length ≤ cap
    by_cases hj : j = b
    · rw [if_pos hj]; exact length_lruSet id (h.len b)
    · rw [if_neg hj]; exact h.len j
  · intro j i hi
    have hi' : i ∈ (if j = b then ({ s.bs b with pending := lruSet cap (s.bs b).pending id } : Backend)
      else s.bs j).pending := hi
    show unanswered (.recd b id :: s.log) j i = true
    by_cases hc : b = j ∧ id = i
    · obtain ⟨rfl, rfl⟩ := hc; exact unanswered_recd_self _ _ _
    · rw [unanswered_recd_ne hc]
      by_cases hj : j = b
      · rw [if_pos hj] at hi'
        rcases mem_lruSet hi' with he | hm
        · exact absurd ⟨hj.symm, he.symm⟩ hc
        · subst hj; exact h.pend j i hm
      · rw [if_neg hj] at hi'; exact h.pend j i hi'
  · exact h.valid
  · intro j i
    show holders s.ths j i + nfwd (.recd b id :: s.log) j i ≤ ncons (.recd b id :: s.log) j i
    have := h.tok j i
    unfold nfwd ncons at *
    rw [List.count_cons_of_ne (by simp), List.count_cons_of_ne (by simp)]
    exact this

theorem inv_spawn {s : Sys} (x : Thread) (h : Inv s) (hx : x.pc.held = none) :
    Inv { s with ths := s.ths ++ [x] } :=
  ⟨h.nodup, h.len, h.pend, h.valid, by
    intro b i
    show holders (s.ths ++ [x]) b i + nfwd s.log b i ≤ ncons s.log b i
    rw [holders_append, hold_of_not_held hx]
    exact h.tok b i⟩

theorem inv_act {s : Sys} (a : Act) (h : Inv s) : Inv (act s a) := by
  cases a with
  | record b id => exact inv_record b id h
  | spawn id => exact inv_spawn _ h rfl
  | spawnAt id pc =>
    show Inv (if pc.held.isSome then s else { s with ths := s.ths ++ [⟨id, pc⟩] })
    cases hp : pc.held with
    | some b => rw [if_pos (by simp)]; exact h
    | none => rw [if_neg (by simp)]; exact inv_spawn ⟨id, pc⟩ h hp
  | step t => exact inv_stepThread t h
  | setCur o => exact ⟨h.nodup, h.len, h.pend, h.valid, h.tok⟩
  | setInfl o => exact ⟨h.nodup, h.len, h.pend, h.valid, h.tok⟩
  | setState b st => exact inv_setB_conn b _ h rfl
  | setClosed b c => exact inv_setB_conn b _ h rfl
  | setConn b c => exact inv_setB_conn b _ h rfl

theorem inv_exec : ∀ (as : List Act) {s : Sys}, Inv s → Inv (exec s as)
  | [], _, h => h
  | a :: as, _, h => inv_exec as (inv_act a h)

/-- a system in which no keep-alive has been recorded and no reply is being handled -/
structure Fresh (s : Sys) : Prop where
  pending : ∀ b, (s.bs b).pending = []
  ths : s.ths = []
  log : s.log = []

theorem inv_of_fresh {s : Sys} (h : Fresh s) : Inv s where
  nodup b := by rw [h.pending]; exact List.nodup_nil
  len b := by rw [h.pending]; exact Nat.zero_le _
  pend b i hi := by rw [h.pending] at hi; cases hi
  valid := by rw [h.log]; trivial
  tok b i := by rw [h.ths, h.log]; simp [holders, nfwd, ncons]

/-! ## the state gate under a quiescent environment -/

def connOk (B : Backend) : Prop := B.hasConn = true ∧ B.closed = false ∧ B.st.fwdOk = true

/-- what a thread has already checked about the backend it holds a ping of -/
def thOk (bs : Nat → Backend) (th : Thread) : Prop :=
  match th.pc with
  | .readClosed b => (bs b).hasConn = true
  | .readState b => (bs b).hasConn = true ∧ (bs b).closed = false
  | .write b => connOk (bs b)
  | _ => True

def sameConn (B B' : Backend) : Prop := B'.hasConn = B.hasConn ∧ B'.closed = B.closed ∧ B'.st = B.st

structure GateInv (s : Sys) : Prop where
  th : ∀ th ∈ s.ths, thOk s.bs th
  log : ∀ b i, Ev.fwd b i ∈ s.log → connOk (s.bs b)

theorem connOk_congr {B B' : Backend} (h : sameConn B B') (hk : connOk B) : connOk B' := by
  obtain ⟨h1, h2, h3⟩ := h
  unfold connOk; rw [h1, h2, h3]; exact hk

theorem thOk_congr {bs bs' : Nat → Backend} (h : ∀ b, sameConn (bs b) (bs' b)) {th : Thread}
    (hk : thOk bs th) : thOk bs' th := by
  unfold thOk at *
  cases hpc : th.pc <;> rw [hpc] at hk <;> simp only at hk ⊢
  · rw [(h _).1]; exact hk
  · rw [(h _).1, (h _).2.1]; exact hk
  · exact connOk_congr (h _) hk

theorem gate_step {s s' : Sys} (h : GateInv s) (hbs : ∀ b, sameConn (s.bs b) (s'.bs b))
    (hths : ∀ th' ∈ s'.ths, th' ∈ s.ths ∨ thOk s.bs th')
    (hlog : ∀ b i, Ev.fwd b i ∈ s'.log → Ev.fwd b i ∈ s.log ∨ connOk (s.bs b)) : GateInv s' where
  th th' hm := by
    rcases hths th' hm with hh | hh
    · exact thOk_congr hbs (h.th th' hh)
    · exact thOk_congr hbs hh
  log b i hm := by
    rcases hlog b i hm with hh | hh
    · exact connOk_congr (hbs b) (h.log b i hh)
    · exact connOk_congr (hbs b) hh

theorem sameConn_refl (B : Backend) : sameConn B B := ⟨rfl, rfl, rfl⟩

theorem sameConn_setB (s : Sys) (b : Nat) (x : Backend) (hx : sameConn (s.bs b) x) :
    ∀ j, sameConn (s.bs j) ((s.setB b x).bs j) := by
  intro j
  show sameConn (s.bs j) (if j = b then x else s.bs j)
  by_cases hj : j = b
  · rw [if_pos hj, hj]; exact hx
  · rw [if_neg hj]; exact sameConn_refl _

theorem gate_setPc {s : Sys} {t : Nat} {th : Thread} (pc : Pc) (h : GateInv s)
    (hk : thOk s.bs { th with pc := pc }) : GateInv (s.setPc t th pc) :=
  gate_step h (fun _ => sameConn_refl _)
    (fun th' hm => by
      rcases List.mem_or_eq_of_mem_set hm with hh | hh
      · exact .inl hh
      · exact .inr (hh ▸ hk))
    (fun _ _ hm => .inl hm)

theorem gate_consumeStep {s : Sys} {t : Nat} {th : Thread} (b : Nat) (miss : Pc) (h : GateInv s)
    (hmiss : thOk s.bs { th with pc := miss }) : GateInv (consumeStep s t th b miss) := by
  unfold consumeStep
  simp only [lruConsume_eq]
  by_cases hm : th.id ∈ (s.bs b).pending
  · rw [if_pos hm]
    refine gate_step h (sameConn_setB s b _ ⟨rfl, rfl, rfl⟩) ?_ ?_
    · intro th' hm'
      rcases List.mem_or_eq_of_mem_set hm' with hh | hh
      · exact .inl hh
      · exact .inr (by rw [hh]; trivial)
    · intro j i hm'
      rcases List.mem_cons.mp hm' with hh | hh
      · cases hh
      · exact .inl hh
  · rw [if_neg hm]
    exact gate_setPc miss h hmiss

theorem gate_stepThread {s : Sys} (t : Nat) (h : GateInv s) : GateInv (stepThread s t) := by
  unfold stepThread
  cases ht : s.ths[t]? with
  | none => exact h
  | some th =>
    have hmem : th ∈ s.ths := List.mem_of_getElem? ht
    have hth := h.th th hmem
    simp only
    cases hpc : th.pc with
    | done => exact h
    | start =>
      simp only
      cases s.cur with
      | none => exact gate_setPc _ h trivial
      | some b => exact gate_setPc _ h trivial
    | consume1 b => exact gate_consumeStep b _ h trivial
    | readInfl =>
      simp only
      cases s.infl with
      | none => exact gate_setPc _ h trivial
      | some b => exact gate_setPc _ h trivial
    | consume2 b => exact gate_consumeStep b _ h trivial
    | readConn b =>
      simp only
      split
      · rename_i hc; exact gate_setPc _ h hc
      · exact gate_setPc _ h trivial
    | readClosed b =>
      simp only
      unfold thOk at hth; rw [hpc] at hth; simp only at hth
      split
      · exact gate_setPc _ h trivial
      · rename_i hc; exact gate_setPc _ h ⟨hth, by simpa using hc⟩
    | readState b =>
      simp only
      unfold thOk at hth; rw [hpc] at hth; simp only at hth
      split
      · rename_i hc; exact gate_setPc _ h ⟨hth.1, hth.2, hc⟩
      · exact gate_setPc _ h trivial
    | write b =>
      simp only
      unfold thOk at hth; rw [hpc] at hth; simp only at hth
      refine gate_step h (sameConn_setB s b _ ⟨rfl, rfl, rfl⟩) ?_ ?_
      · intro th' hm'
        rcases List.mem_or_eq_of_mem_set hm' with hh | hh
        · exact .inl hh
        · exact .inr (by rw [hh]; trivial)
      · intro j i hm'
        rcases List.mem_cons.mp hm' with hh | hh
        · injection hh with e1 e2; subst e1; exact .inr hth
        · exact .inl hh

/-- actions that do not touch a backend connection's nil-ness / closed flag / protocol state -/
def Act.quiet : Act → Bool
  | .setState _ _ | .setClosed _ _ | .setConn _ _ => false
  | _ => true

theorem gate_act {s : Sys} (a : Act) (hq : a.quiet = true) (h : GateInv s) : GateInv (act s a) := by
  cases a with
  | record b id =>
    exact gate_step h (sameConn_setB s b _ ⟨rfl, rfl, rfl⟩) (fun _ hm => .inl hm)
      (fun j i hm => by
        rcases List.mem_cons.mp hm with hh | hh
        · cases hh
        · exact .inl hh)
  | spawn id =>
    exact gate_step h (fun _ => sameConn_refl _)
      (fun th' hm => by
        rcases List.mem_append.mp hm with hh | hh
        · exact .inl hh
        · rw [List.mem_singleton.mp hh]; exact .inr trivial)
      (fun _ _ hm => .inl hm)
  | spawnAt id pc =>
    show GateInv (if pc.held.isSome then s else { s with ths := s.ths ++ [⟨id, pc⟩] })
    cases hp : pc.held with
    | some b => rw [if_pos (by simp)]; exact h
    | none =>
      rw [if_neg (by simp)]
      exact gate_step h (fun _ => sameConn_refl _)
        (fun th' hm => by
          rcases List.mem_append.mp hm with hh | hh
          · exact .inl hh
          · rw [List.mem_singleton.mp hh]
            refine .inr ?_
            unfold thOk
            cases pc <;> simp_all [Pc.held])
        (fun _ _ hm => .inl hm)
  | step t => exact gate_stepThread t h
  | setCur o => exact ⟨h.th, h.log⟩
  | setInfl o => exact ⟨h.th, h.log⟩
  | setState b st => cases hq
  | setClosed b c => cases hq
  | setConn b c => cases hq

theorem gate_exec : ∀ (as : List Act) {s : Sys}, (∀ a ∈ as, a.quiet = true) → GateInv s → GateInv (exec s as)
  | [], _, _, h => h
  | a :: as, _, hq, h =>
    gate_exec as (fun x hx => hq x (List.mem_cons_of_mem _ hx)) (gate_act a (hq a List.mem_cons_self) h)

/-- quiet actions leave every backend's connection fields alone -/
theorem sameConn_exec : ∀ (as : List Act) (s : Sys), (∀ a ∈ as, a.quiet = true) →
    ∀ b, sameConn (s.bs b) ((exec s as).bs b)
  | [], s, _, b => sameConn_refl _
  | a :: as, s, hq, b => by
    have ih := sameConn_exec as (act s a) (fun x hx => hq x (List.mem_cons_of_mem _ hx)) b
    have h1 : sameConn (s.bs b) ((act s a).bs b) := by
      have hqa := hq a List.mem_cons_self
      cases a with
      | record b' id => (refine sameConn_setB s b' _ ?_ b; exact ⟨rfl, rfl, rfl⟩)
      | spawn id => exact sameConn_refl _
      | spawnAt id pc =>
        show sameConn _ ((if pc.held.isSome then s else { s with ths := s.ths ++ [⟨id, pc⟩] }).bs b)
        split <;> exact sameConn_refl _
      | step t =>
        -- reuse the generic step shape: stepThread only rewrites pending/written
        show sameConn (s.bs b) ((stepThread s t).bs b)
        unfold stepThread
        cases s.ths[t]? with
        | none => exact sameConn_refl _
        | some th =>
          simp only
          cases th.pc <;> simp only
          case done => exact sameConn_refl _
          case start => cases s.cur <;> exact sameConn_refl _
          case readInfl => cases s.infl <;> exact sameConn_refl _
          case consume1 b' =>
            unfold consumeStep; simp only [lruConsume_eq]
            split
            · (refine sameConn_setB s b' _ ?_ b; exact ⟨rfl, rfl, rfl⟩)
            · exact sameConn_refl _
          case consume2 b' =>
            unfold consumeStep; simp only [lruConsume_eq]
            split
            · (refine sameConn_setB s b' _ ?_ b; exact ⟨rfl, rfl, rfl⟩)
            · exact sameConn_refl _
          case readConn b' => split <;> exact sameConn_refl _
          case readClosed b' => split <;> exact sameConn_refl _
          case readState b' => split <;> exact sameConn_refl _
          case write b' => (refine sameConn_setB s b' _ ?_ b; exact ⟨rfl, rfl, rfl⟩)
      | setCur o => exact sameConn_refl _
      | setInfl o => exact sameConn_refl _
      | setState b st => cases hqa
      | setClosed b c => cases hqa
      | setConn b c => cases hqa
    exact ⟨ih.1.trans h1.1, ih.2.1.trans h1.2.1, ih.2.2.trans h1.2.2⟩

/-! ## one reply handled without interference = the function `replyBs` -/

theorem reply_bs (s : Sys) (id : Int) (j : Nat) (hths : s.ths = []) :
    (reply s id).bs j = replyBs s id j := by
  obtain ⟨bs, cur, infl, ths, log⟩ := s
  simp only at hths; subst hths
  unfold reply replyActs replyBs replyTarget inflTarget
  simp only [List.length_nil, List.replicate, exec, act, List.nil_append]
  cases cur with
  | none =>
    cases infl with
    | none => simp [stepThread, Sys.setPc]
    | some b =>
      by_cases hm : id ∈ (bs b).pending
      · by_cases h1 : (bs b).hasConn <;> by_cases h2 : (bs b).closed <;> by_cases h3 : (bs b).st.fwdOk <;>
          by_cases hj : j = b <;>
          simp [stepThread, Sys.setPc, Sys.setB, consumeStep, lruConsume_eq, hm, h1, h2, h3, hj, answered, connOkB]
      · simp [stepThread, Sys.setPc, consumeStep, lruConsume_eq, hm]
  | some c =>
    by_cases hc : id ∈ (bs c).pending
    · by_cases h1 : (bs c).hasConn <;> by_cases h2 : (bs c).closed <;> by_cases h3 : (bs c).st.fwdOk <;>
          by_cases hj : j = c <;>
          simp [stepThread, Sys.setPc, Sys.setB, consumeStep, lruConsume_eq, hc, h1, h2, h3, hj, answered, connOkB]
    · cases infl with
      | none => simp [stepThread, Sys.setPc, consumeStep, lruConsume_eq, hc]
      | some b =>
        by_cases hm : id ∈ (bs b).pending
        · by_cases h1 : (bs b).hasConn <;> by_cases h2 : (bs b).closed <;> by_cases h3 : (bs b).st.fwdOk <;>
            by_cases hj : j = b <;>
            simp [stepThread, Sys.setPc, Sys.setB, consumeStep, lruConsume_eq, hc, hm, h1, h2, h3, hj, answered, connOkB]
        · simp [stepThread, Sys.setPc, consumeStep, lruConsume_eq, hc, hm]

theorem exec_records (b : Nat) : ∀ (ids : List Int) (s : Sys),
    ((exec s (ids.map (Act.record b))).bs b).pending = ids.foldl (lruSet cap) (s.bs b).pending
  | [], _ => rfl
  | k :: ids, s => by
    rw [List.map_cons, exec, exec_records b ids, List.foldl_cons]
    congr 1
    show (if b = b then _ else s.bs b).pending = _
    rw [if_pos rfl]

end Gate.C18
