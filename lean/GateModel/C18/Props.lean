import GateModel.C18.Lemmas
/-
C18 — Keep-alive replies reach only the backend that asked, once.

Property theorems only.  `exec s acts` runs an ARBITRARY list of atomic actions: backend keep-alive
records on any backend, any number of concurrently handled client replies advancing one atomic step
at a time (thread ids are free), and environment changes (server switches, protocol-state changes,
closes).  Theorems quantified over `acts` therefore hold for every interleaving, every history, any
number of pending ids and repeated ids.  `Fresh s` is a system where nothing has been recorded or is
being handled yet (what `newServerConnection` creates); backends' connection fields are arbitrary.

History vocabulary (`s.log`, newest first): `recd b i` backend b asked with id i; `cons b i` a reply
consumed b's pending i (the Get+Delete critical section); `fwd b i` a reply was written to b.
`unanswered h b i`: in history h, b asked with i and no reply has consumed that since.
-/
namespace Gate.C18.Props
open Gate Gate.C18

/-! ### only the backend that asked, only while unanswered -/

/-- Every consume — the only way to a forward — took an id that the *same* backend had sent and that
    no earlier reply had consumed, at that very moment of the history; for all interleavings. -/
theorem consumed_only_if_unanswered (s : Sys) (hs : Fresh s) (acts : List Act) :
    ValidC (exec s acts).log :=
  (inv_exec acts (inv_of_fresh hs)).valid

/-- What the LRU holds is always backed by an unanswered keep-alive of that backend (it may hold
    fewer: eviction only drops). -/
theorem pending_is_unanswered (s : Sys) (hs : Fresh s) (acts : List Act) (b : Nat) (i : Int)
    (h : i ∈ ((exec s acts).bs b).pending) : unanswered (exec s acts).log b i = true :=
  (inv_exec acts (inv_of_fresh hs)).pend b i h

/-- At most once, under any concurrency: per backend and id, forwards (plus replies still holding a
    consumed ping) never exceed consumes, and consumes never exceed the backend's keep-alives with that
    id — with one in reserve while the latest is still unanswered. -/
theorem at_most_once (s : Sys) (hs : Fresh s) (acts : List Act) (b : Nat) (i : Int) :
    let r := exec s acts
    holders r.ths b i + nfwd r.log b i ≤ ncons r.log b i ∧
    ncons r.log b i + (if unanswered r.log b i = true then 1 else 0) ≤ nrec r.log b i := by
  have hinv := inv_exec acts (inv_of_fresh hs)
  exact ⟨hinv.tok b i, ncons_le_nrec _ b i hinv.valid⟩

/-- Corollary in the property's words: the number of replies with id `i` written to backend `b`
    is at most the number of keep-alives with id `i` that `b` sent. -/
theorem forwards_le_requests (s : Sys) (hs : Fresh s) (acts : List Act) (b : Nat) (i : Int) :
    nfwd (exec s acts).log b i ≤ nrec (exec s acts).log b i := by
  have h := at_most_once s hs acts b i
  simp only at h
  omega

/-- A backend that never sent id `i` never receives a reply with id `i`. -/
theorem never_asked_never_forwarded (s : Sys) (hs : Fresh s) (acts : List Act) (b : Nat) (i : Int)
    (h : nrec (exec s acts).log b i = 0) : nfwd (exec s acts).log b i = 0 := by
  have := forwards_le_requests s hs acts b i
  omega

/-! ### the state gate -/

/-- While the environment leaves the backends' connections alone (no nil-ing, closing or protocol
    state change — everything else still interleaves freely), every forward in the history went to a
    backend whose connection is present, open and in CONFIG or PLAY. -/
theorem state_gate_quiescent (s : Sys) (hs : Fresh s) (acts : List Act) (hq : ∀ a ∈ acts, a.quiet = true)
    (b : Nat) (i : Int) (h : Ev.fwd b i ∈ (exec s acts).log) : connOk (s.bs b) := by
  have hg : GateInv s := ⟨(by rw [hs.ths]; intro _ hm; cases hm), (by rw [hs.log]; intro _ _ hm; cases hm)⟩
  have h1 := (gate_exec acts hq hg).log b i h
  obtain ⟨e1, e2, e3⟩ := sameConn_exec acts s hq b
  unfold connOk at *
  rw [← e1, ← e2, ← e3]; exact h1

/-- With arbitrary environment interference the check is inherently check-then-act; what holds
    locally: the only step that takes a handler thread to `write b` is the one that reads
    `State() ∈ {CONFIG, PLAY}`, from `readState b` — itself reached only through `readClosed b`
    (not closed) and `readConn b` (connection present); see `thOk` / `GateInv` in Lemmas. -/
theorem write_only_after_state_check (s : Sys) (t : Nat) (th0 th : Thread) (b : Nat)
    (h0 : s.ths[t]? = some th0) (hne : th0.pc ≠ .write b)
    (h : (stepThread s t).ths[t]? = some th) (hw : th.pc = .write b) :
    th0.pc = .readState b ∧ (s.bs b).st.fwdOk = true := by
  have hlt : t < s.ths.length := (List.getElem?_eq_some_iff.mp h0).1
  have hset : ∀ (l : List Thread) (x : Thread), l.length = s.ths.length → (l.set t x)[t]? = some x := by
    intro l x hl; rw [List.getElem?_set]; simp [hl, hlt]
  unfold stepThread at h
  rw [h0] at h
  simp only at h
  cases hpc : th0.pc <;> rw [hpc] at h <;> simp only at h
  case done => rw [h0] at h; injection h with h; rw [← h, hpc] at hw; cases hw
  case start =>
    split at h <;> (simp only [Sys.setPc, hset _ _ rfl] at h; injection h with h; rw [← h] at hw; cases hw)
  case readInfl =>
    split at h <;> (simp only [Sys.setPc, hset _ _ rfl] at h; injection h with h; rw [← h] at hw; cases hw)
  case consume1 b' =>
    unfold consumeStep at h; simp only [lruConsume_eq] at h
    split at h <;> (simp only [Sys.setPc, Sys.setB, hset _ _ rfl] at h; injection h with h; rw [← h] at hw; cases hw)
  case consume2 b' =>
    unfold consumeStep at h; simp only [lruConsume_eq] at h
    split at h <;> (simp only [Sys.setPc, Sys.setB, hset _ _ rfl] at h; injection h with h; rw [← h] at hw; cases hw)
  case readConn b' =>
    split at h <;> (simp only [Sys.setPc, hset _ _ rfl] at h; injection h with h; rw [← h] at hw; cases hw)
  case readClosed b' =>
    split at h <;> (simp only [Sys.setPc, hset _ _ rfl] at h; injection h with h; rw [← h] at hw; cases hw)
  case readState b' =>
    split at h
    · rename_i hok
      simp only [Sys.setPc, hset _ _ rfl] at h
      injection h with h; rw [← h] at hw; injection hw with hw; subst hw
      exact ⟨rfl, hok⟩
    · simp only [Sys.setPc, hset _ _ rfl] at h
      injection h with h; rw [← h] at hw; cases hw
  case write b' =>
    simp only [Sys.setPc, Sys.setB, hset _ _ rfl] at h
    injection h with h; rw [← h] at hw; cases hw

/-! ### one reply, handled without interference: exact routing -/

/-- `forwardKeepAlive(id)` run to completion = `replyBs`: the current backend if `id` is pending there,
    else the in-flight backend if pending there, else nothing; the chosen backend's pending id is
    consumed, and the packet is written iff its connection is present, open and in CONFIG/PLAY;
    every other backend (and every other field) is untouched. -/
theorem reply_exact (s : Sys) (id : Int) (j : Nat) (hths : s.ths = []) :
    (reply s id).bs j = replyBs s id j := reply_bs s id j hths

/-- Replies matching no pending id (neither on the current nor on the in-flight backend) are dropped:
    no backend changes at all. -/
theorem unknown_dropped (s : Sys) (id : Int) (hths : s.ths = [])
    (hcur : ∀ b, s.cur = some b → id ∉ (s.bs b).pending)
    (hinfl : ∀ b, s.infl = some b → id ∉ (s.bs b).pending) (j : Nat) :
    (reply s id).bs j = s.bs j := by
  rw [reply_bs s id j hths]
  unfold replyBs replyTarget inflTarget
  cases hc : s.cur with
  | none =>
    cases hi : s.infl with
    | none => rfl
    | some b => simp [hinfl b hi]
  | some c =>
    cases hi : s.infl with
    | none => simp [hcur c hc]
    | some b => simp [hcur c hc, hinfl b hi]

/-- A reply changes what was written to backend `j` only by appending exactly this id, and only if `j`
    is the current or in-flight backend, `id` was pending on `j`, and `j`'s connection passes the gate. -/
theorem written_only_to_asker (s : Sys) (id : Int) (j : Nat) (hths : s.ths = []) :
    ((reply s id).bs j).written = (s.bs j).written ∨
    (((reply s id).bs j).written = (s.bs j).written ++ [id] ∧ id ∈ (s.bs j).pending ∧
      connOkB (s.bs j) = true ∧ (s.cur = some j ∨ s.infl = some j)) := by
  rw [reply_bs s id j hths]
  unfold replyBs replyTarget inflTarget
  cases hc : s.cur with
  | none =>
    cases hi : s.infl with
    | none => exact .inl rfl
    | some b =>
      simp only
      by_cases hm : id ∈ (s.bs b).pending
      · rw [if_pos hm]; simp only
        by_cases hj : j = b
        · subst hj; rw [if_pos rfl]; unfold answered
          by_cases hk : connOkB (s.bs j) = true
          · rw [if_pos hk]; exact .inr ⟨rfl, hm, hk, .inr rfl⟩
          · rw [if_neg hk]; exact .inl rfl
        · rw [if_neg hj]; exact .inl rfl
      · rw [if_neg hm]; exact .inl rfl
  | some c =>
    simp only
    by_cases hmc : id ∈ (s.bs c).pending
    · rw [if_pos hmc]; simp only
      by_cases hj : j = c
      · subst hj; rw [if_pos rfl]; unfold answered
        by_cases hk : connOkB (s.bs j) = true
        · rw [if_pos hk]; exact .inr ⟨rfl, hmc, hk, .inl rfl⟩
        · rw [if_neg hk]; exact .inl rfl
      · rw [if_neg hj]; exact .inl rfl
    · rw [if_neg hmc]
      cases hi : s.infl with
      | none => exact .inl rfl
      | some b =>
        simp only
        by_cases hm : id ∈ (s.bs b).pending
        · rw [if_pos hm]; simp only
          by_cases hj : j = b
          · subst hj; rw [if_pos rfl]; unfold answered
            by_cases hk : connOkB (s.bs j) = true
            · rw [if_pos hk]; exact .inr ⟨rfl, hm, hk, .inr rfl⟩
            · rw [if_neg hk]; exact .inl rfl
          · rw [if_neg hj]; exact .inl rfl
        · rw [if_neg hm]; exact .inl rfl

/-! ### the pending-ping LRU -/

/-- bounded and duplicate-free in every reachable state -/
theorem pending_bounded (s : Sys) (hs : Fresh s) (acts : List Act) (b : Nat) :
    ((exec s acts).bs b).pending.length ≤ cap ∧ ((exec s acts).bs b).pending.Nodup :=
  ⟨(inv_exec acts (inv_of_fresh hs)).len b, (inv_exec acts (inv_of_fresh hs)).nodup b⟩

/-- a full LRU evicts exactly its oldest entry when a new id arrives -/
theorem full_lru_evicts_oldest (l : Lru) (k : Int) (hk : k ∉ l) (hfull : l.length = cap) :
    lruSet cap l k = k :: l.dropLast := by
  have hpos : 0 < cap := by decide
  unfold lruSet
  rw [if_neg hk, if_pos (by simp only [List.length_cons]; omega)]
  cases l with
  | nil => simp at hfull; omega
  | cons a l => rfl

/-- a burst of distinct keep-alives from one backend with no reply in between leaves exactly the
    `cap` newest pending (newest first): with more than `cap` outstanding the oldest are forgotten -/
theorem pending_after_burst (s : Sys) (b : Nat) (ids : List Int) (hb : (s.bs b).pending = [])
    (hn : ids.Nodup) :
    ((exec s (ids.map (Act.record b))).bs b).pending = ids.reverse.take cap := by
  rw [exec_records, hb, foldl_lruSet_fresh cap ids [] (Nat.zero_le _) (by simpa using hn)]
  simp

/-- …so the reply to an evicted id finds nothing and is dropped, not mis-routed. -/
theorem evicted_reply_dropped (s : Sys) (b : Nat) (ids : List Int) (k : Int)
    (hb : (s.bs b).pending = []) (hn : ids.Nodup)
    (hk : k ∈ ids.take (ids.length - cap)) :
    k ∉ ((exec s (ids.map (Act.record b))).bs b).pending := by
  rw [pending_after_burst s b ids hb hn]
  intro hm
  rw [List.take_reverse, List.mem_reverse] at hm
  have hsplit : (ids.take (ids.length - cap) ++ ids.drop (ids.length - cap)).Nodup := by
    rw [List.take_append_drop]; exact hn
  exact (List.nodup_append.mp hsplit).2.2 k hk k hm rfl

/-! ### tie to the source (regenerated by tools/gofacts on every run) -/

/-- a function body is one critical section of `serverConn.mu`: Lock first, Unlock only deferred -/
def oneSection (cs : List String) : Bool :=
  cs.head? == some "serverConn.mu.Lock" && cs[1]? == some "defer:serverConn.mu.Unlock" &&
  !cs.contains "serverConn.mu.Unlock" && cs.count "serverConn.mu.Lock" == 1
/-- `a` occurs in `cs`, before the first `b`, and `b` occurs -/
def before (a b : String) (cs : List String) : Bool := cs.idxOf a < cs.idxOf b && cs.idxOf b < cs.length

open Gate.Gen.C18 in
/-- `consumePendingKeepAlive` does Get and Delete inside ONE critical section (the atomic `consume`
    step of the model); `recordBackendKeepAlive` does Set inside one. -/
theorem src_consume_and_record_atomic :
    oneSection consumeCalls ∧ before "serverConn.pendingPings.Get" "serverConn.pendingPings.Delete" consumeCalls ∧
    oneSection recordCalls ∧ "serverConn.pendingPings.Set" ∈ recordCalls := by decide

open Gate.Gen.C18 in
/-- `sendKeepAliveToBackend`: consume → conn() → Closed → State → a single WritePacket; and
    `forwardKeepAlive`: current backend first, in-flight second. -/
theorem src_send_and_forward_order :
    before "consumePendingKeepAlive" "serverConn.conn" sendCalls ∧ before "serverConn.conn" "netmc.Closed" sendCalls ∧
    before "netmc.Closed" "serverMc.State" sendCalls ∧ before "serverMc.State" "serverMc.WritePacket" sendCalls ∧
    sendCalls.count "serverMc.WritePacket" = 1 ∧ sendCalls.count "consumePendingKeepAlive" = 1 ∧
    forwardCalls = ["player.connectedServer", "sendKeepAliveToBackend", "player.connectionInFlight", "sendKeepAliveToBackend"] := by
  decide

open Gate.Gen.C18 in
/-- every session handler routes keep-alives through these functions; the LRU is built with the capacity option -/
theorem src_handlers_use_the_mechanism :
    clientPlayKA = ["forwardKeepAlive"] ∧ "forwardKeepAlive" ∈ clientConfigHandlePacket ∧
    backendPlayKA.head? = some "recordBackendKeepAlive" ∧ backendConfigKA.head? = some "recordBackendKeepAlive" ∧
    backendTransKA.head? = some "recordBackendKeepAlive" ∧
    before "lru.WithCapacity" "lru.NewSync[]" newServerConnCalls := by decide

theorem src_capacity_positive : 0 < cap := by decide

/-! ### non-vacuity -/

example : Fresh ({} : Sys) := ⟨fun _ => rfl, rfl, rfl⟩
/-- a reply to a pending id on the current backend in PLAY is forwarded there, exactly once -/
example : let s := exec {} [.setCur (some 0), .record 0 7]
    ((reply s.gc 7).bs 0).written = [7] ∧ ((reply (reply s.gc 7).gc 7).bs 0).written = [7] := by decide
/-- same id pending on current and in-flight: first reply goes to current, second to in-flight -/
example : let s := exec {} [.setCur (some 0), .setInfl (some 1), .setState 1 .config, .record 0 7, .record 1 7]
    ((reply s.gc 7).bs 0).written = [7] ∧ ((reply s.gc 7).bs 1).written = [] ∧
    ((reply (reply s.gc 7).gc 7).bs 1).written = [7] := by decide
/-- the gate: a backend in LOGIN consumes the ping but gets nothing written -/
example : let s := exec {} [.setCur (some 0), .setState 0 .login, .record 0 7]
    ((reply s.gc 7).bs 0).written = [] ∧ ((reply s.gc 7).bs 0).pending = [] := by decide
/-- two replies racing step by step for one pending id: one forward -/
example : let s := exec {} [.setCur (some 0), .record 0 7, .spawn 7, .spawn 7,
      .step 0, .step 1, .step 0, .step 1, .step 0, .step 1, .step 0, .step 1, .step 0, .step 1,
      .step 0, .step 1, .step 0, .step 1, .step 0, .step 1]
    (s.bs 0).written = [7] := by decide
example : (Act.record 0 1).quiet = true ∧ (Act.step 3).quiet = true := ⟨rfl, rfl⟩

end Gate.C18.Props
