import GateModel.Gen.C18
/-
C18 — model of the keep-alive routing in pkg/edition/java/proxy/session_client_play.go
(`recordBackendKeepAlive`, `consumePendingKeepAlive`, `sendKeepAliveToBackend`, `forwardKeepAlive`)
and of the per-`serverConnection` pending-ping LRU (`github.com/dboslee/lru`, capacity
`pendingKeepAliveCapacity`, regenerated).

A *backend* is one `serverConnection` (index = identity).  The player holds two nil-able pointers to
backends: `cur` (`connectedServer_`) and `infl` (`connInFlight`).  The handling of one client keep-alive
reply is a *thread*: a list of atomic steps exactly as the source performs them —

  start        player.connectedServer()                    (read under player.mu)
  consume1 b   consumePendingKeepAlive(cur, id)            (Get+Delete in ONE critical section of b.mu)
  readInfl     player.connectionInFlight()
  consume2 b   consumePendingKeepAlive(inFlight, id)
  readConn b   serverConn.conn()  (nil?)
  readClosed b netmc.Closed(serverMc)
  readState b  serverMc.State() ∈ {Config, Play}?
  write b      serverMc.WritePacket(p)

Any number of such threads, the backend reader goroutines (`record`) and the environment (server
switches, state changes, closes) interleave arbitrarily: `exec` runs an arbitrary list of `Act`s.
The time stamps stored in the LRU only feed `player.ping` and are not modelled.
-/
namespace Gate.C18

/-- `state.Registry` of the backend connection; only `config` and `play` admit a forward. -/
inductive St where
  | handshake | status | login | config | play
  deriving DecidableEq, Repr, Inhabited

def St.fwdOk : St → Bool
  | .config | .play => true
  | _ => false

/-- LRU capacity, regenerated from `const pendingKeepAliveCapacity`. -/
def cap : Nat := Gate.Gen.C18.pendingKeepAliveCapacity.toNat

/-! ## the LRU (`lru.Cache`): keys in recency order, most recently used first -/

abbrev Lru := List Int

/-- `Cache.Set`: existing key → value replaced, moved to front; new key → pushed to the front and,
    if the list is now longer than the capacity, the back element is deleted. -/
def lruSet (c : Nat) (l : Lru) (k : Int) : Lru :=
  if k ∈ l then k :: l.erase k
  else if (k :: l).length > c then (k :: l).dropLast else k :: l

/-- `Cache.Get`: a hit moves the key to the front. -/
def lruGet (l : Lru) (k : Int) : Lru × Bool :=
  if k ∈ l then (k :: l.erase k, true) else (l, false)

/-- `Cache.Delete`. -/
def lruDelete (l : Lru) (k : Int) : Lru := l.erase k

/-- `consumePendingKeepAlive`: `Get`; on a hit `Delete` — both inside one `serverConn.mu` section. -/
def lruConsume (l : Lru) (k : Int) : Lru × Bool :=
  match lruGet l k with
  | (l', true) => (lruDelete l' k, true)
  | (l', false) => (l', false)

/-! ## backends, threads, system -/

structure Backend where
  pending : Lru := []
  hasConn : Bool := true      -- serverConnection.connection != nil
  closed  : Bool := false     -- netmc.Closed(connection)
  st      : St := .play       -- connection.State()
  written : List Int := []    -- keep-alive ids written to the backend connection, oldest first
  deriving Inhabited

inductive Pc where
  | start
  | consume1 (b : Nat)
  | readInfl
  | consume2 (b : Nat)
  | readConn (b : Nat)
  | readClosed (b : Nat)
  | readState (b : Nat)
  | write (b : Nat)
  | done
  deriving DecidableEq, Repr, Inhabited

/-- the thread has consumed a pending ping of backend `b` and not yet finished with it -/
def Pc.held : Pc → Option Nat
  | .readConn b | .readClosed b | .readState b | .write b => some b
  | _ => none

def Pc.holds (pc : Pc) (b : Nat) : Bool := pc.held == some b

structure Thread where
  id : Int
  pc : Pc
  deriving Inhabited

/-- history events (ghost state, newest first in `Sys.log`) -/
inductive Ev where
  | recd (b : Nat) (id : Int)   -- backend b's keep-alive was recorded
  | cons (b : Nat) (id : Int)   -- a reply consumed b's pending ping
  | fwd (b : Nat) (id : Int)    -- a reply was written to b
  deriving DecidableEq, Repr

structure Sys where
  bs   : Nat → Backend := fun _ => {}
  cur  : Option Nat := none
  infl : Option Nat := none
  ths  : List Thread := []
  log  : List Ev := []

def Sys.setB (s : Sys) (b : Nat) (x : Backend) : Sys :=
  { s with bs := fun j => if j = b then x else s.bs j }

def Sys.setPc (s : Sys) (t : Nat) (th : Thread) (pc : Pc) : Sys :=
  { s with ths := s.ths.set t { th with pc := pc } }

/-- one consume attempt of thread `t` (reply id `th.id`) on backend `b`; `miss` is the next pc on a miss -/
def consumeStep (s : Sys) (t : Nat) (th : Thread) (b : Nat) (miss : Pc) : Sys :=
  let B := s.bs b
  match lruConsume B.pending th.id with
  | (l', true) =>
    { (s.setB b { B with pending := l' }).setPc t th (.readConn b) with log := .cons b th.id :: s.log }
  | (_, false) => s.setPc t th miss

/-- next atomic step of thread `t` -/
def stepThread (s : Sys) (t : Nat) : Sys :=
  match s.ths[t]? with
  | none => s
  | some th =>
    match th.pc with
    | .done => s
    | .start => (match s.cur with
        | some b => s.setPc t th (.consume1 b)
        | none => s.setPc t th .readInfl)
    | .consume1 b => consumeStep s t th b .readInfl
    | .readInfl => (match s.infl with
        | some b => s.setPc t th (.consume2 b)
        | none => s.setPc t th .done)
    | .consume2 b => consumeStep s t th b .done
    | .readConn b => if (s.bs b).hasConn then s.setPc t th (.readClosed b) else s.setPc t th .done
    | .readClosed b => if (s.bs b).closed then s.setPc t th .done else s.setPc t th (.readState b)
    | .readState b => if (s.bs b).st.fwdOk then s.setPc t th (.write b) else s.setPc t th .done
    | .write b =>
      let B := s.bs b
      { (s.setB b { B with written := B.written ++ [th.id] }).setPc t th .done with
        log := .fwd b th.id :: s.log }

inductive Act where
  | record (b : Nat) (id : Int)      -- recordBackendKeepAlive(b, id) by b's reader goroutine
  | spawn (id : Int)                 -- a client keep-alive reply starts being handled (new thread)
  | spawnAt (id : Int) (pc : Pc)     -- sendKeepAliveToBackend called directly (harness entry point)
  | step (t : Nat)                   -- thread t performs its next atomic step
  | setCur (o : Option Nat)          -- connectedPlayer.setConnectedServer
  | setInfl (o : Option Nat)         -- connectedPlayer.setInFlightConnection
  | setState (b : Nat) (st : St)
  | setClosed (b : Nat) (c : Bool)
  | setConn (b : Nat) (c : Bool)

def act (s : Sys) : Act → Sys
  | .record b id =>
    let B := s.bs b
    { s.setB b { B with pending := lruSet cap B.pending id } with log := .recd b id :: s.log }
  | .spawn id => { s with ths := s.ths ++ [⟨id, .start⟩] }
  | .spawnAt id pc => if pc.held.isSome then s else { s with ths := s.ths ++ [⟨id, pc⟩] }
  | .step t => stepThread s t
  | .setCur o => { s with cur := o, infl := if o = s.infl then none else s.infl }
  | .setInfl o => { s with infl := o }
  | .setState b st => s.setB b { s.bs b with st := st }
  | .setClosed b c => s.setB b { s.bs b with closed := c }
  | .setConn b c => s.setB b { s.bs b with hasConn := c }

def exec (s : Sys) : List Act → Sys
  | [] => s
  | a :: as => exec (act s a) as

/-- a reply handled without interleaving: a fresh thread run to completion (8 steps is the longest path) -/
def replyActs (t : Nat) (id : Int) : List Act := .spawn id :: List.replicate 8 (.step t)

/-- `forwardKeepAlive(id)` executed atomically -/
def reply (s : Sys) (id : Int) : Sys := exec s (replyActs s.ths.length id)

/-- `sendKeepAliveToBackend(b, id)` executed atomically (`consume2`: a miss ends the thread) -/
def sendTo (s : Sys) (b : Nat) (id : Int) : Sys :=
  exec s (.spawnAt id (.consume2 b) :: List.replicate 5 (.step s.ths.length))

/-! ## what one reply does, as a function (proved equal to `reply` in Lemmas: `reply_bs`) -/

/-- the backend connection can take a forward: connection present, open, in CONFIG or PLAY -/
def connOkB (B : Backend) : Bool := B.hasConn && !B.closed && B.st.fwdOk

/-- in-flight fallback of `forwardKeepAlive` -/
def inflTarget (s : Sys) (id : Int) : Option Nat :=
  match s.infl with
  | some b => if id ∈ (s.bs b).pending then some b else none
  | none => none

/-- the backend whose pending ping a reply `id` consumes: current first, else in-flight -/
def replyTarget (s : Sys) (id : Int) : Option Nat :=
  match s.cur with
  | some b => if id ∈ (s.bs b).pending then some b else inflTarget s id
  | none => inflTarget s id

/-- backend after its pending ping `id` was answered: consumed always, written only if `connOkB` -/
def answered (B : Backend) (id : Int) : Backend :=
  { B with pending := B.pending.erase id, written := if connOkB B then B.written ++ [id] else B.written }

/-- backend `j` after `forwardKeepAlive(id)` ran to completion without interference -/
def replyBs (s : Sys) (id : Int) (j : Nat) : Backend :=
  match replyTarget s id with
  | none => s.bs j
  | some b => if j = b then answered (s.bs b) id else s.bs j

/-- drop finished threads (bookkeeping only; used by the driver between operations) -/
def Sys.gc (s : Sys) : Sys := { s with ths := [], log := [] }

end Gate.C18
