import GateModel.Base.Line
import GateModel.C03.Model
/-
C03 driver.  Case lines:  `<prim> <mode> <readerKind> <args…>\t<impl-output>`
  mode `w  <value>`            : model prints the bytes the writer produces (or `err <class>`)
  mode `rt <value> <resthex>`  : write, append rest, read back
  mode `pf <value> <k>`        : write, keep the first k bytes (k < length), read
  mode `r  <hex>`              : read arbitrary bytes
The reader kind (bytes.Reader / bytes.Buffer / plain io.Reader / one-byte reader) does not
change the model's answer: after the fix no primitive depends on it.
Spec verdict (on the implementation's output): `rt` of a well-formed value must give the value
back with exactly `rest` left; `pf` must be an error.
-/
namespace Gate.C03
open Gate

inductive Val where
  | int (i : Int) | nat (n : Nat) | bool (b : Bool) | bytes (b : Bytes)
  | props (ps : List Property) | strs (xs : List Bytes) | ints (xs : List Int) | key (k : Key)
  | b17 (ext : Bool) (b : Bytes)

def showProps (ps : List Property) : String :=
  if ps.isEmpty then "_" else
  ";".intercalate (ps.map fun p => toHex p.name ++ "," ++ toHex p.value ++ "," ++ toHex p.signature)
def showStrs (xs : List Bytes) : String := if xs.isEmpty then "_" else ",".intercalate (xs.map toHex)
def showInts (xs : List Int) : String := if xs.isEmpty then "_" else ",".intercalate (xs.map toString)

def Val.show : Val → String
  | .int i => toString i | .nat n => toString n | .bool b => if b then "1" else "0"
  | .bytes b => toHex b | .props ps => showProps ps | .strs xs => showStrs xs
  | .ints xs => showInts xs | .key k => toHex k.ns ++ ":" ++ toHex k.val
  | .b17 _ b => toHex b

def parseProps (s : String) : Option (List Property) :=
  if s = "_" then some [] else
  (s.splitOn ";").mapM fun e => match e.splitOn "," with
    | [a, b, c] => do pure ⟨← parseHex a, ← parseHex b, ← parseHex c⟩
    | _ => none
def parseStrs (s : String) : Option (List Bytes) :=
  if s = "_" then some [] else (s.splitOn ",").mapM parseHex
def parseInts (s : String) : Option (List Int) :=
  if s = "_" then some [] else (s.splitOn ",").mapM String.toInt?

/-- a primitive: parse value, writer (with its own acceptance), reader, domain on which the
    round-trip theorems apply -/
structure Prim where
  parse : List String → Option (Val × List String)
  write : Val → Except Err Bytes
  read  : List String → Bytes → Option (Rd Val)   -- extra reader args (max) come first in r-mode
  wf    : Val → Bool

def mapRd {α} (f : α → Val) : Rd α → Rd Val
  | .ok (a, r) => .ok (f a, r) | .error e => .error e

def intPrim (n : Nat) : Prim where
  parse | a :: r => do pure (.int (← a.toInt?), r) | _ => none
  write | .int i => .ok (writeInt n i) | _ => .error .other
  read _ bs := some (mapRd .int (readInt n bs))
  wf | .int i => decide (-(2 ^ (8 * n - 1) : Nat) ≤ i ∧ i < (2 ^ (8 * n - 1) : Nat)) | _ => false
def uintPrim (n : Nat) : Prim where
  parse | a :: r => do pure (.nat (← a.toNat?), r) | _ => none
  write | .nat v => .ok (writeUint n v) | _ => .error .other
  read _ bs := some (mapRd .nat (readUint n bs))
  wf | .nat v => decide (v < 256 ^ n) | _ => false
def bytesLike (wr : Bytes → Bytes) (rd : Bytes → Rd Bytes) (wf : Bytes → Bool) : Prim where
  parse | a :: r => do pure (.bytes (← parseHex a), r) | _ => none
  write | .bytes b => .ok (wr b) | _ => .error .other
  read _ bs := some (mapRd .bytes (rd bs))
  wf | .bytes b => wf b | _ => false

def prim : String → Option Prim
  | "varint" => some { parse := fun | a :: r => do pure (.int (← a.toInt?), r) | _ => none
                       write := fun | .int i => .ok (writeVarInt i) | _ => .error .other
                       read := fun _ bs => some (mapRd .int (readVarInt bs))
                       wf := fun | .int i => decide (-(2 ^ 31 : Nat) ≤ i ∧ i < (2 ^ 31 : Nat)) | _ => false }
  | "u8" => some (uintPrim 1) | "u16" => some (uintPrim 2) | "u32" => some (uintPrim 4) | "u64" => some (uintPrim 8)
  | "i8" => some (intPrim 1) | "i16" => some (intPrim 2) | "i32" => some (intPrim 4) | "i64" => some (intPrim 8)
  | "bool" => some { parse := fun | a :: r => some (.bool (a = "1"), r) | _ => none
                     write := fun | .bool b => .ok (writeBool b) | _ => .error .other
                     read := fun _ bs => some (mapRd .bool (readBool bs))
                     wf := fun _ => true }
  | "uuid" => some (bytesLike writeUUID readUUID (fun b => b.length = 16))
  | "uuidints" => some (bytesLike writeUUIDIntArray readUUIDIntArray (fun b => b.length = 16))
  | "string" => some (bytesLike writeBytes readString (fun b => b.length ≤ defaultMaxStringSize * 4))
  | "bytes" => some (bytesLike writeBytes readBytes (fun b => b.length ≤ defaultMaxStringSize))
  | "stringmax" => some { bytesLike writeBytes readString (fun _ => false) with
      read := fun | m :: _, bs => do pure (mapRd .bytes (readStringMax (← m.toNat?) bs)) | _, _ => none }
  | "byteslen" => some { bytesLike writeBytes readBytes (fun _ => false) with
      read := fun | m :: _, bs => do pure (mapRd .bytes (readBytesLen (← m.toNat?) bs)) | _, _ => none }
  | "utf" => some (bytesLike writeUTF readUTF (fun b => b.length < 65536))
  | "extshort" => some { parse := fun | a :: r => do pure (.nat (← a.toNat?), r) | _ => none
                         write := fun | .nat v => .ok (writeExtShort v) | _ => .error .other
                         read := fun _ bs => some (mapRd .nat (readExtShort bs))
                         wf := fun | .nat v => decide (v < 2 ^ 23) | _ => false }
  | "bytes17" => some { parse := fun | e :: a :: r => do pure (.b17 (e = "1") (← parseHex a), r) | _ => none
                        write := fun | .b17 e b => if writeBytes17Ok e b then .ok (writeBytes17 b) else .error .tooLong
                                     | _ => .error .other
                        read := fun _ bs => some (mapRd (.b17 true) (readBytes17 bs))
                        wf := fun | .b17 e b => writeBytes17Ok e b | _ => false }
  | "props" => some { parse := fun | a :: r => do pure (.props (← parseProps a), r) | _ => none
                      write := fun | .props ps => .ok (writeProperties ps) | _ => .error .other
                      read := fun _ bs => some (mapRd .props (readProperties bs))
                      wf := fun | .props ps => ps.all (fun p => p.name.length ≤ 262144 && p.value.length ≤ 262144 && p.signature.length ≤ 262144) | _ => false }
  | "strings" => some { parse := fun | a :: r => do pure (.strs (← parseStrs a), r) | _ => none
                        write := fun | .strs xs => .ok (writeStrings xs) | _ => .error .other
                        read := fun _ bs => some (mapRd .strs (readStringArray bs))
                        wf := fun | .strs xs => xs.all (fun x => x.length ≤ 262144) | _ => false }
  | "varints" => some { parse := fun | a :: r => do pure (.ints (← parseInts a), r) | _ => none
                        write := fun | .ints xs => .ok (writeVarIntArray xs) | _ => .error .other
                        read := fun _ bs => some (mapRd .ints (readVarIntArray bs))
                        wf := fun | .ints xs => xs.all (fun i => decide (-(2 ^ 31 : Nat) ≤ i ∧ i < (2 ^ 31 : Nat))) | _ => false }
  | "key" => some { parse := fun | a :: b :: r => do pure (.key ⟨← parseHex a, ← parseHex b⟩, r) | _ => none
                    write := fun | .key k => if keyValid k then .ok (writeKey k) else .error .invalid | _ => .error .other
                    read := fun _ bs => some (mapRd .key (readKey bs))
                    wf := fun | .key k => keyValid k && !k.ns.isEmpty && decide ((keyString k).length ≤ 262144) | _ => false }
  | _ => none

def showRd : Rd Val → String
  | .ok (v, rest) => "ok " ++ v.show ++ " rest=" ++ toString rest.length
  | .error e => "err " ++ e.toString

def step (c : Case) : String × String :=
  match prim c.op, c.args with
  | some p, mode :: _kind :: args =>
    match mode with
    | "w" => match p.parse args with
      | some (v, _) => (match p.write v with | .ok b => "ok " ++ toHex b | .error e => "err " ++ e.toString, "-")
      | none => ("bad-op", "-")
    | "rt" => match p.parse args with
      | some (v, [resthex]) => match parseHex resthex, p.write v with
        | some rest, .ok b => match p.read [] (b ++ rest) with
          | some res =>
            let want := "ok " ++ v.show ++ " rest=" ++ toString rest.length
            (showRd res, if p.wf v then (if c.impl = want then "ok" else "viol:roundtrip") else "-")
          | none => ("bad-op", "-")
        | some _, .error e => ("werr " ++ e.toString, "-")
        | _, _ => ("bad-op", "-")
      | _ => ("bad-op", "-")
    | "pf" => match p.parse args with
      | some (v, [ks]) => match ks.toNat?, p.write v with
        | some k, .ok b => match p.read [] (b.take k) with
          | some res =>
            (showRd res, if k < b.length then (if c.impl.startsWith "err" then "ok" else "viol:prefix-accepted") else "-")
          | none => ("bad-op", "-")
        | some _, .error e => ("werr " ++ e.toString, "-")
        | _, _ => ("bad-op", "-")
      | _ => ("bad-op", "-")
    | "r" =>
      let (extra, hx) := match args with | [m, h] => ([m], h) | [h] => ([], h) | _ => ([], "zz")
      match parseHex hx with
      | some bs => match p.read extra bs with
        | some res =>
          let verdict := match res with
            | .error .negative | .error .tooLong => if c.impl.startsWith "err" then "ok" else "viol:length-not-rejected"
            | _ => "-"
          (showRd res, verdict)
        | none => ("bad-op", "-")
      | none => ("bad-op", "-")
    | _ => ("bad-op", "-")
  | _, _ => ("bad-op", "-")

end Gate.C03

def main : IO Unit := Gate.runPureDriver Gate.C03.step
