import GateModel.Base.Bytes
import GateModel.Gen.C03
/-
C03 — model of pkg/edition/java/proto/util/{reader,writer}.go (primitive field codecs).

Every `readX`/`writeX` mirrors the Go function of the same name: same read primitive
(`readFull` ≙ io.ReadFull, `readByte` ≙ ByteReader.ReadByte), same order of checks, same
narrowing conversions.  Values: unsigned integers are `Nat`, signed are `Int`, strings and
byte arrays are `Bytes` (a Go string is a byte string), floats are their bit patterns.
-/
namespace Gate.C03

/-! ## integer conversions -/

/-- `uint32(val)` for a Go `int` -/
def toU (bits : Nat) (v : Int) : Nat := (v % (2 ^ bits : Nat)).toNat
/-- `int(intN(u))` for `u < 2^bits` -/
def ofU (bits : Nat) (u : Nat) : Int :=
  if u < 2 ^ (bits - 1) then (u : Int) else (u : Int) - (2 ^ bits : Nat)

/-! ## VarInt -/

/-- `WriteVarIntN` on `uval = uint32(val)`. Fuel 5 suffices for `u < 2^35`. -/
def writeVarU : Nat → Nat → Bytes
  | 0, u => [UInt8.ofNat (u % 128)]
  | fuel + 1, u =>
    if u < 128 then [UInt8.ofNat u]
    else UInt8.ofNat (u % 128 + 128) :: writeVarU fuel (u / 128)

def writeVarInt (v : Int) : Bytes := writeVarU 4 (toU 32 v)

/-- The loop of `ReadVarIntReturnN` (ByteReader path; the other path is equivalent):
    `i` = index of the byte being read, `acc` = `val` so far (kept below 2^32 like the `uint32`). -/
def readVarLoop : Nat → Nat → Nat → Bytes → Rd Nat
  | 0, _, _, _ => .error .tooBig               -- unreachable with fuel 6
  | _ + 1, _, _, [] => .error .eof
  | fuel + 1, i, acc, b :: rest =>
    let acc' := (acc + (b.toNat % 128) * 2 ^ (7 * i)) % 2 ^ 32
    if i ≥ 5 then .error .tooBig
    else if b.toNat < 128 then .ok (acc', rest)
    else readVarLoop fuel (i + 1) acc' rest

def readVarInt (bs : Bytes) : Rd Int :=
  match readVarLoop 6 0 0 bs with
  | .ok (u, r) => .ok (ofU 32 u, r)
  | .error e => .error e

/-! ## fixed width -/

def writeUint (n : Nat) (v : Nat) : Bytes := beBytes n v

/-- `ReadUintN`: after the fix all fixed-width readers use `io.ReadFull`. -/
def readUint (n : Nat) (bs : Bytes) : Rd Nat :=
  match readFull n bs with
  | .ok (b, r) => .ok (beNat b, r)
  | .error e => .error e

/-- The pre-fix reader (`rd.Read`): kept as the *defective variant* for `…_fails`. -/
def readUintShort (n : Nat) (bs : Bytes) : Rd Nat :=
  match readSome n bs with
  | .ok (b, r) => .ok (beNat b, r)
  | .error e => .error e

def writeInt (n : Nat) (v : Int) : Bytes := beBytes n (toU (8 * n) v)
def readInt (n : Nat) (bs : Bytes) : Rd Int :=
  match readUint n bs with
  | .ok (u, r) => .ok (ofU (8 * n) u, r)
  | .error e => .error e

def writeBool (b : Bool) : Bytes := [if b then 1 else 0]
def readBool (bs : Bytes) : Rd Bool :=
  match readByte bs with
  | .ok (b, r) => .ok (b != 0, r)
  | .error e => .error e

/-! ## UUID (16 raw bytes in both layouts) -/

def writeUUID (u : Bytes) : Bytes := u          -- two big-endian uint64 of u[:8], u[8:]
def readUUID (bs : Bytes) : Rd Bytes := readFull 16 bs

def writeUUIDIntArray (u : Bytes) : Bytes := u   -- four big-endian uint32
def readUUIDIntArray (bs : Bytes) : Rd Bytes :=
  match readFull 4 bs with
  | .error e => .error e
  | .ok (a, r1) => match readFull 4 r1 with
    | .error e => .error e
    | .ok (b, r2) => match readFull 4 r2 with
      | .error e => .error e
      | .ok (c, r3) => match readFull 4 r3 with
        | .error e => .error e
        | .ok (d, r4) => .ok (a ++ b ++ c ++ d, r4)

/-! ## length-prefixed byte strings -/

def writeBytes (b : Bytes) : Bytes := writeVarInt b.length ++ b

/-- `readStringMax` / `ReadBytesLen` share this shape; `cap` is `max*4` resp. `maxLength`. -/
def readLenPrefixed (cap : Nat) (bs : Bytes) : Rd Bytes :=
  match readVarInt bs with
  | .error e => .error e
  | .ok (len, r) =>
    if len < 0 then .error .negative
    else if len > cap then .error .tooLong
    else readFull len.toNat r

/-- regenerated from util/reader.go on every run -/
def defaultMaxStringSize : Nat := Gate.Gen.C03.defaultMaxStringSize.toNat

def readStringMax (max : Nat) (bs : Bytes) : Rd Bytes := readLenPrefixed (max * 4) bs
def readString (bs : Bytes) : Rd Bytes := readStringMax defaultMaxStringSize bs
def readBytesLen (max : Nat) (bs : Bytes) : Rd Bytes := readLenPrefixed max bs
def readBytes (bs : Bytes) : Rd Bytes := readBytesLen defaultMaxStringSize bs

/-! ## 1.7 byte arrays -/

/-- regenerated from util/reader.go on every run (math.MaxInt32 & 0x1FFF9A) -/
def forgeMaxArrayLength : Nat := Gate.Gen.C03.forgeMaxArrayLength.toNat

/-- `WriteExtendedForgeShort`: a 2-byte short, plus a third byte when `toWrite ≥ 2^15`. -/
def writeExtShort (n : Nat) : Bytes :=
  let low := n % 32768
  let high := (n / 32768) % 256
  if high ≠ 0 then beBytes 2 (low + 32768) ++ [UInt8.ofNat high] else beBytes 2 low

def readExtShort (bs : Bytes) : Rd Nat :=
  match readUint 2 bs with
  | .error e => .error e
  | .ok (low, r) =>
    if low ≥ 32768 then
      match readByte r with
      | .error e => .error e
      | .ok (h, r') => .ok (h.toNat * 32768 + (low - 32768), r')
    else .ok (low, r)

/-- the pre-fix one-byte variant (defective; for the `…_fails` witnesses) -/
def writeExtShortOneByte (n : Nat) : Bytes :=
  let low := n % 32768
  let high := (n / 32768) % 256
  let lowb := UInt8.ofNat (if high ≠ 0 then low + 32768 else low)
  if high ≠ 0 then [lowb, UInt8.ofNat high] else [lowb]
def readExtShortOneByte (bs : Bytes) : Rd Nat :=
  match readByte bs with
  | .error e => .error e
  | .ok (b, r) => .ok (b.toNat, r)      -- `low & 0x8000` is always 0 for a byte

def writeBytes17 (b : Bytes) : Bytes := writeExtShort b.length ++ b
def writeBytes17Ok (allowExtended : Bool) (b : Bytes) : Bool :=
  if allowExtended then b.length ≤ forgeMaxArrayLength else b.length ≤ 32767

def readBytes17 (bs : Bytes) : Rd Bytes :=
  match readExtShort bs with
  | .error e => .error e
  | .ok (len, r) =>
    if len > forgeMaxArrayLength then .error .tooLong
    else readFull len r

/-! ## UTF (Java DataOutput style) -/

def writeUTF (s : Bytes) : Bytes := beBytes 2 s.length ++ s
def readUTF (bs : Bytes) : Rd Bytes :=
  match readUint 2 bs with
  | .error e => .error e
  | .ok (len, r) => readFull len r

/-! ## profile properties -/

structure Property where
  name : Bytes
  value : Bytes
  signature : Bytes
  deriving DecidableEq, Repr

def writeProperty (p : Property) : Bytes :=
  writeBytes p.name ++ writeBytes p.value ++
    (if p.signature.length ≠ 0 then writeBool true ++ writeBytes p.signature else writeBool false)

def readProperty (bs : Bytes) : Rd Property :=
  match readString bs with
  | .error e => .error e
  | .ok (n, r1) => match readString r1 with
    | .error e => .error e
    | .ok (v, r2) => match readBool r2 with
      | .error e => .error e
      | .ok (false, r3) => .ok (⟨n, v, []⟩, r3)
      | .ok (true, r3) => match readString r3 with
        | .error e => .error e
        | .ok (s, r4) => .ok (⟨n, v, s⟩, r4)

/-- `for i := 0; i < size; i++ { read one }` — `size ≤ 0` reads nothing. -/
def readN {α} (rd : Bytes → Rd α) : Nat → Bytes → Rd (List α)
  | 0, bs => .ok ([], bs)
  | n + 1, bs => match rd bs with
    | .error e => .error e
    | .ok (x, r) => match readN rd n r with
      | .error e => .error e
      | .ok (xs, r') => .ok (x :: xs, r')

def writeList {α} (wr : α → Bytes) (xs : List α) : Bytes :=
  writeVarInt xs.length ++ (xs.map wr).flatten

def writeProperties (ps : List Property) : Bytes := writeList writeProperty ps

/-- arrays with the `length < 0` check (`ReadProperties`, `ReadStringArray`, `ReadVarIntArray`, `ReadIntArray`, `ReadKeyArray`) -/
def readArray {α} (rd : Bytes → Rd α) (bs : Bytes) : Rd (List α) :=
  match readVarInt bs with
  | .error e => .error e
  | .ok (n, r) => if n < 0 then .error .negative else readN rd n.toNat r

def readProperties (bs : Bytes) : Rd (List Property) := readArray readProperty bs

def writeStrings (xs : List Bytes) : Bytes := writeList writeBytes xs
def readStringArray (bs : Bytes) : Rd (List Bytes) := readArray readString bs
def writeVarIntArray (xs : List Int) : Bytes := writeList writeVarInt xs
def readVarIntArray (bs : Bytes) : Rd (List Int) := readArray readVarInt bs

/-! ## resource keys -/

def nsCharOk (c : UInt8) : Bool :=
  c = 95 || c = 45 || c = 46 || (97 ≤ c && c ≤ 122) || (48 ≤ c && c ≤ 57)
def valCharOk (c : UInt8) : Bool := nsCharOk c || c = 47

structure Key where
  ns : Bytes
  val : Bytes
  deriving DecidableEq, Repr

def dotdot : Bytes := [46, 46]
def minecraftNs : Bytes := [109, 105, 110, 101, 99, 114, 97, 102, 116]  -- "minecraft"

/-- `ValidateKey` -/
def keyValid (k : Key) : Bool := k.ns ≠ dotdot && k.ns.all nsCharOk && k.val.all valCharOk

def keyString (k : Key) : Bytes := k.ns ++ [58] ++ k.val

/-- `strings.IndexByte(str, ':')` as a split: bytes before and after the first colon. -/
def splitColon : Bytes → Option (Bytes × Bytes)
  | [] => none
  | b :: r =>
    if b = 58 then some ([], r)
    else match splitColon r with
      | none => none
      | some (p, q) => some (b :: p, q)

/-- `parseIdentifierKey`: split at the first ':'; an empty namespace means `minecraft`. -/
def parseKey (s : Bytes) : Key :=
  match splitColon s with
  | none => ⟨minecraftNs, s⟩
  | some (pre, post) => if pre.isEmpty then ⟨minecraftNs, post⟩ else ⟨pre, post⟩

def writeKey (k : Key) : Bytes := writeBytes (keyString k)
def readKey (bs : Bytes) : Rd Key :=
  match readString bs with
  | .error e => .error e
  | .ok (s, r) => let k := parseKey s; if keyValid k then .ok (k, r) else .error .invalid

end Gate.C03
