import GateModel.C03.Model
namespace Gate.C03
open Gate

/-! ## codec laws -/

/-- round trip, consuming exactly the bytes written -/
def RT {α} (enc : α → Bytes) (dec : Bytes → Rd α) (wf : α → Prop) : Prop :=
  ∀ v rest, wf v → dec (enc v ++ rest) = .ok (v, rest)

/-- every strict prefix of an encoding is rejected -/
def PFX {α} (enc : α → Bytes) (dec : Bytes → Rd α) (wf : α → Prop) : Prop :=
  ∀ v k, wf v → k < (enc v).length → ∃ e, dec ((enc v).take k) = .error e

/-! ## readFull -/

theorem readFull_append (a rest : Bytes) : readFull a.length (a ++ rest) = .ok (a, rest) := by
  simp [readFull]

theorem readFull_take_lt (n k : Nat) (a : Bytes) (h : k < n) :
    readFull n (a.take k) = .error .eof := by
  simp [readFull]; omega

theorem readFull_short (n : Nat) (a : Bytes) (h : a.length < n) : readFull n a = .error .eof := by
  simp [readFull]; omega

/-! ## big endian -/

theorem beBytes_length (n v : Nat) : (beBytes n v).length = n := by
  induction n generalizing v with
  | zero => simp [beBytes]
  | succ n ih => simp [beBytes, ih]

theorem beNat_append_single (a : Bytes) (b : UInt8) : beNat (a ++ [b]) = beNat a * 256 + b.toNat := by
  simp [beNat, List.foldl_append]

theorem beNat_beBytes (n v : Nat) (h : v < 256 ^ n) : beNat (beBytes n v) = v := by
  induction n generalizing v with
  | zero => simp [beBytes, beNat] at *; omega
  | succ n ih =>
    have h1 : v / 256 < 256 ^ n := by
      rw [Nat.pow_succ] at h; exact Nat.div_lt_of_lt_mul (by omega)
    have hm : (UInt8.ofNat (v % 256)).toNat = v % 256 := by
      simp [UInt8.toNat_ofNat']
    rw [beBytes, beNat_append_single, ih _ h1, hm]
    omega

/-! ## VarInt -/

theorem u8_toNat_ofNat (x : Nat) : (UInt8.ofNat x).toNat = x % 256 := by
  simp [UInt8.toNat_ofNat']

/-- reading what `writeVarU` wrote, started in the middle of the loop -/
theorem readVarLoop_writeVarU (fuel i acc u : Nat) (rest : Bytes)
    (hi : i + fuel = 4) (hu : u * 2 ^ (7 * i) + acc < 2 ^ 32) (hacc : acc < 2 ^ (7 * i)) :
    readVarLoop (fuel + 2) i acc (writeVarU fuel u ++ rest) = .ok (acc + u * 2 ^ (7 * i), rest) := by
  induction fuel generalizing i acc u with
  | zero =>
    have hi4 : i = 4 := by omega
    subst hi4
    simp only [writeVarU, readVarLoop, List.cons_append, List.nil_append, u8_toNat_ofNat]
    have : u < 16 := by omega
    have e1 : u % 128 = u := by omega
    have e2 : u % 256 = u := by omega
    have e3 : (acc + u * 268435456) % 4294967296 = acc + u * 268435456 := by omega
    simp [e1, e2, e3]
    omega
  | succ f ih =>
    unfold writeVarU
    have hp : 0 < 2 ^ (7 * i) := Nat.pow_pos (by omega)
    have hi' : i ≤ 3 := by omega
    split
    · rename_i hlt
      simp only [readVarLoop, List.cons_append, List.nil_append, u8_toNat_ofNat]
      have e1 : u % 256 % 128 = u := by omega
      have e2 : u % 256 = u := by omega
      have hm : (acc + u * 2 ^ (7 * i)) % 2 ^ 32 = acc + u * 2 ^ (7 * i) := Nat.mod_eq_of_lt (by omega)
      have e3 : u % 128 = u := by omega
      have : ¬ i ≥ 5 := by omega
      simp [e2, e3, hm, this, hlt]
    · rename_i hge
      simp only [readVarLoop, List.cons_append, u8_toNat_ofNat]
      have e1 : (u % 128 + 128) % 256 % 128 = u % 128 := by omega
      have e2 : ¬ (u % 128 + 128) % 256 < 128 := by omega
      have hlow : u % 128 * 2 ^ (7 * i) + u / 128 * 2 ^ (7 * (i + 1)) = u * 2 ^ (7 * i) := by
        have : 2 ^ (7 * (i + 1)) = 128 * 2 ^ (7 * i) := by
          rw [show 7 * (i + 1) = 7 + 7 * i by omega, Nat.pow_add]
        rw [this, ← Nat.mul_assoc, ← Nat.add_mul]
        congr 1; omega
      have hle : acc + u % 128 * 2 ^ (7 * i) < 2 ^ 32 := by
        have : u % 128 * 2 ^ (7 * i) ≤ u * 2 ^ (7 * i) := Nat.mul_le_mul_right _ (Nat.mod_le _ _)
        omega
      have hm : (acc + u % 128 * 2 ^ (7 * i)) % 2 ^ 32 = acc + u % 128 * 2 ^ (7 * i) :=
        Nat.mod_eq_of_lt hle
      have : ¬ i ≥ 5 := by omega
      simp only [e1, e2, hm, this, if_false]
      rw [ih (i + 1) (acc + u % 128 * 2 ^ (7 * i)) (u / 128) (by omega)]
      · congr 2; omega
      · omega
      · have : 2 ^ (7 * (i + 1)) = 128 * 2 ^ (7 * i) := by
          rw [show 7 * (i + 1) = 7 + 7 * i by omega, Nat.pow_add]
        rw [this]
        have : u % 128 * 2 ^ (7 * i) ≤ 127 * 2 ^ (7 * i) := Nat.mul_le_mul_right _ (by omega)
        omega

theorem emod_nonneg_small (v M : Int) (h0 : 0 ≤ v) (h1 : v < M) : v % M = v :=
  Int.emod_eq_of_lt h0 h1

theorem emod_neg_small (v M : Int) (h0 : -M ≤ v) (h1 : v < 0) : v % M = v + M := by
  have : (v + M) % M = v % M := Int.add_emod_right v M
  rw [← this]
  exact Int.emod_eq_of_lt (by omega) (by omega)

theorem ofU_toU (bits : Nat) (hb : 0 < bits) (v : Int)
    (h1 : -(2 ^ (bits - 1) : Nat) ≤ v) (h2 : v < (2 ^ (bits - 1) : Nat)) : ofU bits (toU bits v) = v := by
  have hp : (2 ^ bits : Nat) = 2 * 2 ^ (bits - 1) := by
    cases bits with
    | zero => omega
    | succ n => simp [Nat.pow_succ]; omega
  unfold ofU toU
  generalize hP : (2 ^ (bits - 1) : Nat) = P at *
  rw [hp]
  have hPpos : 0 < P := by rw [← hP]; exact Nat.pow_pos (by omega)
  by_cases hv : 0 ≤ v
  · rw [emod_nonneg_small v _ hv (by omega)]
    split <;> omega
  · rw [emod_neg_small v _ (by omega) (by omega)]
    split <;> omega

theorem toU_lt (bits : Nat) (v : Int) : toU bits v < 2 ^ bits := by
  unfold toU
  have : 0 < (2 ^ bits : Nat) := Nat.pow_pos (by omega)
  omega

theorem readVarInt_writeVarInt (v : Int) (rest : Bytes)
    (h1 : -(2 ^ 31 : Nat) ≤ v) (h2 : v < (2 ^ 31 : Nat)) :
    readVarInt (writeVarInt v ++ rest) = .ok (v, rest) := by
  unfold readVarInt writeVarInt
  have hlt := toU_lt 32 v
  rw [readVarLoop_writeVarU 4 0 0 (toU 32 v) rest (by omega) (by simpa using hlt) (by simp)]
  simp only [Nat.mul_zero, Nat.pow_zero, Nat.mul_one, Nat.zero_add]
  rw [ofU_toU 32 (by omega) v h1 h2]

/-- a strict prefix of `writeVarU` consists of continuation bytes only -/
theorem writeVarU_take_cont (fuel u k : Nat) (hk : k < (writeVarU fuel u).length) :
    ∀ b ∈ (writeVarU fuel u).take k, 128 ≤ b.toNat := by
  induction fuel generalizing u k with
  | zero => simp [writeVarU] at hk; subst hk; simp
  | succ f ih =>
    unfold writeVarU at hk ⊢
    split
    · rename_i h; simp [h] at hk; subst hk; simp
    · rename_i h
      simp only [h, if_false, List.length_cons] at hk
      cases k with
      | zero => simp
      | succ k =>
        simp only [List.take_succ_cons, List.mem_cons]
        intro b hb
        rcases hb with rfl | hb
        · rw [u8_toNat_ofNat]; omega
        · exact ih (u / 128) k (by omega) b hb

theorem writeVarU_length_le (fuel u : Nat) : (writeVarU fuel u).length ≤ fuel + 1 := by
  induction fuel generalizing u with
  | zero => simp [writeVarU]
  | succ f ih => unfold writeVarU; split <;> simp; exact ih _

theorem readVarLoop_cont (fuel i acc : Nat) (pre : Bytes) (hall : ∀ b ∈ pre, 128 ≤ b.toNat)
    (hlen : i + pre.length ≤ 5) (hf : pre.length < fuel) :
    readVarLoop fuel i acc pre = .error .eof := by
  induction pre generalizing fuel i acc with
  | nil => cases fuel with
    | zero => omega
    | succ f => simp [readVarLoop]
  | cons b t ih =>
    cases fuel with
    | zero => simp at hf
    | succ f =>
      have hb := hall b (by simp)
      simp only [readVarLoop]
      have h5 : ¬ i ≥ 5 := by simp at hlen; omega
      have hb' : ¬ b.toNat < 128 := by omega
      simp only [h5, hb', if_false]
      exact ih f (i + 1) _ (fun x hx => hall x (by simp [hx])) (by simp at hlen; omega) (by simp at hf; omega)

theorem readVarInt_prefix (v : Int) (k : Nat) (hk : k < (writeVarInt v).length) :
    ∃ e, readVarInt ((writeVarInt v).take k) = .error e := by
  unfold readVarInt writeVarInt at *
  have hl := writeVarU_length_le 4 (toU 32 v)
  rw [readVarLoop_cont 6 0 0 _ (writeVarU_take_cont 4 _ k hk) (by simp; omega) (by simp; omega)]
  exact ⟨_, rfl⟩


/-! ## sequencing helper -/

theorem take_append_cases (a b : Bytes) (k : Nat) (hk : k < (a ++ b).length) :
    (k < a.length ∧ (a ++ b).take k = a.take k) ∨
    (∃ j, j < b.length ∧ (a ++ b).take k = a ++ b.take j) := by
  by_cases h : k < a.length
  · left; refine ⟨h, ?_⟩
    rw [List.take_append]; simp [show k - a.length = 0 by omega]
  · right; refine ⟨k - a.length, by simp at hk; omega, ?_⟩
    rw [List.take_append, List.take_of_length_le (by omega)]

/-! ## fixed width -/

theorem readUint_rt (n v : Nat) (rest : Bytes) (h : v < 256 ^ n) :
    readUint n (writeUint n v ++ rest) = .ok (v, rest) := by
  unfold readUint writeUint
  have := readFull_append (beBytes n v) rest
  rw [beBytes_length] at this
  rw [this]; simp [beNat_beBytes n v h]

theorem readUint_pfx (n v k : Nat) (hk : k < (writeUint n v).length) :
    ∃ e, readUint n ((writeUint n v).take k) = .error e := by
  unfold readUint writeUint at *
  rw [beBytes_length] at hk
  rw [readFull_take_lt n k _ hk]; exact ⟨_, rfl⟩

theorem readUint_short (n : Nat) (bs : Bytes) (h : bs.length < n) : readUint n bs = .error .eof := by
  unfold readUint; rw [readFull_short n bs h]

theorem readInt_rt (n : Nat) (hn : 0 < n) (v : Int) (rest : Bytes)
    (h1 : -(2 ^ (8 * n - 1) : Nat) ≤ v) (h2 : v < (2 ^ (8 * n - 1) : Nat)) :
    readInt n (writeInt n v ++ rest) = .ok (v, rest) := by
  unfold readInt writeInt
  have hlt : toU (8 * n) v < 256 ^ n := by
    have := toU_lt (8 * n) v
    rwa [show (256 : Nat) = 2 ^ 8 by rfl, ← Nat.pow_mul]
  have := readUint_rt n (toU (8 * n) v) rest hlt
  unfold writeUint at this
  rw [this]; simp [ofU_toU (8 * n) (by omega) v h1 h2]

theorem readInt_pfx (n : Nat) (v : Int) (k : Nat) (hk : k < (writeInt n v).length) :
    ∃ e, readInt n ((writeInt n v).take k) = .error e := by
  unfold readInt writeInt at *
  obtain ⟨e, he⟩ := readUint_pfx n (toU (8 * n) v) k hk
  unfold writeUint at he
  rw [he]; exact ⟨_, rfl⟩

theorem readBool_rt (b : Bool) (rest : Bytes) : readBool (writeBool b ++ rest) = .ok (b, rest) := by
  cases b <;> simp [readBool, writeBool, readByte]

theorem readBool_pfx (b : Bool) (k : Nat) (hk : k < (writeBool b).length) :
    ∃ e, readBool ((writeBool b).take k) = .error e := by
  simp [writeBool] at hk; subst hk; exact ⟨_, rfl⟩

/-! ## UUID -/

theorem readUUID_rt (u rest : Bytes) (h : u.length = 16) : readUUID (writeUUID u ++ rest) = .ok (u, rest) := by
  unfold readUUID writeUUID; rw [← h]; exact readFull_append u rest

theorem readUUID_pfx (u : Bytes) (k : Nat) (h : u.length = 16) (hk : k < (writeUUID u).length) :
    ∃ e, readUUID ((writeUUID u).take k) = .error e := by
  unfold readUUID writeUUID at *; rw [readFull_take_lt 16 k u (by omega)]; exact ⟨_, rfl⟩

theorem readUUIDIntArray_rt (u rest : Bytes) (h : u.length = 16) :
    readUUIDIntArray (writeUUIDIntArray u ++ rest) = .ok (u, rest) := by
  unfold readUUIDIntArray writeUUIDIntArray
  have e : ∀ (n : Nat) (bs : Bytes), n ≤ bs.length → readFull n bs = .ok (bs.take n, bs.drop n) := by
    intro n bs hn; simp [readFull, hn]
  rw [e 4 _ (by simp; omega)]; simp only
  rw [e 4 _ (by simp; omega)]; simp only
  rw [e 4 _ (by simp; omega)]; simp only
  rw [e 4 _ (by simp; omega)]; simp only
  simp only [List.drop_drop]
  generalize hl : u ++ rest = l
  have hlen : 16 ≤ l.length := by rw [← hl]; simp; omega
  have e16 : l.take 4 ++ (l.drop 4).take 4 ++ (l.drop (4+4)).take 4 ++ (l.drop (4+(4+4))).take 4 = l.take 16 := by
    rw [← List.take_add, ← List.take_add, ← List.take_add]
  rw [e16, ← hl]
  simp [h]

theorem readUUIDIntArray_pfx (u : Bytes) (k : Nat) (h : u.length = 16)
    (hk : k < (writeUUIDIntArray u).length) :
    ∃ e, readUUIDIntArray ((writeUUIDIntArray u).take k) = .error e := by
  unfold readUUIDIntArray writeUUIDIntArray at *
  have e : ∀ (n : Nat) (bs : Bytes), readFull n bs = if n ≤ bs.length then .ok (bs.take n, bs.drop n) else .error .eof := by
    intro n bs; rfl
  simp only [e, List.length_take]
  by_cases h1 : 4 ≤ min k u.length
  · rw [if_pos h1]; simp only [List.length_drop, List.length_take]
    by_cases h2 : 4 ≤ min k u.length - 4
    · rw [if_pos h2]; simp only [List.length_drop, List.length_take]
      by_cases h3 : 4 ≤ min k u.length - 4 - 4
      · rw [if_pos h3]; simp only [List.length_drop, List.length_take]
        have h4 : ¬ 4 ≤ min k u.length - 4 - 4 - 4 := by omega
        rw [if_neg h4]; exact ⟨_, rfl⟩
      · rw [if_neg h3]; exact ⟨_, rfl⟩
    · rw [if_neg h2]; exact ⟨_, rfl⟩
  · rw [if_neg h1]; exact ⟨_, rfl⟩

/-! ## length-prefixed -/

theorem writeVarInt_length_pos (v : Int) : 0 < (writeVarInt v).length := by
  unfold writeVarInt writeVarU; split <;> simp

theorem readLenPrefixed_rt (cap : Nat) (b rest : Bytes) (h : b.length ≤ cap) (h31 : b.length < 2 ^ 31) :
    readLenPrefixed cap (writeBytes b ++ rest) = .ok (b, rest) := by
  unfold readLenPrefixed writeBytes
  rw [List.append_assoc, readVarInt_writeVarInt _ _ (by omega) (by omega)]
  simp only
  have h0 : ¬ ((b.length : Int) < 0) := by omega
  have h1 : ¬ ((b.length : Int) > cap) := by omega
  simp only [h0, h1, if_false, Int.toNat_natCast]
  exact readFull_append b rest

theorem readLenPrefixed_pfx (cap : Nat) (b : Bytes) (k : Nat) (h31 : b.length < 2 ^ 31)
    (hk : k < (writeBytes b).length) :
    ∃ e, readLenPrefixed cap ((writeBytes b).take k) = .error e := by
  unfold readLenPrefixed writeBytes at *
  rcases take_append_cases _ _ k hk with ⟨h1, h2⟩ | ⟨j, hj, h2⟩
  · rw [h2]
    obtain ⟨e, he⟩ := readVarInt_prefix _ k h1
    rw [he]; exact ⟨_, rfl⟩
  · rw [h2, readVarInt_writeVarInt _ _ (by omega) (by omega)]
    simp only
    split
    · exact ⟨_, rfl⟩
    · split
      · exact ⟨_, rfl⟩
      · rw [Int.toNat_natCast, readFull_take_lt _ _ _ hj]; exact ⟨_, rfl⟩

/-- negative or oversized length prefixes are rejected before anything is allocated or read -/
theorem readLenPrefixed_len_reject (cap : Nat) (bs r : Bytes) (len : Int)
    (h : readVarInt bs = .ok (len, r)) (hbad : len < 0 ∨ len > cap) :
    readLenPrefixed cap bs = .error .negative ∨ readLenPrefixed cap bs = .error .tooLong := by
  unfold readLenPrefixed; rw [h]; simp only
  by_cases h0 : len < 0
  · left; simp [h0]
  · right
    have : len > (cap : Int) := by omega
    simp [h0, this]

/-! ## extended short / 1.7 arrays -/

theorem readExtShort_rt (n : Nat) (rest : Bytes) (h : n < 2 ^ 23) :
    readExtShort (writeExtShort n ++ rest) = .ok (n, rest) := by
  unfold readExtShort writeExtShort
  simp only
  by_cases hh : n / 32768 % 256 ≠ 0
  · rw [if_pos hh, List.append_assoc]
    have := readUint_rt 2 (n % 32768 + 32768) ([UInt8.ofNat (n / 32768 % 256)] ++ rest) (by omega)
    unfold writeUint at this
    rw [this]
    simp only [show n % 32768 + 32768 ≥ 32768 by omega, if_true, List.cons_append, List.nil_append, readByte,
      u8_toNat_ofNat]
    have e : n / 32768 % 256 % 256 * 32768 + (n % 32768 + 32768 - 32768) = n := by omega
    rw [e]
  · rw [if_neg hh]
    have := readUint_rt 2 (n % 32768) rest (by omega)
    unfold writeUint at this
    rw [this]
    have : ¬ n % 32768 ≥ 32768 := by omega
    simp only [this, if_false]
    have e : n % 32768 = n := by omega
    rw [e]

theorem readExtShort_pfx (n k : Nat) (hk : k < (writeExtShort n).length) :
    ∃ e, readExtShort ((writeExtShort n).take k) = .error e := by
  unfold readExtShort writeExtShort at *
  simp only at *
  by_cases hh : n / 32768 % 256 ≠ 0
  · rw [if_pos hh] at hk ⊢
    rcases take_append_cases _ _ k hk with ⟨h1, h2⟩ | ⟨j, hj, h2⟩
    · rw [h2]
      obtain ⟨e, he⟩ := readUint_pfx 2 (n % 32768 + 32768) k h1
      unfold writeUint at he; rw [he]; exact ⟨_, rfl⟩
    · rw [h2]
      have := readUint_rt 2 (n % 32768 + 32768) (List.take j [UInt8.ofNat (n / 32768 % 256)]) (by omega)
      unfold writeUint at this; rw [this]
      simp at hj; subst hj
      simp [readByte]
  · rw [if_neg hh] at hk ⊢
    obtain ⟨e, he⟩ := readUint_pfx 2 (n % 32768) k hk
    unfold writeUint at he; rw [he]; exact ⟨_, rfl⟩

theorem readBytes17_rt (b rest : Bytes) (h : b.length ≤ forgeMaxArrayLength) :
    readBytes17 (writeBytes17 b ++ rest) = .ok (b, rest) := by
  unfold readBytes17 writeBytes17
  have hf : forgeMaxArrayLength < 2 ^ 23 := by decide
  rw [List.append_assoc, readExtShort_rt _ _ (by omega)]
  simp only [show ¬ b.length > forgeMaxArrayLength by omega, if_false]
  exact readFull_append b rest

theorem readBytes17_pfx (b : Bytes) (k : Nat) (h : b.length ≤ forgeMaxArrayLength)
    (hk : k < (writeBytes17 b).length) : ∃ e, readBytes17 ((writeBytes17 b).take k) = .error e := by
  unfold readBytes17 writeBytes17 at *
  have hf : forgeMaxArrayLength < 2 ^ 23 := by decide
  rcases take_append_cases _ _ k hk with ⟨h1, h2⟩ | ⟨j, hj, h2⟩
  · rw [h2]
    obtain ⟨e, he⟩ := readExtShort_pfx _ k h1
    rw [he]; exact ⟨_, rfl⟩
  · rw [h2, readExtShort_rt _ _ (by omega)]
    simp only [show ¬ b.length > forgeMaxArrayLength by omega, if_false]
    rw [readFull_take_lt _ _ _ hj]; exact ⟨_, rfl⟩

/-! ## UTF -/

theorem readUTF_rt (s rest : Bytes) (h : s.length < 65536) : readUTF (writeUTF s ++ rest) = .ok (s, rest) := by
  unfold readUTF writeUTF
  have := readUint_rt 2 s.length (s ++ rest) (by omega)
  unfold writeUint at this
  rw [List.append_assoc, this]
  exact readFull_append s rest

theorem readUTF_pfx (s : Bytes) (k : Nat) (h : s.length < 65536) (hk : k < (writeUTF s).length) :
    ∃ e, readUTF ((writeUTF s).take k) = .error e := by
  unfold readUTF writeUTF at *
  rcases take_append_cases _ _ k hk with ⟨h1, h2⟩ | ⟨j, hj, h2⟩
  · rw [h2]
    obtain ⟨e, he⟩ := readUint_pfx 2 s.length k h1
    unfold writeUint at he; rw [he]; exact ⟨_, rfl⟩
  · rw [h2]
    have := readUint_rt 2 s.length (s.take j) (by omega)
    unfold writeUint at this; rw [this]
    simp only
    rw [readFull_take_lt _ _ _ hj]; exact ⟨_, rfl⟩


/-! ## lists -/

theorem readN_rt {α} (enc : α → Bytes) (dec : Bytes → Rd α) (wf : α → Prop) (h : RT enc dec wf)
    (xs : List α) (rest : Bytes) (hw : ∀ x ∈ xs, wf x) :
    readN dec xs.length ((xs.map enc).flatten ++ rest) = .ok (xs, rest) := by
  induction xs with
  | nil => simp [readN]
  | cons x t ih =>
    simp only [List.map_cons, List.flatten_cons, List.length_cons, readN, List.append_assoc]
    rw [h x _ (hw x (by simp))]
    simp only
    rw [ih (fun y hy => hw y (by simp [hy]))]

theorem readN_pfx {α} (enc : α → Bytes) (dec : Bytes → Rd α) (wf : α → Prop)
    (h : RT enc dec wf) (hp : PFX enc dec wf)
    (xs : List α) (k : Nat) (hw : ∀ x ∈ xs, wf x) (hk : k < ((xs.map enc).flatten).length) :
    ∃ e, readN dec xs.length (((xs.map enc).flatten).take k) = .error e := by
  induction xs generalizing k with
  | nil => simp at hk
  | cons x t ih =>
    simp only [List.map_cons, List.flatten_cons, List.length_cons, readN] at *
    rcases take_append_cases _ _ k hk with ⟨h1, h2⟩ | ⟨j, hj, h2⟩
    · rw [h2]
      obtain ⟨e, he⟩ := hp x k (hw x (by simp)) h1
      rw [he]; exact ⟨_, rfl⟩
    · rw [h2, h x _ (hw x (by simp))]
      simp only
      obtain ⟨e, he⟩ := ih j (fun y hy => hw y (by simp [hy])) hj
      rw [he]; exact ⟨_, rfl⟩

theorem readArray_rt {α} (enc : α → Bytes) (dec : Bytes → Rd α) (wf : α → Prop) (h : RT enc dec wf)
    (xs : List α) (rest : Bytes) (hw : ∀ x ∈ xs, wf x) (h31 : xs.length < 2 ^ 31) :
    readArray dec (writeList enc xs ++ rest) = .ok (xs, rest) := by
  unfold readArray writeList
  rw [List.append_assoc, readVarInt_writeVarInt _ _ (by omega) (by omega)]
  simp only [show ¬ ((xs.length : Int) < 0) by omega, if_false, Int.toNat_natCast]
  exact readN_rt enc dec wf h xs rest hw

theorem readArray_pfx {α} (enc : α → Bytes) (dec : Bytes → Rd α) (wf : α → Prop)
    (h : RT enc dec wf) (hp : PFX enc dec wf)
    (xs : List α) (k : Nat) (hw : ∀ x ∈ xs, wf x) (h31 : xs.length < 2 ^ 31)
    (hk : k < (writeList enc xs).length) :
    ∃ e, readArray dec ((writeList enc xs).take k) = .error e := by
  unfold readArray writeList at *
  rcases take_append_cases _ _ k hk with ⟨h1, h2⟩ | ⟨j, hj, h2⟩
  · rw [h2]
    obtain ⟨e, he⟩ := readVarInt_prefix _ k h1
    rw [he]; exact ⟨_, rfl⟩
  · rw [h2, readVarInt_writeVarInt _ _ (by omega) (by omega)]
    simp only [show ¬ ((xs.length : Int) < 0) by omega, if_false, Int.toNat_natCast]
    exact readN_pfx enc dec wf h hp xs j hw hj

theorem readArray_negative {α} (dec : Bytes → Rd α) (bs r : Bytes) (len : Int)
    (h : readVarInt bs = .ok (len, r)) (hneg : len < 0) : readArray dec bs = .error .negative := by
  unfold readArray; rw [h]; simp [hneg]

/-! ## strings as instances -/

def wfString (s : Bytes) : Prop := s.length ≤ defaultMaxStringSize * 4

theorem string_RT : RT writeBytes readString wfString := by
  intro v rest h
  have : defaultMaxStringSize * 4 < 2 ^ 31 := by decide
  exact readLenPrefixed_rt _ v rest h (by unfold wfString at h; omega)

theorem string_PFX : PFX writeBytes readString wfString := by
  intro v k h hk
  have : defaultMaxStringSize * 4 < 2 ^ 31 := by decide
  exact readLenPrefixed_pfx _ v k (by unfold wfString at h; omega) hk

def wfInt32 (v : Int) : Prop := -(2 ^ 31 : Nat) ≤ v ∧ v < (2 ^ 31 : Nat)

theorem varint_RT : RT writeVarInt readVarInt wfInt32 := fun v rest h => readVarInt_writeVarInt v rest h.1 h.2
theorem varint_PFX : PFX writeVarInt readVarInt wfInt32 := fun v k _ hk => readVarInt_prefix v k hk

/-! ## properties -/

def wfProperty (p : Property) : Prop := wfString p.name ∧ wfString p.value ∧ wfString p.signature

theorem property_RT : RT writeProperty readProperty wfProperty := by
  intro p rest ⟨h1, h2, h3⟩
  unfold writeProperty readProperty
  by_cases hs : p.signature.length ≠ 0
  · rw [if_pos hs]
    simp only [List.append_assoc]
    rw [string_RT _ _ h1]; simp only
    rw [string_RT _ _ h2]; simp only
    rw [readBool_rt]; simp only
    rw [string_RT _ _ h3]
  · rw [if_neg hs]
    simp only [List.append_assoc]
    rw [string_RT _ _ h1]; simp only
    rw [string_RT _ _ h2]; simp only
    rw [readBool_rt]; simp only
    have : p.signature = [] := by
      cases hsig : p.signature with
      | nil => rfl
      | cons a t => simp [hsig] at hs
    cases p; simp_all

theorem property_PFX : PFX writeProperty readProperty wfProperty := by
  intro p k ⟨h1, h2, h3⟩ hk
  unfold writeProperty readProperty at *
  rcases take_append_cases _ _ k hk with ⟨ha, hb⟩ | ⟨j, hj, hb⟩
  · rcases take_append_cases _ _ k ha with ⟨ha', hb'⟩ | ⟨j', hj', hb'⟩
    · rw [hb, hb']
      obtain ⟨e, he⟩ := string_PFX _ k h1 ha'
      rw [he]; exact ⟨_, rfl⟩
    · rw [hb, hb', string_RT _ _ h1]; simp only
      obtain ⟨e, he⟩ := string_PFX _ j' h2 hj'
      rw [he]; exact ⟨_, rfl⟩
  · rw [hb, List.append_assoc, string_RT _ _ h1]; simp only
    rw [string_RT _ _ h2]; simp only
    by_cases hs : p.signature.length ≠ 0
    · rw [if_pos hs] at hj ⊢
      rcases take_append_cases _ _ j hj with ⟨hc, hd⟩ | ⟨i, hi, hd⟩
      · rw [hd]
        obtain ⟨e, he⟩ := readBool_pfx true j hc
        rw [he]; exact ⟨_, rfl⟩
      · rw [hd, readBool_rt]; simp only
        obtain ⟨e, he⟩ := string_PFX _ i h3 hi
        rw [he]; exact ⟨_, rfl⟩
    · rw [if_neg hs] at hj ⊢
      obtain ⟨e, he⟩ := readBool_pfx false j hj
      rw [he]; exact ⟨_, rfl⟩

/-! ## keys -/

def wfKey (k : Key) : Prop := keyValid k = true ∧ k.ns ≠ [] ∧ wfString (keyString k)

theorem splitColon_ns (ns val : Bytes) (h : ns.all nsCharOk = true) :
    splitColon (ns ++ 58 :: val) = some (ns, val) := by
  induction ns with
  | nil => simp [splitColon]
  | cons a t ih =>
    simp only [List.all_cons, Bool.and_eq_true] at h
    have ha : a ≠ 58 := by
      intro hc; subst hc; exact absurd h.1 (by decide)
    simp only [List.cons_append, splitColon, ha, if_false]
    rw [ih h.2]

theorem parseKey_keyString (k : Key) (h : wfKey k) : parseKey (keyString k) = k := by
  obtain ⟨hv, hne, _⟩ := h
  unfold keyValid at hv
  simp only [Bool.and_eq_true] at hv
  unfold parseKey keyString
  rw [List.append_assoc, List.singleton_append, splitColon_ns k.ns k.val hv.1.2]
  simp only
  have : k.ns.isEmpty = false := by
    cases hk : k.ns with
    | nil => exact absurd hk hne
    | cons a t => rfl
  simp [this]

theorem key_RT : RT writeKey readKey wfKey := by
  intro k rest h
  unfold writeKey readKey
  rw [string_RT _ _ h.2.2]; simp only
  rw [parseKey_keyString k h, if_pos h.1]

theorem key_PFX : PFX writeKey readKey wfKey := by
  intro k j h hk
  unfold writeKey readKey at *
  obtain ⟨e, he⟩ := string_PFX _ j h.2.2 hk
  rw [he]; exact ⟨_, rfl⟩


end Gate.C03
