import GateModel.C03.Lemmas
/-
C03 — Primitive field codecs are exact inverses and reject truncated input.

Property theorems only (helper lemmas live in `Lemmas.lean`).  For each primitive `P`:
  * `P_roundtrip`  : the reader returns exactly the value written and leaves exactly `rest`
                     (so it consumed exactly the bytes written);
  * `P_prefix`     : every strict prefix of an encoding is an error (never a zero-padded value);
and for length-prefixed primitives
  * `…_len_reject` : a negative or oversized length prefix is an error decided before the
                     payload is touched (the model performs no `readFull`/allocation on that path).
`wf…` hypotheses are the explicit domains: the integer range of the Go type, the reader's own
maximum, the writer's own limit.
-/
namespace Gate.C03.Props
open Gate Gate.C03

/-! ### VarInt (all int32 values) -/
theorem varint_roundtrip (v : Int) (rest : Bytes) (h : wfInt32 v) :
    readVarInt (writeVarInt v ++ rest) = .ok (v, rest) := varint_RT v rest h
theorem varint_prefix (v : Int) (k : Nat) (hk : k < (writeVarInt v).length) :
    ∃ e, readVarInt ((writeVarInt v).take k) = .error e := readVarInt_prefix v k hk

/-! ### fixed width: uint8/16/32/64 (n = 1,2,4,8), float32/64 as bit patterns, signed via two's complement -/
theorem uint_roundtrip (n v : Nat) (rest : Bytes) (h : v < 256 ^ n) :
    readUint n (writeUint n v ++ rest) = .ok (v, rest) := readUint_rt n v rest h
theorem uint_prefix (n v k : Nat) (hk : k < (writeUint n v).length) :
    ∃ e, readUint n ((writeUint n v).take k) = .error e := readUint_pfx n v k hk
/-- stronger form: *any* input shorter than the width is rejected -/
theorem uint_short_input (n : Nat) (bs : Bytes) (h : bs.length < n) : readUint n bs = .error .eof :=
  readUint_short n bs h
theorem int_roundtrip (n : Nat) (hn : 0 < n) (v : Int) (rest : Bytes)
    (h1 : -(2 ^ (8 * n - 1) : Nat) ≤ v) (h2 : v < (2 ^ (8 * n - 1) : Nat)) :
    readInt n (writeInt n v ++ rest) = .ok (v, rest) := readInt_rt n hn v rest h1 h2
theorem int_prefix (n : Nat) (v : Int) (k : Nat) (hk : k < (writeInt n v).length) :
    ∃ e, readInt n ((writeInt n v).take k) = .error e := readInt_pfx n v k hk
theorem bool_roundtrip (b : Bool) (rest : Bytes) : readBool (writeBool b ++ rest) = .ok (b, rest) :=
  readBool_rt b rest
theorem bool_prefix (b : Bool) (k : Nat) (hk : k < (writeBool b).length) :
    ∃ e, readBool ((writeBool b).take k) = .error e := readBool_pfx b k hk

/-! ### UUID, both layouts -/
theorem uuid_roundtrip (u rest : Bytes) (h : u.length = 16) : readUUID (writeUUID u ++ rest) = .ok (u, rest) :=
  readUUID_rt u rest h
theorem uuid_prefix (u : Bytes) (k : Nat) (h : u.length = 16) (hk : k < (writeUUID u).length) :
    ∃ e, readUUID ((writeUUID u).take k) = .error e := readUUID_pfx u k h hk
theorem uuid_intarray_roundtrip (u rest : Bytes) (h : u.length = 16) :
    readUUIDIntArray (writeUUIDIntArray u ++ rest) = .ok (u, rest) := readUUIDIntArray_rt u rest h
theorem uuid_intarray_prefix (u : Bytes) (k : Nat) (h : u.length = 16) (hk : k < (writeUUIDIntArray u).length) :
    ∃ e, readUUIDIntArray ((writeUUIDIntArray u).take k) = .error e := readUUIDIntArray_pfx u k h hk

/-! ### strings and length-prefixed byte arrays (any maximum) -/
theorem string_roundtrip (max : Nat) (s rest : Bytes) (h : s.length ≤ max * 4) (h31 : s.length < 2 ^ 31) :
    readStringMax max (writeBytes s ++ rest) = .ok (s, rest) := readLenPrefixed_rt _ s rest h h31
theorem string_prefix (max : Nat) (s : Bytes) (k : Nat) (h31 : s.length < 2 ^ 31) (hk : k < (writeBytes s).length) :
    ∃ e, readStringMax max ((writeBytes s).take k) = .error e := readLenPrefixed_pfx _ s k h31 hk
theorem bytes_roundtrip (max : Nat) (b rest : Bytes) (h : b.length ≤ max) (h31 : b.length < 2 ^ 31) :
    readBytesLen max (writeBytes b ++ rest) = .ok (b, rest) := readLenPrefixed_rt _ b rest h h31
theorem bytes_prefix (max : Nat) (b : Bytes) (k : Nat) (h31 : b.length < 2 ^ 31) (hk : k < (writeBytes b).length) :
    ∃ e, readBytesLen max ((writeBytes b).take k) = .error e := readLenPrefixed_pfx _ b k h31 hk
theorem lenprefixed_len_reject (cap : Nat) (bs r : Bytes) (len : Int)
    (h : readVarInt bs = .ok (len, r)) (hbad : len < 0 ∨ len > cap) :
    readLenPrefixed cap bs = .error .negative ∨ readLenPrefixed cap bs = .error .tooLong :=
  readLenPrefixed_len_reject cap bs r len h hbad

/-! ### 1.7-style byte arrays (2-byte short, 3 bytes for Forge lengths ≥ 2^15) -/
theorem extshort_roundtrip (n : Nat) (rest : Bytes) (h : n < 2 ^ 23) :
    readExtShort (writeExtShort n ++ rest) = .ok (n, rest) := readExtShort_rt n rest h
theorem extshort_prefix (n k : Nat) (hk : k < (writeExtShort n).length) :
    ∃ e, readExtShort ((writeExtShort n).take k) = .error e := readExtShort_pfx n k hk
theorem bytes17_roundtrip (b rest : Bytes) (h : b.length ≤ forgeMaxArrayLength) :
    readBytes17 (writeBytes17 b ++ rest) = .ok (b, rest) := readBytes17_rt b rest h
theorem bytes17_prefix (b : Bytes) (k : Nat) (h : b.length ≤ forgeMaxArrayLength) (hk : k < (writeBytes17 b).length) :
    ∃ e, readBytes17 ((writeBytes17 b).take k) = .error e := readBytes17_pfx b k h hk

/-! ### UTF -/
theorem utf_roundtrip (s rest : Bytes) (h : s.length < 65536) : readUTF (writeUTF s ++ rest) = .ok (s, rest) :=
  readUTF_rt s rest h
theorem utf_prefix (s : Bytes) (k : Nat) (h : s.length < 65536) (hk : k < (writeUTF s).length) :
    ∃ e, readUTF ((writeUTF s).take k) = .error e := readUTF_pfx s k h hk

/-! ### profile property lists, arrays -/
theorem properties_roundtrip (ps : List Property) (rest : Bytes) (hw : ∀ p ∈ ps, wfProperty p)
    (h31 : ps.length < 2 ^ 31) : readProperties (writeProperties ps ++ rest) = .ok (ps, rest) :=
  readArray_rt _ _ _ property_RT ps rest hw h31
theorem properties_prefix (ps : List Property) (k : Nat) (hw : ∀ p ∈ ps, wfProperty p)
    (h31 : ps.length < 2 ^ 31) (hk : k < (writeProperties ps).length) :
    ∃ e, readProperties ((writeProperties ps).take k) = .error e :=
  readArray_pfx _ _ _ property_RT property_PFX ps k hw h31 hk
theorem string_array_roundtrip (xs : List Bytes) (rest : Bytes) (hw : ∀ x ∈ xs, wfString x) (h31 : xs.length < 2 ^ 31) :
    readStringArray (writeStrings xs ++ rest) = .ok (xs, rest) :=
  readArray_rt _ _ _ string_RT xs rest hw h31
theorem string_array_prefix (xs : List Bytes) (k : Nat) (hw : ∀ x ∈ xs, wfString x) (h31 : xs.length < 2 ^ 31)
    (hk : k < (writeStrings xs).length) : ∃ e, readStringArray ((writeStrings xs).take k) = .error e :=
  readArray_pfx _ _ _ string_RT string_PFX xs k hw h31 hk
theorem varint_array_roundtrip (xs : List Int) (rest : Bytes) (hw : ∀ x ∈ xs, wfInt32 x) (h31 : xs.length < 2 ^ 31) :
    readVarIntArray (writeVarIntArray xs ++ rest) = .ok (xs, rest) :=
  readArray_rt _ _ _ varint_RT xs rest hw h31
theorem varint_array_prefix (xs : List Int) (k : Nat) (hw : ∀ x ∈ xs, wfInt32 x) (h31 : xs.length < 2 ^ 31)
    (hk : k < (writeVarIntArray xs).length) : ∃ e, readVarIntArray ((writeVarIntArray xs).take k) = .error e :=
  readArray_pfx _ _ _ varint_RT varint_PFX xs k hw h31 hk
theorem array_negative_length_rejected {α} (dec : Bytes → Rd α) (bs r : Bytes) (len : Int)
    (h : readVarInt bs = .ok (len, r)) (hneg : len < 0) : readArray dec bs = .error .negative :=
  readArray_negative dec bs r len h hneg

/-! ### resource keys -/
theorem key_roundtrip (k : Key) (rest : Bytes) (h : wfKey k) : readKey (writeKey k ++ rest) = .ok (k, rest) :=
  key_RT k rest h
theorem key_prefix (k : Key) (j : Nat) (h : wfKey k) (hk : j < (writeKey k).length) :
    ∃ e, readKey ((writeKey k).take j) = .error e := key_PFX k j h hk

/-! ### tie to the source: facts regenerated by `tools/gofacts` from util/reader.go, writer.go

The model above uses `readFull` for every multi-byte read and a 2-byte extended short.  These
theorems are stated over the *generated* call sequences, so a source change that re-introduces a
short read (`rd.Read`) or moves an allocation before its length check breaks a proof obligation. -/

/-- a call sequence performs no raw `Read` (the short-reading primitive) -/
def noShortRead (cs : List String) : Bool := cs.all fun c => c != "rd.Read" && c != "reader.Read" && c != "r.Read"
/-- in a call sequence `a` occurs, and before the first `b` -/
def before (a b : String) (cs : List String) : Bool := cs.idxOf a < cs.idxOf b && cs.idxOf a < cs.length

open Gate.Gen.C03 in
theorem src_readers_use_readfull :
    noShortRead readUint8Calls ∧ noShortRead readUint16Calls ∧ noShortRead readUint32Calls ∧
    noShortRead readUint64Calls ∧ noShortRead readBytesLenCalls ∧ noShortRead readBytes17Calls ∧
    noShortRead readStringMaxCalls ∧ noShortRead readUUIDCalls ∧ noShortRead readUTFCalls ∧
    "io.ReadFull" ∈ readUint16Calls ∧ "io.ReadFull" ∈ readUint32Calls ∧ "io.ReadFull" ∈ readUint64Calls ∧
    "io.ReadFull" ∈ readBytesLenCalls ∧ "io.ReadFull" ∈ readBytes17Calls ∧ "io.ReadFull" ∈ readStringMaxCalls := by
  decide

open Gate.Gen.C03 in
/-- length checks (the `fmt.Errorf`/`errors.New` rejections) come before `make` in the source -/
theorem src_length_checked_before_alloc :
    before "fmt.Errorf" "make" readBytesLenCalls ∧ before "fmt.Errorf" "make" readBytes17Calls ∧
    before "errors.New" "make" readStringMaxCalls ∧ before "fmt.Errorf" "make" readPropertiesCalls := by
  decide

open Gate.Gen.C03 in
theorem src_extshort_is_two_bytes :
    "ReadUint16" ∈ readExtShortCalls ∧ "WriteUint16" ∈ writeExtShortCalls := by decide

theorem src_caps_fit_int32 : defaultMaxStringSize * 4 < 2 ^ 31 ∧ forgeMaxArrayLength < 2 ^ 23 := by decide

/-! ### the defects repaired by the `fix:` commits stay documented as kernel-checked witnesses
(the *defective variants* are what the code did before; a regression to them is caught by the
correspondence and reported with exactly these inputs). -/

/-- pre-fix `ReadUint16` (short read accepted): one byte `0x12` decodes as `0x1200`. -/
theorem uint_prefix_fails_for_short_read_variant :
    readUintShort 2 ((writeUint 2 0x1234).take 1) = .ok (0x1200, []) := by rfl
/-- pre-fix one-byte extended short: length 300 reads back as 44. -/
theorem extshort_roundtrip_fails_for_one_byte_variant :
    readExtShortOneByte (writeExtShortOneByte 300) = .ok (44, []) := by rfl

/-! ### non-vacuity: the hypotheses are met by ordinary values -/
example : wfInt32 (-1) ∧ wfInt32 2147483647 ∧ wfInt32 (-2147483648) := by unfold wfInt32; omega
example : wfKey ⟨minecraftNs, [98, 114, 97, 110, 100]⟩ := by
  refine ⟨by decide, by decide, ?_⟩
  have hd : 4 ≤ defaultMaxStringSize := by decide
  unfold wfString keyString minecraftNs
  simp only [List.length_cons, List.length_nil, List.length_append]; omega
example : wfProperty ⟨[116], [118], []⟩ := by
  have hd : 4 ≤ defaultMaxStringSize := by decide
  refine ⟨?_, ?_, ?_⟩ <;> (unfold wfString; simp only [List.length_cons, List.length_nil]; omega)
example : readVarInt (writeVarInt (-1) ++ [7]) = .ok (-1, [7]) :=
  varint_roundtrip (-1) [7] (by unfold wfInt32; omega)
example : readBytes17 (writeBytes17 (List.replicate 300 1) ++ [9]) = .ok (List.replicate 300 1, [9]) :=
  bytes17_roundtrip _ _ (by have : 300 ≤ forgeMaxArrayLength := by decide
                            simp only [List.length_replicate]; omega)

end Gate.C03.Props
