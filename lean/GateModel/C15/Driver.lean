import GateModel.C01.DriverLib
import GateModel.C15.Model
/-
C15 driver.  `relay <proto> <thrIn> <thrOut> <dir> <items>`: items = comma list of `u:<payload>` (unknown id, must be
relayed) or `x:<payload>` (a packet the proxy consumes, e.g. a keep-alive reply nobody asked for).
model output: `recv=<list>`; spec verdict on the implementation: the received list must be exactly the `u:` items in order.
-/
namespace Gate.C15
open Gate Gate.C01

def step (c : Case) : String × String :=
  match c.op, c.args with
  | "relay", [_proto, _thrIn, _thrOut, _dir, itemsS] =>
    let items := (splitList itemsS).map fun s =>
      if s.startsWith "x:" then (true, parsePayload (s.drop 2).toString) else (false, parsePayload (s.drop 2).toString)
    -- tag every frame with its position so that "consumed" is decided per item, not per payload value
    -- (a consumed item and a pass-through item may carry the same bytes)
    let tagged := (List.range items.length).zip items |>.map fun (i, (_, p)) =>
      [UInt8.ofNat (i / 256), UInt8.ofNat (i % 256)] ++ p
    let consumedAt : Nat → Bool := fun i => match items[i]? with | some (c, _) => c | none => false
    let got := (relay (fun f => match f with
      | a :: b :: _ => consumedAt (a.toNat * 256 + b.toNat)
      | _ => false) tagged).map (·.drop 2)
    let out := "recv=" ++ showList got
    (out, if c.impl == out then "ok" else "viol:relay-differs")
  | _, _ => ("bad-op", "-")

end Gate.C15

def main : IO Unit := Gate.runPureDriver Gate.C15.step
