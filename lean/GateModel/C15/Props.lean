import GateModel.C15.Model
import GateModel.C01.Lemmas
/-
C15 — Non-intercepted packets are relayed byte-identical and in order.
Corollaries of C01's stream round trip applied to both legs with INDEPENDENT thresholds.
-/
namespace Gate.C15.Props
open Gate Gate.C01 Gate.C15

/-- the relay preserves payloads and relative order: it is exactly the sub-list of non-intercepted frames -/
theorem relay_is_sublist (i : Bytes → Bool) (fs : List Bytes) :
    relay i fs = fs.filter (fun f => !i f) ∧ (relay i fs).Sublist fs := by
  refine ⟨rfl, ?_⟩
  unfold relay; exact List.filter_sublist

/-- nothing intercepted ⇒ the relay is the identity -/
theorem relay_identity_when_nothing_intercepted (fs : List Bytes) : relay (fun _ => false) fs = fs := by
  unfold relay; simp

/-- End to end for one direction: the peer writes `ps` with threshold `thrA`, the proxy reads them with the same
    threshold, forwards every non-intercepted payload, writing with its own threshold `thrB`; the other peer,
    reading with `thrB`, receives exactly the non-intercepted payloads, identical and in order — whatever the
    sizes (within the frame cap) and however the two thresholds differ. -/
theorem relay_end_to_end (cfgA cfgB : Cfg) (D : Bytes → Bytes) (Z : Bytes → Option Bytes)
    (intercepted : Bytes → Bool) (ps : List Bytes)
    (hA : ∀ p ∈ ps, Fits cfgA D Z p) (hB : ∀ p ∈ ps, Fits cfgB D Z p)
    (f1 f2 : Nat) (h1 : ps.length < f1) (h2 : ps.length < f2) :
    decodeAll cfgB Z f2 (relayWire cfgA cfgB.threshold D Z intercepted f1 (encodeAll cfgA.threshold D ps))
      = (ps.filter (fun p => !intercepted p), none) := by
  unfold relayWire
  rw [decodeAll_encodeAll cfgA D Z (by decide) ps hA f1 h1]
  simp only
  have hsub : ∀ p ∈ relay intercepted ps, Fits cfgB D Z p := by
    intro p hp
    unfold relay at hp
    exact hB p (List.mem_filter.mp hp).1
  have hlen : (relay intercepted ps).length < f2 := by
    have : (relay intercepted ps).length ≤ ps.length := by unfold relay; exact List.length_filter_le _ _
    omega
  rw [decodeAll_encodeAll cfgB D Z (by decide) _ hsub f2 hlen]
  rfl

/-- the gate is transparent once the player is in play: if `canForward` holds from the `i`-th dispatched frame
    on, the gated relay IS the relay — nothing that is sent while the player is in play on the backend is dropped. -/
theorem relay_gated_after_connect (intercepted : Bytes → Bool) (up : Nat → Bool) (i : Nat) (fs : List Bytes)
    (hup : ∀ j, i ≤ j → up j = true) :
    relayGated intercepted up i fs = relay intercepted fs := by
  induction fs generalizing i with
  | nil => rfl
  | cons f t ih =>
    unfold relayGated relay
    rw [hup i (Nat.le_refl i), List.filter_cons]
    have := ih (i + 1) (fun j hj => hup j (by omega))
    unfold relay at this
    by_cases hf : intercepted f = true <;> simp [hf, this]

/-- …and what happens before: frames dispatched while the connected server is not yet set are dropped, the rest is
    relayed in order (the transition window; the same behaviour as Velocity's `ClientPlaySessionHandler`) -/
theorem relay_gated_window (intercepted : Bytes → Bool) (up : Nat → Bool) (i : Nat) (early late : List Bytes)
    (hdown : ∀ j, i ≤ j → j < i + early.length → up j = false)
    (hup : ∀ j, i + early.length ≤ j → up j = true) :
    relayGated intercepted up i (early ++ late) = relay intercepted late := by
  induction early generalizing i with
  | nil => simpa using relay_gated_after_connect intercepted up i late (by simpa using hup)
  | cons f t ih =>
    rw [List.cons_append]
    unfold relayGated
    rw [hdown i (Nat.le_refl i) (by simp)]
    simp only [Bool.and_false, Bool.false_eq_true, if_false]
    apply ih (i + 1)
    · intro j h1 h2; exact hdown j (by omega) (by simp; omega)
    · intro j h1; exact hup j (by simp; omega)

/-! ### tie to the source (regenerated facts) -/
open Gate.Gen.C15 in
/-- where the window lies: `handleJoinGame` writes JoinGame to the client (`playHandler.handleBackendJoinGame`)
    BEFORE it sets the connected server, and `canForward` gates on exactly that field and the phase -/
theorem src_transition_window :
    handleJoinGameCalls.idxOf "playHandler.handleBackendJoinGame" <
      handleJoinGameCalls.idxOf "b.serverConn.player.setConnectedServer" ∧
    "b.serverConn.player.setConnectedServer" ∈ handleJoinGameCalls ∧
    "player.connectedServer" ∈ canForwardCalls ∧ "serverConn.phase().ConsideredComplete" ∈ canForwardCalls ∧
    forwardToServerCalls.head? = some "canForward" := by
  decide

open Gate.Gen.C15 in
/-- unknown packets and the `default:` branch go to the forward functions, which write `pc.Payload`
    (the bytes as received) and never re-encode -/
theorem src_forward_writes_payload :
    "serverMc.Write" ∈ forwardToServerCalls ∧ "b.serverConn.player.Write" ∈ forwardToPlayerCalls ∧
    "c.forwardToServer" ∈ clientHandlePacketCalls ∧ "b.forwardToPlayer" ∈ backendHandlePacketCalls ∧
    "default" ∈ clientHandlePacketCases ∧ "default" ∈ backendHandlePacketCases ∧
    clientHandlePacketCalls.head? = some "pc.KnownPacket" ∧ backendHandlePacketCalls.head? = some "pc.KnownPacket" := by
  decide

/-! ### non-vacuity -/
example : relay (fun f => f.head? == some 0) [[1, 2], [0, 9], [3]] = [[1, 2], [3]] := by decide
example : relayGated (fun f => f.head? == some 0) (fun j => decide (2 ≤ j)) 0 [[7], [8], [1, 2], [0, 9], [3]] =
    [[1, 2], [3]] := by decide

end Gate.C15.Props
