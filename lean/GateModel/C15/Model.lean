import GateModel.C01.Model
import GateModel.Gen.C15
/-
C15 — relay of non-intercepted packets while a player is in play.

Each direction of the proxy is: decode frames from one connection (its own threshold), hand every frame
either to a session-handler branch that consumes it (intercepted) or to `forwardToServer` /
`forwardToPlayer`, which call `Write(pc.Payload)` on the other connection (its own, independent
threshold).  The read loop is sequential per direction, so the relay is a `filter` over the frame list.
-/
namespace Gate.C15
open Gate Gate.C01

/-- what one direction of the proxy writes to the other side, given the payloads it read -/
def relay (intercepted : Bytes → Bool) (frames : List Bytes) : List Bytes :=
  frames.filter (fun f => !intercepted f)

/-- `canForward`: a client packet is forwarded only if the player's connected server is set and its
    connection phase is complete; otherwise it is dropped ("probably transitioning").  `up i` says whether
    that holds when the `i`-th frame is dispatched. -/
def relayGated (intercepted : Bytes → Bool) (up : Nat → Bool) : Nat → List Bytes → List Bytes
  | _, [] => []
  | i, f :: fs =>
    if !intercepted f && up i then f :: relayGated intercepted up (i + 1) fs
    else relayGated intercepted up (i + 1) fs

/-- one leg end to end: bytes arriving on the inbound connection ↦ bytes leaving on the outbound one -/
def relayWire (cfgIn : Cfg) (thrOut : Int) (D : Bytes → Bytes) (Z : Bytes → Option Bytes)
    (intercepted : Bytes → Bool) (fuel : Nat) (wireIn : Bytes) : Bytes :=
  encodeAll thrOut D (relay intercepted (decodeAll cfgIn Z fuel wireIn).1)

end Gate.C15
