import GateModel.C16.L2
/-
C16 — invariants, part 3: the switch-over invariants (current server, exactly one live backend, player lists),
for the repaired code, while the player stays connected and the kick path is not entered.
-/
namespace Gate.C16

set_option linter.unusedSimpArgs false
set_option linter.unusedVariables false

/-- the read loop is inside one of the switch-over sections of handleJoinGame / doSwitch -/
def swA : H → Bool
  | .j1b | .j3 | .j4 | .sw1 | .sw2 | .sw3 => true
  | _ => false

/-- … and one that carries switch-over structure (`jold`, a cleared current server) -/
def swH : H → Bool
  | .j1b | .j3 | .j4 | .sw2 | .sw3 => true
  | _ => false

theorem swA_of_swH {h : H} (hs : swH h = true) : swA h = true := by cases h <;> simp_all [swH, swA]

/-- the kick path is not entered -/
def NoKick (s : St) : Prop := ∀ i, i < s.ntasks → isKickPc (s.tasks i).pc = false

structure Core2 (s : St) : Prop where
  jt : ∀ d, d < s.nconns →
    (((s.conns d).h = .j1b ∨ (s.conns d).h = .j3) → (s.conns d).phase = .transition ∧ (s.conns d).result = none) ∧
    ((s.conns d).h = .j4 → (s.conns d).phase = .play ∧ (s.conns d).result = none ∧
      (s.conns d).completedJoin = true) ∧
    (((s.conns d).h = .sw1 ∨ (s.conns d).h = .sw2 ∨ (s.conns d).h = .sw3) →
      (s.conns d).phase = .config ∧ (s.conns d).result = none)
  jo : ∀ d, d < s.nconns → ((s.conns d).h = .j1b ∨ (s.conns d).h = .sw2 ∨ (s.conns d).h = .sw3) →
    ∀ o, (s.conns d).jold = some o → o < s.nconns ∧ ((s.conns o).phase = .play ∨ (s.conns o).phase = .closed)
  jo2 : ∀ d, d < s.nconns → (s.conns d).h = .sw2 → s.current = none ∨ s.current = (s.conns d).jold
  b1 : ∀ c c', c < s.nconns → c' < s.nconns → (s.conns c).phase = .play → (s.conns c').phase = .play → c = c'
  b2 : ∀ sv, sv ∈ s.players ↔ ∃ c, c < s.nconns ∧ (s.conns c).phase = .play ∧ (s.conns c).server = sv
  b3 : ∀ c, s.current = some c → c < s.nconns ∧ (s.conns c).phase = .play ∧ (s.conns c).completedJoin = true
  b4 : ∀ c, c < s.nconns → (s.conns c).phase = .play →
    s.current = some c ∨ (s.conns c).h = .j4 ∨
    ∃ d, d < s.nconns ∧ (s.conns d).jold = some c ∧ ((s.conns d).h = .j1b ∨ (s.conns d).h = .sw3)
  b5 : ∀ d, d < s.nconns →
    ((s.conns d).h = .j1b ∨ (s.conns d).h = .j3 ∨ (s.conns d).h = .j4 ∨ (s.conns d).h = .sw3) → s.current = none

/-- a connection inside a switch-over section is an attempt in flight -/
theorem core2_sw_attempting {s : St} (hC : Core2 s) (d : Nat) (hd : d < s.nconns) (hs : swA (s.conns d).h = true) :
    attempting (s.conns d) = true := by
  have := hC.jt d hd
  cases hh : (s.conns d).h <;> simp_all [swA, attempting]

/-- … hence there is at most one, and it owns the in-flight slot -/
theorem core2_sw_unique {s : St} (hC : Core2 s) (hA : A s) (d d' : Nat) (hd : d < s.nconns) (hd' : d' < s.nconns)
    (hs : swA (s.conns d).h = true) (hs' : swA (s.conns d').h = true) : d = d' := by
  have h1 := hA d hd (core2_sw_attempting hC d hd hs)
  have h2 := hA d' hd' (core2_sw_attempting hC d' hd' hs')
  rw [h1] at h2; injection h2

/-- a change of one connection record that does not concern the switch-over structure -/
def BenignConn (C C' : Conn) : Prop :=
  ((swH C.h = true ∨ swH C'.h = true) → C' = C) ∧ C'.server = C.server ∧ C'.completedJoin = C.completedJoin ∧
  (C'.phase = .play ↔ C.phase = .play) ∧ (C.phase = .closed → C'.phase = .closed) ∧
  (C'.h = .sw1 → C' = C ∨ (C'.phase = .config ∧ C'.result = none))

theorem benignConn_refl (C : Conn) : BenignConn C C := ⟨fun _ => rfl, rfl, rfl, Iff.rfl, id, fun _ => Or.inl rfl⟩

/-- a step that does not concern the switch-over structure -/
structure BenignStep (s s' : St) : Prop where
  cur : s'.current = s.current
  pl : s'.players = s.players
  le : s.nconns ≤ s'.nconns
  old : ∀ c, c < s.nconns → BenignConn (s.conns c) (s'.conns c)
  new : ∀ c, s.nconns ≤ c → c < s'.nconns → (s'.conns c).phase = .dialing ∧ (s'.conns c).h = .idle

theorem core2_benign {s s' : St} (hC : Core2 s) (hB : BenignStep s s') : Core2 s' := by
  have hold := hB.old
  have hnew := hB.new
  have hle := hB.le
  -- facts about a connection of s'
  have hsw : ∀ d, d < s'.nconns → swH (s'.conns d).h = true → d < s.nconns ∧ s'.conns d = s.conns d := by
    intro d hd hs
    by_cases hlt : d < s.nconns
    · exact ⟨hlt, (hold d hlt).1 (Or.inr hs)⟩
    · have := (hnew d (by omega) hd).2; rw [this] at hs; simp [swH] at hs
  have hplay : ∀ c, c < s'.nconns → (s'.conns c).phase = .play → c < s.nconns ∧ (s.conns c).phase = .play := by
    intro c hc hp
    by_cases hlt : c < s.nconns
    · exact ⟨hlt, (hold c hlt).2.2.2.1.mp hp⟩
    · have := (hnew c (by omega) hc).1; rw [this] at hp; simp at hp
  refine ⟨?_, ?_, ?_, ?_, ?_, ?_, ?_, ?_⟩
  · intro d hd
    by_cases hs : swH (s'.conns d).h = true
    · obtain ⟨hlt, he⟩ := hsw d hd hs
      rw [he]; exact hC.jt d hlt
    · by_cases h1 : (s'.conns d).h = .sw1
      · by_cases hlt : d < s.nconns
        · rcases (hold d hlt).2.2.2.2.2 h1 with he | he
          · rw [he]; exact hC.jt d hlt
          · simp [h1, he]
        · have := (hnew d (by omega) hd).2; simp [this] at h1
      · cases hh : (s'.conns d).h <;> simp_all [swH]
  · intro d hd hh o ho
    have hs : swH (s'.conns d).h = true := by rcases hh with h | h | h <;> simp [swH, h]
    obtain ⟨hlt, he⟩ := hsw d hd hs
    rw [he] at hh ho
    obtain ⟨ho1, ho2⟩ := hC.jo d hlt hh o ho
    refine ⟨by omega, ?_⟩
    have hb := hold o ho1
    rcases ho2 with h | h
    · left; exact hb.2.2.2.1.mpr h
    · right; exact hb.2.2.2.2.1 h
  · intro d hd hh
    have hs : swH (s'.conns d).h = true := by simp [swH, hh]
    obtain ⟨hlt, he⟩ := hsw d hd hs
    rw [he] at hh ⊢; rw [hB.cur]; exact hC.jo2 d hlt hh
  · intro c c' hc hc' hp hp'
    obtain ⟨h1, h2⟩ := hplay c hc hp
    obtain ⟨h1', h2'⟩ := hplay c' hc' hp'
    exact hC.b1 c c' h1 h1' h2 h2'
  · intro sv
    rw [hB.pl, hC.b2 sv]
    constructor
    · rintro ⟨c, hc, hp, hsv⟩
      have hb := hold c hc
      exact ⟨c, by omega, hb.2.2.2.1.mpr hp, by rw [hb.2.1]; exact hsv⟩
    · rintro ⟨c, hc, hp, hsv⟩
      obtain ⟨h1, h2⟩ := hplay c hc hp
      have hb := hold c h1
      exact ⟨c, h1, h2, by rw [← hb.2.1]; exact hsv⟩
  · intro c hcur
    rw [hB.cur] at hcur
    obtain ⟨h1, h2, h3⟩ := hC.b3 c hcur
    have hb := hold c h1
    exact ⟨by omega, hb.2.2.2.1.mpr h2, by rw [hb.2.2.1]; exact h3⟩
  · intro c hc hp
    obtain ⟨h1, h2⟩ := hplay c hc hp
    rcases hC.b4 c h1 h2 with h | h | ⟨d, hd, hj, hh⟩
    · left; rw [hB.cur]; exact h
    · right; left
      have hb := hold c h1
      have := hb.1 (Or.inl (by simp [swH, h])); rw [this]; exact h
    · right; right
      have hb := hold d hd
      have he := hb.1 (Or.inl (by rcases hh with h | h <;> simp [swH, h]))
      exact ⟨d, by omega, by rw [he]; exact hj, by rw [he]; exact hh⟩
  · intro d hd hh
    have hs : swH (s'.conns d).h = true := by rcases hh with h | h | h | h <;> simp [swH, h]
    obtain ⟨hlt, he⟩ := hsw d hd hs
    rw [he] at hh; rw [hB.cur]; exact hC.b5 d hlt hh


theorem closeConn_players_not_play (s : St) (o : Nat) (h : (s.conns o).phase ≠ .play) :
    (closeConn s o).players = s.players := by
  cases hp : (s.conns o).phase <;> simp_all [closeConn]

theorem closeConn_benign (s : St) (o c : Nat) (h1 : (s.conns o).phase ≠ .play) (h2 : swA (s.conns o).h = false) :
    BenignConn (s.conns c) ((closeConn s o).conns c) := by
  rcases closeConn_conns_cases s o c with ⟨_, h⟩ | ⟨hp, hco, h⟩ | ⟨hp, hco, h⟩
  · rw [h]; exact benignConn_refl _
  · subst hco; exact absurd hp h1
  · subst hco
    rw [h]
    have h3 : swH (s.conns c).h = false := by cases hh : (s.conns c).h <;> simp_all [swH, swA]
    refine ⟨?_, rfl, rfl, ?_, ?_, ?_⟩
    · intro hs; simp_all
    · rcases hp with hp | hp | hp <;> simp [hp]
    · intro hc; rcases hp with hp | hp | hp <;> simp_all
    · intro h1; simp at h1; rw [h1] at h2; simp [swA] at h2

theorem closeConn_benignStep (s : St) (o : Nat) (h1 : (s.conns o).phase ≠ .play) (h2 : swA (s.conns o).h = false) :
    BenignStep s (closeConn s o) :=
  ⟨by simp, closeConn_players_not_play s o h1, by simp, fun c _ => closeConn_benign s o c h1 h2,
   fun c h1 h2 => by simp at h2; omega⟩

theorem benignStep_refl (s : St) : BenignStep s s :=
  ⟨rfl, rfl, Nat.le_refl _, fun c _ => benignConn_refl _, fun c h1 h2 => by omega⟩

/-- task bookkeeping does not matter for `BenignStep` -/
theorem benignStep_of_eq {s s' t : St} (hB : BenignStep s t) (h1 : s'.current = t.current) (h2 : s'.players = t.players)
    (h3 : s'.nconns = t.nconns) (h4 : s'.conns = t.conns) : BenignStep s s' :=
  ⟨by rw [h1]; exact hB.cur, by rw [h2]; exact hB.pl, by rw [h3]; exact hB.le,
   fun c hc => by rw [h4]; exact hB.old c hc, fun c hc hc' => by rw [h4]; rw [h3] at hc'; exact hB.new c hc hc'⟩

theorem stepTask_benign {cfg : Cfg} {s s' : St} {i : Nat} (hJP : JP s) (hTC : TC s) (hW : W s) (hC : Core2 s)
    (hact : s.active = true) (hact' : s'.active = true) (hNK : NoKick s) (hNK' : NoKick s')
    (h : stepTask cfg s i = some s') : BenignStep s s' := by
  unfold stepTask at h
  split at h
  · simp at h
  · rename_i hi
    have hi' : i < s.ntasks := by omega
    have hWi := hW i hi'
    have hTCi := hTC i hi'
    have hNKi := hNK i hi'
    simp only [] at h
    cases hpc : (s.tasks i).pc <;> simp only [hpc] at h hNKi
    all_goals (try (simp [isKickPc] at hNKi; done))
    case dial =>
      cases hconn : (s.tasks i).conn with
      | none => simp [hconn] at h
      | some c1 =>
        simp only [hconn] at h
        by_cases hph : (s.conns c1).phase = .dialing
        · have hlt := hTCi c1 hconn
          have hidle := ((hJP c1 hlt).2.2.1 hph).1
          simp only [hph, ne_eq, not_true_eq_false, if_false] at h
          repeat' (split at h)
          all_goals (injection h with h; subst h)
          all_goals
            (refine ⟨rfl, rfl, by simp, ?_, ?_⟩
             · intro c hc
               simp only [upd_apply]
               split
               · rename_i hcc; subst hcc
                 refine ⟨?_, rfl, rfl, ?_, ?_, ?_⟩ <;> simp_all [swH]
               · exact benignConn_refl _
             · intro c h1 h2; simp at h2; omega)
        · simp [hph] at h
    all_goals (repeat' (split at h))
    all_goals (try (simp at h; done))
    all_goals (try (injection h with h; subst h))
    all_goals first
      | exact benignStep_of_eq (benignStep_refl s) rfl rfl rfl rfl
      | -- leaving through the kick path is excluded
        (exfalso
         have := hNK' i (by simpa using hi')
         simp [setPc_tasks, isKickPc] at this; done)
      | -- the player does not leave
        (exfalso
         simp only [setPc_active] at hact'
         rw [quitPlayer_active] at hact'
         simp at hact'; done)
      | -- `cancel` closes a connection that is no attempt any more
        (rename_i c1 hconn hph
         have hna := hWi (by simp [pastWait, hpc]) c1 hconn
         have hlt := hTCi c1 hconn
         have hsw : swA (s.conns c1).h = false := by
           cases hs : swA (s.conns c1).h with
           | false => rfl
           | true => have := core2_sw_attempting hC c1 hlt hs; simp_all
         have hnp : (s.conns c1).phase ≠ .play := by simp at hph; rcases hph with h | h <;> simp [h]
         exact benignStep_of_eq (closeConn_benignStep s c1 hnp hsw) rfl rfl rfl rfl)
      | -- `set`: a fresh connection in the dialing phase
        (refine ⟨rfl, rfl, by simp, ?_, ?_⟩
         · intro c hc; simp only [upd_apply]; rw [if_neg (by omega)]; exact benignConn_refl _
         · intro c h1 h2
           simp at h2
           have : c = s.nconns := by omega
           subst this; simp)
      | skip


/-! ### the switch-over sections themselves -/

theorem only_d {s : St} (hC : Core2 s) (hA : A s) {d : Nat} (hd : d < s.nconns) (hsd : swA (s.conns d).h = true) :
    ∀ e, e < s.nconns → swA (s.conns e).h = true → e = d :=
  fun e he hse => core2_sw_unique hC hA e d he hd hse hsd

theorem none_sw {s : St} (hC : Core2 s) (hA : A s) {d : Nat} (hd : d < s.nconns)
    (hatt : attempting (s.conns d) = true) (hnot : swA (s.conns d).h = false) :
    ∀ e, e < s.nconns → swA (s.conns e).h = false := by
  intro e he
  cases hs : swA (s.conns e).h with
  | false => rfl
  | true =>
    have h1 := hA e he (core2_sw_attempting hC e he hs)
    have h2 := hA d hd hatt
    rw [h1] at h2; injection h2 with h2; subst h2; simp_all

/-- sw2 → sw3 : `player.setConnectedServer(nil)` in doSwitch -/
theorem core2_sw2 {s s' : St} {d : Nat} (hC : Core2 s) (hA : A s) (hd : d < s.nconns) (hh : (s.conns d).h = .sw2)
    (hn : s'.nconns = s.nconns)
    (hcs : ∀ e, s'.conns e = if e = d then { s.conns d with h := .sw3 } else s.conns e)
    (hcur : s'.current = none) (hpl : s'.players = s.players) : Core2 s' := by
  have honly := only_d hC hA hd (by simp [swA, hh])
  have hjt := hC.jt d hd
  refine ⟨?_, ?_, ?_, ?_, ?_, ?_, ?_, ?_⟩
  · intro e he; rw [hn] at he; rw [hcs e]
    split
    · rename_i hed; subst hed; simp_all
    · exact hC.jt e he
  · intro e he hhe o ho; rw [hn] at he ⊢; rw [hcs e] at hhe ho
    have hphase : ∀ o, o < s.nconns → ((s.conns o).phase = .play ∨ (s.conns o).phase = .closed) →
        ((s'.conns o).phase = .play ∨ (s'.conns o).phase = .closed) := by
      intro o ho hp; rw [hcs o]; split
      · rename_i hod; subst hod; simpa using hp
      · exact hp
    split at hhe
    · rename_i hed; subst hed
      simp at ho
      obtain ⟨h1, h2⟩ := hC.jo e he (by simp [hh]) o ho
      exact ⟨h1, hphase o h1 h2⟩
    · rename_i hed
      have := honly e he (by rcases hhe with h | h | h <;> simp [swA, h])
      exact absurd this hed
  · intro e he hhe; rw [hn] at he; rw [hcs e] at hhe
    split at hhe
    · simp at hhe
    · rename_i hed; exact absurd (honly e he (by simp [swA, hhe])) hed
  · intro c c' hc hc' hp hp'; rw [hn] at hc hc'; rw [hcs] at hp hp'
    have f : ∀ c, (if c = d then { s.conns d with h := H.sw3 } else s.conns c).phase = (s.conns c).phase := by
      intro c; split
      · rename_i h; subst h; rfl
      · rfl
    rw [f] at hp hp'; exact hC.b1 c c' hc hc' hp hp'
  · intro sv; rw [hpl, hC.b2 sv, hn]
    constructor
    · rintro ⟨c, hc, hp, hsv⟩
      refine ⟨c, hc, ?_, ?_⟩ <;> rw [hcs c] <;> split <;> simp_all
    · rintro ⟨c, hc, hp, hsv⟩
      rw [hcs c] at hp hsv
      refine ⟨c, hc, ?_, ?_⟩
      · split at hp <;> simp_all
      · split at hsv <;> simp_all
  · intro c hc; rw [hcur] at hc; simp at hc
  · intro c hc hp; rw [hn] at hc ⊢; rw [hcs c] at hp
    have hpc : (s.conns c).phase = .play := by split at hp <;> simp_all
    have hcd : c ≠ d := by intro h; subst h; simp_all
    rcases hC.b4 c hc hpc with h | h | ⟨e, he, hj, hhe⟩
    · -- c was the current server: it is the connection doSwitch is about to close
      right; right
      refine ⟨d, hd, ?_, ?_⟩
      · rw [hcs d]; simp
        rcases hC.jo2 d hd hh with h2 | h2
        · rw [h2] at h; simp at h
        · rw [← h2]; exact h
      · rw [hcs d]; simp
    · exact absurd (honly c hc (by simp [swA, h])) hcd
    · have := honly e he (by rcases hhe with h | h <;> simp [swA, h])
      subst this; rcases hhe with h | h <;> simp_all
  · intro e he hhe; exact hcur


/-- helper: if only the `h` / `jold` of connection `d` change, phases, servers, results, completedJoin of every
    connection are as before -/
theorem hcs_fields {s s' : St} {d : Nat} {C' : Conn} (hcs : ∀ e, s'.conns e = if e = d then C' else s.conns e)
    (hph : C'.phase = (s.conns d).phase) (hsv : C'.server = (s.conns d).server) :
    (∀ e, (s'.conns e).phase = (s.conns e).phase) ∧ (∀ e, (s'.conns e).server = (s.conns e).server) := by
  constructor <;> intro e <;> rw [hcs e] <;> split
  · rename_i h; subst h; exact hph
  · rfl
  · rename_i h; subst h; exact hsv
  · rfl

/-- sw1 → sw2 : `existingConn := player.connectedServer()` found a current server -/
theorem core2_sw1 {s s' : St} {d o : Nat} (hC : Core2 s) (hA : A s) (hd : d < s.nconns) (hh : (s.conns d).h = .sw1)
    (hco : s.current = some o)
    (hn : s'.nconns = s.nconns)
    (hcs : ∀ e, s'.conns e = if e = d then { s.conns d with h := .sw2, jold := some o } else s.conns e)
    (hcur : s'.current = s.current) (hpl : s'.players = s.players) : Core2 s' := by
  have honly := only_d hC hA hd (by simp [swA, hh])
  have hjt := hC.jt d hd
  obtain ⟨hph, hsv⟩ := hcs_fields hcs rfl rfl
  have hb3 := hC.b3 o hco
  refine ⟨?_, ?_, ?_, ?_, ?_, ?_, ?_, ?_⟩
  · intro e he; rw [hn] at he; rw [hcs e]
    split
    · rename_i hed; subst hed; simp_all
    · exact hC.jt e he
  · intro e he hhe o' ho'; rw [hn] at he ⊢; rw [hcs e] at hhe ho'
    split at hhe
    · rename_i hed; subst hed
      simp at ho'; subst ho'
      exact ⟨hb3.1, by rw [hph]; exact Or.inl hb3.2.1⟩
    · rename_i hed
      exact absurd (honly e he (by rcases hhe with h | h | h <;> simp [swA, h])) hed
  · intro e he hhe; rw [hn] at he; rw [hcs e] at hhe ⊢
    split at hhe
    · rename_i hed; subst hed; right; simp [hcur, hco]
    · rename_i hed; exact absurd (honly e he (by simp [swA, hhe])) hed
  · intro c c' hc hc' hp hp'; rw [hn] at hc hc'; rw [hph] at hp hp'; exact hC.b1 c c' hc hc' hp hp'
  · intro sv; rw [hpl, hC.b2 sv, hn]; simp only [hph, hsv]
  · intro c hc; rw [hcur] at hc; rw [hn, hph]
    obtain ⟨h1, h2, h3⟩ := hC.b3 c hc
    refine ⟨h1, h2, ?_⟩
    rw [hcs c]; split
    · rename_i h; subst h; simp_all
    · exact h3
  · intro c hc hp; rw [hn] at hc ⊢; rw [hph] at hp; rw [hcur]
    have hcd : c ≠ d := by intro h; subst h; simp_all
    rcases hC.b4 c hc hp with h | h | ⟨e, he, hj, hhe⟩
    · left; exact h
    · exact absurd (honly c hc (by simp [swA, h])) hcd
    · have := honly e he (by rcases hhe with h | h <;> simp [swA, h])
      subst this; rcases hhe with h | h <;> simp_all
  · intro e he hhe; rw [hn] at he; rw [hcs e] at hhe
    split at hhe
    · simp at hhe
    · rename_i hed
      exact absurd (honly e he (by rcases hhe with h | h | h | h <;> simp [swA, h])) hed

/-- the JoinGame section 1: lock; existingConn := connectedServer_; connectedServer_ = nil; unlock -/
theorem core2_j1 {s s' : St} {d : Nat} (hC : Core2 s) (hA : A s) (hd : d < s.nconns) (hh : (s.conns d).h = .idle)
    (hpd : (s.conns d).phase = .transition) (hrd : (s.conns d).result = none)
    (hn : s'.nconns = s.nconns)
    (hcs : ∀ e, s'.conns e = if e = d then
      { s.conns d with h := (if s.current.isSome then .j1b else .j3), jold := s.current } else s.conns e)
    (hcur : s'.current = none) (hpl : s'.players = s.players) : Core2 s' := by
  have hnone := none_sw hC hA hd (by simp [attempting, hpd, hrd]) (by simp [swA, hh])
  obtain ⟨hph, hsv⟩ := hcs_fields hcs rfl rfl
  have hother : ∀ e, e < s.nconns → e ≠ d → swA (s'.conns e).h = false := by
    intro e he hed; rw [hcs e, if_neg hed]; exact hnone e he
  refine ⟨?_, ?_, ?_, ?_, ?_, ?_, ?_, ?_⟩
  · intro e he; rw [hn] at he; rw [hcs e]
    split
    · rename_i hed; subst hed
      cases hc : s.current <;> simp_all
    · exact hC.jt e he
  · intro e he hhe o ho; rw [hn] at he ⊢
    by_cases hed : e = d
    · subst hed
      rw [hcs e] at ho; simp at ho
      obtain ⟨h1, h2, _⟩ := hC.b3 o ho
      exact ⟨h1, by rw [hph]; exact Or.inl h2⟩
    · have := hother e he hed
      rcases hhe with h | h | h <;> simp [swA, h] at this
  · intro e he hhe; rw [hn] at he
    by_cases hed : e = d
    · subst hed; rw [hcs e] at hhe; cases hc : s.current <;> simp [hc] at hhe
    · have := hother e he hed; simp [swA, hhe] at this
  · intro c c' hc hc' hp hp'; rw [hn] at hc hc'; rw [hph] at hp hp'; exact hC.b1 c c' hc hc' hp hp'
  · intro sv; rw [hpl, hC.b2 sv, hn]; simp only [hph, hsv]
  · intro c hc; rw [hcur] at hc; simp at hc
  · intro c hc hp; rw [hn] at hc ⊢; rw [hph] at hp
    have hcd : c ≠ d := by intro h; subst h; simp_all
    rcases hC.b4 c hc hp with h | h | ⟨e, he, hj, hhe⟩
    · right; right
      refine ⟨d, hd, ?_, ?_⟩
      · rw [hcs d]; simp [h]
      · rw [hcs d]; simp [h]
    · have := hnone c hc; simp [swA, h] at this
    · have := hnone e he; rcases hhe with h | h <;> simp [swA, h] at this
  · intro e he hhe; exact hcur

/-- closing the previous connection (`existingConn.disconnect()`) while `d` is in j1b / sw3: afterwards no
    connection is in play -/
theorem core2_closeJold {s : St} {d : Nat} (hC : Core2 s) (hA : A s) (hd : d < s.nconns)
    (hh : (s.conns d).h = .j1b ∨ (s.conns d).h = .sw3) :
    Core2 (closeOpt s (s.conns d).jold) ∧
    ∀ c, c < s.nconns → ((closeOpt s (s.conns d).jold).conns c).phase ≠ .play := by
  have honly := only_d hC hA hd (by rcases hh with h | h <;> simp [swA, h])
  have hcurn := hC.b5 d hd (by rcases hh with h | h <;> simp [h])
  have hjtd := hC.jt d hd
  -- the only connection that can be in play is the one `d` is about to close
  have hplay : ∀ c, c < s.nconns → (s.conns c).phase = .play → (s.conns d).jold = some c := by
    intro c hc hp
    rcases hC.b4 c hc hp with h | h | ⟨e, he, hje, hhe⟩
    · rw [hcurn] at h; simp at h
    · have := honly c hc (by simp [swA, h]); subst this; rcases hh with h2 | h2 <;> simp_all
    · have := honly e he (by rcases hhe with h | h <;> simp [swA, h])
      subst this; exact hje
  cases hj : (s.conns d).jold with
  | none =>
    refine ⟨by simpa [closeOpt] using hC, ?_⟩
    intro c hc hp
    simp only [closeOpt] at hp
    have := hplay c hc hp; rw [hj] at this; simp at this
  | some o =>
    simp only [closeOpt]
    obtain ⟨ho, hpo⟩ := hC.jo d hd (by rcases hh with h | h <;> simp [h]) o hj
    have hod : o ≠ d := by
      intro h; subst h
      rcases hh with h | h <;> simp_all
    have hosw : swA (s.conns o).h = false := by
      cases hs : swA (s.conns o).h with
      | false => rfl
      | true => exact absurd (honly o ho hs) hod
    have hplayo : ∀ c, c < s.nconns → (s.conns c).phase = .play → c = o := by
      intro c hc hp
      have := hplay c hc hp; rw [hj] at this; injection this with this; exact this.symm
    have hclosed : ∀ c, c < s.nconns → ((closeConn s o).conns c).phase ≠ .play := by
      intro c hc hp
      rcases closeConn_conns_cases s o c with ⟨hw, h⟩ | ⟨_, _, h⟩ | ⟨_, _, h⟩
      · rw [h] at hp
        have := hplayo c hc hp
        rcases hw with hw | hw | hw <;> simp_all
      · rw [h] at hp; simp at hp
      · rw [h] at hp; simp at hp
    have hpl : ∀ sv, sv ∉ (closeConn s o).players := by
      intro sv hsv
      have hsv' : sv ∈ s.players ∧ ((s.conns o).phase = .play → sv ≠ (s.conns o).server) := by
        cases hpo2 : (s.conns o).phase <;> simp_all [closeConn]
      obtain ⟨c, hc, hp, hs⟩ := (hC.b2 sv).mp hsv'.1
      have := hplayo c hc hp; subst this
      exact hsv'.2 hp hs.symm
    refine ⟨⟨?_, ?_, ?_, ?_, ?_, ?_, ?_, ?_⟩, hclosed⟩
    · intro e he; simp only [closeConn_nconns] at he
      rcases closeConn_conns_cases s o e with ⟨_, h⟩ | ⟨_, heo, h⟩ | ⟨_, heo, h⟩
      · rw [h]; exact hC.jt e he
      · subst heo; rw [h]
        refine ⟨fun hx => ?_, fun hx => ?_, fun hx => ?_⟩ <;> exfalso
        · rcases hx with hx | hx <;> (simp at hx; simp [swA, hx] at hosw)
        · simp at hx; simp [swA, hx] at hosw
        · rcases hx with hx | hx | hx <;> (simp at hx; simp [swA, hx] at hosw)
      · subst heo; rw [h]
        refine ⟨fun hx => ?_, fun hx => ?_, fun hx => ?_⟩ <;> exfalso
        · rcases hx with hx | hx <;> (simp at hx; simp [swA, hx] at hosw)
        · simp at hx; simp [swA, hx] at hosw
        · rcases hx with hx | hx | hx <;> (simp at hx; simp [swA, hx] at hosw)
    · intro e he hhe o' ho'
      simp only [closeConn_nconns, closeConn_h, closeConn_jold] at he hhe ho' ⊢
      obtain ⟨h1, h2⟩ := hC.jo e he hhe o' ho'
      refine ⟨h1, ?_⟩
      rcases closeConn_conns_cases s o o' with ⟨_, h⟩ | ⟨_, _, h⟩ | ⟨_, _, h⟩ <;> rw [h] <;> simp_all
    · intro e he hhe
      simp only [closeConn_nconns, closeConn_h, closeConn_jold, closeConn_current] at he hhe ⊢
      exact hC.jo2 e he hhe
    · intro c c' hc hc' hp hp'; simp only [closeConn_nconns] at hc; exact absurd hp (hclosed c hc)
    · intro sv
      constructor
      · intro h; exact absurd h (hpl sv)
      · rintro ⟨c, hc, hp, _⟩; simp only [closeConn_nconns] at hc; exact absurd hp (hclosed c hc)
    · intro c hc; simp only [closeConn_current] at hc; rw [hcurn] at hc; simp at hc
    · intro c hc hp; simp only [closeConn_nconns] at hc; exact absurd hp (hclosed c hc)
    · intro e he hhe; simp only [closeConn_current]; exact hcurn

theorem A_closeOpt {s : St} (hA : A s) (o : Option Nat) : A (closeOpt s o) := by
  intro c hc ha
  simp only [closeOpt_nconns, closeOpt_inFlight] at hc ⊢
  exact hA c hc (closeOpt_attempting s o c ha)

/-- while `d` is inside j1b/j3/j4/sw3 no connection is in play, except the one being installed (j4) or about to
    be closed (`jold`) -/
theorem no_play_of_sw {s : St} {d : Nat} (hC : Core2 s) (hA : A s) (hd : d < s.nconns)
    (hh : (s.conns d).h = .j3) : ∀ c, c < s.nconns → (s.conns c).phase ≠ .play := by
  intro c hc hp
  have honly := only_d hC hA hd (by simp [swA, hh])
  have hcurn := hC.b5 d hd (by simp [hh])
  rcases hC.b4 c hc hp with h | h | ⟨e, he, hje, hhe⟩
  · rw [hcurn] at h; simp at h
  · have := honly c hc (by simp [swA, h]); subst this; simp_all
  · have := honly e he (by rcases hhe with h | h <;> simp [swA, h])
    subst this; rcases hhe with h | h <;> simp_all

/-- leaving j1b (→ j3) or sw3 (→ idle) after the previous connection has been closed -/
theorem core2_after_close {s s' : St} {d : Nat} {hNew : H} (hC : Core2 s) (hA : A s) (hd : d < s.nconns)
    (hh : ((s.conns d).h = .j1b ∧ hNew = .j3) ∨ ((s.conns d).h = .sw3 ∧ hNew = .idle))
    (hnoplay : ∀ c, c < s.nconns → (s.conns c).phase ≠ .play)
    (hn : s'.nconns = s.nconns)
    (hcs : ∀ e, s'.conns e = if e = d then { s.conns d with h := hNew } else s.conns e)
    (hcur : s'.current = s.current) (hpl : s'.players = s.players) : Core2 s' := by
  have hsd : swA (s.conns d).h = true := by rcases hh with ⟨h, _⟩ | ⟨h, _⟩ <;> simp [swA, h]
  have honly := only_d hC hA hd hsd
  have hcurn := hC.b5 d hd (by rcases hh with ⟨h, _⟩ | ⟨h, _⟩ <;> simp [h])
  have hjt := hC.jt d hd
  obtain ⟨hph, hsv⟩ := hcs_fields hcs rfl rfl
  have hother : ∀ e, e < s.nconns → e ≠ d → swA (s'.conns e).h = false := by
    intro e he hed; rw [hcs e, if_neg hed]
    cases hs : swA (s.conns e).h with
    | false => rfl
    | true => exact absurd (honly e he hs) hed
  have hdh : (s'.conns d).h = hNew := by rw [hcs d]; simp
  refine ⟨?_, ?_, ?_, ?_, ?_, ?_, ?_, ?_⟩
  · intro e he; rw [hn] at he; rw [hcs e]
    split
    · rename_i hed; subst hed
      rcases hh with ⟨h1, h2⟩ | ⟨h1, h2⟩ <;> subst h2 <;> simp_all
    · exact hC.jt e he
  · intro e he hhe o ho; rw [hn] at he
    by_cases hed : e = d
    · subst hed; rw [hdh] at hhe
      rcases hh with ⟨_, h2⟩ | ⟨_, h2⟩ <;> subst h2 <;> simp at hhe
    · have := hother e he hed
      rcases hhe with h | h | h <;> simp [swA, h] at this
  · intro e he hhe; rw [hn] at he
    by_cases hed : e = d
    · subst hed; rw [hdh] at hhe
      rcases hh with ⟨_, h2⟩ | ⟨_, h2⟩ <;> subst h2 <;> simp at hhe
    · have := hother e he hed; simp [swA, hhe] at this
  · intro c c' hc hc' hp hp'; rw [hn] at hc; rw [hph] at hp; exact absurd hp (hnoplay c hc)
  · intro sv; rw [hpl, hC.b2 sv, hn]; simp only [hph, hsv]
  · intro c hc; rw [hcur, hcurn] at hc; simp at hc
  · intro c hc hp; rw [hn] at hc; rw [hph] at hp; exact absurd hp (hnoplay c hc)
  · intro e he hhe; rw [hcur]; exact hcurn

/-- j3 → j4 : completeJoin; SetActiveSessionHandler(play) → Activated → players.add -/
theorem core2_j3 {s s' : St} {d : Nat} (hC : Core2 s) (hA : A s) (hd : d < s.nconns) (hh : (s.conns d).h = .j3)
    (hn : s'.nconns = s.nconns)
    (hcs : ∀ e, s'.conns e = if e = d then
      { s.conns d with h := .j4, completedJoin := true, phase := .play } else s.conns e)
    (hcur : s'.current = s.current) (hpl : s'.players = addPlayer s.players (s.conns d).server) : Core2 s' := by
  have honly := only_d hC hA hd (by simp [swA, hh])
  have hcurn := hC.b5 d hd (by simp [hh])
  have hjt := hC.jt d hd
  have hnoplay := no_play_of_sw hC hA hd hh
  have hempty : ∀ sv, sv ∉ s.players := by
    intro sv hsv
    obtain ⟨c, hc, hp, _⟩ := (hC.b2 sv).mp hsv
    exact hnoplay c hc hp
  have hother : ∀ e, e < s.nconns → e ≠ d → swA (s'.conns e).h = false := by
    intro e he hed; rw [hcs e, if_neg hed]
    cases hs : swA (s.conns e).h with
    | false => rfl
    | true => exact absurd (honly e he hs) hed
  have hplay' : ∀ c, c < s.nconns → ((s'.conns c).phase = .play ↔ c = d) := by
    intro c hc; rw [hcs c]
    split
    · rename_i h; simp [h]
    · rename_i h; simp [h]; exact hnoplay c hc
  refine ⟨?_, ?_, ?_, ?_, ?_, ?_, ?_, ?_⟩
  · intro e he; rw [hn] at he; rw [hcs e]
    split
    · rename_i hed; subst hed; simp_all
    · exact hC.jt e he
  · intro e he hhe o ho; rw [hn] at he
    by_cases hed : e = d
    · subst hed; rw [hcs e] at hhe; simp at hhe
    · have := hother e he hed
      rcases hhe with h | h | h <;> simp [swA, h] at this
  · intro e he hhe; rw [hn] at he
    by_cases hed : e = d
    · subst hed; rw [hcs e] at hhe; simp at hhe
    · have := hother e he hed; simp [swA, hhe] at this
  · intro c c' hc hc' hp hp'; rw [hn] at hc hc'
    rw [(hplay' c hc).mp hp, (hplay' c' hc').mp hp']
  · intro sv; rw [hpl, hn]
    constructor
    · intro hsv
      have : sv = (s.conns d).server := by
        unfold addPlayer at hsv
        split at hsv
        · exact absurd hsv (hempty sv)
        · simp at hsv; rcases hsv with h | h
          · exact h
          · exact absurd h (hempty sv)
      refine ⟨d, hd, (hplay' d hd).mpr rfl, ?_⟩
      rw [hcs d]; simp [this]
    · rintro ⟨c, hc, hp, hs⟩
      have := (hplay' c hc).mp hp; subst this
      rw [hcs c] at hs; simp at hs
      unfold addPlayer; split
      · rename_i h; simp at h; exact absurd h (hempty _)
      · simp [hs]
  · intro c hc; rw [hcur, hcurn] at hc; simp at hc
  · intro c hc hp; rw [hn] at hc ⊢
    have := (hplay' c hc).mp hp; subst this
    right; left; rw [hcs c]; simp
  · intro e he hhe; rw [hcur]; exact hcurn

/-- j4 → j5 : `player.setConnectedServer(serverConn)` -/
theorem core2_j4 {s s' : St} {d : Nat} (hC : Core2 s) (hA : A s) (hd : d < s.nconns) (hh : (s.conns d).h = .j4)
    (hn : s'.nconns = s.nconns)
    (hcs : ∀ e, s'.conns e = if e = d then { s.conns d with h := .j5 } else s.conns e)
    (hcur : s'.current = some d) (hpl : s'.players = s.players) : Core2 s' := by
  have honly := only_d hC hA hd (by simp [swA, hh])
  have hjt := (hC.jt d hd).2.1 hh
  obtain ⟨hph, hsv⟩ := hcs_fields hcs rfl rfl
  have hnosw : ∀ e, e < s.nconns → swA (s'.conns e).h = false := by
    intro e he; rw [hcs e]
    split
    · simp [swA]
    · rename_i hed
      cases hs : swA (s.conns e).h with
      | false => rfl
      | true => exact absurd (honly e he hs) hed
  refine ⟨?_, ?_, ?_, ?_, ?_, ?_, ?_, ?_⟩
  · intro e he; rw [hn] at he
    have := hnosw e he
    refine ⟨fun hx => ?_, fun hx => ?_, fun hx => ?_⟩ <;> exfalso
    · rcases hx with hx | hx <;> simp [swA, hx] at this
    · simp [swA, hx] at this
    · rcases hx with hx | hx | hx <;> simp [swA, hx] at this
  · intro e he hhe o ho; rw [hn] at he
    have := hnosw e he
    rcases hhe with h | h | h <;> simp [swA, h] at this
  · intro e he hhe; rw [hn] at he
    have := hnosw e he; simp [swA, hhe] at this
  · intro c c' hc hc' hp hp'; rw [hn] at hc hc'; rw [hph] at hp hp'; exact hC.b1 c c' hc hc' hp hp'
  · intro sv; rw [hpl, hC.b2 sv, hn]; simp only [hph, hsv]
  · intro c hc; rw [hcur] at hc; injection hc with hc
    rw [← hc, hn, hph]
    refine ⟨hd, hjt.1, ?_⟩
    rw [hcs d]; simp [hjt.2.2]
  · intro c hc hp; rw [hn] at hc; rw [hph] at hp
    left; rw [hcur, hC.b1 c d hc hd hp hjt.1]
  · intro e he hhe; rw [hn] at he
    have := hnosw e he
    rcases hhe with h | h | h | h <;> simp [swA, h] at this


/-! ### every step of a backend read loop preserves the switch-over invariants -/

theorem benignConn_trans {C C' C'' : Conn} (h1 : BenignConn C C') (h2 : BenignConn C' C'') : BenignConn C C'' := by
  obtain ⟨a1, a2, a3, a4, a5, a6⟩ := h1
  obtain ⟨b1, b2, b3, b4, b5, b6⟩ := h2
  refine ⟨?_, by rw [b2, a2], by rw [b3, a3], b4.trans a4, fun h => b5 (a5 h), ?_⟩
  · intro hs
    rcases hs with hs | hs
    · have e1 := a1 (Or.inl hs); subst e1; exact b1 (Or.inl hs)
    · have e2 := b1 (Or.inr hs); subst e2; exact a1 (Or.inr hs)
  · intro hs
    rcases b6 hs with e | e
    · subst e; exact a6 hs
    · right; exact e

theorem benignStep_trans {s t u : St} (h1 : BenignStep s t) (h2 : BenignStep t u) (hn : t.nconns = s.nconns) :
    BenignStep s u :=
  ⟨by rw [h2.cur, h1.cur], by rw [h2.pl, h1.pl], by have := h2.le; omega,
   fun c hc => benignConn_trans (h1.old c hc) (h2.old c (by omega)),
   fun c hc hc' => h2.new c (by omega) hc'⟩

theorem benignStep_setH (s : St) (c : Nat) (h' : H) (h1 : swH (s.conns c).h = false) (h2 : swH h' = false)
    (h3 : h' ≠ .sw1) : BenignStep s (setH s c h') := by
  refine ⟨rfl, rfl, Nat.le_refl _, ?_, ?_⟩
  · intro e he
    rw [setH_conns]
    split
    · rename_i hec; subst hec
      refine ⟨?_, rfl, rfl, Iff.rfl, id, ?_⟩
      · intro hs; rcases hs with hs | hs <;> simp_all
      · intro hs; simp at hs; exact absurd hs h3
    · exact benignConn_refl _
  · intro e he he'; simp at he'; omega

theorem stepBack_core2 {cfg : Cfg} {s s' : St} {c0 : Nat} (hjs : cfg.joinBySnapshot = false) (hI : Inv1 s)
    (hC : Core2 s) (hact' : s'.active = true) (hNK' : NoKick s') (h : stepBack cfg s c0 = some s') : Core2 s' := by
  have hJP := hI.jp
  have hA := hI.a
  unfold stepBack at h
  split at h
  · simp at h
  · rename_i hlt0
    have hd : c0 < s.nconns := by omega
    have hJ0 := hJP c0 hd
    have hjt0 := hC.jt c0 hd
    simp only [hjs, Bool.false_and, Bool.false_eq_true, if_false] at h
    cases hh : (s.conns c0).h <;> simp only [hh] at h
    all_goals (repeat' (split at h))
    all_goals (try (simp at h; done))
    all_goals (try (injection h with h; subst h))
    all_goals first
      -- the switch-over sections
      | exact core2_sw2 hC hA hd hh rfl (fun e => rfl) rfl rfl
      | exact core2_j4 hC hA hd hh rfl (fun e => rfl) rfl rfl
      | exact core2_j3 hC hA hd hh rfl (fun e => rfl) rfl rfl
      | (exfalso
         have := (hjt0.1 (Or.inr hh)).1
         simp_all; done)
      | (rename_i o hco
         exact core2_sw1 hC hA hd hh hco rfl (fun e => rfl) rfl rfl)
      | -- j1b → j3
        (obtain ⟨h1, h2⟩ := core2_closeJold hC hA hd (Or.inl hh)
         exact core2_after_close (hNew := .j3) h1 (A_closeOpt hA _) (by simpa using hd)
           (Or.inl ⟨by simpa using hh, rfl⟩) (by simpa using h2) rfl
           (fun e => by rw [setH_conns]) rfl rfl)
      | -- sw3 → idle
        (obtain ⟨h1, h2⟩ := core2_closeJold hC hA hd (Or.inr hh)
         exact core2_after_close (hNew := .idle) h1 (A_closeOpt hA _) (by simpa using hd)
           (Or.inr ⟨by simpa using hh, rfl⟩) (by simpa using h2) rfl
           (fun e => by rw [setH_conns]) rfl rfl)
      | -- leaving through the kick path is excluded
        (exfalso
         have := hNK' s.ntasks (by simp)
         simp [spawnTask_tasks, isKickPc] at this; done)
      | -- JoinGame, section 1
        (have hrd : (s.conns c0).result = none := by
           unfold jpOK at hJ0; simp_all
         have hpd : (s.conns c0).phase = .transition := by assumption
         refine core2_j1 hC hA hd hh hpd hrd rfl ?_ ?_ rfl
         · intro e; simp only [upd_apply]; split <;> simp_all
         · first | rfl | assumption)
      | -- a record update outside the switch-over structure
        (apply core2_benign hC
         refine ⟨rfl, rfl, Nat.le_refl _, ?_, fun c h1 h2 => by simp at h2; omega⟩
         intro c hc
         simp only [upd_apply]
         split
         · rename_i hcc; subst hcc
           unfold BenignConn; unfold jpOK at hJ0
           simp_all [swH]
         · exact benignConn_refl _)
      | (have hnp : (s.conns c0).phase ≠ .play := by
           unfold jpOK at hJ0
           first
             | (simp_all; done)
             | (rcases hJ0.2.2.2.1 hh with h | h | h <;> simp [h])
         have hsw : swA (s.conns c0).h = false := by simp [swA, hh]
         first
           | exact core2_benign hC (closeConn_benignStep s c0 hnp hsw)
           | exact core2_benign hC (benignStep_trans (closeConn_benignStep s c0 hnp hsw)
               (benignStep_setH _ c0 _ (by simp [swH, hh]) (by decide) (by decide)) (by simp)))
      | exact core2_benign hC (benignStep_setH s c0 .idle (by simp [swH, hh]) (by decide) (by decide))
      | exact core2_benign hC (benignStep_of_eq
          (benignStep_setH s c0 .idle (by simp [swH, hh]) (by decide) (by decide)) rfl rfl rfl rfl)


/-- the player never comes back -/
theorem step_active {cfg : Cfg} {s s' : St} {a : Act} (h : step cfg s a = some s') (hact' : s'.active = true) :
    s.active = true := by
  have hq : ∀ t : St, (quitPlayer t).active = true → False := by
    intro t ht; rw [quitPlayer_active] at ht; simp at ht
  cases a with
  | task i =>
    simp only [step] at h
    unfold stepTask at h
    split at h
    · simp at h
    · simp only [] at h
      cases hpc : (s.tasks i).pc <;> simp only [hpc] at h
      all_goals (repeat' (split at h))
      all_goals (try (simp at h; done))
      all_goals (try (injection h with h; subst h))
      all_goals first
        | exact hact'
        | (simp only [setPc_active, finish_active, closeConn_active] at hact'; exact hact')
        | (exfalso; simp only [setPc_active] at hact'; exact hq _ hact')
  | back c0 =>
    simp only [step] at h
    unfold stepBack at h
    split at h
    · simp at h
    · simp only [] at h
      cases hh : (s.conns c0).h <;> simp only [hh] at h
      all_goals (repeat' (split at h))
      all_goals (try (simp at h; done))
      all_goals (try (injection h with h; subst h))
      all_goals first
        | exact hact'
        | (simp only [setH_active, closeConn_active, closeOpt_active, spawnTask_active] at hact'; exact hact')
  | spawn m d ev => simp [step] at h; subst h; exact hact'
  | create d tag => simp [step] at h; subst h; exact hact'
  | release c0 => simp only [step] at h; split at h <;> simp at h; subst h; exact hact'
  | deadline c0 => simp only [step] at h; split at h <;> simp at h; subst h; exact hact'
  | watch c0 =>
    simp only [step] at h
    repeat' (split at h)
    all_goals (try (simp at h; done))
    all_goals (injection h with h; subst h)
    · simpa using hact'
    · exact hact'
  | kick c0 => simp only [step] at h; split at h <;> simp at h; subst h; simpa using hact'
  | drop c0 => simp only [step] at h; split at h <;> simp at h; subst h; simpa using hact'
  | quit => simp [step] at h; subst h; exact absurd hact' (by rw [quitPlayer_active]; simp)

/-- every step of the repaired code that stays out of the kick path and keeps the player connected preserves the
    switch-over invariants -/
theorem core2_step {cfg : Cfg} {s s' : St} {a : Act} (hjs : cfg.joinBySnapshot = false)
    (hwc : cfg.watcherCloses = true) (hI : Inv1 s) (hC : Core2 s)
    (hact' : s'.active = true) (hNK : NoKick s) (hNK' : NoKick s')
    (hgw : ∀ c, a = .watch c → swA (s.conns c).h = false) (h : step cfg s a = some s') : Core2 s' := by
  have hact := step_active h hact'
  cases a with
  | task i => exact core2_benign hC (stepTask_benign hI.jp hI.tc hI.w hC hact hact' hNK hNK' h)
  | back c0 => exact stepBack_core2 hjs hI hC hact' hNK' h
  | spawn m d ev =>
    simp [step] at h; subst h
    exact core2_benign hC (benignStep_of_eq (benignStep_refl s) rfl rfl rfl rfl)
  | create d tag =>
    simp [step] at h; subst h
    exact core2_benign hC (benignStep_of_eq (benignStep_refl s) rfl rfl rfl rfl)
  | release c0 =>
    simp only [step] at h
    split at h
    · injection h with h; subst h
      apply core2_benign hC
      refine ⟨rfl, rfl, Nat.le_refl _, ?_, fun c h1 h2 => by simp at h2; omega⟩
      intro c hc
      simp only [upd_apply]
      split
      · rename_i hcc; subst hcc
        have hidle : (s.conns c).h = .idle := (hI.jp c hc).2.2.2.2.2.2.2.1 (by simp_all)
        exact ⟨fun hs => by simp [hidle, swH] at hs, rfl, rfl, Iff.rfl, id, fun hs => by simp [hidle] at hs⟩
      · exact benignConn_refl _
    · simp at h
  | deadline c0 =>
    simp only [step] at h
    split at h <;> simp at h
    subst h
    exact core2_benign hC (benignStep_of_eq (benignStep_refl s) rfl rfl rfl rfl)
  | watch c0 =>
    have hsw := hgw c0 rfl
    simp only [step, hwc, Bool.and_true] at h
    repeat' (split at h)
    all_goals (try (simp at h; done))
    all_goals (injection h with h; subst h)
    · rename_i hph
      have hnp : (s.conns c0).phase ≠ .play := by
        simp at hph; rcases hph with h | h <;> simp [h]
      exact core2_benign hC (closeConn_benignStep s c0 hnp hsw)
    · simp_all
  | kick c0 =>
    simp only [step] at h
    split at h
    · injection h with h; subst h
      exfalso
      have := hNK' s.ntasks (by simp)
      simp [spawnTask_tasks, isKickPc] at this
    · simp at h
  | drop c0 =>
    simp only [step] at h
    split at h
    · injection h with h; subst h
      exfalso
      have := hNK' s.ntasks (by simp)
      simp [spawnTask_tasks, isKickPc] at this
    · simp at h
  | quit =>
    simp [step] at h; subst h
    exact absurd hact' (by rw [quitPlayer_active]; simp)

theorem core2_init (s : St) (h0 : s.nconns = 0) (h1 : s.current = none) (h2 : s.players = []) : Core2 s := by
  refine ⟨?_, ?_, ?_, ?_, ?_, ?_, ?_, ?_⟩
  · intro d hd; omega
  · intro d hd; omega
  · intro d hd; omega
  · intro c c' hc; omega
  · intro sv; rw [h2]; simp; intro c hc; omega
  · intro c hc; rw [h1] at hc; simp at hc
  · intro c hc; omega
  · intro d hd; omega

end Gate.C16
