import GateModel.C16.L3
/-
C16 — invariants, part 4: reachability under a hypothesis on the schedule, the request/connection bookkeeping
invariants, and the packaged results used by Props.
-/
namespace Gate.C16

set_option linter.unusedSimpArgs false
set_option linter.unusedVariables false

/-- initial state: the player has just logged in to the proxy, nothing is connected yet (scripts, try index and the
    client's handler are arbitrary) -/
def Init (s : St) : Prop :=
  s.nconns = 0 ∧ s.ntasks = 0 ∧ s.inFlight = none ∧ s.current = none ∧ s.players = [] ∧ s.active = true

/-- states reachable under every interleaving whose steps satisfy the hypothesis `G` -/
inductive Reach (cfg : Cfg) (G : St → Act → St → Prop) : St → Prop
  | init {s : St} : Init s → Reach cfg G s
  | step {s s' : St} {a : Act} : Reach cfg G s → G s a s' → step cfg s a = some s' → Reach cfg G s'

/-- hypothesis 1: the kick path clears the in-flight slot only while no attempt is in flight -/
def G1 (s : St) (a : Act) (_ : St) : Prop := Guard1 s a
/-- hypothesis 2: the kick path is not entered and the player stays connected -/
def G2 (_ : St) (_ : Act) (s' : St) : Prop := NoKick s' ∧ s'.active = true

def Repaired (cfg : Cfg) : Prop := cfg.atomicSet = true ∧ cfg.foreignReset = false ∧ cfg.joinBySnapshot = false

theorem reach1_inv1 {cfg : Cfg} (hr : Repaired cfg) {s : St} (h : Reach cfg G1 s) : Inv1 s := by
  induction h with
  | init hi => exact inv1_init _ hi.1 hi.2.1
  | step _ hg hs ih => exact inv1_step hr.1 hr.2.1 ih hg hs

theorem resetPc_isKickPc (pc : PC) (h : resetPc pc = true) : isKickPc pc = true := by
  cases pc <;> simp_all [resetPc, isKickPc]

theorem guard1_of_noKick {s : St} (hNK : NoKick s) (a : Act) (hen : ∀ i, a = .task i → i < s.ntasks) : Guard1 s a := by
  cases a with
  | task i =>
    intro hr
    have := hNK i (hen i rfl)
    rw [resetPc_isKickPc _ hr] at this; simp at this
  | _ => trivial

theorem stepTask_lt {cfg : Cfg} {s s' : St} {i : Nat} (h : stepTask cfg s i = some s') : i < s.ntasks := by
  unfold stepTask at h
  split at h
  · simp at h
  · omega

/-! ### executable reachability (for witnesses and non-vacuity examples) -/

def noKickB (s : St) : Bool := (List.range s.ntasks).all fun i => !isKickPc (s.tasks i).pc

theorem noKickB_iff (s : St) : noKickB s = true ↔ NoKick s := by
  unfold noKickB NoKick
  simp [List.all_eq_true]

/-- run a schedule, checking hypothesis 2 after every step -/
def run2 (cfg : Cfg) : St → List Act → Option St
  | s, [] => some s
  | s, a :: as =>
    match step cfg s a with
    | some s' => if noKickB s' && s'.active then run2 cfg s' as else none
    | none => none

theorem run2_reach {cfg : Cfg} {s : St} (hs : Reach cfg G2 s) : ∀ (as : List Act) (s' : St),
    run2 cfg s as = some s' → Reach cfg G2 s' := by
  intro as
  induction as generalizing s with
  | nil => intro s' h; simp [run2] at h; subst h; exact hs
  | cons a as ih =>
    intro s' h
    simp only [run2] at h
    split at h
    · rename_i s1 hstep
      split at h
      · rename_i hg
        simp at hg
        exact ih (Reach.step hs ⟨(noKickB_iff s1).mp hg.1, hg.2⟩ hstep) s' h
      · simp at h
    · simp at h


/-! ### bookkeeping: a request's connection goes to the request's destination; a successful result is the
    connection's own success -/

theorem step_server_result {cfg : Cfg} {s s' : St} {a : Act} (h : step cfg s a = some s') (c : Nat)
    (hc : c < s.nconns) :
    (s'.conns c).server = (s.conns c).server ∧
    (∀ r, (s.conns c).result = some r → (s'.conns c).result = some r) := by
  have hclose : ∀ (t : St) (o : Nat), ((closeConn t o).conns c).server = (t.conns c).server ∧
      (∀ r, (t.conns c).result = some r → ((closeConn t o).conns c).result = some r) := by
    intro t o
    rcases closeConn_conns_cases t o c with ⟨_, h⟩ | ⟨_, _, h⟩ | ⟨_, _, h⟩ <;> rw [h] <;> simp_all
  have hcloseO : ∀ (t : St) (o : Option Nat), ((closeOpt t o).conns c).server = (t.conns c).server ∧
      (∀ r, (t.conns c).result = some r → ((closeOpt t o).conns c).result = some r) := by
    intro t o; cases o with
    | none => exact ⟨rfl, fun r h => h⟩
    | some o => exact hclose t o
  have hquit : ∀ (t : St), ((quitPlayer t).conns c).server = (t.conns c).server ∧
      (∀ r, (t.conns c).result = some r → ((quitPlayer t).conns c).result = some r) := by
    intro t
    unfold quitPlayer
    split
    · exact ⟨rfl, fun r h => h⟩
    · dsimp only
      have h1 := hcloseO { t with active := false } t.inFlight
      have h2 := hcloseO (closeOpt { t with active := false } t.inFlight) t.current
      exact ⟨by rw [h2.1, h1.1], fun r hr => h2.2 r (h1.2 r hr)⟩
  cases a with
  | task i =>
    simp only [step] at h
    unfold stepTask at h
    split at h
    · simp at h
    · simp only [] at h
      cases hpc : (s.tasks i).pc <;> simp only [hpc] at h
      all_goals (repeat' (split at h))
      all_goals (try (simp at h; done))
      all_goals (try (injection h with h; subst h))
      all_goals first
        | exact ⟨rfl, fun r h => h⟩
        | exact hclose _ _
        | exact hquit _
        | (rename_i c1 _ _
           have h1 := hquit (closeConn s c1)
           have h2 := hclose s c1
           simp only [setPc_conns]
           exact ⟨by rw [h1.1, h2.1], fun r hr => h1.2 r (h2.2 r hr)⟩)
        | (try dsimp only
           simp only [upd_apply]; split <;> first | omega | simp_all)
  | back c0 =>
    simp only [step] at h
    unfold stepBack at h
    split at h
    · simp at h
    · simp only [] at h
      cases hh : (s.conns c0).h <;> simp only [hh] at h
      all_goals (repeat' (split at h))
      all_goals (try (simp at h; done))
      all_goals (try (injection h with h; subst h))
      all_goals first
        | exact hclose _ _
        | (try dsimp only [spawnTask_conns]
           rw [setH_conns]; split
           · rename_i hcc; subst hcc
             first
               | exact ⟨rfl, fun r h => h⟩
               | (have := hclose s c; exact ⟨this.1, this.2⟩)
               | (have := hcloseO s (s.conns c).jold; exact ⟨this.1, this.2⟩)
           · first | exact ⟨rfl, fun r h => h⟩ | exact hclose _ _ | exact hcloseO _ _)
        | (try dsimp only
           simp only [upd_apply]; split
           · rename_i hcc; subst hcc; refine ⟨rfl, fun r hr => ?_⟩; simp_all
           · exact ⟨rfl, fun r h => h⟩)
  | spawn m d ev => simp [step] at h; subst h; exact ⟨rfl, fun r h => h⟩
  | create d tag => simp [step] at h; subst h; exact ⟨rfl, fun r h => h⟩
  | release c0 =>
    simp only [step] at h
    split at h
    · injection h with h; subst h
      dsimp only; simp only [upd_apply]; split
      · rename_i hcc; subst hcc; exact ⟨rfl, fun r h => h⟩
      · exact ⟨rfl, fun r h => h⟩
    · simp at h
  | kick c0 =>
    simp only [step] at h
    split at h
    · injection h with h; subst h; exact hclose _ _
    · simp at h
  | drop c0 =>
    simp only [step] at h
    split at h
    · injection h with h; subst h; exact hclose _ _
    · simp at h
  | quit => simp [step] at h; subst h; exact hquit _


/-- a request's connection was dialled for the request's (post-event) destination -/
def TD (s : St) : Prop := ∀ i, i < s.ntasks → ∀ c, (s.tasks i).conn = some c → (s.conns c).server = (s.tasks i).dest
/-- a request reports success only if its own connection delivered the success -/
def RS (s : St) : Prop := ∀ i, i < s.ntasks → (s.tasks i).res = some .ok →
  ∃ c, (s.tasks i).conn = some c ∧ (s.conns c).result = some .ok

theorem checkServer_ne_ok (s : St) (d : Nat) : checkServer s d ≠ some .ok := by
  unfold checkServer
  split
  · simp
  · split
    · simp
    · split <;> simp
  · simp

theorem stepTask_TD_RS {cfg : Cfg} {s s' : St} {i : Nat} (hTC : TC s) (hTN : TN s) (hTD : TD s) (hRS : RS s)
    (h : stepTask cfg s i = some s') : TD s' ∧ RS s' := by
  have hsr := fun c hc => step_server_result (a := .task i) (cfg := cfg) (s := s) (s' := s') (by simpa [step] using h) c hc
  have hck := checkServer_ne_ok s
  unfold stepTask at h
  split at h
  · simp at h
  · rename_i hi
    have hi' : i < s.ntasks := by omega
    have hTCi := hTC i hi'
    have hTNi := hTN i hi'
    have hTDi := hTD i hi'
    have hRSi := hRS i hi'
    simp only [] at h
    cases hpc : (s.tasks i).pc <;> simp only [hpc] at h
    all_goals (repeat' (split at h))
    all_goals (try (simp at h; done))
    all_goals (try (injection h with h; subst h))
    all_goals
      (constructor
       · intro j hj c hcj
         have hTDj := hTD j; have hTCj := hTC j
         simp only [setPc_tasks, finish_tasks, upd_apply, setPc_ntasks, finish_ntasks, quitPlayer_tasks,
           closeConn_tasks, quitPlayer_ntasks, closeConn_ntasks] at hj hcj ⊢
         first
           | (split at hcj
              · rename_i hji; subst hji
                first
                  | (simp_all [earlyPc]; done)
                  | (simp at hcj; have := (hsr c (hTCi c (by simp_all))).1; simp_all [earlyPc]; done)
              · have hlt := hTCj hj c hcj
                have := (hsr c hlt).1
                simp_all [upd_apply]
                try (split <;> simp_all <;> omega))
           | (have hlt := hTCj hj c hcj
              have := (hsr c hlt).1
              simp_all)
       · intro j hj hres
         have hRSj := hRS j; have hTCj := hTC j
         simp only [setPc_tasks, finish_tasks, upd_apply, setPc_ntasks, finish_ntasks, quitPlayer_tasks,
           closeConn_tasks, quitPlayer_ntasks, closeConn_ntasks] at hj hres ⊢
         first
           | (split at hres
              · rename_i hji; subst hji
                first
                  | (simp_all; done)
                  | (simp at hres
                     obtain ⟨c, hc1, hc2⟩ := hRSi (by simp_all)
                     exact ⟨c, by simp_all [earlyPc], (hsr c (hTCi c hc1)).2 _ hc2⟩)
              · obtain ⟨c, hc1, hc2⟩ := hRSj hj hres
                refine ⟨c, by simp_all, ?_⟩
                exact (hsr c (hTCj hj c hc1)).2 _ hc2)
           | (obtain ⟨c, hc1, hc2⟩ := hRSj hj hres
              exact ⟨c, hc1, (hsr c (hTCj hj c hc1)).2 _ hc2⟩))


theorem TD_RS_ext {cfg : Cfg} {s s' : St} {a : Act} (hna : ∀ i, a ≠ .task i) (hTC : TC s) (hTD : TD s) (hRS : RS s)
    (h : step cfg s a = some s') : TD s' ∧ RS s' := by
  have he := step_tasksExt hna h
  have hsr := fun c hc => step_server_result h c hc
  constructor
  · intro j hj c hcj
    by_cases hlt : j < s.ntasks
    · rw [he.2.1 j hlt] at hcj ⊢
      rw [(hsr c (hTC j hlt c hcj)).1]; exact hTD j hlt c hcj
    · have := (he.2.2 j (by omega) hj).1; simp_all
  · intro j hj hres
    by_cases hlt : j < s.ntasks
    · rw [he.2.1 j hlt] at hres ⊢
      obtain ⟨c, hc1, hc2⟩ := hRS j hlt hres
      exact ⟨c, hc1, (hsr c (hTC j hlt c hc1)).2 _ hc2⟩
    · -- a freshly spawned task has no result yet
      exfalso
      have hj2 : j = s.ntasks := by
        have := he.1
        cases a with
        | task i => exact absurd rfl (hna i)
        | back c0 =>
          simp only [step] at h
          unfold stepBack at h
          split at h
          · simp at h
          · simp only [] at h
            cases hh : (s.conns c0).h <;> simp only [hh] at h
            all_goals (repeat' (split at h))
            all_goals (try (simp at h; done))
            all_goals (try (injection h with h; subst h))
            all_goals (simp at hj; omega)
        | spawn m d ev => simp [step] at h; subst h; simp at hj; omega
        | create d tag => simp [step] at h; subst h; simp at hj; omega
        | release c0 => simp only [step] at h; split at h <;> simp at h; subst h; simp at hj; omega
        | kick c0 => simp only [step] at h; split at h <;> simp at h; subst h; simp at hj; omega
        | drop c0 => simp only [step] at h; split at h <;> simp at h; subst h; simp at hj; omega
        | quit => simp [step] at h; subst h; simp at hj; omega
      subst hj2
      cases a with
      | task i => exact absurd rfl (hna i)
      | back c0 =>
        simp only [step] at h
        unfold stepBack at h
        split at h
        · simp at h
        · simp only [] at h
          cases hh : (s.conns c0).h <;> simp only [hh] at h
          all_goals (repeat' (split at h))
          all_goals (try (simp at h; done))
          all_goals (try (injection h with h; subst h))
          all_goals (first | (simp at hj; done) | (simp [spawnTask_tasks] at hres))
      | spawn m d ev => simp [step] at h; subst h; simp [spawnTask_tasks] at hres
      | create d tag => simp [step] at h; subst h; simp [spawnTask_tasks] at hres
      | release c0 => simp only [step] at h; split at h <;> simp at h; subst h; simp at hj
      | kick c0 => simp only [step] at h; split at h <;> simp at h; subst h; simp [spawnTask_tasks] at hres
      | drop c0 => simp only [step] at h; split at h <;> simp at h; subst h; simp [spawnTask_tasks] at hres
      | quit => simp [step] at h; subst h; simp at hj

theorem step_TD_RS {cfg : Cfg} {s s' : St} {a : Act} (hTC : TC s) (hTN : TN s) (hTD : TD s) (hRS : RS s)
    (h : step cfg s a = some s') : TD s' ∧ RS s' := by
  cases a with
  | task i => exact stepTask_TD_RS hTC hTN hTD hRS h
  | back c0 => exact TD_RS_ext (by intro i; simp) hTC hTD hRS h
  | spawn m d ev => exact TD_RS_ext (by intro i; simp) hTC hTD hRS h
  | create d tag => exact TD_RS_ext (by intro i; simp) hTC hTD hRS h
  | release c0 => exact TD_RS_ext (by intro i; simp) hTC hTD hRS h
  | kick c0 => exact TD_RS_ext (by intro i; simp) hTC hTD hRS h
  | drop c0 => exact TD_RS_ext (by intro i; simp) hTC hTD hRS h
  | quit => exact TD_RS_ext (by intro i; simp) hTC hTD hRS h

structure Inv2 (s : St) : Prop where
  i1 : Inv1 s
  c2 : Core2 s
  nk : NoKick s
  act : s.active = true
  td : TD s
  rs : RS s

theorem reach2_inv2 {cfg : Cfg} (hr : Repaired cfg) {s : St} (h : Reach cfg G2 s) : Inv2 s := by
  induction h with
  | init hi =>
    exact ⟨inv1_init _ hi.1 hi.2.1, core2_init _ hi.1 hi.2.2.2.1 hi.2.2.2.2.1, fun i hi' => by have := hi.2.1; omega,
      hi.2.2.2.2.2, fun i hi' => by have := hi.2.1; omega, fun i hi' => by have := hi.2.1; omega⟩
  | @step s s' a _ hg hs ih =>
    have hg1 : Guard1 s a := guard1_of_noKick ih.nk a (fun i hi => by subst hi; exact stepTask_lt hs)
    have htr := step_TD_RS ih.i1.tc ih.i1.tn ih.td ih.rs hs
    exact ⟨inv1_step hr.1 hr.2.1 ih.i1 hg1 hs, core2_step hr.2.2 ih.i1 ih.c2 hg.2 ih.nk hg.1 hs, hg.1, hg.2, htr.1, htr.2⟩


theorem scanTry_sound (skip : Nat → Bool) : ∀ (l : List Nat) (i j x : Nat),
    scanTry skip l i = some (j, x) → x ∈ l ∧ skip x = false := by
  intro l
  induction l with
  | nil => intro i j x h; simp [scanTry] at h
  | cons y ys ih =>
    intro i j x h
    simp only [scanTry] at h
    split at h
    · obtain ⟨h1, h2⟩ := ih _ _ _ h; exact ⟨List.mem_cons_of_mem _ h1, h2⟩
    · rename_i hsk; simp at h; obtain ⟨_, rfl⟩ := h; exact ⟨List.mem_cons_self, by simpa using hsk⟩

end Gate.C16
