import GateModel.C16.L3
/-
C16 — invariants, part 4: reachability under a hypothesis on the schedule, the request/connection bookkeeping
invariants, and the packaged results used by Props.
-/
namespace Gate.C16

set_option linter.unusedSimpArgs false
set_option linter.unusedVariables false

/-- initial state: the player has just logged in to the proxy, nothing is connected yet (scripts, try index and the
    client's handler are arbitrary) -/
def Init (s : St) : Prop :=
  s.nconns = 0 ∧ s.ntasks = 0 ∧ s.inFlight = none ∧ s.current = none ∧ s.players = [] ∧ s.active = true

/-- states reachable under every interleaving whose steps satisfy the hypothesis `G` -/
inductive Reach (cfg : Cfg) (G : St → Act → St → Prop) : St → Prop
  | init {s : St} : Init s → Reach cfg G s
  | step {s s' : St} {a : Act} : Reach cfg G s → G s a s' → step cfg s a = some s' → Reach cfg G s'

/-- hypothesis 1: the kick path clears the in-flight slot only while no attempt is in flight -/
def G1 (s : St) (a : Act) (_ : St) : Prop := Guard1 s a
/-- hypothesis 2: the kick path is not entered, the player stays connected, and a deadline watcher does not run
    while its connection's read loop is inside a switch-over section -/
def G2 (s : St) (a : Act) (s' : St) : Prop :=
  NoKick s' ∧ s'.active = true ∧ ∀ c, a = .watch c → swA (s.conns c).h = false

def Repaired (cfg : Cfg) : Prop :=
  cfg.atomicSet = true ∧ cfg.foreignReset = false ∧ cfg.joinBySnapshot = false ∧ cfg.watcherCloses = true

theorem reach1_inv1 {cfg : Cfg} (hr : Repaired cfg) {s : St} (h : Reach cfg G1 s) : Inv1 s := by
  induction h with
  | init hi => exact inv1_init _ hi.1 hi.2.1
  | step _ hg hs ih => exact inv1_step hr.1 hr.2.1 hr.2.2.2 ih hg hs

theorem resetPc_isKickPc (pc : PC) (h : resetPc pc = true) : isKickPc pc = true := by
  cases pc <;> simp_all [resetPc, isKickPc]

theorem guard1_of_noKick {s : St} (hNK : NoKick s) (a : Act) (hen : ∀ i, a = .task i → i < s.ntasks) : Guard1 s a := by
  cases a with
  | task i =>
    intro hr
    have := hNK i (hen i rfl)
    rw [resetPc_isKickPc _ hr] at this; simp at this
  | _ => trivial

theorem stepTask_lt {cfg : Cfg} {s s' : St} {i : Nat} (h : stepTask cfg s i = some s') : i < s.ntasks := by
  unfold stepTask at h
  split at h
  · simp at h
  · omega

/-! ### executable reachability (for witnesses and non-vacuity examples) -/

def noKickB (s : St) : Bool := (List.range s.ntasks).all fun i => !isKickPc (s.tasks i).pc

theorem noKickB_iff (s : St) : noKickB s = true ↔ NoKick s := by
  unfold noKickB NoKick
  simp [List.all_eq_true]

def watchOK (s : St) : Act → Bool
  | .watch c => !swA (s.conns c).h
  | _ => true

/-- run a schedule, checking hypothesis 2 after every step -/
def run2 (cfg : Cfg) : St → List Act → Option St
  | s, [] => some s
  | s, a :: as =>
    match step cfg s a with
    | some s' => if noKickB s' && s'.active && watchOK s a then run2 cfg s' as else none
    | none => none

theorem run2_reach {cfg : Cfg} {s : St} (hs : Reach cfg G2 s) : ∀ (as : List Act) (s' : St),
    run2 cfg s as = some s' → Reach cfg G2 s' := by
  intro as
  induction as generalizing s with
  | nil => intro s' h; simp [run2] at h; subst h; exact hs
  | cons a as ih =>
    intro s' h
    simp only [run2] at h
    split at h
    · rename_i s1 hstep
      split at h
      · rename_i hg
        simp at hg
        refine ih (Reach.step hs ⟨(noKickB_iff s1).mp hg.1.1, hg.1.2, ?_⟩ hstep) s' h
        intro c hc; subst hc; simpa [watchOK] using hg.2
      · simp at h
    · simp at h


/-! ### bookkeeping: a request's connection goes to the request's destination; a successful result is the
    connection's own success -/

theorem step_server_result {cfg : Cfg} {s s' : St} {a : Act} (h : step cfg s a = some s') (c : Nat)
    (hc : c < s.nconns) :
    (s'.conns c).server = (s.conns c).server ∧
    (∀ r, (s.conns c).result = some r → (s'.conns c).result = some r) := by
  have hclose : ∀ (t : St) (o : Nat), ((closeConn t o).conns c).server = (t.conns c).server ∧
      (∀ r, (t.conns c).result = some r → ((closeConn t o).conns c).result = some r) := by
    intro t o
    rcases closeConn_conns_cases t o c with ⟨_, h⟩ | ⟨_, _, h⟩ | ⟨_, _, h⟩ <;> rw [h] <;> simp_all
  have hcloseO : ∀ (t : St) (o : Option Nat), ((closeOpt t o).conns c).server = (t.conns c).server ∧
      (∀ r, (t.conns c).result = some r → ((closeOpt t o).conns c).result = some r) := by
    intro t o; cases o with
    | none => exact ⟨rfl, fun r h => h⟩
    | some o => exact hclose t o
  have hquit : ∀ (t : St), ((quitPlayer t).conns c).server = (t.conns c).server ∧
      (∀ r, (t.conns c).result = some r → ((quitPlayer t).conns c).result = some r) := by
    intro t
    unfold quitPlayer
    split
    · exact ⟨rfl, fun r h => h⟩
    · dsimp only
      have h1 := hcloseO { t with active := false } t.inFlight
      have h2 := hcloseO (closeOpt { t with active := false } t.inFlight) t.current
      exact ⟨by rw [h2.1, h1.1], fun r hr => h2.2 r (h1.2 r hr)⟩
  cases a with
  | task i =>
    simp only [step] at h
    unfold stepTask at h
    split at h
    · simp at h
    · simp only [] at h
      cases hpc : (s.tasks i).pc <;> simp only [hpc] at h
      all_goals (repeat' (split at h))
      all_goals (try (simp at h; done))
      all_goals (try (injection h with h; subst h))
      all_goals first
        | exact ⟨rfl, fun r h => h⟩
        | exact hclose _ _
        | exact hquit _
        | (rename_i c1 _ _
           have h1 := hquit (closeConn s c1)
           have h2 := hclose s c1
           simp only [setPc_conns]
           exact ⟨by rw [h1.1, h2.1], fun r hr => h1.2 r (h2.2 r hr)⟩)
        | (try dsimp only
           simp only [upd_apply]; split <;> first | omega | simp_all)
  | back c0 =>
    simp only [step] at h
    unfold stepBack at h
    split at h
    · simp at h
    · simp only [] at h
      cases hh : (s.conns c0).h <;> simp only [hh] at h
      all_goals (repeat' (split at h))
      all_goals (try (simp at h; done))
      all_goals (try (injection h with h; subst h))
      all_goals first
        | exact hclose _ _
        | (try dsimp only [spawnTask_conns]
           rw [setH_conns]; split
           · rename_i hcc; subst hcc
             first
               | exact ⟨rfl, fun r h => h⟩
               | (have := hclose s c; exact ⟨this.1, this.2⟩)
               | (have := hcloseO s (s.conns c).jold; exact ⟨this.1, this.2⟩)
           · first | exact ⟨rfl, fun r h => h⟩ | exact hclose _ _ | exact hcloseO _ _)
        | (try dsimp only
           simp only [upd_apply]; split
           · rename_i hcc; subst hcc; refine ⟨rfl, fun r hr => ?_⟩; simp_all
           · exact ⟨rfl, fun r h => h⟩)
  | spawn m d ev => simp [step] at h; subst h; exact ⟨rfl, fun r h => h⟩
  | create d tag => simp [step] at h; subst h; exact ⟨rfl, fun r h => h⟩
  | release c0 =>
    simp only [step] at h
    split at h
    · injection h with h; subst h
      dsimp only; simp only [upd_apply]; split
      · rename_i hcc; subst hcc; exact ⟨rfl, fun r h => h⟩
      · exact ⟨rfl, fun r h => h⟩
    · simp at h
  | deadline c0 => simp only [step] at h; split at h <;> simp at h; subst h; exact ⟨rfl, fun r h => h⟩
  | watch c0 =>
    simp only [step] at h
    repeat' (split at h)
    all_goals (try (simp at h; done))
    all_goals (injection h with h; subst h)
    · exact hclose _ _
    · dsimp only; simp only [upd_apply]; split
      · rename_i hcc; subst hcc; refine ⟨rfl, fun r hr => ?_⟩; simp_all
      · exact ⟨rfl, fun r h => h⟩
  | kick c0 =>
    simp only [step] at h
    split at h
    · injection h with h; subst h; exact hclose _ _
    · simp at h
  | drop c0 =>
    simp only [step] at h
    split at h
    · injection h with h; subst h; exact hclose _ _
    · simp at h
  | quit => simp [step] at h; subst h; exact hquit _


/-- a request's connection was dialled for the request's (post-event) destination -/
def TD (s : St) : Prop := ∀ i, i < s.ntasks → ∀ c, (s.tasks i).conn = some c → (s.conns c).server = (s.tasks i).dest
/-- a request reports success only if its own connection delivered the success -/
def RS (s : St) : Prop := ∀ i, i < s.ntasks → (s.tasks i).res = some .ok →
  ∃ c, (s.tasks i).conn = some c ∧ (s.conns c).result = some .ok

theorem checkServer_ne_ok (s : St) (d : Nat) : checkServer s d ≠ some .ok := by
  unfold checkServer
  split
  · simp
  · split
    · simp
    · split <;> simp
  · simp

theorem stepTask_TD_RS {cfg : Cfg} {s s' : St} {i : Nat} (hTC : TC s) (hTN : TN s) (hTD : TD s) (hRS : RS s)
    (h : stepTask cfg s i = some s') : TD s' ∧ RS s' := by
  have hsr := fun c hc => step_server_result (a := .task i) (cfg := cfg) (s := s) (s' := s') (by simpa [step] using h) c hc
  have hck := checkServer_ne_ok s
  unfold stepTask at h
  split at h
  · simp at h
  · rename_i hi
    have hi' : i < s.ntasks := by omega
    have hTCi := hTC i hi'
    have hTNi := hTN i hi'
    have hTDi := hTD i hi'
    have hRSi := hRS i hi'
    simp only [] at h
    cases hpc : (s.tasks i).pc <;> simp only [hpc] at h
    all_goals (repeat' (split at h))
    all_goals (try (simp at h; done))
    all_goals (try (injection h with h; subst h))
    all_goals
      (constructor
       · intro j hj c hcj
         have hTDj := hTD j; have hTCj := hTC j
         simp only [setPc_tasks, finish_tasks, upd_apply, setPc_ntasks, finish_ntasks, quitPlayer_tasks,
           closeConn_tasks, quitPlayer_ntasks, closeConn_ntasks] at hj hcj ⊢
         first
           | (split at hcj
              · rename_i hji; subst hji
                first
                  | (simp_all [earlyPc]; done)
                  | (simp at hcj; have := (hsr c (hTCi c (by simp_all))).1; simp_all [earlyPc]; done)
              · have hlt := hTCj hj c hcj
                have := (hsr c hlt).1
                simp_all [upd_apply]
                try (split <;> simp_all <;> omega))
           | (have hlt := hTCj hj c hcj
              have := (hsr c hlt).1
              simp_all)
       · intro j hj hres
         have hRSj := hRS j; have hTCj := hTC j
         simp only [setPc_tasks, finish_tasks, upd_apply, setPc_ntasks, finish_ntasks, quitPlayer_tasks,
           closeConn_tasks, quitPlayer_ntasks, closeConn_ntasks] at hj hres ⊢
         first
           | (split at hres
              · rename_i hji; subst hji
                first
                  | (simp_all; done)
                  | (simp at hres
                     obtain ⟨c, hc1, hc2⟩ := hRSi (by simp_all)
                     exact ⟨c, by simp_all [earlyPc], (hsr c (hTCi c hc1)).2 _ hc2⟩)
              · obtain ⟨c, hc1, hc2⟩ := hRSj hj hres
                refine ⟨c, by simp_all, ?_⟩
                exact (hsr c (hTCj hj c hc1)).2 _ hc2)
           | (obtain ⟨c, hc1, hc2⟩ := hRSj hj hres
              exact ⟨c, hc1, (hsr c (hTCj hj c hc1)).2 _ hc2⟩))


theorem TD_RS_ext {cfg : Cfg} {s s' : St} {a : Act} (hna : ∀ i, a ≠ .task i) (hTC : TC s) (hTD : TD s) (hRS : RS s)
    (h : step cfg s a = some s') : TD s' ∧ RS s' := by
  have he := step_tasksExt hna h
  have hsr := fun c hc => step_server_result h c hc
  constructor
  · intro j hj c hcj
    by_cases hlt : j < s.ntasks
    · rw [he.2.1 j hlt] at hcj ⊢
      rw [(hsr c (hTC j hlt c hcj)).1]; exact hTD j hlt c hcj
    · have := (he.2.2 j (by omega) hj).1; simp_all
  · intro j hj hres
    by_cases hlt : j < s.ntasks
    · rw [he.2.1 j hlt] at hres ⊢
      obtain ⟨c, hc1, hc2⟩ := hRS j hlt hres
      exact ⟨c, hc1, (hsr c (hTC j hlt c hc1)).2 _ hc2⟩
    · -- a freshly spawned task has no result yet
      exfalso
      have hj2 : j = s.ntasks := by
        have := he.1
        cases a with
        | task i => exact absurd rfl (hna i)
        | back c0 =>
          simp only [step] at h
          unfold stepBack at h
          split at h
          · simp at h
          · simp only [] at h
            cases hh : (s.conns c0).h <;> simp only [hh] at h
            all_goals (repeat' (split at h))
            all_goals (try (simp at h; done))
            all_goals (try (injection h with h; subst h))
            all_goals (simp at hj; omega)
        | spawn m d ev => simp [step] at h; subst h; simp at hj; omega
        | create d tag => simp [step] at h; subst h; simp at hj; omega
        | release c0 => simp only [step] at h; split at h <;> simp at h; subst h; simp at hj; omega
        | deadline c0 => simp only [step] at h; split at h <;> simp at h; subst h; simp at hj; omega
        | watch c0 =>
          simp only [step] at h
          repeat' (split at h)
          all_goals (try (simp at h; done))
          all_goals (injection h with h; subst h; simp at hj; omega)
        | kick c0 => simp only [step] at h; split at h <;> simp at h; subst h; simp at hj; omega
        | drop c0 => simp only [step] at h; split at h <;> simp at h; subst h; simp at hj; omega
        | quit => simp [step] at h; subst h; simp at hj; omega
      subst hj2
      cases a with
      | task i => exact absurd rfl (hna i)
      | back c0 =>
        simp only [step] at h
        unfold stepBack at h
        split at h
        · simp at h
        · simp only [] at h
          cases hh : (s.conns c0).h <;> simp only [hh] at h
          all_goals (repeat' (split at h))
          all_goals (try (simp at h; done))
          all_goals (try (injection h with h; subst h))
          all_goals (first | (simp at hj; done) | (simp [spawnTask_tasks] at hres))
      | spawn m d ev => simp [step] at h; subst h; simp [spawnTask_tasks] at hres
      | create d tag => simp [step] at h; subst h; simp [spawnTask_tasks] at hres
      | release c0 => simp only [step] at h; split at h <;> simp at h; subst h; simp at hj
      | deadline c0 => simp only [step] at h; split at h <;> simp at h; subst h; simp at hj
      | watch c0 =>
        simp only [step] at h
        repeat' (split at h)
        all_goals (try (simp at h; done))
        all_goals (injection h with h; subst h; simp at hj)
      | kick c0 => simp only [step] at h; split at h <;> simp at h; subst h; simp [spawnTask_tasks] at hres
      | drop c0 => simp only [step] at h; split at h <;> simp at h; subst h; simp [spawnTask_tasks] at hres
      | quit => simp [step] at h; subst h; simp at hj

theorem step_TD_RS {cfg : Cfg} {s s' : St} {a : Act} (hTC : TC s) (hTN : TN s) (hTD : TD s) (hRS : RS s)
    (h : step cfg s a = some s') : TD s' ∧ RS s' := by
  cases a with
  | task i => exact stepTask_TD_RS hTC hTN hTD hRS h
  | back c0 => exact TD_RS_ext (by intro i; simp) hTC hTD hRS h
  | spawn m d ev => exact TD_RS_ext (by intro i; simp) hTC hTD hRS h
  | create d tag => exact TD_RS_ext (by intro i; simp) hTC hTD hRS h
  | release c0 => exact TD_RS_ext (by intro i; simp) hTC hTD hRS h
  | deadline c0 => exact TD_RS_ext (by intro i; simp) hTC hTD hRS h
  | watch c0 => exact TD_RS_ext (by intro i; simp) hTC hTD hRS h
  | kick c0 => exact TD_RS_ext (by intro i; simp) hTC hTD hRS h
  | drop c0 => exact TD_RS_ext (by intro i; simp) hTC hTD hRS h
  | quit => exact TD_RS_ext (by intro i; simp) hTC hTD hRS h

/-! ### a request that reported failure leaves no live connection -/

theorem closeConn_closed_stable (t : St) (o c : Nat) (h : (t.conns c).phase = .closed) :
    ((closeConn t o).conns c).phase = .closed := by
  rcases closeConn_conns_cases t o c with ⟨_, h1⟩ | ⟨_, _, h1⟩ | ⟨_, _, h1⟩ <;> rw [h1] <;> simp_all

theorem closeOpt_closed_stable (t : St) (o : Option Nat) (c : Nat) (h : (t.conns c).phase = .closed) :
    ((closeOpt t o).conns c).phase = .closed := by
  cases o with
  | none => exact h
  | some o => exact closeConn_closed_stable t o c h

theorem quitPlayer_closed_stable (t : St) (c : Nat) (h : (t.conns c).phase = .closed) :
    ((quitPlayer t).conns c).phase = .closed := by
  unfold quitPlayer
  split
  · exact h
  · dsimp only
    exact closeOpt_closed_stable _ _ _ (closeOpt_closed_stable { t with active := false } _ _ h)

/-- a closed connection stays closed -/
theorem step_closed_stable {cfg : Cfg} {s s' : St} {a : Act} (h : step cfg s a = some s') (c : Nat)
    (hc : c < s.nconns) (hp : (s.conns c).phase = .closed) : (s'.conns c).phase = .closed := by
  cases a with
  | task i =>
    simp only [step] at h
    unfold stepTask at h
    split at h
    · simp at h
    · simp only [] at h
      cases hpc : (s.tasks i).pc <;> simp only [hpc] at h
      all_goals (repeat' (split at h))
      all_goals (try (simp at h; done))
      all_goals (try (injection h with h; subst h))
      all_goals first
        | exact hp
        | exact closeConn_closed_stable _ _ _ hp
        | exact quitPlayer_closed_stable _ _ hp
        | exact quitPlayer_closed_stable _ _ (closeConn_closed_stable _ _ _ hp)
        | (try dsimp only
           simp only [upd_apply]; split <;> first | omega | simp_all)
  | back c0 =>
    simp only [step] at h
    unfold stepBack at h
    split at h
    · simp at h
    · simp only [] at h
      cases hh : (s.conns c0).h <;> simp only [hh] at h
      all_goals (repeat' (split at h))
      all_goals (try (simp at h; done))
      all_goals (try (injection h with h; subst h))
      all_goals first
        | exact closeConn_closed_stable _ _ _ hp
        | (try dsimp only [spawnTask_conns]
           rw [setH_conns]; split
           · rename_i hcc; subst hcc
             first
               | exact hp
               | exact closeConn_closed_stable _ _ _ hp
               | exact closeOpt_closed_stable _ _ _ hp
           · first | exact hp | exact closeConn_closed_stable _ _ _ hp | exact closeOpt_closed_stable _ _ _ hp)
        | (try dsimp only
           simp only [upd_apply]; split
           · rename_i hcc; subst hcc; simp_all
           · exact hp)
  | spawn m d ev => simp [step] at h; subst h; exact hp
  | create d tag => simp [step] at h; subst h; exact hp
  | release c0 =>
    simp only [step] at h
    split at h
    · injection h with h; subst h
      dsimp only; simp only [upd_apply]; split
      · rename_i hcc; subst hcc; exact hp
      · exact hp
    · simp at h
  | deadline c0 => simp only [step] at h; split at h <;> simp at h; subst h; exact hp
  | watch c0 =>
    simp only [step] at h
    repeat' (split at h)
    all_goals (try (simp at h; done))
    all_goals (injection h with h; subst h)
    · exact closeConn_closed_stable _ _ _ hp
    · dsimp only; simp only [upd_apply]; split
      · rename_i hcc; subst hcc; exact hp
      · exact hp
  | kick c0 =>
    simp only [step] at h
    split at h
    · injection h with h; subst h; exact closeConn_closed_stable _ _ _ hp
    · simp at h
  | drop c0 =>
    simp only [step] at h
    split at h
    · injection h with h; subst h; exact closeConn_closed_stable _ _ _ hp
    · simp at h
  | quit => simp [step] at h; subst h; exact quitPlayer_closed_stable _ _ hp

/-- a closed connection whose read loop is idle never moves again: a late JoinGame is not handled -/
theorem closed_conn_inert (cfg : Cfg) (s : St) (c : Nat) (hp : (s.conns c).phase = .closed)
    (hh : (s.conns c).h = .idle) : step cfg s (.back c) = none := by
  simp only [step]
  unfold stepBack
  split
  · rfl
  · simp [hh, hp]

/-- what a request knows about its connection: its result is the connection's result (or the dial was refused) -/
def RR (s : St) : Prop := ∀ i, i < s.ntasks → (pastWait (s.tasks i).pc = true ∨ (s.tasks i).pc = .done) →
  ∀ c r, (s.tasks i).conn = some c → (s.tasks i).res = some r →
  (s.conns c).result = some r ∨ (s.conns c).phase = .closed
/-- a finished request that did not succeed has no live connection -/
def FD (s : St) : Prop := ∀ i, i < s.ntasks → (s.tasks i).pc = .done → ∀ c r, (s.tasks i).conn = some c →
  (s.tasks i).res = some r → r ≠ .ok → (s.conns c).phase = .closed

theorem stepTask_RR {cfg : Cfg} {s s' : St} {i : Nat} (hTC : TC s) (hTN : TN s) (hRR : RR s) (hNK : NoKick s)
    (h : stepTask cfg s i = some s') : RR s' := by
  have hst : step cfg s (.task i) = some s' := by simpa [step] using h
  have hsr := fun c hc => step_server_result hst c hc
  have hcl := fun c hc => step_closed_stable hst c hc
  have hck := checkServer_ne_ok s
  unfold stepTask at h
  split at h
  · simp at h
  · rename_i hi
    have hi' : i < s.ntasks := by omega
    have hTCi := hTC i hi'
    have hTNi := hTN i hi'
    have hRRi := hRR i hi'
    have hNKi := hNK i hi'
    simp only [] at h
    cases hpc : (s.tasks i).pc <;> simp only [hpc] at h hNKi
    all_goals (try (simp [isKickPc] at hNKi; done))
    all_goals (repeat' (split at h))
    all_goals (try (simp at h; done))
    all_goals (try (injection h with h; subst h))
    all_goals
      (intro j hj hpj c r hcj hres
       have hRRj := hRR j; have hTCj := hTC j
       simp only [setPc_tasks, finish_tasks, upd_apply, setPc_ntasks, finish_ntasks, quitPlayer_tasks,
         closeConn_tasks, quitPlayer_ntasks, closeConn_ntasks] at hj hpj hcj hres ⊢
       first
         | (split at hcj
            · rename_i hji; subst hji
              simp only [if_true] at hpj hres
              first
                | (simp_all [earlyPc, pastWait]; done)
                | (simp at hcj hres
                   have hlt := hTCi c (by simp_all)
                   rcases hRRi (by simp_all [pastWait]) c r (by simp_all) (by simp_all) with h1 | h1
                   · exact Or.inl ((hsr c hlt).2 _ h1)
                   · exact Or.inr (hcl c hlt h1))
                | (simp at hcj hres
                   have hlt := hTCi c (by simp_all)
                   first
                     | (left; simp_all [upd_apply]; done)
                     | (right; simp_all [upd_apply]; done))
            · rename_i hji
              rw [if_neg hji] at hres hpj
              have hlt := hTCj hj c hcj
              rcases hRRj hj hpj c r hcj hres with h1 | h1
              · exact Or.inl ((hsr c hlt).2 _ h1)
              · exact Or.inr (hcl c hlt h1))
         | (have hlt := hTCj hj c hcj
            rcases hRRj hj hpj c r hcj hres with h1 | h1
            · exact Or.inl ((hsr c hlt).2 _ h1)
            · exact Or.inr (hcl c hlt h1)))

theorem RR_FD_ext {cfg : Cfg} {s s' : St} {a : Act} (hna : ∀ i, a ≠ .task i) (hTC : TC s) (hRR : RR s) (hFD : FD s)
    (h : step cfg s a = some s') : RR s' ∧ FD s' := by
  have he := step_tasksExt hna h
  have hsr := fun c hc => step_server_result h c hc
  have hcl := fun c hc => step_closed_stable h c hc
  constructor
  · intro j hj hpj c r hcj hres
    by_cases hlt : j < s.ntasks
    · rw [he.2.1 j hlt] at hcj hres hpj
      have hc := hTC j hlt c hcj
      rcases hRR j hlt hpj c r hcj hres with h1 | h1
      · exact Or.inl ((hsr c hc).2 _ h1)
      · exact Or.inr (hcl c hc h1)
    · have := (he.2.2 j (by omega) hj).1; simp_all
  · intro j hj hdone c r hcj hres hne
    by_cases hlt : j < s.ntasks
    · rw [he.2.1 j hlt] at hcj hres hdone
      exact hcl c (hTC j hlt c hcj) (hFD j hlt hdone c r hcj hres hne)
    · have := (he.2.2 j (by omega) hj).1; simp_all

theorem stepTask_FD {cfg : Cfg} {s s' : St} {i : Nat} (hwc : cfg.watcherCloses = true) (hJP : JP s) (hTC : TC s)
    (hRR : RR s) (hFD : FD s) (hNK : NoKick s) (h : stepTask cfg s i = some s') : FD s' := by
  have hst : step cfg s (.task i) = some s' := by simpa [step] using h
  have hcl := fun c hc => step_closed_stable hst c hc
  intro j hj hdone c r hcj hres hne
  -- either task j was already finished with the same data …
  by_cases hold : j < s.ntasks ∧ (s.tasks j).pc = .done ∧ (s.tasks j).conn = some c ∧ (s.tasks j).res = some r
  · obtain ⟨h1, h2, h3, h4⟩ := hold
    exact hcl c (hTC j h1 c h3) (hFD j h1 h2 c r h3 h4 hne)
  · -- … or it is the stepping task leaving `cancel`
    unfold stepTask at h
    split at h
    · simp at h
    · rename_i hi
      have hi' : i < s.ntasks := by omega
      have hTCi := hTC i hi'
      have hRRi := hRR i hi'
      have hNKi := hNK i hi'
      simp only [] at h
      cases hpc : (s.tasks i).pc <;> simp only [hpc] at h hNKi
      all_goals (try (simp [isKickPc] at hNKi; done))
      all_goals (repeat' (split at h))
      all_goals (try (simp at h; done))
      all_goals (try (injection h with h; subst h))
      all_goals (simp only [setPc_tasks, finish_tasks, upd_apply, setPc_ntasks, finish_ntasks, quitPlayer_tasks,
        closeConn_tasks, quitPlayer_ntasks, closeConn_ntasks, setPc_conns, finish_conns] at hj hdone hcj hres hold ⊢)
      all_goals first
        | (split at hdone <;> simp_all; done)
        | (split at hdone
           · rename_i hji; subst hji
             simp only [if_true] at hcj hres
             have hlt := hTCi c hcj
             have hJc := hJP c hlt
             rcases hRRi (by simp [pastWait, hpc]) c r hcj hres with h1 | h1
             · have hph := hJc.2.2.2.2.2.2.2.2.2 r h1 hne
               have hnd : (s.conns c).phase ≠ .dialing := by rcases hph with h | h | h <;> simp [h]
               have hcc := closeConn_phase_self s c hnd
               first
                 | exact hcc
                 | exact quitPlayer_closed_stable _ _ hcc
                 | (rcases hph with h | h | h <;> simp_all <;> (try exact quitPlayer_closed_stable _ _ hcc); done)
             · first
                 | exact closeConn_closed_stable _ _ _ h1
                 | exact quitPlayer_closed_stable _ _ (closeConn_closed_stable _ _ _ h1)
                 | exact quitPlayer_closed_stable _ _ h1
                 | exact h1
           · simp_all)

theorem step_RR_FD {cfg : Cfg} {s s' : St} {a : Act} (hwc : cfg.watcherCloses = true) (hJP : JP s) (hTC : TC s)
    (hTN : TN s) (hRR : RR s) (hFD : FD s) (hNK : NoKick s) (h : step cfg s a = some s') : RR s' ∧ FD s' := by
  cases a with
  | task i => exact ⟨stepTask_RR hTC hTN hRR hNK h, stepTask_FD hwc hJP hTC hRR hFD hNK h⟩
  | back c0 => exact RR_FD_ext (by intro i; simp) hTC hRR hFD h
  | spawn m d ev => exact RR_FD_ext (by intro i; simp) hTC hRR hFD h
  | create d tag => exact RR_FD_ext (by intro i; simp) hTC hRR hFD h
  | release c0 => exact RR_FD_ext (by intro i; simp) hTC hRR hFD h
  | deadline c0 => exact RR_FD_ext (by intro i; simp) hTC hRR hFD h
  | watch c0 => exact RR_FD_ext (by intro i; simp) hTC hRR hFD h
  | kick c0 => exact RR_FD_ext (by intro i; simp) hTC hRR hFD h
  | drop c0 => exact RR_FD_ext (by intro i; simp) hTC hRR hFD h
  | quit => exact RR_FD_ext (by intro i; simp) hTC hRR hFD h

structure Inv2 (s : St) : Prop where
  i1 : Inv1 s
  c2 : Core2 s
  nk : NoKick s
  act : s.active = true
  td : TD s
  rs : RS s
  rr : RR s
  fd : FD s

theorem reach2_inv2 {cfg : Cfg} (hr : Repaired cfg) {s : St} (h : Reach cfg G2 s) : Inv2 s := by
  induction h with
  | init hi =>
    exact ⟨inv1_init _ hi.1 hi.2.1, core2_init _ hi.1 hi.2.2.2.1 hi.2.2.2.2.1, fun i hi' => by have := hi.2.1; omega,
      hi.2.2.2.2.2, fun i hi' => by have := hi.2.1; omega, fun i hi' => by have := hi.2.1; omega,
      fun i hi' => by have := hi.2.1; omega, fun i hi' => by have := hi.2.1; omega⟩
  | @step s s' a _ hg hs ih =>
    have hg1 : Guard1 s a := guard1_of_noKick ih.nk a (fun i hi => by subst hi; exact stepTask_lt hs)
    have htr := step_TD_RS ih.i1.tc ih.i1.tn ih.td ih.rs hs
    have hrf := step_RR_FD hr.2.2.2 ih.i1.jp ih.i1.tc ih.i1.tn ih.rr ih.fd ih.nk hs
    exact ⟨inv1_step hr.1 hr.2.1 hr.2.2.2 ih.i1 hg1 hs,
      core2_step hr.2.2.1 hr.2.2.2 ih.i1 ih.c2 hg.2.1 ih.nk hg.1 hg.2.2 hs, hg.1, hg.2.1, htr.1, htr.2, hrf.1, hrf.2⟩


theorem scanTry_sound (skip : Nat → Bool) : ∀ (l : List Nat) (i j x : Nat),
    scanTry skip l i = some (j, x) → x ∈ l ∧ skip x = false := by
  intro l
  induction l with
  | nil => intro i j x h; simp [scanTry] at h
  | cons y ys ih =>
    intro i j x h
    simp only [scanTry] at h
    split at h
    · obtain ⟨h1, h2⟩ := ih _ _ _ h; exact ⟨List.mem_cons_of_mem _ h1, h2⟩
    · rename_i hsk; simp at h; obtain ⟨_, rfl⟩ := h; exact ⟨List.mem_cons_self, by simpa using hsk⟩

end Gate.C16
