/-
C16 — server switches: executable model of what the Go code does (core Lean only).

One player.  Shared state = the fields guarded by `player.mu` (`connInFlight`, `connectedServer_`, `tryIndex`),
the per-server player lists, per backend connection its session-handler phase / request result (`requestCtx.once`)
/ `completedJoin`, and whether the client connection is alive.  Goroutines:

* request tasks      — `connectionRequest.connect` / `ConnectWithIndication` / the redirect issued by
                       `handleKickEvent`: checkServer → ServerPreConnectEvent → checkServer → publish in-flight
                       connection → dial → wait for the login result → deferred `resetIfInFlightIs` → post-processing,
                       and the kick path `handleConnectionErr2` → `handleKickEvent` (each `p.mu` critical section
                       is one step);
* backend read loops — one per backend connection, sequential: login outcome, (1.20.2+) config phase with
                       `doSwitch`, the transition handler's JoinGame path (each critical section one step),
                       disconnects / EOF in every phase.

`step cfg s a` runs ONE atomic step; which goroutine moves next is the nondeterministic input (`Act`), as are the
backend's scripted behaviour (`Beh`, consumed per dial), stalls/releases, kicks in play and the event outcome.

Variant switches (DESIGN §6.5): `atomicSet` (repaired: second check + publish are one critical section;
defective: `checkServer` and `setInFlightConnection` are separate) and `foreignReset` (defective: `connect()` clears
the in-flight slot after ANY unsuccessful result, also one that belongs to another request).

Request objects: `Act.create` is `CreateConnectionRequest` alone — the object (with its creation-time snapshot
`prev` = `previousServer`) may be connected at ANY later point (`created → check1` is an ordinary task step), so
schedules quantify over the creation point.  The repaired `handleJoinGame` never consults the snapshot for its decision
(variant `joinBySnapshot` = a seeded defect that does).

Deadlines: `Act.deadline c` (the request's context is done, at any time) enables `Act.watch c`, the watcher goroutine
of the login / transition handler (`Activated`): it fails the request and closes the connection — modelled as ONE
step, i.e. the watcher's two statements are assumed not to interleave with the connection's own read loop.
`Beh.lateJoin` is the backend that logs in promptly and sends JoinGame only after being released.

Abstractions: events other than ServerPreConnect are not modelled (no subscriber), Forge phases are absent (every
result is "safe"), timeouts never fire, `Player.Disconnect` + `teardown` is a single step (`quitPlayer`), the client
always answers the configuration hand-shake (folded into the backend step that needs the answer).
-/
namespace Gate.C16

inductive Beh | accept | refuse | kickLogin | eofLogin | kickConfig | kickTrans | eofTrans | enc | idle
  | lateJoin      -- completes login (and configuration) promptly, then keeps silent before JoinGame until released
  deriving DecidableEq, Repr, Inhabited

inductive Phase | dialing | login | config | transition | play | closed
  deriving DecidableEq, Repr, Inhabited

inductive Res | ok | already | inprogress | canceled | disconnected | err
  deriving DecidableEq, Repr, Inhabited

/-- where a backend read loop stands inside a multi-section handler (`idle` = between two packets) -/
inductive H | idle | closeSelf | cfgKick2 | sw1 | sw2 | sw3 | j1b | j3 | j4 | j5
  deriving DecidableEq, Repr, Inhabited

structure Conn where
  server : Nat := 0
  beh : Beh := .accept
  stalled : Bool := false
  phase : Phase := .closed
  h : H := .idle
  jold : Option Nat := none          -- `existingConn` local of handleJoinGame / doSwitch
  completedJoin : Bool := false
  result : Option Res := none        -- requestCtx.result (sync.Once): first writer wins
  prev : Option Nat := none          -- `previousServer`: the REQUEST's creation-time snapshot, not the player's state
  deriving DecidableEq, Repr, Inhabited

inductive Mode | plain | indication | redirect
  deriving DecidableEq, Repr, Inhabited

inductive Ev | allow | deny | redirect (d : Nat)
  deriving DecidableEq, Repr, Inhabited

inductive PC
  | created                          -- CreateConnectionRequest done, Connect not called yet
  | check1 | event | check2 | set | dial | wait | deferReset | post | cancel | done
  | err2 (rs : Nat) | next (rs : Nat) | resetIf (rs : Nat)
  | kickReset (kfc : Bool) (redir : Option Nat)
  | kickClear (kfc : Bool) (redir : Option Nat)
  | kickApply (kfc : Bool) (redir : Option Nat) (prev : Bool)
  deriving DecidableEq, Repr, Inhabited

structure Task where
  pc : PC := .done
  mode : Mode := .plain
  orig : Nat := 0                    -- the server the request was created for
  dest : Nat := 0                    -- the destination after the event
  ev : Ev := .allow
  conn : Option Nat := none
  res : Option Res := none
  prev : Option Nat := none          -- server the player was on when the request object was CREATED (nil-able)
  tag : Nat := 0                     -- harness key of a request object kept for later (0 = none)
  timed : Bool := false              -- Connect was called with a short deadline (driver bookkeeping)
  deriving DecidableEq, Repr, Inhabited

structure Cfg where
  modern : Bool                      -- 1.20.2+: login → config → play
  try_ : List Nat                    -- config `try`
  atomicSet : Bool
  foreignReset : Bool
  joinBySnapshot : Bool := false     -- defective: handleJoinGame consults the request's snapshot instead of the player
  watcherCloses : Bool := true       -- repaired/original: the transition handler's deadline watcher closes the connection
  deriving Repr

structure St where
  nconns : Nat := 0
  conns : Nat → Conn := fun _ => {}
  ntasks : Nat := 0
  tasks : Nat → Task := fun _ => {}
  inFlight : Option Nat := none
  current : Option Nat := none
  players : List Nat := []           -- servers whose player list contains the player
  active : Bool := true
  clientPlay : Bool := false         -- the client's active session handler is the play handler
  tryIndex : Nat := 0
  scripts : Nat → List (Beh × Bool) := fun _ => []   -- per server: behaviour (and stall flag) of the coming dials
  expired : Nat → Bool := fun _ => false   -- per connection: the request's context is done (deadline / cancel)
  timed : Nat → Bool := fun _ => false     -- per connection: its request was issued with a short deadline (driver only)

inductive Act
  | task (i : Nat)                   -- request / kick-path goroutine i runs its next critical section
  | back (c : Nat)                   -- read loop of backend connection c handles its next packet / section
  | spawn (m : Mode) (d : Nat) (ev : Ev)   -- CreateConnectionRequest(d) immediately followed by Connect
  | create (d : Nat) (tag : Nat)     -- CreateConnectionRequest(d) only: the object is kept, Connect comes later (if ever)
  | release (c : Nat)                -- a stalled backend goes on
  | deadline (c : Nat)               -- the context of connection c's request expires (at ANY time)
  | watch (c : Nat)                  -- the deadline watcher goroutine of c's login / transition handler runs
  | kick (c : Nat)                   -- backend sends Disconnect in play
  | drop (c : Nat)                   -- backend closes the connection in play
  | quit                             -- the client leaves
  deriving DecidableEq, Repr

def upd {α} (f : Nat → α) (i : Nat) (x : α) : Nat → α := fun j => if j = i then x else f j

def orElse (r : Option Res) (x : Res) : Option Res := match r with | some y => some y | none => some x

/-- `connectionRequest.checkServer` (one read-locked section) -/
def checkServer (s : St) (d : Nat) : Option Res :=
  match s.inFlight, s.current with
  | some _, _ => some .inprogress
  | none, some c =>
      if !(s.conns c).completedJoin then some .inprogress
      else if (s.conns c).server = d then some .already else none
  | none, none => none

/-- `serverConnection.disconnect` / the connection being closed by the peer: `closeKnown` runs the active
    handler's `Disconnected()` once — login/config/transition handlers complete the request with an error,
    the play handler removes the player from the server's list. -/
def closeConn (s : St) (c : Nat) : St :=
  let C := s.conns c
  match C.phase with
  | .closed => s
  | .dialing => s
  | .play => { s with conns := upd s.conns c { C with phase := .closed },
                      players := s.players.filter (fun x => x != C.server) }
  | _ => { s with conns := upd s.conns c { C with phase := .closed, result := orElse C.result .err } }

def closeOpt (s : St) (o : Option Nat) : St := match o with | some c => closeConn s c | none => s

def setH (s : St) (c : Nat) (h : H) : St :=
  { s with conns := upd s.conns c { s.conns c with h := h } }

def addPlayer (l : List Nat) (x : Nat) : List Nat := if l.contains x then l else x :: l

def spawnTask (s : St) (t : Task) : St :=
  { s with ntasks := s.ntasks + 1, tasks := upd s.tasks s.ntasks t }

/-- `Player.Disconnect` → client connection closed → `teardown`: both known backend connections are closed -/
def quitPlayer (s : St) : St :=
  if !s.active then s else
  let s1 := { s with active := false }
  closeOpt (closeOpt s1 s1.inFlight) s1.current

def scanTry (skip : Nat → Bool) : List Nat → Nat → Option (Nat × Nat)
  | [], _ => none
  | x :: xs, i => if skip x then scanTry skip xs (i + 1) else some (i, x)

/-- `nextServerToTry(rs)`: first server of the try list from `tryIndex` on that is neither the current one,
    nor the one in flight, nor `rs` -/
def nextToTry (cfg : Cfg) (s : St) (rs : Nat) : Option (Nat × Nat) :=
  let skip := fun x =>
    (match s.current with | some c => (s.conns c).server == x | none => false) ||
    (match s.inFlight with | some c => (s.conns c).server == x | none => false) || x == rs
  scanTry skip (cfg.try_.drop s.tryIndex) s.tryIndex

/-- the server the player is on right now (`connectedServer()` at request creation) -/
def curServer (s : St) : Option Nat := s.current.map fun c => (s.conns c).server

def isKickPc : PC → Bool
  | .err2 _ | .next _ | .resetIf _ | .kickReset _ _ | .kickClear _ _ | .kickApply _ _ _ => true
  | _ => false

/-- one critical section of backend read loop `c` -/
def stepBack (cfg : Cfg) (s : St) (c : Nat) : Option St :=
  if c ≥ s.nconns then none else
  let C := s.conns c
  match C.h with
  | .closeSelf => some (setH (closeConn s c) c .idle)
  | .cfgKick2 =>
      -- session_backend_config.go: `if player.connectionInFlight() != nil { requestCtx.result(..) } else { handleDisconnect }`
      if s.inFlight.isSome then some (setH s c .idle)
      else some (spawnTask (setH s c .idle) { pc := .err2 C.server, orig := C.server, dest := C.server })
  | .sw1 =>   -- doSwitch: existingConn := player.connectedServer()
      match s.current with
      | none => some { setH s c .idle with clientPlay := false }
      | some o => some { s with conns := upd s.conns c { C with h := .sw2, jold := some o } }
  | .sw2 =>   -- doSwitch: player.setConnectedServer(nil)
      some { s with conns := upd s.conns c { C with h := .sw3 }, current := none, tryIndex := 0 }
  | .sw3 =>   -- doSwitch: existingConn.disconnect(); switchToConfigState
      some { setH (closeOpt s C.jold) c .idle with clientPlay := false }
  | .j1b =>   -- handleJoinGame: existingConn.disconnect()
      some (setH (closeOpt s C.jold) c .j3)
  | .j3 =>    -- handleBackendJoinGame (completeJoin) ; SetActiveSessionHandler(play) → Activated → players.add
      some { s with conns := upd s.conns c { C with h := .j4, completedJoin := true,
                                                    phase := if C.phase = .closed then .closed else .play },
                    players := addPlayer s.players C.server }
  | .j4 =>    -- player.setConnectedServer(serverConn)
      some { s with conns := upd s.conns c { C with h := .j5 }, current := some c, tryIndex := 0,
                    inFlight := if s.inFlight = some c then none else s.inFlight }
  | .j5 =>    -- requestCtx.result(Success)
      some { s with conns := upd s.conns c { C with h := .idle, result := orElse C.result .ok } }
  | .idle =>
    if C.stalled then none else
    match C.phase with
    | .login =>
      match C.beh with
      | .kickLogin => some { s with conns := upd s.conns c { C with h := .closeSelf, result := orElse C.result .disconnected } }
      | .eofLogin => some (closeConn s c)
      | .enc => some { s with conns := upd s.conns c { C with beh := .idle, result := orElse C.result .err } }
      | .idle => none
      | .refuse => none
      | _ =>      -- ServerLoginSuccess
        if cfg.modern then
          some { s with conns := upd s.conns c { C with phase := .config, h := if s.clientPlay then .sw1 else .idle } }
        else
          some { s with conns := upd s.conns c { C with phase := .transition, stalled := C.beh == .lateJoin,
                                                        beh := if C.beh = .lateJoin then .accept else C.beh } }
    | .config =>
      match C.beh with
      | .kickConfig => some (setH (closeConn s c) c .cfgKick2)
      | .accept | .kickTrans | .eofTrans | .lateJoin =>      -- backend FinishedUpdate
        if s.clientPlay then some (closeConn s c)    -- "expected client config session handler"
        else some { s with conns := upd s.conns c { C with phase := .transition, stalled := C.beh == .lateJoin,
                                                           beh := if C.beh = .lateJoin then .accept else C.beh },
                           clientPlay := true }
      | _ => none
    | .transition =>
      match C.beh with
      | .kickTrans => some { s with conns := upd s.conns c { C with h := .closeSelf, result := orElse C.result .disconnected } }
      | .kickConfig => some { s with conns := upd s.conns c { C with h := .closeSelf, result := orElse C.result .disconnected } }
      | .eofTrans => some (closeConn s c)
      | .accept =>     -- JoinGame: lock; existingConn := connectedServer_; connectedServer_ = nil; unlock
        -- (defective variant: the lookup is skipped when the REQUEST's snapshot `previousServer` is nil)
        if cfg.joinBySnapshot && C.prev.isNone then
          some { s with conns := upd s.conns c { C with h := .j3, jold := none } }
        else
        match s.current with
        | some o => some { s with conns := upd s.conns c { C with h := .j1b, jold := some o }, current := none }
        | none => some { s with conns := upd s.conns c { C with h := .j3, jold := none } }
      | _ => none
    | _ => none

def finish (s : St) (i : Nat) (r : Res) : St :=
  { s with tasks := upd s.tasks i { s.tasks i with res := some r, pc := .post } }

def setPc (s : St) (i : Nat) (pc : PC) : St :=
  { s with tasks := upd s.tasks i { s.tasks i with pc := pc } }

/-- one critical section of request / kick-path goroutine `i` -/
def stepTask (cfg : Cfg) (s : St) (i : Nat) : Option St :=
  if i ≥ s.ntasks then none else
  let T := s.tasks i
  match T.pc with
  | .created => some (setPc s i .check1)     -- Connect(ctx) is called on the kept request object
  | .check1 =>
      match checkServer s T.dest with
      | some r => some (finish s i r)
      | none => some (setPc s i .event)
  | .event =>
      match T.ev with
      | .allow => some (setPc s i .check2)
      | .deny => some (finish s i .canceled)
      | .redirect d => some { s with tasks := upd s.tasks i { T with dest := d, pc := .check2 } }
  | .check2 =>
      match checkServer s T.dest with
      | some r => some (finish s i r)
      | none => some (setPc s i .set)
  | .set =>
      match (if cfg.atomicSet then checkServer s T.dest else none) with
      | some r => some (finish s i r)
      | none =>
        some { s with nconns := s.nconns + 1,
                      conns := upd s.conns s.nconns { server := T.dest, phase := .dialing, prev := T.prev },
                      inFlight := some s.nconns,
                      timed := upd s.timed s.nconns T.timed,
                      tasks := upd s.tasks i { T with conn := some s.nconns, pc := .dial } }
  | .dial =>
      match T.conn with
      | none => none
      | some c =>
        if (s.conns c).phase ≠ .dialing then none else   -- (always true here: the connection was created by `set`)
        let (b, st, rest) := match s.scripts T.dest with
          | [] => (Beh.accept, false, [])
          | (b, st) :: rest => (b, st, rest)
        let s1 := { s with scripts := upd s.scripts T.dest rest }
        if b = .refuse then
          some { s1 with conns := upd s.conns c { s.conns c with phase := .closed, beh := b },
                         tasks := upd s.tasks i { T with res := some .err, pc := .deferReset } }
        else
          some { s1 with conns := upd s.conns c { s.conns c with phase := .login, beh := b, stalled := st },
                         tasks := upd s.tasks i { T with pc := .wait } }
  | .wait =>
      match T.conn with
      | none => none
      | some c =>
        match (s.conns c).result with
        | none => none
        | some r => some { s with tasks := upd s.tasks i { T with res := some r, pc := .deferReset } }
  | .deferReset =>    -- resetIfInFlightIs(conn)
      some { s with inFlight := if s.inFlight = T.conn then none else s.inFlight,
                    tasks := upd s.tasks i { T with pc := .post } }
  | .post =>          -- connect(): `if err == nil && !Successful { …; resetInFlightConnection() }` (defective variant)
      let unsuccessful := T.res = some .already || T.res = some .inprogress || T.res = some .canceled ||
                          T.res = some .disconnected
      let s1 := if cfg.foreignReset && T.mode != .indication && unsuccessful then { s with inFlight := none } else s
      some (setPc s1 i .cancel)
  | .cancel =>        -- the caller's ctx is cancelled after the call: a login/transition handler still installed closes
      let s1 := match T.conn with
        | some c => if (s.conns c).phase = .login || ((s.conns c).phase = .transition && cfg.watcherCloses)
                    then closeConn s c else s
        | none => s
      match T.mode, T.res with
      | .plain, _ => some (setPc s1 i .done)
      | .indication, some .err => some (setPc s1 i (.err2 T.orig))
      | .indication, some .disconnected => some (setPc s1 i (.err2 T.orig))
      | .redirect, some .err => some (setPc s1 i (.err2 T.orig))
      | .redirect, some .disconnected => some (setPc s1 i (.err2 T.orig))
      | .redirect, some .canceled => some (setPc (quitPlayer s1) i .done)
      | _, _ => some (setPc s1 i .done)
  | .done => none
  | .err2 rs =>       -- handleConnectionErr2: Active?; kickedFromCurrent := CurrentServer()==nil || same server
      if !s.active then some (setPc s i .done) else
      let kfc := match s.current with | none => true | some c => (s.conns c).server == rs
      some (setPc s i (if kfc then .next rs else .resetIf rs))
  | .next rs =>       -- nextServerToTry (write-locked)
      match nextToTry cfg s rs with
      | some (idx, d) => some { setPc s i (.kickReset true (some d)) with tryIndex := idx }
      | none => some (setPc s i (.kickReset true none))
  | .resetIf rs =>    -- lock; if connInFlight.Server()==rs { connInFlight = nil }
      let s1 := match s.inFlight with
        | some c => if (s.conns c).server = rs then { s with inFlight := none } else s
        | none => s
      some (setPc s1 i (.kickReset false none))
  | .kickReset kfc redir =>   -- handleKickEvent: setInFlightConnection(nil)
      some (setPc { s with inFlight := none } i (.kickClear kfc redir))
  | .kickClear kfc redir =>   -- lock; previousConnection := connectedServer_; if kickedFromCurrent { connectedServer_ = nil }
      some (setPc { s with current := if kfc then none else s.current } i (.kickApply kfc redir s.current.isSome))
  | .kickApply kfc redir prev =>
      if !s.active then some (setPc s i .done) else
      match kfc, redir with
      | true, some d =>   -- createConnectionRequestWith(next, previousConnection): only the nil-ness of the snapshot matters
          some { s with tasks := upd s.tasks i { pc := .check1, mode := .redirect, orig := d, dest := d,
                                                 prev := if prev then some d else none } }
      | true, none => some (setPc (quitPlayer s) i .done)
      | false, _ => if prev then some (setPc s i .done) else some (setPc (quitPlayer s) i .done)

def step (cfg : Cfg) (s : St) : Act → Option St
  | .task i => stepTask cfg s i
  | .back c => stepBack cfg s c
  | .spawn m d ev => some (spawnTask s { pc := .check1, mode := m, orig := d, dest := d, ev := ev, prev := curServer s })
  | .create d tag => some (spawnTask s { pc := .created, orig := d, dest := d, prev := curServer s, tag := tag })
  | .release c => if c < s.nconns && (s.conns c).stalled then
        some { s with conns := upd s.conns c { s.conns c with stalled := false } } else none
  | .deadline c => if c < s.nconns && !s.expired c then some { s with expired := upd s.expired c true } else none
  | .watch c =>
      -- Activated(): `<-requestCtx.Done()` → requestCtx.result(nil, deadline error); serverConn.disconnect()
      -- (both statements as ONE step; the seeded defect drops the disconnect of the transition handler's watcher)
      if c < s.nconns && s.expired c then
        if (s.conns c).phase = .login || ((s.conns c).phase = .transition && cfg.watcherCloses) then some (closeConn s c)
        else if (s.conns c).phase = .transition && (s.conns c).result.isNone then
          some { s with conns := upd s.conns c { s.conns c with result := some .err } }
        else none
      else none
  | .kick c => if c < s.nconns && (s.conns c).phase = .play && (s.conns c).h = .idle then
        some (spawnTask (closeConn s c) { pc := .err2 (s.conns c).server, orig := (s.conns c).server, dest := (s.conns c).server })
      else none
  | .drop c => if c < s.nconns && (s.conns c).phase = .play && (s.conns c).h = .idle then
        some (spawnTask (closeConn s c) { pc := .err2 (s.conns c).server, orig := (s.conns c).server, dest := (s.conns c).server })
      else none
  | .quit => some (quitPlayer s)

/-- run a schedule -/
def run (cfg : Cfg) : St → List Act → Option St
  | s, [] => some s
  | s, a :: as => match step cfg s a with | some s' => run cfg s' as | none => none

/-- an attempt is in flight from the moment its connection is published until it has either been installed as the
    current server (`setConnectedServer`, step j4) or produced a result / been closed -/
def attempting (C : Conn) : Bool :=
  C.result.isNone &&
  (C.phase = .dialing || C.phase = .login || C.phase = .config || C.phase = .transition || C.h = .j4)

def countAttempting (s : St) : Nat → Nat
  | 0 => 0
  | n + 1 => countAttempting s n + (if attempting (s.conns n) then 1 else 0)

/-- number of attempts in flight -/
def inFlightCount (s : St) : Nat := countAttempting s s.nconns

def repaired (modern : Bool) (try_ : List Nat) : Cfg := ⟨modern, try_, true, false, false, true⟩
def original (modern : Bool) (try_ : List Nat) : Cfg := ⟨modern, try_, false, true, false, true⟩

end Gate.C16
