import GateModel.C16.L1
import GateModel.C16.L2
import GateModel.C16.L3
import GateModel.C16.L4
/-
C16 — helper lemmas (aggregator).
  L1  frame facts of the primitive updates; per-connection well-formedness `JP`; `attempting` never becomes true again
  L2  task-side invariants and the in-flight invariant `A` (an attempt in flight owns the in-flight slot) ⇒ at most one
  L3  the switch-over invariants `Core2` (current server / exactly one live backend / player lists)
  L4  reachability under a hypothesis on the schedule, request bookkeeping, packaged invariants
-/
