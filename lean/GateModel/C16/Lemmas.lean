import GateModel.C16.L1
import GateModel.C16.L2
/-
C16 — helper lemmas (aggregator): L1 = frame facts + monotonicity of `attempting`, L2 = the in-flight invariant,
L3 = the switch-over invariants (current server / player lists).
-/
