import GateModel.C16.Model
/-
C16 — helper lemmas, part 1: frame facts of the primitive updates, handler/phase consistency, monotonicity of `attempting`.
-/
namespace Gate.C16

set_option linter.unusedSimpArgs false
set_option linter.unusedVariables false

@[simp] theorem upd_same {α} (f : Nat → α) (i : Nat) (x : α) : upd f i x i = x := by simp [upd]
theorem upd_other {α} (f : Nat → α) (i j : Nat) (x : α) (h : j ≠ i) : upd f i x j = f j := by simp [upd, h]
theorem upd_apply {α} (f : Nat → α) (i j : Nat) (x : α) : upd f i x j = if j = i then x else f j := rfl

@[simp] theorem orElse_isNone (r : Option Res) (x : Res) : (orElse r x).isNone = false := by
  cases r <;> rfl
@[simp] theorem orElse_ne_none (r : Option Res) (x : Res) : orElse r x ≠ none := by
  cases r <;> simp [orElse]
@[simp] theorem orElse_some (y x : Res) : orElse (some y) x = some y := rfl
@[simp] theorem orElse_none (x : Res) : orElse none x = some x := rfl

/-! ### closeConn / closeOpt -/
@[simp] theorem closeConn_nconns (s : St) (o : Nat) : (closeConn s o).nconns = s.nconns := by
  cases hp : (s.conns o).phase <;> simp [closeConn, hp]
@[simp] theorem closeConn_ntasks (s : St) (o : Nat) : (closeConn s o).ntasks = s.ntasks := by
  cases hp : (s.conns o).phase <;> simp [closeConn, hp]
@[simp] theorem closeConn_tasks (s : St) (o : Nat) : (closeConn s o).tasks = s.tasks := by
  cases hp : (s.conns o).phase <;> simp [closeConn, hp]
@[simp] theorem closeConn_inFlight (s : St) (o : Nat) : (closeConn s o).inFlight = s.inFlight := by
  cases hp : (s.conns o).phase <;> simp [closeConn, hp]
@[simp] theorem closeConn_current (s : St) (o : Nat) : (closeConn s o).current = s.current := by
  cases hp : (s.conns o).phase <;> simp [closeConn, hp]
@[simp] theorem closeConn_active (s : St) (o : Nat) : (closeConn s o).active = s.active := by
  cases hp : (s.conns o).phase <;> simp [closeConn, hp]

theorem closeConn_conns_other (s : St) (o c : Nat) (h : c ≠ o) : (closeConn s o).conns c = s.conns c := by
  cases hp : (s.conns o).phase <;> simp [closeConn, hp, upd_other, h]

theorem closeConn_conns_cases (s : St) (o c : Nat) :
    ((c ≠ o ∨ (s.conns c).phase = .closed ∨ (s.conns c).phase = .dialing) ∧ (closeConn s o).conns c = s.conns c) ∨
    ((s.conns c).phase = .play ∧ c = o ∧ (closeConn s o).conns c = { s.conns c with phase := .closed }) ∨
    (((s.conns c).phase = .login ∨ (s.conns c).phase = .config ∨ (s.conns c).phase = .transition) ∧ c = o ∧
      (closeConn s o).conns c = { s.conns c with phase := .closed, result := orElse (s.conns c).result .err }) := by
  by_cases hc : c = o
  · subst hc
    cases hp : (s.conns c).phase <;> simp [closeConn, hp]
  · left; exact ⟨Or.inl hc, closeConn_conns_other s o c hc⟩

@[simp] theorem closeConn_h (s : St) (o c : Nat) : ((closeConn s o).conns c).h = (s.conns c).h := by
  rcases closeConn_conns_cases s o c with ⟨_, h⟩ | ⟨_, _, h⟩ | ⟨_, _, h⟩ <;> rw [h]
@[simp] theorem closeConn_server (s : St) (o c : Nat) : ((closeConn s o).conns c).server = (s.conns c).server := by
  rcases closeConn_conns_cases s o c with ⟨_, h⟩ | ⟨_, _, h⟩ | ⟨_, _, h⟩ <;> rw [h]
@[simp] theorem closeConn_jold (s : St) (o c : Nat) : ((closeConn s o).conns c).jold = (s.conns c).jold := by
  rcases closeConn_conns_cases s o c with ⟨_, h⟩ | ⟨_, _, h⟩ | ⟨_, _, h⟩ <;> rw [h]
@[simp] theorem closeConn_completedJoin (s : St) (o c : Nat) :
    ((closeConn s o).conns c).completedJoin = (s.conns c).completedJoin := by
  rcases closeConn_conns_cases s o c with ⟨_, h⟩ | ⟨_, _, h⟩ | ⟨_, _, h⟩ <;> rw [h]

theorem closeConn_phase_self (s : St) (o : Nat) (h : (s.conns o).phase ≠ .dialing) :
    ((closeConn s o).conns o).phase = .closed := by
  cases hp : (s.conns o).phase <;> simp_all [closeConn]

theorem closeConn_attempting (s : St) (o c : Nat) (h : attempting ((closeConn s o).conns c) = true) :
    attempting (s.conns c) = true := by
  rcases closeConn_conns_cases s o c with ⟨_, h1⟩ | ⟨hp, _, h1⟩ | ⟨hp, _, h1⟩
  · rwa [h1] at h
  · rw [h1] at h; simp_all [attempting]
  · rw [h1] at h; simp_all [attempting]

@[simp] theorem closeOpt_nconns (s : St) (o : Option Nat) : (closeOpt s o).nconns = s.nconns := by
  cases o <;> simp [closeOpt]
@[simp] theorem closeOpt_ntasks (s : St) (o : Option Nat) : (closeOpt s o).ntasks = s.ntasks := by
  cases o <;> simp [closeOpt]
@[simp] theorem closeOpt_tasks (s : St) (o : Option Nat) : (closeOpt s o).tasks = s.tasks := by
  cases o <;> simp [closeOpt]
@[simp] theorem closeOpt_inFlight (s : St) (o : Option Nat) : (closeOpt s o).inFlight = s.inFlight := by
  cases o <;> simp [closeOpt]
@[simp] theorem closeOpt_current (s : St) (o : Option Nat) : (closeOpt s o).current = s.current := by
  cases o <;> simp [closeOpt]
@[simp] theorem closeOpt_active (s : St) (o : Option Nat) : (closeOpt s o).active = s.active := by
  cases o <;> simp [closeOpt]
@[simp] theorem closeOpt_h (s : St) (o : Option Nat) (c : Nat) : ((closeOpt s o).conns c).h = (s.conns c).h := by
  cases o <;> simp [closeOpt]
@[simp] theorem closeOpt_server (s : St) (o : Option Nat) (c : Nat) :
    ((closeOpt s o).conns c).server = (s.conns c).server := by
  cases o <;> simp [closeOpt]
@[simp] theorem closeOpt_jold (s : St) (o : Option Nat) (c : Nat) : ((closeOpt s o).conns c).jold = (s.conns c).jold := by
  cases o <;> simp [closeOpt]
@[simp] theorem closeOpt_completedJoin (s : St) (o : Option Nat) (c : Nat) :
    ((closeOpt s o).conns c).completedJoin = (s.conns c).completedJoin := by
  cases o <;> simp [closeOpt]
theorem closeOpt_attempting (s : St) (o : Option Nat) (c : Nat) (h : attempting ((closeOpt s o).conns c) = true) :
    attempting (s.conns c) = true := by
  cases o with
  | none => exact h
  | some o => exact closeConn_attempting s o c h

theorem closeOpt_conns_cases (s : St) (o : Option Nat) (c : Nat) :
    (closeOpt s o).conns c = s.conns c ∨
    ((s.conns c).phase = .play ∧ o = some c ∧ (closeOpt s o).conns c = { s.conns c with phase := .closed }) ∨
    (((s.conns c).phase = .login ∨ (s.conns c).phase = .config ∨ (s.conns c).phase = .transition) ∧ o = some c ∧
      (closeOpt s o).conns c = { s.conns c with phase := .closed, result := orElse (s.conns c).result .err }) := by
  cases o with
  | none => left; rfl
  | some o =>
    rcases closeConn_conns_cases s o c with ⟨_, h⟩ | ⟨hp, hc, h⟩ | ⟨hp, hc, h⟩
    · left; exact h
    · right; left; exact ⟨hp, by rw [hc], h⟩
    · right; right; exact ⟨hp, by rw [hc], h⟩

/-! ### setH / spawnTask / setPc / finish -/
@[simp] theorem setH_nconns (s : St) (c : Nat) (h : H) : (setH s c h).nconns = s.nconns := rfl
@[simp] theorem setH_inFlight (s : St) (c : Nat) (h : H) : (setH s c h).inFlight = s.inFlight := rfl
@[simp] theorem setH_current (s : St) (c : Nat) (h : H) : (setH s c h).current = s.current := rfl
@[simp] theorem setH_tasks (s : St) (c : Nat) (h : H) : (setH s c h).tasks = s.tasks := rfl
@[simp] theorem setH_ntasks (s : St) (c : Nat) (h : H) : (setH s c h).ntasks = s.ntasks := rfl
@[simp] theorem setH_active (s : St) (c : Nat) (h : H) : (setH s c h).active = s.active := rfl
@[simp] theorem setH_players (s : St) (c : Nat) (h : H) : (setH s c h).players = s.players := rfl
theorem setH_conns (s : St) (c d : Nat) (h : H) :
    (setH s c h).conns d = if d = c then { s.conns c with h := h } else s.conns d := by
  simp [setH, upd_apply]

theorem setH_attempting (s : St) (c0 c : Nat) (h' : H) (hne : h' ≠ .j4)
    (ha : attempting ((setH s c0 h').conns c) = true) : attempting (s.conns c) = true := by
  rw [setH_conns] at ha
  split at ha
  · rename_i hcc; subst hcc; cases h' <;> simp_all [attempting]
  · exact ha

@[simp] theorem spawnTask_conns (s : St) (t : Task) : (spawnTask s t).conns = s.conns := rfl
@[simp] theorem spawnTask_nconns (s : St) (t : Task) : (spawnTask s t).nconns = s.nconns := rfl
@[simp] theorem spawnTask_inFlight (s : St) (t : Task) : (spawnTask s t).inFlight = s.inFlight := rfl
@[simp] theorem spawnTask_current (s : St) (t : Task) : (spawnTask s t).current = s.current := rfl
@[simp] theorem spawnTask_active (s : St) (t : Task) : (spawnTask s t).active = s.active := rfl
@[simp] theorem spawnTask_players (s : St) (t : Task) : (spawnTask s t).players = s.players := rfl
@[simp] theorem spawnTask_ntasks (s : St) (t : Task) : (spawnTask s t).ntasks = s.ntasks + 1 := rfl
theorem spawnTask_tasks (s : St) (t : Task) (i : Nat) :
    (spawnTask s t).tasks i = if i = s.ntasks then t else s.tasks i := rfl

@[simp] theorem setPc_conns (s : St) (i : Nat) (pc : PC) : (setPc s i pc).conns = s.conns := rfl
@[simp] theorem setPc_nconns (s : St) (i : Nat) (pc : PC) : (setPc s i pc).nconns = s.nconns := rfl
@[simp] theorem setPc_ntasks (s : St) (i : Nat) (pc : PC) : (setPc s i pc).ntasks = s.ntasks := rfl
@[simp] theorem setPc_inFlight (s : St) (i : Nat) (pc : PC) : (setPc s i pc).inFlight = s.inFlight := rfl
@[simp] theorem setPc_current (s : St) (i : Nat) (pc : PC) : (setPc s i pc).current = s.current := rfl
@[simp] theorem setPc_active (s : St) (i : Nat) (pc : PC) : (setPc s i pc).active = s.active := rfl
@[simp] theorem setPc_players (s : St) (i : Nat) (pc : PC) : (setPc s i pc).players = s.players := rfl
theorem setPc_tasks (s : St) (i j : Nat) (pc : PC) :
    (setPc s i pc).tasks j = if j = i then { s.tasks i with pc := pc } else s.tasks j := rfl

@[simp] theorem finish_conns (s : St) (i : Nat) (r : Res) : (finish s i r).conns = s.conns := rfl
@[simp] theorem finish_nconns (s : St) (i : Nat) (r : Res) : (finish s i r).nconns = s.nconns := rfl
@[simp] theorem finish_ntasks (s : St) (i : Nat) (r : Res) : (finish s i r).ntasks = s.ntasks := rfl
@[simp] theorem finish_inFlight (s : St) (i : Nat) (r : Res) : (finish s i r).inFlight = s.inFlight := rfl
@[simp] theorem finish_current (s : St) (i : Nat) (r : Res) : (finish s i r).current = s.current := rfl
@[simp] theorem finish_active (s : St) (i : Nat) (r : Res) : (finish s i r).active = s.active := rfl
@[simp] theorem finish_players (s : St) (i : Nat) (r : Res) : (finish s i r).players = s.players := rfl
theorem finish_tasks (s : St) (i j : Nat) (r : Res) :
    (finish s i r).tasks j = if j = i then { s.tasks i with res := some r, pc := .post } else s.tasks j := rfl

/-! ### quitPlayer -/
@[simp] theorem quitPlayer_nconns (s : St) : (quitPlayer s).nconns = s.nconns := by
  unfold quitPlayer; split <;> simp
@[simp] theorem quitPlayer_ntasks (s : St) : (quitPlayer s).ntasks = s.ntasks := by
  unfold quitPlayer; split <;> simp
@[simp] theorem quitPlayer_tasks (s : St) : (quitPlayer s).tasks = s.tasks := by
  unfold quitPlayer; split <;> simp
@[simp] theorem quitPlayer_inFlight (s : St) : (quitPlayer s).inFlight = s.inFlight := by
  unfold quitPlayer; split <;> simp
@[simp] theorem quitPlayer_current (s : St) : (quitPlayer s).current = s.current := by
  unfold quitPlayer; split <;> simp
theorem quitPlayer_active (s : St) : (quitPlayer s).active = false := by
  unfold quitPlayer; split <;> simp_all
theorem quitPlayer_attempting (s : St) (c : Nat) (h : attempting ((quitPlayer s).conns c) = true) :
    attempting (s.conns c) = true := by
  unfold quitPlayer at h
  split at h
  · exact h
  · dsimp only at h
    have h1 := closeOpt_attempting _ _ _ h
    have h2 := closeOpt_attempting { s with active := false } _ _ h1
    exact h2

/-! ### handler/phase consistency (needed for the monotonicity of `attempting`) -/
def jpOK (C : Conn) : Prop :=
  ((C.h = .j1b ∨ C.h = .j3) → (C.phase = .transition ∧ C.result = none) ∨ (C.phase = .closed ∧ C.result ≠ none)) ∧
  ((C.h = .j4 ∨ C.h = .j5) → C.phase = .play ∨ C.phase = .closed) ∧
  (C.phase = .dialing → C.h = .idle ∧ C.result = none) ∧
  (C.h = .closeSelf → C.phase = .login ∨ C.phase = .transition ∨ C.phase = .closed) ∧
  (C.h = .cfgKick2 → C.phase = .closed) ∧
  ((C.phase = .login ∨ C.phase = .config ∨ C.phase = .transition) → C.h = .idle → C.beh ≠ .idle → C.result = none) ∧
  ((C.h = .sw1 ∨ C.h = .sw2 ∨ C.h = .sw3) → (C.phase = .config ∧ C.result = none) ∨ (C.phase = .closed ∧ C.result ≠ none)) ∧
  (C.stalled = true → C.h = .idle) ∧
  (C.result = some .ok → C.phase = .play ∨ C.phase = .closed) ∧
  (∀ r, C.result = some r → r ≠ .ok → C.phase = .login ∨ C.phase = .transition ∨ C.phase = .closed)

def JP (s : St) : Prop := ∀ c, c < s.nconns → jpOK (s.conns c)

theorem jpOK_closeConn (s : St) (o c : Nat) (h : jpOK (s.conns c)) : jpOK ((closeConn s o).conns c) := by
  rcases closeConn_conns_cases s o c with ⟨_, h1⟩ | ⟨hp, _, h1⟩ | ⟨hp, _, h1⟩
  · rw [h1]; exact h
  · rw [h1]; simp_all [jpOK]
  · rw [h1]; rcases hp with hp | hp | hp <;> simp_all [jpOK]

theorem jpOK_closeOpt (s : St) (o : Option Nat) (c : Nat) (h : jpOK (s.conns c)) : jpOK ((closeOpt s o).conns c) := by
  cases o with
  | none => exact h
  | some o => exact jpOK_closeConn s o c h

theorem JP_closeConn (s : St) (o : Nat) (h : JP s) : JP (closeConn s o) := by
  intro c hc; exact jpOK_closeConn s o c (h c (by simpa using hc))
theorem JP_closeOpt (s : St) (o : Option Nat) (h : JP s) : JP (closeOpt s o) := by
  intro c hc; exact jpOK_closeOpt s o c (h c (by simpa using hc))

theorem JP_quitPlayer (s : St) (h : JP s) : JP (quitPlayer s) := by
  unfold quitPlayer
  split
  · exact h
  · apply JP_closeOpt; apply JP_closeOpt; exact h

/-! ### `attempting` never becomes true again for an existing connection -/
theorem stepBack_mono {cfg : Cfg} {s s' : St} {c0 : Nat} (hJP : JP s) (h : stepBack cfg s c0 = some s')
    (c : Nat) (hc : c < s.nconns) (ha : attempting (s'.conns c) = true) : attempting (s.conns c) = true := by
  unfold stepBack at h
  split at h
  · simp at h
  · have hJ := hJP c hc
    simp only [] at h
    cases hh : (s.conns c0).h <;> simp only [hh] at h
    all_goals (repeat' (split at h))
    all_goals (try (simp at h; done))
    all_goals (try (injection h with h; subst h))
    all_goals (try (simp only [spawnTask_conns] at ha))
    all_goals first
      | exact closeConn_attempting _ _ _ ha
      | exact setH_attempting _ _ _ _ (by decide) ha
      | exact closeConn_attempting _ _ _ (setH_attempting _ _ _ _ (by decide) ha)
      | exact closeOpt_attempting _ _ _ (setH_attempting _ _ _ _ (by decide) ha)
      | (simp only [upd_apply, setH_conns] at ha; split at ha <;> simp_all [attempting, jpOK]; done)


theorem stepTask_mono {cfg : Cfg} {s s' : St} {i : Nat} (h : stepTask cfg s i = some s')
    (c : Nat) (hc : c < s.nconns) (ha : attempting (s'.conns c) = true) : attempting (s.conns c) = true := by
  unfold stepTask at h
  split at h
  · simp at h
  · simp only [] at h
    cases hpc : (s.tasks i).pc <;> simp only [hpc] at h
    all_goals (repeat' (split at h))
    all_goals (try (simp at h; done))
    all_goals (try (injection h with h; subst h))
    all_goals (try (simp only [setPc_conns, finish_conns] at ha))
    all_goals first
      | exact ha
      | exact closeConn_attempting _ _ _ ha
      | exact quitPlayer_attempting _ _ ha
      | exact closeConn_attempting _ _ _ (quitPlayer_attempting _ _ ha)
      | (simp only [upd_apply] at ha; split at ha <;> simp_all [attempting]; done)
      | (simp only [upd_apply] at ha; split at ha <;> first | omega | simp_all [attempting])


theorem step_mono {cfg : Cfg} {s s' : St} {a : Act} (hJP : JP s) (h : step cfg s a = some s')
    (c : Nat) (hc : c < s.nconns) (ha : attempting (s'.conns c) = true) : attempting (s.conns c) = true := by
  cases a with
  | task i => exact stepTask_mono h c hc ha
  | back c0 => exact stepBack_mono hJP h c hc ha
  | spawn m d ev => simp [step] at h; subst h; exact ha
  | create d tag => simp [step] at h; subst h; exact ha
  | release c0 =>
    simp only [step] at h
    split at h
    · injection h with h; subst h
      simp only [upd_apply] at ha
      split at ha <;> simp_all [attempting]
    · simp at h
  | deadline c0 => simp only [step] at h; split at h <;> simp at h; subst h; exact ha
  | watch c0 =>
    simp only [step] at h
    repeat' (split at h)
    all_goals (try (simp at h; done))
    all_goals (injection h with h; subst h)
    · exact closeConn_attempting _ _ _ ha
    · simp only [upd_apply] at ha
      split at ha <;> simp_all [attempting]
  | kick c0 =>
    simp only [step] at h
    split at h
    · injection h with h; subst h
      exact closeConn_attempting _ _ _ ha
    · simp at h
  | drop c0 =>
    simp only [step] at h
    split at h
    · injection h with h; subst h
      exact closeConn_attempting _ _ _ ha
    · simp at h
  | quit => simp [step] at h; subst h; exact quitPlayer_attempting _ _ ha

/-- the number of connections never decreases -/
theorem step_nconns {cfg : Cfg} {s s' : St} {a : Act} (h : step cfg s a = some s') : s.nconns ≤ s'.nconns := by
  cases a with
  | task i =>
    simp only [step] at h
    unfold stepTask at h
    split at h
    · simp at h
    · simp only [] at h
      cases hpc : (s.tasks i).pc <;> simp only [hpc] at h
      all_goals (repeat' (split at h))
      all_goals (try (simp at h; done))
      all_goals (try (injection h with h; subst h))
      all_goals simp
  | back c0 =>
    simp only [step] at h
    unfold stepBack at h
    split at h
    · simp at h
    · simp only [] at h
      cases hh : (s.conns c0).h <;> simp only [hh] at h
      all_goals (repeat' (split at h))
      all_goals (try (simp at h; done))
      all_goals (try (injection h with h; subst h))
      all_goals simp
  | spawn m d ev => simp [step] at h; subst h; simp
  | create d tag => simp [step] at h; subst h; simp
  | release c0 => simp only [step] at h; split at h <;> simp at h; subst h; simp
  | deadline c0 => simp only [step] at h; split at h <;> simp at h; subst h; simp
  | watch c0 =>
    simp only [step] at h
    repeat' (split at h)
    all_goals (try (simp at h; done))
    all_goals (injection h with h; subst h; simp)
  | kick c0 => simp only [step] at h; split at h <;> simp at h; subst h; simp
  | drop c0 => simp only [step] at h; split at h <;> simp at h; subst h; simp
  | quit => simp [step] at h; subst h; simp


theorem stepBack_JP {cfg : Cfg} {s s' : St} {c0 : Nat} (hJP : JP s) (h : stepBack cfg s c0 = some s') : JP s' := by
  unfold stepBack at h
  split at h
  · simp at h
  · rename_i hlt
    have hJ0 := hJP c0 (by omega)
    simp only [] at h
    cases hh : (s.conns c0).h <;> simp only [hh] at h
    all_goals (repeat' (split at h))
    all_goals (try (simp at h; done))
    all_goals (try (injection h with h; subst h))
    all_goals (intro c hc; have hJc : jpOK (s.conns c) := hJP c (by simpa using hc))
    all_goals first
      | exact jpOK_closeConn _ _ _ hJc
      | (try dsimp only [spawnTask_conns]
         rw [setH_conns]
         split
         · rename_i hcc; subst hcc
           first
             | (unfold jpOK at hJ0 ⊢; simp_all; done)
             | (unfold jpOK at hJ0 ⊢; cases hp : (s.conns c).phase <;> simp_all; done)
             | (rcases closeConn_conns_cases s c c with ⟨hp, h1⟩ | ⟨hp, _, h1⟩ | ⟨hp, _, h1⟩ <;> rw [h1] <;>
                  unfold jpOK at hJ0 ⊢ <;> (first | (simp_all; done) | (cases hp2 : (s.conns c).phase <;> simp_all; done)); done)
             | (rcases closeOpt_conns_cases s (s.conns c).jold c with h1 | ⟨hp, _, h1⟩ | ⟨hp, _, h1⟩ <;> rw [h1] <;>
                  unfold jpOK at hJ0 ⊢ <;> (first | (simp_all; done) | (cases hp2 : (s.conns c).phase <;> simp_all; done)); done)
         · first | exact hJc | exact jpOK_closeConn _ _ _ hJc | exact jpOK_closeOpt _ _ _ hJc)
      | (try dsimp only
         simp only [upd_apply]
         split
         · rename_i hcc; subst hcc
           unfold jpOK at hJ0 ⊢
           first | (simp_all; done) | (cases hp : (s.conns c).phase <;> simp_all <;>
             (try (cases hr : (s.conns c).result <;> simp_all)))
         · exact hJc)

theorem stepTask_JP {cfg : Cfg} {s s' : St} {i : Nat} (hJP : JP s) (h : stepTask cfg s i = some s') : JP s' := by
  unfold stepTask at h
  split at h
  · simp at h
  · simp only [] at h
    cases hpc : (s.tasks i).pc <;> simp only [hpc] at h
    all_goals (repeat' (split at h))
    all_goals (try (simp at h; done))
    all_goals (try (injection h with h; subst h))
    all_goals first
      | exact hJP
      | exact JP_closeConn _ _ hJP
      | exact JP_quitPlayer _ hJP
      | exact JP_quitPlayer _ (JP_closeConn _ _ hJP)
      | (intro c hc
         simp only [upd_apply]
         split
         · first | (simp [jpOK]; done) | (rename_i hcc; subst hcc; have := hJP c (by simp_all; try omega); simp_all [jpOK]; done)
         · exact hJP c (by simp at hc; omega))
      | (intro c hc
         simp only [upd_apply]
         split
         · rename_i hcc; subst hcc
           rename_i c1 hconn hph _ _ _
           have := hJP c (by simpa using hc)
           simp_all [jpOK]
         · exact hJP c (by simpa using hc))

theorem step_JP {cfg : Cfg} {s s' : St} {a : Act} (hwc : cfg.watcherCloses = true) (hJP : JP s)
    (h : step cfg s a = some s') : JP s' := by
  cases a with
  | task i => exact stepTask_JP hJP h
  | back c0 => exact stepBack_JP hJP h
  | spawn m d ev => simp [step] at h; subst h; exact hJP
  | create d tag => simp [step] at h; subst h; exact hJP
  | release c0 =>
    simp only [step] at h
    split at h
    · injection h with h; subst h
      intro c hc
      simp only [upd_apply]
      split
      · rename_i hcc; subst hcc; have := hJP c (by simpa using hc); simp_all [jpOK]
      · exact hJP c (by simpa using hc)
    · simp at h
  | deadline c0 => simp only [step] at h; split at h <;> simp at h; subst h; exact hJP
  | watch c0 =>
    simp only [step, hwc, Bool.and_true] at h
    repeat' (split at h)
    all_goals (try (simp at h; done))
    all_goals (injection h with h; subst h)
    · exact JP_closeConn _ _ hJP
    · simp_all
  | kick c0 =>
    simp only [step] at h
    split at h
    · injection h with h; subst h; exact JP_closeConn _ _ hJP
    · simp at h
  | drop c0 =>
    simp only [step] at h
    split at h
    · injection h with h; subst h; exact JP_closeConn _ _ hJP
    · simp at h
  | quit => simp [step] at h; subst h; exact JP_quitPlayer _ hJP


end Gate.C16
