import GateModel.C16.Lemmas
import GateModel.Gen.C16
/-
C16 — Server switches keep exactly one live backend and consistent server player lists.

Model: GateModel.C16.Model (`step cfg s a` = one critical section of one goroutine; `Act` = which goroutine moves /
what the environment does).  All theorems quantify over EVERY interleaving (`Reach` = any schedule, any backend
behaviour script, any number of concurrent requests).  `Repaired cfg` = the code after the two fixes recorded in
findings/C16.json (atomic check+publish; no foreign reset); the `_fails` theorems are the kernel-checked witnesses
for the defective variants and for the remaining known finding (kick path vs. attempt in flight).
-/
namespace Gate.C16.Props
open Gate.C16

/-! ## 1. at most one attempt in flight -/

/-- For every schedule of the repaired code in which the kick path clears the in-flight slot only while no attempt is
    in flight (hypothesis `G1`; see `one_in_flight_fails_kick` for why it is needed): at most one connection attempt
    is in flight, and it owns the in-flight slot (so every other request is answered InProgress).
    PARTIAL: missing hypothesis-free statement = "kicks from the current server never overlap an attempt". -/
theorem one_in_flight_partial (cfg : Cfg) (hr : Repaired cfg) (s : St) (h : Reach cfg G1 s) :
    inFlightCount s ≤ 1 ∧ ∀ c, c < s.nconns → attempting (s.conns c) = true → s.inFlight = some c :=
  ⟨inv1_count s (reach1_inv1 hr h), (reach1_inv1 hr h).a⟩

/-- the same without any hypothesis on the schedule, for all runs that never enter the kick path while the player
    stays connected (concurrent requests, refusing / kicking / slow backends in login, config and transition) -/
theorem one_in_flight_kickfree (cfg : Cfg) (hr : Repaired cfg) (s : St) (h : Reach cfg G2 s) :
    inFlightCount s ≤ 1 :=
  inv1_count s (reach2_inv2 hr h).i1

/-- a second request that finds the slot taken is told so -/
theorem second_request_in_progress (s : St) (c d : Nat) (h : s.inFlight = some c) :
    checkServer s d = some .inprogress := by
  simp [checkServer, h]

def raceSchedule : List Act :=
  [.spawn .plain 1 .allow, .spawn .plain 2 .allow,
   .task 0, .task 0, .task 0, .task 1, .task 1, .task 1,   -- both pass checkServer twice
   .task 0, .task 1]                                       -- both publish their connection

/-- DEFECT (fixed, findings/C16.json `two-attempts-in-flight`): with `checkServer` and `setInFlightConnection` in
    separate critical sections two concurrent requests both pass the check — two attempts in flight. -/
theorem one_in_flight_fails_check_set_race :
    (run ⟨false, [], false, false, false, true⟩ {} raceSchedule).map inFlightCount = some 2 := by decide

/-- the same schedule on the repaired code: the second request is answered InProgress -/
theorem race_schedule_repaired :
    (run (repaired false []) {} raceSchedule).map (fun s => (inFlightCount s, (s.tasks 1).res)) =
      some (1, some .inprogress) := by decide

def foreignResetSchedule : List Act :=
  [.spawn .plain 1 .allow, .task 0, .task 0, .task 0, .task 0, .task 0,     -- A: … publish, dial (backend stalls)
   .spawn .plain 2 .allow, .task 1, .task 1,                                 -- B: InProgress, post-processing
   .spawn .plain 2 .allow, .task 2, .task 2, .task 2, .task 2]               -- C: passes the check, publishes

/-- DEFECT (fixed, findings/C16.json `inflight-not-reported`): `connect()` cleared the in-flight slot after ANY
    unsuccessful result — request B, merely answered InProgress, frees the slot of the stalled request A, and
    request C starts a second attempt. -/
theorem one_in_flight_fails_foreign_reset :
    (run ⟨false, [], true, true, false, true⟩ { scripts := fun _ => [(.accept, true)] } foreignResetSchedule).map
      (fun s => (inFlightCount s, (s.tasks 1).res)) = some (2, some .inprogress) := by decide

theorem foreign_reset_schedule_repaired :
    (run (repaired false []) { scripts := fun _ => [(.accept, true)] } (foreignResetSchedule.take 13)).map
      (fun s => (inFlightCount s, (s.tasks 2).res)) = some (1, some .inprogress) := by decide

def kickSchedule : List Act :=
  [.spawn .plain 1 .allow, .task 0, .task 0, .task 0, .task 0, .task 0,     -- join server 1 …
   .back 0, .back 0, .back 0, .back 0, .back 0, .task 0, .task 0, .task 0, .task 0,
   .spawn .plain 2 .allow, .task 1, .task 1, .task 1, .task 1, .task 1,     -- switch to 2 in flight (backend stalls)
   .kick 0,                                                                  -- server 1 kicks the player
   .task 2, .task 2, .task 2, .task 2, .task 2,                              -- kick path: … setInFlightConnection(nil) …
   .task 2, .task 2, .task 2, .task 2]                                       -- redirect to 3: check passes, publish

/-- KNOWN FINDING (findings/C16.json `kick-redirect-while-in-flight`): on the repaired code, a kick from the current
    server while a switch is in flight runs `handleKickEvent`, which clears the in-flight slot unconditionally and
    redirects — a second attempt in flight.  This is why `one_in_flight_partial` needs `G1`. -/
theorem one_in_flight_fails_kick :
    (run (repaired false [1, 2, 3]) { scripts := fun n => if n = 2 then [(.accept, true)] else [] } kickSchedule).map
      inFlightCount = some 2 := by decide

/-! ## 2. after a successful switch -/

/-- For every schedule of the repaired code that stays out of the kick path while the player is connected (`G2`):
    a request that returned Success owns a connection to its destination that reached play; as long as that
    connection lives it is the current server — unless a LATER switch has already taken over and is about to close
    it —, it is the only backend connection in play (the previous one is closed), and the player is in the player
    list of exactly that server.
    PARTIAL: the kick / fallback path is excluded (hypothesis `G2`). -/
theorem after_success_partial (cfg : Cfg) (hr : Repaired cfg) (s : St) (h : Reach cfg G2 s)
    (i : Nat) (hi : i < s.ntasks) (hres : (s.tasks i).res = some .ok) :
    ∃ c, (s.tasks i).conn = some c ∧ c < s.nconns ∧ (s.conns c).server = (s.tasks i).dest ∧
      ((s.conns c).phase = .play ∨ (s.conns c).phase = .closed) ∧
      ((s.conns c).phase = .play →
        (s.current = some c ∨
          ∃ d, d < s.nconns ∧ (s.conns d).jold = some c ∧ ((s.conns d).h = .j1b ∨ (s.conns d).h = .sw3)) ∧
        (∀ c', c' < s.nconns → (s.conns c').phase = .play → c' = c) ∧
        (∀ sv, sv ∈ s.players ↔ sv = (s.conns c).server)) := by
  have hI := reach2_inv2 hr h
  obtain ⟨c, hc1, hc2⟩ := hI.rs i hi hres
  have hlt := hI.i1.tc i hi c hc1
  refine ⟨c, hc1, hlt, hI.td i hi c hc1, (hI.i1.jp c hlt).2.2.2.2.2.2.2.2.1 hc2, ?_⟩
  intro hp
  refine ⟨?_, fun c' hc' hp' => hI.c2.b1 c' c hc' hlt hp' hp, ?_⟩
  · rcases hI.c2.b4 c hlt hp with h1 | h1 | h1
    · exact Or.inl h1
    · have := ((hI.c2.jt c hlt).2.1 h1).2.1; rw [this] at hc2; simp at hc2
    · exact Or.inr h1
  · intro sv
    rw [hI.c2.b2 sv]
    constructor
    · rintro ⟨c', hc', hp', hs⟩
      rw [hI.c2.b1 c' c hc' hlt hp' hp] at hs; exact hs.symm
    · intro hs; exact ⟨c, hlt, hp, hs.symm⟩

/-- number of backend connections in play -/
def playCount (s : St) : Nat := ((List.range s.nconns).filter fun c => (s.conns c).phase = .play).length

/-- a request object created while the player had NO server (snapshot `previousServer` = nil), kept, and connected
    only after the player joined server 1 -/
def staleSchedule (backSteps : Nat) : List Act :=
  [.create 2 1,                                                            -- CreateConnectionRequest(2): snapshot nil
   .spawn .plain 1 .allow, .task 1, .task 1, .task 1, .task 1, .task 1,    -- join server 1 …
   .back 0, .back 0, .back 0, .back 0, .back 0, .task 1, .task 1, .task 1, .task 1,
   .task 0, .task 0, .task 0, .task 0, .task 0, .task 0] ++                -- Connect() on the stale object … dial
  List.replicate backSteps (.back 1) ++ [.task 0, .task 0, .task 0, .task 0]

/-- `after_success_partial` quantifies over the CREATION point of the request: `Act.create` may occur anywhere in the
    schedule and the request may be connected at any later point.  Here: the stale request of `staleSchedule` on the
    repaired code (hypothesis G2 checked at every step by `run2`) — the switch closes server 1's connection although
    the request's own snapshot says "no previous server". -/
theorem stale_request_repaired :
    (run2 (repaired false [1, 2]) {} (staleSchedule 6)).map
      (fun s => ((s.tasks 0).res, (s.tasks 0).prev, s.current, s.players, (s.conns 0).phase, playCount s)) =
      some (some .ok, none, some 1, [2], .closed, 1) := by rfl

/-- SEEDED DEFECT (variant `joinBySnapshot`): if handleJoinGame looks up and closes the existing connection only when
    the request's SNAPSHOT is non-nil, the same stale request reports Success while server 1's connection stays in
    play: two live backends, the player in both lists. -/
theorem after_success_fails_stale_snapshot :
    (run ⟨false, [1, 2], true, false, true, true⟩ {} (staleSchedule 5)).map
      (fun s => ((s.tasks 0).res, s.current, s.players, (s.conns 0).phase, playCount s)) =
      some (some .ok, some 1, [2, 1], .play, 2) := by rfl

/-- no switch-over section of handleJoinGame / doSwitch is half done -/
def NoSection (s : St) : Prop :=
  ∀ d, d < s.nconns → (s.conns d).h ≠ .j1b ∧ (s.conns d).h ≠ .sw3 ∧ (s.conns d).h ≠ .j4

/-- Exactly one live backend and consistent lists, for every reachable state (same hypothesis): the player's lists
    are exactly the servers of the backend connections in play, there is at most one such connection, the current
    server is one; and whenever no switch-over section is half done, the connection in play IS the current server —
    the player appears in the list of exactly its current server. -/
theorem lists_exact_partial (cfg : Cfg) (hr : Repaired cfg) (s : St) (h : Reach cfg G2 s) :
    (∀ sv, sv ∈ s.players ↔ ∃ c, c < s.nconns ∧ (s.conns c).phase = .play ∧ (s.conns c).server = sv) ∧
    (∀ c c', c < s.nconns → c' < s.nconns → (s.conns c).phase = .play → (s.conns c').phase = .play → c = c') ∧
    (∀ c, s.current = some c → c < s.nconns ∧ (s.conns c).phase = .play) ∧
    (NoSection s → ∀ sv, sv ∈ s.players ↔ ∃ c, s.current = some c ∧ (s.conns c).server = sv) := by
  have hI := reach2_inv2 hr h
  refine ⟨hI.c2.b2, hI.c2.b1, fun c hc => ⟨(hI.c2.b3 c hc).1, (hI.c2.b3 c hc).2.1⟩, ?_⟩
  intro hns sv
  rw [hI.c2.b2 sv]
  constructor
  · rintro ⟨c, hc, hp, hs⟩
    rcases hI.c2.b4 c hc hp with h1 | h1 | ⟨d, hd, _, hh⟩
    · exact ⟨c, h1, hs⟩
    · exact absurd h1 (hns c hc).2.2
    · rcases hh with hh | hh
      · exact absurd hh (hns d hd).1
      · exact absurd hh (hns d hd).2.1
  · rintro ⟨c, hc, hs⟩
    obtain ⟨h1, h2, _⟩ := hI.c2.b3 c hc
    exact ⟨c, h1, h2, hs⟩

/-! ## 3. failed attempts are safe -/

/-- the steps that can change the current server or a player list: the switch-over sections (they run only after
    the backend's login SUCCESS: doSwitch, and after its JoinGame), the kick path, and the environment's kick / drop /
    quit -/
def switchAct (s : St) : Act → Bool
  | .back c =>
    let C := s.conns c
    swA C.h || (C.h == .idle && C.phase == .transition && C.beh == .accept)
  | .task i => isKickPc (s.tasks i).pc || ((s.tasks i).pc == .cancel && (s.tasks i).mode == .redirect)
  | .spawn _ _ _ => false
  | .create _ _ => false
  | .release _ => false
  | .deadline _ => false
  | .watch _ => false
  | .kick _ => true
  | .drop _ => true
  | .quit => true

/-- Every other step — a refused dial, a Disconnect / EOF / EncryptionRequest during login, a Disconnect or EOF
    before JoinGame, a kick during configuration, all bookkeeping of the requests (check, publish, wait, deferred
    reset, post-processing), for ANY cfg variant — leaves the current server, the player lists and the client
    connection untouched: a failed attempt leaves the player where it was. -/
theorem failed_safe (cfg : Cfg) (s s' : St) (a : Act) (hJP : JP s) (h : step cfg s a = some s')
    (hns : switchAct s a = false) :
    s'.current = s.current ∧ s'.players = s.players ∧ s'.active = s.active := by
  cases a with
  | task i =>
    simp only [step] at h
    simp only [switchAct, Bool.or_eq_false_iff] at hns
    unfold stepTask at h
    split at h
    · simp at h
    · simp only [] at h
      cases hpc : (s.tasks i).pc <;> simp only [hpc] at h hns
      all_goals (try (simp [isKickPc] at hns; done))
      all_goals (repeat' (split at h))
      all_goals (try (simp at h; done))
      all_goals (try (injection h with h; subst h))
      all_goals first
        | exact ⟨rfl, rfl, rfl⟩
        | (simp_all; done)
        | (rename_i c1 _ hph
           have hnp : (s.conns c1).phase ≠ .play := by
             simp at hph; rcases hph with h | h <;> simp [h]
           have hpl := closeConn_players_not_play s c1 hnp
           exact ⟨by simp, by simpa using hpl, by simp⟩)
  | back c0 =>
    simp only [step] at h
    simp only [switchAct, Bool.or_eq_false_iff] at hns
    unfold stepBack at h
    split at h
    · simp at h
    · rename_i hlt
      have hJ0 := hJP c0 (by omega)
      simp only [] at h
      cases hh : (s.conns c0).h <;> simp only [hh] at h hns
      all_goals (try (simp [swA] at hns; done))
      all_goals (repeat' (split at h))
      all_goals (try (simp at h; done))
      all_goals (try (injection h with h; subst h))
      all_goals first
        | exact ⟨rfl, rfl, rfl⟩
        | (simp_all; done)
        | (have hnp : (s.conns c0).phase ≠ .play := by
             unfold jpOK at hJ0
             first
               | (simp_all; done)
               | (rcases hJ0.2.2.2.1 hh with h | h | h <;> simp [h])
           exact ⟨by simp, by simp [closeConn_players_not_play s c0 hnp], by simp⟩)
  | spawn m d ev => simp [step] at h; subst h; exact ⟨rfl, rfl, rfl⟩
  | create d tag => simp [step] at h; subst h; exact ⟨rfl, rfl, rfl⟩
  | release c0 => simp only [step] at h; split at h <;> simp at h; subst h; exact ⟨rfl, rfl, rfl⟩
  | deadline c0 => simp only [step] at h; split at h <;> simp at h; subst h; exact ⟨rfl, rfl, rfl⟩
  | watch c0 =>
    simp only [step] at h
    repeat' (split at h)
    all_goals (try (simp at h; done))
    all_goals (injection h with h; subst h)
    · rename_i hph
      have hnp : (s.conns c0).phase ≠ .play := by
        simp at hph; rcases hph with h | h <;> simp [h]
      exact ⟨by simp, closeConn_players_not_play s c0 hnp, by simp⟩
    · exact ⟨rfl, rfl, rfl⟩
  | kick c0 => simp [switchAct] at hns
  | drop c0 => simp [switchAct] at hns
  | quit => simp [switchAct] at hns

/-- … and when the built-in handling recovers (kick path, kicked from / left without a current server), the server it
    redirects to is the next fallback: a server of the `try` list at or after `tryIndex` that is neither the server
    the player was kicked from, nor its current server, nor the server of the attempt in flight. -/
theorem failed_fallback_choice (cfg : Cfg) (s : St) (rs idx d : Nat) (h : nextToTry cfg s rs = some (idx, d)) :
    d ∈ cfg.try_ ∧ d ≠ rs ∧
    (∀ c, s.current = some c → (s.conns c).server ≠ d) ∧ (∀ c, s.inFlight = some c → (s.conns c).server ≠ d) := by
  unfold nextToTry at h
  obtain ⟨h1, h2⟩ := scanTry_sound _ _ _ _ _ h
  simp only [Bool.or_eq_false_iff] at h2
  refine ⟨List.mem_of_mem_drop h1, by simpa using h2.2, ?_, ?_⟩
  · intro c hc; have := h2.1.1; rw [hc] at this; simpa using this
  · intro c hc; have := h2.1.2; rw [hc] at this; simpa using this

/-- the kick path installs exactly that choice as the redirect target -/
theorem failed_fallback_redirects (cfg : Cfg) (s s' : St) (i rs : Nat) (hi : i < s.ntasks)
    (hpc : (s.tasks i).pc = .next rs) (h : step cfg s (.task i) = some s') :
    (s'.tasks i).pc = .kickReset true ((nextToTry cfg s rs).map (·.2)) := by
  simp only [step] at h
  unfold stepTask at h
  rw [if_neg (by omega)] at h
  simp only [hpc] at h
  split at h <;> (injection h with h; subst h) <;> simp_all [setPc_tasks, upd_apply]

/-- A request that has returned WITHOUT success — refused, kicked, EOF, online-mode backend, or timed out / cancelled
    at any point (`Act.deadline` may fire at any time; the handler's watcher then fails the request) — has no live
    connection left: its connection is closed, stays closed (`step_closed_stable`), and whatever that connection's
    read loop still does (a late JoinGame in particular) changes neither the current server nor the lists.
    Same hypothesis G2 as above (it also says that a deadline watcher does not run while its connection's read loop is
    inside a switch-over section — the two race in the real code). -/
theorem failed_request_no_live_connection_partial (cfg : Cfg) (hr : Repaired cfg) (s : St) (h : Reach cfg G2 s)
    (i : Nat) (hi : i < s.ntasks) (hd : (s.tasks i).pc = .done) (c : Nat) (r : Res)
    (hc : (s.tasks i).conn = some c) (hres : (s.tasks i).res = some r) (hne : r ≠ .ok) :
    (s.conns c).phase = .closed ∧
    (∀ a s', step cfg s a = some s' → (s'.conns c).phase = .closed) ∧
    (∀ s', step cfg s (.back c) = some s' → s'.current = s.current ∧ s'.players = s.players) := by
  have hI := reach2_inv2 hr h
  have hlt := hI.i1.tc i hi c hc
  have hcl := hI.fd i hi hd c r hc hres hne
  refine ⟨hcl, fun a s' hs => step_closed_stable hs c hlt hcl, ?_⟩
  intro s' hs
  have hns : switchAct s (.back c) = false := by
    have hjt := hI.c2.jt c hlt
    simp only [switchAct, Bool.or_eq_false_iff]
    constructor
    · cases hh : (s.conns c).h <;> simp_all [swA]
    · simp [hcl]
  have := failed_safe cfg s s' (.back c) hI.i1.jp hs hns
  exact ⟨this.1, this.2.1⟩

/-- a closed connection with an idle read loop does not move at all -/
theorem late_join_ignored (cfg : Cfg) (s : St) (c : Nat) (hp : (s.conns c).phase = .closed)
    (hh : (s.conns c).h = .idle) : step cfg s (.back c) = none :=
  closed_conn_inert cfg s c hp hh

/-- join server 1, then a request to server 2 whose backend logs in promptly and keeps silent before JoinGame; the
    request's deadline expires, the watcher runs, the request returns; then the backend is released -/
def timeoutSchedule (tail : List Act) : List Act :=
  [.spawn .plain 1 .allow, .task 0, .task 0, .task 0, .task 0, .task 0,
   .back 0, .back 0, .back 0, .back 0, .back 0, .task 0, .task 0, .task 0, .task 0,      -- on server 1
   .spawn .plain 2 .allow, .task 1, .task 1, .task 1, .task 1, .task 1,                   -- request to 2 … dial
   .back 1,                                                                               -- login success, then silence
   .deadline 1, .watch 1,                                                                 -- the deadline expires
   .task 1, .task 1, .task 1, .task 1,                                                    -- the request returns
   .release 1] ++ tail                                                                    -- the backend sends JoinGame

/-- repaired code: the timed-out request returns an error, its connection is closed, the late JoinGame finds no read
    loop (`step … (.back 1) = none`), the player stays on server 1 -/
theorem timeout_repaired :
    (run2 (repaired false [1, 2]) { scripts := fun n => if n = 2 then [(.lateJoin, false)] else [] } (timeoutSchedule [])).map
      (fun s => ((s.tasks 1).res, (s.tasks 1).pc, (s.conns 1).phase, s.current, s.players, playCount s,
        (step (repaired false [1, 2]) s (.back 1)).isNone)) =
      some (some .err, .done, .closed, some 0, [1], 1, true) := by rfl

/-- SEEDED DEFECT (variant `watcherCloses = false`): the transition handler's deadline watcher only fails the request.
    The request returns an error and frees the in-flight slot while its connection stays open; the late JoinGame then
    closes the player's real current backend and moves the player to the server whose request was reported failed. -/
theorem failed_request_fails_watcher_leaves_connection :
    (run ⟨false, [1, 2], true, false, false, false⟩ { scripts := fun n => if n = 2 then [(.lateJoin, false)] else [] }
        (timeoutSchedule [.back 1, .back 1, .back 1, .back 1, .back 1])).map
      (fun s => ((s.tasks 1).res, (s.tasks 1).pc, (s.conns 1).phase, s.current, s.players, (s.conns 0).phase)) =
      some (some .err, .done, .play, some 1, [2], .closed) := by rfl

/-! ## 4. requests to the current server / while one is in flight are reported without side effects -/

/-- what `checkServer` answers -/
theorem check_answers (s : St) (d : Nat) :
    (checkServer s d = some .inprogress ↔
      s.inFlight ≠ none ∨ ∃ c, s.current = some c ∧ (s.conns c).completedJoin = false) ∧
    (checkServer s d = some .already ↔
      s.inFlight = none ∧ ∃ c, s.current = some c ∧ (s.conns c).completedJoin = true ∧ (s.conns c).server = d) := by
  unfold checkServer
  cases hf : s.inFlight <;> cases hc : s.current <;> simp
  rename_i c
  cases hj : (s.conns c).completedJoin <;> simp

/-- shared state = everything but the tasks' own records -/
def sharedEq (s s' : St) : Prop :=
  s'.nconns = s.nconns ∧ s'.conns = s.conns ∧ s'.inFlight = s.inFlight ∧ s'.current = s.current ∧
  s'.players = s.players ∧ s'.active = s.active ∧ s'.clientPlay = s.clientPlay ∧ s'.tryIndex = s.tryIndex ∧
  s'.scripts = s.scripts

/-- On the repaired code a request answered AlreadyConnected or InProgress (at either check, or at the atomic
    check-and-publish) goes through `check → post → cancel → done` and NONE of these steps touches shared state:
    no connection is created, the in-flight slot, the current server and the lists stay as they are. -/
theorem noop_results (cfg : Cfg) (hr : Repaired cfg) (s s' : St) (i : Nat) (hi : i < s.ntasks)
    (h : step cfg s (.task i) = some s') :
    (∀ r, ((s.tasks i).pc = .check1 ∨ (s.tasks i).pc = .check2 ∨ (s.tasks i).pc = .set) →
        checkServer s (s.tasks i).dest = some r →
        sharedEq s s' ∧ (s'.tasks i).res = some r ∧ (s'.tasks i).pc = .post ∧ (s'.tasks i).conn = (s.tasks i).conn) ∧
    ((s.tasks i).pc = .post → sharedEq s s' ∧ (s'.tasks i).pc = .cancel ∧ (s'.tasks i).res = (s.tasks i).res) ∧
    ((s.tasks i).pc = .cancel → (s.tasks i).conn = none → (s.tasks i).mode = .plain →
        sharedEq s s' ∧ (s'.tasks i).pc = .done ∧ (s'.tasks i).res = (s.tasks i).res) := by
  obtain ⟨hat, hfr, _, _⟩ := hr
  simp only [step] at h
  unfold stepTask at h
  rw [if_neg (by omega)] at h
  simp only [] at h
  refine ⟨?_, ?_, ?_⟩
  · intro r hpc hck
    rcases hpc with hpc | hpc | hpc <;> simp only [hpc, hck, hat, if_true] at h <;>
      (injection h with h; subst h) <;>
      exact ⟨⟨rfl, rfl, rfl, rfl, rfl, rfl, rfl, rfl, rfl⟩, by simp [finish_tasks], by simp [finish_tasks],
        by simp [finish_tasks]⟩
  · intro hpc
    simp only [hpc, hfr] at h
    injection h with h; subst h
    exact ⟨⟨rfl, rfl, rfl, rfl, rfl, rfl, rfl, rfl, rfl⟩, by simp [setPc_tasks], by simp [setPc_tasks]⟩
  · intro hpc hconn hmode
    simp only [hpc, hconn, hmode] at h
    injection h with h; subst h
    exact ⟨⟨rfl, rfl, rfl, rfl, rfl, rfl, rfl, rfl, rfl⟩, by simp [setPc_tasks], by simp [setPc_tasks]⟩

/-- A ServerPreConnectEvent subscriber that redirects a request changes only the request's own destination; the
    re-check and the atomic check-and-claim that follow (`noop_results`, pcs `check2` / `set`) validate THAT destination
    (`(s'.tasks i).dest = d`): a request redirected onto the player's current server is answered AlreadyConnected and
    never dials. -/
theorem redirect_is_rechecked (cfg : Cfg) (s s' : St) (i d : Nat) (hi : i < s.ntasks)
    (hpc : (s.tasks i).pc = .event) (hev : (s.tasks i).ev = .redirect d) (h : step cfg s (.task i) = some s') :
    sharedEq s s' ∧ (s'.tasks i).pc = .check2 ∧ (s'.tasks i).dest = d ∧ (s'.tasks i).conn = (s.tasks i).conn := by
  simp only [step] at h
  unfold stepTask at h
  rw [if_neg (by omega)] at h
  simp only [hpc, hev] at h
  injection h with h; subst h
  exact ⟨⟨rfl, rfl, rfl, rfl, rfl, rfl, rfl, rfl, rfl⟩, by simp [upd_apply], by simp [upd_apply], by simp [upd_apply]⟩

/-- DEFECT (fixed): in the original code the post-processing of such a no-op request cleared the in-flight slot
    that belongs to ANOTHER request. -/
theorem noop_results_fails_foreign_reset :
    (run ⟨false, [], true, true, false, true⟩ { scripts := fun _ => [(.accept, true)] } (foreignResetSchedule.take 9)).map
      (fun s => (s.inFlight, (s.tasks 1).res, (s.tasks 0).pc)) = some (none, some .inprogress, .wait) := by decide

/-! ## 5. tie to the source (regenerated facts) -/
open Gate.Gen.C16 in
/-- which variant the source is: the second check publishes the connection in the same critical section
    (`checkServerAndSetInFlight`: Lock … defer Unlock, `checkServer0`), `internalConnect` no longer calls
    `setInFlightConnection`, and `connect()` no longer calls `resetInFlightConnection` -/
theorem src_is_repaired :
    ("c.checkServerAndSetInFlight" ∈ internalConnectCalls ∧ "c.player.setInFlightConnection" ∉ internalConnectCalls ∧
     checkAndSetCalls = ["p.mu.Lock", "defer:p.mu.Unlock", "p.checkServer0", "return"]) ∧
    "c.player.resetInFlightConnection" ∉ connectCalls := by decide

open Gate.Gen.C16 in
/-- the order of the request's critical sections in `internalConnect`: check, event, check, (type check), new
    connection, check-and-publish, deferred reset, connect -/
theorem src_internalConnect_order :
    internalConnectCalls.filter (fun c => c ∈ ["c.checkServer", "c.event().Fire", "newServerConnection",
        "c.checkServerAndSetInFlight", "defer:c.resetIfInFlightIs", "conn.connect"]) =
      ["c.checkServer", "c.event().Fire", "c.checkServer", "newServerConnection", "c.checkServerAndSetInFlight",
       "defer:c.resetIfInFlightIs", "conn.connect"] := by decide

open Gate.Gen.C16 in
/-- lock regions and section order of the other `player.mu` users the model splits into steps -/
theorem src_sections :
    checkServerCalls.take 3 = ["p.mu.RLock", "defer:p.mu.RUnlock", "p.checkServer0"] ∧
    resetIfInFlightIsCalls = ["c.player.mu.Lock", "defer:c.player.mu.Unlock"] ∧
    setConnectedServerCalls = ["p.mu.Lock", "p.mu.Unlock"] ∧
    -- handleJoinGame: lock section, then existingConn.disconnect, …, SetActiveSessionHandler, setConnectedServer, result
    handleJoinGameCalls.filter (fun c => c ∈ ["b.serverConn.player.mu.Lock", "existingConn.disconnect",
        "playHandler.handleBackendJoinGame", "smc.SetActiveSessionHandler", "b.serverConn.player.setConnectedServer"]) =
      ["b.serverConn.player.mu.Lock", "existingConn.disconnect", "playHandler.handleBackendJoinGame",
       "smc.SetActiveSessionHandler", "b.serverConn.player.setConnectedServer"] ∧
    handleJoinGameCalls.getLast? = some "b.requestCtx.result" ∧
    -- doSwitch: read, setConnectedServer(nil), disconnect
    doSwitchCalls.filter (fun c => c ∈ ["c.player.connectedServer", "c.player.setConnectedServer",
        "existingConn.disconnect", "c.player.switchToConfigState"]) =
      ["c.player.connectedServer", "c.player.setConnectedServer", "existingConn.disconnect",
       "c.player.switchToConfigState"] ∧
    -- handleKickEvent: fire, unconditional setInFlightConnection(nil), lock section, …
    handleKickEventCalls.take 5 = ["p.proxy.Event", "p.proxy.Event().Fire", "p.setInFlightConnection", "p.mu.Lock",
      "p.mu.Unlock"] ∧
    playActivatedCalls.head? = some "b.serverConn.server.players.add" ∧
    playDisconnectedCalls.head? = some "b.serverConn.server.players.remove" ∧
    loginHandleDisconnectCalls.drop 3 = ["b.requestCtx.result", "b.serverConn.disconnect"] ∧
    transitionHandleDisconnectCalls.drop 8 = ["b.requestCtx.result", "b.serverConn.disconnect"] := by decide

open Gate.Gen.C16 in
/-- `handleJoinGame` takes the player lock unconditionally and unlocks on both branches of `existingConn != nil`
    (the lookup of the connection to close is not guarded by anything the request carries) -/
theorem src_joingame_lookup_unconditional :
    handleJoinGameCalls.filter (fun c => c = "b.serverConn.player.mu.Lock" ∨ c = "b.serverConn.player.mu.Unlock") =
      ["b.serverConn.player.mu.Lock", "b.serverConn.player.mu.Unlock", "b.serverConn.player.mu.Unlock"] := by decide

open Gate.Gen.C16 in
/-- the deadline watchers of the login and of the transition handler fail the request AND close the connection -/
theorem src_deadline_watchers_disconnect :
    transitionActivatedCalls.filter (fun c => c = "b.requestCtx.result" ∨ c = "b.serverConn.disconnect") =
      ["b.requestCtx.result", "b.serverConn.disconnect"] ∧
    loginActivatedCalls.filter (fun c => c = "b.requestCtx.result" ∨ c = "b.serverConn.disconnect") =
      ["b.requestCtx.result", "b.serverConn.disconnect"] := by decide

/-! ## non-vacuity -/

def switchSchedule : List Act :=
  [.spawn .plain 1 .allow, .task 0, .task 0, .task 0, .task 0, .task 0,
   .back 0, .back 0, .back 0, .back 0, .back 0, .task 0, .task 0, .task 0, .task 0,      -- on server 1
   .spawn .plain 2 .allow, .spawn .plain 3 .allow,                                        -- two concurrent requests
   .task 1, .task 2, .task 1, .task 2, .task 1, .task 2, .task 1, .task 2, .task 1,
   .back 1, .back 1, .back 1, .back 1, .back 1, .back 1, .task 1, .task 1, .task 1, .task 1,
   .task 2, .task 2]

/-- the hypotheses of the theorems above are satisfiable by a run with a real switch and a concurrent request:
    the schedule is accepted by `run2` (hypothesis G2 checked at every step), ends with the player on server 2
    (second connection), list = [2], request 1 Success, request 2 InProgress -/
example : (run2 (repaired false [1, 2, 3]) {} switchSchedule).map
    (fun s => (s.current, s.players, (s.tasks 1).res, (s.tasks 2).res, (s.conns 0).phase, inFlightCount s)) =
    some (some 1, [2], some .ok, some .inprogress, .closed, 0) := by rfl

example : ∃ s, Reach (repaired false [1, 2, 3]) G2 s ∧ (s.tasks 1).res = some .ok := by
  cases hrun : run2 (repaired false [1, 2, 3]) {} switchSchedule with
  | none => exact absurd hrun (by decide)
  | some s =>
    refine ⟨s, run2_reach (Reach.init ⟨rfl, rfl, rfl, rfl, rfl, rfl⟩) _ _ hrun, ?_⟩
    have : (run2 (repaired false [1, 2, 3]) {} switchSchedule).map (fun s => (s.tasks 1).res) = some (some .ok) := by
      decide
    rw [hrun] at this; simpa using this

example : Repaired (repaired true [1]) := ⟨rfl, rfl, rfl, rfl⟩

end Gate.C16.Props
