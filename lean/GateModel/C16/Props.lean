import GateModel.C16.Model
namespace Gate.C16.Props
theorem placeholder : True := trivial
end Gate.C16.Props
