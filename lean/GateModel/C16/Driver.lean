import GateModel.Base.Line
import GateModel.C16.Model
import GateModel.Gen.C16
import Std.Data.HashSet
/-
C16 driver — the model as an ACCEPTOR of end-to-end observations.

The harness drives the real proxy through the public API and reports, after quiescence, what it sees
(`cur=` Player.CurrentServer, `lists=` servers whose Players() contain the player, `open=` backend connections that
were joined and are still open, `pend=` open backend connections that were not joined, `act=` player still connected)
plus the ConnectionResult statuses.  The driver keeps the SET of model states that are consistent with everything
observed so far; every op applies the corresponding environment action(s) and explores ALL interleavings of the
model's atomic steps until nothing is enabled (`settle`).  The model output is the implementation's output if some
reachable quiescent model state renders to it, otherwise the first possible rendering (→ mismatch).

Ops:  reset <proto> <modern> <try> <scripts> | login | loginstall | req <s> | start <s> | release | par <a> <b>
      | race <a> <b> | kick <s> | drop <s> | quit | create <k> <s> (CreateConnectionRequest only; the object is kept)
      | conn <k> <s> (Connect on the kept object) | tconn <s> | ereq <s> <to> / edeny <s> (ServerPreConnectEvent
      subscriber redirects the request to <to> / denies it)
Spec verdict (independent of the model, on the implementation's output): see `judge`.
-/
namespace Gate.C16
open Gate

/-- the variant of the model that corresponds to the SOURCE as it is now (regenerated call facts): is the second check
    done together with the publication of the connection, and does `connect()` still reset the in-flight slot -/
def srcCfg (modern : Bool) (try_ : List Nat) : Cfg :=
  { modern := modern, try_ := try_,
    atomicSet := Gate.Gen.C16.internalConnectCalls.contains "c.checkServerAndSetInFlight" &&
                 !Gate.Gen.C16.internalConnectCalls.contains "c.player.setInFlightConnection",
    foreignReset := Gate.Gen.C16.connectCalls.contains "c.player.resetInFlightConnection",
    -- handleJoinGame unlocks the player lock on both branches of `existingConn != nil` iff the lookup is unconditional
    joinBySnapshot := (Gate.Gen.C16.handleJoinGameCalls.filter (· == "b.serverConn.player.mu.Unlock")).length < 2,
    -- does the transition handler's deadline watcher still close the connection
    watcherCloses := Gate.Gen.C16.transitionActivatedCalls.contains "b.serverConn.disconnect" }

def behOfString : String → Option Beh
  | "a" => some .accept | "r" => some .refuse | "kl" => some .kickLogin | "el" => some .eofLogin
  | "kc" => some .kickConfig | "kt" => some .kickTrans | "et" => some .eofTrans | "enc" => some .enc
  | "late" => some .lateJoin
  | _ => none

def parseBeh (t : String) : Option (Beh × Bool) :=
  if t.startsWith "s:" then (behOfString (t.drop 2).toString).map (·, true) else (behOfString t).map (·, false)

def parseScripts (s : String) : Nat → List (Beh × Bool) :=
  if s = "-" then fun _ => [] else
  let entries := (s.splitOn ";").filterMap fun e =>
    match e.splitOn "=" with
    | [k, v] => (k.toNat?).map fun n => (n, (v.splitOn ".").filterMap parseBeh)
    | _ => none
  fun n => match entries.find? (·.1 = n) with | some (_, l) => l | none => []

def resName : Res → String
  | .ok => "ok" | .already => "already" | .inprogress => "inprogress" | .canceled => "canceled"
  | .disconnected => "disconnected" | .err => "err"

def range (n : Nat) : List Nat := List.range n

def sortNat (l : List Nat) : List Nat := (l.toArray.qsort (· < ·)).toList

def showSrvs (l : List Nat) : String :=
  if l.isEmpty then "-" else ",".intercalate ((sortNat l).map fun n => "s" ++ toString n)

/-- what the harness would observe in model state `s` -/
def observe (s : St) : String :=
  let cur := match s.current with | some c => "s" ++ toString (s.conns c).server | none => "-"
  let conns := (range s.nconns).map s.conns
  let open_ := (conns.filter (·.phase = .play)).map (·.server)
  let pend := (conns.filter fun C => C.phase = .login || C.phase = .config || C.phase = .transition).length
  s!"cur={cur} lists={showSrvs s.players} open={showSrvs open_} pend={pend} act={if s.active then 1 else 0}"

def optS (o : Option Nat) : String := match o with | some n => toString n | none => "_"

/-- canonical key of a state (for the visited set) -/
def key (s : St) : String :=
  let cs := (range s.nconns).map fun c =>
    let C := s.conns c
    s!"{C.server}/{repr C.beh}/{C.stalled}/{repr C.phase}/{repr C.h}/{optS C.jold}/{C.completedJoin}/{repr C.result}/{optS C.prev}/{s.expired c}/{s.timed c}"
  let ts := (range s.ntasks).map fun i =>
    let T := s.tasks i
    s!"{repr T.pc}/{repr T.mode}/{T.orig}/{T.dest}/{repr T.ev}/{optS T.conn}/{repr T.res}/{optS T.prev}/{T.tag}"
  let sc := (range 8).map fun n => toString (repr (s.scripts n))
  s!"{cs}|{ts}|{optS s.inFlight}|{optS s.current}|{s.players}|{s.active}|{s.clientPlay}|{s.tryIndex}|{sc}"

/-- a kept request object moves only when the harness calls Connect on it -/
def internalActs (s : St) : List Act :=
  ((range s.ntasks).filter fun i => (s.tasks i).pc != .created).map Act.task ++ (range s.nconns).map Act.back ++
  -- the deadline of a request issued with a short deadline may expire at any moment; watchers run when enabled
  ((range s.nconns).filter fun c => s.timed c && !s.expired c).map Act.deadline ++ (range s.nconns).map Act.watch

/-- Partial-order reduction.  A step is *safe* when it touches only its goroutine's own record (or a write-once
    field nobody else writes) and commutes with every step of every other goroutine: the request-local steps
    `event`, `post` (repaired variant), `wait` once the result is there, a `cancel` that closes nothing; of a backend
    read loop the delivery of the final result (`j5`), the self-close after a refusal, and the login/transition
    outcomes that only complete the connection's own request.  Exploring a safe step FIRST and ALONE loses no
    quiescent state. -/
def safeAct (cfg : Cfg) (s : St) : Act → Bool
  | .task i =>
    let T := s.tasks i
    match T.pc with
    | .event => true
    | .post => !cfg.foreignReset || T.mode == .indication || T.res == some .ok || T.res == some .err || T.res == none
    | .wait => match T.conn with | some c => (s.conns c).result.isSome | none => false
    -- the deferred reset is a no-op once the slot has moved on (a connection id is never published twice)
    | .deferReset => s.inFlight != T.conn
    | .cancel => T.mode == .plain &&
        (match T.conn with
         | some c => !((s.conns c).phase == .login || (s.conns c).phase == .transition)
         | none => true)
    | _ => false
  | .back c =>
    let C := s.conns c
    match C.h with
    | .j5 => true
    | .closeSelf => true
    | .idle =>
      !C.stalled &&
      (match C.phase, C.beh with
       | .login, .kickLogin => true
       | .login, .eofLogin => true
       | .login, .enc => true
       | .login, .accept => !cfg.modern
       | .login, .kickTrans => !cfg.modern
       | .login, .eofTrans => !cfg.modern
       | .login, .kickConfig => !cfg.modern
       | .transition, .kickTrans => true
       | .transition, .kickConfig => true
       | .transition, .eofTrans => true
       | _, _ => false)
    | _ => false
  | _ => false

/-- all quiescent states reachable from `inits` under every interleaving of internal steps (up to the reduction);
    the flag tells whether the search budget was exhausted -/
partial def settle (cfg : Cfg) (budget0 : Nat) (inits : List St) : List St × Bool :=
  let rec go (stack : List St) (seen : Std.HashSet String) (out : List St) (budget : Nat) : List St × Bool :=
    match stack with
    | [] => (out, false)
    | s :: rest =>
      if budget = 0 then (out, true) else
      let acts := internalActs s
      let succs :=
        match acts.findSome? (fun a => if safeAct cfg s a then step cfg s a else none) with
        | some s' => [s']
        | none => acts.filterMap (step cfg s)
      if succs.isEmpty then go rest seen (s :: out) (budget - 1)
      else
        let (stack', seen') := succs.foldl (fun (acc : List St × Std.HashSet String) s' =>
          let k := key s'
          if acc.2.contains k then acc else (s' :: acc.1, acc.2.insert k)) (rest, seen)
        go stack' seen' out (budget - 1)
  go inits (inits.foldl (fun h s => h.insert (key s)) {}) [] budget0

structure DS where
  cfg : Cfg := repaired false []
  states : List (St × List Nat) := []      -- candidate states, each with the ids of the started, unreported tasks
  prevObs : String := ""
  outstanding : Nat := 0
  orphaned : Nat := 0     -- stalled attempts whose in-flight slot a kick has cleared (known finding)
  loggedIn : Bool := false
  partialSearch : Bool := false   -- some interleaving search of this scenario hit its budget: the candidate set may be incomplete
  budget : Nat := 300000          -- states per interleaving search (C16_BUDGET overrides)
  mark : Bool := false            -- pre-pass mode (C16_MARK_INCONCLUSIVE): print the verdict `inconclusive` for undecided lines

def dedupe (l : List (St × List Nat)) : List (St × List Nat) :=
  (l.foldl (fun (acc : List (St × List Nat) × Std.HashSet String) x =>
    let k := key x.1 ++ toString x.2
    if acc.2.contains k then acc else (x :: acc.1, acc.2.insert k)) ([], {})).1.reverse

/-- apply `f` (environment actions, returns the new state and extra ids to report) to every candidate, settle -/
def advance (d : DS) (f : St → List Nat → Option (St × List Nat)) : List (St × List Nat) × Bool :=
  let rs := d.states.map fun (s, ids) =>
    match f s ids with
    | none => ([], false)
    | some (s', ids') => let (fin, ex) := settle d.cfg d.budget [s']; (fin.map (·, ids'), ex)
  (dedupe (rs.flatMap (·.1)), rs.any (·.2))

def spawnPlain (s : St) (dst : Nat) : St × Nat :=
  (spawnTask s { pc := .check1, mode := .plain, orig := dst, dest := dst, ev := .allow, prev := curServer s }, s.ntasks)

def taskRes (s : St) (i : Nat) : String :=
  let T := s.tasks i
  match T.pc, T.res with
  | .done, some r => resName r
  | .done, none => "none"
  | .wait, _ => "blocked"
  | _, _ => "running"

def srvOf (t : String) : Nat := ((t.drop 1).toString.toNat?).getD 0

structure Obs where
  cur : String := "-"
  lists : String := "-"
  open_ : String := "-"
  pend : Nat := 0
  act : Bool := true

def parseObs (ws : List String) : Obs :=
  ws.foldl (fun o w =>
    match w.splitOn "=" with
    | ["cur", v] => { o with cur := v }
    | ["lists", v] => { o with lists := v }
    | ["open", v] => { o with open_ := v }
    | ["pend", v] => { o with pend := v.toNat?.getD 0 }
    | ["act", v] => { o with act := v = "1" }
    | _ => o) {}

def obsWords (s : String) : List String := (s.splitOn " ").filter (fun w => w.contains '=')

/-- The property, evaluated on the IMPLEMENTATION's output of one op.
    `outstanding` = number of requests the harness knows to be in flight (blocked on a stalled backend) before the op. -/
def judge (d : DS) (op : String) (args : List String) (impl : String) (mp : Nat) : String :=
  let ws := impl.splitOn " "
  let o := parseObs (obsWords impl)
  let prev := parseObs (obsWords d.prevObs)
  let unchanged := obsWords impl = obsWords d.prevObs
  -- consistency of a quiescent state
  let consistent : Option String :=
    if !o.act then
      (if o.lists = "-" && o.open_ = "-" && o.pend = 0 then none
       else if (op = "kick" || op = "drop") && d.outstanding > 0 && o.lists = "-" && o.open_ = "-" && o.pend ≤ d.outstanding + d.orphaned
         then some "viol:kick-orphans-attempt-in-flight"
       else some "viol:left-behind-after-quit")
    else if o.lists ≠ o.cur then some "viol:list-mismatch"
    else if o.open_ ≠ o.cur then some "viol:live-backends"
    else if o.pend > d.outstanding + d.orphaned + (if op = "start" || op = "loginstall" then 1 else 0) then some "viol:leaked-attempt"
    else none
  match consistent with
  | some v => v
  | none =>
    let (op, args) := match op, args with
      | "conn", [_, dst] => ("req", [dst])     -- Connect on a kept request object is judged like any request
      | "tconn", [dst] => ("req", [dst])       -- … and so is a request with a short deadline
      -- a redirected request is judged against its EFFECTIVE destination — unless the player already sits on the
      -- originally requested server: that is answered (AlreadyConnected) before the subscribers are asked
      | "ereq", [orig, to] => if prev.cur = orig then ("req", [orig]) else ("req", [to])
      | "edeny", [dst] => ("req", [dst])
      | o, a => (o, a)
    match op, args, ws with
    | "req", [dst], r :: _ =>
      if mp > d.outstanding + d.orphaned + 1 then "viol:two-attempts-in-flight"
      else if d.outstanding > 0 then
        (if r = "inprogress" && unchanged then "ok" else "viol:inflight-not-reported")
      else if d.orphaned = 0 && prev.act && prev.cur = dst && r ≠ "already" && r ≠ "canceled" then
        -- a request whose (effective) destination is the server the player is on must be answered AlreadyConnected
        "viol:already-connected-not-reported"
      else if r = "ok" then (if o.cur = dst then "ok" else "viol:not-on-destination")
      else if r = "already" then (if unchanged && prev.cur = dst then "ok" else "viol:noop-side-effect")
      else if r = "inprogress" then (if unchanged then "ok" else "viol:noop-side-effect")
      else if r = "canceled" then (if unchanged then "ok" else "viol:noop-side-effect")
      else -- disconnected / err: previous server kept (or, 1.20.2+, given up during configuration)
        (if o.cur = prev.cur || (d.cfg.modern && o.cur = "-") then "ok" else "viol:failed-not-safe")
    | "par", [a, b], r1 :: r2 :: _ =>
      if mp > d.outstanding + d.orphaned + 1 then "viol:two-attempts-in-flight"
      else if d.outstanding > 0 then (if r1 = "inprogress" && r2 = "inprogress" && unchanged then "ok" else "viol:inflight-not-reported")
      else
        let oks := (if r1 = "ok" then [a] else []) ++ (if r2 = "ok" then [b] else [])
        if oks.isEmpty then (if o.cur = prev.cur || (d.cfg.modern && o.cur = "-") then "ok" else "viol:failed-not-safe")
        else if oks.contains o.cur then "ok" else "viol:not-on-destination"
    | "race", [a, b], r1 :: r2 :: _ =>
      -- both requests were held between the check and the publication of their connection: the backends must never
      -- see two unanswered login attempts at the same time
      if mp > d.outstanding + d.orphaned + 1 then "viol:two-attempts-in-flight"
      else
        let oks := (if r1 = "ok" then [a] else []) ++ (if r2 = "ok" then [b] else [])
        if oks.isEmpty then (if o.act then "ok" else "viol:two-attempts-in-flight")
        else if oks.contains o.cur then "ok" else "viol:not-on-destination"
    | "kick", _, _ =>
      if d.outstanding > 0 && o.cur ≠ "-" && o.cur ≠ prev.cur then "viol:kick-redirect-while-in-flight" else "ok"
    | "drop", _, _ =>
      if d.outstanding > 0 && o.cur ≠ "-" && o.cur ≠ prev.cur then "viol:kick-redirect-while-in-flight" else "ok"
    | "release", _, r :: _ =>
      -- the released request(s) complete; a success must leave the player on some server consistently (checked above);
      -- if NO request was outstanding, a backend that speaks now belongs to a request that has already reported
      -- failure: its late JoinGame must be ignored
      if d.outstanding = 0 && d.orphaned = 0 && o.cur ≠ prev.cur then "viol:late-join-after-failed-request"
      else if r.contains "ok" && o.cur = "-" then "viol:not-on-destination" else "ok"
    | _, _, _ => "ok"

/-- the implementation's output without the backend-side `mp=` token (judged by the spec only), and that token's value -/
def splitMp (impl : String) : String × Nat :=
  let ws := impl.splitOn " "
  match ws.getLast? with
  | some w => if w.startsWith "mp=" then (" ".intercalate ws.dropLast, (w.drop 3).toString.toNat?.getD 0) else (impl, 0)
  | none => (impl, 0)

def stepDriver (d : DS) (c0 : Case) : DS × String × String :=
  let (core, mp) := splitMp c0.impl
  -- a trailing `@<scenario>.<step>` argument only makes the case line unique
  let c : Case := { c0 with impl := core, args := c0.args.filter (fun a => !a.startsWith "@") }
  match c.op, c.args with
  | "reset", [_proto, m, try_, scripts] =>
    let cfg := srcCfg (m = "1") ((try_.splitOn ",").map srvOf)
    let s0 : St := { scripts := parseScripts scripts }
    ({ cfg := cfg, states := [(s0, [])], mark := d.mark, budget := d.budget }, "ok", "-")
  | "script", [srv, behs] =>
    let l := (behs.splitOn ".").filterMap parseBeh
    ({ d with states := d.states.map fun (s, ids) => ({ s with scripts := upd s.scripts (srvOf srv) l }, ids) }, "ok", "-")
  | "create", [k, srv] =>
    ({ d with states := d.states.filterMap fun (s, ids) =>
        (step d.cfg s (.create (srvOf srv) (k.toNat?.getD 0))).map (·, ids) }, "ok", "-")
  | op, args =>
    -- environment action(s) of this op and the rendering of a quiescent state
    let spec : Option ((St → List Nat → Option (St × List Nat)) × ((St × List Nat) → String × (St × List Nat))) :=
      match op, args with
      | "login", [] =>
        some (fun s ids =>
          match d.cfg.try_ with
          | [] => none
          | t0 :: _ => some (spawnTask s { pc := .check1, mode := .indication, orig := t0, dest := t0, ev := .allow }, ids),
          fun (s, ids) => ((if s.active then "ok " else "fail ") ++ observe s, (s, ids)))
      | "loginstall", [] =>
        some (fun s ids =>
          match d.cfg.try_ with
          | [] => none
          | t0 :: _ =>
            some (spawnTask s { pc := .check1, mode := .indication, orig := t0, dest := t0, ev := .allow }, ids ++ [s.ntasks]),
          fun (s, ids) =>
            let r := taskRes s ids.getLast!
            if r = "blocked" then ("stalled " ++ observe s, (s, ids))
            else ("returned:" ++ r ++ " " ++ observe s, (s, ids.dropLast)))
      | "conn", [k, _dst] =>
        some (fun s ids =>
          match (range s.ntasks).find? fun i => (s.tasks i).tag = k.toNat?.getD 0 && (s.tasks i).pc == .created with
          | some i => (step d.cfg s (.task i)).map (·, ids ++ [i])
          | none => none,
          fun (s, ids) => (taskRes s ids.getLast! ++ " " ++ observe s, (s, ids.dropLast)))
      | "req", [dst] =>
        some (fun s ids => let (s', i) := spawnPlain s (srvOf dst); some (s', ids ++ [i]),
          fun (s, ids) => (taskRes s ids.getLast! ++ " " ++ observe s, (s, ids.dropLast)))
      | "ereq", [dst, to] =>  -- a ServerPreConnectEvent subscriber redirects the request to `to`
        some (fun s ids =>
          let (s', i) := spawnPlain s (srvOf dst)
          some ({ s' with tasks := upd s'.tasks i { s'.tasks i with ev := .redirect (srvOf to) } }, ids ++ [i]),
          fun (s, ids) => (taskRes s ids.getLast! ++ " " ++ observe s, (s, ids.dropLast)))
      | "edeny", [dst] =>     -- … or denies it
        some (fun s ids =>
          let (s', i) := spawnPlain s (srvOf dst)
          some ({ s' with tasks := upd s'.tasks i { s'.tasks i with ev := .deny } }, ids ++ [i]),
          fun (s, ids) => (taskRes s ids.getLast! ++ " " ++ observe s, (s, ids.dropLast)))
      | "tconn", [dst] =>     -- Connect with a short deadline: it expires at some point of the attempt
        some (fun s ids =>
          let (s', i) := spawnPlain s (srvOf dst)
          some ({ s' with tasks := upd s'.tasks i { s'.tasks i with timed := true } }, ids ++ [i]),
          fun (s, ids) => (taskRes s ids.getLast! ++ " " ++ observe s, (s, ids.dropLast)))
      | "start", [dst] =>
        some (fun s ids => let (s', i) := spawnPlain s (srvOf dst); some (s', ids ++ [i]),
          fun (s, ids) =>
            let r := taskRes s ids.getLast!
            if r = "blocked" then ("stalled " ++ observe s, (s, ids))
            else ("returned:" ++ r ++ " " ++ observe s, (s, ids.dropLast)))
      | "release", [] =>
        some (fun s ids => some ((range s.nconns).foldl (fun s c => (step d.cfg s (.release c)).getD s) s, ids),
          fun (s, ids) => (",".intercalate (ids.map (taskRes s)) ++ " " ++ observe s, (s, [])))
      | "par", [a, b] =>
        some (fun s ids =>
          let (s1, i) := spawnPlain s (srvOf a)
          let (s2, j) := spawnPlain s1 (srvOf b)
          some (s2, ids ++ [i, j]),
          fun (s, ids) =>
            let j := ids.getLast!
            let i := ids.dropLast.getLast!
            (taskRes s i ++ " " ++ taskRes s j ++ " " ++ observe s, (s, ids.dropLast.dropLast)))
      | "race", [a, b] =>
        some (fun s ids =>
          let (s1, i) := spawnPlain s (srvOf a)
          let (s2, j) := spawnPlain s1 (srvOf b)
          some (s2, ids ++ [i, j]),
          fun (s, ids) =>
            let j := ids.getLast!
            let i := ids.dropLast.getLast!
            (taskRes s i ++ " " ++ taskRes s j ++ " " ++ observe s, (s, ids.dropLast.dropLast)))
      | "kick", [srv] =>
        some (fun s ids =>
          match (range s.nconns).find? fun c => (s.conns c).phase = .play && (s.conns c).server = srvOf srv with
          | some c => (step d.cfg s (.kick c)).map (·, ids)
          | none => some (s, 0 :: ids),
          fun (s, ids) =>
            match ids with
            | 0 :: rest => ("nolive " ++ observe s, (s, rest))
            | _ => (observe s, (s, ids)))
      | "drop", [srv] =>
        some (fun s ids =>
          match (range s.nconns).find? fun c => (s.conns c).phase = .play && (s.conns c).server = srvOf srv with
          | some c => (step d.cfg s (.drop c)).map (·, ids)
          | none => some (s, 0 :: ids),
          fun (s, ids) =>
            match ids with
            | 0 :: rest => ("nolive " ++ observe s, (s, rest))
            | _ => (observe s, (s, ids)))
      | "quit", [] =>
        some (fun s ids => (step d.cfg s .quit).map (·, ids), fun (s, ids) => (observe s, (s, ids)))
      | _, _ => none
    let (cands, exhausted) : List (String × (St × List Nat)) × Bool :=
      match spec with
      | some (f, render) => let (fin, ex) := advance d f; (fin.map render, ex)
      | none => ([], false)
    let matching := cands.filter (·.1 = c.impl)
    -- A search that hit its budget decides nothing about an observation it did not find: the line (and any later
    -- line of the scenario that is not found among the then incomplete candidates) is INCONCLUSIVE — the model
    -- column echoes the observation (no disagreement is claimed), the executable spec is still evaluated on it.
    let inconclusive := matching.isEmpty && (exhausted || d.partialSearch)
    let verdict := if inconclusive && d.mark then "inconclusive" else judge d op args c.impl mp
    let out := if !matching.isEmpty || inconclusive then c.impl else
      match (cands.map (·.1)).toArray.qsort (· < ·) |>.toList with
      | x :: _ => x
      | [] => "no-model-state"
    let states' := if matching.isEmpty then cands.map (·.2) else matching.map (·.2)
    let d := { d with partialSearch := d.partialSearch || exhausted }
    let outstanding' :=
      match op with
      | "start" => if c.impl.startsWith "stalled" then d.outstanding + 1 else d.outstanding
      | "loginstall" => if c.impl.startsWith "stalled" then d.outstanding + 1 else d.outstanding
      | "release" => 0
      | "kick" => if c.impl.startsWith "nolive" then d.outstanding else 0
      | "drop" => if c.impl.startsWith "nolive" then d.outstanding else 0
      | _ => d.outstanding
    let orphaned' :=
      match op with
      | "release" => 0
      | "kick" => if c.impl.startsWith "nolive" then d.orphaned else d.orphaned + d.outstanding
      | "drop" => if c.impl.startsWith "nolive" then d.orphaned else d.orphaned + d.outstanding
      | _ => d.orphaned
    ({ d with states := dedupe states', prevObs := c.impl, outstanding := outstanding', orphaned := orphaned' },
     out ++ " mp=" ++ toString mp, verdict)

end Gate.C16

def main : IO Unit := do
  let mark := (← IO.getEnv "C16_MARK_INCONCLUSIVE").isSome
  let budget := ((← IO.getEnv "C16_BUDGET").bind String.toNat?).getD 300000
  Gate.runDriver ({ mark := mark, budget := budget } : Gate.C16.DS) Gate.C16.stepDriver
