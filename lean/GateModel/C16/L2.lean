import GateModel.C16.L1
/-
C16 — invariants, part 2: task-side invariants and the in-flight invariant (one attempt at a time).
-/
namespace Gate.C16

set_option linter.unusedSimpArgs false
set_option linter.unusedVariables false

/-! ### task-side invariants -/
def earlyPc (pc : PC) : Bool := match pc with | .created | .check1 | .event | .check2 | .set => true | _ => false
def pastWait (pc : PC) : Bool := match pc with | .deferReset | .post | .cancel => true | _ => false

/-- a task's connection id is a real connection -/
def TC (s : St) : Prop := ∀ i, i < s.ntasks → ∀ c, (s.tasks i).conn = some c → c < s.nconns
/-- before publishing, a request has no connection -/
def TN (s : St) : Prop := ∀ i, i < s.ntasks → earlyPc (s.tasks i).pc = true → (s.tasks i).conn = none
/-- once a request has its result (or the dial was refused) its connection is no attempt any more -/
def W (s : St) : Prop := ∀ i, i < s.ntasks → pastWait (s.tasks i).pc = true →
  ∀ c, (s.tasks i).conn = some c → attempting (s.conns c) = false

theorem stepTask_TC {cfg : Cfg} {s s' : St} {i : Nat} (hTC : TC s) (h : stepTask cfg s i = some s') : TC s' := by
  unfold stepTask at h
  split at h
  · simp at h
  · rename_i hi
    have hTCi := hTC i (by omega)
    simp only [] at h
    cases hpc : (s.tasks i).pc <;> simp only [hpc] at h
    all_goals (repeat' (split at h))
    all_goals (try (simp at h; done))
    all_goals (try (injection h with h; subst h))
    all_goals (intro j hj c hcj; have hTCj := hTC j)
    all_goals (simp only [setPc_tasks, finish_tasks, upd_apply, setPc_ntasks, finish_ntasks, quitPlayer_tasks,
      closeConn_tasks, quitPlayer_ntasks, closeConn_ntasks, setPc_nconns, finish_nconns, quitPlayer_nconns,
      closeConn_nconns] at hj hcj ⊢)
    all_goals (try (split at hcj))
    all_goals first
      | (simp_all; done)
      | (simp_all; omega)
      | (have := hTCj hj c hcj; omega)
      | skip


theorem stepTask_TN {cfg : Cfg} {s s' : St} {i : Nat} (hTN : TN s) (h : stepTask cfg s i = some s') : TN s' := by
  unfold stepTask at h
  split at h
  · simp at h
  · rename_i hi
    have hTNi := hTN i (by omega)
    simp only [] at h
    cases hpc : (s.tasks i).pc <;> simp only [hpc] at h
    all_goals (repeat' (split at h))
    all_goals (try (simp at h; done))
    all_goals (try (injection h with h; subst h))
    all_goals (intro j hj hpe; have hTNj := hTN j)
    all_goals (simp only [setPc_tasks, finish_tasks, upd_apply, setPc_ntasks, finish_ntasks, quitPlayer_tasks,
      closeConn_tasks, quitPlayer_ntasks, closeConn_ntasks] at hj hpe ⊢)
    all_goals (try (split at hpe))
    all_goals first
      | (simp_all [earlyPc]; done)
      | skip

theorem stepTask_W {cfg : Cfg} {s s' : St} {i : Nat} (hJP : JP s) (hTC : TC s) (hTN : TN s) (hW : W s)
    (h : stepTask cfg s i = some s') : W s' := by
  intro j hj hpw c hcj
  -- either task j was already past its wait with the same connection (then monotonicity applies) …
  by_cases hold : j < s.ntasks ∧ pastWait (s.tasks j).pc = true ∧ (s.tasks j).conn = some c
  · obtain ⟨hj0, hp0, hc0⟩ := hold
    have hlt := hTC j hj0 c hc0
    have hf := hW j hj0 hp0 c hc0
    cases hatt : attempting (s'.conns c) with
    | false => rfl
    | true => have := stepTask_mono h c hlt hatt; simp_all
  · -- … or it is the stepping task entering that region
    unfold stepTask at h
    split at h
    · simp at h
    · rename_i hi
      have hTNi := hTN i (by omega)
      have hTCi := hTC i (by omega)
      have hDH : ∀ o, o < s.nconns → (s.conns o).phase = .dialing → (s.conns o).h = .idle :=
        fun o ho hp => ((hJP o ho).2.2.1 hp).1
      simp only [] at h
      cases hpc : (s.tasks i).pc <;> simp only [hpc] at h
      all_goals (repeat' (split at h))
      all_goals (try (simp at h; done))
      all_goals (try (injection h with h; subst h))
      all_goals (simp only [setPc_tasks, finish_tasks, upd_apply, setPc_ntasks, finish_ntasks, quitPlayer_tasks,
        closeConn_tasks, quitPlayer_ntasks, closeConn_ntasks, setPc_conns, finish_conns] at hj hpw hcj hold ⊢)
      all_goals (try (split at hpw))
      all_goals first
        | (simp_all [earlyPc, pastWait]; done)
        | (rename_i hji; subst hji; simp_all [earlyPc, pastWait, attempting]; done)
        | (rename_i hji; subst hji
           rename_i o _ _ _ _ _ _ _
           have h1 := hDH o (hTCi o (by assumption))
           simp_all [earlyPc, pastWait, attempting]; done)
        | skip


/-- steps of other goroutines leave existing tasks alone and may only append fresh tasks without a connection -/
def TasksExt (s s' : St) : Prop :=
  s.ntasks ≤ s'.ntasks ∧ (∀ j, j < s.ntasks → s'.tasks j = s.tasks j) ∧
  (∀ j, s.ntasks ≤ j → j < s'.ntasks → (s'.tasks j).conn = none ∧ pastWait (s'.tasks j).pc = false)

theorem stepBack_tasksExt {cfg : Cfg} {s s' : St} {c0 : Nat} (h : stepBack cfg s c0 = some s') : TasksExt s s' := by
  unfold stepBack at h
  split at h
  · simp at h
  · simp only [] at h
    cases hh : (s.conns c0).h <;> simp only [hh] at h
    all_goals (repeat' (split at h))
    all_goals (try (simp at h; done))
    all_goals (try (injection h with h; subst h))
    all_goals (refine ⟨by simp, ?_, ?_⟩)
    all_goals first
      | (intro j hj; simp; done)
      | (intro j hj; rw [spawnTask_tasks, if_neg (by simp; omega)]; rfl)
      | (intro j hj1 hj2; simp at hj2; first | omega | (have : j = s.ntasks := by omega
                                                        subst this; simp [spawnTask_tasks, pastWait]))

theorem TC_ext {s s' : St} (hTC : TC s) (hn : s.nconns ≤ s'.nconns) (he : TasksExt s s') : TC s' := by
  intro j hj c hcj
  by_cases hlt : j < s.ntasks
  · rw [he.2.1 j hlt] at hcj; have := hTC j hlt c hcj; omega
  · have := (he.2.2 j (by omega) hj).1; simp_all

theorem W_ext {s s' : St} (hTC : TC s) (hW : W s) (he : TasksExt s s')
    (hm : ∀ c, c < s.nconns → attempting (s'.conns c) = true → attempting (s.conns c) = true) : W s' := by
  intro j hj hpw c hcj
  by_cases hlt : j < s.ntasks
  · rw [he.2.1 j hlt] at hcj hpw
    have hf := hW j hlt hpw c hcj
    cases hatt : attempting (s'.conns c) with
    | false => rfl
    | true => have := hm c (hTC j hlt c hcj) hatt; simp_all
  · have := (he.2.2 j (by omega) hj).2; simp_all


theorem TN_ext {s s' : St} (hTN : TN s) (he : TasksExt s s') : TN s' := by
  intro j hj hpe
  by_cases hlt : j < s.ntasks
  · rw [he.2.1 j hlt] at hpe ⊢; exact hTN j hlt hpe
  · exact (he.2.2 j (by omega) hj).1

theorem tasksExt_refl (s : St) : TasksExt s s := ⟨Nat.le_refl _, fun _ _ => rfl, fun j h1 h2 => by omega⟩

theorem tasksExt_spawn (s : St) (t : Task) (h1 : t.conn = none) (h2 : pastWait t.pc = false) :
    TasksExt s (spawnTask s t) := by
  refine ⟨by simp, ?_, ?_⟩
  · intro j hj; rw [spawnTask_tasks, if_neg (by omega)]
  · intro j hj1 hj2
    simp at hj2
    have : j = s.ntasks := by omega
    subst this; simp [spawnTask_tasks, h1, h2]

theorem step_tasksExt {cfg : Cfg} {s s' : St} {a : Act} (hna : ∀ i, a ≠ .task i) (h : step cfg s a = some s') :
    TasksExt s s' := by
  cases a with
  | task i => exact absurd rfl (hna i)
  | back c0 => exact stepBack_tasksExt h
  | spawn m d ev => simp [step] at h; subst h; exact tasksExt_spawn _ _ rfl rfl
  | create d tag => simp [step] at h; subst h; exact tasksExt_spawn _ _ rfl rfl
  | release c0 =>
    simp only [step] at h
    split at h
    · injection h with h; subst h; exact tasksExt_refl s
    · simp at h
  | deadline c0 => simp only [step] at h; split at h <;> simp at h; subst h; exact tasksExt_refl s
  | watch c0 =>
    simp only [step] at h
    repeat' (split at h)
    all_goals (try (simp at h; done))
    all_goals (injection h with h; subst h)
    · simpa [TasksExt] using tasksExt_refl s
    · exact tasksExt_refl s
  | kick c0 =>
    simp only [step] at h
    split at h
    · injection h with h; subst h
      have := tasksExt_spawn (closeConn s c0)
        { pc := .err2 (s.conns c0).server, orig := (s.conns c0).server, dest := (s.conns c0).server } rfl rfl
      simpa [TasksExt] using this
    · simp at h
  | drop c0 =>
    simp only [step] at h
    split at h
    · injection h with h; subst h
      have := tasksExt_spawn (closeConn s c0)
        { pc := .err2 (s.conns c0).server, orig := (s.conns c0).server, dest := (s.conns c0).server } rfl rfl
      simpa [TasksExt] using this
    · simp at h
  | quit => simp [step] at h; subst h; simpa [TasksExt] using tasksExt_refl s

/-! ### the in-flight invariant -/
/-- an attempt in flight owns the in-flight slot -/
def A (s : St) : Prop := ∀ c, c < s.nconns → attempting (s.conns c) = true → s.inFlight = some c

def resetPc : PC → Bool
  | .resetIf _ => true
  | .kickReset _ _ => true
  | _ => false

/-- hypothesis on a step: the kick path clears the in-flight slot only while no attempt is in flight -/
def Guard1 (s : St) : Act → Prop
  | .task i => resetPc (s.tasks i).pc = true → ∀ c, c < s.nconns → attempting (s.conns c) = false
  | _ => True

theorem checkServer_none_inFlight (s : St) (d : Nat) (h : checkServer s d = none) : s.inFlight = none := by
  unfold checkServer at h
  split at h <;> simp_all

theorem stepTask_A {cfg : Cfg} {s s' : St} {i : Nat} (hat : cfg.atomicSet = true) (hfr : cfg.foreignReset = false)
    (hJP : JP s) (hTC : TC s) (hW : W s) (hA : A s) (hG : Guard1 s (.task i))
    (h : stepTask cfg s i = some s') : A s' := by
  intro c hc hatt
  have hmono := fun hlt => stepTask_mono h c hlt hatt
  unfold stepTask at h
  split at h
  · simp at h
  · rename_i hi
    have hWi := hW i (by omega)
    have hTCi := hTC i (by omega)
    simp only [Guard1] at hG
    simp only [] at h
    cases hpc : (s.tasks i).pc <;> simp only [hpc] at h
    all_goals (repeat' (split at h))
    all_goals (try (simp at h; done))
    all_goals (try (injection h with h; subst h))
    all_goals (simp only [setPc_nconns, finish_nconns, quitPlayer_nconns, closeConn_nconns, setPc_inFlight,
      finish_inFlight, quitPlayer_inFlight, closeConn_inFlight] at hc ⊢)
    all_goals first
      | exact hA c hc (hmono hc)
      | (by_cases hlt : c < s.nconns
         · have hin := hA c hlt (hmono hlt)
           have hcs := checkServer_none_inFlight s
           simp_all [pastWait, resetPc]
         · simp_all; try omega)
      | skip

theorem stepBack_A {cfg : Cfg} {s s' : St} {c0 : Nat} (hJP : JP s) (hA : A s)
    (h : stepBack cfg s c0 = some s') : A s' := by
  intro c hc hatt
  have hmono := fun hlt => stepBack_mono hJP h c hlt hatt
  unfold stepBack at h
  split at h
  · simp at h
  · rename_i hlt0
    have hJ0 := hJP c0 (by omega)
    simp only [] at h
    cases hh : (s.conns c0).h <;> simp only [hh] at h
    all_goals (repeat' (split at h))
    all_goals (try (simp at h; done))
    all_goals (try (injection h with h; subst h))
    all_goals (simp only [setH_nconns, closeConn_nconns, closeOpt_nconns, spawnTask_nconns, setH_inFlight,
      closeConn_inFlight, closeOpt_inFlight, spawnTask_inFlight] at hc ⊢)
    all_goals first
      | exact hA c hc (hmono hc)
      | (have hin := hA c hc (hmono hc)
         dsimp only at hatt
         simp only [upd_apply] at hatt
         by_cases hcc : c = c0
         · subst hcc
           simp [attempting] at hatt
           unfold jpOK at hJ0
           cases hp : (s.conns c).phase <;> simp_all
         · simp_all)
      | skip

theorem step_A {cfg : Cfg} {s s' : St} {a : Act} (hat : cfg.atomicSet = true) (hfr : cfg.foreignReset = false)
    (hJP : JP s) (hTC : TC s) (hW : W s) (hA : A s) (hG : Guard1 s a)
    (h : step cfg s a = some s') : A s' := by
  cases a with
  | task i => exact stepTask_A hat hfr hJP hTC hW hA hG h
  | back c0 => exact stepBack_A hJP hA h
  | spawn m d ev =>
    intro c hc hatt
    have := step_mono hJP h c
    simp [step] at h; subst h
    exact hA c hc (this hc hatt)
  | create d tag =>
    intro c hc hatt
    have := step_mono hJP h c
    simp [step] at h; subst h
    exact hA c hc (this hc hatt)
  | release c0 =>
    intro c hc hatt
    have hm := step_mono hJP h c
    simp only [step] at h
    split at h
    · injection h with h; subst h; exact hA c hc (hm hc hatt)
    · simp at h
  | deadline c0 =>
    intro c hc hatt
    have hm := step_mono hJP h c
    simp only [step] at h
    split at h <;> simp at h
    subst h; exact hA c hc (hm hc hatt)
  | watch c0 =>
    intro c hc hatt
    have hm := step_mono hJP h c
    have hn := step_nconns h
    simp only [step] at h
    repeat' (split at h)
    all_goals (try (simp at h; done))
    all_goals (injection h with h; subst h)
    · simp only [closeConn_nconns, closeConn_inFlight] at hc ⊢
      exact hA c hc (hm hc hatt)
    · exact hA c hc (hm hc hatt)
  | kick c0 =>
    intro c hc hatt
    have hm := step_mono hJP h c
    simp only [step] at h
    split at h
    · injection h with h; subst h
      simp only [spawnTask_nconns, closeConn_nconns, spawnTask_inFlight, closeConn_inFlight] at hc ⊢
      exact hA c hc (hm hc hatt)
    · simp at h
  | drop c0 =>
    intro c hc hatt
    have hm := step_mono hJP h c
    simp only [step] at h
    split at h
    · injection h with h; subst h
      simp only [spawnTask_nconns, closeConn_nconns, spawnTask_inFlight, closeConn_inFlight] at hc ⊢
      exact hA c hc (hm hc hatt)
    · simp at h
  | quit =>
    intro c hc hatt
    have hm := step_mono hJP h c
    simp [step] at h; subst h
    simp only [quitPlayer_nconns, quitPlayer_inFlight] at hc ⊢
    exact hA c hc (hm hc hatt)

structure Inv1 (s : St) : Prop where
  jp : JP s
  tc : TC s
  tn : TN s
  w : W s
  a : A s


theorem step_TC {cfg : Cfg} {s s' : St} {a : Act} (hTC : TC s) (h : step cfg s a = some s') : TC s' := by
  cases a with
  | task i => exact stepTask_TC hTC h
  | back c0 => exact TC_ext hTC (step_nconns h) (step_tasksExt (by intro i; simp) h)
  | spawn m d ev => exact TC_ext hTC (step_nconns h) (step_tasksExt (by intro i; simp) h)
  | create d tag => exact TC_ext hTC (step_nconns h) (step_tasksExt (by intro i; simp) h)
  | release c0 => exact TC_ext hTC (step_nconns h) (step_tasksExt (by intro i; simp) h)
  | deadline c0 => exact TC_ext hTC (step_nconns h) (step_tasksExt (by intro i; simp) h)
  | watch c0 => exact TC_ext hTC (step_nconns h) (step_tasksExt (by intro i; simp) h)
  | kick c0 => exact TC_ext hTC (step_nconns h) (step_tasksExt (by intro i; simp) h)
  | drop c0 => exact TC_ext hTC (step_nconns h) (step_tasksExt (by intro i; simp) h)
  | quit => exact TC_ext hTC (step_nconns h) (step_tasksExt (by intro i; simp) h)

theorem step_TN {cfg : Cfg} {s s' : St} {a : Act} (hTN : TN s) (h : step cfg s a = some s') : TN s' := by
  cases a with
  | task i => exact stepTask_TN hTN h
  | back c0 => exact TN_ext hTN (step_tasksExt (by intro i; simp) h)
  | spawn m d ev => exact TN_ext hTN (step_tasksExt (by intro i; simp) h)
  | create d tag => exact TN_ext hTN (step_tasksExt (by intro i; simp) h)
  | release c0 => exact TN_ext hTN (step_tasksExt (by intro i; simp) h)
  | deadline c0 => exact TN_ext hTN (step_tasksExt (by intro i; simp) h)
  | watch c0 => exact TN_ext hTN (step_tasksExt (by intro i; simp) h)
  | kick c0 => exact TN_ext hTN (step_tasksExt (by intro i; simp) h)
  | drop c0 => exact TN_ext hTN (step_tasksExt (by intro i; simp) h)
  | quit => exact TN_ext hTN (step_tasksExt (by intro i; simp) h)

theorem step_W {cfg : Cfg} {s s' : St} {a : Act} (hJP : JP s) (hTC : TC s) (hTN : TN s) (hW : W s)
    (h : step cfg s a = some s') : W s' := by
  cases a with
  | task i => exact stepTask_W hJP hTC hTN hW h
  | back c0 => exact W_ext hTC hW (step_tasksExt (by intro i; simp) h) (fun c hc => step_mono hJP h c hc)
  | spawn m d ev => exact W_ext hTC hW (step_tasksExt (by intro i; simp) h) (fun c hc => step_mono hJP h c hc)
  | create d tag => exact W_ext hTC hW (step_tasksExt (by intro i; simp) h) (fun c hc => step_mono hJP h c hc)
  | release c0 => exact W_ext hTC hW (step_tasksExt (by intro i; simp) h) (fun c hc => step_mono hJP h c hc)
  | deadline c0 => exact W_ext hTC hW (step_tasksExt (by intro i; simp) h) (fun c hc => step_mono hJP h c hc)
  | watch c0 => exact W_ext hTC hW (step_tasksExt (by intro i; simp) h) (fun c hc => step_mono hJP h c hc)
  | kick c0 => exact W_ext hTC hW (step_tasksExt (by intro i; simp) h) (fun c hc => step_mono hJP h c hc)
  | drop c0 => exact W_ext hTC hW (step_tasksExt (by intro i; simp) h) (fun c hc => step_mono hJP h c hc)
  | quit => exact W_ext hTC hW (step_tasksExt (by intro i; simp) h) (fun c hc => step_mono hJP h c hc)

/-- the invariant is preserved by every step of the repaired code that respects `Guard1` -/
theorem inv1_step {cfg : Cfg} {s s' : St} {a : Act} (hat : cfg.atomicSet = true) (hfr : cfg.foreignReset = false)
    (hwc : cfg.watcherCloses = true) (hI : Inv1 s) (hG : Guard1 s a) (h : step cfg s a = some s') : Inv1 s' :=
  ⟨step_JP hwc hI.jp h, step_TC hI.tc h, step_TN hI.tn h, step_W hI.jp hI.tc hI.tn hI.w h,
   step_A hat hfr hI.jp hI.tc hI.w hI.a hG h⟩

theorem inv1_init (s : St) (h0 : s.nconns = 0) (h1 : s.ntasks = 0) : Inv1 s :=
  ⟨fun c hc => by omega, fun i hi => by omega, fun i hi => by omega, fun i hi => by omega, fun c hc => by omega⟩

/-! ### counting -/
theorem count_zero (s : St) (n : Nat) (h : ∀ c, c < n → attempting (s.conns c) = false) : countAttempting s n = 0 := by
  induction n with
  | zero => rfl
  | succ n ih =>
    simp only [countAttempting]
    rw [ih (fun c hc => h c (by omega)), h n (by omega)]; rfl

theorem count_le_one (s : St) (n : Nat)
    (h : ∀ c c', c < n → c' < n → attempting (s.conns c) = true → attempting (s.conns c') = true → c = c') :
    countAttempting s n ≤ 1 := by
  induction n with
  | zero => simp [countAttempting]
  | succ n ih =>
    simp only [countAttempting]
    by_cases hn : attempting (s.conns n) = true
    · have hz : countAttempting s n = 0 := by
        apply count_zero
        intro c hc
        cases hcc : attempting (s.conns c) with
        | false => rfl
        | true => have := h c n (by omega) (by omega) hcc hn; omega
      rw [hz, if_pos hn]; omega
    · rw [if_neg hn]
      have := ih (fun c c' hc hc' => h c c' (by omega) (by omega))
      omega

theorem inv1_count (s : St) (hI : Inv1 s) : inFlightCount s ≤ 1 := by
  apply count_le_one
  intro c c' hc hc' ha ha'
  have h1 := hI.a c hc ha
  have h2 := hI.a c' hc' ha'
  rw [h1] at h2; injection h2

end Gate.C16
